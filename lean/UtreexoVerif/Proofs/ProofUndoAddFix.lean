/-
  The repaired `Proof.undoAdd` is the inverse of the addition step (property C08, level 1), for
  EVERY block: also when the additions destroyed empty roots (`ToDestroy ≠ ∅`) and when the
  forest before the block was empty.

  `F` = forest before the additions (after the deletions of the block), `G = F.addMany adds`.
  `proofUndoAdd` (`Model/ProofUpdate.lean`) walks through `ToDestroy` backwards and moves every
  target and proof position down (`moveDownPosition`), prunes what does not exist in a forest of
  `F.numLeaves` leaves, re-encodes for the previous number of rows, sorts, and keeps the proof
  hashes at the needed positions.

  Helper levels: `Proofs/ProofUndoAddMove.lean` (the walk returns the origin of every node of `G`:
  old nodes return to their position in `F`, nodes with an added leaf to a position outside `F`).
-/
import UtreexoVerif.Proofs.ProofUndoAddMove

namespace UtreexoVerif.Proofs.ProofUndoAddFix
open UtreexoVerif Spec Hasher Model
open UtreexoVerif.Proofs UtreexoVerif.Proofs.SpecNodes UtreexoVerif.Proofs.SpecSubs
open UtreexoVerif.Proofs.SpecPlan UtreexoVerif.Proofs.CalcComplete
open UtreexoVerif.Proofs.CalcGeo UtreexoVerif.Proofs.Movement UtreexoVerif.Proofs.CalcPlan
open UtreexoVerif.Proofs.Sorted UtreexoVerif.Proofs.MovePP UtreexoVerif.Proofs.ProofUpdateHelpers
open UtreexoVerif.Proofs.ProofUpdateLists UtreexoVerif.Proofs.ProofUpdateGnp
open UtreexoVerif.Proofs.MoveFold UtreexoVerif.Proofs.ProofUpdateRemove
open UtreexoVerif.Proofs.AddMove UtreexoVerif.Proofs.AddPP UtreexoVerif.Proofs.FinalPos
open UtreexoVerif.Proofs.ProofUpdateRemap UtreexoVerif.Proofs.ProofUpdateAdd
open UtreexoVerif.Proofs.ProofUndoLists UtreexoVerif.Proofs.StumpAddPos
open UtreexoVerif.Proofs.ChunkBridge UtreexoVerif.Proofs.ProofUndoLoops
open UtreexoVerif.Proofs.ProofUndoMove UtreexoVerif.Proofs.ProofUndoDel
open UtreexoVerif.Proofs.ProofUndoAdd UtreexoVerif.Proofs.ProofUndoAddMove

/-! ### list level: the repaired `pruneEdges`, the walk over both lists -/

section lists
variable {H : Type}

/-- the test of the repaired `pruneEdges` for one position -/
def pruneKeepNew (numAdds numLeaves : U64) (forestRows prevForestRows : U8) (target : U64) : Bool :=
  let row := DetectRow target forestRows
  if row > prevForestRows then false
  else
    (numLeaves != numAdds) &&
    decide (startPositionAtRow row prevForestRows + (target - startPositionAtRow row forestRows) ≤
      (maxPositionAtRow row prevForestRows (numLeaves - numAdds)).1)

theorem pruneKeepNew_eq (a n : U64) (fr pfr : U8) (t : U64) :
    pruneKeepNew a n fr pfr t = ((n != a) && pruneKeep a n fr pfr t) := by
  unfold pruneKeepNew pruneKeep
  simp only
  split <;> simp

/-- the repaired `pruneEdges` is a filter when `maxPositionAtRow` reports no error on the rows that
reach it -/
theorem pruneEdges_eq (a n : U64) (fr pfr : U8) : ∀ (l acc : HP H),
    (∀ x ∈ l, ¬ DetectRow x.1 fr > pfr →
      (maxPositionAtRow (DetectRow x.1 fr) pfr (n - a)).2 = false) →
    pruneEdges a n fr pfr l acc = .ok (acc ++ l.filter (fun x => pruneKeepNew a n fr pfr x.1)) := by
  intro l
  induction l with
  | nil => intro acc _; simp [pruneEdges]
  | cons x rest ih =>
    intro acc hne
    obtain ⟨target, h⟩ := x
    have hrest : ∀ y ∈ rest, ¬ DetectRow y.1 fr > pfr →
        (maxPositionAtRow (DetectRow y.1 fr) pfr (n - a)).2 = false :=
      fun y hy => hne y (List.mem_cons_of_mem _ hy)
    unfold pruneEdges
    simp only
    by_cases hrow : DetectRow target fr > pfr
    · rw [if_pos hrow, ih acc hrest, List.filter_cons_of_neg]
      simp [pruneKeepNew, hrow]
    · rw [if_neg hrow]
      have herr := hne (target, h) List.mem_cons_self hrow
      simp only at herr
      rcases hm : maxPositionAtRow (DetectRow target fr) pfr (n - a) with ⟨maxPos, err⟩
      rw [hm] at herr
      simp only at herr
      subst herr
      simp only [Bool.false_eq_true, if_false]
      by_cases hk : ((n != a) && decide (startPositionAtRow (DetectRow target fr) pfr +
          (target - startPositionAtRow (DetectRow target fr) fr) ≤ maxPos)) = true
      · rw [if_pos hk, ih _ hrest, List.filter_cons_of_pos]
        · simp
        · simp only [pruneKeepNew, hrow, if_false, hm]; exact hk
      · rw [if_neg hk, ih _ hrest, List.filter_cons_of_neg]
        simp only [pruneKeepNew, hrow, if_false, hm]; exact hk

/-- the walk of the repaired `undoAdd` over the two position lists: every position goes through
`moveBack` -/
theorem foldl_moveDown (rows : U8) (td : List U64) (tw pw : HP H) :
    td.reverse.foldl (fun (st : HP H × HP H) destroyed =>
        (st.1.map (fun (x : U64 × H) =>
            (moveDownPosition rows (Parent destroyed rows) destroyed x.1, x.2)),
         st.2.map (fun (x : U64 × H) =>
            (moveDownPosition rows (Parent destroyed rows) destroyed x.1, x.2)))) (tw, pw) =
      (tw.map (fun x => (moveBack rows td x.1, x.2)), pw.map (fun x => (moveBack rows td x.1, x.2))) := by
  unfold moveBack
  generalize td.reverse = l
  induction l generalizing tw pw with
  | nil => simp
  | cons d t ih =>
    simp only [List.foldl_cons]
    rw [ih]
    simp only [List.map_map]
    congr 1

end lists

/-! ### bit level: the test of the repaired `pruneEdges` -/

/-- **the repaired `pruneEdges` keeps exactly the positions that exist in the previous forest**, of
any number `n` of leaves (none when `n = 0`): `(r, o)` with `r ≤ TreeRows n` and `o < n / 2^r` -/
theorem pruneKeepNew_enc {n a : Nat} (hN : n + a ≤ 2 ^ 63) {p : Pos}
    (hp : Valid (forestRows (n + a)) p) :
    pruneKeepNew (BitVec.ofNat 64 a) (BitVec.ofNat 64 (n + a)) (H8 (forestRows (n + a)))
        (H8 (forestRows n)) (E (forestRows (n + a)) p) =
      decide (p.1 ≤ forestRows n ∧ p.2 < n / 2 ^ p.1) := by
  rw [pruneKeepNew_eq]
  by_cases hn0 : n = 0
  · subst hn0
    have e : (BitVec.ofNat 64 (0 + a) != BitVec.ofNat 64 a) = false := by simp
    rw [e]
    simp
  · have e : (BitVec.ofNat 64 (n + a) != BitVec.ofNat 64 a) = true := by
      rw [bne_iff_ne]
      intro h
      have := congrArg BitVec.toNat h
      rw [N_toNat (n := n + a) (by omega), N_toNat (n := a) (by omega)] at this
      omega
    rw [e, Bool.true_and]
    exact pruneKeep_enc hN hn0 hp

/-! ### specification level: every node of the new forest has an origin -/

section
set_option linter.unusedSectionVars false
variable {H : Type} [DecidableEq H] [Hasher H]

section ctx
variable {F : Forest H} {adds : List H} (nz : NZ H)
  (hN : F.numLeaves + adds.length ≤ 2 ^ 63)
  (hndG : (F.addMany adds).liveLeaves.Nodup)
  (hleaf : ∀ x ∈ (F.addMany adds).liveLeaves, x ≠ (zero : H) ∧ ∀ a b : H, x ≠ ph a b)
  {L : List Nat} (hL : DestroySpec F.slots adds.length L)
include nz hN hndG hleaf hL

/-- a live leaf of the new forest that was not added is an old leaf -/
theorem live_old' {x : H} (hx : x ∈ (F.addMany adds).liveLeaves) (ha : x ∉ adds) :
    x ∈ F.liveLeaves := by
  rw [LiveLeaves.liveLeaves_addMany_eq, List.mem_append] at hx
  rcases hx with h | h
  · exact h
  · exact absurd h ha

/-- **a node of the new forest without an added leaf is a moved node of the old forest** -/
theorem old_node_of_no_added {T : Nat} {q : Pos} {t : CTree H} (s : SubAtT (F.addMany adds) T q t)
    (hno : ∀ a ∈ adds, a ∉ t.leaves) :
    ∃ h0 q0, SubAtT F h0 q0 t ∧ q = addMove F.numLeaves adds.length L q0 := by
  have hlen : (F.slots ++ adds.map some).length = F.numLeaves + adds.length := by
    simp [Forest.numLeaves]
  have hS64 : (F.slots ++ adds.map some).length < 2 ^ 64 := by rw [hlen]; omega
  have hGe : F.addMany adds = Forest.mk (F.slots ++ adds.map some) := rfl
  have s' := s
  rw [hGe] at s'
  obtain ⟨l1, b1, hin1, hch1, _, _⟩ := chunk_of_subAtT _ hS64 s'
  have hin1' : Spec.inTree (F.numLeaves + adds.length) T l1 b1 := by rw [← hlen]; exact hin1
  have hleN : (b1 + 1) * 2 ^ l1 ≤ F.numLeaves + adds.length := inTree_le hin1'
  have hle : (b1 + 1) * 2 ^ l1 ≤ F.numLeaves := by
    apply Classical.byContradiction
    intro hgt
    have hpos := Nat.two_pow_pos l1
    have hmul : (b1 + 1) * 2 ^ l1 = b1 * 2 ^ l1 + 2 ^ l1 := by rw [Nat.add_mul, Nat.one_mul]
    obtain ⟨j, hj1, hj2, hj3⟩ : ∃ j, F.numLeaves ≤ j ∧ b1 * 2 ^ l1 ≤ j ∧ j < (b1 + 1) * 2 ^ l1 := by
      rcases Nat.le_total F.numLeaves (b1 * 2 ^ l1) with h | h
      · exact ⟨b1 * 2 ^ l1, h, Nat.le_refl _, by omega⟩
      · exact ⟨F.numLeaves, Nat.le_refl _, h, by omega⟩
    obtain ⟨x, hx⟩ := slot_new F.slots adds (i := j) hj1 (by
      have : F.slots.length = F.numLeaves := rfl
      omega)
    obtain ⟨t', ht', hxt⟩ := chunk_slot_leaf _ hj2 hj3 hx
    rw [hch1] at ht'
    injection ht' with ht'
    subst ht'
    exact hno x (slot_added hj1 hx) hxt
  have hch1' : chunk F.slots l1 b1 = some t := by
    rw [← chunk_add_old F.slots adds hle]; exact hch1
  obtain ⟨h0, hin0⟩ := exists_tree_of_chunk hle
  have sP0 := subAtT_of_chunk F.slots (by
    have : F.slots.length = F.numLeaves := rfl
    omega) hin0 hch1'
  rw [forest_mk_slots] at sP0
  obtain ⟨T1, _, _, _, g1⟩ := add_sub hN hL sP0
  exact ⟨h0, _, sP0, (sub_pos_unique hndG g1 s).symm⟩

/-- **every node of the new forest is the forward image of an origin** -/
theorem node_origin {T : Nat} {q : Pos} {t : CTree H} (s : SubAtT (F.addMany adds) T q t) :
    ∃ p, Origin (F.numLeaves + adds.length) (destroyedPos F.numLeaves L) p T ∧
      moveA (F.numLeaves + adds.length) T (destroyedPos F.numLeaves L) p = q := by
  by_cases hnew : ∃ a ∈ adds, a ∈ t.leaves
  · obtain ⟨a, ha, hat⟩ := hnew
    obtain ⟨p, o, hm, _⟩ := new_origin hN hL hndG s ha hat
    exact ⟨p, o, hm⟩
  · have hno : ∀ a ∈ adds, a ∉ t.leaves := fun a ha hat => hnew ⟨a, ha, hat⟩
    obtain ⟨h0, q0, s0, hq⟩ := old_node_of_no_added nz hN hndG hleaf hL s hno
    obtain ⟨T', o, hm, g⟩ := old_origin hN hL s0
    rw [← hq] at g hm
    obtain ⟨e, _⟩ := g.unique s
    subst e
    exact ⟨q0, o, hm⟩

/-- **the walk of the repaired `undoAdd` returns the origin** of a position of the new forest -/
theorem moveBack_of_origin {p : Pos} {T : Nat}
    (o : Origin (F.numLeaves + adds.length) (destroyedPos F.numLeaves L) p T) :
    moveBack (H8 (forestRows (F.numLeaves + adds.length)))
        ((destroyedPos F.numLeaves L).map (E (forestRows (F.numLeaves + adds.length))))
        (E (forestRows (F.numLeaves + adds.length))
          (moveA (F.numLeaves + adds.length) T (destroyedPos F.numLeaves L) p)) =
      E (forestRows (F.numLeaves + adds.length)) p ∧
    Valid (forestRows (F.numLeaves + adds.length)) p := by
  have hlenF : F.slots.length = F.numLeaves := rfl
  refine ⟨?_, under_valid o.tree o.under⟩
  apply moveBack_origin hN _ (destroyed_dtList hL.asc) _ o
  have := destroyed_strict F.slots adds.length L hL (by omega)
  rwa [hlenF] at this

/-- an old leaf is not an added leaf -/
theorem old_not_added' {x : H} (hx : x ∈ F.liveLeaves) (ha : x ∈ adds) : False :=
  old_not_new nz hN hndG hleaf hx ha

/-- **the canonical proof positions of the old forest move to canonical proof positions of the new
forest, with the same hash** (for the cached leaves that are not additions) -/
theorem pp_undo_add' {K C' : List H} {tgK tgG : List Pos} {hsK hsG : List H}
    (hcF : F.canon K = some (tgK, hsK)) (hcG : (F.addMany adds).canon C' = some (tgG, hsG))
    (hK : ∀ x, x ∈ K ↔ x ∈ C' ∧ x ∉ adds) {q : Pos} (hq : q ∈ F.proofPositions tgK) :
    addMove F.numLeaves adds.length L q ∈ (F.addMany adds).proofPositions tgG ∧
      (F.addMany adds).nodeAt (addMove F.numLeaves adds.length L q) = F.nodeAt q := by
  have hndF : F.liveLeaves.Nodup := by
    have := hndG
    rw [LiveLeaves.liveLeaves_addMany_eq] at this
    exact (List.nodup_append.1 this).1
  have hdF := LeafDistinct.leafDistinct_of_nodup hndF
  have hdG := LeafDistinct.leafDistinct_of_nodup hndG
  obtain ⟨c, hcP, hcr, hcs, rfl⟩ := mem_proofPositions.1 hq
  obtain ⟨h0, tc, sc, l, hl, hlt⟩ := (pathSet_iff_leaf hcF hdF c).1 hcP
  obtain ⟨hrow, ts, spar, ss⟩ := sc.parent hcr
  obtain ⟨T, _, _, _, gP⟩ := add_sub hN hL spar
  obtain ⟨T1, _, _, _, gc⟩ := add_sub hN hL sc
  obtain ⟨T2, _, _, _, gs⟩ := add_sub hN hL ss
  -- the two children of the moved parent are the moved children
  have hch : ∃ c', SubAtT (F.addMany adds) T c' tc ∧ c'.1 < T ∧ SubAtT (F.addMany adds) T (sib c') ts := by
    have hr := gP.row_le
    by_cases hpar : c.2 % 2 = 0
    · rw [if_pos hpar] at gP
      obtain ⟨h1, ca, cb⟩ := gP.children
      refine ⟨_, ca, by simp only; omega, ?_⟩
      have e : sib ((addMove F.numLeaves adds.length L (parent c)).1 - 1,
          2 * (addMove F.numLeaves adds.length L (parent c)).2) =
          ((addMove F.numLeaves adds.length L (parent c)).1 - 1,
            2 * (addMove F.numLeaves adds.length L (parent c)).2 + 1) := by
        simp only [sib, Prod.mk.injEq, true_and]
        rw [if_pos (by omega)]
      rw [e]; exact cb
    · rw [if_neg hpar] at gP
      obtain ⟨h1, ca, cb⟩ := gP.children
      refine ⟨_, cb, by simp only; omega, ?_⟩
      have e : sib ((addMove F.numLeaves adds.length L (parent c)).1 - 1,
          2 * (addMove F.numLeaves adds.length L (parent c)).2 + 1) =
          ((addMove F.numLeaves adds.length L (parent c)).1 - 1,
            2 * (addMove F.numLeaves adds.length L (parent c)).2) := by
        simp only [sib, Prod.mk.injEq, true_and]
        rw [if_neg (by omega)]
        omega
      rw [e]; exact ca
  obtain ⟨c', gc', hc'lt, gs'⟩ := hch
  have e1 : addMove F.numLeaves adds.length L c = c' := sub_pos_unique hndG gc gc'
  have e2 : addMove F.numLeaves adds.length L (sib c) = sib c' := sub_pos_unique hndG gs gs'
  refine ⟨?_, by rw [gs.nodeAt, ss.nodeAt]⟩
  rw [mem_proofPositions]
  refine ⟨c', ?_, ?_, ?_, e2⟩
  · rw [pathSet_iff_leaf hcG hdG]
    exact ⟨T, tc, gc', l, ((hK l).1 hl).1, hlt⟩
  · cases hr : isRootPos (F.addMany adds).numLeaves c' with
    | false => rfl
    | true => have := (gc'.root_iff).1 hr; omega
  · intro hP
    obtain ⟨T3, ts3, gs3, l', hl', hlt'⟩ := (pathSet_iff_leaf hcG hdG _).1 hP
    obtain ⟨_, e⟩ := gs3.unique gs'
    subst e
    apply hcs
    rw [pathSet_iff_leaf hcF hdF]
    refine ⟨h0, ts3, ss, l', (hK l').2 ⟨hl', ?_⟩, hlt'⟩
    intro ha
    exact old_not_added' nz hN hndG hleaf hL (ss.leaves_live l' hlt') ha

end ctx

/-! ### `proofUndoAdd` -/

/-- **the repaired `proofUndoAdd` is the inverse of the addition step, for every block.**  `F`: the
forest after the block's deletions (possibly empty); `L`: the rows of the all-zero roots of `F` the
additions merge over (`DestroySpec`), `ToDestroy` their positions in the new forest; the cached proof
is the canonical proof in `F.addMany adds` of a duplicate-free list `C'` (any order).  The result is
the canonical proof in `F` of the leaves of `C'` that are not additions, targets ascending. -/
theorem proofUndoAdd_canonical {F : Forest H} {adds : List H} (nz : NZ H)
    (hN : F.numLeaves + adds.length ≤ 2 ^ 63)
    (hndG : (F.addMany adds).liveLeaves.Nodup)
    (hleaf : ∀ x ∈ (F.addMany adds).liveLeaves, x ≠ (zero : H) ∧ ∀ a b : H, x ≠ ph a b)
    {L : List Nat} (hL : DestroySpec F.slots adds.length L)
    {C' : List H} {tgG : List Pos} {hsG : List H} (hC' : C'.Nodup)
    (hcG : (F.addMany adds).canon C' = some (tgG, hsG)) :
    ∃ K tgK hsK, K.Perm (C'.filter (fun x => decide (x ∉ adds))) ∧
      F.canon K = some (tgK, hsK) ∧ tgK.Pairwise Sorted.PLt ∧
      proofUndoAdd ⟨tgG.map (E (F.addMany adds).rows), hsG⟩ (BitVec.ofNat 64 adds.length)
          (BitVec.ofNat 64 (F.addMany adds).numLeaves) C'
          ((destroyedPos F.numLeaves L).map (E (forestRows (F.numLeaves + adds.length)))) =
        .ok (⟨tgK.map (E F.rows), hsK⟩, K) := by
  have hn : F.numLeaves ≤ 2 ^ 63 := by omega
  have hnumG := numLeaves_G nz hN hndG hleaf
  have hG : (F.addMany adds).numLeaves ≤ 2 ^ 63 := by rw [hnumG]; exact hN
  have hR : (F.addMany adds).rows = forestRows (F.numLeaves + adds.length) := by
    unfold Forest.rows; rw [hnumG]
  have hRF : F.rows = forestRows F.numLeaves := rfl
  have h63 : forestRows F.numLeaves ≤ 63 := rows_le_63 hn
  have h63' : forestRows (F.numLeaves + adds.length) ≤ 63 := rows_le_63 hN
  have hmono : forestRows F.numLeaves ≤ forestRows (F.numLeaves + adds.length) :=
    forestRows_mono (by omega)
  have hndF : F.liveLeaves.Nodup := by
    have := hndG
    rw [LiveLeaves.liveLeaves_addMany_eq] at this
    exact (List.nodup_append.1 this).1
  have tokG := canon_targetsOK hcG
  -- the leaves that stay, their canonical proof, their pairs by position in `F`
  have hK0nd : (C'.filter (fun x => decide (x ∉ adds))).Nodup := hC'.sublist List.filter_sublist
  have hK0live : ∀ x ∈ C'.filter (fun x => decide (x ∉ adds)), x ∈ F.liveLeaves := by
    intro x hx
    obtain ⟨hxC, hxa⟩ := List.mem_filter.1 hx
    obtain ⟨_, _, h, s⟩ := sortedPairs_mem hG hcG hC' (mem_sortedPairs hG hcG hC' hxC)
    exact live_old' nz hN hndG hleaf hL (s.leaves_live x (by simp [CTree.leaves])) (by simpa using hxa)
  obtain ⟨tg0, hs0, hc0⟩ := CanonTotal.canon_total hn hK0live
  have hKSmem := fun (z : Pos × H) (hz : z ∈ sortedPairs F (C'.filter (fun x => decide (x ∉ adds)))) =>
    sortedPairs_mem hn hc0 hK0nd hz
  have hliveK : ∀ x ∈ (sortedPairs F (C'.filter (fun x => decide (x ∉ adds)))).map (·.2),
      x ∈ F.liveLeaves := by
    intro x hx
    obtain ⟨z, hz, rfl⟩ := List.mem_map.1 hx
    exact hK0live _ (hKSmem z hz).1
  obtain ⟨tgK, hsK, hcK⟩ := CanonTotal.canon_total hn hliveK
  have htgK : tgK = (sortedPairs F (C'.filter (fun x => decide (x ∉ adds)))).map (·.1) := by
    rw [canon_targets_eq hcK, List.map_map]
    apply List.map_congr_left
    intro z hz
    exact (hKSmem z hz).2.1.symm
  have hsortedK : tgK.Pairwise Sorted.PLt := by
    rw [htgK]; exact sortedPairs_sorted hn hc0 hK0nd
  have tokK := canon_targetsOK hcK
  have hperm : ((sortedPairs F (C'.filter (fun x => decide (x ∉ adds)))).map (·.2)).Perm
      (C'.filter (fun x => decide (x ∉ adds))) := by
    have h1 := (sortedPairs_perm hn hc0 hK0nd).map (·.2)
    refine h1.trans ?_
    rw [List.map_map]
    have e : ((fun z : Pos × H => z.2) ∘ fun x => (posD F x, x)) = id := rfl
    rw [e, List.map_id]
  refine ⟨_, tgK, hsK, hperm, hcK, hsortedK, ?_⟩
  have hsub : BitVec.ofNat 64 (F.numLeaves + adds.length) - BitVec.ofNat 64 adds.length =
      BitVec.ofNat 64 F.numLeaves := by
    rw [BitVec.ofNat_add, BitVec.add_sub_cancel]
  have hTRG : TreeRows (BitVec.ofNat 64 (F.numLeaves + adds.length)) =
      H8 (forestRows (F.numLeaves + adds.length)) := treeRows_eq' hN
  have hTRF : TreeRows (BitVec.ofNat 64 F.numLeaves) = H8 (forestRows F.numLeaves) := treeRows_eq' hn
  -- 1. the cached targets and proof with positions
  have e1 := toHashAndPos_cached hG hcG hC'
  rw [hR] at e1
  have e2 : (ProofPositions (((sortedPairs (F.addMany adds) C').map (·.1)).map
      (E (forestRows (F.numLeaves + adds.length))))
      (BitVec.ofNat 64 (F.numLeaves + adds.length)) (H8 (forestRows (F.numLeaves + adds.length)))).1 =
      ((F.addMany adds).proofPositions tgG).map (E (forestRows (F.numLeaves + adds.length))) := by
    have := proofPositions_model hG (sortedPairs_targetsOK hG hcG hC') (sortedPairs_sorted hG hcG hC')
    rw [hnumG, hR] at this
    rw [this, proofPositions_congr _ (sortedPairs_fst_mem hG hcG hC')]
  have e3 := oldProofs_eq hG hcG hC'
  rw [hR] at e3
  -- 2. the walk: every target returns to its origin
  have keyT : ∀ z : Pos × H, ∃ p : Pos, z ∈ sortedPairs (F.addMany adds) C' →
      moveBack (H8 (forestRows (F.numLeaves + adds.length)))
          ((destroyedPos F.numLeaves L).map (E (forestRows (F.numLeaves + adds.length))))
          (E (forestRows (F.numLeaves + adds.length)) z.1) =
        E (forestRows (F.numLeaves + adds.length)) p ∧
      Valid (forestRows (F.numLeaves + adds.length)) p ∧
      decide (p.1 ≤ forestRows F.numLeaves ∧ p.2 < F.numLeaves / 2 ^ p.1) = decide (z.2 ∉ adds) ∧
      (z.2 ∉ adds → p = posD F z.2) := by
    intro z
    by_cases hz : z ∈ sortedPairs (F.addMany adds) C'
    · obtain ⟨_, _, T, sG⟩ := sortedPairs_mem hG hcG hC' hz
      by_cases ha : z.2 ∈ adds
      · obtain ⟨p, o, hm, hnot⟩ := new_origin hN hL hndG sG ha (by simp [CTree.leaves])
        obtain ⟨h1, hv⟩ := moveBack_of_origin nz hN hndG hleaf hL o
        rw [hm] at h1
        refine ⟨p, fun _ => ⟨h1, hv, ?_, fun h => absurd ha h⟩⟩
        exact decide_eq_decide.2 ⟨fun h => absurd h.2 hnot, fun h => absurd ha h⟩
      · have hlive := live_old' nz hN hndG hleaf hL (sG.leaves_live z.2 (by simp [CTree.leaves])) ha
        obtain ⟨p, hp⟩ := Spec.posOf_isSome_of_live (by omega) hlive
        obtain ⟨h0, s0⟩ := posOf_sub hp
        obtain ⟨T', o, hm, g⟩ := old_origin hN hL s0
        have e := sub_pos_unique hndG g sG
        obtain ⟨h1, hv⟩ := moveBack_of_origin nz hN hndG hleaf hL o
        rw [hm, e] at h1
        refine ⟨p, fun _ => ⟨h1, hv, ?_, fun _ => by unfold posD; rw [hp]; rfl⟩⟩
        have := s0.inF
        exact decide_eq_decide.2 ⟨fun _ => ha, fun _ =>
          ⟨this.1, by rw [← Nat.shiftRight_eq_div_pow]; exact this.2⟩⟩
    · exact ⟨(0, 0), fun h => absurd h hz⟩
  obtain ⟨fT, hfT⟩ := Classical.axiomOfChoice keyT
  have e4a : ((sortedPairs (F.addMany adds) C').map (enc2 (forestRows (F.numLeaves + adds.length)))).map
      (fun x => (moveBack (H8 (forestRows (F.numLeaves + adds.length)))
        ((destroyedPos F.numLeaves L).map (E (forestRows (F.numLeaves + adds.length)))) x.1, x.2)) =
      ((sortedPairs (F.addMany adds) C').map (fun z => (fT z, z.2))).map
        (enc2 (forestRows (F.numLeaves + adds.length))) := by
    rw [List.map_map, List.map_map]
    apply List.map_congr_left
    intro z hz
    simp only [Function.comp, enc2]
    rw [(hfT z hz).1]
  -- … and every proof position
  have keyP : ∀ z : Pos × H, ∃ p : Pos, z ∈ ppPairs (F.addMany adds) tgG →
      moveBack (H8 (forestRows (F.numLeaves + adds.length)))
          ((destroyedPos F.numLeaves L).map (E (forestRows (F.numLeaves + adds.length))))
          (E (forestRows (F.numLeaves + adds.length)) z.1) =
        E (forestRows (F.numLeaves + adds.length)) p ∧
      Valid (forestRows (F.numLeaves + adds.length)) p ∧
      ∃ T, Origin (F.numLeaves + adds.length) (destroyedPos F.numLeaves L) p T ∧
        moveA (F.numLeaves + adds.length) T (destroyedPos F.numLeaves L) p = z.1 := by
    intro z
    by_cases hz : z ∈ ppPairs (F.addMany adds) tgG
    · unfold ppPairs at hz
      obtain ⟨q, hq, rfl⟩ := List.mem_map.1 hz
      obtain ⟨T, t, s⟩ := pp_node tokG hq
      obtain ⟨p, o, hm⟩ := node_origin nz hN hndG hleaf hL s
      obtain ⟨h1, hv⟩ := moveBack_of_origin nz hN hndG hleaf hL o
      rw [hm] at h1
      exact ⟨p, fun _ => ⟨h1, hv, T, o, hm⟩⟩
    · exact ⟨(0, 0), fun h => absurd h hz⟩
  obtain ⟨fP, hfP⟩ := Classical.axiomOfChoice keyP
  have e4b : ((ppPairs (F.addMany adds) tgG).map (enc2 (forestRows (F.numLeaves + adds.length)))).map
      (fun x => (moveBack (H8 (forestRows (F.numLeaves + adds.length)))
        ((destroyedPos F.numLeaves L).map (E (forestRows (F.numLeaves + adds.length)))) x.1, x.2)) =
      ((ppPairs (F.addMany adds) tgG).map (fun z => (fP z, z.2))).map
        (enc2 (forestRows (F.numLeaves + adds.length))) := by
    rw [List.map_map, List.map_map]
    apply List.map_congr_left
    intro z hz
    simp only [Function.comp, enc2]
    rw [(hfP z hz).1]
  -- 3. `pruneEdges`
  have hnoerr : ∀ (l : HP H), ∀ x ∈ l,
      ¬ DetectRow x.1 (H8 (forestRows (F.numLeaves + adds.length))) > H8 (forestRows F.numLeaves) →
      (maxPositionAtRow (DetectRow x.1 (H8 (forestRows (F.numLeaves + adds.length))))
        (H8 (forestRows F.numLeaves)) (BitVec.ofNat 64 (F.numLeaves + adds.length) -
          BitVec.ofNat 64 adds.length)).2 = false := by
    intro l x _ hrow
    cases hm : (maxPositionAtRow (DetectRow x.1 (H8 (forestRows (F.numLeaves + adds.length))))
        (H8 (forestRows F.numLeaves)) (BitVec.ofNat 64 (F.numLeaves + adds.length) -
          BitVec.ofNat 64 adds.length)).2 with
    | false => rfl
    | true => exact absurd ((Props.C16.maxPositionAtRow_error_iff _ _ _).1 hm) hrow
  -- the kept targets: the old leaves at their old positions (in the order of the new forest)
  have hkeepT : ((sortedPairs (F.addMany adds) C').map (fun z => (fT z, z.2))).filter
      ((fun x : U64 × H => pruneKeepNew (BitVec.ofNat 64 adds.length)
        (BitVec.ofNat 64 (F.numLeaves + adds.length)) (H8 (forestRows (F.numLeaves + adds.length)))
        (H8 (forestRows F.numLeaves)) x.1) ∘ enc2 (forestRows (F.numLeaves + adds.length))) =
      (keptOld F adds C').map (fun z => (posD F z.2, z.2)) := by
    unfold keptOld
    rw [List.filter_map]
    have hf : (sortedPairs (F.addMany adds) C').filter
        (((fun x : U64 × H => pruneKeepNew (BitVec.ofNat 64 adds.length)
          (BitVec.ofNat 64 (F.numLeaves + adds.length)) (H8 (forestRows (F.numLeaves + adds.length)))
          (H8 (forestRows F.numLeaves)) x.1) ∘ enc2 (forestRows (F.numLeaves + adds.length))) ∘
          fun z => (fT z, z.2)) =
        (sortedPairs (F.addMany adds) C').filter (fun z => decide (z.2 ∉ adds)) := by
      apply List.filter_congr
      intro z hz
      simp only [Function.comp, enc2]
      rw [pruneKeepNew_enc hN (hfT z hz).2.1]
      exact (hfT z hz).2.2.1
    rw [hf]
    apply List.map_congr_left
    intro z hz
    have := (List.mem_filter.1 hz)
    rw [(hfT z this.1).2.2.2 (by simpa using this.2)]
  -- the kept proof entries
  let inPrev : Pos → Bool := fun q =>
    decide (q.1 ≤ forestRows F.numLeaves ∧ q.2 < F.numLeaves / 2 ^ q.1)
  let OP := (ppPairs (F.addMany adds) tgG).map (fun z => (fP z, z.2))
  let PP1 := OP.filter (fun z => inPrev z.1)
  have hkeepP : ((ppPairs (F.addMany adds) tgG).map (fun z => (fP z, z.2))).filter
      ((fun x : U64 × H => pruneKeepNew (BitVec.ofNat 64 adds.length)
        (BitVec.ofNat 64 (F.numLeaves + adds.length)) (H8 (forestRows (F.numLeaves + adds.length)))
        (H8 (forestRows F.numLeaves)) x.1) ∘ enc2 (forestRows (F.numLeaves + adds.length))) = PP1 := by
    show OP.filter _ = OP.filter _
    apply List.filter_congr
    intro z hz
    obtain ⟨w, hw, rfl⟩ := List.mem_map.1 hz
    simp only [Function.comp, enc2]
    rw [pruneKeepNew_enc hN (hfP w hw).2.1]
  -- 4. validity in the previous geometry, the re-encoding
  have hvalid : ∀ q : Pos, inPrev q = true → Valid (forestRows F.numLeaves) q := by
    intro q hq
    simp only [inPrev, decide_eq_true_eq] at hq
    have : InF F.numLeaves q := ⟨hq.1, by rw [Nat.shiftRight_eq_div_pow]; exact hq.2⟩
    exact this.valid
  have hKPmem : ∀ z ∈ keptOld F adds C', z.2 ∈ C' ∧ z.2 ∉ adds ∧
      z.2 ∈ C'.filter (fun x => decide (x ∉ adds)) := by
    intro z hz
    obtain ⟨hz1, hz2⟩ := List.mem_filter.1 hz
    have hz2' : z.2 ∉ adds := by simpa using hz2
    obtain ⟨hC, _⟩ := sortedPairs_mem hG hcG hC' hz1
    exact ⟨hC, hz2', List.mem_filter.2 ⟨hC, by simpa using hz2'⟩⟩
  have hposK0 : ∀ x ∈ C'.filter (fun x => decide (x ∉ adds)),
      ∃ h, SubAtT F h (posD F x) (.leaf x) := fun x hx => posD_sub hc0 hx
  have hKPFvalid : ∀ z ∈ (keptOld F adds C').map (fun z => (posD F z.2, z.2)),
      Valid (forestRows F.numLeaves) z.1 := by
    intro z hz
    obtain ⟨w, hw, rfl⟩ := List.mem_map.1 hz
    obtain ⟨h, s⟩ := hposK0 _ (hKPmem w hw).2.2
    exact s.inF.valid
  have hPP1valid : ∀ z ∈ PP1, Valid (forestRows F.numLeaves) z.1 := by
    intro z hz
    exact hvalid _ (List.mem_filter.1 hz).2
  have e5a := remapBack_enc hN _ hKPFvalid
  have e5b := remapBack_enc hN PP1 hPP1valid
  -- 5. sorting the targets: the pairs of the kept leaves by position in `F`
  have e8a : sortHP (((keptOld F adds C').map (fun z => (posD F z.2, z.2))).map
      (enc2 (forestRows F.numLeaves))) =
      (sortedPairs F (C'.filter (fun x => decide (x ∉ adds)))).map (enc2 (forestRows F.numLeaves)) := by
    apply eq_of_keysorted
    · unfold sortHP
      apply SortBy.sortBy_strict
      rw [List.map_map, List.map_map]
      unfold List.Nodup
      rw [List.pairwise_map]
      have hpw : (keptOld F adds C').Pairwise (fun a b => a.2 ≠ b.2) := by
        unfold keptOld
        apply List.Pairwise.sublist List.filter_sublist
        apply List.Pairwise.imp_of_mem _ (sortedPairs_keys hG hcG hC')
        intro a b ha hb hab e
        obtain ⟨_, ha1, _⟩ := sortedPairs_mem hG hcG hC' ha
        obtain ⟨_, hb1, _⟩ := sortedPairs_mem hG hcG hC' hb
        rw [ha1, hb1, e] at hab
        exact absurd hab (BitVec.lt_irrefl _)
      apply List.Pairwise.imp_of_mem _ hpw
      intro a b ha hb hab e
      apply hab
      simp only [Function.comp, enc2] at e
      obtain ⟨h1, s1⟩ := hposK0 _ (hKPmem a ha).2.2
      obtain ⟨h2, s2⟩ := hposK0 _ (hKPmem b hb).2.2
      have e' := E_inj h63 s1.inF.valid s2.inF.valid e
      rw [e'] at s1
      have := (s1.unique s2).2
      injection this
    · rw [List.pairwise_map]
      exact sortedPairs_keys hn hc0 hK0nd
    · intro x
      rw [CalcSound.mem_sortHP, List.mem_map, List.mem_map]
      constructor
      · rintro ⟨z, hz, rfl⟩
        obtain ⟨w, hw, rfl⟩ := List.mem_map.1 hz
        exact ⟨_, mem_sortedPairs hn hc0 hK0nd (hKPmem w hw).2.2, rfl⟩
      · rintro ⟨z, hz, rfl⟩
        obtain ⟨hz1, hz2, _⟩ := hKSmem z hz
        obtain ⟨hzC, hza⟩ := List.mem_filter.1 hz1
        refine ⟨(posD F z.2, z.2), List.mem_map.2 ⟨(posD (F.addMany adds) z.2, z.2), ?_, rfl⟩, ?_⟩
        · exact List.mem_filter.2 ⟨mem_sortedPairs hG hcG hC' hzC, hza⟩
        · simp only [enc2]; rw [hz2]
  -- 6. the needed positions
  have e6 : (ProofPositions (((sortedPairs F (C'.filter (fun x => decide (x ∉ adds)))).map (·.1)).map
      (E (forestRows F.numLeaves))) (BitVec.ofNat 64 F.numLeaves) (H8 (forestRows F.numLeaves))).1 =
      (F.proofPositions tgK).map (E (forestRows F.numLeaves)) := by
    have := proofPositions_model hn tokK hsortedK
    rw [htgK] at this ⊢
    exact this
  -- 7. sorting the proof entries and the extraction
  have hOPorigin : ∀ z ∈ OP, Valid (forestRows (F.numLeaves + adds.length)) z.1 ∧
      ∃ w ∈ ppPairs (F.addMany adds) tgG, z = (fP w, w.2) ∧
      ∃ T, Origin (F.numLeaves + adds.length) (destroyedPos F.numLeaves L) z.1 T ∧
        moveA (F.numLeaves + adds.length) T (destroyedPos F.numLeaves L) z.1 = w.1 := by
    intro z hz
    obtain ⟨w, hw, rfl⟩ := List.mem_map.1 hz
    exact ⟨(hfP w hw).2.1, w, hw, rfl, (hfP w hw).2.2⟩
  have hPSsorted : (sortHP (PP1.map (enc2 (forestRows F.numLeaves)))).Pairwise
      (fun a b => a.1 < b.1) := by
    unfold sortHP
    apply SortBy.sortBy_strict
    rw [List.map_map]
    unfold List.Nodup
    rw [List.pairwise_map]
    have hpw : OP.Pairwise (fun a b => a.1 ≠ b.1) := by
      show ((ppPairs (F.addMany adds) tgG).map (fun z => (fP z, z.2))).Pairwise _
      rw [List.pairwise_map]
      have h1 : (ppPairs (F.addMany adds) tgG).Pairwise (fun a b => Sorted.PLt a.1 b.1) := by
        unfold ppPairs
        rw [List.pairwise_map]
        exact proofPositions_sorted _ _
      apply List.Pairwise.imp_of_mem _ h1
      intro a b ha hb hab e
      simp only at e
      obtain ⟨_, _, Ta, oa, hma⟩ := hfP a ha
      obtain ⟨_, _, Tb, ob, hmb⟩ := hfP b hb
      have hTa := treeRowOf_under oa.tree oa.under
      have hTb := treeRowOf_under ob.tree ob.under
      rw [e] at hTa hma
      rw [hTa] at hTb
      subst hTb
      rw [hma] at hmb
      rw [hmb] at hab
      exact Sorted.PLt.irrefl _ hab
    apply List.Pairwise.imp_of_mem _ (hpw.sublist List.filter_sublist)
    intro a b ha hb hab e
    apply hab
    simp only [Function.comp, enc2] at e
    exact E_inj h63 (hPP1valid a ha) (hPP1valid b hb) e
  have hKiff : ∀ x, x ∈ (sortedPairs F (C'.filter (fun x => decide (x ∉ adds)))).map (·.2) ↔
      x ∈ C' ∧ x ∉ adds := by
    intro x
    rw [hperm.mem_iff, List.mem_filter]
    simp
  have e7 : subsetHP (sortHP (PP1.map (enc2 (forestRows F.numLeaves))))
      ((F.proofPositions tgK).map (E (forestRows F.numLeaves))) =
      (ppPairs F tgK).map (enc2 (forestRows F.numLeaves)) := by
    rw [subsetHP_eq_filterMap _ _ (pairwise_le_of_lt hPSsorted) (by
      have := pp_keys hn tokK
      exact this), List.filterMap_map]
    unfold ppPairs
    rw [List.map_map]
    conv => rhs; rw [← List.filterMap_eq_map]
    apply filterMap_congr'
    intro q hq
    simp only [Function.comp]
    obtain ⟨hqG, hhash⟩ := pp_undo_add' nz hN hndG hleaf hL hcK hcG hKiff hq
    obtain ⟨h0, t0, s0⟩ := pp_node tokK hq
    -- the entry of the moved position returns to `q`
    have hw : (addMove F.numLeaves adds.length L q,
        ((F.addMany adds).nodeAt (addMove F.numLeaves adds.length L q)).getD zero) ∈
        ppPairs (F.addMany adds) tgG := List.mem_map.2 ⟨_, hqG, rfl⟩
    obtain ⟨hb1, hv1, _⟩ := hfP _ hw
    obtain ⟨T', o, hm, _⟩ := old_origin hN hL s0
    obtain ⟨hb2, hv2⟩ := moveBack_of_origin nz hN hndG hleaf hL o
    rw [hm] at hb2
    simp only at hb1
    rw [hb2] at hb1
    have hfq := (E_inj h63' hv2 hv1 hb1).symm
    have hin : (E (forestRows F.numLeaves) q,
        ((F.addMany adds).nodeAt (addMove F.numLeaves adds.length L q)).getD zero) ∈
        sortHP (PP1.map (enc2 (forestRows F.numLeaves))) := by
      rw [CalcSound.mem_sortHP]
      refine List.mem_map.2 ⟨(q, ((F.addMany adds).nodeAt (addMove F.numLeaves adds.length L q)).getD zero),
        ?_, rfl⟩
      refine List.mem_filter.2 ⟨List.mem_map.2 ⟨_, hw, by simp only; rw [hfq]⟩, ?_⟩
      simp only [inPrev, decide_eq_true_eq]
      have := s0.inF
      exact ⟨this.1, by rw [← Nat.shiftRight_eq_div_pow]; exact this.2⟩
    rw [lookupHP_of_mem hPSsorted hin, hhash]
    rfl
  unfold proofUndoAdd
  rw [hnumG, hR]
  simp only [hsub, hTRG, hTRF, foldl_moveDown]
  simp only [e1, ok_bind', positions_enc2, e2, e3]
  rw [e4a, e4b]
  simp only [ok_bind', pruneEdges_eq _ _ _ _ _ _ (hnoerr _),
    List.nil_append, List.filter_map, hkeepT, hkeepP, e5a, e5b, e8a, positions_enc2, e6, e7]
  show Out.ok _ = Out.ok _
  congr 2
  · congr 1
    · rw [htgK]; rfl
    · rw [(canon_spec hcK).2.2.1]
      simp [HP.hashes, ppPairs, enc2]
  · simp only [HP.hashes, List.map_map]
    rfl

end

end UtreexoVerif.Proofs.ProofUndoAddFix
