/-
  More helper lemmas for C16: multi-step ancestors / descendants, root positions,
  `inForest`, `isAncestor`, `removeBit` / `addBit`, `calcNextPosition` / `calcPrevPosition`.
-/
import UtreexoVerif.Proofs.Geometry
import UtreexoVerif.Model.ProofPos

namespace UtreexoVerif.Proofs
open UtreexoVerif UtreexoVerif.GoInt

/-! ### small `U8` facts -/

theorem toNat_U8_sub_of_le {a b : U8} (h : b.toNat ≤ a.toNat) : (a - b).toNat = a.toNat - b.toNat := by
  rw [BitVec.toNat_sub]
  have := a.isLt
  have := b.isLt
  omega

theorem toNat_conv64_U8 (a : U8) : (conv 64 a : U64).toNat = a.toNat := by
  unfold conv
  rw [BitVec.toNat_setWidth]
  have := a.isLt
  omega

theorem U8_beq_zero (a : U8) : (a == 0#8) = decide (a.toNat = 0) := by
  by_cases h : a = 0#8
  · subst h; rfl
  · have : a.toNat ≠ 0 := fun hc => h (BitVec.eq_of_toNat_eq hc)
    simp [h, this]

theorem U8_gt_iff (a b : U8) : decide (a > b) = decide (b.toNat < a.toNat) := by
  simp [BitVec.lt_def]

/-! ### `ParentMany` -/

/-- `Nat` content of the `ParentMany` bit trick for any value below `2^(h+1)` -/
theorem parentMany_nat {h k x : Nat} (hh : h ≤ 63) (hk : k ≤ h + 1) (hx : x < 2 ^ (h + 1)) :
    (x / 2 ^ k ||| (2 ^ (h + 1) - 1) * 2 ^ (h + 1 - k) % 2 ^ 64) % 2 ^ (h + 1)
      = 2 ^ (h + 1) - 2 ^ (h + 1 - k) + x / 2 ^ k := by
  have hs : 2 ^ (h + 1) = 2 ^ (h + 1 - k) * 2 ^ k := by
    rw [← Nat.pow_add]; congr 1; omega
  have hpk : 0 < 2 ^ k := Nat.two_pow_pos _
  have hps : 0 < 2 ^ (h + 1 - k) := Nat.two_pow_pos _
  have hle : 2 ^ (h + 1 - k) ≤ 2 ^ (h + 1) := two_pow_le_of_le (by omega)
  have hdiv : x / 2 ^ k < 2 ^ (h + 1 - k) := by
    rw [Nat.div_lt_iff_lt_mul hpk]; omega
  rw [Nat.or_mod_two_pow, mod_64_mod_two_pow _ (by omega), pred_mul_mod hps hle,
    Nat.mod_eq_of_lt (by omega)]
  have e : 2 ^ (h + 1) - 2 ^ (h + 1 - k) = 2 ^ (h + 1 - k) * (2 ^ k - 1) := by
    rw [Nat.mul_sub_one, ← hs]
  rw [e, Nat.or_comm, or_eq_add_of_lt hdiv]


/-- value of `ParentMany` (no error) on any value below `2^(h+1)`, for `1 ≤ k ≤ h` -/
theorem parentMany_toNat {h k : Nat} (hh : h ≤ 63) (hk0 : 0 < k) (hk : k ≤ h) (x : U64)
    (hx : x.toNat < 2 ^ (h + 1)) :
    Model.ParentMany x (H8 k) (H8 h) =
      (BitVec.ofNat 64 (2 ^ (h + 1) - 2 ^ (h + 1 - k) + x.toNat / 2 ^ k), false) := by
  have hk8 : (H8 k).toNat = k := toNat_H8 (by omega)
  have hh8 : (H8 h).toNat = h := toNat_H8 hh
  have h0 : (H8 k == 0#8) = false := by rw [U8_beq_zero, hk8]; simp; omega
  have hgt : decide (H8 k > H8 h) = false := by rw [U8_gt_iff, hk8, hh8]; simp; omega
  unfold Model.ParentMany
  rw [h0, hgt]
  simp only [Bool.false_eq_true, if_false]
  congr 1
  apply BitVec.eq_of_toNat_eq
  have h1 : (H8 k - 1#8).toNat = k - 1 := by
    rw [toNat_U8_sub_of_le (by rw [hk8]; simp; omega), hk8]; rfl
  have h2 : (H8 h - (H8 k - 1#8)).toNat = h + 1 - k := by
    rw [toNat_U8_sub_of_le (by rw [h1, hh8]; omega), h1, hh8]; omega
  have hle : 2 ^ (h + 1 - k) ≤ 2 ^ (h + 1) := two_pow_le_of_le (by omega)
  have h64 : 2 ^ (h + 1) ≤ 2 ^ 64 := two_pow_le_64 (by omega)
  have hpk : 0 < 2 ^ k := Nat.two_pow_pos _
  have hdiv : x.toNat / 2 ^ k < 2 ^ (h + 1 - k) := by
    rw [Nat.div_lt_iff_lt_mul hpk, ← Nat.pow_add]
    rw [show h + 1 - k + k = h + 1 by omega]; exact hx
  rw [toNat_and_mask (by rw [hh8]; exact hh), BitVec.toNat_or, toNat_shr, toNat_shl,
    toNat_mask (by rw [hh8]; exact hh), toNat_conv64_U8, h2, hk8, hh8,
    parentMany_nat hh (by omega) hx, toNat_ofNat64_of_lt (by omega)]


/-- the error flag of `ParentMany`, for all inputs -/
theorem parentMany_err (x : U64) (rise fr : U8) :
    (Model.ParentMany x rise fr).2 = decide (fr.toNat < rise.toNat) := by
  unfold Model.ParentMany
  rw [U8_beq_zero, U8_gt_iff]
  by_cases h0 : rise.toNat = 0
  · simp [h0]
  · by_cases h1 : fr.toNat < rise.toNat <;> simp [h0, h1]

theorem enc_div_two_pow {h r o k : Nat} (hr : r + k ≤ h) :
    2 ^ (h + 1) - 2 ^ (h + 1 - k) + Spec.enc h (r, o) / 2 ^ k = Spec.enc h (r + k, o / 2 ^ k) := by
  have e1 : 2 ^ (h + 1 - r) = 2 ^ k * 2 ^ (h + 1 - (r + k)) := by
    rw [← Nat.pow_add]; congr 1; omega
  have e2 : 2 ^ (h + 1 - k) = 2 ^ (h + 1 - (r + k)) * 2 ^ r := by
    rw [← Nat.pow_add]; congr 1; omega
  have hle : 2 ^ (h + 1 - k) ≤ 2 ^ (h + 1) := two_pow_le_of_le (by omega)
  have hpk : 0 < 2 ^ k := Nat.two_pow_pos _
  have hpr : 0 < 2 ^ r := Nat.two_pow_pos _
  have hpa : 0 < 2 ^ (h + 1 - (r + k)) := Nat.two_pow_pos _
  rw [enc_mul (by omega), e1, Nat.mul_assoc, Nat.mul_add_div hpk, enc_val, Nat.mul_sub_one,
    ← e2]
  have : 2 ^ (h + 1 - (r + k)) ≤ 2 ^ (h + 1 - k) := two_pow_le_of_le (by omega)
  omega


/-! ### `ChildMany` -/

theorem mul_two_pow_lt {h r o k : Nat} (hr : r ≤ h) (hk : k ≤ r) (ho : o < 2 ^ (h - r)) :
    o * 2 ^ k < 2 ^ (h - (r - k)) := by
  have e : 2 ^ (h - (r - k)) = 2 ^ (h - r) * 2 ^ k := by
    rw [← Nat.pow_add]; congr 1; omega
  rw [e]
  exact Nat.mul_lt_mul_of_pos_right ho (Nat.two_pow_pos _)

theorem childMany_nat {h r o k : Nat} (hr : r ≤ h) (hk : k ≤ r) (ho : o < 2 ^ (h - r)) :
    Spec.enc h (r, o) * 2 ^ k % 2 ^ (h + 1) = Spec.enc h (r - k, o * 2 ^ k) := by
  have f := enc_facts hr
  have hlt := enc_lt_aux (show r - k ≤ h by omega) (mul_two_pow_lt hr hk ho)
  have e1 : 2 ^ (h + 1 - (r - k)) = 2 ^ (h + 1 - r) * 2 ^ k := by
    rw [← Nat.pow_add]; congr 1; omega
  have hle : 2 ^ (h + 1 - (r - k)) ≤ 2 ^ (h + 1) := two_pow_le_of_le (by omega)
  have hpk : 0 < 2 ^ k := Nat.two_pow_pos _
  have e : Spec.enc h (r, o) * 2 ^ k = 2 ^ (h + 1) * (2 ^ k - 1) + Spec.enc h (r - k, o * 2 ^ k) := by
    rw [enc_val, enc_val, Nat.add_mul, Nat.sub_mul, ← e1, Nat.mul_sub_one]
    have : 2 ^ (h + 1) ≤ 2 ^ (h + 1) * 2 ^ k := Nat.le_mul_of_pos_right _ hpk
    omega
  rw [e, Nat.mul_add_mod]
  exact Nat.mod_eq_of_lt (by omega)

/-- the error flag of `ChildMany`, for all inputs -/
theorem childMany_err (x : U64) (drop fr : U8) :
    (Model.ChildMany x drop fr).2 = decide (fr.toNat < drop.toNat) := by
  unfold Model.ChildMany
  rw [U8_beq_zero, U8_gt_iff]
  by_cases h0 : drop.toNat = 0
  · simp [h0]
  · by_cases h1 : fr.toNat < drop.toNat <;> simp [h0, h1]


/-! ### `rootPosition` -/

/-- and-ing with the shifted mask clears the low `s` bits of a value below `2^(h+1)` -/
theorem and_shifted_mask {n h s : Nat} (hh : h ≤ 63) (hn : n < 2 ^ (h + 1)) :
    n &&& ((2 ^ (h + 1) - 1) * 2 ^ s % 2 ^ 64) = n / 2 ^ s * 2 ^ s := by
  apply Nat.eq_of_testBit_eq
  intro j
  rw [Nat.testBit_and, Nat.testBit_mod_two_pow, Nat.testBit_mul_two_pow, Nat.testBit_mul_two_pow,
    Nat.testBit_two_pow_sub_one, Nat.testBit_div_two_pow]
  by_cases hj : j < h + 1
  · by_cases hs : s ≤ j
    · simp [hs]; intro _; omega
    · simp [hs]
  · have : n.testBit j = false :=
      Nat.testBit_lt_two_pow (Nat.lt_of_lt_of_le hn (two_pow_le_of_le (by omega)))
    rw [this]
    by_cases hs : s ≤ j
    · simp [hs]; assumption
    · simp [hs]

theorem H8_add_one_toNat {k : Nat} (hk : k ≤ 63) : (H8 k + 1#8).toNat = k + 1 := by
  rw [H8_add_one, BitVec.toNat_ofNat]; omega

theorem rootPosition_toNat {h row : Nat} (hh : h ≤ 63) (hrow : row ≤ h) (n : U64)
    (hn : n.toNat < 2 ^ (h + 1)) :
    (Model.rootPosition n (H8 row) (H8 h)).toNat =
      2 ^ (h + 1) - 2 ^ (h + 1 - row) + 2 * (n.toNat / 2 ^ (row + 1)) := by
  have hh8 : (H8 h).toNat = h := toNat_H8 hh
  have hr8 : (H8 row).toNat = row := toNat_H8 (by omega)
  have h1 : (H8 row + 1#8).toNat = row + 1 := H8_add_one_toNat (by omega)
  have h2 : (H8 h + 1#8 - H8 row).toNat = h + 1 - row := by
    rw [toNat_U8_sub_of_le (by rw [H8_add_one_toNat hh, hr8]; omega), H8_add_one_toNat hh, hr8]
  have hb : n.toNat / 2 ^ (row + 1) * 2 ^ (row + 1) ≤ n.toNat := Nat.div_mul_le_self _ _
  have hd : n.toNat / 2 ^ (row + 1) * 2 ^ (row + 1) / 2 ^ row = 2 * (n.toNat / 2 ^ (row + 1)) := by
    have e : n.toNat / 2 ^ (row + 1) * 2 ^ (row + 1) = 2 * (n.toNat / 2 ^ (row + 1)) * 2 ^ row := by
      rw [Nat.pow_succ]; ac_rfl
    rw [e, Nat.mul_div_cancel _ (Nat.two_pow_pos _)]
  unfold Model.rootPosition
  rw [toNat_and_mask (by rw [hh8]; exact hh), BitVec.toNat_or, toNat_shr, toNat_shl,
    BitVec.toNat_and, toNat_shl, toNat_mask (by rw [hh8]; exact hh), hh8, hr8, h1, h2,
    and_shifted_mask hh hn, parentMany_nat hh (by omega) (by omega), hd]


/-- the offset of the root of the tree on row `row` is a valid offset of that row -/
theorem rootPos_offset_lt {n h row : Nat} (hn : n ≤ 2 ^ h) (hb : n.testBit row = true) :
    row ≤ h ∧ 2 * (n >>> (row + 1)) < 2 ^ (h - row) := by
  have hge := Nat.ge_two_pow_of_testBit hb
  have hrow : row ≤ h := by
    rcases Nat.lt_or_ge h row with hlt | hle
    · have := two_pow_lt_of_lt hlt; omega
    · exact hle
  refine ⟨hrow, ?_⟩
  rw [Nat.testBit_eq_decide_div_mod_eq] at hb
  have hb' : n / 2 ^ row % 2 = 1 := by simpa using hb
  have hm : n / 2 ^ row ≤ 2 ^ (h - row) := by
    rw [← Nat.pow_div hrow (by decide)]
    exact Nat.div_le_div_right hn
  rw [Nat.shiftRight_eq_div_pow, Nat.pow_succ, ← Nat.div_div_eq_div_mul]
  omega

theorem forestRows_spec_le (n : Nat) : n ≤ 2 ^ Spec.forestRows n := by
  unfold Spec.forestRows
  split
  · omega
  · have := @Nat.lt_log2_self (n - 1)
    omega

/-- `treeRows` only looks at the bits below the forest height -/
theorem treeRowsFrom_of_lt {n : Nat} : ∀ {k h : Nat}, n < 2 ^ (h + 1) →
    Spec.treeRowsFrom (h + k) n = Spec.treeRowsFrom h n
  | 0, h, _ => rfl
  | k + 1, h, hn => by
    have hb : n.testBit (h + k + 1) = false :=
      Nat.testBit_lt_two_pow (Nat.lt_of_lt_of_le hn (two_pow_le_of_le (by omega)))
    rw [show h + (k + 1) = (h + k) + 1 by omega, Spec.treeRowsFrom, hb]
    simp only [Bool.false_eq_true, if_false]
    exact treeRowsFrom_of_lt hn

theorem treeRows_eq_from {n h : Nat} (hh : h ≤ 64) (hn : n < 2 ^ (h + 1)) :
    Spec.treeRows n = Spec.treeRowsFrom h n := by
  unfold Spec.treeRows
  rw [show 64 = h + (64 - h) by omega]
  exact treeRowsFrom_of_lt hn

theorem rootExistsOnRow_eq (n : U64) (row : U8) :
    Model.rootExistsOnRow n row = n.toNat.testBit row.toNat := by
  unfold Model.rootExistsOnRow
  rw [Nat.testBit_eq_decide_div_mod_eq]
  have e : (shr n row.toNat &&& 1#64).toNat = n.toNat / 2 ^ row.toNat % 2 := by
    rw [BitVec.toNat_and, toNat_shr, BitVec.toNat_one (by decide), Nat.and_one_is_mod]
  by_cases hb : n.toNat / 2 ^ row.toNat % 2 = 1
  · have : shr n row.toNat &&& 1#64 = 1#64 := by
      apply BitVec.eq_of_toNat_eq; rw [e, hb]; rfl
    simp [this, hb]
  · have : shr n row.toNat &&& 1#64 ≠ 1#64 := by
      intro hc
      have := congrArg BitVec.toNat hc
      rw [e] at this
      exact hb this
    simp [this, hb]

/-- `numLeaves & (1 << row) != 0` tests bit `row` -/
theorem rootPresent_eq (n : U64) (k : Nat) :
    ((n &&& shl 1#64 k) != 0#64) = n.toNat.testBit k := by
  by_cases hr : k < 64
  · rw [one_shl_eq_twoPow, and_twoPow_ne_zero _ hr]; rfl
  · have : shl 1#64 k = 0#64 := by
      unfold shl; rw [if_neg hr]
    rw [this]
    have hb : n.toNat.testBit k = false :=
      Nat.testBit_lt_two_pow (Nat.lt_of_lt_of_le n.isLt (two_pow_le_of_le (by omega)))
    simp [hb]


/-! ### `inForest` -/

theorem shl_one_shl_one {h : Nat} (hh : h ≤ 63) : shl (shl 1#64 h) 1 = shl 2#64 h := by
  apply BitVec.eq_of_toNat_eq
  rw [toNat_shl, toNat_one_shl hh, toNat_two_shl, Nat.pow_one, Nat.pow_succ 2 h]

/-- the row marker bit `1 << h` of a position is set iff the position is above row 0 -/
theorem enc_and_marker {h r o : Nat} (hh : h ≤ 63) (hr : r ≤ h) (ho : o < 2 ^ (h - r)) :
    ((encU h r o &&& shl 1#64 h) != 0#64) = decide (0 < r) := by
  rw [one_shl_eq_twoPow, and_twoPow_ne_zero _ (by omega), encU, getLsbD_ofNat64 (by omega)]
  by_cases h0 : 0 < r
  · have := enc_testBit_above (k := 0) hr ho h0
    rw [Nat.sub_zero] at this
    rw [this]; simp [h0]
  · have h0' : r = 0 := by omega
    subst h0'
    have := enc_testBit_row hr ho
    rw [Nat.sub_zero] at this
    rw [this]; simp

theorem encU_row_zero (h o : Nat) : encU h 0 o = BitVec.ofNat 64 o := by
  unfold encU
  rw [enc_val, Nat.sub_zero, Nat.sub_self, Nat.zero_add]

/-- the `inForest` loop walks down right children to the last leaf below the position -/
theorem inForest_loop {h : Nat} (hh : h ≤ 63) :
    ∀ (r o fuel : Nat), r ≤ h → o < 2 ^ (h - r) → r < fuel →
      Model.inForest.loop1 (shl 1#64 h) (shl 2#64 h - 1#64) fuel (encU h r o) =
        .done (encU h 0 ((o + 1) * 2 ^ r - 1))
  | 0, o, fuel, hr, ho, hf => by
    obtain ⟨f, rfl⟩ : ∃ f, fuel = f + 1 := ⟨fuel - 1, by omega⟩
    unfold Model.inForest.loop1
    rw [enc_and_marker hh hr ho]
    simp
  | r + 1, o, fuel, hr, ho, hf => by
    obtain ⟨f, rfl⟩ : ∃ f, fuel = f + 1 := ⟨fuel - 1, by omega⟩
    have g := enc_facts_succ (show r < h by omega)
    unfold Model.inForest.loop1
    rw [enc_and_marker hh hr ho]
    simp only [Nat.zero_lt_succ, decide_true, if_true]
    have e : (shl (encU h (r + 1) o) 1 &&& (shl 2#64 h - 1#64)) ||| 1#64 =
        Model.RightChild (encU h (r + 1) o) (H8 h) := by
      unfold Model.RightChild
      rw [toNat_H8 hh]
    have hR : Model.RightChild (encU h (r + 1) o) (H8 h) = encU h r (2 * o + 1) := by
      apply BitVec.eq_of_toNat_eq
      have ho' : 2 * o + 1 < 2 ^ (h - r) := by omega
      show ((shl (encU h (r + 1) o) 1 &&& (shl 2#64 (H8 h).toNat - 1#64)) ||| 1#64).toNat = _
      rw [BitVec.toNat_or, toNat_H8 hh, toNat_shl_and_mask hh, toNat_encU hh (by omega) ho,
        toNat_encU hh (by omega) ho', leftChild_nat (by omega) ho, BitVec.toNat_one (by decide),
        nat_or_one, enc_even (by omega), enc_add h r (2 * o), enc_add h r (2 * o + 1)]
      omega
    rw [e, hR, inForest_loop hh r (2 * o + 1) f (by omega) (by omega) (by omega)]
    congr 3
    rw [Nat.pow_succ]
    have : (2 * o + 1 + 1) * 2 ^ r = (o + 1) * (2 ^ r * 2) := by
      rw [show 2 * o + 1 + 1 = (o + 1) * 2 by omega, Nat.mul_assoc, Nat.mul_comm 2]
    rw [this]

/-- the last leaf below a position is not to the right of the position's number -/
theorem last_leaf_le_enc {h r o : Nat} (hr : r ≤ h) (ho : o < 2 ^ (h - r)) :
    (o + 1) * 2 ^ r - 1 ≤ Spec.enc h (r, o) ∧ (o + 1) * 2 ^ r ≤ 2 ^ h ∧ 0 < (o + 1) * 2 ^ r := by
  have f := enc_facts hr
  have e : 2 ^ h = 2 ^ (h - r) * 2 ^ r := two_pow_split hr
  have h1 : (o + 1) * 2 ^ r ≤ 2 ^ h := by
    rw [e]; exact Nat.mul_le_mul_right _ (by omega)
  have h2 : 0 < (o + 1) * 2 ^ r := Nat.mul_pos (by omega) (Nat.two_pow_pos _)
  refine ⟨?_, h1, h2⟩
  by_cases h0 : r = 0
  · subst h0
    rw [enc_val]; simp
  · have : 2 ^ (h + 1 - r) ≤ 2 ^ h := two_pow_le_of_le (by omega)
    rw [enc_val]; omega


/-! ### `removeBit` / `addBit` -/

/-- delete bit `b`: the bits above move down one place -/
def removeBitNat (v b : Nat) : Nat := 2 ^ b * (v / 2 ^ (b + 1)) + v % 2 ^ b

/-- insert `bit` at place `p`: the bits at and above `p` move up one place -/
def addBitNat (v p : Nat) (bit : Bool) : Nat :=
  2 ^ p * (2 * (v / 2 ^ p) + bit.toNat) + v % 2 ^ p

theorem testBit_removeBitNat (v b j : Nat) :
    (removeBitNat v b).testBit j = if j < b then v.testBit j else v.testBit (j + 1) := by
  unfold removeBitNat
  rw [Nat.testBit_two_pow_mul_add _ (Nat.mod_lt _ (Nat.two_pow_pos _)), Nat.testBit_mod_two_pow,
    Nat.testBit_div_two_pow]
  split
  · simp [*]
  · rw [show j - b + (b + 1) = j + 1 by omega]

theorem testBit_addBitNat (v p : Nat) (bit : Bool) (j : Nat) :
    (addBitNat v p bit).testBit j =
      if j < p then v.testBit j else if j = p then bit else v.testBit (j - 1) := by
  unfold addBitNat
  rw [Nat.testBit_two_pow_mul_add _ (Nat.mod_lt _ (Nat.two_pow_pos _)), Nat.testBit_mod_two_pow]
  split
  · simp [*]
  · split
    · rename_i h1 h2
      subst h2
      rw [Nat.sub_self, Nat.testBit_zero]
      cases bit <;> simp [Bool.toNat] <;> omega
    · obtain ⟨k, hk⟩ : ∃ k, j - p = k + 1 := ⟨j - p - 1, by omega⟩
      rw [hk, Nat.testBit_succ]
      have : (2 * (v / 2 ^ p) + bit.toNat) / 2 = v / 2 ^ p := by
        cases bit <;> simp [Bool.toNat] <;> omega
      rw [this, Nat.testBit_div_two_pow, show k + p = j - 1 by omega]

theorem removeBitNat_addBitNat (v p : Nat) (bit : Bool) : removeBitNat (addBitNat v p bit) p = v := by
  apply Nat.eq_of_testBit_eq
  intro j
  rw [testBit_removeBitNat, testBit_addBitNat, testBit_addBitNat]
  by_cases h : j < p
  · simp [h]
  · rw [if_neg h, if_neg (by omega), if_neg (by omega), Nat.add_sub_cancel]

theorem addBitNat_removeBitNat (v p : Nat) : addBitNat (removeBitNat v p) p (v.testBit p) = v := by
  apply Nat.eq_of_testBit_eq
  intro j
  rw [testBit_addBitNat, testBit_removeBitNat, testBit_removeBitNat]
  by_cases h : j < p
  · simp [h]
  · rw [if_neg h]
    by_cases h2 : j = p
    · simp [h2]
    · rw [if_neg h2, if_neg (by omega), show j - 1 + 1 = j by omega]

theorem removeBitNat_lt {v b k : Nat} (hb : b ≤ k) (hv : v < 2 ^ (k + 1)) :
    removeBitNat v b < 2 ^ k := by
  apply Nat.lt_pow_two_of_testBit
  intro i hi
  rw [testBit_removeBitNat, if_neg (by omega)]
  exact Nat.testBit_lt_two_pow (Nat.lt_of_lt_of_le hv (two_pow_le_of_le (by omega)))

theorem addBitNat_lt {v p k : Nat} (bit : Bool) (hp : p ≤ k) (hv : v < 2 ^ k) :
    addBitNat v p bit < 2 ^ (k + 1) := by
  apply Nat.lt_pow_two_of_testBit
  intro i hi
  rw [testBit_addBitNat, if_neg (by omega), if_neg (by omega)]
  exact Nat.testBit_lt_two_pow (Nat.lt_of_lt_of_le hv (two_pow_le_of_le (by omega)))


theorem shl_two_eq (b : Nat) : shl 2#64 b = shl 1#64 (b + 1) := by
  apply BitVec.eq_of_toNat_eq
  rw [toNat_two_shl, toNat_shl]
  simp

/-- bits of the low mask `(1 << b) - 1`, for every shift count -/
theorem mask_getLsbD (b i : Nat) :
    (shl 1#64 b - 1#64).getLsbD i = (decide (i < 64) && decide (i < b)) := by
  by_cases hb : b < 64
  · have e : shl 1#64 b - 1#64 = BitVec.ofNat 64 (2 ^ b - 1) := by
      apply BitVec.eq_of_toNat_eq
      have h1 : 2 ^ b < 2 ^ 64 := two_pow_lt_64 hb
      have h2 := Nat.two_pow_pos b
      rw [BitVec.toNat_sub, toNat_one_shl (by omega), toNat_ofNat64_of_lt (by omega)]
      simp only [BitVec.toNat_ofNat]
      omega
    rw [e, BitVec.getLsbD_ofNat, Nat.testBit_two_pow_sub_one]
  · have e : shl 1#64 b - 1#64 = BitVec.allOnes 64 := by
      unfold shl; rw [if_neg hb]; decide
    rw [e, BitVec.getLsbD_allOnes]
    by_cases hi : i < 64
    · have : i < b := by omega
      simp [hi, this]
    · simp [hi]

theorem removeBit_getLsbD (v bit : U64) (i : Nat) :
    (Model.removeBit v bit).getLsbD i =
      if i < bit.toNat then v.getLsbD i else v.getLsbD (i + 1) := by
  unfold Model.removeBit maxUint64
  simp only [shl_two_eq, shr_eq, BitVec.getLsbD_or, BitVec.getLsbD_ushiftRight, BitVec.getLsbD_and,
    BitVec.getLsbD_xor, BitVec.getLsbD_not, BitVec.getLsbD_allOnes, mask_getLsbD]
  by_cases hi : i < 64
  · by_cases hib : i < bit.toNat
    · by_cases hi1 : i + 1 < 64
      · have : 1 + i < bit.toNat + 1 := by omega
        have h1 : 1 + i < 64 := by omega
        simp [hi, hib, this, h1]
      · have : v.getLsbD (1 + i) = false := BitVec.getLsbD_of_ge _ _ (by omega)
        simp [hi, hib, this]
    · have : ¬ (1 + i < bit.toNat + 1) := by omega
      simp [hi, hib, Nat.add_comm 1 i]
      intro h1
      by_cases hi1 : i + 1 < 64
      · simp [hi1]
      · have : v.getLsbD (i + 1) = false := BitVec.getLsbD_of_ge _ _ (by omega)
        simp [this] at h1
  · have h1 : v.getLsbD (1 + i) = false := BitVec.getLsbD_of_ge _ _ (by omega)
    have h2 : v.getLsbD i = false := BitVec.getLsbD_of_ge _ _ (by omega)
    have h3 : v.getLsbD (i + 1) = false := BitVec.getLsbD_of_ge _ _ (by omega)
    simp [h1, h2, h3]


theorem removeBit_toNat (v bit : U64) :
    (Model.removeBit v bit).toNat = removeBitNat v.toNat bit.toNat := by
  apply Nat.eq_of_testBit_eq
  intro j
  rw [BitVec.testBit_toNat, removeBit_getLsbD, testBit_removeBitNat, BitVec.testBit_toNat,
    BitVec.testBit_toNat]

theorem addBit_getLsbD (v place : U64) (bit : Bool) (i : Nat) (hi : i < 64) :
    (Model.addBit v place bit).getLsbD i =
      if i < place.toNat then v.getLsbD i else if i = place.toNat then bit
        else v.getLsbD (i - 1) := by
  unfold Model.addBit maxUint64
  generalize place.toNat = p
  have hm : (shl 1#64 p).getLsbD i = decide (i = p) := by
    rw [one_shl_eq_twoPow, BitVec.getLsbD_twoPow]
    by_cases h : i = p <;> simp [h] <;> omega
  have key : ((shl (v &&& (BitVec.allOnes 64 ^^^ (shl 1#64 p - 1#64))) 1) |||
      (v &&& ~~~(BitVec.allOnes 64 ^^^ (shl 1#64 p - 1#64)))).getLsbD i =
      if i < p then v.getLsbD i else if i = p then false else v.getLsbD (i - 1) := by
    simp only [shl_eq (_ &&& _), BitVec.getLsbD_or,
      BitVec.getLsbD_shiftLeft, BitVec.getLsbD_and,
      BitVec.getLsbD_xor, BitVec.getLsbD_not, BitVec.getLsbD_allOnes, mask_getLsbD]
    have h64 : i - 1 < 64 := by omega
    by_cases h1 : i < p
    · have : i - 1 < p := by omega
      simp [hi, h1, this, h64]
    · by_cases h2 : i = p
      · subst h2
        by_cases h0 : i = 0
        · subst h0; simp
        · have : i - 1 < i := by omega
          simp [hi, this, h64]
      · have : ¬ (i - 1 < p) := by omega
        have h0 : ¬ (i < 1) := by omega
        simp [hi, h1, h2, this, h64, h0]
  cases bit
  · simp only [Bool.false_eq_true, if_false]
    exact key
  · simp only [if_true]
    rw [BitVec.getLsbD_or, key, hm]
    by_cases h1 : i < p
    · have : ¬ i = p := by omega
      simp [h1, this]
    · by_cases h2 : i = p <;> simp [h1, h2]

theorem addBit_toNat (v place : U64) (bit : Bool) :
    (Model.addBit v place bit).toNat = addBitNat v.toNat place.toNat bit % 2 ^ 64 := by
  apply Nat.eq_of_testBit_eq
  intro j
  rw [BitVec.testBit_toNat, Nat.testBit_mod_two_pow, testBit_addBitNat]
  by_cases hj : j < 64
  · rw [addBit_getLsbD _ _ _ _ hj]
    simp only [hj, decide_true, Bool.true_and, BitVec.testBit_toNat]
  · rw [BitVec.getLsbD_of_ge _ _ (by omega)]
    simp [hj]


/-! ### `calcNextPosition` / `calcPrevPosition` -/

/-- removing path bit `d` of a position and setting the next row marker bit
moves the node one row up: `(r, o) ↦ (r + 1, o without bit d)` -/
theorem calcNext_nat {h r o d : Nat} (hd : r + d < h) (ho : o < 2 ^ (h - r)) :
    2 ^ h ||| removeBitNat (Spec.enc h (r, o)) d = Spec.enc h (r + 1, removeBitNat o d) := by
  have hx : removeBitNat o d < 2 ^ (h - (r + 1)) :=
    removeBitNat_lt (by omega) (by rw [show h - (r + 1) + 1 = h - r by omega]; exact ho)
  apply Nat.eq_of_testBit_eq
  intro j
  rw [Nat.testBit_or, Nat.testBit_two_pow, testBit_removeBitNat, enc_testBit (by omega) ho,
    enc_testBit (by omega) ho, enc_testBit (by omega) hx, testBit_removeBitNat,
    show h + 1 - (r + 1) = h - r by omega]
  by_cases h1 : j < d
  · have h2 : j < h + 1 - r := by omega
    have h3 : j < h - r := by omega
    have h4 : ¬ h = j := by omega
    simp [h1, h2, h3, h4]
  · by_cases h2 : j < h - r
    · have h3 : j + 1 < h + 1 - r := by omega
      have h5 : ¬ h = j := by omega
      simp [h1, h2, h3, h5]
    · have h3 : ¬ (j + 1 < h + 1 - r) := by omega
      simp only [h1, h2, h3, if_false]
      by_cases h5 : h = j
      · subst h5; simp; omega
      · simp [h5]; omega

/-- clearing the top marker bit and inserting a path bit at place `d` moves the node one row
down: `(r + 1, x) ↦ (r, x with bit inserted at d)` -/
theorem calcPrev_testBit {h r x d : Nat} (bit : Bool) (hd : r + d < h) (hx : x < 2 ^ (h - (r + 1)))
    (j : Nat) :
    (Spec.enc h (r, addBitNat x d bit)).testBit j =
      if j < d then ((Spec.enc h (r + 1, x)).testBit j && !decide (j = h))
      else if j = d then bit
      else ((Spec.enc h (r + 1, x)).testBit (j - 1) && !decide (j - 1 = h)) := by
  have hy : addBitNat x d bit < 2 ^ (h - r) := by
    have := addBitNat_lt (p := d) (k := h - (r + 1)) bit (by omega) hx
    rwa [show h - (r + 1) + 1 = h - r by omega] at this
  rw [enc_testBit (by omega) hy, enc_testBit (by omega) hx, enc_testBit (by omega) hx,
    testBit_addBitNat, show h + 1 - (r + 1) = h - r by omega]
  by_cases h1 : j < d
  · have h2 : j < h + 1 - r := by omega
    have h3 : j < h - r := by omega
    have h4 : ¬ j = h := by omega
    simp [h1, h2, h3, h4]
  · by_cases h2 : j = d
    · simp [h2]; intro; omega
    · by_cases h3 : j < h + 1 - r
      · have h4 : j - 1 < h - r := by omega
        have h5 : ¬ j - 1 = h := by omega
        simp [h1, h2, h3, h4, h5]
      · have h4 : ¬ (j - 1 < h - r) := by omega
        simp only [h1, h2, h3, h4, if_false]
        by_cases h5 : j - 1 = h
        · simp [h5]; omega
        · simp [h5]; omega


/-! ### in the forest = below the root of one of the trees; every number is a position -/

/-- two numbers `x < y` have a highest differing bit, clear in `x` and set in `y` -/
theorem exists_highest_diff : ∀ (y x : Nat), x < y →
    ∃ i, x.testBit i = false ∧ y.testBit i = true ∧ ∀ j, i < j → x.testBit j = y.testBit j := by
  intro y
  induction y using Nat.strongRecOn with
  | _ y ih =>
    intro x hxy
    by_cases hlt : x / 2 < y / 2
    · obtain ⟨i, h1, h2, h3⟩ := ih (y / 2) (by omega) (x / 2) hlt
      refine ⟨i + 1, ?_, ?_, ?_⟩
      · rw [Nat.testBit_succ]; exact h1
      · rw [Nat.testBit_succ]; exact h2
      · intro j hj
        obtain ⟨j', rfl⟩ : ∃ j', j = j' + 1 := ⟨j - 1, by omega⟩
        rw [Nat.testBit_succ, Nat.testBit_succ]
        exact h3 j' (by omega)
    · have heq : x / 2 = y / 2 := by omega
      refine ⟨0, ?_, ?_, ?_⟩
      · rw [Nat.testBit_zero]; simp; omega
      · rw [Nat.testBit_zero]; simp; omega
      · intro j hj
        obtain ⟨j', rfl⟩ : ∃ j', j = j' + 1 := ⟨j - 1, by omega⟩
        rw [Nat.testBit_succ, Nat.testBit_succ, heq]

theorem mod_two_pow_succ_testBit (x t : Nat) :
    x % 2 ^ (t + 1) = x % 2 ^ t + (if x.testBit t then 2 ^ t else 0) := by
  rw [Nat.mod_pow_succ, Nat.testBit_eq_decide_div_mod_eq]
  by_cases h : x / 2 ^ t % 2 = 1
  · simp [h]
  · have : x / 2 ^ t % 2 = 0 := by omega
    simp [this]

/-- the converse: a highest differing bit decides the order -/
theorem lt_of_highest_diff {x y i : Nat} (hx : x.testBit i = false) (hy : y.testBit i = true)
    (hj : ∀ j, i < j → x.testBit j = y.testBit j) : x < y := by
  have e : x / 2 ^ (i + 1) = y / 2 ^ (i + 1) := by
    apply Nat.eq_of_testBit_eq
    intro j
    rw [Nat.testBit_div_two_pow, Nat.testBit_div_two_pow, hj _ (by omega)]
  have h1 := mod_two_pow_succ_testBit x i
  have h2 := mod_two_pow_succ_testBit y i
  rw [hx] at h1
  rw [hy] at h2
  simp only [Bool.false_eq_true, if_false, if_true] at h1 h2
  have h3 := Nat.div_add_mod x (2 ^ (i + 1))
  have h4 := Nat.div_add_mod y (2 ^ (i + 1))
  have h5 := Nat.mod_lt x (Nat.two_pow_pos i)
  rw [e] at h3
  omega

/-- a node's leaves lie within `[0, n)` iff one of its ancestors-or-self is the root of
one of the trees given by the set bits of `n` -/
theorem below_root_iff {n r o : Nat} :
    (o + 1) * 2 ^ r ≤ n ↔
      ∃ R, r ≤ R ∧ n.testBit R = true ∧ o / 2 ^ (R - r) = 2 * (n >>> (R + 1)) := by
  constructor
  · intro hle
    have hom : o < n / 2 ^ r := by
      have := (Nat.le_div_iff_mul_le (Nat.two_pow_pos r)).2 hle
      omega
    obtain ⟨i, h1, h2, h3⟩ := exists_highest_diff _ _ hom
    refine ⟨r + i, by omega, ?_, ?_⟩
    · rw [Nat.testBit_div_two_pow] at h2
      rw [Nat.add_comm]; exact h2
    · rw [show r + i - r = i by omega, Nat.shiftRight_eq_div_pow]
      have e : o / 2 ^ i / 2 = n / 2 ^ (r + i + 1) := by
        apply Nat.eq_of_testBit_eq
        intro j
        rw [← Nat.testBit_succ, Nat.testBit_div_two_pow, Nat.testBit_div_two_pow, h3 _ (by omega),
          Nat.testBit_div_two_pow]
        congr 1; omega
      have e0 : o / 2 ^ i % 2 = 0 := by
        have := h1
        rw [Nat.testBit_eq_decide_div_mod_eq] at this
        simp at this; omega
      omega
  · rintro ⟨R, hr, hb, hroot⟩
    have hdiv : o * 2 ^ r / 2 ^ R = 2 * (n / 2 ^ (R + 1)) := by
      rw [two_pow_split hr, Nat.mul_div_mul_right _ _ (Nat.two_pow_pos r), hroot,
        Nat.shiftRight_eq_div_pow]
    -- the last leaf below the node
    have hx : ∀ t, r ≤ t → (2 ^ r * o + (2 ^ r - 1)).testBit t = (o * 2 ^ r).testBit t := by
      intro t ht
      rw [Nat.testBit_two_pow_mul_add _ (by have := Nat.two_pow_pos r; omega), if_neg (by omega),
        Nat.testBit_mul_two_pow]
      simp [ht]
    have key : ∀ i, (o * 2 ^ r).testBit (i + R) = (2 * (n / 2 ^ (R + 1))).testBit i := by
      intro i; rw [← Nat.testBit_div_two_pow, hdiv]
    have hlt : 2 ^ r * o + (2 ^ r - 1) < n := by
      apply lt_of_highest_diff (i := R)
      · rw [hx R hr]
        have := key 0
        rw [Nat.zero_add] at this
        rw [this, Nat.testBit_zero]; simp
      · exact hb
      · intro j hj
        rw [hx j (by omega)]
        obtain ⟨i, rfl⟩ : ∃ i, j = (i + 1) + R := ⟨j - R - 1, by omega⟩
        rw [key, Nat.testBit_succ, Nat.mul_div_cancel_left _ (by decide : 0 < 2),
          Nat.testBit_div_two_pow]
        congr 1; omega
    have := Nat.two_pow_pos r
    rw [Nat.add_mul, Nat.one_mul, Nat.mul_comm]
    omega

/-- every number below `2^(h+1) - 1` is the position of exactly one node (existence;
uniqueness is `enc_injective`) -/
theorem enc_surjective {h x : Nat} (hx : x < 2 ^ (h + 1) - 1) :
    ∃ r o, r ≤ h ∧ o < 2 ^ (h - r) ∧ Spec.enc h (r, o) = x := by
  have key : ∀ k, k ≤ h + 1 → x < 2 ^ (h + 1) - 2 ^ (h + 1 - k) →
      ∃ r o, r ≤ h ∧ o < 2 ^ (h - r) ∧ Spec.enc h (r, o) = x := by
    intro k
    induction k with
    | zero => intro _ hlt; rw [Nat.sub_zero, Nat.sub_self] at hlt; omega
    | succ k ih =>
      intro hk hlt
      by_cases hlt' : x < 2 ^ (h + 1) - 2 ^ (h + 1 - k)
      · exact ih (by omega) hlt'
      · have f := enc_facts (show k ≤ h by omega)
        rw [show h + 1 - (k + 1) = h - k by omega] at hlt
        refine ⟨k, x - (2 ^ (h + 1) - 2 ^ (h + 1 - k)), by omega, by omega, ?_⟩
        rw [enc_val]; omega
  exact key (h + 1) (Nat.le_refl _) (by rw [Nat.sub_self]; simpa using hx)

end UtreexoVerif.Proofs
