/-
  `getNewPositions`' inner loop over the maximal fully-deleted subtrees computes the deletion
  movement (property C07, level 2): for a list `dt` that is strictly ascending and contains
  exactly the positions `IsDT F D`, and a node `p` of `F` that keeps a survivor,
  `moveA n h dt p = movePos F D p` (`moveA_eq_movePos`).
-/
import UtreexoVerif.Proofs.Movement
import UtreexoVerif.Proofs.MoveFold
import UtreexoVerif.Proofs.SortedLists

namespace UtreexoVerif.Proofs.MoveDT
open UtreexoVerif Spec Hasher
open UtreexoVerif.Proofs UtreexoVerif.Proofs.SpecNodes UtreexoVerif.Proofs.SpecSubs
open UtreexoVerif.Proofs.SpecPlan UtreexoVerif.Proofs.CalcComplete UtreexoVerif.Proofs.FinalPos
open UtreexoVerif.Proofs.CalcGeo UtreexoVerif.Proofs.Movement UtreexoVerif.Proofs.MoveFold
open UtreexoVerif.Proofs.Sorted

section
set_option linter.unusedSectionVars false
variable {H : Type} [DecidableEq H] [Hasher H]

/-- a node under the root of the tree on row `h` is a node of that tree -/
theorem tree_of_under {F : Forest H} {h h' : Nat} {T : Pos} {t : CTree H} (s : SubAtT F h' T t)
    (hh : F.numLeaves.testBit h = true) (hu : Under h (2 * (F.numLeaves >>> (h + 1))) T) :
    h' = h := by
  rcases Nat.lt_trichotomy h h' with hlt | heq | hgt
  · exact (under_disjoint hlt s.bit s.under hu).elim
  · exact heq.symm
  · exact (under_disjoint hgt hh hu s.under).elim

/-- a maximal fully-deleted subtree that hits a surviving node `p` is the sibling of an
ancestor of `p` -/
theorem hit_is_sibling {F : Forest H} {D : List H} {h : Nat} {p : Pos} {t : CTree H}
    (s : SubAtT F h p t) (hal : delT D t ≠ none) {T : Pos} (hT : IsDT F D T)
    (hin : inTree F.numLeaves h T = true) (hhit : hitA T p = true) :
    p.1 ≤ T.1 ∧ T.1 < h ∧ T.2 = sibIdx (p.2 / 2 ^ (T.1 - p.1)) ∧
      aliveAfter F D T.1 (sibIdx (p.2 / 2 ^ (T.1 - p.1))) = false := by
  obtain ⟨hT', tT, sT, hdead, _⟩ := hT
  have hu := (inTree_iff _ _ _).1 hin
  have hh' : hT' = h := tree_of_under sT s.bit hu
  rw [hh'] at sT
  unfold hitA at hhit
  simp only [decide_eq_true_eq] at hhit
  obtain ⟨hle, hdiv⟩ := hhit
  have hrow := sT.row_le
  -- the ancestor of `p` on the row of `T`
  obtain ⟨ta, sa, hala⟩ := anc_alive s hal (d := T.1 - p.1) (by omega)
  rw [show p.1 + (T.1 - p.1) = T.1 by omega] at sa
  have hne : T.2 ≠ p.2 / 2 ^ (T.1 - p.1) := by
    intro e
    have : T = (T.1, p.2 / 2 ^ (T.1 - p.1)) := by rw [← e]
    rw [this] at sT
    have := (sT.unique sa).2
    rw [this] at hdead
    exact hala hdead
  have hhalf : T.2 / 2 = p.2 / 2 ^ (T.1 - p.1) / 2 := by
    rw [← hdiv, Nat.div_div_eq_div_mul, ← Nat.pow_succ]
    congr 2
    omega
  have hsib : T.2 = sibIdx (p.2 / 2 ^ (T.1 - p.1)) := by
    unfold sibIdx
    split <;> omega
  have hlt : T.1 < h := by
    rcases Nat.lt_or_ge T.1 h with hlt | hge
    · exact hlt
    · exfalso
      have e : T.1 = h := by omega
      -- both are the root of the tree
      have h1 := sT.under.2
      have h2 := sa.under.2
      simp only at h2
      rw [e, Nat.sub_self, Nat.pow_zero, Nat.div_one] at h1
      rw [e, Nat.sub_self, Nat.pow_zero, Nat.div_one] at h2
      rw [e] at hne
      omega
  refine ⟨hle, hlt, hsib, ?_⟩
  have : T = (T.1, sibIdx (p.2 / 2 ^ (T.1 - p.1))) := by rw [← hsib]
  rw [this] at sT
  rw [aliveAfter_of sT, hdead]
  rfl

/-- the rows on which a deletion hits `p` are the dead levels of `p` -/
theorem hit_iff_dead {F : Forest H} {D : List H} {dt : List Pos} (hdt : ∀ T, T ∈ dt ↔ IsDT F D T)
    {h : Nat} {p : Pos} {t : CTree H} (s : SubAtT F h p t) (hal : delT D t ≠ none) (j : Nat) :
    (∃ T ∈ dt, inTree F.numLeaves h T = true ∧ hitA T p = true ∧ T.1 = j) ↔
      j ∈ deadLevelsOf F D h p := by
  rw [mem_deadLevelsOf]
  constructor
  · rintro ⟨T, hT, hin, hhit, rfl⟩
    obtain ⟨h1, h2, _, h4⟩ := hit_is_sibling s hal ((hdt T).1 hT) hin hhit
    exact ⟨h1, h2, h4⟩
  · rintro ⟨h1, h2, h3⟩
    obtain ⟨ta, sa, hala⟩ := anc_alive s hal (d := j - p.1) (by omega)
    rw [show p.1 + (j - p.1) = j by omega] at sa
    have hnr : isRootPos F.numLeaves (j, p.2 / 2 ^ (j - p.1)) = false := by
      cases hr : isRootPos F.numLeaves (j, p.2 / 2 ^ (j - p.1)) with
      | false => rfl
      | true => have := (sa.root_iff).1 hr; simp only at this; omega
    obtain ⟨_, s', _, ssib⟩ := sa.parent hnr
    rw [sib_eq_sibIdx] at ssib
    simp only at ssib
    have hdead : delT D s' = none := by
      rw [aliveAfter_of ssib] at h3
      cases hd : delT D s' with
      | none => rfl
      | some x => rw [hd] at h3; cases h3
    refine ⟨(j, sibIdx (p.2 / 2 ^ (j - p.1))), (hdt _).2 ⟨h, s', ssib, hdead, Or.inr ?_⟩,
      (inTree_iff _ _ _).2 ssib.under, ?_, rfl⟩
    · simp only [sibIdx_sibIdx]
      rw [aliveAfter_of sa]
      cases hd : delT D ta with
      | none => exact absurd hd hala
      | some x => rfl
    · unfold hitA
      simp only [decide_eq_true_eq]
      refine ⟨h1, ?_⟩
      rw [sibIdx_div_two, Nat.div_div_eq_div_mul, ← Nat.pow_succ]
      congr 2
      omega

/-- the hypotheses of `moveA_eq_liftFold` hold for the list of maximal fully-deleted subtrees -/
theorem hitHyp_of_dt {F : Forest H} {D : List H} {dt : List Pos} (hs : dt.Pairwise PLt)
    (hdt : ∀ T, T ∈ dt ↔ IsDT F D T) {h : Nat} {p : Pos} {t : CTree H} (s : SubAtT F h p t)
    (hal : delT D t ≠ none) : HitHyp F.numLeaves h dt p where
  rows := hs.imp (fun {a b} hab => by rcases hab with h1 | h1 <;> omega)
  nodup := hs.imp (fun {a b} hab => PLt.ne hab)
  uniq := by
    intro T hT T' hT' hin hin' hh hh' hrow
    obtain ⟨_, _, e1, _⟩ := hit_is_sibling s hal ((hdt T).1 hT) hin hh
    obtain ⟨_, _, e2, _⟩ := hit_is_sibling s hal ((hdt T').1 hT') hin' hh'
    rw [hrow] at e1
    exact Prod.ext hrow (by rw [e1, e2])

/-- **the inner loop of `getNewPositions` over the maximal fully-deleted subtrees computes the
deletion movement** -/
theorem moveA_eq_movePos {F : Forest H} {D : List H} {dt : List Pos} (hs : dt.Pairwise PLt)
    (hdt : ∀ T, T ∈ dt ↔ IsDT F D T) {h : Nat} {p : Pos} {t : CTree H} (s : SubAtT F h p t)
    (hal : delT D t ≠ none) : moveA F.numLeaves h dt p = movePos F D p := by
  unfold movePos
  rw [treeRowOf_of s]
  exact moveA_eq_liftFold (hitHyp_of_dt hs hdt s hal) (deadLevelsOf_asc F D h p)
    (fun j => (hit_iff_dead hdt s hal j).symm)

/-- a deletion in the tree of a surviving node is not the root of that tree -/
theorem dt_not_root {F : Forest H} {D : List H} {h : Nat} {p : Pos} {t : CTree H}
    (s : SubAtT F h p t) (hal : delT D t ≠ none) {T : Pos} (hT : IsDT F D T)
    (hin : inTree F.numLeaves h T = true) : T.1 < h := by
  obtain ⟨hT', tT, sT, hdead, _⟩ := hT
  have hu := (inTree_iff _ _ _).1 hin
  have hh' : hT' = h := tree_of_under sT s.bit hu
  rw [hh'] at sT
  rcases Nat.lt_or_ge T.1 h with hlt | hge
  · exact hlt
  · exfalso
    have e : T.1 = h := by have := sT.row_le; omega
    obtain ⟨ta, sa, hala⟩ := anc_alive s hal (d := h - p.1) (by have := s.row_le; omega)
    have h1 := sT.under.2
    have h2 := s.under.2
    rw [e, Nat.sub_self, Nat.pow_zero, Nat.div_one] at h1
    have : T = (p.1 + (h - p.1), p.2 / 2 ^ (h - p.1)) := by
      apply Prod.ext
      · simp only; have := s.row_le; omega
      · simp only; rw [h1, h2]
    rw [this] at sT
    have := (sT.unique sa).2
    rw [this] at hdead
    exact hala hdead

end
end UtreexoVerif.Proofs.MoveDT
