/-
  Pointer forest, heap model: the list / collapsed-tree facts behind the forest-level
  deletion theorems.

  * pruning a plugged tree (`prune_plug`): killing exactly the leaves of one child of a node of
    a tree with distinct leaves replaces the node by its other child;
  * `NodeMap` updates of `deleteSingle` (`mapDel`, `mapSet`) as membership statements;
  * `ReprRoots` split at one root, leaves of represented roots.
-/
import UtreexoVerif.Proofs.PollardHeapDelRoot
import UtreexoVerif.Proofs.SpecUndo
import UtreexoVerif.Proofs.SpecSubs
import UtreexoVerif.Proofs.NodesUnique
set_option linter.unusedSectionVars false
set_option linter.unusedVariables false
set_option linter.unusedSimpArgs false

namespace UtreexoVerif.Proofs.PollardHeap
open UtreexoVerif UtreexoVerif.GoInt UtreexoVerif.Model UtreexoVerif.Model.PollardHeap UtreexoVerif.Spec Hasher
open UtreexoVerif.Model.PollardAbs UtreexoVerif.Proofs.SpecNodes UtreexoVerif.Proofs.SpecSubs
open UtreexoVerif.Proofs.PollardLookup

variable {H : Type} [DecidableEq H] [Hasher H]

/-! ### pruning a plugged tree -/

/-- the leaves of the siblings along a context -/
def CCtx.sibLeaves : CCtx H → List H
  | .top => []
  | .left up s => s.leaves ++ up.sibLeaves
  | .right s up => s.leaves ++ up.sibLeaves

theorem CCtx.leaves_plug : ∀ (ctx : CCtx H) (t : CTree H),
    (ctx.plug t).leaves.Perm (t.leaves ++ ctx.sibLeaves) := by
  intro ctx
  induction ctx with
  | top => intro t; simp [CCtx.plug, CCtx.sibLeaves]
  | left up s ih =>
    intro t
    refine (ih (.node t s)).trans ?_
    simp [CTree.leaves, CCtx.sibLeaves, List.append_assoc]
  | right s up ih =>
    intro t
    refine (ih (.node s t)).trans ?_
    simp only [CTree.leaves, CCtx.sibLeaves, List.append_assoc]
    rw [← List.append_assoc, ← List.append_assoc]
    exact List.Perm.append_right _ List.perm_append_comm

/-- pruning goes through a context none of whose siblings loses a leaf -/
theorem prune_plug_ctx (R : List H) : ∀ (ctx : CCtx H) (u u' : CTree H),
    prune R u = some u' → (∀ x ∈ ctx.sibLeaves, x ∉ R) →
    prune R (ctx.plug u) = some (ctx.plug u') := by
  intro ctx
  induction ctx with
  | top => intro u u' h _; exact h
  | left up s ih =>
    intro u u' h hs
    simp only [CCtx.plug]
    apply ih
    · simp only [Spec.prune, h]
      rw [prune_eq_self R s (fun x hx => hs x (by simp [CCtx.sibLeaves, hx]))]
      rfl
    · intro x hx; exact hs x (by simp [CCtx.sibLeaves, hx])
  | right s up ih =>
    intro u u' h hs
    simp only [CCtx.plug]
    apply ih
    · simp only [Spec.prune, h]
      rw [prune_eq_self R s (fun x hx => hs x (by simp [CCtx.sibLeaves, hx]))]
      rfl
    · intro x hx; exact hs x (by simp [CCtx.sibLeaves, hx])

/-- **killing the leaves of one child**: in a tree with distinct leaves, deleting exactly the
leaves of the child `a` of a node replaces that node by its other child `b` -/
theorem prune_plug (ctx : CCtx H) (a b : CTree H) (d : Bool)
    (nd : (ctx.plug (if d then .node b a else .node a b)).leaves.Nodup) :
    prune a.leaves (ctx.plug (if d then .node b a else .node a b)) = some (ctx.plug b) := by
  have hperm := CCtx.leaves_plug ctx (if d then .node b a else .node a b)
  have nd' := (List.Perm.nodup_iff hperm).1 nd
  have hab : (a.leaves ++ b.leaves ++ ctx.sibLeaves).Nodup := by
    cases d
    · simpa [CTree.leaves] using nd'
    · simp only [if_true, CTree.leaves] at nd'
      refine (List.Perm.nodup_iff ?_).1 nd'
      exact List.Perm.append_right _ List.perm_append_comm
  simp only [List.nodup_append, List.mem_append] at hab
  obtain ⟨⟨nda, ndb, dab⟩, ndc, dc⟩ := hab
  have pa : prune a.leaves a = none := (prune_eq_none_iff _ a).2 (fun x hx => hx)
  have pb : prune a.leaves b = some b :=
    prune_eq_self _ b (fun x hx hxa => dab x hxa x hx rfl)
  apply prune_plug_ctx
  · cases d
    · simp only [Bool.false_eq_true, if_false, Spec.prune, pa, pb]; rfl
    · simp only [if_true, Spec.prune, pa, pb]; rfl
  · intro x hx hxa
    exact dc x (Or.inl hxa) x hx rfl

/-! ### `NodeMap` updates -/

theorem mem_mapDel {m : List (H × Nat)} {k : H} {e : H × Nat} :
    e ∈ mapDel m k ↔ e ∈ m ∧ e.1 ≠ k := by
  unfold mapDel
  simp [List.mem_filter]

theorem mapDel_keys_nodup {m : List (H × Nat)} (k : H) (h : (m.map (·.1)).Nodup) :
    ((mapDel m k).map (·.1)).Nodup := by
  unfold mapDel
  exact List.Nodup.sublist (List.Sublist.map _ List.filter_sublist) h

theorem mapGet_isSome_iff {m : List (H × Nat)} {k : H} :
    (mapGet m k).isSome = true ↔ k ∈ m.map (·.1) := by
  unfold mapGet
  induction m with
  | nil => simp
  | cons e m ih =>
    obtain ⟨a, b⟩ := e
    simp only [List.lookup_cons, List.map_cons, List.mem_cons]
    by_cases h : k = a
    · subst h; simp
    · have : (k == a) = false := by simpa using h
      simp [this, ih, h]

theorem mem_mapSet_of_mem {m : List (H × Nat)} {k : H} {v : Nat} (hk : k ∈ m.map (·.1))
    {e : H × Nat} : e ∈ mapSet m k v ↔ (e ∈ m ∧ e.1 ≠ k) ∨ e = (k, v) := by
  unfold mapSet
  have : (m.lookup k).isSome = true := (mapGet_isSome_iff (m := m)).2 hk
  rw [if_pos this]
  simp only [List.mem_map]
  constructor
  · rintro ⟨x, hx, rfl⟩
    by_cases hxk : x.1 = k
    · right; simp [hxk]
    · left; simp [hxk, hx]
  · rintro (⟨he, hne⟩ | rfl)
    · exact ⟨e, he, by simp [hne]⟩
    · simp only [List.mem_map] at hk
      obtain ⟨x, hx, hxk⟩ := hk
      exact ⟨x, hx, by simp [hxk]⟩

theorem mapSet_keys {m : List (H × Nat)} {k : H} {v : Nat} (hk : k ∈ m.map (·.1)) :
    (mapSet m k v).map (·.1) = m.map (·.1) := by
  unfold mapSet
  have : (m.lookup k).isSome = true := (mapGet_isSome_iff (m := m)).2 hk
  rw [if_pos this, List.map_map]
  apply List.map_congr_left
  intro x _
  simp only [Function.comp]
  split <;> simp_all

/-! ### leaves of represented roots -/

theorem ReprRoots.leaves {hp : Heap H} {rs : List Nat} {ts : List (Option (CTree H))}
    {owned : List Nat} {lv : List (H × Nat)} (h : ReprRoots hp rs ts owned lv) :
    lv.map (·.1) = ts.flatMap optLeaves := by
  induction h with
  | nil => rfl
  | @cons r t fp lv rs ts owned lvs h1 h2 ih =>
    simp only [List.map_append, List.flatMap_cons, ih]
    congr 1
    cases t with
    | none => obtain ⟨_, _, e⟩ := h1; subst e; rfl
    | some t => exact h1.2.leaves

/-- the leaf indexes of a represented sub-tree are distinct nodes of it -/
theorem Sub.leaf_idx {hp : Heap H} {n holder : Nat} {t : CTree H} {fp : List Nat}
    {lv : List (H × Nat)} (h : Sub hp n holder t fp lv) (nd : (n :: fp).Nodup) :
    (lv.map (·.2)).Nodup ∧ ∀ i ∈ lv.map (·.2), i ∈ n :: fp := by
  induction h with
  | leaf => simp
  | @node n holder l r nn hn0 ln rn a b fa fb la lb h1 h2 h3 h4 h5 h6 h7 h8 h9 sa sb iha ihb =>
    simp only [List.nodup_cons, List.mem_cons, List.mem_append, not_or, List.nodup_append] at nd
    obtain ⟨⟨hnl, hnr, hnfa, hnfb⟩, ⟨hlr, hlfa, hlfb⟩, ⟨hrfa, hrfb⟩, nda, ndb, dab⟩ := nd
    obtain ⟨a1, a2⟩ := iha (List.nodup_cons.2 ⟨hlfa, nda⟩)
    obtain ⟨b1, b2⟩ := ihb (List.nodup_cons.2 ⟨hrfb, ndb⟩)
    refine ⟨?_, ?_⟩
    · rw [List.map_append, List.nodup_append]
      refine ⟨a1, b1, ?_⟩
      intro i hi j hj e
      subst e
      have ha := a2 i hi
      have hb := b2 i hj
      simp only [List.mem_cons] at ha hb
      rcases ha with rfl | ha <;> rcases hb with hb | hb
      · exact hlr hb
      · exact hlfb hb
      · subst hb; exact hrfa ha
      · exact dab i ha i hb rfl
    · intro i hi
      rw [List.map_append, List.mem_append] at hi
      simp only [List.mem_cons, List.mem_append]
      rcases hi with hi | hi
      · have := a2 i hi
        simp only [List.mem_cons] at this
        rcases this with rfl | h
        · exact Or.inr (Or.inl rfl)
        · exact Or.inr (Or.inr (Or.inr (Or.inl h)))
      · have := b2 i hi
        simp only [List.mem_cons] at this
        rcases this with rfl | h
        · exact Or.inr (Or.inr (Or.inl rfl))
        · exact Or.inr (Or.inr (Or.inr (Or.inr h)))

theorem ReprRoots.leaf_idx {hp : Heap H} {rs : List Nat} {ts : List (Option (CTree H))}
    {owned : List Nat} {lv : List (H × Nat)} (h : ReprRoots hp rs ts owned lv) (nd : owned.Nodup) :
    (lv.map (·.2)).Nodup ∧ ∀ i ∈ lv.map (·.2), i ∈ owned := by
  induction h with
  | nil => simp
  | @cons r t fp lv rs ts owned lvs h1 h2 ih =>
    rw [List.nodup_append] at nd
    obtain ⟨nd1, nd2, dd⟩ := nd
    obtain ⟨b1, b2⟩ := ih nd2
    have ha : (lv.map (·.2)).Nodup ∧ ∀ i ∈ lv.map (·.2), i ∈ r :: fp := by
      cases t with
      | none => obtain ⟨_, _, e⟩ := h1; subst e; simp
      | some t => exact h1.2.leaf_idx nd1
    obtain ⟨a1, a2⟩ := ha
    refine ⟨?_, ?_⟩
    · rw [List.map_append, List.nodup_append]
      exact ⟨a1, b1, fun i hi j hj e => dd i (a2 i hi) j (b2 j hj) e⟩
    · intro i hi
      rw [List.map_append, List.mem_append] at hi
      rw [List.mem_append]
      rcases hi with hi | hi
      · exact Or.inl (a2 i hi)
      · exact Or.inr (b2 i hi)

/-- split a list of represented roots at index `k` -/
theorem ReprRoots.split {hp : Heap H} {rs : List Nat} {ts : List (Option (CTree H))}
    {owned : List Nat} {lv : List (H × Nat)} (h : ReprRoots hp rs ts owned lv) (k : Nat)
    (t : Option (CTree H)) (hk : ts[k]? = some t) :
    ∃ rs1 r rs2 ts1 ts2 o1 fp o2 l1 lk l2, rs = rs1 ++ r :: rs2 ∧ ts = ts1 ++ t :: ts2 ∧
      owned = o1 ++ (r :: fp ++ o2) ∧ lv = l1 ++ (lk ++ l2) ∧ rs1.length = k ∧ ts1.length = k ∧
      ReprRoots hp rs1 ts1 o1 l1 ∧ ReprRoot hp r t fp lk ∧ ReprRoots hp rs2 ts2 o2 l2 := by
  have hlt : k < ts.length := by
    rcases Nat.lt_or_ge k ts.length with h' | h'
    · exact h'
    · rw [List.getElem?_eq_none h'] at hk; cases hk
  have e : ts = ts.take k ++ t :: ts.drop (k + 1) := by
    have h1 : ts.drop k = t :: ts.drop (k + 1) := by
      rw [List.drop_eq_getElem_cons hlt]
      congr 1
      rw [List.getElem?_eq_getElem hlt] at hk
      exact Option.some.inj hk
    rw [← h1, List.take_append_drop]
  rw [e] at h
  obtain ⟨rs1, rs2', o1, o2', l1, l2', e1, e2, e3, h1, h2⟩ := h.append_inv
  cases h2 with
  | @cons r _ fp lk rs2 _ o2 l2 ha hb =>
    refine ⟨rs1, r, rs2, ts.take k, ts.drop (k + 1), o1, fp, o2, l1, lk, l2, e1, e, ?_, e3, ?_, ?_,
      h1, ha, hb⟩
    · rw [e2]
    · have := h1.length_eq
      rw [this, List.length_take]; omega
    · rw [List.length_take]; omega

/-- a walk to a listed sub-tree -/
theorem subs_walk : ∀ (t : CTree H) (R O : Nat), depth t ≤ R → ∀ x ∈ subs t R O,
    childWalk t (R - x.1.1) x.1.2 = some x.2 := by
  intro t
  induction t with
  | leaf h =>
    intro R O _ x hx
    simp only [subs, List.mem_singleton] at hx
    subst hx
    simp [childWalk]
  | node a b iha ihb =>
    intro R O hd x hx
    simp only [depth] at hd
    simp only [subs, List.mem_cons, List.mem_append] at hx
    rcases hx with rfl | hx | hx
    · simp [childWalk]
    · have hw := iha (R - 1) (2 * O) (by omega) x hx
      obtain ⟨u1, u2⟩ := subs_under a (R - 1) (2 * O) (by omega) x hx
      have e : R - x.1.1 = (R - 1 - x.1.1) + 1 := by omega
      rw [e]
      simp only [childWalk]
      have hb : x.1.2.testBit (R - 1 - x.1.1) = false := by
        rw [Nat.testBit_eq_decide_div_mod_eq, u2]; simp
      rw [hb]
      exact hw
    · have hw := ihb (R - 1) (2 * O + 1) (by omega) x hx
      obtain ⟨u1, u2⟩ := subs_under b (R - 1) (2 * O + 1) (by omega) x hx
      have e : R - x.1.1 = (R - 1 - x.1.1) + 1 := by omega
      rw [e]
      simp only [childWalk]
      have hb : x.1.2.testBit (R - 1 - x.1.1) = true := by
        rw [Nat.testBit_eq_decide_div_mod_eq, u2]; simp
      rw [hb]
      exact hw

end UtreexoVerif.Proofs.PollardHeap
