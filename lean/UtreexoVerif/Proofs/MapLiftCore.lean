/-
  Layer 2: the effect on the storage invariant of lifting the subtree at `σ` onto its parent
  `P` (the sibling `δ = sib σ` and everything below it disappears).  Used by the empty-root
  case of `addSingle` and by `removeSingle`.
-/
import UtreexoVerif.Proofs.MapAInv

namespace UtreexoVerif.Proofs.MapLiftCore
open UtreexoVerif Model Spec Spec.Forest Proofs MapInv MapPrune MapRep MapLiftGeo PForest MapAInv Hasher
set_option linter.unusedSectionVars false

variable {H : Type} [DecidableEq H] [Hasher H]

/-- `Nodes` after the lift: `P` gets the content of `σ`, everything strictly below `P` is the
content one row lower below `σ`, the rest is unchanged -/
def liftAll (σ : Pos) (A : Pos → Option (Leaf H)) : Pos → Option (Leaf H) := fun q =>
  if q = parent σ then A σ
  else if SUnder (parent σ) q then (if q.1 = 0 then none else A (unliftP σ q))
  else A q

/-- `CachedLeaves` after the lift (including the entry of `σ` itself) -/
def liftCAll (σ : Pos) (C : H → Option Pos) : H → Option Pos := fun x =>
  (C x).map (fun t => if Anc σ t then liftP σ t else t)

section
variable {A : Pos → Option (Leaf H)} {σ : Pos}

theorem liftAll_P : liftAll σ A (parent σ) = A σ := by simp [liftAll]

theorem liftAll_lift {c : Pos} (hc : SUnder σ c) : liftAll σ A (liftP σ c) = A c := by
  have hs := sunder_parent_liftP hc
  have hne : liftP σ c ≠ parent σ := by
    intro e
    have := hs.2; rw [e] at this; omega
  unfold liftAll
  rw [if_neg hne, if_pos hs, if_neg (by simp [liftP_fst]), unliftP_liftP hc.1]

theorem liftAll_out {q : Pos} (hq : ¬ Anc (parent σ) q) : liftAll σ A q = A q := by
  unfold liftAll
  have hne : q ≠ parent σ := fun e => hq (by rw [e]; exact Anc.refl _)
  rw [if_neg hne, if_neg (fun h => hq h.1)]

theorem liftAll_row0 {q : Pos} (hq : SUnder (parent σ) q) (h0 : q.1 = 0) : liftAll σ A q = none := by
  unfold liftAll
  have hne : q ≠ parent σ := by intro e; have := hq.2; rw [e] at this; omega
  rw [if_neg hne, if_pos hq, if_pos h0]

/-- every position is `P`, a row-0 position below `P`, a lift, or outside `P` -/
theorem pos_cases (σ q : Pos) : q = parent σ ∨ (SUnder (parent σ) q ∧ q.1 = 0) ∨
    (∃ c, SUnder σ c ∧ q = liftP σ c) ∨ ¬ Anc (parent σ) q := by
  by_cases h : Anc (parent σ) q
  · by_cases he : q = parent σ
    · exact Or.inl he
    · have hs : SUnder (parent σ) q := ⟨h, by
        have := h.1
        have hr : q.1 ≠ (parent σ).1 := fun e => he (h.eq_of_row e.symm).symm
        omega⟩
      by_cases h0 : q.1 = 0
      · exact Or.inr (Or.inl ⟨hs, h0⟩)
      · obtain ⟨c, hc, e⟩ := exists_liftP hs (by omega)
        exact Or.inr (Or.inr (Or.inl ⟨c, hc, e.symm⟩))
  · exact Or.inr (Or.inr (Or.inr h))
end

variable {A : Pos → Option (Leaf H)} {C : H → Option Pos} {N N' : List (Pos × H × Bool)}
  {R R' : Pos → Prop} {K K' : H → Prop}

/-- **the lift**: from the invariant of `(A, C)` for `(N, R, K)` to the invariant of the lifted
state for the lifted node list; the positions from `P` upwards (and their siblings) are exempt
from "nothing unneeded" (they may have been needed only for leaves that disappeared) -/
theorem liftCore (L : Laws N R) (inv : AInv A C N R K (fun _ => False)) {σ : Pos}
    (hσm : ∃ h b, (σ, h, b) ∈ N) (hσs : A σ ≠ none)
    (hCδ : ∀ x t, C x = some t → ¬ Anc (sib σ) t)
    (hN' : ∀ e : Pos × H × Bool, e ∈ N' ↔ (¬ Anc (parent σ) e.1 ∧ e ∈ N) ∨
      (∃ c, Anc σ c ∧ e.1 = liftP σ c ∧ (c, e.2) ∈ N))
    (hR' : ∀ z, R' z ↔ (z = parent σ ∧ (R σ ∨ R (parent σ))) ∨ (R z ∧ ¬ Anc (parent σ) z))
    (hK' : ∀ x, K' x ↔ K x ∧ ∀ t, (t, x, true) ∈ N → ¬ Anc (sib σ) t) :
    AInv (liftAll σ A) (liftCAll σ C) N' R' K' (fun z => Anc (parent z) (parent (parent σ))) := by
  obtain ⟨hσ, bσ, hσN⟩ := hσm
  have hPσ : Anc (parent σ) σ := anc_parent_self σ
  -- membership helpers
  have mem_out : ∀ z h b, ¬ Anc (parent σ) z → ((z, h, b) ∈ N' ↔ (z, h, b) ∈ N) := by
    intro z h b hz
    rw [hN']
    constructor
    · rintro (⟨_, hm⟩ | ⟨c, hc, he, _⟩)
      · exact hm
      · exact absurd (by rw [show z = liftP σ c from he]; exact anc_parent_liftP hc) hz
    · intro hm; exact Or.inl ⟨hz, hm⟩
  have mem_lift : ∀ c h b, Anc σ c → ((liftP σ c, h, b) ∈ N' ↔ (c, h, b) ∈ N) := by
    intro c h b hc
    rw [hN']
    constructor
    · rintro (⟨hn, _⟩ | ⟨c', hc', he, hm⟩)
      · exact absurd (anc_parent_liftP hc) hn
      · have : c = c' := liftP_inj hc hc' he
        subst this; exact hm
    · intro hm; exact Or.inr ⟨c, hc, rfl, hm⟩
  have mem_under : ∀ z h b, (z, h, b) ∈ N' → Anc (parent σ) z → ∃ c, Anc σ c ∧ z = liftP σ c ∧ (c, h, b) ∈ N := by
    intro z h b hm hz
    rcases (hN' _).1 hm with ⟨hn, _⟩ | ⟨c, hc, he, hm'⟩
    · exact absurd hz hn
    · exact ⟨c, hc, he, hm'⟩
  -- K-leaves
  have kleaf_lift : ∀ c, Anc σ c → (KLeaf N' K' (liftP σ c) ↔ KLeaf N K c) := by
    intro c hc
    constructor
    · rintro ⟨x, hk, hm⟩
      exact ⟨x, ((hK' x).1 hk).1, (mem_lift c x true hc).1 hm⟩
    · rintro ⟨x, hk, hm⟩
      refine ⟨x, (hK' x).2 ⟨hk, ?_⟩, (mem_lift c x true hc).2 hm⟩
      intro t ht hδ
      have := L.leaf_hash c x t true hm ht
      subst this
      exact not_anc_both hc hδ
  have kleaf_out : ∀ z, ¬ Anc (parent σ) z → (KLeaf N' K' z ↔ KLeaf N K z) := by
    intro z hz
    constructor
    · rintro ⟨x, hk, hm⟩
      exact ⟨x, ((hK' x).1 hk).1, (mem_out z x true hz).1 hm⟩
    · rintro ⟨x, hk, hm⟩
      refine ⟨x, (hK' x).2 ⟨hk, ?_⟩, (mem_out z x true hz).2 hm⟩
      intro t ht hδ
      have := L.leaf_hash z x t true hm ht
      subst this
      exact hz (by have := hδ.parent; rwa [parent_sib] at this)
  have kleaf_under : ∀ t', KLeaf N' K' t' → Anc (parent σ) t' → ∃ t, Anc σ t ∧ t' = liftP σ t ∧ KLeaf N K t := by
    rintro t' ⟨x, hk, hm⟩ hu
    obtain ⟨t, ht, he, hm'⟩ := mem_under t' x true hm hu
    exact ⟨t, ht, he, x, ((hK' x).1 hk).1, hm'⟩
  -- a leaf entry is not at `P` (σ lies below)
  have leaf_ne_P : ∀ x t, (t, x, true) ∈ N → t ≠ parent σ := by
    rintro x t ht rfl
    have h0 := L.leaf_below _ x σ hσ bσ ht hσN hPσ
    have h1 : σ.1 = (parent σ).1 := congrArg Prod.fst h0
    have h2 : (parent σ).1 = σ.1 + 1 := rfl
    omega
  refine { true_hash := ?_, cache_sub := ?_, cached_pos := ?_, roots_stored := ?_, only_needed := ?_,
           has_needed := ?_, flags := ?_ }
  · -- true_hash
    intro q l hl
    rcases pos_cases σ q with rfl | ⟨hs, h0⟩ | ⟨c, hc, rfl⟩ | hout
    · rw [liftAll_P] at hl
      obtain ⟨b, hb⟩ := inv.true_hash σ l hl
      refine ⟨b, ?_⟩
      rw [← liftP_self]; exact (mem_lift σ _ _ (Anc.refl σ)).2 hb
    · rw [liftAll_row0 hs h0] at hl; cases hl
    · rw [liftAll_lift hc] at hl
      obtain ⟨b, hb⟩ := inv.true_hash c l hl
      exact ⟨b, (mem_lift c _ _ hc.1).2 hb⟩
    · rw [liftAll_out hout] at hl
      obtain ⟨b, hb⟩ := inv.true_hash q l hl
      exact ⟨b, (mem_out q _ _ hout).2 hb⟩
  · -- cache_sub
    intro x t' h
    unfold liftCAll at h
    cases hC : C x with
    | none => rw [hC] at h; cases h
    | some t =>
      refine (hK' x).2 ⟨inv.cache_sub x t hC, ?_⟩
      intro t2 ht2
      have := L.leaf_hash t x t2 true (inv.cached_pos x t hC) ht2
      subst this
      exact hCδ x _ hC
  · -- cached_pos
    intro x t' h
    unfold liftCAll at h
    cases hC : C x with
    | none => rw [hC] at h; cases h
    | some t =>
      rw [hC] at h
      simp only [Option.map_some, Option.some.injEq] at h
      have hm := inv.cached_pos x t hC
      by_cases hσt : Anc σ t
      · rw [if_pos hσt] at h
        rw [← h]; exact (mem_lift t x true hσt).2 hm
      · rw [if_neg hσt] at h
        subst h
        have hout : ¬ Anc (parent σ) t := by
          intro hu
          rcases anc_parent_iff'.1 hu with e | e | e
          · exact leaf_ne_P x t hm e
          · exact hσt e
          · exact hCδ x t hC e
        exact (mem_out t x true hout).2 hm
  · -- roots_stored
    intro z hz
    rcases (hR' z).1 hz with ⟨rfl, _⟩ | ⟨hr, hout⟩
    · rw [liftAll_P]; exact hσs
    · rw [liftAll_out hout]; exact inv.roots_stored z hr
  · -- only_needed
    intro q l hl hnr hE
    rcases pos_cases σ q with rfl | ⟨hs, h0⟩ | ⟨c, hc, rfl⟩ | hout
    · exact absurd (Anc.refl _) hE
    · rw [liftAll_row0 hs h0] at hl; cases hl
    · rw [liftAll_lift hc] at hl
      obtain ⟨bc, hcm⟩ := inv.true_hash c l hl
      have hnrc : ¬ R c := L.not_root_of_sunder hσN hcm hc
      obtain ⟨t, ht, hrow, hanc⟩ := inv.only_needed c l hl hnrc (fun h => h)
      have hpc := anc_parent_of_sunder hc
      have hσt : Anc σ t := Anc.trans hpc hanc
      refine ⟨liftP σ t, (kleaf_lift t hσt).2 ht, by simp only [liftP_fst]; omega, ?_⟩
      rw [← liftP_parent hc]
      exact (anc_liftP_iff hpc hσt).2 hanc
    · rw [liftAll_out hout] at hl
      have hnrq : ¬ R q := fun hr => hnr ((hR' q).2 (Or.inr ⟨hr, hout⟩))
      obtain ⟨t, ht, hrow, hanc⟩ := inv.only_needed q l hl hnrq (fun h => h)
      by_cases htP : Anc (parent σ) t
      · -- then `parent q` is an ancestor of `P`: exempt
        exfalso
        apply hE
        have hcmp : Anc (parent q) (parent σ) ∨ Anc (parent σ) (parent q) := by
          by_cases hle : (parent σ).1 ≤ (parent q).1
          · exact Or.inl (Anc.comparable htP hanc hle)
          · exact Or.inr (Anc.comparable hanc htP (by omega))
        rcases hcmp with h1 | h1
        · by_cases he : parent q = parent σ
          · exfalso; apply hout; rw [← he]; exact anc_parent_self q
          · rw [anc_parentR_iff]
            refine ⟨h1, ?_⟩
            have := h1.1
            have hr : (parent q).1 ≠ (parent σ).1 := fun e => he (h1.eq_of_row e)
            omega
        · exact absurd (Anc.trans h1 (anc_parent_self q)) hout
      · exact ⟨t, (kleaf_out t htP).2 ht, hrow, hanc⟩
  · -- has_needed
    intro z h b hzm hnr hreq
    by_cases hzP : Anc (parent σ) z
    · obtain ⟨c, hc, rfl, hcm⟩ := mem_under z h b hzm hzP
      by_cases hcσ : c = σ
      · subst hcσ; rw [liftP_self, liftAll_P]; exact hσs
      · have hcs : SUnder σ c := ⟨hc, by
          have := hc.1
          have hr : c.1 ≠ σ.1 := fun e => hcσ (hc.eq_of_row e.symm).symm
          omega⟩
        rw [liftAll_lift hcs]
        have hnrc : ¬ R c := L.not_root_of_sunder hσN hcm hcs
        apply inv.has_needed c h b hcm hnrc
        rcases hreq with hk | ⟨t', hk, hanc⟩
        · exact Or.inl ((kleaf_lift c hc).1 hk)
        · right
          rw [← liftP_sib hcs] at hanc
          have hss := sunder_sib hcs
          have hu : Anc (parent σ) t' := Anc.trans (anc_parent_liftP hss.1) hanc
          obtain ⟨t, ht, rfl, hkt⟩ := kleaf_under t' hk hu
          exact ⟨t, hkt, (anc_liftP_iff hss.1 ht).1 hanc⟩
    · have hzN := (mem_out z h b hzP).1 hzm
      have hnrz : ¬ R z := fun hr => hnr ((hR' z).2 (Or.inr ⟨hr, hzP⟩))
      rw [liftAll_out hzP]
      apply inv.has_needed z h b hzN hnrz
      rcases hreq with hk | ⟨t', hk, hanc⟩
      · exact Or.inl ((kleaf_out z hzP).1 hk)
      · right
        by_cases hu : Anc (parent σ) t'
        · obtain ⟨t, ht, rfl, hkt⟩ := kleaf_under t' hk hu
          refine ⟨t, hkt, ?_⟩
          -- `sib z` and `P` are both ancestors of the lifted leaf
          have hcmp : Anc (sib z) (parent σ) := by
            by_cases hle : (parent σ).1 ≤ (sib z).1
            · exact Anc.comparable hu hanc hle
            · exfalso
              have h1 : Anc (parent σ) (sib z) := Anc.comparable hanc hu (by omega)
              have hs : SUnder (parent σ) (sib z) := ⟨h1, by omega⟩
              have := (sunder_iff_parent.1 hs)
              rw [parent_sib] at this
              exact hzP (Anc.trans this (anc_parent_self z))
          exact Anc.trans hcmp (Anc.trans hPσ ht)
        · exact ⟨t', (kleaf_out t' hu).1 hk, hanc⟩
  · -- flags
    intro q l hl hnz
    rcases pos_cases σ q with rfl | ⟨hs, h0⟩ | ⟨c, hc, rfl⟩ | hout
    · rw [liftAll_P] at hl
      rw [inv.flags σ l hl hnz, ← liftP_self, kleaf_lift σ (Anc.refl σ)]
    · rw [liftAll_row0 hs h0] at hl; cases hl
    · rw [liftAll_lift hc] at hl
      rw [inv.flags c l hl hnz, kleaf_lift c hc.1]
    · rw [liftAll_out hout] at hl
      rw [inv.flags q l hl hnz, kleaf_out q hout]

end UtreexoVerif.Proofs.MapLiftCore
