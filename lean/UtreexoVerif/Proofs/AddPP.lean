/-
  The additions on the specification, in the tree view (property C07, level 4, specification
  part).  `F` = the forest before the additions (after the deletions of the block), `G =
  F.addMany adds`, `L` = the rows of the destroyed (all-zero, merged-over) roots.

  * `add_sub`: every node of `F` is a node of `G` with the same subtree, at the position
    `addMove` that `updateProofAdd` computes (`maybeRemap`, then one `getNewPositions` per
    destroyed root);
  * `addMove_inj`: different nodes move to different positions;
  * `pp_add`: every canonical proof position of `G` (for old cached leaves plus remembered added
    leaves) is reported by `NewAdd` or is a moved old canonical proof position, with the hash of
    the node of `G` at that position.
-/
import UtreexoVerif.Proofs.AddMove
import UtreexoVerif.Proofs.ChunkBridge
import UtreexoVerif.Proofs.ProofUpdateHelpers
import UtreexoVerif.Proofs.LiveLeaves

namespace UtreexoVerif.Proofs.AddPP
open UtreexoVerif Spec Hasher
open UtreexoVerif.Proofs UtreexoVerif.Proofs.SpecNodes UtreexoVerif.Proofs.SpecSubs
open UtreexoVerif.Proofs.SpecPlan UtreexoVerif.Proofs.CalcComplete UtreexoVerif.Proofs.FinalPos
open UtreexoVerif.Proofs.CalcGeo UtreexoVerif.Proofs.Movement UtreexoVerif.Proofs.CalcPlan
open UtreexoVerif.Proofs.Sorted UtreexoVerif.Proofs.MovePP UtreexoVerif.Proofs.ProofUpdateHelpers
open UtreexoVerif.Proofs.MoveFold UtreexoVerif.Proofs.AddMove UtreexoVerif.Proofs.ChunkBridge
open UtreexoVerif.Proofs.LeafDistinct

section
set_option linter.unusedSectionVars false
variable {H : Type} [DecidableEq H] [Hasher H]

/-! ### a subtree occurs at one position -/

def csize : CTree H → Nat
  | .leaf _ => 1
  | .node a b => csize a + csize b + 1

theorem subs_size : ∀ (t : CTree H) (r o : Nat), ∀ x ∈ subs t r o, csize x.2 ≤ csize t := by
  intro t
  induction t with
  | leaf h =>
    intro r o x hx
    simp only [subs, List.mem_singleton] at hx
    subst hx
    exact Nat.le_refl _
  | node a b iha ihb =>
    intro r o x hx
    simp only [subs, List.mem_cons, List.mem_append] at hx
    rcases hx with rfl | hx | hx
    · exact Nat.le_refl _
    · have := iha _ _ x hx; simp only [csize]; omega
    · have := ihb _ _ x hx; simp only [csize]; omega

/-- a tree occurs inside itself only at the root -/
theorem subs_self (t : CTree H) (r o : Nat) {p : Pos} (h : (p, t) ∈ subs t r o) : p = (r, o) := by
  cases t with
  | leaf l =>
    simp only [subs, List.mem_singleton, Prod.mk.injEq] at h
    exact h.1
  | node a b =>
    simp only [subs, List.mem_cons, List.mem_append, Prod.mk.injEq] at h
    rcases h with h | h | h
    · exact h.1
    · have := subs_size a _ _ _ h; simp only [csize] at this; omega
    · have := subs_size b _ _ _ h; simp only [csize] at this; omega

theorem ctree_has_leaf : ∀ (t : CTree H), ∃ l, l ∈ t.leaves := by
  intro t
  induction t with
  | leaf l => exact ⟨l, by simp [CTree.leaves]⟩
  | node _ _ iha _ => obtain ⟨l, hl⟩ := iha; exact ⟨l, by simp [CTree.leaves, hl]⟩

/-- in a forest with pairwise different leaves a subtree occurs at one position -/
theorem sub_pos_unique {F : Forest H} (hnd : F.liveLeaves.Nodup) {h h' : Nat} {a b : Pos}
    {t : CTree H} (sa : SubAtT F h a t) (sb : SubAtT F h' b t) : a = b := by
  obtain ⟨l, hl⟩ := ctree_has_leaf t
  obtain ⟨_, hcmp⟩ := nodes_comparable hnd sa sb ⟨l, hl, hl⟩
  rcases hcmp with hm | hm
  · exact (subs_self t _ _ hm).symm
  · exact subs_self t _ _ hm

/-- with pairwise different live slots a leaf hash sits in one slot -/
theorem slot_index_unique : ∀ (S : List (Option H)), (S.filterMap id).Nodup → ∀ (i j : Nat) (x : H),
    S[i]? = some (some x) → S[j]? = some (some x) → i = j := by
  intro S
  induction S with
  | nil => intro _ i j x hi _; simp at hi
  | cons a t ih =>
    intro hnd i j x hi hj
    have hmem : ∀ k : Nat, t[k]? = some (some x) → x ∈ t.filterMap id := by
      intro k hk
      rw [List.mem_filterMap]
      exact ⟨some x, List.mem_of_getElem? hk, rfl⟩
    cases a with
    | none =>
      simp only [List.filterMap_cons, id] at hnd
      cases i with
      | zero => simp at hi
      | succ i =>
        cases j with
        | zero => simp at hj
        | succ j =>
          simp only [List.getElem?_cons_succ] at hi hj
          rw [ih hnd i j x hi hj]
    | some y =>
      simp only [List.filterMap_cons, id, List.nodup_cons] at hnd
      cases i with
      | zero =>
        cases j with
        | zero => rfl
        | succ j =>
          simp only [List.getElem?_cons_zero, Option.some.injEq] at hi
          simp only [List.getElem?_cons_succ] at hj
          rw [hi] at hnd
          exact absurd (hmem j hj) hnd.1
      | succ i =>
        cases j with
        | zero =>
          simp only [List.getElem?_cons_zero, Option.some.injEq] at hj
          simp only [List.getElem?_cons_succ] at hi
          rw [hj] at hnd
          exact absurd (hmem i hi) hnd.1
        | succ j =>
          simp only [List.getElem?_cons_succ] at hi hj
          rw [ih hnd.2 i j x hi hj]

/-! ### old nodes in the new forest -/

/-- the position to which `updateProofAdd` moves an old position: all destroyed roots, applied
in the tree of the NEW forest that contains the position -/
def addMove (n k : Nat) (L : List Nat) (p : Pos) : Pos :=
  moveA (n + k) (treeRowOf (n + k) p) (destroyedPos n L) p

theorem forest_mk_slots (F : Forest H) : Forest.mk F.slots = F := by cases F; rfl

theorem under_of_inTree {N T l b : Nat} (h : Spec.inTree N T l b) :
    Under T (2 * (N >>> (T + 1))) (l, b) := by
  obtain ⟨_, h2, h3⟩ := h
  exact ⟨h2, by rw [Nat.shiftRight_eq_div_pow]; exact h3⟩

section add
variable {F : Forest H} {adds : List H} {L : List Nat}
  (hN : F.numLeaves + adds.length ≤ 2 ^ 63)
  (hL : DestroySpec F.slots adds.length L)
include hN hL

/-- **every node of the old forest is a node of the new forest, with the same subtree, at the
moved position** -/
theorem add_sub {h0 : Nat} {p : Pos} {t : CTree H} (s : SubAtT F h0 p t) :
    ∃ T, T ∈ treeRows (F.numLeaves + adds.length) ∧
      Under T (2 * ((F.numLeaves + adds.length) >>> (T + 1))) p ∧
      treeRowOf (F.numLeaves + adds.length) p = T ∧
      SubAtT (F.addMany adds) T (addMove F.numLeaves adds.length L p) t := by
  have hlen : (F.slots ++ adds.map some).length = F.numLeaves + adds.length := by
    simp [Forest.numLeaves]
  have s' : SubAtT (Forest.mk F.slots) h0 p t := by rw [forest_mk_slots]; exact s
  obtain ⟨l, b, hin', hch, hp, _⟩ := chunk_of_subAtT F.slots (by
    have : F.slots.length = F.numLeaves := rfl
    omega) s'
  have hal : chunkAlive F.slots l b = true := by unfold chunkAlive; rw [hch]; rfl
  have hle : (b + 1) * 2 ^ l ≤ F.numLeaves := inTree_le hin'
  obtain ⟨T, hin⟩ := exists_tree_of_chunk (N := F.numLeaves + adds.length) (l := l) (b := b)
    (Nat.le_trans hle (Nat.le_add_right _ _))
  have hch' : chunk (F.slots ++ adds.map some) l b = some t := by
    rw [chunk_add_old F.slots adds hle]; exact hch
  have hin2 : Spec.inTree (F.slots ++ adds.map some).length T l b := by rw [hlen]; exact hin
  have sG := subAtT_of_chunk (F.slots ++ adds.map some) (by rw [hlen]; omega) hin2 hch'
  have hmv := nodePos_add F.slots adds L hL (by
    have : F.slots.length = F.numLeaves := rfl
    omega) hin' hal hin
  -- the old position lies in tree `T` of the new forest
  have hT : h0 ≤ T := tree_le (Nat.le_add_right F.slots.length adds.length) hin' hin
  have hl0 : l ≤ h0 := hin'.2.1
  have hinr := inTree_anc hin (m := h0 - l) (by omega)
  rw [show l + (h0 - l) = h0 by omega, hin'.2.2] at hinr
  have hu0 : Under h0 (2 * (F.numLeaves / 2 ^ (h0 + 1))) p := by
    rw [hp]
    unfold nodePos
    exact fpos_under _ (h0, 2 * (F.slots.length / 2 ^ (h0 + 1))) (h0 - l) l b (by simp only; omega)
  have hu : Under T (2 * ((F.numLeaves + adds.length) >>> (T + 1))) p :=
    Under.trans (under_of_inTree hinr) hu0
  have hTmem : T ∈ treeRows (F.numLeaves + adds.length) := mem_treeRows (by omega) hin.1
  have hrow := treeRowOf_under hTmem hu
  refine ⟨T, hTmem, hu, hrow, ?_⟩
  unfold addMove
  rw [hrow]
  have e : F.addMany adds = Forest.mk (F.slots ++ adds.map some) := rfl
  rw [e]
  have : F.slots.length = F.numLeaves := rfl
  rw [this] at hmv
  rw [← hp] at hmv
  rw [← hmv]
  exact sG

/-- **different old nodes move to different positions** -/
theorem addMove_inj (hnd : F.liveLeaves.Nodup) {h1 h2 : Nat} {p1 p2 : Pos} {t1 t2 : CTree H}
    (s1 : SubAtT F h1 p1 t1) (s2 : SubAtT F h2 p2 t2)
    (e : addMove F.numLeaves adds.length L p1 = addMove F.numLeaves adds.length L p2) : p1 = p2 := by
  obtain ⟨T1, _, _, _, g1⟩ := add_sub hN hL s1
  obtain ⟨T2, _, _, _, g2⟩ := add_sub hN hL s2
  rw [e] at g1
  obtain ⟨_, et⟩ := g1.unique g2
  subst et
  exact sub_pos_unique hnd s1 s2

end add

/-! ### the canonical proof positions of the new forest -/

theorem added_slot {F : Forest H} {adds : List H} {a : H} (ha : a ∈ adds) :
    ∃ i, i < adds.length ∧ (F.slots ++ adds.map some)[F.numLeaves + i]? = some (some a) := by
  obtain ⟨i, hi, e⟩ := List.getElem_of_mem ha
  refine ⟨i, hi, ?_⟩
  rw [List.getElem?_append_right (by simp [Forest.numLeaves])]
  simp [Forest.numLeaves, hi, e]

theorem slot_added {F : Forest H} {adds : List H} {j : Nat} {x : H} (hj : F.numLeaves ≤ j)
    (hx : (F.slots ++ adds.map some)[j]? = some (some x)) : x ∈ adds := by
  rw [List.getElem?_append_right hj] at hx
  rw [List.getElem?_map] at hx
  cases h : adds[j - F.slots.length]? with
  | none => rw [h] at hx; cases hx
  | some y =>
    rw [h] at hx
    simp only [Option.map_some, Option.some.injEq] at hx
    rw [← hx]
    exact List.mem_of_getElem? h

section pp
variable {F : Forest H} {adds : List H} {L : List Nat}
  (hN : F.numLeaves + adds.length ≤ 2 ^ 63)
  (hL : DestroySpec F.slots adds.length L)
  (hndG : (F.addMany adds).liveLeaves.Nodup)
  {K' A K'' : List H} {tgF tgG : List Pos} {hsF hsG : List H}
  (hcF : F.canon K' = some (tgF, hsF)) (hcG : (F.addMany adds).canon K'' = some (tgG, hsG))
  (hA : ∀ a ∈ A, a ∈ adds) (hK'' : ∀ x, x ∈ K'' ↔ x ∈ K' ∨ x ∈ A)
include hN hL hndG hcF hcG hA hK''

theorem nodup_old : F.liveLeaves.Nodup := by
  have := hndG
  rw [LiveLeaves.liveLeaves_addMany_eq] at this
  exact (List.nodup_append.1 this).1

/-- **every canonical proof position of the new forest is reported by `NewAdd` or is a moved old
canonical proof position** (with the hash of the node of the new forest) -/
theorem pp_add {q : Pos} (hq : q ∈ (F.addMany adds).proofPositions tgG) :
    (∃ h, NewAddSpec F.numLeaves (F.slots ++ adds.map some) (q, h) ∧
      (F.addMany adds).nodeAt q = some h) ∨
    (∃ q0 ∈ F.proofPositions tgF, q = addMove F.numLeaves adds.length L q0 ∧
      (F.addMany adds).nodeAt q = F.nodeAt q0) := by
  have hndF := nodup_old hN hL hndG hcF hcG hA hK''
  have hdF := leafDistinct_of_nodup hndF
  have hdG := leafDistinct_of_nodup hndG
  have hlen : (F.slots ++ adds.map some).length = F.numLeaves + adds.length := by
    simp [Forest.numLeaves]
  have hS64 : (F.slots ++ adds.map some).length < 2 ^ 64 := by rw [hlen]; omega
  have hGe : F.addMany adds = Forest.mk (F.slots ++ adds.map some) := rfl
  obtain ⟨c, hcP, hcr, hcs, rfl⟩ := mem_proofPositions.1 hq
  obtain ⟨T, tc, sc, l, hl, hlt⟩ := (pathSet_iff_leaf hcG hdG c).1 hcP
  obtain ⟨hrow, tq, spar, sq⟩ := sc.parent hcr
  -- the leaves of the parent
  have hPleaves : ∀ x, x ∈ (if c.2 % 2 = 0 then CTree.node tc tq else CTree.node tq tc).leaves ↔
      x ∈ tc.leaves ∨ x ∈ tq.leaves := by
    intro x
    split <;> simp [CTree.leaves, or_comm]
  by_cases hnew : ∃ a ∈ adds, a ∈ (if c.2 % 2 = 0 then CTree.node tc tq else CTree.node tq tc).leaves
  · -- the parent was created by the additions
    left
    refine ⟨tq.hash, ?_, sq.nodeAt⟩
    rw [hGe] at sq spar
    obtain ⟨l0, b0, hin, hch, hqpos, hcan⟩ := chunk_of_subAtT _ hS64 sq
    have hal : chunkAlive (F.slots ++ adds.map some) l0 b0 = true := by
      unfold chunkAlive; rw [hch]; rfl
    rcases hcan with hroot | ⟨hlT, hsibal⟩
    · exfalso
      subst hroot
      have : (sib c).1 = l0 := by
        rw [hqpos]; unfold nodePos; simp [fpos]
      simp only [sib_fst] at this
      omega
    · have hpar := nodePos_parent (F.slots ++ adds.map some) hlT hsibal
      rw [← hqpos] at hpar
      have hpe : parent c = nodePos (F.slots ++ adds.map some) T (l0 + 1) (b0 / 2) := by
        rw [← hpar, ← parent_sib c]
        rfl
      -- the parent chunk
      have halP := chunkAlive_anc (F.slots ++ adds.map some) hal 1
      simp only [Nat.pow_one] at halP
      cases hP : chunk (F.slots ++ adds.map some) (l0 + 1) (b0 / 2) with
      | none => unfold chunkAlive at halP; rw [hP] at halP; cases halP
      | some tP' =>
        have sP' := subAtT_of_chunk _ hS64 (inTree_parent hin hlT) hP
        rw [← hpe] at sP'
        obtain ⟨_, etP⟩ := sP'.unique spar
        subst etP
        obtain ⟨a, ha, hatP⟩ := hnew
        obtain ⟨j, hj1, hj2, hj3⟩ := chunk_leaf_slot _ hP hatP
        obtain ⟨i, hi, hi3⟩ := added_slot (F := F) ha
        have hji := slot_index_unique _ hndG j (F.numLeaves + i) a hj3 hi3
        refine ⟨T, l0, b0, hin, hal, ?_, Or.inr ⟨hlT, hsibal, by omega⟩⟩
        unfold chunkHash
        rw [hch, ← hqpos]
        rfl
  · -- the parent is an old node
    right
    rw [hGe] at spar
    obtain ⟨l1, b1, hin1, hch1, hPpos, _⟩ := chunk_of_subAtT _ hS64 spar
    have hin1' : Spec.inTree (F.numLeaves + adds.length) T l1 b1 := by rw [← hlen]; exact hin1
    have hleN : (b1 + 1) * 2 ^ l1 ≤ F.numLeaves + adds.length := inTree_le hin1'
    have hle : (b1 + 1) * 2 ^ l1 ≤ F.numLeaves := by
      apply Classical.byContradiction
      intro hgt
      have hpos := Nat.two_pow_pos l1
      have hmul : (b1 + 1) * 2 ^ l1 = b1 * 2 ^ l1 + 2 ^ l1 := by rw [Nat.add_mul, Nat.one_mul]
      obtain ⟨j, hj1, hj2, hj3⟩ : ∃ j, F.numLeaves ≤ j ∧ b1 * 2 ^ l1 ≤ j ∧ j < (b1 + 1) * 2 ^ l1 := by
        rcases Nat.le_total F.numLeaves (b1 * 2 ^ l1) with h | h
        · exact ⟨b1 * 2 ^ l1, h, Nat.le_refl _, by omega⟩
        · exact ⟨F.numLeaves, Nat.le_refl _, h, by omega⟩
      obtain ⟨x, hx⟩ := slot_new F.slots adds (i := j) hj1 (by
        have : F.slots.length = F.numLeaves := rfl
        omega)
      obtain ⟨t, ht, hxt⟩ := chunk_slot_leaf _ hj2 hj3 hx
      rw [hch1] at ht
      injection ht with ht
      subst ht
      exact hnew ⟨x, slot_added hj1 hx, hxt⟩
    have hch1' : chunk F.slots l1 b1 =
        some (if c.2 % 2 = 0 then CTree.node tc tq else CTree.node tq tc) := by
      rw [← chunk_add_old F.slots adds hle]; exact hch1
    obtain ⟨h0, hin0⟩ := exists_tree_of_chunk hle
    have sP0 := subAtT_of_chunk F.slots (by
      have : F.slots.length = F.numLeaves := rfl
      omega) hin0 hch1'
    rw [forest_mk_slots] at sP0
    -- `tc` and `tq` are the two children of the old parent, in one order or the other
    have hchildren : ∃ c0, SubAtT F h0 c0 tc ∧ c0.1 < h0 ∧ SubAtT F h0 (sib c0) tq := by
      have hr := sP0.row_le
      by_cases hpar : c.2 % 2 = 0
      · rw [if_pos hpar] at sP0
        obtain ⟨h1, ca, cb⟩ := sP0.children
        refine ⟨_, ca, by simp only; omega, ?_⟩
        have e : sib ((nodePos F.slots h0 l1 b1).1 - 1, 2 * (nodePos F.slots h0 l1 b1).2) =
            ((nodePos F.slots h0 l1 b1).1 - 1, 2 * (nodePos F.slots h0 l1 b1).2 + 1) := by
          simp only [sib, Prod.mk.injEq, true_and]
          rw [if_pos (by omega)]
        rw [e]; exact cb
      · rw [if_neg hpar] at sP0
        obtain ⟨h1, ca, cb⟩ := sP0.children
        refine ⟨_, cb, by simp only; omega, ?_⟩
        have e : sib ((nodePos F.slots h0 l1 b1).1 - 1, 2 * (nodePos F.slots h0 l1 b1).2 + 1) =
            ((nodePos F.slots h0 l1 b1).1 - 1, 2 * (nodePos F.slots h0 l1 b1).2) := by
          simp only [sib, Prod.mk.injEq, true_and]
          rw [if_neg (by omega)]
          omega
        rw [e]; exact ca
    obtain ⟨c0, sc0, hc0lt, sq0⟩ := hchildren
    -- they move to `c` and `sib c`
    obtain ⟨T1, _, _, _, g1⟩ := add_sub hN hL sc0
    obtain ⟨T2, _, _, _, g2⟩ := add_sub hN hL sq0
    have e1 := sub_pos_unique hndG g1 sc
    have e2 := sub_pos_unique hndG g2 sq
    refine ⟨sib c0, ?_, e2.symm, by rw [sq.nodeAt, sq0.nodeAt]⟩
    rw [mem_proofPositions]
    refine ⟨c0, ?_, ?_, ?_, rfl⟩
    · -- `c0` contains an old requested leaf
      rw [pathSet_iff_leaf hcF hdF]
      refine ⟨h0, tc, sc0, l, ?_, hlt⟩
      rcases (hK'' l).1 hl with h | h
      · exact h
      · exfalso
        exact hnew ⟨l, hA l h, (hPleaves l).2 (Or.inl hlt)⟩
    · cases hr : isRootPos F.numLeaves c0 with
      | false => rfl
      | true => have := (sc0.root_iff).1 hr; omega
    · intro hP
      obtain ⟨h', tq', sq', l', hl', hlt'⟩ := (pathSet_iff_leaf hcF hdF _).1 hP
      obtain ⟨_, e⟩ := sq'.unique sq0
      subst e
      apply hcs
      rw [pathSet_iff_leaf hcG hdG]
      exact ⟨T, tq', sq, l', (hK'' l').2 (Or.inl hl'), hlt'⟩

end pp

end
end UtreexoVerif.Proofs.AddPP
