/-
  Subtrees of the specification forest at positions.

  `Spec.Forest.nodes` lists (position, hash, isLeaf); here the same traversal lists
  (position, subtree) (`CTree.subs`, `treeSubs`), so that values other than the hash — e.g. the
  hash a subtree has after a deletion — can be attached to positions.

  * `SubAtT F h p t`: `t` is the subtree at position `p` of the tree on row `h`;
  * a position determines tree and subtree (`SubAtT.unique`);
  * children, parent and sibling of a subtree (`SubAtT.children`, `SubAtT.parent`);
  * `pathUp` from a node walks through nodes of the same tree up to its root, and passes through
    every ancestor (`pathUp_sub`, `pathUp_anc`).
-/
import UtreexoVerif.Proofs.SpecNodes
import UtreexoVerif.Proofs.CalcGeo

namespace UtreexoVerif.Proofs.SpecSubs
open UtreexoVerif Spec Hasher
open UtreexoVerif.Proofs.SpecNodes UtreexoVerif.Proofs.SpecView UtreexoVerif.Proofs.Sorted
open UtreexoVerif.Proofs.CalcGeo

section
set_option linter.unusedSectionVars false
variable {H : Type} [DecidableEq H] [Hasher H]

/-! ### subtrees of a collapsed tree -/

/-- every subtree of a collapsed tree rooted at `(r, o)` with its position -/
def subs : CTree H → Nat → Nat → List (Pos × CTree H)
  | .leaf h, r, o => [((r, o), .leaf h)]
  | .node a b, r, o => ((r, o), .node a b) :: (subs a (r-1) (2*o) ++ subs b (r-1) (2*o+1))

theorem nodes_eq_subs : ∀ (t : CTree H) (r o : Nat),
    t.nodes r o = (subs t r o).map (fun x => (x.1, x.2.hash, isLeaf x.2)) := by
  intro t
  induction t with
  | leaf h => intro r o; rfl
  | node a b iha ihb =>
    intro r o
    simp only [CTree.nodes, subs, List.map_cons, List.map_append, iha, ihb]
    rfl

theorem subs_head (t : CTree H) (r o : Nat) : ((r, o), t) ∈ subs t r o := by
  cases t <;> simp [subs]

theorem subs_under (t : CTree H) (r o : Nat) (hd : depth t ≤ r) :
    ∀ x ∈ subs t r o, Under r o x.1 := by
  intro x hx
  have : (x.1, x.2.hash, isLeaf x.2) ∈ t.nodes r o := by
    rw [nodes_eq_subs]
    exact List.mem_map.2 ⟨x, hx, rfl⟩
  exact nodes_under t r o hd _ this

theorem subs_depth : ∀ (t : CTree H) (r o : Nat), depth t ≤ r →
    ∀ x ∈ subs t r o, depth x.2 ≤ x.1.1 := by
  intro t
  induction t with
  | leaf h =>
    intro r o _ x hx
    simp only [subs, List.mem_singleton] at hx
    subst hx
    simp [depth]
  | node a b iha ihb =>
    intro r o hd x hx
    simp only [depth] at hd
    simp only [subs, List.mem_cons, List.mem_append] at hx
    rcases hx with rfl | hx | hx
    · simpa [depth] using hd
    · exact iha _ _ (by omega) x hx
    · exact ihb _ _ (by omega) x hx

theorem subs_unique : ∀ (t : CTree H) (r o : Nat), depth t ≤ r →
    ∀ x ∈ subs t r o, ∀ y ∈ subs t r o, x.1 = y.1 → x = y := by
  intro t
  induction t with
  | leaf h =>
    intro r o _ x hx y hy _
    simp only [subs, List.mem_singleton] at hx hy
    rw [hx, hy]
  | node a b iha ihb =>
    intro r o hd x hx y hy hxy
    simp only [depth] at hd
    have hda : depth a ≤ r - 1 := by omega
    have hdb : depth b ≤ r - 1 := by omega
    simp only [subs, List.mem_cons, List.mem_append] at hx hy
    have hrow : ∀ (c : CTree H) (o' : Nat), depth c ≤ r - 1 → ∀ z ∈ subs c (r - 1) o',
        z.1 ≠ (r, o) := by
      intro c o' hc z hz he
      have := (subs_under c (r - 1) o' hc z hz).1
      rw [he] at this
      simp only at this
      omega
    have hdis : ∀ z ∈ subs a (r - 1) (2 * o), ∀ w ∈ subs b (r - 1) (2 * o + 1),
        z.1 ≠ w.1 := by
      intro z hz w hw he
      have h1 := (subs_under a (r - 1) _ hda z hz).2
      have h2 := (subs_under b (r - 1) _ hdb w hw).2
      rw [he] at h1
      omega
    rcases hx with rfl | hx | hx <;> rcases hy with rfl | hy | hy
    · rfl
    · exact absurd hxy.symm (hrow a _ hda y hy)
    · exact absurd hxy.symm (hrow b _ hdb y hy)
    · exact absurd hxy (hrow a _ hda x hx)
    · exact iha _ _ hda x hx y hy hxy
    · exact absurd hxy (hdis x hx y hy)
    · exact absurd hxy (hrow b _ hdb x hx)
    · exact absurd hxy.symm (hdis y hy x hx)
    · exact ihb _ _ hdb x hx y hy hxy

/-- the subtrees of a subtree are subtrees of the tree -/
theorem subs_sub : ∀ (t : CTree H) (r o : Nat), ∀ x ∈ subs t r o,
    ∀ y ∈ subs x.2 x.1.1 x.1.2, y ∈ subs t r o := by
  intro t
  induction t with
  | leaf h =>
    intro r o x hx y hy
    simp only [subs, List.mem_singleton] at hx
    subst hx
    exact hy
  | node a b iha ihb =>
    intro r o x hx y hy
    simp only [subs, List.mem_cons, List.mem_append] at hx
    rcases hx with rfl | hx | hx
    · exact hy
    · simp only [subs, List.mem_cons, List.mem_append]
      exact Or.inr (Or.inl (iha _ _ x hx y hy))
    · simp only [subs, List.mem_cons, List.mem_append]
      exact Or.inr (Or.inr (ihb _ _ x hx y hy))

/-- the two children of an internal subtree -/
theorem subs_children (t : CTree H) (r o : Nat) {p : Pos} {a b : CTree H}
    (h : (p, CTree.node a b) ∈ subs t r o) :
    ((p.1 - 1, 2 * p.2), a) ∈ subs t r o ∧ ((p.1 - 1, 2 * p.2 + 1), b) ∈ subs t r o := by
  constructor
  · apply subs_sub t r o _ h
    simp only [subs, List.mem_cons, List.mem_append]
    exact Or.inr (Or.inl (subs_head a _ _))
  · apply subs_sub t r o _ h
    simp only [subs, List.mem_cons, List.mem_append]
    exact Or.inr (Or.inr (subs_head b _ _))

/-- every subtree except the root has a parent and a sibling -/
theorem subs_parent : ∀ (t : CTree H) (r o : Nat), depth t ≤ r → ∀ x ∈ subs t r o,
    x = ((r, o), t) ∨ (x.1.1 < r ∧ ∃ s' : CTree H,
      (parent x.1, if x.1.2 % 2 = 0 then CTree.node x.2 s' else CTree.node s' x.2) ∈ subs t r o ∧
      (sib x.1, s') ∈ subs t r o) := by
  intro t
  induction t with
  | leaf h =>
    intro r o _ x hx
    simp only [subs, List.mem_singleton] at hx
    exact Or.inl hx
  | node a b iha ihb =>
    intro r o hd x hx
    simp only [depth] at hd
    have hda : depth a ≤ r - 1 := by omega
    have hdb : depth b ≤ r - 1 := by omega
    have hr : r - 1 + 1 = r := by omega
    simp only [subs, List.mem_cons, List.mem_append] at hx
    rcases hx with rfl | hx | hx
    · exact Or.inl rfl
    · right
      rcases iha _ _ hda x hx with rfl | ⟨hlt, s', h1, h2⟩
      · refine ⟨by simp only; omega, b, ?_, ?_⟩
        · have e1 : parent (r - 1, 2 * o) = (r, o) := by
            simp only [parent, Prod.mk.injEq]; omega
          have e2 : (2 * o) % 2 = 0 := by omega
          simp only [e1, e2, if_true, subs, List.mem_cons, true_or]
        · have e : sib (r - 1, 2 * o) = (r - 1, 2 * o + 1) := by
            simp only [sib, Prod.mk.injEq, true_and]
            rw [if_pos (by omega)]
          rw [e]
          simp only [subs, List.mem_cons, List.mem_append]
          exact Or.inr (Or.inr (subs_head b _ _))
      · refine ⟨by omega, s', ?_, ?_⟩
        · simp only [subs, List.mem_cons, List.mem_append]
          exact Or.inr (Or.inl h1)
        · simp only [subs, List.mem_cons, List.mem_append]
          exact Or.inr (Or.inl h2)
    · right
      rcases ihb _ _ hdb x hx with rfl | ⟨hlt, s', h1, h2⟩
      · refine ⟨by simp only; omega, a, ?_, ?_⟩
        · have e1 : parent (r - 1, 2 * o + 1) = (r, o) := by
            simp only [parent, Prod.mk.injEq]; omega
          have e2 : ¬ (2 * o + 1) % 2 = 0 := by omega
          simp only [e1, e2, if_false, subs, List.mem_cons, true_or]
        · have e : sib (r - 1, 2 * o + 1) = (r - 1, 2 * o) := by
            simp only [sib, Prod.mk.injEq, true_and]
            rw [if_neg (by omega)]
            omega
          rw [e]
          simp only [subs, List.mem_cons, List.mem_append]
          exact Or.inr (Or.inl (subs_head a _ _))
      · refine ⟨by omega, s', ?_, ?_⟩
        · simp only [subs, List.mem_cons, List.mem_append]
          exact Or.inr (Or.inr h1)
        · simp only [subs, List.mem_cons, List.mem_append]
          exact Or.inr (Or.inr h2)

/-- leaves of subtrees are leaves of the tree -/
theorem subs_leaves : ∀ (t : CTree H) (r o : Nat), ∀ x ∈ subs t r o,
    ∀ l ∈ x.2.leaves, l ∈ t.leaves := by
  intro t
  induction t with
  | leaf h =>
    intro r o x hx l hl
    simp only [subs, List.mem_singleton] at hx
    subst hx
    exact hl
  | node a b iha ihb =>
    intro r o x hx l hl
    simp only [subs, List.mem_cons, List.mem_append] at hx
    rcases hx with rfl | hx | hx
    · exact hl
    · simp only [CTree.leaves, List.mem_append]
      exact Or.inl (iha _ _ x hx l hl)
    · simp only [CTree.leaves, List.mem_append]
      exact Or.inr (ihb _ _ x hx l hl)

/-- every leaf of the tree is a leaf subtree somewhere -/
theorem leaf_in_subs : ∀ (t : CTree H) (r o : Nat), ∀ l ∈ t.leaves,
    ∃ p, (p, CTree.leaf l) ∈ subs t r o := by
  intro t
  induction t with
  | leaf h =>
    intro r o l hl
    simp only [CTree.leaves, List.mem_singleton] at hl
    subst hl
    exact ⟨(r, o), by simp [subs]⟩
  | node a b iha ihb =>
    intro r o l hl
    simp only [CTree.leaves, List.mem_append] at hl
    rcases hl with hl | hl
    · obtain ⟨p, hp⟩ := iha (r - 1) (2 * o) l hl
      exact ⟨p, by simp only [subs, List.mem_cons, List.mem_append]; exact Or.inr (Or.inl hp)⟩
    · obtain ⟨p, hp⟩ := ihb (r - 1) (2 * o + 1) l hl
      exact ⟨p, by simp only [subs, List.mem_cons, List.mem_append]; exact Or.inr (Or.inr hp)⟩

/-! ### subtrees of the forest -/

/-- the subtrees of the tree on row `h` -/
def treeSubs (F : Forest H) (h : Nat) : List (Pos × CTree H) :=
  match collapse h ((F.slots.drop (treeStart F.numLeaves h)).take (2 ^ h)) with
  | some t => subs t h (rootPos F.numLeaves h).2
  | none => []

/-- `t` is the subtree at position `p` of the tree on row `h` -/
def SubAtT (F : Forest H) (h : Nat) (p : Pos) (t : CTree H) : Prop :=
  h ∈ treeRows F.numLeaves ∧ (p, t) ∈ treeSubs F h

theorem SubAtT.bit {F : Forest H} {h : Nat} {p : Pos} {t : CTree H} (s : SubAtT F h p t) :
    F.numLeaves.testBit h = true := (mem_treeRowsFrom _ _ s.1).1

/-- unfolding: the collapsed tree the subtree lives in -/
theorem SubAtT.tree {F : Forest H} {h : Nat} {p : Pos} {t : CTree H} (s : SubAtT F h p t) :
    ∃ t0, collapse h ((F.slots.drop (treeStart F.numLeaves h)).take (2 ^ h)) = some t0 ∧
      depth t0 ≤ h ∧ (p, t) ∈ subs t0 h (rootPos F.numLeaves h).2 := by
  have := s.2
  unfold treeSubs at this
  split at this
  · rename_i t0 ht0
    exact ⟨t0, ht0, collapse_depth _ _ _ ht0, this⟩
  · simp at this

theorem SubAtT.of_tree {F : Forest H} {h : Nat} {p : Pos} {t t0 : CTree H}
    (hh : h ∈ treeRows F.numLeaves)
    (ht0 : collapse h ((F.slots.drop (treeStart F.numLeaves h)).take (2 ^ h)) = some t0)
    (hm : (p, t) ∈ subs t0 h (rootPos F.numLeaves h).2) : SubAtT F h p t := by
  refine ⟨hh, ?_⟩
  unfold treeSubs
  rw [ht0]
  exact hm

theorem SubAtT.under {F : Forest H} {h : Nat} {p : Pos} {t : CTree H} (s : SubAtT F h p t) :
    Under h (2 * (F.numLeaves >>> (h + 1))) p := by
  obtain ⟨t0, _, hd, hm⟩ := s.tree
  exact subs_under t0 h _ hd _ hm

theorem SubAtT.node_mem {F : Forest H} {h : Nat} {p : Pos} {t : CTree H} (s : SubAtT F h p t) :
    (p, t.hash, isLeaf t) ∈ F.nodes := by
  obtain ⟨t0, ht0, _, hm⟩ := s.tree
  refine mem_nodes.2 ⟨h, ⟨s.bit, s.1⟩, ?_⟩
  unfold treeNodes
  rw [ht0]
  simp only
  rw [nodes_eq_subs]
  exact List.mem_map.2 ⟨(p, t), hm, rfl⟩

theorem SubAtT.nodeAt {F : Forest H} {h : Nat} {p : Pos} {t : CTree H} (s : SubAtT F h p t) :
    F.nodeAt p = some t.hash := nodeAt_of_mem s.node_mem

theorem SubAtT.unique {F : Forest H} {h h' : Nat} {p : Pos} {t t' : CTree H}
    (s : SubAtT F h p t) (s' : SubAtT F h' p t') : h = h' ∧ t = t' := by
  have hh : h = h' := by
    rcases Nat.lt_trichotomy h h' with hlt | heq | hgt
    · exact (under_disjoint hlt s'.bit s'.under s.under).elim
    · exact heq
    · exact (under_disjoint hgt s.bit s.under s'.under).elim
  subst hh
  refine ⟨rfl, ?_⟩
  obtain ⟨t0, ht0, hd, hm⟩ := s.tree
  obtain ⟨t0', ht0', _, hm'⟩ := s'.tree
  rw [ht0] at ht0'
  injection ht0' with e
  subst e
  have := subs_unique t0 h _ hd _ hm _ hm' rfl
  exact (Prod.mk.inj this).2

theorem le_forestRows_of_mem {n h : Nat} (hh : h ∈ treeRows n) : h ≤ forestRows n :=
  testBit_le_forestRows (mem_treeRowsFrom _ _ hh).1

/-- nodes of the forest lie inside the forest's address range -/
theorem under_inF {n h : Nat} {p : Pos} (hb : n.testBit h = true)
    (u : Under h (2 * (n >>> (h + 1))) p) : InF n p := by
  refine ⟨Nat.le_trans u.1 (testBit_le_forestRows hb), ?_⟩
  obtain ⟨h1, h2⟩ := u
  -- `n >> p.1 ≥ (n >> h) * 2^(h - p.1)` and `n >> h = 2 (n >> (h+1)) + 1`
  have hbit := shiftRight_succ_bit n h
  rw [hb] at hbit
  simp only [if_true] at hbit
  have e : n >>> p.1 / 2 ^ (h - p.1) = n >>> h := by
    rw [Nat.shiftRight_eq_div_pow, Nat.shiftRight_eq_div_pow, Nat.div_div_eq_div_mul, ← Nat.pow_add]
    congr 2
    omega
  have hpos := Nat.two_pow_pos (h - p.1)
  have h3 : p.2 / 2 ^ (h - p.1) < n >>> p.1 / 2 ^ (h - p.1) := by rw [e, h2, hbit]; omega
  exact Nat.lt_of_div_lt_div h3

theorem SubAtT.inF {F : Forest H} {h : Nat} {p : Pos} {t : CTree H} (s : SubAtT F h p t) :
    InF F.numLeaves p := under_inF s.bit s.under

theorem SubAtT.row_le {F : Forest H} {h : Nat} {p : Pos} {t : CTree H} (s : SubAtT F h p t) :
    p.1 ≤ h := s.under.1

/-- a node is at a root position iff it is the root of its tree -/
theorem SubAtT.root_iff {F : Forest H} {h : Nat} {p : Pos} {t : CTree H} (s : SubAtT F h p t) :
    isRootPos F.numLeaves p = true ↔ p.1 = h := by
  constructor
  · intro hr
    unfold isRootPos at hr
    simp only [Bool.and_eq_true, beq_iff_eq] at hr
    rcases Nat.lt_or_ge p.1 h with hlt | hge
    · exfalso
      have u : Under p.1 (2 * (F.numLeaves >>> (p.1 + 1))) p := by
        rw [← hr.2]; exact Under.self _ _
      exact under_disjoint hlt s.bit s.under u
    · have := s.row_le; omega
  · intro e
    have u := s.under
    unfold isRootPos
    simp only [Bool.and_eq_true, beq_iff_eq]
    rw [e]
    refine ⟨s.bit, ?_⟩
    have := u.2
    rw [e, Nat.sub_self, Nat.pow_zero, Nat.div_one] at this
    exact this

/-- the root of the tree on row `h` (if the tree is not empty) -/
theorem SubAtT.root {F : Forest H} {h : Nat} {t0 : CTree H} (hh : h ∈ treeRows F.numLeaves)
    (ht0 : collapse h ((F.slots.drop (treeStart F.numLeaves h)).take (2 ^ h)) = some t0) :
    SubAtT F h (rootPos F.numLeaves h) t0 :=
  SubAtT.of_tree hh ht0 (subs_head t0 _ _)

theorem SubAtT.children {F : Forest H} {h : Nat} {p : Pos} {a b : CTree H}
    (s : SubAtT F h p (.node a b)) :
    1 ≤ p.1 ∧ SubAtT F h (p.1 - 1, 2 * p.2) a ∧ SubAtT F h (p.1 - 1, 2 * p.2 + 1) b := by
  obtain ⟨t0, ht0, hd, hm⟩ := s.tree
  have hdp := subs_depth t0 h _ hd _ hm
  simp only [depth] at hdp
  obtain ⟨h1, h2⟩ := subs_children t0 h _ hm
  exact ⟨by omega, SubAtT.of_tree s.1 ht0 h1, SubAtT.of_tree s.1 ht0 h2⟩

/-- a node that is not a root has a parent (an internal node) and a sibling in its tree -/
theorem SubAtT.parent {F : Forest H} {h : Nat} {p : Pos} {t : CTree H} (s : SubAtT F h p t)
    (hr : isRootPos F.numLeaves p = false) :
    p.1 < h ∧ ∃ s' : CTree H,
      SubAtT F h (Spec.parent p) (if p.2 % 2 = 0 then CTree.node t s' else CTree.node s' t) ∧
      SubAtT F h (sib p) s' := by
  obtain ⟨t0, ht0, hd, hm⟩ := s.tree
  rcases subs_parent t0 h _ hd _ hm with e | ⟨hlt, s', h1, h2⟩
  · exfalso
    have : p.1 = h := by
      have := congrArg (fun x => x.1.1) e
      simpa using this
    rw [(s.root_iff).2 this] at hr
    cases hr
  · exact ⟨hlt, s', SubAtT.of_tree s.1 ht0 h1, SubAtT.of_tree s.1 ht0 h2⟩

/-- subtrees of a subtree, at forest level -/
theorem SubAtT.sub {F : Forest H} {h : Nat} {p q : Pos} {t s : CTree H} (st : SubAtT F h p t)
    (hq : (q, s) ∈ subs t p.1 p.2) : SubAtT F h q s := by
  obtain ⟨t0, ht0, _, hm⟩ := st.tree
  exact SubAtT.of_tree st.1 ht0 (subs_sub t0 h _ _ hm _ hq)

/-- leaves of a subtree of the forest are live leaves -/
theorem SubAtT.leaves_live {F : Forest H} {h : Nat} {p : Pos} {t : CTree H} (s : SubAtT F h p t) :
    ∀ l ∈ t.leaves, l ∈ F.liveLeaves := by
  intro l hl
  obtain ⟨t0, ht0, _, hm⟩ := s.tree
  have h1 := subs_leaves t0 h _ _ hm l hl
  have h2 := collapse_leaves _ _ _ ht0 _ h1
  have h3 := List.mem_of_mem_drop (List.mem_of_mem_take h2)
  unfold Forest.liveLeaves
  rw [List.mem_filterMap]
  exact ⟨some l, h3, rfl⟩

/-- the position found by `posOf` carries that leaf -/
theorem posOf_sub {F : Forest H} {l : H} {p : Pos} (h : F.posOf l = some p) :
    ∃ hh, SubAtT F hh p (.leaf l) := by
  unfold Forest.posOf at h
  cases hf : F.nodes.find? (fun x => x.2.2 && x.2.1 == l) with
  | none => rw [hf] at h; simp at h
  | some y =>
    rw [hf] at h
    simp only [Option.map_some, Option.some.injEq] at h
    have hy := List.mem_of_find?_eq_some hf
    have hp := List.find?_some hf
    simp only [Bool.and_eq_true, beq_iff_eq] at hp
    obtain ⟨hh, ⟨_, hmem⟩, hy'⟩ := mem_nodes.1 hy
    unfold treeNodes at hy'
    split at hy'
    · rename_i t0 ht0
      rw [nodes_eq_subs] at hy'
      obtain ⟨x, hx, hxy⟩ := List.mem_map.1 hy'
      refine ⟨hh, SubAtT.of_tree hmem ht0 ?_⟩
      have h1 : x.1 = p := by rw [← h, ← hxy]
      have h2 : isLeaf x.2 = true := by rw [← hp.1, ← hxy]
      have h3 : x.2.hash = l := by rw [← hp.2, ← hxy]
      obtain ⟨xp, xt⟩ := x
      cases xt with
      | leaf l' =>
        simp only [CTree.hash] at h3
        simp only at h1
        rw [← h1, ← h3]
        exact hx
      | node _ _ => simp [isLeaf] at h2
    · simp only [List.mem_singleton] at hy'
      rw [hy'] at hp
      simp at hp

/-- a leaf of the forest is found by `posOf` (at some position carrying that leaf) -/
theorem posOf_isSome {F : Forest H} {h : Nat} {p : Pos} {l : H} (s : SubAtT F h p (.leaf l)) :
    ∃ q, F.posOf l = some q := by
  unfold Forest.posOf
  cases hf : F.nodes.find? (fun x => x.2.2 && x.2.1 == l) with
  | none =>
    have := List.find?_eq_none.1 hf _ s.node_mem
    simp [isLeaf, CTree.hash] at this
  | some y => exact ⟨y.1, rfl⟩

/-! ### paths -/

theorem mem_pathUp_self (n fuel : Nat) (p : Pos) : p ∈ Forest.pathUp n fuel p := by
  cases fuel with
  | zero => simp [Forest.pathUp]
  | succ f =>
    unfold Forest.pathUp
    split <;> simp

theorem pathUp_length (n : Nat) : ∀ (fuel : Nat) (p : Pos), (Forest.pathUp n fuel p).length ≤ fuel + 1 := by
  intro fuel
  induction fuel with
  | zero => intro p; simp [Forest.pathUp]
  | succ f ih =>
    intro p
    unfold Forest.pathUp
    split
    · simp
    · simp only [List.length_cons]
      have := ih (Spec.parent p)
      omega

/-- every element of a path is its start or the parent of a non-root element of the path -/
theorem pathUp_gen (n : Nat) : ∀ (fuel : Nat) (p q : Pos), q ∈ Forest.pathUp n fuel p →
    q = p ∨ ∃ c ∈ Forest.pathUp n fuel p, isRootPos n c = false ∧ Spec.parent c = q := by
  intro fuel
  induction fuel with
  | zero =>
    intro p q hq
    simp only [Forest.pathUp, List.mem_singleton] at hq
    exact Or.inl hq
  | succ f ih =>
    intro p q hq
    unfold Forest.pathUp at hq ⊢
    split at hq
    · simp only [List.mem_singleton] at hq
      exact Or.inl hq
    · rename_i hr
      rw [if_neg hr]
      rcases List.mem_cons.1 hq with e | hq
      · exact Or.inl e
      · right
        rcases ih _ _ hq with e | ⟨c, hc, hcr, hpc⟩
        · exact ⟨p, by simp, by simpa using hr, e.symm⟩
        · exact ⟨c, List.mem_cons_of_mem _ hc, hcr, hpc⟩

/-- a path from a node stays inside the node's tree and is closed under `parent` below the
root -/
theorem pathUp_sub {F : Forest H} {h : Nat} : ∀ (fuel : Nat) (p : Pos) (t : CTree H),
    SubAtT F h p t → h - p.1 ≤ fuel →
    ∀ q ∈ Forest.pathUp F.numLeaves fuel p, (∃ t', SubAtT F h q t') ∧
      (isRootPos F.numLeaves q = false → Spec.parent q ∈ Forest.pathUp F.numLeaves fuel p) := by
  intro fuel
  induction fuel with
  | zero =>
    intro p t s hf q hq
    simp only [Forest.pathUp, List.mem_singleton] at hq
    subst hq
    refine ⟨⟨t, s⟩, fun hr => ?_⟩
    have : q.1 = h := by have := s.row_le; omega
    rw [(s.root_iff).2 this] at hr
    cases hr
  | succ f ih =>
    intro p t s hf q hq
    unfold Forest.pathUp at hq ⊢
    by_cases hr : isRootPos F.numLeaves p = true
    · rw [if_pos hr] at hq ⊢
      simp only [List.mem_singleton] at hq
      subst hq
      exact ⟨⟨t, s⟩, fun hr' => by rw [hr] at hr'; cases hr'⟩
    · rw [if_neg hr] at hq ⊢
      have hr' : isRootPos F.numLeaves p = false := by simpa using hr
      obtain ⟨hlt, s', hpar, _⟩ := s.parent hr'
      have ih' := ih (Spec.parent p) _ hpar (by simp only [parent_fst]; omega)
      rcases List.mem_cons.1 hq with e | hq
      · subst e
        exact ⟨⟨t, s⟩, fun _ => List.mem_cons_of_mem _ (mem_pathUp_self _ _ _)⟩
      · obtain ⟨h1, h2⟩ := ih' q hq
        exact ⟨h1, fun hqr => List.mem_cons_of_mem _ (h2 hqr)⟩

/-- a path from a node passes through every ancestor -/
theorem pathUp_anc {F : Forest H} {h : Nat} (fuel : Nat) :
    ∀ (ta : CTree H) (a q : Pos) (s : CTree H), SubAtT F h a ta → (q, s) ∈ subs ta a.1 a.2 →
      h - q.1 ≤ fuel → a ∈ Forest.pathUp F.numLeaves fuel q := by
  intro ta
  induction ta with
  | leaf l =>
    intro a q s _ hq _
    simp only [subs, List.mem_singleton, Prod.mk.injEq] at hq
    rw [hq.1]
    exact mem_pathUp_self _ _ _
  | node x y ihx ihy =>
    intro a q s sa hq hf
    simp only [subs, List.mem_cons, List.mem_append, Prod.mk.injEq] at hq
    obtain ⟨h1, cx, cy⟩ := sa.children
    have hqs : ∃ sq, SubAtT F h q sq := by
      refine ⟨s, sa.sub ?_⟩
      simp only [subs, List.mem_cons, List.mem_append, Prod.mk.injEq]
      exact hq
    obtain ⟨sq, hsq⟩ := hqs
    have hrow := sa.row_le
    rcases hq with ⟨e, _⟩ | hq | hq
    · rw [e]
      exact mem_pathUp_self _ _ _
    · have hc := ihx _ q s cx hq hf
      have hnr : isRootPos F.numLeaves (a.1 - 1, 2 * a.2) = false := by
        cases hr : isRootPos F.numLeaves (a.1 - 1, 2 * a.2) with
        | false => rfl
        | true => have := (cx.root_iff).1 hr; simp only at this; omega
      have := (pathUp_sub fuel q sq hsq hf _ hc).2 hnr
      have e : Spec.parent (a.1 - 1, 2 * a.2) = a := by
        obtain ⟨a1, a2⟩ := a
        simp only [Spec.parent, Prod.mk.injEq]
        simp only at h1
        omega
      rwa [e] at this
    · have hc := ihy _ q s cy hq hf
      have hnr : isRootPos F.numLeaves (a.1 - 1, 2 * a.2 + 1) = false := by
        cases hr : isRootPos F.numLeaves (a.1 - 1, 2 * a.2 + 1) with
        | false => rfl
        | true => have := (cy.root_iff).1 hr; simp only at this; omega
      have := (pathUp_sub fuel q sq hsq hf _ hc).2 hnr
      have e : Spec.parent (a.1 - 1, 2 * a.2 + 1) = a := by
        obtain ⟨a1, a2⟩ := a
        simp only [Spec.parent, Prod.mk.injEq]
        simp only at h1
        omega
      rwa [e] at this

end
end UtreexoVerif.Proofs.SpecSubs
