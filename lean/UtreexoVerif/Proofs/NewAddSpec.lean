/-
  Specification of the addition part of `UpdateData` (property C11): the set of
  (final position, hash) pairs of every added leaf and every node that became a child of a
  parent created by the additions, in terms of aligned chunks of the final slot list.
-/
import UtreexoVerif.Proofs.Chunks
set_option linter.unusedSectionVars false

namespace UtreexoVerif.Spec
open Hasher UtreexoVerif.Proofs.FinalPos

variable {H : Type} [DecidableEq H] [Hasher H]

/-- chunk `(l, b)` lies in the tree on row `T` of a forest with `N` leaves -/
def inTree (N T l b : Nat) : Prop :=
  N.testBit T = true ∧ l ≤ T ∧ b / 2 ^ (T - l) = 2 * (N / 2 ^ (T + 1))

/-- final position of the collapsed root of chunk `(l, b)` of the tree on row `T` -/
def nodePos (S : List (Option H)) (T l b : Nat) : Pos :=
  fpos (chunkAlive S) (T, 2 * (S.length / 2 ^ (T + 1))) (T - l) l b

/-- `(pos, h)` is a node of the collapsed forest with slot list `S` -/
def IsNode (S : List (Option H)) (e : Pos × H) : Prop :=
  ∃ T l b, inTree S.length T l b ∧ chunkAlive S l b = true ∧
    e = (nodePos S T l b, chunkHash S l b)

/-- **Specification of `NewAdd`**: the nodes of the final forest `S` that are added leaves
(slot index `≥ n`) or children of a parent created by the additions (a chunk with two live
halves that contains a slot `≥ n`), with their final positions. -/
def NewAddSpec (n : Nat) (S : List (Option H)) (e : Pos × H) : Prop :=
  ∃ T l b, inTree S.length T l b ∧ chunkAlive S l b = true ∧
    e = (nodePos S T l b, chunkHash S l b) ∧
    ((l = 0 ∧ n ≤ b) ∨
     (l < T ∧ chunkAlive S l (sibIdx b) = true ∧ n < (b / 2 + 1) * 2 ^ (l + 1)))

theorem NewAddSpec.isNode {n : Nat} {S : List (Option H)} {e : Pos × H} (h : NewAddSpec n S e) :
    IsNode S e := by
  obtain ⟨T, l, b, h1, h2, h3, _⟩ := h
  exact ⟨T, l, b, h1, h2, h3⟩

theorem NewAddSpec.mono {n n' : Nat} {S : List (Option H)} {e : Pos × H} (hn : n ≤ n')
    (h : NewAddSpec n' S e) : NewAddSpec n S e := by
  obtain ⟨T, l, b, h1, h2, h3, h4⟩ := h
  refine ⟨T, l, b, h1, h2, h3, ?_⟩
  rcases h4 with ⟨h5, h6⟩ | ⟨h5, h6, h7⟩
  · exact Or.inl ⟨h5, by omega⟩
  · exact Or.inr ⟨h5, h6, by omega⟩

/-! ### the tree containing a slot -/

/-- the tree of a forest with `N` leaves that contains slot `m < N`: the highest binary digit
in which `N` and `m` differ -/
theorem exists_tree_of_lt : ∀ (N m : Nat), m < N →
    ∃ T, N.testBit T = true ∧ m.testBit T = false ∧ N / 2 ^ (T + 1) = m / 2 ^ (T + 1) := by
  intro N
  induction N using Nat.strongRecOn with
  | _ N ih =>
    intro m hm
    by_cases h2 : m / 2 < N / 2
    · obtain ⟨T, h1, h2, h3⟩ := ih (N / 2) (by omega) (m / 2) h2
      refine ⟨T + 1, ?_, ?_, ?_⟩
      · rw [Nat.testBit_succ]; exact h1
      · rw [Nat.testBit_succ]; exact h2
      · rw [Nat.pow_succ' (n := T + 1), ← Nat.div_div_eq_div_mul, ← Nat.div_div_eq_div_mul]
        exact h3
    · refine ⟨0, ?_, ?_, ?_⟩
      · rw [Nat.testBit_zero]; simp; omega
      · rw [Nat.testBit_zero]; simp; omega
      · simp; omega

theorem div_div_pow {m l T : Nat} (h : l ≤ T) : m / 2 ^ l / 2 ^ (T - l) = m / 2 ^ T := by
  rw [Nat.div_div_eq_div_mul, ← Nat.pow_add]; congr 2; omega

/-- slot `m` lies in the tree on row `T` -/
theorem inTree_of_slot {N m T : Nat} (h1 : N.testBit T = true) (h2 : m.testBit T = false)
    (h3 : N / 2 ^ (T + 1) = m / 2 ^ (T + 1)) {l : Nat} (hl : l ≤ T) : inTree N T l (m / 2 ^ l) := by
  refine ⟨h1, hl, ?_⟩
  rw [div_div_pow hl, h3]
  have e : m / 2 ^ (T + 1) = m / 2 ^ T / 2 := by rw [Nat.pow_succ, Nat.div_div_eq_div_mul]
  have hb : m / 2 ^ T % 2 = 0 := by
    have := Nat.testBit_eq_decide_div_mod_eq (x := m) (i := T)
    rw [h2] at this
    have h := (decide_eq_false_iff_not.mp this.symm)
    omega
  omega

/-- a slot lies in at most one tree -/
theorem inTree_unique {N m T T' : Nat} (h : inTree N T 0 m) (h' : inTree N T' 0 m) : T = T' := by
  have key : ∀ T T', T < T' → inTree N T 0 m → inTree N T' 0 m → False := by
    intro T T' hlt ⟨_, _, a3⟩ ⟨b1, _, b3⟩
    simp only [Nat.sub_zero] at a3 b3
    have e1 : m / 2 ^ T' = m / 2 ^ T / 2 ^ (T' - T) := (div_div_pow (by omega)).symm
    have e2 : N / 2 ^ T' = N / 2 ^ (T + 1) / 2 ^ (T' - (T + 1)) := (div_div_pow (by omega)).symm
    have e3 : 2 ^ (T' - T) = 2 * 2 ^ (T' - (T + 1)) := by
      rw [show T' - T = (T' - (T + 1)) + 1 by omega, Nat.pow_succ]; omega
    rw [a3, e3, ← Nat.div_div_eq_div_mul, Nat.mul_div_cancel_left _ (by decide : 0 < 2), ← e2] at e1
    have hodd : N / 2 ^ T' % 2 = 1 := by
      have := Nat.testBit_eq_decide_div_mod_eq (x := N) (i := T')
      rw [b1] at this
      simpa using this.symm
    omega
  rcases Nat.lt_trichotomy T T' with hlt | heq | hgt
  · exact (key T T' hlt h h').elim
  · exact heq
  · exact (key T' T hgt h' h).elim

theorem inTree_parent {N T l b : Nat} (h : inTree N T l b) (hl : l < T) : inTree N T (l + 1) (b / 2) := by
  obtain ⟨h1, _, h3⟩ := h
  refine ⟨h1, hl, ?_⟩
  rw [← h3, Nat.div_div_eq_div_mul, ← Nat.pow_succ']
  congr 2; omega

theorem inTree_sib {N T l b : Nat} (h : inTree N T l b) (hl : l < T) : inTree N T l (sibIdx b) := by
  obtain ⟨h1, h2, h3⟩ := h
  refine ⟨h1, h2, ?_⟩
  have e : 2 ^ (T - l) = 2 * 2 ^ (T - (l + 1)) := by
    rw [show T - l = (T - (l + 1)) + 1 by omega, Nat.pow_succ]; omega
  rw [← h3, e, ← Nat.div_div_eq_div_mul, ← Nat.div_div_eq_div_mul, sibIdx_div_two]

/-- a chunk of a tree lies inside the slot list -/
theorem inTree_le {N T l b : Nat} (h : inTree N T l b) : (b + 1) * 2 ^ l ≤ N := by
  obtain ⟨h1, h2, h3⟩ := h
  have hle := treeStart_add_le h1
  rw [treeStart_eq] at hle
  have hpos := Nat.two_pow_pos (T - l)
  have hb : b + 1 ≤ (2 * (N / 2 ^ (T + 1)) + 1) * 2 ^ (T - l) := by
    have := Nat.lt_succ_iff.mpr (Nat.le_refl (b / 2 ^ (T - l)))
    rw [Nat.div_lt_iff_lt_mul hpos] at this
    rw [← h3]; exact this
  have e : 2 ^ (T - l) * 2 ^ l = 2 ^ T := by rw [← Nat.pow_add]; congr 1; omega
  have e2 : 2 ^ (T + 1) = 2 ^ T * 2 := Nat.pow_succ _ _
  calc (b + 1) * 2 ^ l ≤ (2 * (N / 2 ^ (T + 1)) + 1) * 2 ^ (T - l) * 2 ^ l :=
        Nat.mul_le_mul_right _ hb
    _ = (2 * (N / 2 ^ (T + 1)) + 1) * 2 ^ T := by rw [Nat.mul_assoc, e]
    _ = N / 2 ^ (T + 1) * 2 ^ (T + 1) + 2 ^ T := by
        rw [Nat.add_mul, Nat.one_mul, e2]; congr 1; ac_rfl
    _ ≤ N := hle

/-! ### facts about `nodePos` -/

theorem nodePos_parent (S : List (Option H)) {T l b : Nat} (hl : l < T)
    (h : chunkAlive S l (sibIdx b) = true) :
    ((nodePos S T l b).1 + 1, (nodePos S T l b).2 / 2) = nodePos S T (l + 1) (b / 2) := by
  unfold nodePos
  rw [show T - l = (T - (l + 1)) + 1 by omega]
  exact fpos_parent (by simp only; omega) h

theorem nodePos_dead (S : List (Option H)) {T l b : Nat} (hl : l < T)
    (h : chunkAlive S l (sibIdx b) = false) :
    nodePos S T l b = nodePos S T (l + 1) (b / 2) := by
  unfold nodePos
  rw [show T - l = (T - (l + 1)) + 1 by omega]
  exact fpos_succ_dead h

theorem nodePos_left (S : List (Option H)) {T l b : Nat} (hl : l < T) (hb : b % 2 = 1)
    (h : chunkAlive S l (sibIdx b) = true) (h' : chunkAlive S l b = true) :
    nodePos S T l (sibIdx b) = ((nodePos S T l b).1, 2 * ((nodePos S T l b).2 / 2)) := by
  unfold nodePos
  rw [show T - l = (T - (l + 1)) + 1 by omega]
  exact fpos_left_sib hb h h'

/-- positions of nodes are proper positions of a forest with `R` rows -/
theorem nodePos_valid (S : List (Option H)) {R T l : Nat} (b : Nat) (hN : S.length ≤ 2 ^ R)
    (hT : S.length.testBit T = true) (hl : l ≤ T) :
    l ≤ (nodePos S T l b).1 ∧ (nodePos S T l b).1 ≤ T ∧ T ≤ R ∧
      (nodePos S T l b).2 < 2 ^ (R - (nodePos S T l b).1) := by
  have hle := treeStart_add_le hT
  rw [treeStart_eq] at hle
  have hTR : T ≤ R := by
    apply Classical.byContradiction
    intro hc
    have : 2 ^ (R + 1) ≤ 2 ^ T := Nat.pow_le_pow_right (by decide) (by omega)
    have : 2 ^ (R + 1) = 2 * 2 ^ R := by rw [Nat.pow_succ]; omega
    have := Nat.two_pow_pos R
    omega
  have htop : 2 * (S.length / 2 ^ (T + 1)) < 2 ^ (R - T) := by
    have e : 2 ^ R = 2 ^ (R - T) * 2 ^ T := by rw [← Nat.pow_add]; congr 1; omega
    have e2 : S.length / 2 ^ (T + 1) * 2 ^ (T + 1) = 2 * (S.length / 2 ^ (T + 1)) * 2 ^ T := by
      rw [Nat.pow_succ]; ac_rfl
    rw [e2] at hle
    have h3 : (2 * (S.length / 2 ^ (T + 1)) + 1) * 2 ^ T ≤ 2 ^ (R - T) * 2 ^ T := by
      rw [Nat.add_mul, Nat.one_mul, ← e]; omega
    have := Nat.le_of_mul_le_mul_right h3 (Nat.two_pow_pos T)
    omega
  have hrow := fpos_row (chunkAlive S) (T, 2 * (S.length / 2 ^ (T + 1))) (T - l) l b (by simp only; omega)
  have hval := fpos_valid (chunkAlive S) (T, 2 * (S.length / 2 ^ (T + 1))) R hTR htop (T - l) l b
    (by simp only; omega)
  unfold nodePos
  refine ⟨hrow.1, by omega, hTR, hval⟩

/-- with a live sibling the node is strictly below the root row -/
theorem nodePos_row_lt (S : List (Option H)) {T l b : Nat} (hl : l < T)
    (h : chunkAlive S l (sibIdx b) = true) : (nodePos S T l b).1 < T := by
  unfold nodePos
  rw [show T - l = (T - (l + 1)) + 1 by omega, fpos_succ_alive h]
  have := fpos_row (chunkAlive S) (T, 2 * (S.length / 2 ^ (T + 1))) (T - (l + 1)) (l + 1) (b / 2)
    (by simp only; omega)
  simp only
  omega

/-! ### what one addition contributes -/

/-- the entries contributed by the addition into slot `n` (tree `T`, `t` trailing one digits):
the leaf itself and, for every level below `t` whose left sibling chunk is alive, the two
children of the parent created on that level -/
def StepSpec (S : List (Option H)) (n T t : Nat) (e : Pos × H) : Prop :=
  e = (nodePos S T 0 n, chunkHash S 0 n) ∨
  ∃ l, l < t ∧ chunkAlive S l (sibIdx (n / 2 ^ l)) = true ∧
    (e = (nodePos S T l (n / 2 ^ l), chunkHash S l (n / 2 ^ l)) ∨
     e = (nodePos S T l (sibIdx (n / 2 ^ l)), chunkHash S l (sibIdx (n / 2 ^ l))))

theorem lt_succ_div_mul (n d : Nat) (hd : 0 < d) : n < (n / d + 1) * d := by
  have := Nat.lt_succ_iff.mpr (Nat.le_refl (n / d))
  rwa [Nat.div_lt_iff_lt_mul hd] at this

theorem trailing_div_odd {t c l : Nat} (hl : l < t) :
    (2 ^ (t + 1) * c + (2 ^ t - 1)) / 2 ^ l % 2 = 1 := by
  have := Nat.testBit_eq_decide_div_mod_eq (x := 2 ^ (t + 1) * c + (2 ^ t - 1)) (i := l)
  rw [testBit_trailing_low hl] at this
  simpa using this.symm

theorem newAddSpec_step (S : List (Option H)) {n T t c : Nat} {x : H}
    (hx : S[n]? = some (some x))
    (h1 : S.length.testBit T = true) (h2 : n.testBit T = false)
    (h3 : S.length / 2 ^ (T + 1) = n / 2 ^ (T + 1))
    (hdec : n = 2 ^ (t + 1) * c + (2 ^ t - 1)) (e : Pos × H) :
    NewAddSpec n S e ↔ StepSpec S n T t e ∨ NewAddSpec (n + 1) S e := by
  have htT : t ≤ T := by
    apply Classical.byContradiction
    intro hc
    have := testBit_trailing_low (t := t) (c := c) (j := T) (by omega)
    rw [← hdec, h2] at this
    cases this
  have hcur : ∀ l, chunkAlive S l (n / 2 ^ l) = true := by
    intro l
    apply chunkAlive_of_slot S l (n / 2 ^ l) n x hx
    · exact Nat.div_mul_le_self n (2 ^ l)
    · exact lt_succ_div_mul n _ (Nat.two_pow_pos l)
  constructor
  · rintro ⟨T', l, b, i1, i2, i3, i4⟩
    rcases i4 with ⟨i5, i6⟩ | ⟨i5, i6, i7⟩
    · -- an added leaf
      subst i5
      by_cases hb : b = n
      · subst hb
        left; left
        have hT : T' = T := inTree_unique i1 (by simpa using inTree_of_slot h1 h2 h3 (l := 0) (Nat.zero_le _))
        subst hT
        exact i3
      · right
        exact ⟨T', 0, b, i1, i2, i3, Or.inl ⟨rfl, by omega⟩⟩
    · by_cases hlast : n + 1 < (b / 2 + 1) * 2 ^ (l + 1)
      · right
        exact ⟨T', l, b, i1, i2, i3, Or.inr ⟨i5, i6, hlast⟩⟩
      · left; right
        have hlast' : (b / 2 + 1) * 2 ^ (l + 1) = n + 1 := by omega
        -- the low `l+1` digits of `n` are ones
        have hn : n = 2 ^ (l + 1) * (b / 2) + (2 ^ (l + 1) - 1) := by
          have hpos := Nat.two_pow_pos (l + 1)
          rw [Nat.add_mul, Nat.one_mul, Nat.mul_comm] at hlast'
          omega
        have hlt : l < t := by
          apply Classical.byContradiction
          intro hc
          have := testBit_add_low (k := l + 1) (c := b / 2) (b := 2 ^ (l + 1) - 1) (j := t)
            (by have := Nat.two_pow_pos (l + 1); omega) (by omega)
          rw [← hn, Nat.testBit_two_pow_sub_one, hdec, testBit_trailing_at] at this
          simp at this
          omega
        have hdiv : n / 2 ^ (l + 1) = b / 2 := by
          have hpos := Nat.two_pow_pos (l + 1)
          have e0 : (2 ^ (l + 1) - 1) / 2 ^ (l + 1) = 0 := Nat.div_eq_of_lt (by omega)
          rw [hn, Nat.mul_add_div hpos, e0, Nat.add_zero]
        have hodd : n / 2 ^ l % 2 = 1 := by rw [hdec]; exact trailing_div_odd hlt
        have hhalf : n / 2 ^ l / 2 = b / 2 := by
          rw [← hdiv, Nat.div_div_eq_div_mul, ← Nat.pow_succ]
        -- the tree is the tree of slot `n`
        have hT : T' = T := by
          apply inTree_unique (N := S.length) (m := n) _ (by simpa using inTree_of_slot h1 h2 h3 (l := 0) (Nat.zero_le _))
          obtain ⟨a1, a2, a3⟩ := inTree_parent i1 i5
          refine ⟨a1, Nat.zero_le _, ?_⟩
          rw [← a3, ← hdiv, Nat.sub_zero]
          exact (div_div_pow (by omega)).symm
        subst hT
        by_cases hb : b % 2 = 1
        · have : b = n / 2 ^ l := by omega
          subst this
          exact ⟨l, hlt, i6, Or.inl i3⟩
        · have : b = sibIdx (n / 2 ^ l) := by unfold sibIdx; rw [if_neg (by omega)]; omega
          subst this
          exact ⟨l, hlt, i2, Or.inr i3⟩
  · rintro (hs | hs)
    · rcases hs with hs | ⟨l, hl, hal, hs⟩
      · exact ⟨T, 0, n, by simpa using inTree_of_slot h1 h2 h3 (l := 0) (Nat.zero_le _),
          by simpa using hcur 0, hs, Or.inl ⟨rfl, Nat.le_refl _⟩⟩
      · have hin := inTree_of_slot h1 h2 h3 (l := l) (by omega)
        have hodd : n / 2 ^ l % 2 = 1 := by rw [hdec]; exact trailing_div_odd hl
        have hnew : n < (n / 2 ^ l / 2 + 1) * 2 ^ (l + 1) := by
          rw [Nat.div_div_eq_div_mul, ← Nat.pow_succ]
          exact lt_succ_div_mul n _ (Nat.two_pow_pos _)
        have hlT : l < T := by omega
        rcases hs with hs | hs
        · exact ⟨T, l, n / 2 ^ l, hin, hcur l, hs, Or.inr ⟨hlT, hal, hnew⟩⟩
        · refine ⟨T, l, sibIdx (n / 2 ^ l), inTree_sib hin hlT, hal, hs, Or.inr ⟨hlT, ?_, ?_⟩⟩
          · rw [sibIdx_sibIdx]; exact hcur l
          · rw [sibIdx_div_two]; exact hnew
    · exact hs.mono (Nat.le_succ n)

end UtreexoVerif.Spec
