/-
  FULL map forests (`NewMapPollard(true)`): the invariant `FInv m F`.

  A full forest stores EVERY node of the specification forest `F` (the empty roots included)
  with its true hash and the remember flag set, and caches EVERY live leaf at its position:

      FInv m F  ↔  m.full = true ∧ Nodes = { enc q ↦ ⟨h, true⟩ | (q, h, _) ∈ F.nodes }
                              ∧ CachedLeaves = { x ↦ enc t | (t, x, true) ∈ F.nodes }
                              ∧ size / row bounds ∧ Hyg F.

  On the abstract state `(A, C)` of `Proofs/MapRep.lean` this is `FA A C N P`: the store is the
  image of the node list `N` and the cache is the image of the leaf entries of `N` whose hash
  is not in the pending set `P` (used while `remove` is in progress: the cache has already lost
  the leaves that are about to be deleted).

  Since every stored flag is set, `prunePosition` never removes anything (`pruneA_id`).

  `FInv.inv : FInv m F → Inv m F` gives everything `Props/C09.lean` proves from `Inv`.
-/
import UtreexoVerif.Proofs.MapSInv

namespace UtreexoVerif.Proofs.MapFull
open UtreexoVerif Model Spec Spec.Forest Proofs MapAL MapInv MapPrune MapRep MapLiftGeo PForest MapAInv
  PForestSpec MapSInv Hasher
set_option linter.unusedSectionVars false

variable {H : Type} [DecidableEq H] [Hasher H]

/-! ### the abstract invariant -/

/-- the abstract state `(A, C)` is the FULL image of the node list `N`; the cache lacks exactly
the leaves whose hash is pending (`P`) -/
structure FA (A : Pos → Option (Leaf H)) (C : H → Option Pos) (N : List (Pos × H × Bool)) (P : H → Prop) :
    Prop where
  dom : ∀ q l, A q = some l → ∃ h b, (q, h, b) ∈ N
  sto : ∀ q h b, (q, h, b) ∈ N → A q = some ⟨h, true⟩
  cdom : ∀ x t, C x = some t → ¬ P x ∧ ∃ t', (t', x, true) ∈ N
  csto : ∀ t x, (t, x, true) ∈ N → ¬ P x → C x = some t

namespace FA
variable {A : Pos → Option (Leaf H)} {C : H → Option Pos} {N : List (Pos × H × Bool)} {P : H → Prop}

/-- a stored entry is the node at its position, flag set -/
theorem val (fa : FA A C N P) {q : Pos} {l : Leaf H} (h : A q = some l) :
    l.remember = true ∧ ∃ b, (q, l.hash, b) ∈ N := by
  obtain ⟨h', b, hm⟩ := fa.dom q l h
  have := fa.sto q h' b hm
  rw [h] at this
  simp only [Option.some.injEq] at this
  subst this
  exact ⟨rfl, b, hm⟩

theorem flag (fa : FA A C N P) {q : Pos} {l : Leaf H} (h : A q = some l) : l.remember = true := (fa.val h).1

theorem mem (fa : FA A C N P) {q : Pos} {l : Leaf H} (h : A q = some l) : ∃ b, (q, l.hash, b) ∈ N := (fa.val h).2

/-- the node list is functional on positions -/
theorem func (fa : FA A C N P) {q : Pos} {h h' : H} {b b' : Bool} (h1 : (q, h, b) ∈ N) (h2 : (q, h', b') ∈ N) :
    h = h' := by
  have e1 := fa.sto q h b h1
  have e2 := fa.sto q h' b' h2
  rw [e1] at e2
  simp only [Option.some.injEq, Leaf.mk.injEq, and_true] at e2
  exact e2

/-- a cached hash is cached at the position of that leaf -/
theorem cpos (fa : FA A C N P) {x : H} {t : Pos} (h : C x = some t) : (t, x, true) ∈ N := by
  obtain ⟨hp, t', hm⟩ := fa.cdom x t h
  have := fa.csto t' x hm hp
  rw [h] at this
  simp only [Option.some.injEq] at this
  rw [this]; exact hm

theorem notP (fa : FA A C N P) {x : H} {t : Pos} (h : C x = some t) : ¬ P x := (fa.cdom x t h).1

theorem stored (fa : FA A C N P) {q : Pos} {h : H} {b : Bool} (hm : (q, h, b) ∈ N) : A q ≠ none := by
  rw [fa.sto q h b hm]; simp

theorem none_of (fa : FA A C N P) {q : Pos} (h : ∀ h b, (q, h, b) ∉ N) : A q = none := by
  cases hA : A q with
  | none => rfl
  | some l =>
    obtain ⟨h', b, hm⟩ := fa.dom q l hA
    exact absurd hm (h h' b)

theorem congr_N {N' : List (Pos × H × Bool)} (fa : FA A C N P) (h : ∀ e, e ∈ N' ↔ e ∈ N) : FA A C N' P where
  dom := by
    intro q l hl
    obtain ⟨h', b, hm⟩ := fa.dom q l hl
    exact ⟨h', b, (h _).2 hm⟩
  sto := fun q h' b hm => fa.sto q h' b ((h _).1 hm)
  cdom := by
    intro x t hx
    obtain ⟨hp, t', hm⟩ := fa.cdom x t hx
    exact ⟨hp, t', (h _).2 hm⟩
  csto := fun t x hm hp => fa.csto t x ((h _).1 hm) hp

theorem congr_P {P' : H → Prop} (fa : FA A C N P) (h : ∀ x, P' x ↔ P x) : FA A C N P' := by
  have : P' = P := funext fun x => propext (h x)
  rw [this]; exact fa

theorem congr_AC {A' : Pos → Option (Leaf H)} {C' : H → Option Pos} (fa : FA A C N P)
    (hA : ∀ q, A' q = A q) (hC : ∀ x, C' x = C x) : FA A' C' N P := by
  have e1 : A' = A := funext hA
  have e2 : C' = C := funext hC
  rw [e1, e2]; exact fa

end FA

/-! ### `prunePosition` does nothing when every stored flag is set -/

theorem pruneA_id {A : Pos → Option (Leaf H)} (hfl : ∀ q l, A q = some l → l.remember = true) (q : Pos) :
    pruneA A q = A := by
  funext p
  unfold pruneA
  split
  · rename_i hc
    have h1 : A q = none := by
      cases hA : A q with
      | none => rfl
      | some l =>
        have := hc.1
        rw [hA] at this
        simp only [remD, Option.getD_some] at this
        rw [hfl q l hA] at this; cases this
    have h2 : A (sib q) = none := by
      cases hA : A (sib q) with
      | none => rfl
      | some l =>
        have := hc.2
        rw [hA] at this
        simp only [remD, Option.getD_some] at this
        rw [hfl _ l hA] at this; cases this
    split
    · rename_i h; rw [h.1, h2]
    · split
      · rename_i h; rw [h.1, h1]
      · rfl
  · rfl

/-! ### the invariant of a full map forest -/

/-- **the invariant of a FULL map forest**: `m` is allocated for `m.totalRows ≥ F.rows` rows
(at most 63), `m.full`, `Nodes` is EXACTLY the set of nodes of `F` (the empty roots included) with
their true hashes, keyed by their positions in `TotalRows` coordinates, every remember flag set;
`CachedLeaves` maps EXACTLY the live leaves to their positions; the live leaves are hygienic. -/
structure FInv (m : MapPollard H) (F : Forest H) : Prop where
  n_lt : F.numLeaves < 2 ^ 63
  n_eq : m.numLeaves = BitVec.ofNat 64 F.numLeaves
  rows_le : F.rows ≤ m.totalRows.toNat
  total_le : m.totalRows.toNat ≤ 63
  full : m.full = true
  hyg : Hyg F
  /-- `Nodes` = exactly the nodes of `F`, with true hashes and the flag set -/
  nodes : ∀ p l, m.getNode p = some l ↔
    ∃ q b, (q, l.hash, b) ∈ F.nodes ∧ p = encP m.totalRows.toNat q ∧ l.remember = true
  /-- `CachedLeaves` = exactly the live leaves, with their positions -/
  cached : ∀ x p, m.getCached x = some p ↔ ∃ t, (t, x, true) ∈ F.nodes ∧ p = encP m.totalRows.toNat t

theorem node_valid {F : Forest H} {T : Nat} (hT : F.rows ≤ T) {d : Pos} {h : H} {b : Bool}
    (hd : (d, h, b) ∈ F.nodes) : Valid T d := by
  obtain ⟨R, hb⟩ := belowRoot_of_mem_nodes hd
  exact belowRoot_valid' hT hb

theorem FInv.n_lt64 {m : MapPollard H} {F : Forest H} (s : FInv m F) : F.numLeaves < 2 ^ 64 := by
  have := s.n_lt; omega

theorem FInv.laws (nz : NZ H) {m : MapPollard H} {F : Forest H} (s : FInv m F) : Laws F.nodes (FRoot F) :=
  laws_forest nz F s.n_lt64 s.hyg

/-- the abstract form of the invariant -/
theorem FInv.abs {m : MapPollard H} {F : Forest H} (s : FInv m F) :
    ∃ A C, Rep m m.totalRows.toNat A C ∧ FA A C F.nodes (fun _ => False) := by
  have hT := s.total_le
  have rep : Rep m m.totalRows.toNat (absA m m.totalRows.toNat) (absC m m.totalRows.toNat) := by
    refine rep_abs hT (totalRows_eq_H8 m) ?_ ?_
    · intro p l hg
      obtain ⟨q, b, hm, hp, _⟩ := (s.nodes p l).1 hg
      exact ⟨q, node_valid s.rows_le hm, hp⟩
    · intro x p hc
      obtain ⟨t, hm, hp⟩ := (s.cached x p).1 hc
      exact ⟨t, node_valid s.rows_le hm, hp⟩
  refine ⟨_, _, rep, ?_⟩
  refine { dom := ?_, sto := ?_, cdom := ?_, csto := ?_ }
  · intro q l hl
    have hv := rep.dom q l hl
    have hg : m.getNode (encP m.totalRows.toNat q) = some l := by rw [rep.node q hv]; exact hl
    obtain ⟨q', b, hm, hp, _⟩ := (s.nodes _ l).1 hg
    have : q = q' := encP_inj' hT hv (node_valid s.rows_le hm) hp
    subst this
    exact ⟨_, b, hm⟩
  · intro q h b hm
    have hv := node_valid s.rows_le hm
    rw [← rep.node q hv]
    exact (s.nodes _ ⟨h, true⟩).2 ⟨q, b, hm, rfl, rfl⟩
  · intro x t hx
    refine ⟨fun h => h, ?_⟩
    have hc : m.getCached x = some (encP m.totalRows.toNat t) := by rw [rep.cache x, hx]; rfl
    obtain ⟨t', hm, _⟩ := (s.cached x _).1 hc
    exact ⟨t', hm⟩
  · intro t x hm _
    have hc : m.getCached x = some (encP m.totalRows.toNat t) := (s.cached x _).2 ⟨t, hm, rfl⟩
    rw [rep.cache x] at hc
    cases hC : absC m m.totalRows.toNat x with
    | none => rw [hC] at hc; cases hc
    | some t' =>
      rw [hC] at hc
      simp only [Option.map_some, Option.some.injEq] at hc
      have := encP_inj' hT (rep.cdom x t' hC) (node_valid s.rows_le hm) hc
      rw [this]

/-- from the abstract form back to the invariant -/
theorem FInv.of_abs {m : MapPollard H} {F : Forest H} {T : Nat} {A : Pos → Option (Leaf H)} {C : H → Option Pos}
    (rep : Rep m T A C) (fa : FA A C F.nodes (fun _ => False))
    (hn : F.numLeaves < 2 ^ 63) (hne : m.numLeaves = BitVec.ofNat 64 F.numLeaves) (hrows : F.rows ≤ T)
    (hfull : m.full = true) (hy : Hyg F) : FInv m F := by
  have hT : m.totalRows.toNat = T := by rw [rep.rows]; exact toNat_H8 rep.T_le
  refine { n_lt := hn, n_eq := hne, rows_le := by rw [hT]; exact hrows, total_le := by rw [hT]; exact rep.T_le,
           full := hfull, hyg := hy, nodes := ?_, cached := ?_ }
  · intro p l
    rw [hT]
    constructor
    · intro hg
      obtain ⟨q, hv, rfl⟩ := rep.keys p l hg
      rw [rep.node q hv] at hg
      obtain ⟨hr, b, hm⟩ := fa.val hg
      exact ⟨q, b, hm, rfl, hr⟩
    · rintro ⟨q, b, hm, rfl, hr⟩
      have hA := fa.sto q l.hash b hm
      have hv := rep.dom q _ hA
      rw [rep.node q hv, hA]
      congr 1
      cases l
      simp only at hr
      subst hr
      rfl
  · intro x p
    rw [hT]
    constructor
    · intro hc
      rw [rep.cache x] at hc
      cases hC : C x with
      | none => rw [hC] at hc; cases hc
      | some t =>
        rw [hC] at hc
        simp only [Option.map_some, Option.some.injEq] at hc
        exact ⟨t, fa.cpos hC, hc.symm⟩
    · rintro ⟨t, hm, rfl⟩
      rw [rep.cache x, fa.csto t x hm (fun h => h)]
      rfl

/-! ### `FInv → Inv` -/

/-- **a full forest satisfying `FInv` satisfies the storage invariant `Inv`** of `Props/C09.lean`
(whose flag clause is about `full = false` only): hence its look-ups tell the truth, its roots are
the specification's and `Prove` returns the canonical proof -/
theorem FInv.inv (nz : NZ H) {m : MapPollard H} {F : Forest H} (s : FInv m F) : Inv m F := by
  have L := s.laws nz
  have hn := s.n_lt64
  obtain ⟨A, C, rep, fa⟩ := s.abs
  have hcached : ∀ x t, (t, x, true) ∈ F.nodes → m.hasCached x = true := by
    intro x t hm
    rw [rep.hasCached, fa.csto t x hm (fun h => h)]; rfl
  refine { n_lt := s.n_lt, n_eq := s.n_eq, rows_le := s.rows_le, total_le := s.total_le, true_hash := ?_,
           cached_pos := ?_, only_needed := ?_, has_needed := ?_, flags := ?_ }
  · intro p l hg
    obtain ⟨q, b, hm, hp, _⟩ := (s.nodes p l).1 hg
    exact ⟨q, node_valid s.rows_le hm, hp, SpecNodes.nodeAt_of_mem hm⟩
  · intro x p hc
    obtain ⟨t, hm, hp⟩ := (s.cached x p).1 hc
    exact ⟨t, (posOf_iff F hn s.hyg nz).2 hm, hp⟩
  · intro q l hv hg
    have hA : A q = some l := by rw [← rep.node q hv]; exact hg
    obtain ⟨b, hb⟩ := fa.mem hA
    cases hr : isRootPos F.numLeaves q with
    | true => exact Or.inl hr
    | false =>
      obtain ⟨R, hbr⟩ := belowRoot_of_mem_nodes hb
      have hne : q.1 ≠ R := nonroot_row_ne hbr hr
      have hnz : l.hash ≠ zero := L.nonzero_of_nonroot hb (not_froot_iff.2 hr)
      obtain ⟨t, x, ht, ha⟩ := L.has_leaf q _ b hb hnz
      exact (allowed_nonroot_iff hbr hne).2 ⟨x, t, hcached x t ht, (posOf_iff F hn s.hyg nz).2 ht, ha.1,
        Anc.trans (anc_parent_self q) ha⟩
  · intro q hreq
    obtain ⟨R, hbr⟩ := required_belowRoot hreq
    have hv : Valid m.totalRows.toNat q := belowRoot_valid' s.rows_le hbr
    rw [rep.hasNode hv]
    have conv : ∀ {o : Option (Leaf H)}, o ≠ none → o.isSome = true := by
      intro o ho; cases o with
      | none => exact absurd rfl ho
      | some _ => rfl
    cases hr : isRootPos F.numLeaves q with
    | true =>
      obtain ⟨h, b, hm⟩ := L.root_node q hr
      exact conv (fa.stored hm)
    | false =>
      have hne : q.1 ≠ R := nonroot_row_ne hbr hr
      obtain ⟨x, t, _, hp, h⟩ := (required_nonroot_iff hbr hne).1 hreq
      have htm : (t, x, true) ∈ F.nodes := posOf_mem hp
      rcases h with rfl | hanc
      · exact conv (fa.stored htm)
      · have hs : BelowRoot F.numLeaves (sib q).1 (sib q).2 R := by rw [sib_fst]; exact belowRoot_sib hbr hne
        have hsnr : ¬ FRoot F (sib q) :=
          not_froot_iff.2 (nonroot_of_belowRoot hs (by rw [sib_fst]; exact hne))
        have hρ : FRoot F (rootPos F.numLeaves R) := isRootPos_rootPos hs.2.1
        obtain ⟨hρh, hρb, hρm⟩ := L.root_node _ hρ
        have h1 : Anc (rootPos F.numLeaves R) (sib q) := anc_rootPos_of_belowRoot hs
        have h2 : Anc (rootPos F.numLeaves R) t := Anc.trans h1 hanc
        obtain ⟨hs', bs', hsm⟩ := L.path_nodes ((rootPos F.numLeaves R).1 - t.1) hρm htm h2
          (by have := h2.1; omega) (sib q) h1 hanc
        obtain ⟨hq', bq', hqm⟩ := L.sib_node (sib q) hs' bs' hsm hsnr
        rw [sib_sib] at hqm
        exact conv (fa.stored hqm)
  · intro hf
    rw [s.full] at hf; cases hf

end UtreexoVerif.Proofs.MapFull

section Axioms
open UtreexoVerif.Proofs.MapFull
#print axioms FInv.inv
#print axioms FInv.abs
#print axioms FInv.of_abs
#print axioms pruneA_id
end Axioms
