/-
  Pure list-programming lemmas for the model of Go's `Proof.Update`
  (`Model/ProofUpdate.lean`): closed forms of the cursor loops `uprKeep`, `uprMissing`,
  `upaCollect`, `remembered`, and a few facts about `sortBy`/`mergeHP`/`subtractBy`/
  `hashSubsetHP` on (strictly) sorted lists.
-/
import UtreexoVerif.Model.ProofUpdate
import UtreexoVerif.Proofs.ProofOps
import UtreexoVerif.Proofs.SortedLists
import UtreexoVerif.Proofs.SortBy

namespace UtreexoVerif.Proofs.ProofUpdateLists
open UtreexoVerif Model Hasher

/-! ### generic helpers -/

theorem filterMap_congr' {α β : Type} {f g : α → Option β} :
    ∀ {l : List α}, (∀ x ∈ l, f x = g x) → l.filterMap f = l.filterMap g := by
  intro l
  induction l with
  | nil => intro _; rfl
  | cons a t ih =>
    intro h
    rw [List.filterMap_cons, List.filterMap_cons, h a (by simp),
      ih (fun x hx => h x (List.mem_cons_of_mem _ hx))]

section
variable {H : Type}

/-- the hash stored for a position in an association list (first match) -/
def lookupHP (l : Model.HP H) (pos : U64) : Option H := (l.find? (fun x => x.1 == pos)).map (·.2)

@[simp] theorem lookupHP_nil (pos : U64) : lookupHP ([] : Model.HP H) pos = none := rfl

theorem lookupHP_cons (x : U64 × H) (t : Model.HP H) (pos : U64) :
    lookupHP (x :: t) pos = if x.1 = pos then some x.2 else lookupHP t pos := by
  unfold lookupHP
  rw [List.find?_cons]
  by_cases h : x.1 = pos
  · simp [h]
  · have : (x.1 == pos) = false := by simpa using h
    simp [this, h]

theorem lookupHP_eq_some {l : Model.HP H} {pos : U64} {h : H} :
    lookupHP l pos = some h → (pos, h) ∈ l := by
  induction l with
  | nil => simp
  | cons x t ih =>
    rw [lookupHP_cons]
    split
    · rename_i hx
      intro he
      cases he
      rw [← hx]
      simp
    · intro he
      exact List.mem_cons_of_mem _ (ih he)

theorem lookupHP_eq_none {l : Model.HP H} {pos : U64} :
    lookupHP l pos = none ↔ pos ∉ l.positions := by
  induction l with
  | nil => simp [Model.HP.positions]
  | cons x t ih =>
    rw [lookupHP_cons]
    simp only [Model.HP.positions, List.map_cons, List.mem_cons, not_or] at ih ⊢
    split
    · rename_i hx
      simp [hx]
    · rename_i hx
      rw [ih]
      exact ⟨fun h => ⟨fun e => hx e.symm, h⟩, fun h => h.2⟩

theorem lookupHP_of_mem {l : Model.HP H} {pos : U64} {h : H}
    (hs : l.Pairwise (fun a b => a.1 < b.1)) (hm : (pos, h) ∈ l) : lookupHP l pos = some h := by
  induction l with
  | nil => simp at hm
  | cons x t ih =>
    rw [List.pairwise_cons] at hs
    rw [lookupHP_cons]
    rcases List.mem_cons.mp hm with e | hm
    · subst e
      simp
    · have := hs.1 _ hm
      have hne : x.1 ≠ pos := by
        intro e
        rw [e] at this
        exact BitVec.lt_irrefl _ this
      rw [if_neg hne]
      exact ih hs.2 hm

/-- first-match lookup in a key-sorted list, in terms of membership -/
theorem lookupHP_eq_some_iff {l : Model.HP H} {pos : U64} {h : H}
    (hs : l.Pairwise (fun a b => a.1 < b.1)) : lookupHP l pos = some h ↔ (pos, h) ∈ l :=
  ⟨lookupHP_eq_some, lookupHP_of_mem hs⟩

/-! ### the cursors -/

theorem advance_sublist (l : List (U64 × H)) (pos : U64) : (Model.advance l pos).Sublist l :=
  List.dropWhile_sublist _

theorem advanceU_sublist (l : List U64) (pos : U64) : (Model.advanceU l pos).Sublist l :=
  List.dropWhile_sublist _

/-- skipping the entries below `pos` does not change the look-up of a position `≥ pos` -/
theorem lookupHP_advance (l : Model.HP H) (pos q : U64) (hq : pos ≤ q) :
    lookupHP (Model.advance l pos) q = lookupHP l q := by
  induction l with
  | nil => rfl
  | cons x t ih =>
    unfold Model.advance at ih ⊢
    rw [List.dropWhile_cons]
    split
    · rename_i hx
      have hx' : x.1 < pos := by simpa using hx
      rw [ih, lookupHP_cons, if_neg]
      intro e
      bv_omega
    · rfl

theorem mem_advanceU (l : List U64) (pos q : U64) (hq : pos ≤ q) :
    q ∈ Model.advanceU l pos ↔ q ∈ l := by
  induction l with
  | nil => rfl
  | cons x t ih =>
    unfold Model.advanceU at ih ⊢
    rw [List.dropWhile_cons]
    split
    · rename_i hx
      have hx' : x < pos := by simpa using hx
      rw [ih, List.mem_cons]
      constructor
      · exact Or.inr
      · rintro (e | h)
        · exfalso; bv_omega
        · exact h
    · rfl

/-- what the cursor sees after `advance`: the entry for `pos` if there is one -/
theorem advance_cases (l : Model.HP H) (pos : U64) (hs : l.Pairwise (fun a b => a.1 ≤ b.1)) :
    (Model.advance l pos = [] ∧ lookupHP l pos = none) ∨
    (∃ up uh t, Model.advance l pos = (up, uh) :: t ∧
      ((up = pos ∧ lookupHP l pos = some uh) ∨ (up ≠ pos ∧ lookupHP l pos = none))) := by
  induction l with
  | nil => left; exact ⟨rfl, rfl⟩
  | cons x t ih =>
    rw [List.pairwise_cons] at hs
    unfold Model.advance at ih ⊢
    rw [List.dropWhile_cons]
    split
    · rename_i hx
      have hx' : x.1 < pos := by simpa using hx
      have hne : x.1 ≠ pos := by intro e; bv_omega
      rw [lookupHP_cons, if_neg hne]
      exact ih hs.2
    · rename_i hx
      have hx' : ¬ x.1 < pos := by simpa using hx
      right
      refine ⟨x.1, x.2, t, rfl, ?_⟩
      rw [lookupHP_cons]
      by_cases e : x.1 = pos
      · left; exact ⟨e, by rw [if_pos e]⟩
      · right
        refine ⟨e, ?_⟩
        rw [if_neg e, lookupHP_eq_none]
        intro hm
        obtain ⟨y, hy, hye⟩ := List.mem_map.mp hm
        have := hs.1 y hy
        bv_omega

/-- what the cursor sees after `advanceU` -/
theorem advanceU_cases (l : List U64) (pos : U64) (hs : l.Pairwise (· ≤ ·)) :
    (Model.advanceU l pos = [] ∧ pos ∉ l) ∨
    (∃ e t, Model.advanceU l pos = e :: t ∧ ((e = pos ∧ pos ∈ l) ∨ (e ≠ pos ∧ pos ∉ l))) := by
  induction l with
  | nil => left; exact ⟨rfl, by simp⟩
  | cons x t ih =>
    rw [List.pairwise_cons] at hs
    unfold Model.advanceU at ih ⊢
    rw [List.dropWhile_cons]
    split
    · rename_i hx
      have hx' : x < pos := by simpa using hx
      have hne : pos ≠ x := by intro e; bv_omega
      simp only [List.mem_cons, hne, false_or]
      exact ih hs.2
    · rename_i hx
      have hx' : ¬ x < pos := by simpa using hx
      right
      refine ⟨x, t, rfl, ?_⟩
      by_cases e : x = pos
      · left; exact ⟨e, by simp [e]⟩
      · right
        refine ⟨e, ?_⟩
        simp only [List.mem_cons, not_or]
        refine ⟨fun h => e h.symm, ?_⟩
        intro hm
        have := hs.1 pos hm
        bv_omega

end

/-! ### closed forms of the cursor loops of `updateProofRemove` / `updateProofAdd` -/

section
variable {H : Type} [DecidableEq H] [Hasher H]

/-- the per-element decision of the first loop of `updateProofRemove` -/
def keepFn (extra : List U64) (updated : Model.HP H) (x : U64 × H) : Option (U64 × H) :=
  if x.1 ∈ extra then none
  else match lookupHP updated x.1 with
    | some uh => if uh = zero then none else some (x.1, uh)
    | none => some x

theorem uprKeep_spec' (old : Model.HP H) : ∀ (extra : List U64) (updated acc : Model.HP H),
    old.Pairwise (fun a b => a.1 < b.1) → extra.Pairwise (· ≤ ·) →
    updated.Pairwise (fun a b => a.1 ≤ b.1) →
    Model.uprKeep old extra updated acc = acc ++ old.filterMap (keepFn extra updated) := by
  induction old with
  | nil => intro extra updated acc _ _ _; simp [Model.uprKeep]
  | cons x rest ih =>
    intro extra updated acc ho he hu
    obtain ⟨pos, h⟩ := x
    rw [List.pairwise_cons] at ho
    have he' : (Model.advanceU extra pos).Pairwise (· ≤ ·) := he.sublist (advanceU_sublist _ _)
    have hu' : (Model.advance updated pos).Pairwise (fun a b => a.1 ≤ b.1) :=
      hu.sublist (advance_sublist _ _)
    -- the decisions for the remaining elements are the same with the advanced cursors
    have hcongr1 : rest.filterMap (keepFn (Model.advanceU extra pos) updated) =
        rest.filterMap (keepFn extra updated) := by
      apply filterMap_congr'
      intro y hy
      have hlt : pos < y.1 := ho.1 y hy
      have hle : pos ≤ y.1 := by bv_omega
      unfold keepFn
      simp only [mem_advanceU extra pos y.1 hle]
    have hcongr2 : ∀ ex, rest.filterMap (keepFn ex (Model.advance updated pos)) =
        rest.filterMap (keepFn ex updated) := by
      intro ex
      apply filterMap_congr'
      intro y hy
      have hlt : pos < y.1 := ho.1 y hy
      have hle : pos ≤ y.1 := by bv_omega
      unfold keepFn
      simp only [lookupHP_advance updated pos y.1 hle]
    rw [List.filterMap_cons]
    unfold Model.uprKeep
    rcases advanceU_cases extra pos he with ⟨hE, hne⟩ | ⟨e, t, hE, ⟨rfl, hin⟩ | ⟨hne, hnin⟩⟩
    · -- extra exhausted
      simp only [hE]
      rw [← hE]
      rcases advance_cases updated pos hu with ⟨hU, hl⟩ | ⟨up, uh, t', hU, ⟨rfl, hl⟩ | ⟨hnu, hl⟩⟩
      · have h2 := hcongr2
        rw [hU] at h2
        simp only [hU]
        rw [ih _ _ _ ho.2 he' List.Pairwise.nil, h2, hcongr1]
        simp [keepFn, hne, hl]
      · simp only [hU]
        rw [← hU]
        by_cases hz : uh = zero
        · simp only [hz, ne_eq, not_true_eq_false, if_false, if_true]
          rw [ih _ _ _ ho.2 he' hu', hcongr2, hcongr1]
          simp [keepFn, hne, hl, hz]
        · simp only [hz, ne_eq, not_false_eq_true, if_true]
          rw [ih _ _ _ ho.2 he' hu', hcongr2, hcongr1]
          simp [keepFn, hne, hl, hz]
      · simp only [hU, hnu, if_false]
        rw [← hU, ih _ _ _ ho.2 he' hu', hcongr2, hcongr1]
        simp [keepFn, hne, hl]
    · -- the position is an extra one: dropped
      simp only [hE, if_true]
      rw [← hE, ih _ _ _ ho.2 he' hu, hcongr1]
      simp [keepFn, hin]
    · simp only [hE, hne, if_false]
      rw [← hE]
      rcases advance_cases updated pos hu with ⟨hU, hl⟩ | ⟨up, uh, t', hU, ⟨rfl, hl⟩ | ⟨hnu, hl⟩⟩
      · have h2 := hcongr2
        rw [hU] at h2
        simp only [hU]
        rw [ih _ _ _ ho.2 he' List.Pairwise.nil, h2, hcongr1]
        simp [keepFn, hnin, hl]
      · simp only [hU]
        rw [← hU]
        by_cases hz : uh = zero
        · simp only [hz, ne_eq, not_true_eq_false, if_false, if_true]
          rw [ih _ _ _ ho.2 he' hu', hcongr2, hcongr1]
          simp [keepFn, hnin, hl, hz]
        · simp only [hz, ne_eq, not_false_eq_true, if_true]
          rw [ih _ _ _ ho.2 he' hu', hcongr2, hcongr1]
          simp [keepFn, hnin, hl, hz]
      · simp only [hU, hnu, if_false]
        rw [← hU, ih _ _ _ ho.2 he' hu', hcongr2, hcongr1]
        simp [keepFn, hnin, hl]

omit [DecidableEq H] [Hasher H] in
theorem pairwise_le_of_lt {l : Model.HP H} (h : l.Pairwise (fun a b => a.1 < b.1)) :
    l.Pairwise (fun a b => a.1 ≤ b.1) :=
  h.imp (fun hab => by bv_omega)

/-- closed form of the first loop of `updateProofRemove` -/
theorem uprKeep_spec (old updated : Model.HP H) (extra : List U64) (acc : Model.HP H)
    (ho : old.Pairwise (fun a b => a.1 < b.1)) (he : extra.Pairwise (· ≤ ·))
    (hu : updated.Pairwise (fun a b => a.1 < b.1)) :
    Model.uprKeep old extra updated acc = acc ++ old.filterMap (fun x =>
      if x.1 ∈ extra then none
      else match lookupHP updated x.1 with
        | some uh => if uh = zero then none else some (x.1, uh)
        | none => some x) :=
  uprKeep_spec' old extra updated acc ho he (pairwise_le_of_lt hu)

/-- the per-element decision of the second loop of `updateProofRemove` and of the
collecting loop of `updateProofAdd` -/
def pickFn (updated : Model.HP H) (m : U64) : Option (U64 × H) :=
  (lookupHP updated m).map (fun uh => (m, uh))

omit [DecidableEq H] [Hasher H] in
theorem uprMissing_spec' (missing : List U64) : ∀ (updated acc : Model.HP H),
    missing.Pairwise (· < ·) → updated.Pairwise (fun a b => a.1 ≤ b.1) →
    Model.uprMissing missing updated acc = acc ++ missing.filterMap (pickFn updated) := by
  induction missing with
  | nil => intro updated acc _ _; simp [Model.uprMissing]
  | cons m rest ih =>
    intro updated acc hm hu
    rw [List.pairwise_cons] at hm
    have hu' : (Model.advance updated m).Pairwise (fun a b => a.1 ≤ b.1) :=
      hu.sublist (advance_sublist _ _)
    have hcongr : rest.filterMap (pickFn (Model.advance updated m)) =
        rest.filterMap (pickFn updated) := by
      apply filterMap_congr'
      intro y hy
      have hlt : m < y := hm.1 y hy
      have hle : m ≤ y := by bv_omega
      unfold pickFn
      rw [lookupHP_advance updated m y hle]
    rw [List.filterMap_cons]
    unfold Model.uprMissing
    rcases advance_cases updated m hu with ⟨hU, hl⟩ | ⟨up, uh, t', hU, ⟨rfl, hl⟩ | ⟨hnu, hl⟩⟩
    · have h2 := hcongr
      rw [hU] at h2
      simp only [hU]
      rw [ih _ _ hm.2 List.Pairwise.nil, h2]
      simp [pickFn, hl]
    · simp only [hU, if_true]
      rw [← hU, ih _ _ hm.2 hu', hcongr]
      simp [pickFn, hl]
    · simp only [hU, hnu, if_false]
      rw [← hU, ih _ _ hm.2 hu', hcongr]
      simp [pickFn, hl]

omit [DecidableEq H] [Hasher H] in
/-- closed form of the second loop of `updateProofRemove` -/
theorem uprMissing_spec (missing : List U64) (updated acc : Model.HP H)
    (hm : missing.Pairwise (· < ·)) (hu : updated.Pairwise (fun a b => a.1 < b.1)) :
    Model.uprMissing missing updated acc =
      acc ++ missing.filterMap (fun m => (lookupHP updated m).map (fun uh => (m, uh))) :=
  uprMissing_spec' missing updated acc hm (pairwise_le_of_lt hu)

omit [DecidableEq H] [Hasher H] in
theorem upaCollect_spec' (needed : List U64) : ∀ (nodes acc : Model.HP H),
    needed.Pairwise (· < ·) → nodes.Pairwise (fun a b => a.1 ≤ b.1) →
    Model.upaCollect needed nodes acc = acc ++ needed.filterMap (pickFn nodes) := by
  induction needed with
  | nil => intro nodes acc _ _; simp [Model.upaCollect]
  | cons m rest ih =>
    intro nodes acc hm hu
    rw [List.pairwise_cons] at hm
    have hu' : (Model.advance nodes m).Pairwise (fun a b => a.1 ≤ b.1) :=
      hu.sublist (advance_sublist _ _)
    have hcongr : rest.filterMap (pickFn (Model.advance nodes m)) =
        rest.filterMap (pickFn nodes) := by
      apply filterMap_congr'
      intro y hy
      have hlt : m < y := hm.1 y hy
      have hle : m ≤ y := by bv_omega
      unfold pickFn
      rw [lookupHP_advance nodes m y hle]
    rw [List.filterMap_cons]
    unfold Model.upaCollect
    rcases advance_cases nodes m hu with ⟨hU, hl⟩ | ⟨up, uh, t', hU, ⟨rfl, hl⟩ | ⟨hnu, hl⟩⟩
    · have h2 := hcongr
      rw [hU] at h2
      simp only [hU]
      rw [ih _ _ hm.2 List.Pairwise.nil, h2]
      simp [pickFn, hl]
    · simp only [hU, if_true]
      rw [← hU, ih _ _ hm.2 hu', hcongr]
      simp [pickFn, hl]
    · simp only [hU, hnu, if_false]
      rw [← hU, ih _ _ hm.2 hu', hcongr]
      simp [pickFn, hl]

omit [DecidableEq H] [Hasher H] in
/-- closed form of the collecting loop of `updateProofAdd` -/
theorem upaCollect_spec (needed : List U64) (nodes acc : Model.HP H)
    (hn : needed.Pairwise (· < ·)) (hu : nodes.Pairwise (fun a b => a.1 < b.1)) :
    Model.upaCollect needed nodes acc =
      acc ++ needed.filterMap (fun pos => (lookupHP nodes pos).map (fun nh => (pos, nh))) :=
  upaCollect_spec' needed nodes acc hn (pairwise_le_of_lt hu)

end

/-! ### the stable insertion sort on sorted lists and on permutations -/

section
variable {α : Type}

theorem insertBy_eq_append (key : α → U64) (x : α) :
    ∀ (l : List α), (∀ y ∈ l, key y ≤ key x) → Model.insertBy key x l = l ++ [x] := by
  intro l
  induction l with
  | nil => intro _; rfl
  | cons y t ih =>
    intro h
    have hy : key y ≤ key x := h y (by simp)
    have hn : ¬ key x < key y := by bv_omega
    unfold Model.insertBy
    rw [if_neg hn, ih (fun z hz => h z (List.mem_cons_of_mem _ hz))]
    rfl

theorem foldl_insertBy_eq_append (key : α → U64) :
    ∀ (l acc : List α), (acc ++ l).Pairwise (fun a b => key a ≤ key b) →
      l.foldl (fun acc x => Model.insertBy key x acc) acc = acc ++ l := by
  intro l
  induction l with
  | nil => intro acc _; simp
  | cons x t ih =>
    intro acc h
    rw [List.foldl_cons]
    have hx : ∀ y ∈ acc, key y ≤ key x := by
      intro y hy
      rw [List.pairwise_append] at h
      exact h.2.2 y hy x (by simp)
    rw [insertBy_eq_append key x acc hx, ih]
    · simp
    · simpa using h

/-- the stable insertion sort keeps a sorted list -/
theorem sortBy_eq_self (key : α → U64) {l : List α}
    (h : l.Pairwise (fun a b => key a ≤ key b)) : Model.sortBy key l = l := by
  unfold Model.sortBy
  rw [foldl_insertBy_eq_append key l [] (by simpa using h)]
  rfl

theorem sortBy_eq_self_of_strict (key : α → U64) {l : List α}
    (h : l.Pairwise (fun a b => key a < key b)) : Model.sortBy key l = l :=
  sortBy_eq_self key (h.imp (fun hab => by bv_omega))

theorem sortU64_eq_self {l : List U64} (h : l.Pairwise (· ≤ ·)) : Model.sortU64 l = l :=
  sortBy_eq_self id h

theorem sortHP_eq_self {H : Type} {l : Model.HP H} (h : l.Pairwise (fun a b => a.1 ≤ b.1)) :
    Model.sortHP l = l :=
  sortBy_eq_self (fun x : U64 × H => x.1) h

theorem sortHP_eq_self_of_strict {H : Type} {l : Model.HP H}
    (h : l.Pairwise (fun a b => a.1 < b.1)) : Model.sortHP l = l :=
  sortBy_eq_self_of_strict (fun x : U64 × H => x.1) h

/-- sorting is idempotent -/
theorem sortBy_sortBy (key : α → U64) (l : List α) :
    Model.sortBy key (Model.sortBy key l) = Model.sortBy key l :=
  sortBy_eq_self key (SortBy.sortBy_sorted key l)

/-- with pairwise different keys the sorted list depends on the members only -/
theorem sortBy_eq_of_perm (key : α → U64) {l1 l2 : List α} (hp : l1.Perm l2)
    (hnd : (l1.map key).Nodup) : Model.sortBy key l1 = Model.sortBy key l2 := by
  have hnd2 : (l2.map key).Nodup := (hp.map key).nodup_iff.mp hnd
  apply Sorted.eq_of_sorted_of_mem_iff (R := fun a b : α => key a < key b)
    (fun a => BitVec.lt_irrefl _) (fun _ _ _ => BitVec.lt_trans) _ _
    (SortBy.sortBy_strict key l1 hnd) (SortBy.sortBy_strict key l2 hnd2)
  intro x
  rw [ProofOps.mem_sortBy, ProofOps.mem_sortBy]
  exact hp.mem_iff

theorem sortHP_eq_of_perm {H : Type} {l1 l2 : Model.HP H} (hp : l1.Perm l2)
    (hnd : l1.positions.Nodup) : Model.sortHP l1 = Model.sortHP l2 :=
  sortBy_eq_of_perm (fun x : U64 × H => x.1) hp hnd

theorem sortU64_eq_of_perm {l1 l2 : List U64} (hp : l1.Perm l2) (hnd : l1.Nodup) :
    Model.sortU64 l1 = Model.sortU64 l2 :=
  sortBy_eq_of_perm id hp (by simpa using hnd)

/-- a strictly sorted list that is a permutation of `l` is `sortBy key l` -/
theorem sortBy_eq_of_perm_sorted (key : α → U64) {l s : List α} (hp : l.Perm s)
    (hs : s.Pairwise (fun a b => key a < key b)) : Model.sortBy key l = s := by
  have hnd : (s.map key).Nodup := by
    rw [List.Nodup, List.pairwise_map]
    exact hs.imp (fun hab e => by rw [e] at hab; exact BitVec.lt_irrefl _ hab)
  rw [sortBy_eq_of_perm key hp ((hp.map key).nodup_iff.mpr hnd), sortBy_eq_self_of_strict key hs]

/-- `toHashAndPos` on slices of equal lengths -/
theorem toHashAndPos_ok {H : Type} (ts : List U64) (hs : List H) (h : ts.length = hs.length) :
    Model.toHashAndPos ts hs = .ok (Model.sortHP (ts.zip hs)) := by
  unfold Model.toHashAndPos
  rw [if_pos h]

theorem toHashAndPos_panic {H : Type} (ts : List U64) (hs : List H) (h : ts.length ≠ hs.length) :
    Model.toHashAndPos ts hs = .panic := by
  unfold Model.toHashAndPos
  rw [if_neg h]

/-- the positions of `toHashAndPos` are the sorted targets -/
theorem toHashAndPos_positions {H : Type} (ts : List U64) (hs : List H) (h : ts.length = hs.length) :
    (Model.sortHP (ts.zip hs)).positions = Model.sortU64 ts := by
  rw [ProofOps.sortHP_positions, ProofOps.zip_positions ts hs h]

end

/-! ### `mergeHP` of strictly sorted lists -/

section
variable {H : Type}

theorem mem_positions {l : Model.HP H} {p : U64} : p ∈ l.positions ↔ ∃ z ∈ l, z.1 = p := by
  unfold Model.HP.positions
  rw [List.mem_map]

theorem mem_positions_of_mem {l : Model.HP H} {z : U64 × H} (h : z ∈ l) : z.1 ∈ l.positions :=
  mem_positions.mpr ⟨z, h, rfl⟩

theorem positions_cons (x : U64 × H) (l : Model.HP H) :
    Model.HP.positions (x :: l) = x.1 :: l.positions := rfl

/-- `mergeHP a b` = `a` plus the entries of `b` at positions `a` does not have -/
theorem mem_mergeHP_iff (a b : Model.HP H) (ha : a.Pairwise (fun x y => x.1 < y.1))
    (hb : b.Pairwise (fun x y => x.1 < y.1)) (z : U64 × H) :
    z ∈ Model.mergeHP a b ↔ z ∈ a ∨ (z ∈ b ∧ z.1 ∉ a.positions) := by
  fun_induction Model.mergeHP a b with
  | case1 b => simp [Model.HP.positions]
  | case2 a _ => simp
  | case3 x xs y ys hlt ih =>
    rw [List.pairwise_cons] at ha
    rw [List.mem_cons, ih ha.2 hb, positions_cons]
    simp only [List.mem_cons]
    have hne : z = y ∨ z ∈ ys → z.1 ≠ x.1 := by
      intro hz
      rcases hz with rfl | hz
      · intro e; rw [e] at hlt; exact BitVec.lt_irrefl _ hlt
      · have := (List.pairwise_cons.mp hb).1 z hz
        intro e; bv_omega
    constructor
    · rintro (h | h | ⟨h1, h2⟩)
      · exact Or.inl (Or.inl h)
      · exact Or.inl (Or.inr h)
      · exact Or.inr ⟨h1, fun h => h.elim (hne h1) h2⟩
    · rintro ((h | h) | ⟨h1, h2⟩)
      · exact Or.inl h
      · exact Or.inr (Or.inl h)
      · exact Or.inr (Or.inr ⟨h1, fun h => h2 (Or.inr h)⟩)
  | case4 x xs y ys hnlt hlt ih =>
    rw [List.pairwise_cons] at hb
    rw [List.mem_cons, ih ha hb.2]
    simp only [List.mem_cons (a := z)]
    have hy : y.1 ∉ Model.HP.positions (x :: xs) := by
      intro hm
      obtain ⟨w, hw, hwe⟩ := mem_positions.mp hm
      rcases List.mem_cons.mp hw with rfl | hw
      · rw [hwe] at hlt; exact BitVec.lt_irrefl _ hlt
      · have := (List.pairwise_cons.mp ha).1 w hw
        bv_omega
    constructor
    · rintro (h | h | ⟨h1, h2⟩)
      · exact Or.inr ⟨Or.inl h, h ▸ hy⟩
      · exact Or.inl h
      · exact Or.inr ⟨Or.inr h1, h2⟩
    · rintro (h | ⟨h1 | h1, h2⟩)
      · exact Or.inr (Or.inl h)
      · exact Or.inl h1
      · exact Or.inr (Or.inr ⟨h1, h2⟩)
  | case5 x xs y ys hnlt1 hnlt2 ih =>
    have hxy : x.1 = y.1 := ProofOps.u64_eq_of_not_lt hnlt1 hnlt2
    rw [List.pairwise_cons] at ha hb
    rw [List.mem_cons, ih ha.2 hb.2, positions_cons]
    simp only [List.mem_cons]
    constructor
    · rintro (h | h | ⟨h1, h2⟩)
      · exact Or.inl (Or.inl h)
      · exact Or.inl (Or.inr h)
      · refine Or.inr ⟨Or.inr h1, fun h => h.elim (fun e => ?_) h2⟩
        have := hb.1 z h1
        bv_omega
    · rintro ((h | h) | ⟨h1 | h1, h2⟩)
      · exact Or.inl h
      · exact Or.inr (Or.inl h)
      · exact absurd (Or.inl (h1 ▸ hxy.symm)) h2
      · exact Or.inr (Or.inr ⟨h1, fun h => h2 (Or.inr h)⟩)

theorem pairwise_positions {l : Model.HP H} :
    l.positions.Pairwise (· < ·) ↔ l.Pairwise (fun x y => x.1 < y.1) := by
  unfold Model.HP.positions
  rw [List.pairwise_map]

/-- merging two strictly sorted lists gives a strictly sorted list -/
theorem mergeHP_sorted (a b : Model.HP H) (ha : a.Pairwise (fun x y => x.1 < y.1))
    (hb : b.Pairwise (fun x y => x.1 < y.1)) :
    (Model.mergeHP a b).Pairwise (fun x y => x.1 < y.1) := by
  rw [← pairwise_positions, ProofOps.mergeHP_positions]
  exact ProofOps.strict_mergeU64 _ _ (pairwise_positions.mpr ha) (pairwise_positions.mpr hb)

/-- the look-up in a merge: `a` first, then `b` -/
theorem lookupHP_mergeHP (a b : Model.HP H) (ha : a.Pairwise (fun x y => x.1 < y.1))
    (hb : b.Pairwise (fun x y => x.1 < y.1)) (pos : U64) :
    lookupHP (Model.mergeHP a b) pos = (lookupHP a pos).orElse (fun _ => lookupHP b pos) := by
  have hm := mergeHP_sorted a b ha hb
  cases hA : lookupHP a pos with
  | some h =>
    rw [Option.orElse_some]
    exact lookupHP_of_mem hm ((mem_mergeHP_iff a b ha hb _).mpr (Or.inl (lookupHP_eq_some hA)))
  | none =>
    rw [Option.orElse_none]
    have hna := lookupHP_eq_none.mp hA
    cases hB : lookupHP b pos with
    | some h =>
      exact lookupHP_of_mem hm
        ((mem_mergeHP_iff a b ha hb _).mpr (Or.inr ⟨lookupHP_eq_some hB, hna⟩))
    | none =>
      have hnb := lookupHP_eq_none.mp hB
      rw [lookupHP_eq_none]
      intro hmem
      obtain ⟨w, hw, hwe⟩ := mem_positions.mp hmem
      rcases (mem_mergeHP_iff a b ha hb w).mp hw with h | ⟨h, _⟩
      · exact hna (hwe ▸ mem_positions_of_mem h)
      · exact hnb (hwe ▸ mem_positions_of_mem h)

end

/-! ### the remembered additions of `updateProofAdd` -/

section
variable {H : Type}

theorem le_of_mem_zipIdx {l : List H} {k : Nat} {a : H × Nat} (h : a ∈ l.zipIdx k) : k ≤ a.2 := by
  obtain ⟨x, i⟩ := a
  exact (List.mem_zipIdx h).1

/-- closed form of the selection loop of `updateProofAdd`, for ascending remember indexes:
the additions whose index (counted from `i`) is remembered, in order -/
theorem remembered_spec (fuel : Nat) : ∀ (i : Nat) (adds : List H) (rs : List Nat) (acc : List H),
    rs.Pairwise (· ≤ ·) → adds.length + rs.length ≤ fuel →
    Model.remembered fuel i adds rs acc =
      acc ++ ((adds.zipIdx i).filter (fun a => decide (a.2 ∈ rs))).map (·.1) := by
  induction fuel with
  | zero =>
    intro i adds rs acc _ hf
    have : adds = [] := List.eq_nil_of_length_eq_zero (by omega)
    subst this
    simp [Model.remembered]
  | succ fuel ih =>
    intro i adds rs acc hs hf
    cases adds with
    | nil => simp [Model.remembered]
    | cons add adds =>
      cases rs with
      | nil => simp [Model.remembered]
      | cons r rs =>
        rw [List.pairwise_cons] at hs
        simp only [List.length_cons] at hf
        rw [Model.remembered, List.zipIdx_cons]
        by_cases h1 : i = r
        · subst h1
          have hf1 : (adds.zipIdx (i + 1)).filter (fun a => decide (a.2 ∈ i :: rs)) =
              (adds.zipIdx (i + 1)).filter (fun a => decide (a.2 ∈ rs)) := by
            apply List.filter_congr
            intro a ha
            have := le_of_mem_zipIdx ha
            have hne : a.2 ≠ i := by omega
            simp [hne]
          rw [if_pos rfl, ih _ _ _ _ hs.2 (by omega),
            List.filter_cons_of_pos (by simp), hf1]
          simp
        · rw [if_neg h1]
          by_cases h2 : i > r
          · have hf1 : ((add, i) :: adds.zipIdx (i + 1)).filter (fun a => decide (a.2 ∈ r :: rs)) =
                ((add, i) :: adds.zipIdx (i + 1)).filter (fun a => decide (a.2 ∈ rs)) := by
              apply List.filter_congr
              intro a ha
              have hge : i ≤ a.2 := by
                rcases List.mem_cons.mp ha with rfl | ha
                · exact Nat.le_refl _
                · have := le_of_mem_zipIdx ha; omega
              have hne : a.2 ≠ r := by omega
              simp [hne]
            rw [if_pos h2, ih _ _ _ _ hs.2 (by simp only [List.length_cons]; omega),
              List.zipIdx_cons, hf1]
          · have hni : ¬ (decide ((add, i).2 ∈ r :: rs) = true) := by
              simp only [List.mem_cons, decide_eq_true_eq, not_or]
              refine ⟨h1, fun hm => ?_⟩
              have := hs.1 i hm
              omega
            rw [if_neg h2, ih _ _ _ _ (List.pairwise_cons.mpr hs)
              (by simp only [List.length_cons]; omega),
              List.filter_cons_of_neg (p := fun a : H × Nat => decide (a.2 ∈ r :: rs)) hni]

/-- membership form of `remembered_spec` -/
theorem mem_remembered (fuel i : Nat) (adds : List H) (rs : List Nat) (acc : List H)
    (hs : rs.Pairwise (· ≤ ·)) (hf : adds.length + rs.length ≤ fuel) (x : H) :
    x ∈ Model.remembered fuel i adds rs acc ↔
      x ∈ acc ∨ ∃ j, j < adds.length ∧ adds[j]? = some x ∧ (i + j) ∈ rs := by
  rw [remembered_spec fuel i adds rs acc hs hf, List.mem_append, List.mem_map]
  constructor
  · rintro (h | ⟨⟨y, k⟩, hy, rfl⟩)
    · exact Or.inl h
    · right
      rw [List.mem_filter] at hy
      obtain ⟨h1, h2, h3⟩ := List.mem_zipIdx hy.1
      refine ⟨k - i, by omega, ?_, ?_⟩
      · rw [List.getElem?_eq_getElem (by omega)]
        exact congrArg some h3.symm
      · have : i + (k - i) = k := by omega
        rw [this]
        simpa using hy.2
  · rintro (h | ⟨j, hj, hx, hm⟩)
    · exact Or.inl h
    · right
      refine ⟨(x, i + j), ?_, rfl⟩
      rw [List.mem_filter]
      refine ⟨?_, by simpa using hm⟩
      rw [List.mem_zipIdx_iff_le_and_getElem?_sub]
      refine ⟨by omega, ?_⟩
      have : i + j - i = j := by omega
      simpa [this] using hx

/-- the call in `updateProofAdd` -/
theorem remembered_updateProofAdd (adds : List H) (rs : List Nat) (hs : rs.Pairwise (· ≤ ·)) :
    Model.remembered (2 * (adds.length + rs.length) + 2) 0 adds rs [] =
      ((adds.zipIdx).filter (fun a => decide (a.2 ∈ rs))).map (·.1) := by
  rw [remembered_spec _ 0 adds rs [] hs (by omega)]
  rfl

theorem mem_remembered_updateProofAdd (adds : List H) (rs : List Nat) (hs : rs.Pairwise (· ≤ ·))
    (x : H) :
    x ∈ Model.remembered (2 * (adds.length + rs.length) + 2) 0 adds rs [] ↔
      ∃ j, j < adds.length ∧ adds[j]? = some x ∧ j ∈ rs := by
  rw [mem_remembered _ 0 adds rs [] hs (by omega)]
  simp

/-- with UNSORTED remember indexes the loop drops an element: index 0 is remembered, but the
cursor has passed it when `remembers[1] = 0` is looked at -/
example (a0 a1 a2 : H) : Model.remembered 20 0 [a0, a1, a2] [2, 0] [] = [a2] := by
  simp [Model.remembered]

example : Model.remembered 20 0 [10, 11, 12] [2, 0] [] = [12] := by decide

end

/-! ### `subtractBy` and `hashSubsetHP` on strictly sorted lists -/

section
variable {α : Type}

theorem subtractBy_sorted (key : α → U64) (a : List α) (b : List U64)
    (ha : a.Pairwise (fun x y => key x < key y)) :
    (Model.subtractBy key a b).Pairwise (fun x y => key x < key y) :=
  ha.sublist (ProofOps.subtractBy_sublist key a b)

/-- closed form of the one-cursor subtraction on ascending lists -/
theorem subtractBy_eq_filter (key : α → U64) (a : List α) (b : List U64)
    (ha : a.Pairwise (fun x y => key x < key y)) (hb : b.Pairwise (· ≤ ·)) :
    Model.subtractBy key a b = a.filter (fun x => decide (key x ∉ b)) := by
  apply Sorted.eq_of_sorted_of_mem_iff (R := fun x y : α => key x < key y)
    (fun a => BitVec.lt_irrefl _) (fun _ _ _ => BitVec.lt_trans) _ _
    (subtractBy_sorted key a b ha) (ha.filter _)
  intro x
  rw [ProofOps.mem_subtractBy_iff key a b ha hb, List.mem_filter]
  simp

theorem subtractU64_sorted (a b : List U64) (ha : a.Pairwise (· < ·)) :
    (Model.subtractU64 a b).Pairwise (· < ·) :=
  subtractBy_sorted id a b ha

theorem subtractU64_eq_filter (a b : List U64) (ha : a.Pairwise (· < ·)) (hb : b.Pairwise (· ≤ ·)) :
    Model.subtractU64 a b = a.filter (fun x => decide (x ∉ b)) :=
  subtractBy_eq_filter id a b ha hb

theorem subtractHP_sorted {H : Type} (a : Model.HP H) (b : List U64)
    (ha : a.Pairwise (fun x y => x.1 < y.1)) :
    (Model.subtractHP a b).Pairwise (fun x y => x.1 < y.1) :=
  subtractBy_sorted (fun x : U64 × H => x.1) a b ha

theorem subtractHP_eq_filter {H : Type} (a : Model.HP H) (b : List U64)
    (ha : a.Pairwise (fun x y => x.1 < y.1)) (hb : b.Pairwise (· ≤ ·)) :
    Model.subtractHP a b = a.filter (fun x => decide (x.1 ∉ b)) :=
  subtractBy_eq_filter (fun x : U64 × H => x.1) a b ha hb

theorem mem_subtractHP_iff {H : Type} (a : Model.HP H) (b : List U64)
    (ha : a.Pairwise (fun x y => x.1 < y.1)) (hb : b.Pairwise (· ≤ ·)) (z : U64 × H) :
    z ∈ Model.subtractHP a b ↔ z ∈ a ∧ z.1 ∉ b :=
  ProofOps.mem_subtractBy_iff (fun x : U64 × H => x.1) a b ha hb z

end

section
variable {H : Type} [DecidableEq H]

theorem hashSubsetHP_eq (a : Model.HP H) (hs : List H) :
    Model.hashSubsetHP a hs = a.filter (fun x => hs.contains x.2) := rfl

theorem mem_hashSubsetHP (a : Model.HP H) (hs : List H) (z : U64 × H) :
    z ∈ Model.hashSubsetHP a hs ↔ z ∈ a ∧ z.2 ∈ hs := by
  unfold Model.hashSubsetHP
  rw [List.mem_filter]
  simp

theorem hashSubsetHP_sublist (a : Model.HP H) (hs : List H) : (Model.hashSubsetHP a hs).Sublist a :=
  List.filter_sublist

theorem hashSubsetHP_sorted (a : Model.HP H) (hs : List H)
    (ha : a.Pairwise (fun x y => x.1 < y.1)) :
    (Model.hashSubsetHP a hs).Pairwise (fun x y => x.1 < y.1) :=
  ha.filter _

end

/-! ### non-vacuity: the closed forms on concrete inputs exercising every branch -/

section examples

local instance exHasher : Hasher Nat := ⟨fun a b => a + b + 1, 0⟩

private def exOld : Model.HP Nat := [(1#64, 10), (2#64, 20), (3#64, 30), (5#64, 50), (7#64, 70)]
private def exExtra : List U64 := [2#64, 2#64, 4#64]
private def exUpdated : Model.HP Nat := [(0#64, 5), (3#64, 0), (5#64, 55), (6#64, 66)]

example : exOld.Pairwise (fun a b => a.1 < b.1) ∧ exExtra.Pairwise (· ≤ ·) ∧
    exUpdated.Pairwise (fun a b => a.1 < b.1) := by decide

/-- position 2 is extra (dropped), 3 was updated to the empty hash (dropped), 5 is replaced,
1 and 7 are kept -/
example : Model.uprKeep exOld exExtra exUpdated [] = [(1#64, 10), (5#64, 55), (7#64, 70)] := by
  decide

example : Model.uprKeep exOld exExtra exUpdated [] = [(1#64, 10), (5#64, 55), (7#64, 70)] := by
  rw [uprKeep_spec exOld exUpdated exExtra [] (by decide) (by decide) (by decide)]
  decide

example : Model.uprMissing [3#64, 4#64, 6#64] exUpdated [(9#64, 9)] =
    [(9#64, 9), (3#64, 0), (6#64, 66)] := by
  rw [uprMissing_spec _ _ _ (by decide) (by decide)]
  decide

example : Model.upaCollect [0#64, 4#64, 5#64] exUpdated [] = [(0#64, 5), (5#64, 55)] := by
  rw [upaCollect_spec _ _ _ (by decide) (by decide)]
  decide

example : Model.remembered (2 * (3 + 3) + 2) 0 [10, 11, 12] [0, 2, 2] [] = [10, 12] :=
  (remembered_updateProofAdd [10, 11, 12] [0, 2, 2] (by decide)).trans (by decide)

example : Model.sortHP exOld = exOld := sortHP_eq_self_of_strict (by decide)

example : Model.mergeHP exOld exUpdated =
    [(0#64, 5), (1#64, 10), (2#64, 20), (3#64, 30), (5#64, 50), (6#64, 66), (7#64, 70)] := by
  decide +kernel

example : Model.subtractHP exOld [2#64, 2#64, 4#64, 7#64] = [(1#64, 10), (3#64, 30), (5#64, 50)] := by
  rw [subtractHP_eq_filter _ _ (by decide) (by decide)]
  decide

end examples

end UtreexoVerif.Proofs.ProofUpdateLists

