/-
  Pointer forest, heap model: helper lemmas for `Props/PollardHeap.lean`.

  1. evaluation of the effect monad `PM`;
  2. `Sub`: frame lemma (untouched footprint ⇒ same tree) and re-homing lemma (the children
     of a node move to another niece holder — what `swapNieces` + `updateAunt` do);
  3. `updateAunt` on heaps whose grand-nieces are already correct;
  4. one merge step of `calculateNewRoot`; the loop; `addOne`.
-/
import UtreexoVerif.Proofs.PollardHeapDefs
import UtreexoVerif.Proofs.SpecForest
import UtreexoVerif.Proofs.PollardCalcPos
set_option linter.unusedSectionVars false
set_option linter.unusedVariables false

namespace UtreexoVerif.Proofs.PollardHeap
open UtreexoVerif UtreexoVerif.Model UtreexoVerif.Model.PollardHeap UtreexoVerif.Spec Hasher

variable {H : Type} [DecidableEq H] [Hasher H]

/-! ### 1. the effect monad -/

@[simp] theorem bind_apply {α β} (x : PM H α) (f : α → PM H β) (s : Pollard H) :
    (x >>= f) s = match x s with
      | (.ok a, s') => f a s'
      | (.err, s') => (.err, s')
      | (.panic, s') => (.panic, s')
      | (.hang, s') => (.hang, s') := rfl

@[simp] theorem pure_apply {α} (a : α) (s : Pollard H) : (pure a : PM H α) s = (.ok a, s) := rfl
@[simp] theorem PMpure_apply {α} (a : α) (s : Pollard H) : (PM.pure a : PM H α) s = (.ok a, s) := rfl

@[simp] theorem node_apply (i : Nat) (s : Pollard H) :
    node i s = match s.heap[i]? with
      | some n => (.ok n, s)
      | none => (.panic, s) := rfl

@[simp] theorem setNode_apply (i : Nat) (f : PolNode H → PolNode H) (s : Pollard H) :
    setNode i f s = (.ok (), { s with heap := s.heap.modify i f }) := rfl

@[simp] theorem heapSize_apply (s : Pollard H) : heapSize s = (.ok s.heap.size, s) := rfl
@[simp] theorem getRoots_apply (s : Pollard H) : getRoots s = (.ok s.roots, s) := rfl
@[simp] theorem setRoots_apply (r : List Nat) (s : Pollard H) :
    setRoots r s = (.ok (), { s with roots := r }) := rfl
@[simp] theorem getNumLeaves_apply (s : Pollard H) : getNumLeaves s = (.ok s.numLeaves, s) := rfl
@[simp] theorem getFull_apply (s : Pollard H) : getFull s = (.ok s.full, s) := rfl
@[simp] theorem modifyS_apply (f : Pollard H → Pollard H) (s : Pollard H) :
    modifyS f s = (.ok (), f s) := rfl
@[simp] theorem alloc_apply (n : PolNode H) (s : Pollard H) :
    alloc n s = (.ok s.heap.size, { s with heap := s.heap.push n }) := rfl
@[simp] theorem deref_some (i : Nat) (s : Pollard H) : deref (some i) s = (.ok i, s) := rfl

/-! ### 2. `Sub`: frame and re-homing -/

theorem Sub.frame {hp hp' : Heap H} {n holder : Nat} {t : CTree H} {fp : List Nat}
    {lv : List (H × Nat)} (h : Sub hp n holder t fp lv)
    (hn : ∀ nn, hp[n]? = some nn → ∃ nn', hp'[n]? = some nn' ∧ nn'.data = nn.data)
    (hh : ∀ hn, hp[holder]? = some hn → ∃ hn', hp'[holder]? = some hn' ∧
      hn'.lNiece = hn.lNiece ∧ hn'.rNiece = hn.rNiece)
    (hfp : ∀ i ∈ fp, hp'[i]? = hp[i]?) : Sub hp' n holder t fp lv := by
  induction h with
  | leaf h1 h2 h3 h4 h5 =>
    obtain ⟨nn', e1, e2⟩ := hn _ h1
    obtain ⟨hn', e3, e4, e5⟩ := hh _ h3
    exact Sub.leaf e1 (e2.trans h2) e3 (e4.trans h4) (e5.trans h5)
  | @node n holder l r nn hn0 ln rn a b fa fb la lb h1 h2 h3 h4 h5 h6 h7 h8 h9 sa sb iha ihb =>
    obtain ⟨nn', e1, e2⟩ := hn _ h1
    obtain ⟨hn', e3, e4, e5⟩ := hh _ h3
    have el : hp'[l]? = hp[l]? := hfp l (by simp)
    have er : hp'[r]? = hp[r]? := hfp r (by simp)
    refine Sub.node e1 (e2.trans h2) e3 (e4.trans h4) (e5.trans h5) (el.trans h6) (er.trans h7) h8 h9 ?_ ?_
    · apply iha
      · intro x hx; exact ⟨x, by rw [el]; exact hx, rfl⟩
      · intro x hx; exact ⟨x, by rw [er]; exact hx, rfl, rfl⟩
      · intro i hi; exact hfp i (by simp [hi])
    · apply ihb
      · intro x hx; exact ⟨x, by rw [er]; exact hx, rfl⟩
      · intro x hx; exact ⟨x, by rw [el]; exact hx, rfl, rfl⟩
      · intro i hi; exact hfp i (by simp [hi])

theorem lt_of_get {hp : Heap H} {i : Nat} {x : PolNode H} (h : hp[i]? = some x) : i < hp.size := by
  rcases Nat.lt_or_ge i hp.size with h' | h'
  · exact h'
  · rw [Array.getElem?_eq_none h'] at h; cases h

/-- every footprint node exists in the heap -/
theorem Sub.fp_lt {hp : Heap H} {n holder : Nat} {t : CTree H} {fp : List Nat}
    {lv : List (H × Nat)} (h : Sub hp n holder t fp lv) : ∀ i ∈ fp, i < hp.size := by
  induction h with
  | leaf => intro i hi; cases hi
  | @node n holder l r nn hn0 ln rn a b fa fb la lb h1 h2 h3 h4 h5 h6 h7 h8 h9 sa sb iha ihb =>
    intro i hi
    simp only [List.mem_cons, List.mem_append] at hi
    rcases hi with rfl | rfl | hi | hi
    · exact lt_of_get h6
    · exact lt_of_get h7
    · exact iha i hi
    · exact ihb i hi

theorem Sub.hash {hp : Heap H} {n holder : Nat} {t : CTree H} {fp : List Nat}
    {lv : List (H × Nat)} (h : Sub hp n holder t fp lv) : ∃ nn, hp[n]? = some nn ∧ nn.data = t.hash := by
  cases h with
  | leaf h1 h2 => exact ⟨_, h1, h2⟩
  | node h1 h2 => exact ⟨_, h1, h2⟩

/-- the leaves listed are the leaves of the tree, in order -/
theorem Sub.leaves {hp : Heap H} {n holder : Nat} {t : CTree H} {fp : List Nat}
    {lv : List (H × Nat)} (h : Sub hp n holder t fp lv) : lv.map (·.1) = t.leaves := by
  induction h with
  | leaf => simp [CTree.leaves]
  | node _ _ _ _ _ _ _ _ _ _ _ iha ihb => simp [CTree.leaves, iha, ihb]

/-- a leaf index is the node itself or in the footprint, and carries that hash -/
theorem Sub.leaf_mem {hp : Heap H} {n holder : Nat} {t : CTree H} {fp : List Nat}
    {lv : List (H × Nat)} (h : Sub hp n holder t fp lv) :
    ∀ e ∈ lv, (e.2 = n ∨ e.2 ∈ fp) ∧ ∃ x, hp[e.2]? = some x ∧ x.data = e.1 := by
  induction h with
  | leaf h1 h2 => intro e he; simp at he; subst he; exact ⟨Or.inl rfl, _, h1, h2⟩
  | @node n holder l r nn hn0 ln rn a b fa fb la lb h1 h2 h3 h4 h5 h6 h7 h8 h9 sa sb iha ihb =>
    intro e he
    rw [List.mem_append] at he
    rcases he with he | he
    · obtain ⟨h1, h2⟩ := iha e he
      refine ⟨Or.inr ?_, h2⟩
      rcases h1 with h1 | h1 <;> simp [h1]
    · obtain ⟨h1, h2⟩ := ihb e he
      refine ⟨Or.inr ?_, h2⟩
      rcases h1 with h1 | h1 <;> simp [h1]

/-- Re-homing: the children of `n` hung off `h`; in `hp'` the niece pointers of `h'` are those
`h` had, the two nieces point back to `h'`, everything else below is untouched. -/
theorem Sub.rehome {hp hp' : Heap H} {n h h' : Nat} {t : CTree H} {fp : List Nat}
    {lv : List (H × Nat)} (hs : Sub hp n h t fp lv) (nd : fp.Nodup)
    (hn : ∀ nn, hp[n]? = some nn → ∃ nn', hp'[n]? = some nn' ∧ nn'.data = nn.data)
    (hh : ∀ hn, hp[h]? = some hn → ∃ hn', hp'[h']? = some hn' ∧
      hn'.lNiece = hn.lNiece ∧ hn'.rNiece = hn.rNiece)
    (htop : ∀ hn i old, hp[h]? = some hn → (hn.lNiece = some i ∨ hn.rNiece = some i) →
      hp[i]? = some old → hp'[i]? = some { old with aunt := some h' })
    (hrest : ∀ hn i, hp[h]? = some hn → i ∈ fp → hn.lNiece ≠ some i → hn.rNiece ≠ some i →
      hp'[i]? = hp[i]?) : Sub hp' n h' t fp lv := by
  cases hs with
  | leaf h1 h2 h3 h4 h5 =>
    obtain ⟨nn', e1, e2⟩ := hn _ h1
    obtain ⟨hn', e3, e4, e5⟩ := hh _ h3
    exact Sub.leaf e1 (e2.trans h2) e3 (e4.trans h4) (e5.trans h5)
  | node h1 h2 h3 h4 h5 h6 h7 h8 h9 sa sb =>
    rename_i l r nn hn0 ln rn a b fa fb la lb
    obtain ⟨nn', e1, e2⟩ := hn _ h1
    obtain ⟨hn', e3, e4, e5⟩ := hh _ h3
    have el := htop hn0 l ln h3 (Or.inl h4) h6
    have er := htop hn0 r rn h3 (Or.inr h5) h7
    simp only [List.nodup_cons, List.mem_cons, List.mem_append, not_or, List.nodup_append] at nd
    obtain ⟨⟨hlr, hlfa, hlfb⟩, ⟨hrfa, hrfb⟩, nda, ndb, hdisj⟩ := nd
    have hother : ∀ i, i ∈ fa ∨ i ∈ fb → hp'[i]? = hp[i]? := by
      intro i hi
      apply hrest hn0 i h3 (by simp; rcases hi with hi | hi <;> simp [hi])
      · rw [h4]; intro e; cases e; rcases hi with hi | hi
        · exact hlfa hi
        · exact hlfb hi
      · rw [h5]; intro e; cases e; rcases hi with hi | hi
        · exact hrfa hi
        · exact hrfb hi
    refine Sub.node e1 (e2.trans h2) e3 (e4.trans h4) (e5.trans h5) el er rfl rfl ?_ ?_
    · apply sa.frame
      · intro x hx; rw [h6] at hx; cases hx; exact ⟨_, el, rfl⟩
      · intro x hx; rw [h7] at hx; cases hx; exact ⟨_, er, rfl, rfl⟩
      · intro i hi; exact hother i (Or.inl hi)
    · apply sb.frame
      · intro x hx; rw [h7] at hx; cases hx; exact ⟨_, er, rfl⟩
      · intro x hx; rw [h6] at hx; cases hx; exact ⟨_, el, rfl, rfl⟩
      · intro i hi; exact hother i (Or.inr hi)

/-! ### 3. `updateAunt` -/

/-- `updateAunt` does nothing when the first niece it looks at already points back -/
theorem updateAunt_settled (fuel n : Nat) (nn : PolNode H) (s : Pollard H) (h : s.heap[n]? = some nn)
    (hl : ∀ l, nn.lNiece = some l → ∃ ln, s.heap[l]? = some ln ∧ ln.aunt = some n)
    (hr : nn.lNiece = none → ∀ r, nn.rNiece = some r → ∃ rn, s.heap[r]? = some rn ∧ rn.aunt = some n) :
    updateAunt (fuel + 1) (some n) s = (.ok (), s) := by
  unfold updateAunt
  cases hL : nn.lNiece with
  | some l =>
    obtain ⟨ln, e1, e2⟩ := hl l hL
    simp [h, hL, e1, e2]
  | none =>
    cases hR : nn.rNiece with
    | some r =>
      obtain ⟨rn, e1, e2⟩ := hr hL r hR
      simp [h, hL, hR, e1, e2]
    | none => simp [h, hL, hR]

/-- `x.aunt = a` -/
def setAunt (hp : Heap H) (i a : Nat) : Heap H := hp.modify i (fun x => { x with aunt := some a })

theorem getElem?_setAunt (hp : Heap H) (i a j : Nat) :
    (setAunt hp i a)[j]? = if i = j then (hp[j]?).map (fun x => { x with aunt := some a }) else hp[j]? := by
  unfold setAunt; rw [Array.getElem?_modify]

@[simp] theorem size_setAunt (hp : Heap H) (i a : Nat) : (setAunt hp i a).size = hp.size := by
  unfold setAunt; simp

/-- both nieces point elsewhere, the grand-nieces already point back: `updateAunt` redirects
exactly the two nieces -/
theorem updateAunt_two (fuel n l r : Nat) (nn ln rn : PolNode H) (s : Pollard H)
    (h : s.heap[n]? = some nn) (hL : nn.lNiece = some l) (hR : nn.rNiece = some r)
    (el : s.heap[l]? = some ln) (er : s.heap[r]? = some rn)
    (hlr : l ≠ r) (hln : l ≠ n) (hrn : r ≠ n)
    (al : ln.aunt ≠ some n) (ar : rn.aunt ≠ some n)
    (gl1 : ∀ y, ln.lNiece = some y → y ≠ l ∧ y ≠ r ∧ ∃ yn, s.heap[y]? = some yn ∧ yn.aunt = some l)
    (gl2 : ln.lNiece = none → ln.rNiece = none)
    (gr1 : ∀ y, rn.lNiece = some y → y ≠ l ∧ y ≠ r ∧ ∃ yn, s.heap[y]? = some yn ∧ yn.aunt = some r)
    (gr2 : rn.lNiece = none → rn.rNiece = none) :
    updateAunt (fuel + 2) (some n) s =
      (.ok (), { s with heap := setAunt (setAunt s.heap l n) r n }) := by
  have e1 : updateAunt (fuel + 1) (some l) { s with heap := setAunt s.heap l n } =
      (.ok (), { s with heap := setAunt s.heap l n }) := by
    apply updateAunt_settled fuel l { ln with aunt := some n }
    · simp [getElem?_setAunt, el]
    · intro y hy
      obtain ⟨h1, h2, yn, h3, h4⟩ := gl1 y hy
      exact ⟨yn, by simp [getElem?_setAunt, Ne.symm h1, h3], h4⟩
    · intro hnone r' hr'
      have := gl2 hnone
      simp at hr'; rw [this] at hr'; cases hr'
  have e2 : updateAunt (fuel + 1) (some r) { s with heap := setAunt (setAunt s.heap l n) r n } =
      (.ok (), { s with heap := setAunt (setAunt s.heap l n) r n }) := by
    apply updateAunt_settled fuel r { rn with aunt := some n }
    · simp [getElem?_setAunt, er, hlr]
    · intro y hy
      obtain ⟨h1, h2, yn, h3, h4⟩ := gr1 y hy
      exact ⟨yn, by simp [getElem?_setAunt, Ne.symm h1, Ne.symm h2, h3], h4⟩
    · intro hnone r' hr'
      have := gr2 hnone
      simp at hr'; rw [this] at hr'; cases hr'
  unfold setAunt at e1 e2
  rw [updateAunt]
  simp [h, hL, hR, el, er, al, ar, e1, e2, Array.getElem?_modify, hln, hrn, hlr, setAunt]

/-- `j` is a niece of `n` -/
def kidOf (hp : Heap H) (n j : Nat) : Bool :=
  match hp[n]? with
  | some nn => nn.lNiece == some j || nn.rNiece == some j
  | none => false

/-- redirect the aunt pointer of every niece of `n` to `n` -/
def setAuntKids (hp : Heap H) (n : Nat) : Heap H :=
  match hp[n]? with
  | some nn =>
    let hp1 := match nn.lNiece with
      | some l => setAunt hp l n
      | none => hp
    match nn.rNiece with
    | some r => setAunt hp1 r n
    | none => hp1
  | none => hp

theorem getElem?_setAuntKids (hp : Heap H) (n j : Nat) :
    (setAuntKids hp n)[j]? =
      if kidOf hp n j then (hp[j]?).map (fun x => { x with aunt := some n }) else hp[j]? := by
  unfold setAuntKids kidOf
  cases hn : hp[n]? with
  | none => simp
  | some nn =>
    obtain ⟨lN, rN, au, d, rem⟩ := nn
    rcases lN with _ | l <;> rcases rN with _ | r <;> simp [getElem?_setAunt]
    by_cases h1 : l = j <;> by_cases h2 : r = j <;> simp [h1, h2]
    cases hp[j]? <;> simp

@[simp] theorem size_setAuntKids (hp : Heap H) (n : Nat) : (setAuntKids hp n).size = hp.size := by
  unfold setAuntKids
  cases hp[n]? with
  | none => rfl
  | some nn =>
    obtain ⟨lN, rN, au, d, rem⟩ := nn
    rcases lN with _ | l <;> rcases rN with _ | r <;> simp

/-- the nieces of `n` are absent, or a pair pointing elsewhere whose own nieces (the
grand-nieces) already point back -/
def Unsettled (hp : Heap H) (n : Nat) : Prop :=
  ∃ nn, hp[n]? = some nn ∧
    ((nn.lNiece = none ∧ nn.rNiece = none) ∨
     ∃ l r ln rn, nn.lNiece = some l ∧ nn.rNiece = some r ∧ hp[l]? = some ln ∧ hp[r]? = some rn ∧
       l ≠ r ∧ l ≠ n ∧ r ≠ n ∧ ln.aunt ≠ some n ∧ rn.aunt ≠ some n ∧
       (∀ y, ln.lNiece = some y → y ≠ l ∧ y ≠ r ∧ ∃ yn, hp[y]? = some yn ∧ yn.aunt = some l) ∧
       (ln.lNiece = none → ln.rNiece = none) ∧
       (∀ y, rn.lNiece = some y → y ≠ l ∧ y ≠ r ∧ ∃ yn, hp[y]? = some yn ∧ yn.aunt = some r) ∧
       (rn.lNiece = none → rn.rNiece = none))

theorem updateAunt_unsettled (fuel n : Nat) (s : Pollard H) (h : Unsettled s.heap n) :
    updateAunt (fuel + 2) (some n) s = (.ok (), { s with heap := setAuntKids s.heap n }) := by
  obtain ⟨nn, hn, h⟩ := h
  rcases h with ⟨h1, h2⟩ | ⟨l, r, ln, rn, hL, hR, el, er, hlr, hln, hrn, al, ar, gl1, gl2, gr1, gr2⟩
  · rw [updateAunt_settled (fuel + 1) n nn s hn (by simp [h1]) (by simp [h2])]
    simp [setAuntKids, hn, h1, h2]
  · rw [updateAunt_two fuel n l r nn ln rn s hn hL hR el er hlr hln hrn al ar gl1 gl2 gr1 gr2]
    simp [setAuntKids, hn, hL, hR]

theorem updateAunt_unsettled' (fuel n : Nat) (s : Pollard H) (hp : Heap H) (hs : s.heap = hp)
    (h : Unsettled hp n) :
    updateAunt (fuel + 2) (some n) s = (.ok (), { s with heap := setAuntKids hp n }) := by
  subst hs; exact updateAunt_unsettled fuel n s h

/-- what a well-formed subtree gives to the node that takes over its niece pointers -/
theorem Sub.unsettled {hp hpA : Heap H} {n h h' : Nat} {t : CTree H} {fp : List Nat}
    {lv : List (H × Nat)} {x : PolNode H} (hs : Sub hp n h t fp lv) (nd : fp.Nodup)
    (hh' : h' ∉ fp) (hne : h ≠ h') (ex : hpA[h']? = some x)
    (exl : ∀ hn, hp[h]? = some hn → x.lNiece = hn.lNiece ∧ x.rNiece = hn.rNiece)
    (agree : ∀ i ∈ fp, hpA[i]? = hp[i]?) : Unsettled hpA h' := by
  refine ⟨x, ex, ?_⟩
  cases hs with
  | leaf h1 h2 h3 h4 h5 =>
    left
    obtain ⟨e1, e2⟩ := exl _ h3
    exact ⟨e1.trans h4, e2.trans h5⟩
  | node h1 h2 h3 h4 h5 h6 h7 h8 h9 sa sb =>
    rename_i l r nn hn0 ln rn a b fa fb la lb
    right
    obtain ⟨e1, e2⟩ := exl _ h3
    simp only [List.nodup_cons, List.mem_cons, List.mem_append, not_or, List.nodup_append] at nd
    obtain ⟨⟨hlr, hlfa, hlfb⟩, ⟨hrfa, hrfb⟩, nda, ndb, hdisj⟩ := nd
    simp only [List.mem_cons, List.mem_append, not_or] at hh'
    obtain ⟨hl', hr', hfa', hfb'⟩ := hh'
    refine ⟨l, r, ln, rn, e1.trans h4, e2.trans h5, (agree l (by simp)).trans h6,
      (agree r (by simp)).trans h7, hlr, Ne.symm hl', Ne.symm hr', ?_, ?_, ?_, ?_, ?_, ?_⟩
    · rw [h8]; intro e; cases e; exact hne rfl
    · rw [h9]; intro e; cases e; exact hne rfl
    · -- l's nieces are the children of r: `sb : Sub hp r l b fb lb`
      intro y hy
      cases sb with
      | leaf g1 g2 g3 g4 g5 => rw [h6] at g3; cases g3; rw [g4] at hy; cases hy
      | node g1 g2 g3 g4 g5 g6 g7 g8 g9 =>
        rw [h6] at g3; cases g3; rw [g4] at hy; cases hy
        refine ⟨?_, ?_, _, (agree y (by simp)).trans g6, g8⟩
        · intro e; exact hlfb (by rw [← e]; simp)
        · intro e; exact hrfb (by rw [← e]; simp)
    · intro hnone
      cases sb with
      | leaf g1 g2 g3 g4 g5 => rw [h6] at g3; cases g3; exact g5
      | node g1 g2 g3 g4 g5 => rw [h6] at g3; cases g3; rw [g4] at hnone; cases hnone
    · intro y hy
      cases sa with
      | leaf g1 g2 g3 g4 g5 => rw [h7] at g3; cases g3; rw [g4] at hy; cases hy
      | node g1 g2 g3 g4 g5 g6 g7 g8 g9 =>
        rw [h7] at g3; cases g3; rw [g4] at hy; cases hy
        refine ⟨?_, ?_, _, (agree y (by simp)).trans g6, g8⟩
        · intro e; exact hlfa (by rw [← e]; simp)
        · intro e; exact hrfa (by rw [← e]; simp)
    · intro hnone
      cases sa with
      | leaf g1 g2 g3 g4 g5 => rw [h7] at g3; cases g3; exact g5
      | node g1 g2 g3 g4 g5 => rw [h7] at g3; cases g3; rw [g4] at hnone; cases hnone

/-! ### 4. one merge step of `calculateNewRoot` -/

/-- the four assignments of `swapNieces(a, b)` -/
def swapRaw (hp : Heap H) (a b : Nat) (an bn : PolNode H) : Heap H :=
  (((hp.modify a (fun x => { x with lNiece := bn.lNiece })).modify a
    (fun x => { x with rNiece := bn.rNiece })).modify b
    (fun x => { x with lNiece := an.lNiece })).modify b (fun x => { x with rNiece := an.rNiece })

theorem getElem?_swapRaw {hp : Heap H} {a b : Nat} {an bn : PolNode H} (hab : a ≠ b)
    (ha : hp[a]? = some an) (hb : hp[b]? = some bn) (j : Nat) :
    (swapRaw hp a b an bn)[j]? =
      if j = a then some { an with lNiece := bn.lNiece, rNiece := bn.rNiece }
      else if j = b then some { bn with lNiece := an.lNiece, rNiece := an.rNiece }
      else hp[j]? := by
  unfold swapRaw
  simp only [Array.getElem?_modify]
  by_cases h1 : j = a
  · subst h1; simp [hab, Ne.symm hab, ha]
  · by_cases h2 : j = b
    · subst h2; simp [hab, Ne.symm hab, hb]
    · simp [h1, h2, Ne.symm h1, Ne.symm h2]

@[simp] theorem size_swapRaw (hp : Heap H) (a b : Nat) (an bn : PolNode H) :
    (swapRaw hp a b an bn).size = hp.size := by
  unfold swapRaw; simp

/-- the heap after `swapNieces(root, nd)` -/
def swapped (hp : Heap H) (root nd : Nat) (rn nn : PolNode H) : Heap H :=
  setAuntKids (setAuntKids (swapRaw hp root nd rn nn) root) nd

@[simp] theorem size_swapped (hp : Heap H) (root nd : Nat) (rn nn : PolNode H) :
    (swapped hp root nd rn nn).size = hp.size := by unfold swapped; simp

/-- `swapNieces(a, b)` when both `updateAunt` calls find unsettled nieces with settled
grand-nieces (the situation on well-formed roots) -/
theorem swapNieces_exec (s : Pollard H) (a b : Nat) (an bn : PolNode H)
    (ha : s.heap[a]? = some an) (hb : s.heap[b]? = some bn)
    (u1 : Unsettled (swapRaw s.heap a b an bn) a)
    (u2 : Unsettled (setAuntKids (swapRaw s.heap a b an bn) a) b) :
    swapNieces (some a) (some b) s = (.ok (), { s with heap := swapped s.heap a b an bn }) := by
  have hsz : ∃ k, s.heap.size = k + 1 := ⟨s.heap.size - 1, by have := lt_of_get ha; omega⟩
  obtain ⟨k, hk⟩ := hsz
  have e1 := updateAunt_unsettled k a { s with heap := swapRaw s.heap a b an bn } u1
  have e2 := updateAunt_unsettled k b
    { s with heap := setAuntKids (swapRaw s.heap a b an bn) a } u2
  unfold swapNieces updateAunt'
  simp only [bind_apply, deref_some, node_apply, ha, hb, setNode_apply, heapSize_apply,
    Array.size_modify, hk]
  unfold swapRaw at e1 e2
  simp only [] at e1 e2
  rw [e1]
  simp only [size_setAuntKids, Array.size_modify, hk]
  rw [e2]
  rfl

/-- `prune` of a node both of whose nieces exist and one of them is to be remembered -/
theorem prune_noop (s : Pollard H) (n l r : Nat) (nn ln rn : PolNode H)
    (hn : s.heap[n]? = some nn) (hL : nn.lNiece = some l) (hR : nn.rNiece = some r)
    (el : s.heap[l]? = some ln) (er : s.heap[r]? = some rn)
    (hrem : ln.remember = true ∨ rn.remember = true) : prune (some n) s = (.ok (), s) := by
  unfold prune deadEnd rd
  by_cases h1 : ln.remember = true
  · simp [hn, hL, hR, el, er, h1]
  · have h2 : rn.remember = true := by rcases hrem with h | h; exact absurd h h1; exact h
    simp [hn, hL, hR, el, er, h1, h2]

theorem prune_noop' (s : Pollard H) (hp : Heap H) (hs : s.heap = hp) (n l r : Nat) (nn ln rn : PolNode H)
    (hn : hp[n]? = some nn) (hL : nn.lNiece = some l) (hR : nn.rNiece = some r)
    (el : hp[l]? = some ln) (er : hp[r]? = some rn)
    (hrem : ln.remember = true ∨ rn.remember = true) : prune (some n) s = (.ok (), s) := by
  subst hs; exact prune_noop s n l r nn ln rn hn hL hR el er hrem

/-- the node `calculateNewRoot` allocates for a merge, after `remember` was set -/
def newRootNode (rn nn : PolNode H) (root nd : Nat) : PolNode H :=
  { data := ph rn.data nn.data, lNiece := some root, rNiece := some nd, aunt := none, remember := true }

/-- the heap after one merge step of `calculateNewRoot` (root `root` popped, carried node `nd`) -/
def mergeHeap (hp : Heap H) (root nd : Nat) (rn nn : PolNode H) : Heap H :=
  let hpC := setAuntKids (setAuntKids (swapRaw hp root nd rn nn) root) nd
  let hpD := hpC.push { data := ph rn.data nn.data, lNiece := some root, rNiece := some nd }
  let hpE := hpD.modify hp.size (fun x => { x with remember := true })
  setAuntKids hpE hp.size

/-- `j` is a niece of the node value `x` -/
def isKid (x : PolNode H) (j : Nat) : Prop := x.lNiece = some j ∨ x.rNiece = some j

instance (x : PolNode H) (j : Nat) : Decidable (isKid x j) := by unfold isKid; infer_instance

theorem kidOf_eq {hp : Heap H} {n : Nat} {x : PolNode H} (h : hp[n]? = some x) (j : Nat) :
    kidOf hp n j = decide (isKid x j) := by
  unfold kidOf isKid; simp only [h]
  by_cases h1 : x.lNiece = some j <;> by_cases h2 : x.rNiece = some j <;> simp [h1, h2]

/-- the heap after `swapNieces(root, nd)`, node by node; also the niece sets seen by the two
`updateAunt` calls -/
theorem getElem?_swapped {hp : Heap H} {root nd : Nat} {rn nn : PolNode H}
    (hne : root ≠ nd) (hr : hp[root]? = some rn) (hn : hp[nd]? = some nn)
    (kR : ∀ j, isKid rn j → j ≠ root ∧ j ≠ nd ∧ ¬ isKid nn j)
    (kN : ∀ j, isKid nn j → j ≠ root ∧ j ≠ nd) (j : Nat) :
    (swapped hp root nd rn nn)[j]? =
      if j = root then some { rn with lNiece := nn.lNiece, rNiece := nn.rNiece }
      else if j = nd then some { nn with lNiece := rn.lNiece, rNiece := rn.rNiece }
      else if isKid rn j then (hp[j]?).map (fun x => { x with aunt := some nd })
      else if isKid nn j then (hp[j]?).map (fun x => { x with aunt := some root })
      else hp[j]? := by
  have eA := getElem?_swapRaw hne hr hn
  have kB : ∀ j, kidOf (swapRaw hp root nd rn nn) root j = decide (isKid nn j) := by
    intro j
    rw [kidOf_eq (x := { rn with lNiece := nn.lNiece, rNiece := nn.rNiece }) (by rw [eA]; simp)]
    simp [isKid]
  have eB : ∀ j, (setAuntKids (swapRaw hp root nd rn nn) root)[j]? =
      if isKid nn j then ((swapRaw hp root nd rn nn)[j]?).map (fun x => { x with aunt := some root })
      else (swapRaw hp root nd rn nn)[j]? := by
    intro j; rw [getElem?_setAuntKids, kB]; simp
  have hBnd : (setAuntKids (swapRaw hp root nd rn nn) root)[nd]? =
      some { nn with lNiece := rn.lNiece, rNiece := rn.rNiece } := by
    rw [eB, if_neg (fun h => (kN nd h).2 rfl), eA, if_neg (Ne.symm hne), if_pos rfl]
  have kC : ∀ j, kidOf (setAuntKids (swapRaw hp root nd rn nn) root) nd j = decide (isKid rn j) := by
    intro j
    rw [kidOf_eq hBnd]
    simp [isKid]
  unfold swapped
  rw [getElem?_setAuntKids, kC, eB, eA]
  by_cases h1 : j = root
  · subst h1
    have n1 : ¬ isKid rn j := fun h => (kR j h).1 rfl
    have n2 : ¬ isKid nn j := fun h => (kN j h).1 rfl
    simp [n1, n2]
  · by_cases h2 : j = nd
    · subst h2
      have n1 : ¬ isKid rn j := fun h => (kR j h).2.1 rfl
      have n2 : ¬ isKid nn j := fun h => (kN j h).2 rfl
      simp [n1, n2, h1]
    · by_cases h3 : isKid rn j
      · have n2 : ¬ isKid nn j := (kR j h3).2.2
        simp [h3, n2, h1, h2]
      · simp [h3, h1, h2]

/-- the merged heap, node by node -/
theorem getElem?_mergeHeap {hp : Heap H} {root nd : Nat} {rn nn : PolNode H}
    (hne : root ≠ nd) (hr : hp[root]? = some rn) (hn : hp[nd]? = some nn)
    (kR : ∀ j, isKid rn j → j ≠ root ∧ j ≠ nd ∧ ¬ isKid nn j)
    (kN : ∀ j, isKid nn j → j ≠ root ∧ j ≠ nd) (j : Nat) :
    (mergeHeap hp root nd rn nn)[j]? =
      if j = hp.size then some (newRootNode rn nn root nd)
      else if j = root then
        some { rn with lNiece := nn.lNiece, rNiece := nn.rNiece, aunt := some hp.size }
      else if j = nd then
        some { nn with lNiece := rn.lNiece, rNiece := rn.rNiece, aunt := some hp.size }
      else if isKid rn j then (hp[j]?).map (fun x => { x with aunt := some nd })
      else if isKid nn j then (hp[j]?).map (fun x => { x with aunt := some root })
      else hp[j]? := by
  have hrs := lt_of_get hr
  have hns := lt_of_get hn
  have eC := getElem?_swapped hne hr hn kR kN
  unfold mergeHeap
  simp only []
  change (setAuntKids (((swapped hp root nd rn nn).push
      { data := ph rn.data nn.data, lNiece := some root, rNiece := some nd }).modify hp.size
      (fun x => { x with remember := true })) hp.size)[j]? = _
  have hE : ∀ j, (((swapped hp root nd rn nn).push
      { data := ph rn.data nn.data, lNiece := some root, rNiece := some nd }).modify hp.size
      (fun x => { x with remember := true }))[j]? =
      if j = hp.size then some (newRootNode rn nn root nd)
      else (swapped hp root nd rn nn)[j]? := by
    intro j
    rw [Array.getElem?_modify, Array.getElem?_push, size_swapped]
    by_cases hj : j = hp.size
    · subst hj; simp [newRootNode]
    · simp [hj, Ne.symm hj]
  have kF : ∀ j, kidOf (((swapped hp root nd rn nn).push
      { data := ph rn.data nn.data, lNiece := some root, rNiece := some nd }).modify hp.size
      (fun x => { x with remember := true })) hp.size j = decide (j = root ∨ j = nd) := by
    intro j
    rw [kidOf_eq (x := newRootNode rn nn root nd) (by rw [hE]; simp)]
    simp [isKid, newRootNode, eq_comm]
  rw [getElem?_setAuntKids, kF, hE]
  by_cases h0 : j = hp.size
  · subst h0
    have : ¬ (hp.size = root ∨ hp.size = nd) := by omega
    simp [this]
  · simp only [h0, if_false]
    rw [eC]
    by_cases h1 : j = root
    · subst h1; simp
    · by_cases h2 : j = nd
      · subst h2; simp [h1]
      · simp [h1, h2]

/-- the nieces of the holder are in the footprint -/
theorem Sub.kid_mem {hp : Heap H} {n h : Nat} {t : CTree H} {fp : List Nat} {lv : List (H × Nat)}
    {hn : PolNode H} {j : Nat} (hs : Sub hp n h t fp lv) (e : hp[h]? = some hn) (k : isKid hn j) :
    j ∈ fp := by
  cases hs with
  | leaf h1 h2 h3 h4 h5 =>
    rw [e] at h3; cases h3
    rcases k with k | k
    · rw [h4] at k; cases k
    · rw [h5] at k; cases k
  | node h1 h2 h3 h4 h5 =>
    rw [e] at h3; cases h3
    rcases k with k | k
    · rw [h4] at k; cases k; simp
    · rw [h5] at k; cases k; simp

theorem Sub.kid_exists {hp : Heap H} {n h : Nat} {t : CTree H} {fp : List Nat} {lv : List (H × Nat)}
    {hn : PolNode H} {j : Nat} (hs : Sub hp n h t fp lv) (e : hp[h]? = some hn) (k : isKid hn j) :
    ∃ x, hp[j]? = some x ∧ x.aunt = some h := by
  cases hs with
  | leaf h1 h2 h3 h4 h5 =>
    rw [e] at h3; cases h3
    rcases k with k | k
    · rw [h4] at k; cases k
    · rw [h5] at k; cases k
  | node h1 h2 h3 h4 h5 h6 h7 h8 h9 =>
    rw [e] at h3; cases h3
    rcases k with k | k
    · rw [h4] at k; cases k; exact ⟨_, h6, h8⟩
    · rw [h5] at k; cases k; exact ⟨_, h7, h9⟩

theorem Sub.both_or_none {hp : Heap H} {n h : Nat} {t : CTree H} {fp : List Nat} {lv : List (H × Nat)}
    {hn : PolNode H} (hs : Sub hp n h t fp lv) (e : hp[h]? = some hn) :
    hn.lNiece = none → hn.rNiece = none := by
  cases hs with
  | leaf h1 h2 h3 h4 h5 => rw [e] at h3; cases h3; exact fun _ => h5
  | node h1 h2 h3 h4 h5 => rw [e] at h3; cases h3; intro h; rw [h4] at h; cases h

/-- kid facts of two disjoint roots -/
theorem kid_facts {hp : Heap H} {root nd : Nat} {tR tN : CTree H} {fR fN : List Nat}
    {lR lN : List (H × Nat)} {rn nn : PolNode H}
    (sR : Sub hp root root tR fR lR) (sN : Sub hp nd nd tN fN lN)
    (hr : hp[root]? = some rn) (hn : hp[nd]? = some nn)
    (ndp : (root :: nd :: (fR ++ fN)).Nodup) :
    (∀ j, isKid rn j → j ≠ root ∧ j ≠ nd ∧ ¬ isKid nn j) ∧ (∀ j, isKid nn j → j ≠ root ∧ j ≠ nd) := by
  simp only [List.nodup_cons, List.mem_cons, List.mem_append, not_or, List.nodup_append] at ndp
  obtain ⟨⟨hne, hrR, hrN⟩, ⟨hnR, hnN⟩, ndR, ndN, hdisj⟩ := ndp
  constructor
  · intro j k
    have hj := sR.kid_mem hr k
    refine ⟨fun e => hrR (e ▸ hj), fun e => hnR (e ▸ hj), fun k' => ?_⟩
    exact hdisj j hj j (sN.kid_mem hn k') rfl
  · intro j k
    have hj := sN.kid_mem hn k
    exact ⟨fun e => hrN (e ▸ hj), fun e => hnN (e ▸ hj)⟩

/-- **one merge step, on the heap**: two disjoint well-formed roots become the two children of
the freshly allocated root -/
theorem mergeHeap_repr {hp : Heap H} {root nd : Nat} {tR tN : CTree H} {fR fN : List Nat}
    {lR lN : List (H × Nat)} {rn nn : PolNode H}
    (hR : RootRepr hp root tR fR lR) (hN : RootRepr hp nd tN fN lN)
    (hr : hp[root]? = some rn) (hn : hp[nd]? = some nn)
    (ndp : (root :: nd :: (fR ++ fN)).Nodup) :
    RootRepr (mergeHeap hp root nd rn nn) hp.size (.node tR tN) (root :: nd :: (fR ++ fN)) (lR ++ lN) ∧
    (∀ i, i ≠ root → i ≠ nd → i ∉ fR → i ∉ fN → i ≠ hp.size →
      (mergeHeap hp root nd rn nn)[i]? = hp[i]?) ∧
    (∃ x, (mergeHeap hp root nd rn nn)[hp.size]? = some x ∧ x.remember = true) := by
  obtain ⟨⟨rn0, er0, ar0⟩, sR⟩ := hR
  obtain ⟨⟨nn0, en0, an0⟩, sN⟩ := hN
  rw [hr] at er0; cases er0
  rw [hn] at en0; cases en0
  obtain ⟨kR, kN⟩ := kid_facts sR sN hr hn ndp
  have ndp' := ndp
  simp only [List.nodup_cons, List.mem_cons, List.mem_append, not_or, List.nodup_append] at ndp
  obtain ⟨⟨hne, hrR, hrN⟩, ⟨hnR, hnN⟩, ndR, ndN, hdisj⟩ := ndp
  have eM := getElem?_mergeHeap hne hr hn kR kN
  have hrs := lt_of_get hr
  have hns := lt_of_get hn
  have e_size : (mergeHeap hp root nd rn nn)[hp.size]? = some (newRootNode rn nn root nd) := by
    rw [eM]; simp
  have e_root : (mergeHeap hp root nd rn nn)[root]? =
      some { rn with lNiece := nn.lNiece, rNiece := nn.rNiece, aunt := some hp.size } := by
    rw [eM, if_neg (by omega), if_pos rfl]
  have e_nd : (mergeHeap hp root nd rn nn)[nd]? =
      some { nn with lNiece := rn.lNiece, rNiece := rn.rNiece, aunt := some hp.size } := by
    rw [eM, if_neg (by omega), if_neg (Ne.symm hne), if_pos rfl]
  -- the old root's children now hang off `nd`
  have sR' : Sub (mergeHeap hp root nd rn nn) root nd tR fR lR := by
    apply sR.rehome ndR
    · intro x hx; rw [hr] at hx; cases hx; exact ⟨_, e_root, rfl⟩
    · intro x hx; rw [hr] at hx; cases hx; exact ⟨_, e_nd, rfl, rfl⟩
    · intro x i old hx k hi
      rw [hr] at hx; cases hx
      have k' : isKid rn i := k
      obtain ⟨h1, h2, h3⟩ := kR i k'
      have := lt_of_get hi
      rw [eM, if_neg (by omega), if_neg h1, if_neg h2, if_pos k', hi]; rfl
    · intro x i hx hi k1 k2
      rw [hr] at hx; cases hx
      have k' : ¬ isKid rn i := by intro k; rcases k with k | k; exact k1 k; exact k2 k
      have h1 : i ≠ root := fun e => hrR (e ▸ hi)
      have h2 : i ≠ nd := fun e => hnR (e ▸ hi)
      have h3 : ¬ isKid nn i := fun k => hdisj i hi i (sN.kid_mem hn k) rfl
      have := sR.fp_lt i hi
      rw [eM, if_neg (by omega), if_neg h1, if_neg h2, if_neg k', if_neg h3]
  have sN' : Sub (mergeHeap hp root nd rn nn) nd root tN fN lN := by
    apply sN.rehome ndN
    · intro x hx; rw [hn] at hx; cases hx; exact ⟨_, e_nd, rfl⟩
    · intro x hx; rw [hn] at hx; cases hx; exact ⟨_, e_root, rfl, rfl⟩
    · intro x i old hx k hi
      rw [hn] at hx; cases hx
      have k' : isKid nn i := k
      obtain ⟨h1, h2⟩ := kN i k'
      have h3 : ¬ isKid rn i := fun k => (kR i k).2.2 k'
      have := lt_of_get hi
      rw [eM, if_neg (by omega), if_neg h1, if_neg h2, if_neg h3, if_pos k', hi]; rfl
    · intro x i hx hi k1 k2
      rw [hn] at hx; cases hx
      have k' : ¬ isKid nn i := by intro k; rcases k with k | k; exact k1 k; exact k2 k
      have h1 : i ≠ root := fun e => hrN (e ▸ hi)
      have h2 : i ≠ nd := fun e => hnN (e ▸ hi)
      have h3 : ¬ isKid rn i := fun k => hdisj i (sR.kid_mem hr k) i hi rfl
      have := sN.fp_lt i hi
      rw [eM, if_neg (by omega), if_neg h1, if_neg h2, if_neg h3, if_neg k']
  obtain ⟨rn1, er1, dr1⟩ := sR.hash
  obtain ⟨nn1, en1, dn1⟩ := sN.hash
  rw [hr] at er1; cases er1
  rw [hn] at en1; cases en1
  refine ⟨⟨⟨_, e_size, rfl⟩, ?_⟩, ?_, ⟨_, e_size, rfl⟩⟩
  · exact Sub.node e_size (by simp [newRootNode, dr1, dn1]) e_size rfl rfl e_root e_nd rfl rfl sR' sN'
  · intro i h1 h2 h3 h4 h5
    have k1 : ¬ isKid rn i := fun k => h3 (sR.kid_mem hr k)
    have k2 : ¬ isKid nn i := fun k => h4 (sN.kid_mem hn k)
    rw [eM, if_neg h5, if_neg h1, if_neg h2, if_neg k1, if_neg k2]

theorem mergeHeap_def (hp : Heap H) (root nd : Nat) (rn nn : PolNode H) :
    mergeHeap hp root nd rn nn = setAuntKids (((swapped hp root nd rn nn).push
      { data := ph rn.data nn.data, lNiece := some root, rNiece := some nd }).modify hp.size
      (fun x => { x with remember := true })) hp.size := rfl

theorem size_mergeHeap (hp : Heap H) (root nd : Nat) (rn nn : PolNode H) :
    (mergeHeap hp root nd rn nn).size = hp.size + 1 := by
  rw [mergeHeap_def]; simp

attribute [irreducible] mergeHeap swapped

/-- **one merge step, executed**: the loop body of `calculateNewRoot` on two disjoint
well-formed roots is the heap transformation `mergeHeap` -/
theorem loop_merge (fuel h : Nat) (hp : Heap H) (nm : List (H × Nat)) (nl ndl : U64)
    (nd root : Nat) (rs : List Nat) (rn nn : PolNode H)
    {tR tN : CTree H} {fR fN : List Nat} {lR lN : List (H × Nat)}
    (hbit : nl.toNat.testBit h = true)
    (hR : RootRepr hp root tR fR lR) (hN : RootRepr hp nd tN fN lN)
    (hr : hp[root]? = some rn) (hn : hp[nd]? = some nn)
    (ndp : (root :: nd :: (fR ++ fN)).Nodup)
    (hnz : rn.data ≠ zero) (hrem : nn.remember = true) :
    calculateNewRootLoop (fuel + 1) h nd ⟨hp, nm, rs ++ [root], nl, ndl, true⟩ =
      calculateNewRootLoop fuel (h + 1) hp.size
        ⟨mergeHeap hp root nd rn nn, nm, rs, nl, ndl, true⟩ := by
  obtain ⟨⟨rn0, er0, ar0⟩, sR⟩ := hR
  obtain ⟨⟨nn0, en0, an0⟩, sN⟩ := hN
  rw [hr] at er0; cases er0
  rw [hn] at en0; cases en0
  obtain ⟨kR, kN⟩ := kid_facts sR sN hr hn ndp
  have ndp' := ndp
  simp only [List.nodup_cons, List.mem_cons, List.mem_append, not_or, List.nodup_append] at ndp
  obtain ⟨⟨hne, hrR, hrN⟩, ⟨hnR, hnN⟩, ndR, ndN, hdisj⟩ := ndp
  have hrs := lt_of_get hr
  have hns := lt_of_get hn
  have eA := getElem?_swapRaw hne hr hn
  have eC := getElem?_swapped hne hr hn kR kN
  have eM := getElem?_mergeHeap hne hr hn kR kN
  -- the first `updateAunt` of `swapNieces`: `root` took over the nieces of `nd`
  have u1 : Unsettled (swapRaw hp root nd rn nn) root := by
    apply sN.unsettled ndN hrN (Ne.symm hne) (x := { rn with lNiece := nn.lNiece, rNiece := nn.rNiece })
    · rw [eA]; simp
    · intro x hx; rw [hn] at hx; cases hx; exact ⟨rfl, rfl⟩
    · intro i hi
      have h1 : i ≠ root := fun e => hrN (e ▸ hi)
      have h2 : i ≠ nd := fun e => hnN (e ▸ hi)
      rw [eA, if_neg h1, if_neg h2]
  -- the second one: `nd` took over the nieces of `root`
  have u2 : Unsettled (setAuntKids (swapRaw hp root nd rn nn) root) nd := by
    have kB : ∀ j, kidOf (swapRaw hp root nd rn nn) root j = decide (isKid nn j) := by
      intro j
      rw [kidOf_eq (x := { rn with lNiece := nn.lNiece, rNiece := nn.rNiece }) (by rw [eA]; simp)]
      simp [isKid]
    apply sR.unsettled ndR hnR hne (x := { nn with lNiece := rn.lNiece, rNiece := rn.rNiece })
    · rw [getElem?_setAuntKids, kB, eA]
      have : ¬ isKid nn nd := fun k => (kN nd k).2 rfl
      simp [this, Ne.symm hne]
    · intro x hx; rw [hr] at hx; cases hx; exact ⟨rfl, rfl⟩
    · intro i hi
      have : ¬ isKid nn i := fun k => hdisj i hi i (sN.kid_mem hn k) rfl
      have h1 : i ≠ root := fun e => hrR (e ▸ hi)
      have h2 : i ≠ nd := fun e => hnR (e ▸ hi)
      rw [getElem?_setAuntKids, kB, eA]
      simp [this, h1, h2]
  have eSwap := swapNieces_exec (⟨hp, nm, rs, nl, ndl, true⟩ : Pollard H) root nd rn nn hr hn u1 u2
  -- the new root's `updateAunt`
  have hCroot : (swapped hp root nd rn nn)[root]? =
      some { rn with lNiece := nn.lNiece, rNiece := nn.rNiece } := by rw [eC]; simp
  have hCnd : (swapped hp root nd rn nn)[nd]? =
      some { nn with lNiece := rn.lNiece, rNiece := rn.rNiece } := by
    rw [eC, if_neg (Ne.symm hne)]; simp
  obtain ⟨hpE, hpE_def⟩ : ∃ hpE : Heap H, hpE = ((swapped hp root nd rn nn).push
      { data := ph rn.data nn.data, lNiece := some root, rNiece := some nd }).modify hp.size
      (fun x => { x with remember := true }) := ⟨_, rfl⟩
  have hE : ∀ j, hpE[j]? = if j = hp.size then some (newRootNode rn nn root nd)
      else (swapped hp root nd rn nn)[j]? := by
    intro j
    rw [hpE_def, Array.getElem?_modify, Array.getElem?_push, size_swapped]
    by_cases hj : j = hp.size
    · subst hj; simp [newRootNode]
    · simp [hj, Ne.symm hj]
  have u3 : Unsettled hpE hp.size := by
    refine ⟨newRootNode rn nn root nd, by rw [hE]; simp, Or.inr ⟨root, nd, _, _, rfl, rfl,
      by rw [hE, if_neg (by omega), hCroot], by rw [hE, if_neg (by omega), hCnd], hne, by omega,
      by omega, ?_, ?_, ?_, ?_, ?_, ?_⟩⟩
    · simp [ar0]
    · simp [an0]
    · intro y hy
      have k : isKid nn y := Or.inl hy
      obtain ⟨h1, h2⟩ := kN y k
      obtain ⟨x, ex, ax⟩ := sN.kid_exists hn k
      have h3 : ¬ isKid rn y := fun k' => (kR y k').2.2 k
      have := lt_of_get ex
      exact ⟨h1, h2, _, by rw [hE, if_neg (by omega), eC, if_neg h1, if_neg h2, if_neg h3, if_pos k, ex]; rfl, rfl⟩
    · show nn.lNiece = none → nn.rNiece = none
      exact sN.both_or_none hn
    · intro y hy
      have k : isKid rn y := Or.inl hy
      obtain ⟨h1, h2, h3⟩ := kR y k
      obtain ⟨x, ex, ax⟩ := sR.kid_exists hr k
      have := lt_of_get ex
      exact ⟨h1, h2, _, by rw [hE, if_neg (by omega), eC, if_neg h1, if_neg h2, if_pos k, ex]; rfl, rfl⟩
    · show rn.lNiece = none → rn.rNiece = none
      exact sR.both_or_none hr
  have eUpd := updateAunt_unsettled' hp.size hp.size
    (⟨hpE, nm, rs, nl, ndl, true⟩ : Pollard H) hpE rfl u3
  have hF : setAuntKids hpE hp.size = mergeHeap hp root nd rn nn := by
    rw [hpE_def, mergeHeap_def]
  -- `prune`
  have e_size : (mergeHeap hp root nd rn nn)[hp.size]? = some (newRootNode rn nn root nd) := by
    rw [eM]; simp
  have e_root : (mergeHeap hp root nd rn nn)[root]? =
      some { rn with lNiece := nn.lNiece, rNiece := nn.rNiece, aunt := some hp.size } := by
    rw [eM, if_neg (by omega), if_pos rfl]
  have e_nd : (mergeHeap hp root nd rn nn)[nd]? =
      some { nn with lNiece := rn.lNiece, rNiece := rn.rNiece, aunt := some hp.size } := by
    rw [eM, if_neg (by omega), if_neg (Ne.symm hne), if_pos rfl]
  have ePrune := prune_noop' (⟨mergeHeap hp root nd rn nn, nm, rs, nl, ndl, true⟩ : Pollard H)
    (mergeHeap hp root nd rn nn) rfl hp.size root nd _ _ _ e_size rfl rfl e_root e_nd
    (Or.inr hrem)
  -- run the loop body
  rw [calculateNewRootLoop]
  simp only [bind_apply, getNumLeaves_apply, PollardCalcPos.bit_test_eq, hbit, if_true, getRoots_apply,
    List.getLast?_concat, List.dropLast_concat, setRoots_apply, node_apply, hr, hnz, if_false]
  rw [eSwap]
  simp only [node_apply, hCroot, hCnd, alloc_apply, getFull_apply, if_true, setNode_apply,
    bind_apply, updateAunt', heapSize_apply, Array.size_modify, Array.size_push, size_swapped]
  rw [← hpE_def, eUpd]
  simp only [hF]
  rw [ePrune]

theorem loop_done (fuel h nd : Nat) (s : Pollard H) (hbit : s.numLeaves.toNat.testBit h = false) :
    calculateNewRootLoop (fuel + 1) h nd s = (.ok nd, s) := by
  rw [calculateNewRootLoop]
  simp [PollardCalcPos.bit_test_eq, hbit]

theorem loop_skip (fuel h : Nat) (hp : Heap H) (nm : List (H × Nat)) (nl ndl : U64) (f : Bool)
    (nd root : Nat) (rs : List Nat) (rn : PolNode H)
    (hbit : nl.toNat.testBit h = true) (hr : hp[root]? = some rn) (hz : rn.data = zero) :
    calculateNewRootLoop (fuel + 1) h nd ⟨hp, nm, rs ++ [root], nl, ndl, f⟩ =
      calculateNewRootLoop fuel (h + 1) nd ⟨hp, nm, rs, nl, ndl, f⟩ := by
  rw [calculateNewRootLoop]
  simp [PollardCalcPos.bit_test_eq, hbit, hr, hz]

/-! ### 5. lists of roots -/

theorem ReprRoot.frame {hp hp' : Heap H} {r : Nat} {t : Option (CTree H)} {fp : List Nat}
    {lv : List (H × Nat)} (h : ReprRoot hp r t fp lv) (e : ∀ i ∈ r :: fp, hp'[i]? = hp[i]?) :
    ReprRoot hp' r t fp lv := by
  have er := e r (by simp)
  cases t with
  | none =>
    obtain ⟨⟨rn, h1, h2⟩, h3, h4⟩ := h
    exact ⟨⟨rn, er.trans h1, h2⟩, h3, h4⟩
  | some t =>
    obtain ⟨⟨rn, h1, h2⟩, hs⟩ := h
    refine ⟨⟨rn, er.trans h1, h2⟩, hs.frame ?_ ?_ ?_⟩
    · intro x hx; exact ⟨x, er.trans hx, rfl⟩
    · intro x hx; exact ⟨x, er.trans hx, rfl, rfl⟩
    · intro i hi; exact e i (by simp [hi])

theorem ReprRoot.lt {hp : Heap H} {r : Nat} {t : Option (CTree H)} {fp : List Nat}
    {lv : List (H × Nat)} (h : ReprRoot hp r t fp lv) : ∀ i ∈ r :: fp, i < hp.size := by
  intro i hi
  cases t with
  | none =>
    obtain ⟨⟨rn, h1, h2⟩, h3, h4⟩ := h
    subst h3
    simp at hi; subst hi; exact lt_of_get h1
  | some t =>
    obtain ⟨⟨rn, h1, h2⟩, hs⟩ := h
    simp at hi
    rcases hi with rfl | hi
    · exact lt_of_get h1
    · exact hs.fp_lt i hi

theorem ReprRoots.frame {hp hp' : Heap H} {rs : List Nat} {ts : List (Option (CTree H))}
    {owned : List Nat} {lv : List (H × Nat)} (h : ReprRoots hp rs ts owned lv)
    (e : ∀ i ∈ owned, hp'[i]? = hp[i]?) : ReprRoots hp' rs ts owned lv := by
  induction h with
  | nil => exact ReprRoots.nil
  | cons h1 h2 ih =>
    refine ReprRoots.cons (h1.frame ?_) (ih ?_)
    · intro i hi; apply e; simp at hi ⊢; rcases hi with h | h <;> simp [h]
    · intro i hi; apply e; simp [hi]

theorem ReprRoots.lt {hp : Heap H} {rs : List Nat} {ts : List (Option (CTree H))}
    {owned : List Nat} {lv : List (H × Nat)} (h : ReprRoots hp rs ts owned lv) :
    ∀ i ∈ owned, i < hp.size := by
  induction h with
  | nil => intro i hi; cases hi
  | cons h1 h2 ih =>
    intro i hi
    simp only [List.cons_append, List.mem_cons, List.mem_append] at hi
    rcases hi with rfl | hi | hi
    · exact h1.lt _ (by simp)
    · exact h1.lt _ (by simp [hi])
    · exact ih i hi

theorem ReprRoots.length_eq {hp : Heap H} {rs : List Nat} {ts : List (Option (CTree H))}
    {owned : List Nat} {lv : List (H × Nat)} (h : ReprRoots hp rs ts owned lv) :
    rs.length = ts.length := by
  induction h with
  | nil => rfl
  | cons _ _ ih => simp [ih]

theorem ReprRoots.append {hp : Heap H} {rs1 rs2 : List Nat} {ts1 ts2 : List (Option (CTree H))}
    {o1 o2 : List Nat} {l1 l2 : List (H × Nat)} (h1 : ReprRoots hp rs1 ts1 o1 l1)
    (h2 : ReprRoots hp rs2 ts2 o2 l2) : ReprRoots hp (rs1 ++ rs2) (ts1 ++ ts2) (o1 ++ o2) (l1 ++ l2) := by
  induction h1 with
  | nil => simpa using h2
  | cons a b ih =>
    have := ReprRoots.cons a ih
    simpa [List.append_assoc] using this

theorem ReprRoots.append_inv {hp : Heap H} : ∀ {ts1 ts2 : List (Option (CTree H))} {rs owned : List Nat}
    {lv : List (H × Nat)}, ReprRoots hp rs (ts1 ++ ts2) owned lv →
    ∃ rs1 rs2 o1 o2 l1 l2, rs = rs1 ++ rs2 ∧ owned = o1 ++ o2 ∧ lv = l1 ++ l2 ∧
      ReprRoots hp rs1 ts1 o1 l1 ∧ ReprRoots hp rs2 ts2 o2 l2 := by
  intro ts1
  induction ts1 with
  | nil =>
    intro ts2 rs owned lv h
    exact ⟨[], rs, [], owned, [], lv, rfl, rfl, rfl, ReprRoots.nil, h⟩
  | cons t ts1 ih =>
    intro ts2 rs owned lv h
    cases h with
    | cons a b =>
      obtain ⟨rs1, rs2, o1, o2, l1, l2, e1, e2, e3, h1, h2⟩ := ih b
      subst e1 e2 e3
      exact ⟨_ :: rs1, rs2, _ :: _ ++ o1, o2, _ ++ l1, l2, rfl, by simp, by simp,
        ReprRoots.cons a h1, h2⟩

theorem ReprRoots.single_inv {hp : Heap H} {t : Option (CTree H)} {rs owned : List Nat}
    {lv : List (H × Nat)} (h : ReprRoots hp rs [t] owned lv) :
    ∃ r fp, rs = [r] ∧ owned = r :: fp ∧ ReprRoot hp r t fp lv := by
  cases h with
  | cons a b =>
    cases b
    rename_i r fp lv
    exact ⟨r, fp, rfl, by simp, by simpa using a⟩

theorem ReprRoots.single {hp : Heap H} {t : Option (CTree H)} {r : Nat} {fp : List Nat}
    {lv : List (H × Nat)} (h : ReprRoot hp r t fp lv) : ReprRoots hp [r] [t] (r :: fp) lv := by
  have := ReprRoots.cons h ReprRoots.nil
  simpa using this

end UtreexoVerif.Proofs.PollardHeap
