/-
  Pointer forest, heap model (`Model/PollardHeap.lean`): the representation predicates.

  * `Sub hp n holder t fp lv`: node `n` carries the collapsed tree `t`; the children of `n`
    hang off `holder` (= `n`'s sibling, or `n` itself for a root), `fp` are the descendants of
    `n` (its footprint, `n` excluded), `lv` the leaves of `t` with their heap indexes;
  * `ReprRoot` / `ReprRoots`: a root (resp. the list of roots) represents an optional
    collapsed tree (`none` = empty root) (resp. a list of them);
  * `MapOK`: `NodeMap` of a full pollard = exactly the leaves, keys distinct;
  * `WF p`: the structural well-formedness invariant; `Abs p F`: heap `p` represents the
    specification forest `F` up to `Spec.Equiv` (same leaf count, same collapsed trees).
-/
import UtreexoVerif.Model.PollardHeapWF
set_option linter.unusedSectionVars false
set_option linter.unusedVariables false

namespace UtreexoVerif.Proofs.PollardHeap
open UtreexoVerif UtreexoVerif.Model UtreexoVerif.Model.PollardHeap UtreexoVerif.Spec Hasher

variable {H : Type} [DecidableEq H] [Hasher H]

abbrev Heap (H : Type) := Array (PolNode H)

/-- node `n` (children hanging off `holder`) carries the collapsed tree `t` -/
inductive Sub (hp : Heap H) : Nat → Nat → CTree H → List Nat → List (H × Nat) → Prop
  | leaf {n holder : Nat} {nn hn : PolNode H} {x : H} :
      hp[n]? = some nn → nn.data = x →
      hp[holder]? = some hn → hn.lNiece = none → hn.rNiece = none →
      Sub hp n holder (.leaf x) [] [(x, n)]
  | node {n holder l r : Nat} {nn hn ln rn : PolNode H} {a b : CTree H} {fa fb : List Nat}
      {la lb : List (H × Nat)} :
      hp[n]? = some nn → nn.data = ph a.hash b.hash →
      hp[holder]? = some hn → hn.lNiece = some l → hn.rNiece = some r →
      hp[l]? = some ln → hp[r]? = some rn →
      ln.aunt = some holder → rn.aunt = some holder →
      Sub hp l r a fa la → Sub hp r l b fb lb →
      Sub hp n holder (.node a b) (l :: r :: (fa ++ fb)) (la ++ lb)

/-- an empty root, as `deleteRoot` leaves it: no aunt, all-zero data, chopped -/
def EmptyRoot (hp : Heap H) (r : Nat) : Prop :=
  ∃ rn, hp[r]? = some rn ∧ rn.aunt = none ∧ rn.data = zero ∧ rn.lNiece = none ∧ rn.rNiece = none

/-- a root carrying tree `t`: no aunt, and it points to its own children -/
def RootRepr (hp : Heap H) (r : Nat) (t : CTree H) (fp : List Nat) (lv : List (H × Nat)) : Prop :=
  (∃ rn, hp[r]? = some rn ∧ rn.aunt = none) ∧ Sub hp r r t fp lv

def ReprRoot (hp : Heap H) (r : Nat) : Option (CTree H) → List Nat → List (H × Nat) → Prop
  | none, fp, lv => EmptyRoot hp r ∧ fp = [] ∧ lv = []
  | some t, fp, lv => RootRepr hp r t fp lv

/-- the roots `rs` represent the trees `ts`; `owned` = every node reachable (roots included),
`lv` = every leaf with its heap index, in tree order -/
inductive ReprRoots (hp : Heap H) : List Nat → List (Option (CTree H)) → List Nat → List (H × Nat) → Prop
  | nil : ReprRoots hp [] [] [] []
  | cons {r : Nat} {t : Option (CTree H)} {fp : List Nat} {lv : List (H × Nat)}
      {rs : List Nat} {ts : List (Option (CTree H))} {owned : List Nat} {lvs : List (H × Nat)} :
      ReprRoot hp r t fp lv → ReprRoots hp rs ts owned lvs →
      ReprRoots hp (r :: rs) (t :: ts) (r :: fp ++ owned) (lv ++ lvs)

/-- `NodeMap` of a full pollard: exactly the leaves (hash ↦ the node carrying it), keys distinct -/
def MapOK (m : List (H × Nat)) (lv : List (H × Nat)) : Prop :=
  (m.map (·.1)).Nodup ∧ ∀ e, e ∈ m ↔ e ∈ lv

/-- **Well-formedness** of the pointer forest: the roots carry collapsed trees in the
aunt/niece encoding (niece pointers of a node = children of its sibling, every niece's aunt
pointer points back, inner data = parent hash of the children), roots have no aunt, no node
is reachable twice, there is one root per set bit of `NumLeaves`, and `NodeMap` maps exactly
the leaves to the nodes carrying them. -/
def WF (p : Pollard H) : Prop :=
  ∃ ts owned lv, ReprRoots p.heap p.roots ts owned lv ∧ owned.Nodup ∧ MapOK p.nodeMap lv ∧
    ts.length = (treeRows p.numLeaves.toNat).length

/-- **Abstraction relation**: the heap represents the specification forest `F` — the same
leaf count and, root by root, the same collapsed trees (the data `Spec.Equiv` compares). -/
structure Abs (p : Pollard H) (F : Forest H) : Prop where
  numLeaves : p.numLeaves.toNat = F.numLeaves
  repr : ∃ owned lv, ReprRoots p.heap p.roots (F.trees.map (·.2)) owned lv ∧ owned.Nodup ∧
    MapOK p.nodeMap lv

theorem Abs.wf {p : Pollard H} {F : Forest H} (a : Abs p F) : WF p := by
  obtain ⟨owned, lv, h1, h2, h3⟩ := a.repr
  refine ⟨_, owned, lv, h1, h2, h3, ?_⟩
  rw [a.numLeaves]
  simp [Forest.trees]

/-- observational equivalence of specification forests does not matter to `Abs` -/
theorem Abs.congr {p : Pollard H} {F G : Forest H} (a : Abs p F) (e : Spec.Forest.numLeaves F = G.numLeaves)
    (e' : F.trees = G.trees) : Abs p G :=
  ⟨a.numLeaves.trans e, by rw [← e']; exact a.repr⟩

end UtreexoVerif.Proofs.PollardHeap
