/-
  Positions of live slots for property C15: the three descriptions agree —

  * `posS S s` (`SchedSem`): `nodePos` of the leaf chunk `(0, s)` in the tree found by `treeOf`;
  * `Spec.Sched.slotPos (flags S) s`: the top-down walk of the property vocabulary;
  * `(Forest.mk S).posOf s`: the position of leaf `s` in the specification forest whose leaves
    are identified by their slot numbers (`Canon S`).
-/
import UtreexoVerif.Proofs.SchedSem
import UtreexoVerif.Proofs.ChunkBridge

namespace UtreexoVerif.Proofs.SchedPos
open UtreexoVerif Spec Spec.Sched UtreexoVerif.Proofs.SchedSem UtreexoVerif.Proofs.FinalPos
open UtreexoVerif.Proofs.Movement UtreexoVerif.Proofs.ChunkBridge
open UtreexoVerif.Proofs.SpecSubs UtreexoVerif.Proofs.SpecNodes

/-! ### the tree of a slot -/

/-- the test `slotPos` / `treeOf` use to find the tree of slot `s` is `Spec.inTree` -/
theorem inTree_iff_range {n T s : Nat} (hT : n.testBit T = true) :
    (treeStart n T ≤ s ∧ s < treeStart n T + 2 ^ T) ↔ Spec.inTree n T 0 s := by
  unfold Spec.inTree
  rw [Spec.treeStart_eq, Nat.sub_zero]
  have hpos := Nat.two_pow_pos T
  have e : n / 2 ^ (T + 1) * 2 ^ (T + 1) = 2 * (n / 2 ^ (T + 1)) * 2 ^ T := by
    rw [Nat.pow_succ]; ac_rfl
  rw [e]
  generalize 2 * (n / 2 ^ (T + 1)) = B
  constructor
  · rintro ⟨h1, h2⟩
    refine ⟨hT, Nat.zero_le _, ?_⟩
    apply Nat.le_antisymm
    · apply Nat.le_of_lt_succ
      rw [Nat.div_lt_iff_lt_mul hpos, Nat.succ_mul]; exact h2
    · rw [Nat.le_div_iff_mul_le hpos]; exact h1
  · rintro ⟨_, _, h3⟩
    subst h3
    refine ⟨Nat.div_mul_le_self s (2 ^ T), ?_⟩
    have := lt_succ_div_mul s (2 ^ T) hpos
    rw [Nat.add_mul, Nat.one_mul] at this
    exact this

/-- the `find?` of `treeOf` / `slotPos` succeeds on the tree of the slot -/
theorem find_tree {n s : Nat} (hn : n < 2 ^ 64) (hs : s < n) :
    ∃ T, (treeRows n).find? (fun h => treeStart n h ≤ s && s < treeStart n h + 2 ^ h) = some T ∧
      Spec.inTree n T 0 s := by
  obtain ⟨T0, h1, h2, h3⟩ := exists_tree_of_lt n s hs
  have hin : Spec.inTree n T0 0 s := by
    simpa using inTree_of_slot h1 h2 h3 (l := 0) (Nat.zero_le _)
  have hmem := mem_treeRows_of_bit hn h1
  cases hf : (treeRows n).find? (fun h => treeStart n h ≤ s && s < treeStart n h + 2 ^ h) with
  | none =>
    have := List.find?_eq_none.1 hf T0 hmem
    have h4 := (inTree_iff_range h1).2 hin
    simp [h4.1, h4.2] at this
  | some T =>
    refine ⟨T, rfl, ?_⟩
    have hp := List.find?_some hf
    have hm := List.mem_of_find?_eq_some hf
    simp only [Bool.and_eq_true, decide_eq_true_eq] at hp
    exact (inTree_iff_range (Spec.mem_treeRows.1 hm).2).1 hp

/-- the tree found by `treeOf` contains the slot -/
theorem treeOf_spec {n s : Nat} (hn : n < 2 ^ 64) (hs : s < n) : Spec.inTree n (treeOf n s) 0 s := by
  obtain ⟨T, hf, hin⟩ := find_tree hn hs
  unfold SchedSem.treeOf
  rw [hf]
  exact hin

theorem treeOf_unique {n s T : Nat} (hn : n < 2 ^ 64) (h : Spec.inTree n T 0 s) : treeOf n s = T := by
  have hs : s < n := by
    have := inTree_le h
    simp only [Nat.pow_zero, Nat.mul_one] at this
    omega
  exact inTree_unique (treeOf_spec hn hs) h

/-- `posS` with any witness of the tree -/
theorem posS_eq {S : List (Option Nat)} {s T : Nat} (hn : S.length < 2 ^ 64)
    (h : Spec.inTree S.length T 0 s) : posS S s = nodePos S T 0 s := by
  unfold posS
  rw [treeOf_unique hn h]

/-! ### `chunkPos` (top-down on the flags) is `fpos` (bottom-up on the chunks) -/

/-- "some flag of the chunk is set" is `chunkAlive` -/
theorem any_flags_chunk (S : List (Option Nat)) (l b : Nat) :
    (((flags S).drop (b * 2 ^ l)).take (2 ^ l)).any id = chunkAlive S l b := by
  have key : (((flags S).drop (b * 2 ^ l)).take (2 ^ l)).any id = false ↔
      chunkAlive S l b = false := by
    rw [chunkAlive_eq_false_iff, List.any_eq_false]
    constructor
    · intro h i x h1 h2 hi
      rw [Nat.add_mul, Nat.one_mul] at h2
      apply h true _ rfl
      rw [List.mem_iff_getElem?]
      refine ⟨i - b * 2 ^ l, ?_⟩
      rw [List.getElem?_take, if_pos (by omega), List.getElem?_drop,
        show b * 2 ^ l + (i - b * 2 ^ l) = i by omega]
      simp [flags, hi]
    · intro h x hx hid
      rw [List.mem_iff_getElem?] at hx
      obtain ⟨j, hj⟩ := hx
      rw [List.getElem?_take] at hj
      split at hj
      · rename_i hlt
        rw [List.getElem?_drop] at hj
        simp only [id] at hid
        subst hid
        simp only [flags, List.getElem?_map, Option.map_eq_some_iff, Option.isSome_iff_exists] at hj
        obtain ⟨a, ha, y, hy⟩ := hj
        subst hy
        refine h (b * 2 ^ l + j) y (by omega) ?_ ha
        rw [Nat.add_mul, Nat.one_mul]; omega
      · cases hj
  cases h1 : (((flags S).drop (b * 2 ^ l)).take (2 ^ l)).any id <;>
    cases h2 : chunkAlive S l b <;> simp_all

/-- the walk of `chunkPos` down an aligned chunk `(k, B)` whose collapsed root stands at `top`
ends at the `fpos` of the leaf chunk -/
theorem chunkPos_fpos (S : List (Option Nat)) : ∀ (k B i : Nat) (top : Pos) (x : Nat), i < 2 ^ k →
    S[B * 2 ^ k + i]? = some (some x) →
    chunkPos k (((flags S).drop (B * 2 ^ k)).take (2 ^ k)) i top.1 top.2 =
      some (fpos (chunkAlive S) top k 0 (B * 2 ^ k + i)) := by
  intro k
  induction k with
  | zero =>
    intro B i top x hi hx
    have : i = 0 := by simpa using hi
    subst this
    simp only [Nat.pow_zero, Nat.mul_one, Nat.add_zero] at hx ⊢
    have hh : (List.take 1 (List.drop B (flags S))).head? = some true := by
      rw [List.head?_take, if_neg (by omega), List.head?_drop]
      simp [flags, hx]
    simp [chunkPos, fpos, hh]
  | succ k ih =>
    intro B i top x hi hx
    have hpos := Nat.two_pow_pos k
    have hp : 2 ^ (k + 1) = 2 * 2 ^ k := by rw [Nat.pow_succ]; omega
    have e0 : B * 2 ^ (k + 1) = 2 * B * 2 ^ k := by rw [Nat.pow_succ]; ac_rfl
    have e1 : B * 2 ^ (k + 1) + 2 ^ k = (2 * B + 1) * 2 ^ k := by
      rw [Nat.add_mul, Nat.one_mul, e0]
    have hL : (((flags S).drop (B * 2 ^ (k + 1))).take (2 ^ (k + 1))).take (2 ^ k) =
        ((flags S).drop (2 * B * 2 ^ k)).take (2 ^ k) := by
      rw [List.take_take, Nat.min_eq_left (by omega), e0]
    have hR : (((flags S).drop (B * 2 ^ (k + 1))).take (2 ^ (k + 1))).drop (2 ^ k) =
        ((flags S).drop ((2 * B + 1) * 2 ^ k)).take (2 ^ k) := by
      rw [List.drop_take, List.drop_drop, e1, show 2 ^ (k + 1) - 2 ^ k = 2 ^ k by omega]
    rw [chunkPos]
    simp only [hL, hR, any_flags_chunk]
    rw [fpos_top]
    simp only [Nat.zero_add]
    by_cases hlt : i < 2 ^ k
    · have hslot : B * 2 ^ (k + 1) + i = 2 * B * 2 ^ k + i := by rw [e0]
      have hdiv : (B * 2 ^ (k + 1) + i) / 2 ^ k = 2 * B := by
        rw [hslot, Nat.add_comm, Nat.add_mul_div_right _ _ hpos, Nat.div_eq_of_lt hlt, Nat.zero_add]
      have hal : chunkAlive S k (2 * B) = true :=
        chunkAlive_of_slot S k (2 * B) _ x hx (by omega) (by rw [Nat.add_mul, Nat.one_mul]; omega)
      have hsib : sibIdx (2 * B) = 2 * B + 1 := by unfold sibIdx; rw [if_pos (by omega)]
      rw [if_pos hlt, hal, hdiv]
      simp only [Bool.not_true, Bool.false_eq_true, if_false, childTop, hsib]
      rw [hslot] at hx ⊢
      cases hr : chunkAlive S k (2 * B + 1)
      · simp only [Bool.false_eq_true, if_false]
        exact ih (2 * B) i top x hlt hx
      · simp only [if_true]
        have := ih (2 * B) i (top.1 - 1, 2 * top.2) x hlt hx
        simp only at this
        rw [this]
        simp
    · have hslot : B * 2 ^ (k + 1) + i = (2 * B + 1) * 2 ^ k + (i - 2 ^ k) := by
        rw [← e1]; omega
      have hi' : i - 2 ^ k < 2 ^ k := by omega
      have hdiv : (B * 2 ^ (k + 1) + i) / 2 ^ k = 2 * B + 1 := by
        rw [hslot, Nat.add_comm, Nat.add_mul_div_right _ _ hpos, Nat.div_eq_of_lt hi', Nat.zero_add]
      rw [hslot] at hx ⊢
      have hal : chunkAlive S k (2 * B + 1) = true :=
        chunkAlive_of_slot S k (2 * B + 1) _ x hx (by omega) (by rw [Nat.add_mul (2 * B + 1) 1, Nat.one_mul]; omega)
      have hsib : sibIdx (2 * B + 1) = 2 * B := by unfold sibIdx; rw [if_neg (by omega)]; omega
      rw [if_neg hlt, hal]
      rw [← hslot, hdiv, hslot]
      simp only [Bool.not_true, Bool.false_eq_true, if_false, childTop, hsib]
      cases hr : chunkAlive S k (2 * B)
      · simp only [Bool.false_eq_true, if_false]
        exact ih (2 * B + 1) (i - 2 ^ k) top x hi' hx
      · simp only [if_true]
        have := ih (2 * B + 1) (i - 2 ^ k) (top.1 - 1, 2 * top.2 + 1) x hi' hx
        simp only at this
        rw [this]
        have : (2 * B + 1) % 2 = 1 := by omega
        simp [this]

theorem live_lt {S : List (Option Nat)} {s : Nat} (hl : Live S s) : s < S.length :=
  (List.getElem?_eq_some_iff.1 hl).1

/-- the specification's `slotPos` on the alive flags is `posS` -/
theorem slotPos_flags {S : List (Option Nat)} {s : Nat} (hn : S.length < 2 ^ 64) (hl : Live S s) :
    slotPos (flags S) s = some (posS S s) := by
  have hs : s < S.length := live_lt hl
  obtain ⟨T, hf, hin⟩ := find_tree hn hs
  have hlen : (flags S).length = S.length := by simp [flags]
  have h4 := (inTree_iff_range hin.1).2 hin
  have e : S.length / 2 ^ (T + 1) * 2 ^ (T + 1) = 2 * (S.length / 2 ^ (T + 1)) * 2 ^ T := by
    rw [Nat.pow_succ]; ac_rfl
  rw [Spec.treeStart_eq, e] at h4
  unfold slotPos
  simp only [hlen]
  rw [hf]
  simp only
  rw [posS_eq hn hin, rootPos_eq, Spec.treeStart_eq, e]
  have hadd : 2 * (S.length / 2 ^ (T + 1)) * 2 ^ T + (s - 2 * (S.length / 2 ^ (T + 1)) * 2 ^ T) = s := by
    omega
  have := chunkPos_fpos S T (2 * (S.length / 2 ^ (T + 1)))
    (s - 2 * (S.length / 2 ^ (T + 1)) * 2 ^ T) (T, 2 * (S.length / 2 ^ (T + 1))) s (by omega)
    (by rw [hadd]; exact hl)
  rw [hadd] at this
  simp only at this
  rw [this]
  unfold nodePos
  rw [Nat.sub_zero]

/-! ### the forest view: leaves identified by slot numbers -/

/-- live slots carry `offset + index` -/
private theorem filterMap_sorted : ∀ (S : List (Option Nat)) (k : Nat),
    (∀ (i x : Nat), S[i]? = some (some x) → x = k + i) →
    (S.filterMap id).Pairwise (· < ·) ∧ ∀ x ∈ S.filterMap id, k ≤ x := by
  intro S
  induction S with
  | nil => intro k _; simp
  | cons a t ih =>
    intro k h
    have ht := ih (k + 1) (by
      intro i x hi
      have := h (i + 1) x (by simpa using hi)
      omega)
    cases a with
    | none =>
      simp only [List.filterMap_cons_none, id]
      exact ⟨ht.1, fun x hx => by have := ht.2 x hx; omega⟩
    | some y =>
      have hy : y = k := by simpa using h 0 y (by simp)
      subst hy
      rw [List.filterMap_cons_some (f := id) (a := some y) (b := y) rfl]
      refine ⟨List.pairwise_cons.2 ⟨fun x hx => by have := ht.2 x hx; omega, ht.1⟩, ?_⟩
      intro x hx
      rcases List.mem_cons.1 hx with rfl | hx
      · exact Nat.le_refl _
      · have := ht.2 x hx; omega

theorem liveLeaves_nodup {S : List (Option Nat)} (hc : Canon S) : (Forest.mk S).liveLeaves.Nodup := by
  have := (filterMap_sorted S 0 (by intro i x hi; have := hc i x hi; omega)).1
  unfold Forest.liveLeaves
  exact this.imp (fun h => Nat.ne_of_lt h)

theorem mem_liveLeaves {S : List (Option Nat)} (hc : Canon S) (s : Nat) :
    s ∈ (Forest.mk S).liveLeaves ↔ Live S s := by
  rw [Spec.Forest.mem_liveLeaves]
  simp only
  unfold Live
  constructor
  · intro h
    obtain ⟨i, hi⟩ := List.mem_iff_getElem?.1 h
    have := hc i s hi
    subst this
    exact hi
  · intro h
    exact List.mem_iff_getElem?.2 ⟨s, h⟩

theorem posOf_eq {S : List (Option Nat)} {s : Nat} (hn : S.length < 2 ^ 64) (hc : Canon S)
    (hl : Live S s) : (Forest.mk S).posOf s = some (posS S s) := by
  have hin := treeOf_spec hn (live_lt hl)
  have hch : chunk S 0 s = some (.leaf s) := by
    rw [chunk_zero]
    unfold Live at hl
    rw [hl]
  have hsub := subAtT_of_chunk S hn hin hch
  have hmem := hsub.node_mem
  rw [posOf_eq_some_iff (F := Forest.mk S) hn (liveLeaves_nodup hc)]
  exact hmem

/-- positions are valid 63-row positions -/
theorem posS_valid {S : List (Option Nat)} {s : Nat} (hn : S.length ≤ 2 ^ 63) (hs : s < S.length) :
    UtreexoVerif.Proofs.CalcGeo.Valid 63 (posS S s) ∧
      UtreexoVerif.Proofs.CalcGeo.Valid (forestRows S.length) (posS S s) := by
  have hn' : S.length < 2 ^ 64 := by omega
  have hin := treeOf_spec hn' hs
  have h1 := nodePos_valid S (R := 63) s hn hin.1 (Nat.zero_le _)
  have h2 := nodePos_valid S (R := forestRows S.length) s
    (UtreexoVerif.Proofs.SpecView.le_two_pow_forestRows _) hin.1 (Nat.zero_le _)
  unfold CalcGeo.Valid posS
  exact ⟨⟨by omega, h1.2.2.2⟩, ⟨by omega, h2.2.2.2⟩⟩

/-! ### non-vacuity: seven slots, two of them dead -/

private def exS : List (Option Nat) := [some 0, none, some 2, some 3, none, some 5, some 6]

private theorem exCanon : Canon exS := by
  intro i x h
  rcases i with _ | _ | _ | _ | _ | _ | _ | i <;> simp [exS] at h <;> omega

private theorem exLive : exS.length < 2 ^ 64 ∧ Live exS 0 ∧ Live exS 2 ∧ Live exS 5 ∧ Live exS 6 := by
  unfold Live; decide
example : Spec.inTree exS.length (treeOf exS.length 5) 0 5 ∧ treeOf exS.length 5 = 1 := by
  unfold Spec.inTree; decide
/-- slot 0 moved up (its sibling slot 1 is dead), slot 5 is the collapsed root of its tree -/
example : slotPos (flags exS) 0 = some (1, 0) ∧ posS exS 0 = (1, 0) ∧
    slotPos (flags exS) 2 = some (0, 2) ∧ posS exS 2 = (0, 2) ∧
    slotPos (flags exS) 5 = some (1, 2) ∧ posS exS 5 = (1, 2) ∧
    slotPos (flags exS) 6 = some (0, 6) ∧ posS exS 6 = (0, 6) := by decide
example : slotPos (flags exS) 5 = some (posS exS 5) := slotPos_flags (by decide) exLive.2.2.2.1
example : (Forest.mk exS).posOf 5 = some (posS exS 5) := posOf_eq (by decide) exCanon exLive.2.2.2.1
example : (Forest.mk exS).posOf 5 = some (1, 2) ∧ (Forest.mk exS).liveLeaves = [0, 2, 3, 5, 6] := by
  decide
example : CalcGeo.Valid 63 (posS exS 5) ∧ CalcGeo.Valid (forestRows exS.length) (posS exS 5) :=
  posS_valid (by decide) (by decide)

end UtreexoVerif.Proofs.SchedPos
