/-
  The wire parse of `RestorePollardFrom`/`readOne` as a PURE function of the stream
  (`readOneL`, `readRootsL`, `restoreL`): the tree of records read, each record with its raw 32
  data bytes and its leaf flag (`LNode`).  Both decoders are this parse followed by a
  function of the parse tree:

  * the shape-level decoder of `Model/Serial.lean`: `readOne_eq`, `readRoots_eq`,
    `restorePollard_eq` (shape = `LNode.erase`, node map = `putL`);
  * the heap-level decoder of `Model/PollardHeapSerial.lean`: see `Proofs/PollardHeapSerialR.lean`.

  Fuel: `readOneL_fuel` — any two fuels above the stream length give the same result.
-/
import UtreexoVerif.Proofs.SerialGeneral
set_option linter.unusedSectionVars false
set_option linter.unusedVariables false
set_option linter.unusedSimpArgs false

namespace UtreexoVerif.Proofs.PollardHeapSerial
open UtreexoVerif UtreexoVerif.Model UtreexoVerif.Spec Hasher
open UtreexoVerif.Model.Serial UtreexoVerif.Proofs.Serial

/-- a record of the stream as `readOne` reads it: the raw 32 data bytes, the leaf flag
(`buf[0] == 1` of the second read), and the two nieces when the niece flag is 1 -/
inductive LNode where
  | dead (hb : List Byte) (leaf : Bool)
  | fork (hb : List Byte) (leaf : Bool) (l r : LNode)
deriving Repr, DecidableEq

namespace LNode
def hb : LNode → List Byte
  | .dead hb _ => hb
  | .fork hb _ _ _ => hb
def leaf : LNode → Bool
  | .dead _ lf => lf
  | .fork _ lf _ _ => lf
/-- number of records -/
def count : LNode → Nat
  | .dead _ _ => 1
  | .fork _ _ l r => l.count + 1 + r.count
end LNode

/-- a successful result mapped, a failure carried over (same count, same kind) -/
def Res.mapOk {α β : Type} (f : α → β) : Res α → Res β
  | ⟨n, .ok a⟩ => ⟨n, .ok (f a)⟩
  | ⟨n, .err⟩ => ⟨n, .err⟩
  | ⟨n, .panic⟩ => ⟨n, .panic⟩
  | ⟨n, .hang⟩ => ⟨n, .hang⟩

@[simp] theorem Res.mapOk_n {α β : Type} (f : α → β) (x : Res α) : (Res.mapOk f x).n = x.n := by
  obtain ⟨n, o⟩ := x; cases o <;> rfl

/-- the pure parse of one node (the reads of `readOne`, nothing else) -/
def readOneL : Nat → Reader → Res (LNode × Reader)
  | 0, _ => ⟨0, .hang⟩
  | fuel+1, r =>
    match readFull r 32 with
    | (.eof, _) => ⟨0, .err⟩
    | (.unexpected _, _) => ⟨0, .err⟩
    | (.full hb, r) =>
      match readFull r 1 with
      | (.full lf, r) =>
        match readFull r 1 with
        | (.full nf, r) =>
          if nf.headD 0#8 == 1#8 then
            match readOneL fuel r with
            | ⟨lb, .ok (l, r)⟩ =>
              match readOneL fuel r with
              | ⟨rb, .ok (rn, r)⟩ => ⟨32 + 1 + 1 + lb + rb, .ok (.fork hb (lf.headD 0#8 == 1#8) l rn, r)⟩
              | ⟨_, e⟩ => ⟨32 + 1 + 1 + lb, failAs e⟩
            | ⟨_, e⟩ => ⟨32 + 1 + 1, failAs e⟩
          else ⟨32 + 1 + 1, .ok (.dead hb (lf.headD 0#8 == 1#8), r)⟩
        | _ => ⟨32 + 1, .err⟩
      | _ => ⟨32, .err⟩

/-- the pure parse of `k` roots -/
def readRootsL (fuel : Nat) : Nat → Reader → Nat → Res (List LNode × Reader)
  | 0, r, total => ⟨total, .ok ([], r)⟩
  | k+1, r, total =>
    match readOneL fuel r with
    | ⟨b, .ok (n, r)⟩ =>
      match readRootsL fuel k r (total + b) with
      | ⟨t, .ok (ns, r)⟩ => ⟨t, .ok (n :: ns, r)⟩
      | ⟨t, e⟩ => ⟨t, failAs e⟩
    | ⟨_, e⟩ => ⟨total, failAs e⟩

/-- the pure parse of a whole stream: `NumLeaves`, `NumDels`, the root records — everything
`RestorePollardFrom` does before its sanity check -/
def restoreL (r : Reader) : Res (U64 × U64 × List LNode) :=
  let fuel := r.data.length + 1
  match readFull r 8 with
  | (.full b1, r) =>
    match readFull r 8 with
    | (.full b2, r) =>
      match readRootsL fuel (numRoots (unle64 b1)).toNat r (8 + 8) with
      | ⟨total, .ok (roots, _)⟩ => ⟨total, .ok (unle64 b1, unle64 b2, roots)⟩
      | ⟨total, e⟩ => ⟨total, failAs e⟩
    | _ => ⟨8, .err⟩
  | _ => ⟨0, .err⟩

section
variable {H : Type} [DecidableEq H] [Hasher H] [HashBytes H]

/-- the shape of a record tree -/
def LNode.erase : LNode → PNode H
  | .dead hb _ => .dead (ofBytes hb)
  | .fork hb _ l r => .fork (ofBytes hb) l.erase r.erase

/-- the records `readOne` enters into `NodeMap`: leaf flag set, data not all-zero; in stream order -/
def leafRecs (H : Type) [DecidableEq H] [Hasher H] [HashBytes H] : LNode → List (List Byte)
  | .dead hb lf => if lf && ((ofBytes hb : H) != zero) then [hb] else []
  | .fork hb lf l r => (if lf && ((ofBytes hb : H) != zero) then [hb] else []) ++ (leafRecs H l ++ leafRecs H r)

/-- `p.NodeMap[n.data.mini()] = n` of the shape-level decoder for a list of records -/
def putRecs (nm : NodeMap H) (recs : List (List Byte)) : NodeMap H :=
  recs.foldl (fun m hb => m.put (hb.take 12) (ofBytes hb)) nm

theorem putRecs_append (nm : NodeMap H) (a b : List (List Byte)) :
    putRecs nm (a ++ b) = putRecs (putRecs nm a) b := by
  simp [putRecs, List.foldl_append]

/-- the node map of the shape-level decoder after the record tree `t` -/
def putL (nm : NodeMap H) (t : LNode) : NodeMap H := putRecs nm (leafRecs H t)

/-- **the shape-level `readOne` is the parse** followed by `erase` / `putL` -/
theorem readOne_eq : ∀ (fuel : Nat) (r : Reader) (nm : NodeMap H),
    readOne fuel r nm = Res.mapOk (fun x => (x.1.erase, putL nm x.1, x.2)) (readOneL fuel r) := by
  intro fuel
  induction fuel with
  | zero => intro r nm; rfl
  | succ f ih =>
    intro r nm
    rw [readOne, readOneL]
    rcases readFull r 32 with ⟨a1, r1⟩
    cases a1 with
    | eof => rfl
    | unexpected n => rfl
    | full hb =>
      simp only []
      rcases readFull r1 1 with ⟨a2, r2⟩
      cases a2 with
      | eof => rfl
      | unexpected n => rfl
      | full lf =>
        simp only []
        rcases readFull r2 1 with ⟨a3, r3⟩
        cases a3 with
        | eof => rfl
        | unexpected n => rfl
        | full nf =>
          simp only []
          have hnm : (if (lf.headD 0#8 == 1#8) = true then
              (if ((ofBytes hb : H) != zero) = true then NodeMap.put nm (hb.take 12) (ofBytes hb) else nm)
              else nm) =
              putRecs nm (if (lf.headD 0#8 == 1#8) && ((ofBytes hb : H) != zero) then [hb] else []) := by
            cases (lf.headD 0#8 == 1#8) <;> cases ((ofBytes hb : H) != zero) <;> simp [putRecs]
          rw [hnm]
          split
          · rw [ih]
            rcases readOneL f r3 with ⟨lb, o1⟩
            cases o1 with
            | ok x =>
              obtain ⟨l, r4⟩ := x
              simp only [Res.mapOk]
              rw [ih]
              rcases readOneL f r4 with ⟨rb, o2⟩
              cases o2 with
              | ok y =>
                obtain ⟨rn, r5⟩ := y
                simp only [Res.mapOk, LNode.erase, putL, leafRecs, putRecs_append]
              | err => rfl
              | panic => rfl
              | hang => rfl
            | err => rfl
            | panic => rfl
            | hang => rfl
          · simp only [Res.mapOk, LNode.erase, putL, leafRecs]

/-- the node map after a list of record trees -/
def putLs (nm : NodeMap H) (ts : List LNode) : NodeMap H := putRecs nm (ts.flatMap (leafRecs H))

theorem readRoots_eq (fuel : Nat) : ∀ (k : Nat) (r : Reader) (nm : NodeMap H) (total : Nat),
    readRoots fuel k r nm total =
      Res.mapOk (fun x => (x.1.map LNode.erase, putLs nm x.1, x.2)) (readRootsL fuel k r total) := by
  intro k
  induction k with
  | zero => intro r nm total; simp [readRoots, readRootsL, Res.mapOk, putLs, putRecs]
  | succ k ih =>
    intro r nm total
    rw [readRoots, readRootsL, readOne_eq]
    rcases readOneL fuel r with ⟨b, o1⟩
    cases o1 with
    | ok x =>
      obtain ⟨n, r1⟩ := x
      simp only [Res.mapOk]
      rw [ih]
      rcases readRootsL fuel k r1 (total + b) with ⟨t, o2⟩
      cases o2 with
      | ok y =>
        obtain ⟨ns, r2⟩ := y
        simp only [Res.mapOk, List.map_cons, putLs, putL, List.flatMap_cons, putRecs_append]
      | err => rfl
      | panic => rfl
      | hang => rfl
    | err => rfl
    | panic => rfl
    | hang => rfl

/-- **the shape-level `RestorePollardFrom` is the parse** followed by the sanity check -/
theorem restorePollard_eq (r : Reader) :
    restorePollard (H := H) r =
      match restoreL r with
      | ⟨n, .ok (nl, nd, ts)⟩ =>
        if ((putLs ([] : NodeMap H) ts).length : Int) != (nl - nd).toInt then ⟨n, .err⟩
        else ⟨n, .ok (PState.mk nl nd (ts.map LNode.erase) (putLs [] ts))⟩
      | ⟨n, e⟩ => ⟨n, failAs e⟩ := by
  unfold restorePollard restoreL
  rcases readFull r 8 with ⟨a1, r1⟩
  cases a1 with
  | eof => rfl
  | unexpected n => rfl
  | full b1 =>
    simp only []
    rcases readFull r1 8 with ⟨a2, r2⟩
    cases a2 with
    | eof => rfl
    | unexpected n => rfl
    | full b2 =>
      simp only []
      rw [readRoots_eq]
      rcases readRootsL (r.data.length + 1) (numRoots (unle64 b1)).toNat r2 (8 + 8) with ⟨t, o⟩
      cases o with
      | ok x => obtain ⟨ts, r3⟩ := x; rfl
      | err => rfl
      | panic => rfl
      | hang => rfl

end

/-! ### the parse: totality, consumption, fuel -/

theorem readOneL_total : ∀ (fuel : Nat) (r : Reader), r.data.length < fuel →
    (readOneL fuel r).out ≠ .hang ∧ (readOneL fuel r).out ≠ .panic ∧
    ∀ t r', (readOneL fuel r).out = .ok (t, r') → r'.data.length + 34 ≤ r.data.length := by
  intro fuel r hf
  -- transport `readOne_total` through `readOne_eq` (any hash type will do)
  letI : Hasher (List Byte) := ⟨fun a b => a ++ b, []⟩
  letI : HashBytes (List Byte) := ⟨id, id⟩
  have h := readOne_total (H := List Byte) fuel r [] hf
  rw [readOne_eq] at h
  rcases hy : readOneL fuel r with ⟨n, o⟩
  rw [hy] at h
  cases o with
  | ok x =>
    obtain ⟨t, r1⟩ := x
    refine ⟨by simp, by simp, ?_⟩
    intro t' r' e
    simp only [Out.ok.injEq, Prod.mk.injEq] at e
    rw [← e.2]
    exact h.2.2 _ _ _ rfl
  | err => simp
  | panic => exact absurd rfl h.2.1
  | hang => exact absurd rfl h.1

/-- two fuels above the stream length give the same parse -/
theorem readOneL_fuel : ∀ (f1 f2 : Nat) (r : Reader), r.data.length < f1 → r.data.length < f2 →
    readOneL f1 r = readOneL f2 r := by
  intro f1
  induction f1 with
  | zero => intro f2 r h; omega
  | succ f1 ih =>
    intro f2 r h1 h2
    obtain ⟨f2, rfl⟩ : ∃ f, f2 = f + 1 := ⟨f2 - 1, by omega⟩
    rw [readOneL, readOneL]
    rcases hx1 : readFull r 32 with ⟨a1, r1⟩
    cases a1 with
    | eof => rfl
    | unexpected n => rfl
    | full hb =>
      obtain ⟨hk1, _, hd1⟩ := readFull_full_inv hx1
      simp only []
      rcases hx2 : readFull r1 1 with ⟨a2, r2⟩
      cases a2 with
      | eof => rfl
      | unexpected n => rfl
      | full lf =>
        obtain ⟨hk2, _, hd2⟩ := readFull_full_inv hx2
        simp only []
        rcases hx3 : readFull r2 1 with ⟨a3, r3⟩
        cases a3 with
        | eof => rfl
        | unexpected n => rfl
        | full nf =>
          obtain ⟨hk3, _, hd3⟩ := readFull_full_inv hx3
          have hl3 : r3.data.length + 34 = r.data.length := by
            rw [hd3, hd2, hd1]; simp only [List.length_drop]
            rw [hd1, List.length_drop] at hk2
            rw [hd2, hd1] at hk3; simp only [List.length_drop] at hk3
            omega
          simp only []
          split
          · rw [ih f2 r3 (by omega) (by omega)]
            have ht := readOneL_total f2 r3 (by omega)
            rcases hy : readOneL f2 r3 with ⟨lb, o1⟩
            rw [hy] at ht
            cases o1 with
            | ok x =>
              obtain ⟨l, r4⟩ := x
              have := ht.2.2 l r4 rfl
              simp only []
              rw [ih f2 r4 (by omega) (by omega)]
            | err => rfl
            | panic => rfl
            | hang => rfl
          · rfl

theorem readRootsL_fuel (f1 f2 : Nat) : ∀ (k : Nat) (r : Reader) (total : Nat),
    r.data.length < f1 → r.data.length < f2 → readRootsL f1 k r total = readRootsL f2 k r total := by
  intro k
  induction k with
  | zero => intro r total _ _; rfl
  | succ k ih =>
    intro r total h1 h2
    rw [readRootsL, readRootsL, readOneL_fuel f1 f2 r h1 h2]
    have ht := readOneL_total f2 r h2
    rcases hy : readOneL f2 r with ⟨b, o1⟩
    rw [hy] at ht
    cases o1 with
    | ok x =>
      obtain ⟨n, r1⟩ := x
      have := ht.2.2 n r1 rfl
      simp only []
      rw [ih r1 (total + b) (by omega) (by omega)]
    | err => rfl
    | panic => rfl
    | hang => rfl

theorem readRootsL_total (fuel : Nat) : ∀ (k : Nat) (r : Reader) (total : Nat), r.data.length < fuel →
    (readRootsL fuel k r total).out ≠ .hang ∧ (readRootsL fuel k r total).out ≠ .panic := by
  intro k
  induction k with
  | zero => intro r total _; simp [readRootsL]
  | succ k ih =>
    intro r total hf
    rw [readRootsL]
    have ht := readOneL_total fuel r hf
    rcases hy : readOneL fuel r with ⟨b, o1⟩
    rw [hy] at ht
    cases o1 with
    | ok x =>
      obtain ⟨n, r1⟩ := x
      have := ht.2.2 n r1 rfl
      simp only []
      have h2 := ih r1 (total + b) (by omega)
      rcases hz : readRootsL fuel k r1 (total + b) with ⟨t, o2⟩
      rw [hz] at h2
      cases o2 with
      | ok y => obtain ⟨ns, r2⟩ := y; simp
      | err => simp [failAs]
      | panic => exact absurd rfl h2.2
      | hang => exact absurd rfl h2.1
    | err => simp [failAs]
    | panic => exact absurd rfl ht.2.1
    | hang => exact absurd rfl ht.1

/-- the parse never panics and always returns -/
theorem restoreL_total (r : Reader) : (restoreL r).out ≠ .hang ∧ (restoreL r).out ≠ .panic := by
  unfold restoreL
  rcases hx1 : readFull r 8 with ⟨a1, r1⟩
  cases a1 with
  | eof => simp
  | unexpected n => simp
  | full b1 =>
    obtain ⟨_, _, hd1⟩ := readFull_full_inv hx1
    simp only []
    rcases hx2 : readFull r1 8 with ⟨a2, r2⟩
    cases a2 with
    | eof => simp
    | unexpected n => simp
    | full b2 =>
      obtain ⟨_, _, hd2⟩ := readFull_full_inv hx2
      simp only []
      have h := readRootsL_total (r.data.length + 1) (numRoots (unle64 b1)).toNat r2 (8 + 8)
        (by rw [hd2, hd1]; simp only [List.length_drop]; omega)
      rcases hz : readRootsL (r.data.length + 1) (numRoots (unle64 b1)).toNat r2 (8 + 8) with ⟨t, o⟩
      rw [hz] at h
      cases o with
      | ok x => obtain ⟨ts, r3⟩ := x; simp
      | err => simp [failAs]
      | panic => exact absurd rfl h.2
      | hang => exact absurd rfl h.1

end UtreexoVerif.Proofs.PollardHeapSerial
