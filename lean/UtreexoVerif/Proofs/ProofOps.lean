/-
  Helper lemmas for property C14: the sorted-slice helpers of prove.go (`sortBy`/`insertBy`,
  `mergeHP`, `mergeU64`, `subtractBy`, `subsetHP`) as set / order operations, and the
  two-slice merge `mergeHP2` on slices of equal length.
-/
import UtreexoVerif.Model.ProofOps

namespace UtreexoVerif.Proofs.ProofOps
open UtreexoVerif Model

/-! ### U64 order facts -/

theorem u64_lt_irrefl (a : U64) : ¬ a < a := by bv_omega
theorem u64_not_lt {a b : U64} : ¬ a < b ↔ b ≤ a := by bv_omega
theorem u64_le_of_lt {a b : U64} (h : a < b) : a ≤ b := by bv_omega
theorem u64_le_trans {a b c : U64} (h1 : a ≤ b) (h2 : b ≤ c) : a ≤ c := by bv_omega
theorem u64_lt_of_lt_of_le {a b c : U64} (h1 : a < b) (h2 : b ≤ c) : a < c := by bv_omega
theorem u64_lt_of_le_of_lt {a b c : U64} (h1 : a ≤ b) (h2 : b < c) : a < c := by bv_omega
theorem u64_eq_of_not_lt {a b : U64} (h1 : ¬ a < b) (h2 : ¬ b < a) : a = b := by bv_omega

/-! ### insertion sort -/

section sort
variable {α : Type} (key : α → U64)

theorem mem_insertBy (x y : α) (l : List α) : y ∈ insertBy key x l ↔ y = x ∨ y ∈ l := by
  induction l with
  | nil => simp [insertBy]
  | cons z zs ih =>
    unfold insertBy
    split
    · simp
    · simp [ih]; grind

theorem perm_insertBy (x : α) (l : List α) : (insertBy key x l).Perm (x :: l) := by
  induction l with
  | nil => simp [insertBy]
  | cons z zs ih =>
    unfold insertBy
    split
    · exact List.Perm.refl _
    · exact (List.Perm.cons z ih).trans (List.Perm.swap x z zs)

theorem perm_foldl_insertBy (l : List α) :
    ∀ acc, (l.foldl (fun acc x => insertBy key x acc) acc).Perm (acc ++ l) := by
  induction l with
  | nil => intro acc; simp
  | cons x xs ih =>
    intro acc
    simp only [List.foldl_cons]
    refine (ih _).trans ?_
    have h1 : (insertBy key x acc ++ xs).Perm ((x :: acc) ++ xs) := (perm_insertBy key x acc).append_right xs
    refine h1.trans ?_
    simpa using (List.perm_middle (a := x) (l₁ := acc) (l₂ := xs)).symm

theorem perm_sortBy (l : List α) : (sortBy key l).Perm l := by
  unfold sortBy
  simpa using perm_foldl_insertBy key l []

theorem mem_sortBy (y : α) (l : List α) : y ∈ sortBy key l ↔ y ∈ l := (perm_sortBy key l).mem_iff

theorem length_sortBy (l : List α) : (sortBy key l).length = l.length := (perm_sortBy key l).length_eq

/-- sorted by key, non-strictly -/
def SortedBy (l : List α) : Prop := l.Pairwise (fun a b => key a ≤ key b)

theorem sorted_insertBy (x : α) (l : List α) (h : SortedBy key l) : SortedBy key (insertBy key x l) := by
  induction l with
  | nil => simp [insertBy, SortedBy]
  | cons z zs ih =>
    unfold insertBy
    unfold SortedBy at h ⊢
    rw [List.pairwise_cons] at h
    split
    · rename_i hlt
      refine List.pairwise_cons.mpr ⟨?_, List.pairwise_cons.mpr h⟩
      intro a ha
      rcases List.mem_cons.mp ha with rfl | ha
      · exact u64_le_of_lt hlt
      · exact u64_le_trans (u64_le_of_lt hlt) (h.1 a ha)
    · rename_i hnlt
      refine List.pairwise_cons.mpr ⟨?_, ih h.2⟩
      intro a ha
      rcases (mem_insertBy key x a zs).mp ha with rfl | ha
      · exact u64_not_lt.mp hnlt
      · exact h.1 a ha

theorem sorted_foldl_insertBy (l : List α) :
    ∀ acc, SortedBy key acc → SortedBy key (l.foldl (fun acc x => insertBy key x acc) acc) := by
  induction l with
  | nil => intro acc h; simpa
  | cons x xs ih => intro acc h; exact ih _ (sorted_insertBy key x acc h)

theorem sorted_sortBy (l : List α) : SortedBy key (sortBy key l) := by
  unfold sortBy
  exact sorted_foldl_insertBy key l [] (by simp [SortedBy])

/-- sorting commutes with taking keys: the positions of a sorted `hashAndPos` are the sorted
positions -/
theorem map_insertBy (x : α) (l : List α) : (insertBy key x l).map key = insertBy id (key x) (l.map key) := by
  induction l with
  | nil => simp [insertBy]
  | cons z zs ih =>
    unfold insertBy
    simp only [List.map_cons, id]
    split
    · simp
    · simp [ih]

theorem map_foldl_insertBy (l : List α) :
    ∀ acc, (l.foldl (fun acc x => insertBy key x acc) acc).map key =
      (l.map key).foldl (fun acc x => insertBy id x acc) (acc.map key) := by
  induction l with
  | nil => intro acc; simp
  | cons x xs ih =>
    intro acc
    simp only [List.foldl_cons, List.map_cons]
    rw [ih, map_insertBy]

theorem map_sortBy (l : List α) : (sortBy key l).map key = sortU64 (l.map key) := by
  unfold sortU64 sortBy
  simpa using map_foldl_insertBy key l []

end sort

theorem sorted_sortU64 (l : List U64) : (sortU64 l).Pairwise (· ≤ ·) := by
  have := sorted_sortBy id l
  simpa [SortedBy, sortU64] using this

theorem mem_sortU64 (x : U64) (l : List U64) : x ∈ sortU64 l ↔ x ∈ l := mem_sortBy id x l
theorem perm_sortU64 (l : List U64) : (sortU64 l).Perm l := perm_sortBy id l

/-- a sorted duplicate-free list is strictly sorted -/
theorem strict_of_sorted_nodup (l : List U64) (h : l.Pairwise (· ≤ ·)) (hn : l.Nodup) : l.Pairwise (· < ·) := by
  induction l with
  | nil => simp
  | cons x xs ih =>
    rw [List.pairwise_cons] at h ⊢
    rw [List.nodup_cons] at hn
    refine ⟨?_, ih h.2 hn.2⟩
    intro a ha
    have h1 := h.1 a ha
    have h2 : x ≠ a := fun e => hn.1 (e ▸ ha)
    bv_omega

theorem strict_sortU64 (l : List U64) (hn : l.Nodup) : (sortU64 l).Pairwise (· < ·) :=
  strict_of_sorted_nodup _ (sorted_sortU64 l) ((perm_sortU64 l).nodup_iff.mpr hn)

section hp
variable {H : Type}

theorem sortHP_positions (l : HP H) : (sortHP l).positions = sortU64 l.positions := by
  unfold sortHP HP.positions
  exact map_sortBy (·.1) l

theorem zip_positions (ts : List U64) (hs : List H) (h : ts.length = hs.length) :
    HP.positions (ts.zip hs) = ts := by
  unfold HP.positions
  rw [List.map_fst_zip]
  omega

/-! ### merge -/

theorem mergeHP_positions (a b : HP H) : (mergeHP a b).positions = mergeU64 a.positions b.positions := by
  fun_induction mergeHP a b with
  | case1 b => simp [mergeU64, HP.positions]
  | case2 a hne =>
    cases a with
    | nil => simp [mergeU64, HP.positions]
    | cons x xs => simp [mergeU64, HP.positions]
  | case3 x xs y ys hlt ih =>
    simp only [HP.positions, List.map_cons] at ih ⊢
    rw [mergeU64]; simp [hlt, ih]
  | case4 x xs y ys hnlt hlt ih =>
    simp only [HP.positions, List.map_cons] at ih ⊢
    rw [mergeU64]; simp [hnlt, hlt, ih]
  | case5 x xs y ys hnlt1 hnlt2 ih =>
    simp only [HP.positions, List.map_cons] at ih ⊢
    rw [mergeU64]; simp [hnlt1, hnlt2, ih]

theorem mem_mergeHP (a b : HP H) (z : U64 × H) : z ∈ mergeHP a b → z ∈ a ∨ z ∈ b := by
  fun_induction mergeHP a b with
  | case1 b => intro h; exact Or.inr h
  | case2 a _ => intro h; exact Or.inl h
  | case3 x xs y ys _ ih =>
    intro h
    rcases List.mem_cons.mp h with rfl | h
    · simp
    · rcases ih h with h | h
      · exact Or.inl (List.mem_cons_of_mem _ h)
      · exact Or.inr h
  | case4 x xs y ys _ _ ih =>
    intro h
    rcases List.mem_cons.mp h with rfl | h
    · simp
    · rcases ih h with h | h
      · exact Or.inl h
      · exact Or.inr (List.mem_cons_of_mem _ h)
  | case5 x xs y ys _ _ ih =>
    intro h
    rcases List.mem_cons.mp h with rfl | h
    · simp
    · rcases ih h with h | h
      · exact Or.inl (List.mem_cons_of_mem _ h)
      · exact Or.inr (List.mem_cons_of_mem _ h)

end hp

theorem mem_mergeU64 (a b : List U64) (z : U64) : z ∈ mergeU64 a b ↔ z ∈ a ∨ z ∈ b := by
  fun_induction mergeU64 a b with
  | case1 b => simp
  | case2 a _ => simp
  | case3 x xs y ys _ ih => simp only [List.mem_cons, ih]; grind
  | case4 x xs y ys _ _ ih => simp only [List.mem_cons, ih]; grind
  | case5 x xs y ys h1 h2 ih =>
    have : x = y := u64_eq_of_not_lt h1 h2
    subst this
    simp only [List.mem_cons, ih]; grind

/-- merging two strictly ascending lists gives a strictly ascending list -/
theorem strict_mergeU64 (a b : List U64) (ha : a.Pairwise (· < ·)) (hb : b.Pairwise (· < ·)) :
    (mergeU64 a b).Pairwise (· < ·) := by
  fun_induction mergeU64 a b with
  | case1 b => exact hb
  | case2 a _ => exact ha
  | case3 x xs y ys hlt ih =>
    rw [List.pairwise_cons] at ha
    refine List.pairwise_cons.mpr ⟨?_, ih ha.2 hb⟩
    intro z hz
    rcases (mem_mergeU64 _ _ z).mp hz with hz | hz
    · exact ha.1 z hz
    · rcases List.mem_cons.mp hz with rfl | hz
      · exact hlt
      · exact u64_lt_of_lt_of_le hlt (u64_le_of_lt ((List.pairwise_cons.mp hb).1 z hz))
  | case4 x xs y ys hnlt hlt ih =>
    rw [List.pairwise_cons] at hb
    refine List.pairwise_cons.mpr ⟨?_, ih ha hb.2⟩
    intro z hz
    rcases (mem_mergeU64 _ _ z).mp hz with hz | hz
    · rcases List.mem_cons.mp hz with rfl | hz
      · exact hlt
      · exact u64_lt_of_lt_of_le hlt (u64_le_of_lt ((List.pairwise_cons.mp ha).1 z hz))
    · exact hb.1 z hz
  | case5 x xs y ys h1 h2 ih =>
    have : x = y := u64_eq_of_not_lt h1 h2
    subst this
    rw [List.pairwise_cons] at ha hb
    refine List.pairwise_cons.mpr ⟨?_, ih ha.2 hb.2⟩
    intro z hz
    rcases (mem_mergeU64 _ _ z).mp hz with hz | hz
    · exact ha.1 z hz
    · exact hb.1 z hz

/-- merging two ascending lists gives an ascending list -/
theorem sorted_mergeU64 (a b : List U64) (ha : a.Pairwise (· ≤ ·)) (hb : b.Pairwise (· ≤ ·)) :
    (mergeU64 a b).Pairwise (· ≤ ·) := by
  fun_induction mergeU64 a b with
  | case1 b => exact hb
  | case2 a _ => exact ha
  | case3 x xs y ys hlt ih =>
    rw [List.pairwise_cons] at ha
    refine List.pairwise_cons.mpr ⟨?_, ih ha.2 hb⟩
    intro z hz
    rcases (mem_mergeU64 _ _ z).mp hz with hz | hz
    · exact ha.1 z hz
    · rcases List.mem_cons.mp hz with rfl | hz
      · exact u64_le_of_lt hlt
      · exact u64_le_trans (u64_le_of_lt hlt) ((List.pairwise_cons.mp hb).1 z hz)
  | case4 x xs y ys hnlt hlt ih =>
    rw [List.pairwise_cons] at hb
    refine List.pairwise_cons.mpr ⟨?_, ih ha hb.2⟩
    intro z hz
    rcases (mem_mergeU64 _ _ z).mp hz with hz | hz
    · rcases List.mem_cons.mp hz with rfl | hz
      · exact u64_le_of_lt hlt
      · exact u64_le_trans (u64_le_of_lt hlt) ((List.pairwise_cons.mp ha).1 z hz)
    · exact hb.1 z hz
  | case5 x xs y ys h1 h2 ih =>
    have : x = y := u64_eq_of_not_lt h1 h2
    subst this
    rw [List.pairwise_cons] at ha hb
    refine List.pairwise_cons.mpr ⟨?_, ih ha.2 hb.2⟩
    intro z hz
    rcases (mem_mergeU64 _ _ z).mp hz with hz | hz
    · exact ha.1 z hz
    · exact hb.1 z hz


/-! ### subtraction -/

section subtract
variable {α : Type} (key : α → U64)

theorem subtractBy_sublist (a : List α) (b : List U64) : (subtractBy key a b).Sublist a := by
  fun_induction subtractBy key a b with
  | case1 b => exact List.Sublist.refl _
  | case2 a _ => exact List.Sublist.refl _
  | case3 x xs ys ih => exact ih.cons x
  | case4 x xs y ys _ _ ih => exact ih.cons_cons x
  | case5 x xs y ys _ _ ih => exact ih

/-- an element whose key is not subtracted survives (no sortedness needed) -/
theorem mem_subtractBy_of_not_mem (a : List α) (b : List U64) (w : α) (hw : w ∈ a) (hb : key w ∉ b) :
    w ∈ subtractBy key a b := by
  fun_induction subtractBy key a b with
  | case1 b => exact hw
  | case2 a _ => exact hw
  | case3 x xs ys ih =>
    rcases List.mem_cons.mp hw with rfl | hw
    · exact absurd (by simp) hb
    · exact ih hw (fun h => hb (List.mem_cons_of_mem _ h))
  | case4 x xs y ys _ _ ih =>
    rcases List.mem_cons.mp hw with rfl | hw
    · simp
    · exact List.mem_cons_of_mem _ (ih hw hb)
  | case5 x xs y ys _ _ ih => exact ih hw (fun h => hb (List.mem_cons_of_mem _ h))

/-- on ascending lists subtraction removes exactly the elements whose key occurs in `b`
(`a` strictly ascending by key) -/
theorem mem_subtractBy_iff (a : List α) (b : List U64)
    (ha : a.Pairwise (fun x y => key x < key y)) (hb : b.Pairwise (· ≤ ·)) (w : α) :
    w ∈ subtractBy key a b ↔ w ∈ a ∧ key w ∉ b := by
  fun_induction subtractBy key a b with
  | case1 b => simp
  | case2 a _ => simp
  | case3 x xs ys ih =>
    rw [List.pairwise_cons] at ha hb
    rw [ih ha.2 hb.2]
    constructor
    · rintro ⟨h1, h2⟩
      refine ⟨List.mem_cons_of_mem _ h1, ?_⟩
      intro h
      rcases List.mem_cons.mp h with h | h
      · have := ha.1 w h1
        rw [h] at this
        exact u64_lt_irrefl _ this
      · exact h2 h
    · rintro ⟨h1, h2⟩
      rcases List.mem_cons.mp h1 with rfl | h1
      · exact absurd (by simp) h2
      · exact ⟨h1, fun h => h2 (List.mem_cons_of_mem _ h)⟩
  | case4 x xs y ys hne hlt ih =>
    rw [List.pairwise_cons] at ha
    simp only [List.mem_cons, ih ha.2 hb]
    constructor
    · rintro (rfl | ⟨h1, h2⟩)
      · refine ⟨Or.inl rfl, ?_⟩
        intro h
        rcases h with h | h
        · exact hne h
        · have := (List.pairwise_cons.mp hb).1 _ h
          bv_omega
      · exact ⟨Or.inr h1, h2⟩
    · rintro ⟨h1 | h1, h2⟩
      · exact Or.inl h1
      · exact Or.inr ⟨h1, h2⟩
  | case5 x xs y ys hne hnlt ih =>
    rw [List.pairwise_cons] at hb
    rw [ih ha hb.2]
    constructor
    · rintro ⟨h1, h2⟩
      refine ⟨h1, ?_⟩
      intro h
      rcases List.mem_cons.mp h with h | h
      · -- key w = y < key x ≤ key w
        rcases List.mem_cons.mp h1 with rfl | h1
        · exact hne h
        · have := (List.pairwise_cons.mp ha).1 w h1
          bv_omega
      · exact h2 h
    · rintro ⟨h1, h2⟩
      exact ⟨h1, fun h => h2 (List.mem_cons_of_mem _ h)⟩

end subtract

theorem subtractU64_sublist (a b : List U64) : (subtractU64 a b).Sublist a := subtractBy_sublist id a b

theorem mem_subtractU64_iff (a b : List U64) (ha : a.Pairwise (· < ·)) (hb : b.Pairwise (· ≤ ·)) (w : U64) :
    w ∈ subtractU64 a b ↔ w ∈ a ∧ w ∉ b := mem_subtractBy_iff id a b ha hb w

/-- every element of a strictly ascending `a` occurs in the ascending `b`: nothing is left -/
theorem subtractU64_eq_nil (a b : List U64) (ha : a.Pairwise (· < ·)) (hb : b.Pairwise (· ≤ ·))
    (hsub : ∀ w ∈ a, w ∈ b) : subtractU64 a b = [] := by
  apply List.eq_nil_iff_forall_not_mem.mpr
  intro w hw
  have := (mem_subtractU64_iff a b ha hb w).mp hw
  exact this.2 (hsub w this.1)

/-- an uncovered element is left over (no sortedness needed) -/
theorem subtractU64_ne_nil (a b : List U64) (w : U64) (hw : w ∈ a) (hb : w ∉ b) : subtractU64 a b ≠ [] := by
  intro h
  have := mem_subtractBy_of_not_mem id a b w hw hb
  unfold subtractU64 at h
  rw [h] at this
  simp at this

/-! ### intersection -/

section subset
variable {H : Type}

theorem subsetHP_sublist (a : HP H) (b : List U64) : (subsetHP a b).Sublist a := by
  fun_induction subsetHP a b with
  | case1 b => exact List.Sublist.refl _
  | case2 a _ => exact List.nil_sublist _
  | case3 x xs ys ih => exact ih.cons_cons x
  | case4 x xs y ys _ _ ih => exact ih
  | case5 x xs y ys _ _ ih => exact ih.cons x

/-- `GetProofSubset`'s coverage check and its extraction walk the two lists in lock step: when
nothing of `b` is left after subtracting the positions of `a`, the extracted elements carry
exactly the positions `b` -/
theorem subsetHP_positions_of_subtract_nil (a : HP H) (b : List U64)
    (h : subtractU64 b a.positions = []) : (subsetHP a b).positions = b := by
  unfold subtractU64 at h
  fun_induction subsetHP a b with
  | case1 b =>
    cases b with
    | nil => rfl
    | cons y ys => simp [subtractBy, HP.positions] at h
  | case2 a _ => rfl
  | case3 x xs ys ih =>
    simp only [HP.positions, List.map_cons] at h ih ⊢
    rw [subtractBy] at h
    simp only [id, if_true] at h
    rw [ih h]
  | case4 x xs y ys hne hlt ih =>
    simp only [HP.positions, List.map_cons] at h
    rw [subtractBy] at h
    have h1 : ¬ (y = x.1) := fun e => hne e.symm
    simp [h1, hlt] at h
  | case5 x xs y ys hne hnlt ih =>
    simp only [HP.positions, List.map_cons] at h ih ⊢
    rw [subtractBy] at h
    have h1 : ¬ (y = x.1) := fun e => hne e.symm
    simp only [id, h1, if_false, hnlt] at h
    exact ih h

end subset


/-! ### the two-slice merge on slices of equal length -/

section merge2
variable {H : Type}

theorem mergeHP_nil_left (b : HP H) : mergeHP [] b = b := by
  rw [mergeHP]

theorem mergeHP_nil_right (a : HP H) : mergeHP a [] = a := by
  cases a with
  | nil => rw [mergeHP]
  | cons x xs => rw [mergeHP]; simp

variable [DecidableEq H] [Hasher H]

theorem take_append_replicate (l : List U64) (n : Nat) (h : l.length = n) :
    (l ++ List.replicate n 0#64).take n = l := by
  subst h
  simp

omit [Hasher H] in
theorem mergeHP2Go_consistent (pa : List U64) (ha : List H) (pb : List U64) (hb : List H) (debt room : Nat)
    (hd : debt = 0) (hla : ha.length = pa.length) (hlb : hb.length = pb.length)
    (hroom : pa.length + pb.length ≤ room) :
    mergeHP2Go pa ha pb hb debt room = .ok (mergeHP (pa.zip ha) (pb.zip hb)) := by
  fun_induction mergeHP2Go pa ha pb hb debt room with
  | case1 x pb hb debt room hpos => omega
  | case2 x pb hb debt room _ =>
    rename_i nh
    have hmin : nh = pb.length := by show min room hb.length = _; simp at hroom; omega
    rw [hmin]
    rw [take_append_replicate pb _ rfl]
    have : List.take pb.length hb = hb := by rw [← hlb]; simp
    rw [this, List.zip_nil_left, mergeHP_nil_left]
  | case3 va pa ha x debt room =>
    have hx : x = [] := by simpa using hlb
    subst hx
    rename_i nh
    have hmin : nh = (va :: pa).length := by show min room ha.length = _; simp at hroom hla ⊢; omega
    rw [hmin]
    rw [take_append_replicate (va :: pa) _ rfl]
    have : List.take (va :: pa).length ha = ha := by rw [← hla]; simp
    rw [this, List.zip_nil_left, mergeHP_nil_right]
  | case4 va pa vb pb hb debt room hlt h ha' ih =>
    have := ih hd (by simpa using hla) hlb (by simp at hroom ⊢; omega)
    rw [this]
    simp only [Out.bind, List.zip_cons_cons]
    cases hb with
    | nil => simp at hlb
    | cons hb0 hbs =>
      simp only [List.zip_cons_cons]
      conv => rhs; rw [mergeHP]
      simp [hlt]
  | case5 va pa vb pb hb debt room _ => simp at hla
  | case6 va pa ha vb pb hb debt room _ _ hpos => omega
  | case7 va pa ha vb pb debt room hnlt hlt _ h hb' ih =>
    have := ih rfl hla (by simpa using hlb) (by simp at hroom ⊢; omega)
    rw [this]
    simp only [Out.bind]
    cases ha with
    | nil => simp at hla
    | cons ha0 has =>
      simp only [List.zip_cons_cons]
      conv => rhs; rw [mergeHP]
      simp [hnlt, hlt]
  | case8 va pa ha vb pb debt room _ _ _ => simp at hlb
  | case9 va pa vb pb hb debt room hnlt1 hnlt2 h ha' ih =>
    cases hb with
    | nil => simp at hlb
    | cons hb0 hbs =>
      have := ih (by simp [hd]) (by simpa using hla) (by simpa using hlb) (by simp at hroom ⊢; omega)
      simp only [List.isEmpty_cons, Bool.false_eq_true, dite_false, ite_false, List.tail_cons] at this ⊢
      rw [this]
      simp only [Out.bind, List.zip_cons_cons]
      conv => rhs; rw [mergeHP]
      simp [hnlt1, hnlt2]
  | case10 va pa vb pb hb debt room _ _ => simp at hla

/-- on parallel slices of equal length the two-slice merge never panics and is the merge of
the pair lists -/
theorem mergeHP2_consistent (pa : List U64) (ha : List H) (pb : List U64) (hb : List H)
    (hla : ha.length = pa.length) (hlb : hb.length = pb.length) :
    mergeHP2 pa ha pb hb = .ok (mergeHP (pa.zip ha) (pb.zip hb)) := by
  unfold mergeHP2
  split
  · rename_i he
    have hpa : pa = [] := by simpa using he
    subst hpa
    have : ha = [] := by simpa using hla
    subst this
    have : List.take pb.length (hb ++ List.replicate pb.length (Hasher.zero : H)) = hb := by
      rw [← hlb]; simp
    rw [this]
    simp [mergeHP_nil_left]
  · split
    · rename_i _ he
      have hpb : pb = [] := by simpa using he
      subst hpb
      have : hb = [] := by simpa using hlb
      subst this
      have : List.take pa.length (ha ++ List.replicate pa.length (Hasher.zero : H)) = ha := by
        rw [← hla]; simp
      rw [this]
      simp [mergeHP_nil_right]
    · exact mergeHP2Go_consistent pa ha pb hb 0 _ rfl hla hlb (Nat.le_refl _)

end merge2


/-! ### subtraction on a `hashAndPos` acts on its positions -/

section subtractPos
variable {α : Type} (key : α → U64)

theorem map_subtractBy (a : List α) (b : List U64) :
    (subtractBy key a b).map key = subtractBy id (a.map key) b := by
  fun_induction subtractBy key a b with
  | case1 b => simp [subtractBy]
  | case2 a hne =>
    cases a with
    | nil => exact absurd rfl hne
    | cons x xs => simp [subtractBy]
  | case3 x xs ys ih =>
    simp only [List.map_cons]
    rw [subtractBy]
    simp [ih]
  | case4 x xs y ys hne hlt ih =>
    simp only [List.map_cons]
    rw [subtractBy]
    simp [hne, hlt, ih]
  | case5 x xs y ys hne hnlt ih =>
    simp only [List.map_cons] at ih ⊢
    rw [subtractBy]
    simp [hne, hnlt, ih]

end subtractPos

theorem subtractHP_positions {H : Type} (a : HP H) (b : List U64) :
    (subtractHP a b).positions = subtractU64 a.positions b := by
  unfold subtractHP subtractU64 HP.positions
  exact map_subtractBy (·.1) a b


/-! ### the fuel of the `ProofPositions` model is never what stops its loops

`GetMissingPositions`, `AddProof`, `GetProofSubset` contain no loop of their own besides the
merges/subtractions (structural) and `ProofPositions`, whose model runs on fuel.  The inner
loop advances `i` over a slice of fixed length and the outer loop advances `row` up to
`totalRows`; with the fuel the model gives them (`len + 1`, `totalRows + 1`) one more unit of
fuel changes nothing, i.e. the loops end by their own exit conditions (for `totalRows < 255`;
at `totalRows = 255` the Go loop `for row := uint8(0); row <= totalRows; row++` never ends —
unreachable from the C14 functions, which pass `TreeRows(numLeaves) ≤ 64`). -/

theorem ppInner_fuel (n : U64) (tr row : U8) : ∀ (fuel i : Nat) (s : PPSt), s.targets.length + 1 ≤ fuel + i →
    ppInner n tr row fuel i s = ppInner n tr row (fuel+1) i s := by
  intro fuel
  induction fuel with
  | zero =>
    intro i s h
    have : s.targets[i]? = none := by
      apply List.getElem?_eq_none
      omega
    simp [ppInner, this]
  | succ fuel ih =>
    intro i s h
    rw [ppInner, ppInner.eq_2 (fuel := fuel + 1)]
    cases ht : s.targets[i]? with
    | none => rfl
    | some target =>
      simp only
      split
      · exact ih _ _ (by omega)
      · split
        · exact ih _ _ (by omega)
        · split
          · exact ih _ _ (by omega)
          · split
            · split
              · exact ih _ _ (by simp; omega)
              · exact ih _ _ (by simp; omega)
            · exact ih _ _ (by simp; omega)


theorem ppOuter_fuel (n : U64) (tr : U8) (htr : tr.toNat < 255) : ∀ (fuel : Nat) (row : U8) (s : PPSt),
    tr.toNat + 1 ≤ fuel + row.toNat →
    ppOuter n tr fuel row s = ppOuter n tr (fuel+1) row s := by
  intro fuel
  induction fuel with
  | zero =>
    intro row s h
    have : row > tr := by bv_omega
    simp [ppOuter, this]
  | succ fuel ih =>
    intro row s h
    rw [ppOuter, ppOuter.eq_2 (fuel := fuel + 1)]
    split
    · rfl
    · rename_i hle
      apply ih
      have : (row + 1).toNat = row.toNat + 1 := by bv_omega
      omega

end UtreexoVerif.Proofs.ProofOps
