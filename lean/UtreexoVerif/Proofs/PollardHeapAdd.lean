/-
  Pointer forest, heap model: the addition path.
  `loop_spec`: the loop of `calculateNewRoot` merges the carried node with the popped roots
  exactly as `Spec`'s `mergeTrees` merges the trailing trees; `addOne_abs`: one addition
  preserves the abstraction relation and commutes with `Forest.add`.
-/
import UtreexoVerif.Proofs.PollardHeap
import UtreexoVerif.Proofs.SpecUndo
set_option linter.unusedSectionVars false
set_option linter.unusedVariables false
set_option linter.unusedSimpArgs false

namespace UtreexoVerif.Proofs.PollardHeap
open UtreexoVerif UtreexoVerif.Model UtreexoVerif.Model.PollardHeap UtreexoVerif.Spec Hasher

variable {H : Type} [DecidableEq H] [Hasher H]

/-- merging popped roots (highest first) into the carried tree, from the right; an empty root
is skipped -/
def mergeC (ts : List (Option (CTree H))) (acc : CTree H) : CTree H :=
  ts.foldr (fun t acc => match t with
    | some t => .node t acc
    | none => acc) acc

theorem mergeC_append (a b : List (Option (CTree H))) (acc : CTree H) :
    mergeC (a ++ b) acc = mergeC a (mergeC b acc) := by
  unfold mergeC; rw [List.foldr_append]

/-- `mergeC` is `Spec`'s `mergeTrees` on a present carried tree -/
theorem mergeTrees_eq_mergeC (ts : List (Nat × Option (CTree H))) (acc : CTree H) :
    mergeTrees ts (some acc) = some (mergeC (ts.map (·.2)) acc) := by
  induction ts with
  | nil => rfl
  | cons p ts ih =>
    unfold mergeTrees at ih ⊢
    simp only [List.foldr_cons, List.map_cons, mergeC] at ih ⊢
    rw [ih]
    cases p.2 <;> rfl

/-- **the loop of `calculateNewRoot`** on `k` trailing roots -/
theorem loop_spec : ∀ (k : Nat) (tsLow : List (Option (CTree H))), tsLow.length = k →
    ∀ (rsLow rsHigh : List Nat) (fuel h : Nat) (hp : Heap H) (nm : List (H × Nat)) (nl ndl : U64)
      (nd : Nat) (acc : CTree H) (fN : List Nat) (lN : List (H × Nat)) (ownedLow : List Nat)
      (lvLow : List (H × Nat)),
    k + 1 ≤ fuel →
    (∀ i, i < k → nl.toNat.testBit (h + i) = true) →
    nl.toNat.testBit (h + k) = false →
    ReprRoots hp rsLow tsLow ownedLow lvLow →
    RootRepr hp nd acc fN lN →
    (nd :: fN ++ ownedLow).Nodup →
    (∀ t', some t' ∈ tsLow → t'.hash ≠ zero) →
    (∃ x, hp[nd]? = some x ∧ x.remember = true) →
    ∃ nd' hp' fp',
      calculateNewRootLoop fuel h nd ⟨hp, nm, rsHigh ++ rsLow, nl, ndl, true⟩ =
        (.ok nd', ⟨hp', nm, rsHigh, nl, ndl, true⟩) ∧
      RootRepr hp' nd' (mergeC tsLow acc) fp' (lvLow ++ lN) ∧
      (nd' :: fp').Nodup ∧
      (∀ i ∈ nd' :: fp', i ∈ nd :: fN ++ ownedLow ∨ hp.size ≤ i) ∧
      hp.size ≤ hp'.size ∧
      (∀ i, i < hp.size → i ∉ nd :: fN ++ ownedLow → hp'[i]? = hp[i]?) := by
  intro k
  induction k with
  | zero =>
    intro tsLow hk rsLow rsHigh fuel h hp nm nl ndl nd acc fN lN ownedLow lvLow hfuel hbits hbit0
      hroots hN ndp hnz hrem
    have : tsLow = [] := List.length_eq_zero_iff.mp hk
    subst this
    cases hroots
    obtain ⟨f, rfl⟩ : ∃ f, fuel = f + 1 := ⟨fuel - 1, by omega⟩
    refine ⟨nd, hp, fN, ?_, ?_, ?_, ?_, Nat.le_refl _, fun _ _ _ => rfl⟩
    · rw [loop_done f h nd _ (by simpa using hbit0)]; simp
    · simpa [mergeC] using hN
    · simp only [List.append_nil] at ndp; exact ndp
    · intro i hi; left; simpa using hi
  | succ k ih =>
    intro tsLow hk rsLow rsHigh fuel h hp nm nl ndl nd acc fN lN ownedLow lvLow hfuel hbits hbit0
      hroots hN ndp hnz hrem
    obtain ⟨init, tl, rfl⟩ : ∃ init tl, tsLow = init ++ [tl] := by
      rcases List.eq_nil_or_concat tsLow with h | ⟨l', b, h⟩
      · subst h; simp at hk
      · exact ⟨l', b, by rw [h, List.concat_eq_append]⟩
    have hinit : init.length = k := by simp at hk; omega
    obtain ⟨rinit, r2, o1, o2, l1, l2, e1, e2, e3, hr1, hr2⟩ := hroots.append_inv
    obtain ⟨rl, fpl, e4, e5, hrl⟩ := hr2.single_inv
    subst e1 e2 e3 e4 e5
    obtain ⟨f, rfl⟩ : ∃ f, fuel = f + 1 := ⟨fuel - 1, by omega⟩
    have hb0 : nl.toNat.testBit h = true := by simpa using hbits 0 (by omega)
    have hbits' : ∀ i, i < k → nl.toNat.testBit (h + 1 + i) = true := by
      intro i hi; have := hbits (i + 1) (by omega); rwa [show h + (i + 1) = h + 1 + i by omega] at this
    have hbit0' : nl.toNat.testBit (h + 1 + k) = false := by
      rwa [show h + (k + 1) = h + 1 + k by omega] at hbit0
    have hlt := hroots.lt
    have hNlt : ∀ i ∈ nd :: fN, i < hp.size := by
      intro i hi
      obtain ⟨⟨x, ex, _⟩, sN⟩ := hN
      simp at hi
      rcases hi with rfl | hi
      · exact lt_of_get ex
      · exact sN.fp_lt i hi
    rw [← List.append_assoc]
    cases tl with
    | none =>
      -- an empty root: skipped
      obtain ⟨⟨rn, hr, _, hz, _, _⟩, hfp, hlv⟩ := hrl
      subst hfp hlv
      rw [loop_skip f h hp nm nl ndl true nd rl (rsHigh ++ rinit) rn hb0 hr hz]
      rw [List.append_assoc]
      obtain ⟨nd', hp', fp', h1, h2, h3, h4, h5, h6⟩ := ih init hinit rinit rsHigh f (h + 1) hp nm nl
        ndl nd acc fN lN o1 l1 (by omega) hbits' hbit0' hr1 hN
        (by simp only [List.nodup_cons, List.nodup_append, List.mem_append, List.mem_cons,
              List.cons_append, not_or] at ndp ⊢; grind)
        (fun t' ht => hnz t' (by simp [ht])) hrem
      refine ⟨nd', hp', fp', h1, ?_, h3, ?_, h5, ?_⟩
      · simpa [mergeC_append, mergeC] using h2
      · intro i hi
        rcases h4 i hi with h | h
        · left; simp only [List.mem_cons, List.mem_append, List.cons_append] at h ⊢; grind
        · right; exact h
      · intro i hi hni
        apply h6 i hi
        simp only [List.mem_cons, List.mem_append, List.cons_append, not_or] at hni ⊢; grind
    | some t =>
      -- a live root: merged
      have hRl : RootRepr hp rl t fpl l2 := hrl
      obtain ⟨⟨rn, hr, _⟩, sR⟩ := hRl
      obtain ⟨x, hx, hxrem⟩ := hrem
      have hdata : rn.data ≠ zero := by
        obtain ⟨y, ey, dy⟩ := sR.hash
        rw [hr] at ey; cases ey
        rw [dy]; exact hnz t (by simp)
      have ndm : (rl :: nd :: (fpl ++ fN)).Nodup := by
        simp only [List.nodup_cons, List.nodup_append, List.mem_append, List.mem_cons,
          List.cons_append, not_or] at ndp ⊢; grind
      rw [loop_merge f h hp nm nl ndl nd rl (rsHigh ++ rinit) rn x hb0 hrl hN hr hx ndm hdata hxrem]
      obtain ⟨m1, m2, m3⟩ := mergeHeap_repr hrl hN hr hx ndm
      have hsz := size_mergeHeap hp rl nd rn x
      rw [List.append_assoc]
      have hr1' : ReprRoots (mergeHeap hp rl nd rn x) rinit init o1 l1 := by
        apply hr1.frame
        intro i hi
        have hi' := hr1.lt i hi
        apply m2 i
        all_goals (simp only [List.nodup_cons, List.nodup_append, List.mem_append, List.mem_cons,
          List.cons_append, not_or] at ndp ⊢; grind)
      obtain ⟨nd', hp', fp', h1, h2, h3, h4, h5, h6⟩ := ih init hinit rinit rsHigh f (h + 1)
        (mergeHeap hp rl nd rn x) nm nl ndl hp.size (.node t acc) (rl :: nd :: (fpl ++ fN)) (l2 ++ lN)
        o1 l1 (by omega) hbits' hbit0' hr1' m1
        (by
          have hlt1 := hr1.lt
          have hlt2 := hrl.lt
          simp only [List.nodup_cons, List.nodup_append, List.mem_append, List.mem_cons,
            List.cons_append, not_or] at ndp hNlt hlt2 ⊢
          refine ⟨?_, ?_⟩
          · have a := hlt2 rl (Or.inl rfl)
            have b := hNlt nd (Or.inl rfl)
            refine ⟨by omega, by omega, ⟨fun h => ?_, fun h => ?_⟩, fun h => ?_⟩
            · have := hlt2 _ (Or.inr h); omega
            · have := hNlt _ (Or.inr h); omega
            · have := hlt1 _ h; omega
          · grind)
        (fun t' ht => hnz t' (by simp [ht])) m3
      refine ⟨nd', hp', fp', h1, ?_, h3, ?_, by omega, ?_⟩
      · simpa [mergeC_append, mergeC, List.append_assoc] using h2
      · intro i hi
        rcases h4 i hi with h | h
        · simp only [List.mem_cons, List.mem_append, List.cons_append] at h ⊢
          rcases h with h | h
          · right; omega
          · left; grind
        · right; omega
      · intro i hi hni
        rw [h6 i (by omega)]
        · apply m2 i
          all_goals (simp only [List.mem_cons, List.mem_append, List.cons_append, not_or] at hni ⊢; grind)
        · simp only [List.mem_cons, List.mem_append, List.cons_append, not_or] at hni ⊢
          refine ⟨by omega, ?_⟩
          grind

/-! ### one addition -/

/-- every present tree of the forest has a non-zero root hash (what lets `calculateNewRoot`
recognise empty roots by their all-zero data) -/
def TreesNZ (F : Forest H) : Prop := ∀ q ∈ F.trees, ∀ t', q.2 = some t' → t'.hash ≠ (zero : H)

theorem mapSet_new (m : List (H × Nat)) (k : H) (v : Nat) (hk : k ∉ m.map (·.1)) :
    mapSet m k v = (k, v) :: m := by
  unfold mapSet
  have : m.lookup k = none := by
    rw [List.lookup_eq_none_iff]
    intro q hq
    simp only [bne_iff_ne, ne_eq]
    intro e; exact hk (by rw [e]; exact List.mem_map_of_mem hq)
  simp [this]

theorem hash_mergeC_ne_zero (hph : ∀ a b : H, ph a b ≠ (zero : H)) (ts : List (Option (CTree H)))
    (acc : CTree H) (hacc : acc.hash ≠ zero) : (mergeC ts acc).hash ≠ zero := by
  induction ts with
  | nil => exact hacc
  | cons t ts ih =>
    unfold mergeC at ih ⊢
    simp only [List.foldr_cons]
    cases t with
    | none => exact ih
    | some t => exact hph _ _

theorem treesNZ_add (hph : ∀ a b : H, ph a b ≠ (zero : H)) {F : Forest H} (h : TreesNZ F) (x : H)
    (hx : x ≠ zero) (hn : F.numLeaves < 2 ^ 64) : TreesNZ (F.add x) := by
  obtain ⟨t, c, hF⟩ := exists_trailing_ones F.numLeaves
  have ht := trailing_le_of_lt hF hn
  intro q hq t' ht'
  rw [trees_add_decomp F x hF ht] at hq
  rw [List.mem_append] at hq
  rcases hq with hq | hq
  · apply h q _ t' ht'
    rw [trees_decomp F hF (by omega)]
    exact List.mem_append_left _ hq
  · simp only [List.mem_singleton] at hq
    subst hq
    rw [mergeTrees_eq_mergeC] at ht'
    simp only [Option.some.injEq] at ht'
    subst ht'
    exact hash_mergeC_ne_zero hph _ _ hx

/-- **One addition** (`addOne` = one iteration of `Pollard.add`, incl. `calculateNewRoot` over
live and empty roots): on a full pollard representing `F` it succeeds and the result
represents `F.add x`. -/
theorem addOne_abs_full {p : Pollard H} {F : Forest H} (a : Abs p F) (hfull : p.full = true)
    (hn : F.numLeaves + 1 < 2 ^ 64) (x : H) (rem : Bool) (hx : x ∉ p.nodeMap.map (·.1))
    (hnz : TreesNZ F) :
    ∃ p', addOne (x, rem) p = (.ok (), p') ∧ Abs p' (F.add x) ∧ p'.full = true ∧
      p'.nodeMap = (x, p.heap.size) :: p.nodeMap ∧ p'.numDels = p.numDels := by
  obtain ⟨hp, nm, roots, nl, ndl, full⟩ := p
  simp only at hfull hx
  subst hfull
  obtain ⟨hnl, owned, lv, hroots, hnd, hmk, hm⟩ := a
  simp only at hnl hroots hm hmk
  obtain ⟨t, c, hF⟩ := exists_trailing_ones F.numLeaves
  have ht : t ≤ 64 := trailing_le_of_lt hF (by omega)
  rw [trees_decomp F hF (by omega), List.map_append] at hroots
  obtain ⟨rsHigh, rsLow, oHigh, oLow, lHigh, lLow, e1, e2, e3, hHigh, hLow⟩ := hroots.append_inv
  subst e1 e2 e3
  -- the heap after allocating the leaf
  obtain ⟨hp0, hp0_def⟩ : ∃ hp0 : Heap H, hp0 = (hp.push { data := x, remember := rem }).modify hp.size
      (fun y => { y with remember := true }) := ⟨_, rfl⟩
  have e0 : ∀ j, hp0[j]? = if j = hp.size then some { data := x, remember := true } else hp[j]? := by
    intro j
    rw [hp0_def, Array.getElem?_modify, Array.getElem?_push]
    by_cases hj : j = hp.size
    · subst hj; simp
    · simp [hj, Ne.symm hj]
  have hsz0 : hp0.size = hp.size + 1 := by rw [hp0_def]; simp
  have e0' : ∀ j, j < hp.size → hp0[j]? = hp[j]? := by
    intro j hj; rw [e0, if_neg (by omega)]
  have eleaf : hp0[hp.size]? = some { data := x, remember := true } := by rw [e0]; simp
  have hLow0 : ReprRoots hp0 rsLow _ oLow lLow := hLow.frame (fun i hi => e0' i (hLow.lt i hi))
  have hN0 : RootRepr hp0 hp.size (.leaf x) [] [(x, hp.size)] :=
    ⟨⟨_, eleaf, rfl⟩, Sub.leaf eleaf rfl eleaf rfl rfl⟩
  have hnlbits : nl.toNat = 2 ^ (t + 1) * c + (2 ^ t - 1) := hnl.trans hF
  obtain ⟨nd', hp', fp', h1, h2, h3, h4, h5, h6⟩ := loop_spec t ((onesTrees t (F.slots.drop (2 ^ (t + 1) * c))).map (·.2))
    (by simp [onesTrees_length]) rsLow rsHigh 65 0 hp0 ((x, hp.size) :: nm) nl ndl hp.size (.leaf x) []
    [(x, hp.size)] oLow lLow (by omega)
    (by intro i hi; rw [hnlbits, Nat.zero_add]; exact testBit_trailing_low hi)
    (by rw [hnlbits, Nat.zero_add]; exact testBit_trailing_at)
    hLow0 hN0
    (by
      have := hLow.lt
      simp only [List.nil_append, List.cons_append, List.nodup_cons]
      refine ⟨fun h => ?_, ?_⟩
      · have := this _ h; omega
      · simp only [List.nodup_append] at hnd; exact hnd.2.1)
    (by
      intro t' ht'
      simp only [List.mem_map] at ht'
      obtain ⟨q, hq, e⟩ := ht'
      apply hnz q _ t' e
      rw [trees_decomp F hF (by omega)]
      exact List.mem_append_right _ hq)
    ⟨_, eleaf, rfl⟩
  refine ⟨⟨hp', (x, hp.size) :: nm, rsHigh ++ [nd'], nl + 1#64, ndl, true⟩, ?_, ?_, rfl, rfl, rfl⟩
  · -- execution
    unfold addOne calculateNewRoot
    simp only [bind_apply, alloc_apply, getFull_apply, if_true, setNode_apply, node_apply,
      ← hp0_def, eleaf, nodeMapSet, modifyS_apply, mapSet_new nm x hp.size hx, h1]
  · -- abstraction
    refine ⟨?_, ?_⟩
    · show (nl + 1#64).toNat = (F.add x).numLeaves
      rw [numLeaves_add, BitVec.toNat_add]; simp; omega
    · show ∃ owned lv, ReprRoots hp' (rsHigh ++ [nd']) ((F.add x).trees.map (·.2)) owned lv ∧ _ ∧ _
      rw [trees_add_decomp F x hF ht, List.map_append]
      simp only [List.map_cons, List.map_nil, mergeTrees_eq_mergeC]
      have hHigh' : ReprRoots hp' rsHigh ((treesL (F.slots.take (2 ^ (t + 1) * c))).map (·.2))
          oHigh lHigh := by
        apply hHigh.frame
        intro i hi
        have hi' := hHigh.lt i hi
        rw [h6 i (by omega), e0' i hi']
        simp only [List.mem_append, List.mem_singleton, not_or]
        refine ⟨by omega, fun h => ?_⟩
        simp only [List.nodup_append] at hnd
        exact hnd.2.2 i hi i h rfl
      refine ⟨oHigh ++ (nd' :: fp'), lHigh ++ (lLow ++ [(x, hp.size)]),
        hHigh'.append (ReprRoots.single (t := some _) h2), ?_, ?_⟩
      · rw [List.nodup_append]
        simp only [List.nodup_append] at hnd
        refine ⟨hnd.1, h3, ?_⟩
        intro i hi j hj e
        subst e
        have hi' := hHigh.lt i hi
        rcases h4 i hj with h | h
        · simp only [List.mem_append, List.mem_singleton] at h
          rcases h with h | h
          · omega
          · exact hnd.2.2 i hi i h rfl
        · omega
      · refine ⟨?_, ?_⟩
        · simp only [List.map_cons, List.nodup_cons]
          exact ⟨hx, hmk⟩
        · intro e
          simp only [List.mem_cons, List.mem_append, hm e, List.not_mem_nil, or_false]
          constructor
          · rintro (h | h | h)
            · exact Or.inr (Or.inr h)
            · exact Or.inl h
            · exact Or.inr (Or.inl h)
          · rintro (h | h | h)
            · exact Or.inr (Or.inl h)
            · exact Or.inr (Or.inr h)
            · exact Or.inl h

/-- one addition (statement without the `NumDels` clause) -/
theorem addOne_abs {p : Pollard H} {F : Forest H} (a : Abs p F) (hfull : p.full = true)
    (hn : F.numLeaves + 1 < 2 ^ 64) (x : H) (rem : Bool) (hx : x ∉ p.nodeMap.map (·.1))
    (hnz : TreesNZ F) :
    ∃ p', addOne (x, rem) p = (.ok (), p') ∧ Abs p' (F.add x) ∧ p'.full = true ∧
      p'.nodeMap = (x, p.heap.size) :: p.nodeMap := by
  obtain ⟨p', h1, h2, h3, h4, _⟩ := addOne_abs_full a hfull hn x rem hx hnz
  exact ⟨p', h1, h2, h3, h4⟩

/-- **`Pollard.add`**: any list of distinct, non-zero, not yet tracked leaves (`NumDels` is not
touched) -/
theorem add_abs_full (hph : ∀ a b : H, ph a b ≠ (zero : H)) : ∀ (adds : List (H × Bool)) {p : Pollard H}
    {F : Forest H}, Abs p F → p.full = true → F.numLeaves + adds.length < 2 ^ 64 →
    (adds.map (·.1)).Nodup → (∀ e ∈ adds, e.1 ∉ p.nodeMap.map (·.1) ∧ e.1 ≠ zero) → TreesNZ F →
    ∃ p', add adds p = (.ok (), p') ∧ Abs p' (F.addMany (adds.map (·.1))) ∧ p'.full = true ∧
      TreesNZ (F.addMany (adds.map (·.1))) ∧ p'.numDels = p.numDels := by
  intro adds
  induction adds with
  | nil =>
    intro p F a hfull hn hnd hx hnz
    exact ⟨p, rfl, by simpa [addMany_nil] using a, hfull, by simpa [addMany_nil] using hnz, rfl⟩
  | cons e adds ih =>
    intro p F a hfull hn hnd hx hnz
    simp only [List.length_cons] at hn
    simp only [List.map_cons, List.nodup_cons] at hnd
    obtain ⟨p1, h1, a1, f1, m1, d1⟩ := addOne_abs_full a hfull (by omega) e.1 e.2
      (hx e (by simp)).1 hnz
    have hnz1 := treesNZ_add hph hnz e.1 (hx e (by simp)).2 (by omega)
    obtain ⟨p2, h2, a2, f2, z2, d2⟩ := ih a1 f1 (by rw [numLeaves_add]; omega) hnd.2
      (by
        intro e' he'
        refine ⟨?_, (hx e' (by simp [he'])).2⟩
        rw [m1]
        simp only [List.map_cons, List.mem_cons, not_or]
        refine ⟨?_, (hx e' (by simp [he'])).1⟩
        intro h
        exact hnd.1 (by rw [← h]; exact List.mem_map_of_mem he'))
      hnz1
    refine ⟨p2, ?_, ?_, f2, ?_, d2.trans d1⟩
    · show (addOne e >>= fun _ => add adds) p = _
      simp only [bind_apply]
      rw [show addOne e p = (Out.ok (), p1) from h1]
      exact h2
    · rw [List.map_cons, addMany_cons]; exact a2
    · rw [List.map_cons, addMany_cons]; exact z2

/-- **`Pollard.add`** (statement without the `NumDels` clause) -/
theorem add_abs (hph : ∀ a b : H, ph a b ≠ (zero : H)) (adds : List (H × Bool)) {p : Pollard H}
    {F : Forest H} (a : Abs p F) (hfull : p.full = true) (hn : F.numLeaves + adds.length < 2 ^ 64)
    (hnd : (adds.map (·.1)).Nodup) (hx : ∀ e ∈ adds, e.1 ∉ p.nodeMap.map (·.1) ∧ e.1 ≠ zero)
    (hnz : TreesNZ F) :
    ∃ p', add adds p = (.ok (), p') ∧ Abs p' (F.addMany (adds.map (·.1))) ∧ p'.full = true ∧
      TreesNZ (F.addMany (adds.map (·.1))) := by
  obtain ⟨p', h1, h2, h3, h4, _⟩ := add_abs_full hph adds a hfull hn hnd hx hnz
  exact ⟨p', h1, h2, h3, h4⟩

/-! ### the empty accumulator -/

theorem abs_new : Abs (newAccumulator : Pollard H) Forest.empty := by
  refine ⟨rfl, [], [], ?_, List.nodup_nil, ⟨List.nodup_nil, fun e => Iff.rfl⟩⟩
  have : (Forest.empty : Forest H).trees = [] := by
    simp [Forest.trees, Forest.empty, Forest.numLeaves, treeRows]
    decide
  rw [this]
  exact ReprRoots.nil

theorem treesNZ_empty : TreesNZ (Forest.empty : Forest H) := by
  intro q hq
  have : (Forest.empty : Forest H).trees = [] := by
    simp [Forest.trees, Forest.empty, Forest.numLeaves, treeRows]
    decide
  rw [this] at hq; cases hq

/-! ### `GetRoots` on a represented forest -/

def rootHashO : Option (CTree H) → H
  | some t => t.hash
  | none => zero

theorem rootData_repr {hp : Heap H} {rs : List Nat} {ts : List (Option (CTree H))} {owned : List Nat}
    {lv : List (H × Nat)} (h : ReprRoots hp rs ts owned lv) (s : Pollard H) (hs : s.heap = hp) :
    rootData rs s = (.ok (ts.map rootHashO), s) := by
  induction h with
  | nil => rfl
  | @cons r t fp lv rs ts owned lvs h1 h2 ih =>
    have hr : ∃ rn, hp[r]? = some rn ∧ rn.data = rootHashO t := by
      cases t with
      | none =>
        obtain ⟨⟨rn, e1, _, e2, _⟩, _⟩ := h1
        exact ⟨rn, e1, e2⟩
      | some t =>
        obtain ⟨_, hsub⟩ := h1
        exact hsub.hash
    obtain ⟨rn, e1, e2⟩ := hr
    unfold rootData
    simp only [bind_apply, node_apply, hs, e1, ih, pure_apply, List.map_cons, e2]

/-- `GetRoots` of a heap representing `F` returns `F.roots` -/
theorem getRoots_abs {p : Pollard H} {F : Forest H} (a : Abs p F) :
    getRootHashes p = (.ok F.roots, p) := by
  obtain ⟨_, owned, lv, h, _⟩ := a
  unfold getRootHashes
  simp only [bind_apply, getRoots_apply, rootData_repr h p rfl]
  congr 2
  unfold Forest.roots
  rw [List.map_map]
  apply List.map_congr_left
  intro q _
  obtain ⟨a, b⟩ := q
  cases b <;> rfl

end UtreexoVerif.Proofs.PollardHeap
