/-
  Pointer forest, heap model: `undoSingleDel`, branch "the original parent of the deleted node
  is not a root" — the inverse of the surgery of `deleteSingle`.

  Names: `nd` = the root of the detached sub-tree to re-insert (carries `a`), `B` = the node now
  sitting where the parent used to be (carries `b`, it moved up when `a` died), `S` = its
  sibling, `HG` = their aunt, `P'` = the freshly allocated parent.
-/
import UtreexoVerif.Proofs.PollardHeapUndoAdds
set_option linter.unusedSectionVars false
set_option linter.unusedVariables false
set_option linter.unusedSimpArgs false

namespace UtreexoVerif.Proofs.PollardHeap
open UtreexoVerif UtreexoVerif.GoInt UtreexoVerif.Model UtreexoVerif.Model.PollardHeap UtreexoVerif.Spec Hasher
open UtreexoVerif.Model.PollardAbs

variable {H : Type} [DecidableEq H] [Hasher H]

/-! ### `transferAunt(a, b)` when `a` has no aunt -/

def ta0Heap (hp : Heap H) (a b ba : Nat) (ban : PolNode H) : Heap H :=
  (if ban.lNiece = some b then hp.modify ba (fun x => { x with lNiece := some a })
    else hp.modify ba (fun x => { x with rNiece := some a })).modify a
    (fun x => { x with aunt := some ba })

@[simp] theorem size_ta0Heap (hp : Heap H) (a b ba : Nat) (ban : PolNode H) :
    (ta0Heap hp a b ba ban).size = hp.size := by
  unfold ta0Heap; split <;> simp

theorem getElem?_ta0Heap {hp : Heap H} {a b ba : Nat} {an ban : PolNode H} (h2 : a ≠ ba)
    (ha : hp[a]? = some an) (hba : hp[ba]? = some ban) (j : Nat) :
    (ta0Heap hp a b ba ban)[j]? =
      if j = a then some { an with aunt := some ba }
      else if j = ba then some (replK ban b a)
      else hp[j]? := by
  unfold ta0Heap replK
  by_cases c2 : ban.lNiece = some b <;>
    simp only [c2, if_true, if_false, Array.getElem?_modify] <;>
    (by_cases e1 : j = a
     · subst e1; simp [h2, Ne.symm h2, ha]
     · by_cases e3 : j = ba
       · subst e3; simp [e1, Ne.symm e1, hba]
       · simp [e1, e3, Ne.symm e1, Ne.symm e3])

theorem transferAunt_exec0 (s : Pollard H) (a b ba : Nat) (an bn ban : PolNode H)
    (ha : s.heap[a]? = some an) (hb : s.heap[b]? = some bn) (hba : s.heap[ba]? = some ban)
    (aunt_a : an.aunt = none) (aunt_b : bn.aunt = some ba) (kb : isKid ban b)
    (d2 : a ≠ b) (d3 : a ≠ ba) (d6 : b ≠ ba)
    (hset : Settled (ta0Heap s.heap a b ba ban) ba) :
    transferAunt (some a) (some b) s = (.ok (), { s with heap := ta0Heap s.heap a b ba ban }) := by
  have eU := updateAunt'_settled ba { s with heap := ta0Heap s.heap a b ba ban } hset
  unfold ta0Heap at eU ⊢
  by_cases c2 : ban.lNiece = some b
  · simp only [c2, if_true] at eU ⊢
    unfold transferAunt
    simp only [bind_apply, deref_some, node_apply, ha, aunt_a, pure_apply, hb, aunt_b, hba, c2,
      if_true, setNode_apply, Array.getElem?_modify, Ne.symm d6, Ne.symm d3, if_false,
      Option.map_some]
    exact eU
  · have c2' : ban.rNiece = some b := by rcases kb with k | k; exact absurd k c2; exact k
    simp only [c2, if_false] at eU ⊢
    unfold transferAunt
    simp only [bind_apply, deref_some, node_apply, ha, aunt_a, pure_apply, hb, aunt_b, hba, c2, c2',
      if_true, if_false, setNode_apply, Array.getElem?_modify, Ne.symm d6, Ne.symm d3,
      Option.map_some]
    exact eU

/-! ### the surgery -/

theorem unsurgeryAunt {hp : Heap H} {nd B S HG : Nat} {ndn bn sn hgn : PolNode H}
    {a b ts : CTree H} {fa fb fs : List Nat} {la lb ls : List (H × Nat)} (dl : Bool)
    (pnode : PolNode H) (hpl : pnode.lNiece = none) (hpr : pnode.rNiece = none)
    (hpa : pnode.aunt = none)
    (hnd : hp[nd]? = some ndn) (hB : hp[B]? = some bn) (hS : hp[S]? = some sn)
    (hHG : hp[HG]? = some hgn)
    (aN : ndn.aunt = none) (aB : bn.aunt = some HG) (aS : sn.aunt = some HG)
    (kHG : (hgn.lNiece = some B ∧ hgn.rNiece = some S) ∨ (hgn.lNiece = some S ∧ hgn.rNiece = some B))
    (subA : Sub hp nd nd a fa la) (subB : Sub hp B S b fb lb) (subS : Sub hp S B ts fs ls)
    (ndp : (HG :: nd :: B :: S :: (fa ++ fb ++ fs)).Nodup)
    (nm : List (H × Nat)) (rs : List Nat) (nl ndl : U64) (full : Bool) :
    ∃ h1 h2 h4 h5 h7 : Heap H,
      transferAunt (some hp.size) (some B) ⟨hp.push pnode, nm, rs, nl, ndl, full⟩ =
        (.ok (), ⟨h1, nm, rs, nl, ndl, full⟩) ∧
      transferNiece (some hp.size) (some B) ⟨h1, nm, rs, nl, ndl, full⟩ =
        (.ok (), ⟨h2, nm, rs, nl, ndl, full⟩) ∧
      updateAunt' (some hp.size) ⟨h2, nm, rs, nl, ndl, full⟩ = (.ok (), ⟨h2, nm, rs, nl, ndl, full⟩) ∧
      h2[S]? = some sn ∧
      updateAunt' (some S) ⟨(h2.modify S (fun x => { x with lNiece := if dl then some nd else some B })).modify S
          (fun x => { x with rNiece := if dl then some B else some nd }), nm, rs, nl, ndl, full⟩ =
        (.ok (), ⟨h4, nm, rs, nl, ndl, full⟩) ∧
      transferNiece (some B) (some nd) ⟨h4, nm, rs, nl, ndl, full⟩ =
        (.ok (), ⟨h5, nm, rs, nl, ndl, full⟩) ∧
      updateAunt' (some nd) ⟨(h5.modify nd (fun x => { x with lNiece := sn.lNiece })).modify nd
          (fun x => { x with rNiece := sn.rNiece }), nm, rs, nl, ndl, full⟩ =
        (.ok (), ⟨h7, nm, rs, nl, ndl, full⟩) ∧
      h7.size = hp.size + 1 ∧
      (∀ j, j ∉ HG :: nd :: B :: S :: (fa ++ fb ++ fs) → j ≠ hp.size → h7[j]? = hp[j]?) ∧
      h7[HG]? = some (replK hgn B hp.size) ∧
      (∃ x, h7[hp.size]? = some x ∧ x.aunt = some HG) ∧
      (∃ x, h7[S]? = some x ∧ x.aunt = some HG ∧ x.data = sn.data ∧
        x.lNiece = (if dl then some nd else some B) ∧ x.rNiece = (if dl then some B else some nd)) ∧
      (∃ x, h7[nd]? = some x ∧ x.aunt = some S) ∧ (∃ x, h7[B]? = some x ∧ x.aunt = some S) ∧
      Sub h7 nd B a fa la ∧ Sub h7 B nd b fb lb ∧ Sub h7 S hp.size ts fs ls := by
  -- distinctness and bounds
  have ndx := ndp
  simp only [List.nodup_cons, List.mem_cons, List.mem_append, not_or, List.nodup_append] at ndx
  obtain ⟨⟨nHGn, nHGB, nHGS, ⟨nHGfa, nHGfb⟩, nHGfs⟩, ⟨nnB, nnS, ⟨nnfa, nnfb⟩, nnfs⟩,
    ⟨nBS, ⟨nBfa, nBfb⟩, nBfs⟩, ⟨⟨nSfa, nSfb⟩, nSfs⟩, ⟨ndfa, ndfb, dab⟩, ndfs, dabs⟩ := ndx
  have ltHG := lt_of_get hHG
  have ltn := lt_of_get hnd
  have ltB := lt_of_get hB
  have ltS := lt_of_get hS
  have ltfa := subA.fp_lt
  have ltfb := subB.fp_lt
  have ltfs := subS.fp_lt
  -- nieces
  have kbn : ∀ j, isKid bn j → j ∈ fs := fun j k => subS.kid_mem hB k
  have ksn : ∀ j, isKid sn j → j ∈ fb := fun j k => subB.kid_mem hS k
  have knn : ∀ j, isKid ndn j → j ∈ fa := fun j k => subA.kid_mem hnd k
  have khgB : isKid hgn B := by rcases kHG with h | h; exact Or.inl h.1; exact Or.inr h.2
  obtain ⟨P', hP'⟩ : ∃ P', P' = hp.size := ⟨_, rfl⟩
  rw [← hP']
  -- the heap after the allocation
  obtain ⟨h0, h0_def⟩ : ∃ h0, h0 = hp.push pnode := ⟨_, rfl⟩
  have e0 : ∀ j, h0[j]? = if j = P' then some pnode else hp[j]? := by
    intro j
    rw [h0_def, Array.getElem?_push, hP']
  have e0' : ∀ j, j < hp.size → h0[j]? = hp[j]? := by
    intro j hj; rw [e0, if_neg (by omega)]
  have hP0 : h0[P']? = some pnode := by rw [e0, if_pos rfl]
  rw [← h0_def]
  -- step 1: transferAunt(P', B)
  obtain ⟨h1, h1_def⟩ : ∃ h1, h1 = ta0Heap h0 P' B HG hgn := ⟨_, rfl⟩
  have e1 : ∀ j, h1[j]? = if j = P' then some { pnode with aunt := some HG }
      else if j = HG then some (replK hgn B P') else h0[j]? := by
    intro j; rw [h1_def]
    exact getElem?_ta0Heap (by omega) hP0 ((e0' HG ltHG).trans hHG) j
  have set1 : Settled h1 HG := by
    refine ⟨replK hgn B P', by rw [e1, if_neg (by omega), if_pos rfl], ?_, ?_⟩
    · intro l hl
      rcases kHG with ⟨k1, k2⟩ | ⟨k1, k2⟩
      · have : l = P' := by unfold replK at hl; rw [if_pos k1] at hl; simpa using hl.symm
        rw [this]; exact ⟨_, by rw [e1, if_pos rfl], rfl⟩
      · have hne : hgn.lNiece ≠ some B := by rw [k1]; intro e; cases e; exact nBS rfl
        have : l = S := by
          unfold replK at hl; rw [if_neg hne] at hl; simp only [k1] at hl; simpa using hl.symm
        rw [this]
        exact ⟨sn, by rw [e1, if_neg (by omega), if_neg (Ne.symm nHGS), e0' S ltS]; exact hS, aS⟩
    · intro hnone
      exfalso
      rcases kHG with ⟨k1, k2⟩ | ⟨k1, k2⟩
      · unfold replK at hnone; rw [if_pos k1] at hnone; cases hnone
      · have hne : hgn.lNiece ≠ some B := by rw [k1]; intro e; cases e; exact nBS rfl
        unfold replK at hnone; rw [if_neg hne] at hnone; simp only [k1] at hnone; cases hnone
  have x1 := transferAunt_exec0 (⟨h0, nm, rs, nl, ndl, full⟩ : Pollard H) P' B HG pnode bn hgn hP0
    ((e0' B ltB).trans hB) ((e0' HG ltHG).trans hHG) hpa aB khgB (by omega) (by omega)
    (Ne.symm nHGB) (by rw [← h1_def]; exact set1)
  rw [← h1_def] at x1
  -- step 2: transferNiece(P', B)
  have hB1 : h1[B]? = some bn := by
    rw [e1, if_neg (by omega), if_neg (Ne.symm nHGB), e0' B ltB]; exact hB
  have hP1 : h1[P']? = some { pnode with aunt := some HG } := by rw [e1, if_pos rfl]
  have eR2 := getElem?_tnRaw (show P' ≠ B by omega) hP1 hB1
  have u2 : Unsettled (tnRaw h1 P' B bn) P' := by
    apply subS.unsettled ndfs (fun h => by have := ltfs _ h; omega) (show B ≠ P' by omega)
      (x := { ({ pnode with aunt := some HG } : PolNode H) with lNiece := bn.lNiece, rNiece := bn.rNiece })
    · rw [eR2, if_pos rfl]
    · intro x hx; rw [hB] at hx; cases hx; exact ⟨rfl, rfl⟩
    · intro i hi
      have := ltfs i hi
      have i2 : i ≠ B := fun e => nBfs (e ▸ hi)
      have i4 : i ≠ HG := fun e => nHGfs (e ▸ hi)
      rw [eR2, if_neg (by omega), if_neg i2, e1, if_neg (by omega), if_neg i4, e0' i this]
  obtain ⟨h2, h2_def⟩ : ∃ h2, h2 = tnHeap h1 P' B bn := ⟨_, rfl⟩
  have x2 := transferNiece_exec (⟨h1, nm, rs, nl, ndl, full⟩ : Pollard H) P' B bn hB1 u2
  rw [← h2_def] at x2
  have e2 : ∀ j, h2[j]? =
      if j = P' then some { ({ pnode with aunt := some HG } : PolNode H) with lNiece := bn.lNiece, rNiece := bn.rNiece }
      else if j = B then some { bn with lNiece := none, rNiece := none }
      else if isKid bn j then (h1[j]?).map (fun x => { x with aunt := some P' })
      else h1[j]? := by
    intro j; rw [h2_def]
    exact getElem?_tnHeap (show P' ≠ B by omega) hP1 hB1
      (fun j k => ⟨fun e => by have := ltfs j (kbn j k); omega, fun e => nBfs (e ▸ kbn j k)⟩) j
  have hP2 : h2[P']? = some { ({ pnode with aunt := some HG } : PolNode H) with lNiece := bn.lNiece, rNiece := bn.rNiece } := by
    rw [e2, if_pos rfl]
  -- step 3: updateAunt(P'): settled
  have set2 : Settled h2 P' := by
    refine ⟨_, hP2, ?_, ?_⟩
    · intro l hl
      have k : isKid bn l := Or.inl hl
      obtain ⟨x, ex, _⟩ := subS.kid_exists hB k
      have hl' := kbn l k
      have := ltfs l hl'
      have l2 : l ≠ B := fun e => nBfs (e ▸ hl')
      have l4 : l ≠ HG := fun e => nHGfs (e ▸ hl')
      exact ⟨_, by rw [e2, if_neg (by omega), if_neg l2, if_pos k, e1, if_neg (by omega), if_neg l4,
        e0' l this, ex]; rfl, rfl⟩
    · intro hnone r hr
      have := subS.both_or_none hB hnone
      simp only at hr; rw [this] at hr; cases hr
  have x3 := updateAunt'_settled P' (⟨h2, nm, rs, nl, ndl, full⟩ : Pollard H) set2
  -- generic look-up in `h2`
  have e2f : ∀ j, j < hp.size → j ≠ B → j ≠ HG → ¬ isKid bn j → h2[j]? = hp[j]? := by
    intro j j1 j2 j3 j4
    rw [e2, if_neg (by omega), if_neg j2, if_neg j4, e1, if_neg (by omega), if_neg j3, e0' j j1]
  have hS2 : h2[S]? = some sn := by
    rw [e2f S ltS (Ne.symm nBS) (Ne.symm nHGS) (fun k => nSfs (kbn S k))]; exact hS
  have hn2 : h2[nd]? = some ndn := by
    rw [e2f nd ltn nnB (Ne.symm nHGn) (fun k => nnfs (kbn nd k))]; exact hnd
  have hB2 : h2[B]? = some { bn with lNiece := none, rNiece := none } := by
    rw [e2, if_neg (by omega), if_pos rfl]
  -- step 4/5: the nieces of `S`, `updateAunt(S)`
  obtain ⟨h3, h3_def⟩ : ∃ h3, h3 = (h2.modify S (fun x => { x with lNiece := if dl then some nd else some B })).modify S
      (fun x => { x with rNiece := if dl then some B else some nd }) := ⟨_, rfl⟩
  have e3 : ∀ j, h3[j]? = if j = S then some { sn with lNiece := (if dl then some nd else some B), rNiece := (if dl then some B else some nd) } else h2[j]? := by
    intro j
    rw [h3_def]
    simp only [Array.getElem?_modify]
    by_cases hj : j = S
    · subst hj; simp [hS2]
    · simp [hj, Ne.symm hj]
  have hn3 : h3[nd]? = some ndn := by rw [e3, if_neg nnS]; exact hn2
  have hB3 : h3[B]? = some { bn with lNiece := none, rNiece := none } := by rw [e3, if_neg nBS]; exact hB2
  have gnd : ∀ y, ndn.lNiece = some y → y ≠ nd ∧ y ≠ B ∧ ∃ yn, h3[y]? = some yn ∧ yn.aunt = some nd := by
    intro y hy
    have k : isKid ndn y := Or.inl hy
    have hy' := knn y k
    obtain ⟨x, ex, ax⟩ := subA.kid_exists hnd k
    have y1 : y ≠ nd := fun e => nnfa (e ▸ hy')
    have y2 : y ≠ B := fun e => nBfa (e ▸ hy')
    have y3 : y ≠ S := fun e => nSfa (e ▸ hy')
    have y4 : y ≠ HG := fun e => nHGfa (e ▸ hy')
    have y5 : ¬ isKid bn y := fun k' => dabs y (Or.inl hy') y (kbn y k') rfl
    exact ⟨y1, y2, x, by rw [e3, if_neg y3, e2f y (ltfa y hy') y2 y4 y5]; exact ex, ax⟩
  have u5 : Unsettled h3 S := by
    refine ⟨_, by rw [e3, if_pos rfl], Or.inr ?_⟩
    cases dl
    · refine ⟨B, nd, _, _, rfl, rfl, hB3, hn3, Ne.symm nnB, nBS, nnS, by simp [aB]; exact nHGS,
        by simp [aN], ?_, ?_, ?_, ?_⟩
      · intro y hy; simp at hy
      · intro _; rfl
      · intro y hy
        obtain ⟨y1, y2, h⟩ := gnd y hy
        exact ⟨y2, y1, h⟩
      · exact subA.both_or_none hnd
    · refine ⟨nd, B, _, _, rfl, rfl, hn3, hB3, nnB, nnS, nBS, by simp [aN],
        by simp [aB]; exact nHGS, ?_, ?_, ?_, ?_⟩
      · intro y hy; exact gnd y hy
      · exact subA.both_or_none hnd
      · intro y hy; simp at hy
      · intro _; rfl
  obtain ⟨h4, h4_def⟩ : ∃ h4, h4 = setAuntKids h3 S := ⟨_, rfl⟩
  have x5 := updateAunt'_unsettled S (⟨h3, nm, rs, nl, ndl, full⟩ : Pollard H) u5
  rw [← h4_def] at x5
  have kS3 : ∀ j, kidOf h3 S j = decide (j = nd ∨ j = B) := by
    intro j
    rw [kidOf_eq (x := { sn with lNiece := (if dl then some nd else some B), rNiece := (if dl then some B else some nd) }) (by rw [e3, if_pos rfl])]
    cases dl <;> simp [isKid, eq_comm, or_comm]
  have e4 : ∀ j, h4[j]? = if j = nd ∨ j = B then (h3[j]?).map (fun x => { x with aunt := some S })
      else h3[j]? := by
    intro j; rw [h4_def, getElem?_setAuntKids, kS3]; simp
  have hn4 : h4[nd]? = some { ndn with aunt := some S } := by
    rw [e4, if_pos (Or.inl rfl), hn3]; rfl
  have hB4 : h4[B]? = some { bn with lNiece := none, rNiece := none, aunt := some S } := by
    rw [e4, if_pos (Or.inr rfl), hB3]; rfl
  -- step 6: transferNiece(B, nd)
  have eR6 := getElem?_tnRaw (Ne.symm nnB) hB4 hn4
  have e4f : ∀ j, j < hp.size → j ≠ nd → j ≠ B → j ≠ S → j ≠ HG → ¬ isKid bn j → h4[j]? = hp[j]? := by
    intro j j1 j2 j3 j4 j5 j6
    rw [e4, if_neg (by rintro (h | h); exact j2 h; exact j3 h), e3, if_neg j4, e2f j j1 j3 j5 j6]
  have u6 : Unsettled (tnRaw h4 B nd { ndn with aunt := some S }) B := by
    apply subA.unsettled ndfa nBfa nnB
      (x := { ({ bn with lNiece := none, rNiece := none, aunt := some S } : PolNode H) with
        lNiece := ndn.lNiece, rNiece := ndn.rNiece })
    · rw [eR6, if_pos rfl]
    · intro x hx; rw [hnd] at hx; cases hx; exact ⟨rfl, rfl⟩
    · intro i hi
      have i1 : i ≠ B := fun e => nBfa (e ▸ hi)
      have i2 : i ≠ nd := fun e => nnfa (e ▸ hi)
      rw [eR6, if_neg i1, if_neg i2]
      exact e4f i (ltfa i hi) i2 i1 (fun e => nSfa (e ▸ hi)) (fun e => nHGfa (e ▸ hi))
        (fun k => dabs i (Or.inl hi) i (kbn i k) rfl)
  obtain ⟨h5, h5_def⟩ : ∃ h5, h5 = tnHeap h4 B nd { ndn with aunt := some S } := ⟨_, rfl⟩
  have x6 := transferNiece_exec (⟨h4, nm, rs, nl, ndl, full⟩ : Pollard H) B nd _ hn4 u6
  rw [← h5_def] at x6
  have e5 : ∀ j, h5[j]? =
      if j = B then some { ({ bn with lNiece := none, rNiece := none, aunt := some S } : PolNode H) with
        lNiece := ndn.lNiece, rNiece := ndn.rNiece }
      else if j = nd then some { ({ ndn with aunt := some S } : PolNode H) with lNiece := none, rNiece := none }
      else if isKid ndn j then (h4[j]?).map (fun x => { x with aunt := some B })
      else h4[j]? := by
    intro j; rw [h5_def]
    exact getElem?_tnHeap (Ne.symm nnB) hB4 hn4
      (fun j k => ⟨fun e => nBfa (e ▸ knn j k), fun e => nnfa (e ▸ knn j k)⟩) j
  -- step 7/8: the nieces of `nd`, `updateAunt(nd)`
  obtain ⟨h6, h6_def⟩ : ∃ h6, h6 = (h5.modify nd (fun x => { x with lNiece := sn.lNiece })).modify nd
      (fun x => { x with rNiece := sn.rNiece }) := ⟨_, rfl⟩
  have e6 : ∀ j, h6[j]? = if j = nd then some { ({ ndn with aunt := some S } : PolNode H) with
      lNiece := sn.lNiece, rNiece := sn.rNiece } else h5[j]? := by
    intro j
    rw [h6_def]
    simp only [Array.getElem?_modify]
    by_cases hj : j = nd
    · subst hj
      have : h5[j]? = some { ({ ndn with aunt := some S } : PolNode H) with lNiece := none, rNiece := none } := by
        rw [e5, if_neg nnB, if_pos rfl]
      simp [this]
    · simp [hj, Ne.symm hj]
  have e6f : ∀ j, j < hp.size → j ≠ nd → j ≠ B → j ≠ S → j ≠ HG → ¬ isKid bn j → ¬ isKid ndn j →
      h6[j]? = hp[j]? := by
    intro j j1 j2 j3 j4 j5 j6 j7
    rw [e6, if_neg j2, e5, if_neg j3, if_neg j2, if_neg j7]
    exact e4f j j1 j2 j3 j4 j5 j6
  have u8 : Unsettled h6 nd := by
    apply subB.unsettled ndfb nnfb (Ne.symm nnS)
      (x := { ({ ndn with aunt := some S } : PolNode H) with lNiece := sn.lNiece, rNiece := sn.rNiece })
    · rw [e6, if_pos rfl]
    · intro x hx; rw [hS] at hx; cases hx; exact ⟨rfl, rfl⟩
    · intro i hi
      exact e6f i (ltfb i hi) (fun e => nnfb (e ▸ hi)) (fun e => nBfb (e ▸ hi)) (fun e => nSfb (e ▸ hi))
        (fun e => nHGfb (e ▸ hi)) (fun k => dabs i (Or.inr hi) i (kbn i k) rfl)
        (fun k => dab i (knn i k) i hi rfl)
  obtain ⟨h7, h7_def⟩ : ∃ h7, h7 = setAuntKids h6 nd := ⟨_, rfl⟩
  have x8 := updateAunt'_unsettled nd (⟨h6, nm, rs, nl, ndl, full⟩ : Pollard H) u8
  rw [← h7_def] at x8
  have kn6 : ∀ j, kidOf h6 nd j = decide (isKid sn j) := by
    intro j
    rw [kidOf_eq (x := { ({ ndn with aunt := some S } : PolNode H) with lNiece := sn.lNiece, rNiece := sn.rNiece })
      (by rw [e6, if_pos rfl])]
    simp [isKid]
  have e7 : ∀ j, h7[j]? = if isKid sn j then (h6[j]?).map (fun x => { x with aunt := some nd })
      else h6[j]? := by
    intro j; rw [h7_def, getElem?_setAuntKids, kn6]; simp
  -- the final heap, node by node
  have nkS : ∀ j, j = HG ∨ j = nd ∨ j = B ∨ j = S ∨ j = P' → ¬ isKid sn j := by
    intro j hj k
    have := ksn j k
    have := ltfb j this
    rcases hj with rfl | rfl | rfl | rfl | rfl
    · exact nHGfb (ksn _ k)
    · exact nnfb (ksn _ k)
    · exact nBfb (ksn _ k)
    · exact nSfb (ksn _ k)
    · omega
  have hHG7 : h7[HG]? = some (replK hgn B P') := by
    rw [e7, if_neg (nkS HG (Or.inl rfl)), e6, if_neg nHGn, e5, if_neg nHGB, if_neg nHGn,
      if_neg (fun k => nHGfa (knn HG k)), e4, if_neg (by rintro (h | h); exact nHGn h; exact nHGB h),
      e3, if_neg nHGS, e2, if_neg (by omega), if_neg nHGB, if_neg (fun k => nHGfs (kbn HG k)), e1,
      if_neg (by omega), if_pos rfl]
  have hP7 : h7[P']? = some { ({ pnode with aunt := some HG } : PolNode H) with lNiece := bn.lNiece, rNiece := bn.rNiece } := by
    have k1 : ¬ isKid ndn P' := fun k => by have := ltfa _ (knn _ k); omega
    rw [e7, if_neg (nkS P' (Or.inr (Or.inr (Or.inr (Or.inr rfl))))), e6, if_neg (by omega), e5,
      if_neg (by omega), if_neg (by omega), if_neg k1, e4, if_neg (by omega), e3, if_neg (by omega)]
    exact hP2
  have hS7 : h7[S]? = some { sn with lNiece := (if dl then some nd else some B), rNiece := (if dl then some B else some nd) } := by
    rw [e7, if_neg (nkS S (Or.inr (Or.inr (Or.inr (Or.inl rfl))))), e6, if_neg (Ne.symm nnS), e5,
      if_neg (Ne.symm nBS), if_neg (Ne.symm nnS), if_neg (fun k => nSfa (knn S k)), e4,
      if_neg (by rintro (h | h); exact nnS h.symm; exact nBS h.symm), e3, if_pos rfl]
  have hn7 : h7[nd]? = some { ({ ndn with aunt := some S } : PolNode H) with lNiece := sn.lNiece, rNiece := sn.rNiece } := by
    rw [e7, if_neg (nkS nd (Or.inr (Or.inl rfl))), e6, if_pos rfl]
  have hB7 : h7[B]? = some { ({ bn with lNiece := none, rNiece := none, aunt := some S } : PolNode H) with
      lNiece := ndn.lNiece, rNiece := ndn.rNiece } := by
    rw [e7, if_neg (nkS B (Or.inr (Or.inr (Or.inl rfl)))), e6, if_neg (Ne.symm nnB), e5, if_pos rfl]
  have eKidS : ∀ j, isKid sn j → h7[j]? = (hp[j]?).map (fun x => { x with aunt := some nd }) := by
    intro j k
    have hj := ksn j k
    rw [e7, if_pos k, e6f j (ltfb j hj) (fun e => nnfb (e ▸ hj)) (fun e => nBfb (e ▸ hj))
      (fun e => nSfb (e ▸ hj)) (fun e => nHGfb (e ▸ hj)) (fun k' => dabs j (Or.inr hj) j (kbn j k') rfl)
      (fun k' => dab j (knn j k') j hj rfl)]
  have eKidN : ∀ j, isKid ndn j → h7[j]? = (hp[j]?).map (fun x => { x with aunt := some B }) := by
    intro j k
    have hj := knn j k
    have j1 : ¬ isKid sn j := fun k' => dab j hj j (ksn j k') rfl
    have c1 : j ≠ nd := fun e => nnfa (e ▸ hj)
    have c2 : j ≠ B := fun e => nBfa (e ▸ hj)
    have c3 : j ≠ S := fun e => nSfa (e ▸ hj)
    have c4 : j ≠ HG := fun e => nHGfa (e ▸ hj)
    rw [e7, if_neg j1, e6, if_neg c1, e5, if_neg c2, if_neg c1, if_pos k,
      e4f j (ltfa j hj) c1 c2 c3 c4 (fun k' => dabs j (Or.inl hj) j (kbn j k') rfl)]
  have eKidB : ∀ j, isKid bn j → h7[j]? = (hp[j]?).map (fun x => { x with aunt := some P' }) := by
    intro j k
    have hj := kbn j k
    have j1 : ¬ isKid sn j := fun k' => dabs j (Or.inr (ksn j k')) j hj rfl
    have j2 : ¬ isKid ndn j := fun k' => dabs j (Or.inl (knn j k')) j hj rfl
    have := ltfs j hj
    have c1 : j ≠ nd := fun e => nnfs (e ▸ hj)
    have c2 : j ≠ B := fun e => nBfs (e ▸ hj)
    have c3 : j ≠ S := fun e => nSfs (e ▸ hj)
    have c4 : j ≠ HG := fun e => nHGfs (e ▸ hj)
    rw [e7, if_neg j1, e6, if_neg c1, e5, if_neg c2, if_neg c1, if_neg j2, e4,
      if_neg (by rintro (h | h); exact c1 h; exact c2 h), e3, if_neg c3, e2, if_neg (by omega),
      if_neg c2, if_pos k, e1, if_neg (by omega), if_neg c4, e0' j this]
  have eFrame : ∀ j, j < hp.size → j ≠ HG → j ≠ nd → j ≠ B → j ≠ S → ¬ isKid bn j → ¬ isKid ndn j →
      ¬ isKid sn j → h7[j]? = hp[j]? := by
    intro j j0 j1 j2 j3 j4 j5 j6 j7
    rw [e7, if_neg j7]
    exact e6f j j0 j2 j3 j4 j1 j5 j6
  -- the three sub-trees, re-homed
  have subA' : Sub h7 nd B a fa la := by
    apply subA.rehome ndfa
    · intro x hx; rw [hnd] at hx; cases hx; exact ⟨_, hn7, rfl⟩
    · intro x hx; rw [hnd] at hx; cases hx; exact ⟨_, hB7, rfl, rfl⟩
    · intro x i old hx k hi
      rw [hnd] at hx; cases hx
      rw [eKidN i k, hi]; rfl
    · intro x i hx hi k1 k2
      rw [hnd] at hx; cases hx
      have k' : ¬ isKid ndn i := by intro k; rcases k with k | k; exact k1 k; exact k2 k
      exact eFrame i (ltfa i hi) (fun e => nHGfa (e ▸ hi)) (fun e => nnfa (e ▸ hi))
        (fun e => nBfa (e ▸ hi)) (fun e => nSfa (e ▸ hi)) (fun k => dabs i (Or.inl hi) i (kbn i k) rfl)
        k' (fun k => dab i hi i (ksn i k) rfl)
  have subB' : Sub h7 B nd b fb lb := by
    apply subB.rehome ndfb
    · intro x hx; rw [hB] at hx; cases hx; exact ⟨_, hB7, rfl⟩
    · intro x hx; rw [hS] at hx; cases hx; exact ⟨_, hn7, rfl, rfl⟩
    · intro x i old hx k hi
      rw [hS] at hx; cases hx
      rw [eKidS i k, hi]; rfl
    · intro x i hx hi k1 k2
      rw [hS] at hx; cases hx
      have k' : ¬ isKid sn i := by intro k; rcases k with k | k; exact k1 k; exact k2 k
      exact eFrame i (ltfb i hi) (fun e => nHGfb (e ▸ hi)) (fun e => nnfb (e ▸ hi))
        (fun e => nBfb (e ▸ hi)) (fun e => nSfb (e ▸ hi)) (fun k => dabs i (Or.inr hi) i (kbn i k) rfl)
        (fun k => dab i (knn i k) i hi rfl) k'
  have subS' : Sub h7 S P' ts fs ls := by
    apply subS.rehome ndfs
    · intro x hx; rw [hS] at hx; cases hx; exact ⟨_, hS7, rfl⟩
    · intro x hx; rw [hB] at hx; cases hx; exact ⟨_, hP7, rfl, rfl⟩
    · intro x i old hx k hi
      rw [hB] at hx; cases hx
      rw [eKidB i k, hi]; rfl
    · intro x i hx hi k1 k2
      rw [hB] at hx; cases hx
      have k' : ¬ isKid bn i := by intro k; rcases k with k | k; exact k1 k; exact k2 k
      exact eFrame i (ltfs i hi) (fun e => nHGfs (e ▸ hi)) (fun e => nnfs (e ▸ hi))
        (fun e => nBfs (e ▸ hi)) (fun e => nSfs (e ▸ hi)) k'
        (fun k => dabs i (Or.inl (knn i k)) i hi rfl) (fun k => dabs i (Or.inr (ksn i k)) i hi rfl)
  refine ⟨h1, h2, h4, h5, h7, x1, x2, x3, hS2, ?_, x6, ?_, ?_, ?_, hHG7, ⟨_, hP7, rfl⟩,
    ⟨_, hS7, aS, rfl, rfl, rfl⟩, ⟨_, hn7, rfl⟩, ⟨_, hB7, rfl⟩, subA', subB', subS'⟩
  · rw [← h3_def]; exact x5
  · rw [← h6_def]; exact x8
  · rw [h7_def, size_setAuntKids, h6_def]
    simp only [Array.size_modify]
    rw [h5_def, size_tnHeap, h4_def, size_setAuntKids, h3_def]
    simp only [Array.size_modify]
    rw [h2_def, size_tnHeap, h1_def, size_ta0Heap, h0_def]
    simp [hP']
  · intro j hj hjP
    simp only [List.mem_cons, List.mem_append, not_or] at hj
    obtain ⟨j1, j2, j3, j4, ⟨j5, j6⟩, j7⟩ := hj
    by_cases hlt : j < hp.size
    · exact eFrame j hlt j1 j2 j3 j4 (fun k => j7 (kbn j k)) (fun k => j5 (knn j k))
        (fun k => j6 (ksn j k))
    · -- beyond the new node: nothing there
      have hge : hp.size + 1 ≤ j := by omega
      have k1 : ¬ isKid sn j := fun k => by have := ltfb _ (ksn _ k); omega
      have k2 : ¬ isKid ndn j := fun k => by have := ltfa _ (knn _ k); omega
      have k3 : ¬ isKid bn j := fun k => by have := ltfs _ (kbn _ k); omega
      rw [e7, if_neg k1, e6, if_neg j2, e5, if_neg j3, if_neg j2, if_neg k2, e4,
        if_neg (by rintro (h | h); exact j2 h; exact j3 h), e3, if_neg j4, e2, if_neg (by omega),
        if_neg j3, if_neg k3, e1, if_neg (by omega), if_neg j1, e0, if_neg (by omega)]

/-! ### `undoSingleDel`, the parent is not a root -/

theorem undoSingleDel_aunt_core {hp : Heap H} {nm : List (H × Nat)} {rs : List Nat} {nl ndl : U64}
    {full : Bool} {r : Nat} {up : CCtx H} {G HG : Nat} {fpu : List Nat} {l1u l2u : List (H × Nat)}
    {nd B S : Nat} {ndn bn sn hgn : PolNode H} {a b ts : CTree H} {fa fb fs : List Nat}
    {la lb ls : List (H × Nat)} (pl : Bool)
    (hu : CtxRepr hp r up G HG fpu l1u l2u)
    (hnd : hp[nd]? = some ndn) (hB : hp[B]? = some bn) (hS : hp[S]? = some sn)
    (hHG : hp[HG]? = some hgn)
    (aN : ndn.aunt = none) (aB : bn.aunt = some HG) (aS : sn.aunt = some HG)
    (kHG : if pl then (hgn.lNiece = some B ∧ hgn.rNiece = some S)
      else (hgn.lNiece = some S ∧ hgn.rNiece = some B))
    (subA : Sub hp nd nd a fa la) (subB : Sub hp B S b fb lb) (subS : Sub hp S B ts fs ls)
    (ndp : (r :: (fpu ++ (nd :: B :: S :: (fa ++ fb ++ fs)))).Nodup)
    (pos : U64) (par : Ptr)
    (hget : getNode (Parent pos (TreeRows nl)) ⟨hp, nm, rs, nl, ndl, full⟩ =
      (.ok (some B, some S, par), ⟨hp, nm, rs, nl, ndl, full⟩)) :
    ∃ hp' fp', undoSingleDel nd pos ⟨hp, nm, rs, nl, ndl, full⟩ =
        (.ok (), ⟨hp', nm, rs, nl, ndl, full⟩) ∧
      RootRepr hp' r (up.plug (if pl
          then .node (if isLeftNiece pos then .node a b else .node b a) ts
          else .node ts (if isLeftNiece pos then .node a b else .node b a))) fp'
        (l1u ++ (if pl then (if isLeftNiece pos then la ++ lb else lb ++ la) ++ ls
          else ls ++ (if isLeftNiece pos then la ++ lb else lb ++ la)) ++ l2u) ∧
      fp'.Perm (fpu ++ (hp.size :: S :: nd :: B :: (fa ++ fb ++ fs))) ∧
      (∀ j, j ∉ r :: (fpu ++ (nd :: B :: S :: (fa ++ fb ++ fs))) → j ≠ hp.size → hp'[j]? = hp[j]?) ∧
      hp'.size = hp.size + 1 := by
  -- distinctness
  have ndx := ndp
  simp only [List.nodup_cons, List.mem_cons, List.mem_append, not_or, List.nodup_append] at ndx
  obtain ⟨⟨hrfpu, hrn, hrB, hrS, ⟨hrfa, hrfb⟩, hrfs⟩, ndfpu,
    ⟨⟨nnB, nnS, ⟨nnfa, nnfb⟩, nnfs⟩, ⟨nBS, ⟨nBfa, nBfb⟩, nBfs⟩, ⟨⟨nSfa, nSfb⟩, nSfs⟩,
      ⟨ndfa, ndfb, dab⟩, ndfs, dabs⟩, dfpu⟩ := ndx
  have ndu : (r :: fpu).Nodup := List.nodup_cons.2 ⟨hrfpu, ndfpu⟩
  have hup : ∀ i ∈ r :: fpu, i ≠ nd ∧ i ≠ B ∧ i ≠ S ∧ i ∉ fa ∧ i ∉ fb ∧ i ∉ fs ∧ i < hp.size := by
    intro i hi
    have hlt := hu.lt i hi
    simp only [List.mem_cons] at hi
    rcases hi with rfl | hi
    · exact ⟨hrn, hrB, hrS, hrfa, hrfb, hrfs, hlt⟩
    · have := dfpu i hi
      exact ⟨fun e => this i (by simp [e]) rfl, fun e => this i (by simp [e]) rfl,
        fun e => this i (by simp [e]) rfl, fun e => this i (by simp [e]) rfl,
        fun e => this i (by simp [e]) rfl, fun e => this i (by simp [e]) rfl, hlt⟩
  obtain ⟨nHGn, nHGB, nHGS, nHGfa, nHGfb, nHGfs, ltHG⟩ := hup HG hu.holder_mem
  have ndS : (HG :: nd :: B :: S :: (fa ++ fb ++ fs)).Nodup := by
    simp only [List.nodup_cons, List.mem_cons, List.mem_append, not_or, List.nodup_append]
    exact ⟨⟨nHGn, nHGB, nHGS, ⟨nHGfa, nHGfb⟩, nHGfs⟩, ⟨nnB, nnS, ⟨nnfa, nnfb⟩, nnfs⟩,
      ⟨nBS, ⟨nBfa, nBfb⟩, nBfs⟩, ⟨⟨nSfa, nSfb⟩, nSfs⟩, ⟨ndfa, ndfb, dab⟩, ndfs, dabs⟩
  have kHG' : (hgn.lNiece = some B ∧ hgn.rNiece = some S) ∨ (hgn.lNiece = some S ∧ hgn.rNiece = some B) := by
    cases pl
    · exact Or.inr (by simpa using kHG)
    · exact Or.inl (by simpa using kHG)
  have hdata_a : ndn.data = a.hash := by
    obtain ⟨z, ez, dz⟩ := subA.hash; rw [hnd] at ez; cases ez; exact dz
  have hdata_b : bn.data = b.hash := by
    obtain ⟨z, ez, dz⟩ := subB.hash; rw [hB] at ez; cases ez; exact dz
  obtain ⟨pHash, hpHash⟩ : ∃ pHash : H, pHash = if isLeftNiece pos then ph ndn.data bn.data
      else ph bn.data ndn.data := ⟨_, rfl⟩
  obtain ⟨h1, h2, h4, h5, h7, x1, x2, x3, hS2, x5, x6, x8, hsz7, hframe7, hHG7, ⟨xP, hP7, aP7⟩,
    ⟨xS, hS7, aS7, dS7, lS7, rS7⟩, ⟨xn, hn7, an7⟩, ⟨xB, hB7, aB7⟩, subA7, subB7, subS7⟩ :=
    unsurgeryAunt (isLeftNiece pos) ({ data := pHash, remember := full } : PolNode H) rfl rfl rfl
      hnd hB hS hHG aN aB aS kHG' subA subB subS ndS nm rs nl ndl full
  -- the context of the new parent
  have hu7 : CtxRepr h7 r up G HG fpu l1u l2u := by
    apply hu.frame_holder ndu
    · intro i hi hne
      obtain ⟨i1, i2, i3, i4, i5, i6, i7⟩ := hup i hi
      apply hframe7 i _ (by omega)
      simp only [List.mem_cons, List.mem_append, not_or]
      exact ⟨hne, i1, i2, i3, ⟨i4, i5⟩, i6⟩
    · intro x hx
      rw [hHG] at hx; cases hx
      refine ⟨_, hHG7, ?_, ?_⟩ <;> (unfold replK; split <;> rfl)
  have ltfa := subA.fp_lt
  have ltfb := subB.fp_lt
  have ltfs := subS.fp_lt
  have ltn := lt_of_get hnd
  have ltB := lt_of_get hB
  have ltS := lt_of_get hS
  obtain ⟨ctxP, hctxP⟩ : ∃ ctxP : CCtx H, ctxP = if pl then CCtx.left up ts else CCtx.right ts up := ⟨_, rfl⟩
  have hctx7 : CtxRepr h7 r ctxP hp.size S (hp.size :: S :: (fs ++ fpu))
      (if pl then l1u else l1u ++ ls) (if pl then ls ++ l2u else l2u) := by
    rw [hctxP]
    cases pl
    · simp only [Bool.false_eq_true, if_false] at kHG ⊢
      have hne : hgn.lNiece ≠ some B := by rw [kHG.1]; intro e; cases e; exact nBS rfl
      refine CtxRepr.right hu7 hHG7 ?_ ?_ hP7 hS7 aP7 aS7 subS7
      · unfold replK; rw [if_neg hne]; exact kHG.1
      · unfold replK; rw [if_neg hne]
    · simp only [if_true] at kHG ⊢
      refine CtxRepr.left hu7 hHG7 ?_ ?_ hP7 hS7 aP7 aS7 subS7
      · unfold replK; rw [if_pos kHG.1]
      · unfold replK; rw [if_pos kHG.1]; exact kHG.2
  have kids7 : KidsRepr h7 hp.size S (if isLeftNiece pos then a else b) (if isLeftNiece pos then b else a)
      (if isLeftNiece pos then nd :: B :: (fa ++ fb) else B :: nd :: (fb ++ fa))
      (if isLeftNiece pos then la ++ lb else lb ++ la) := by
    cases hl : isLeftNiece pos
    · rw [hl] at lS7 rS7
      simp only [Bool.false_eq_true, if_false] at lS7 rS7 ⊢
      exact ⟨B, nd, xS, xB, xn, fb, fa, lb, la, hS7, lS7, rS7, hB7, hn7, aB7, an7, subB7, subA7, rfl, rfl⟩
    · rw [hl] at lS7 rS7
      simp only [if_true] at lS7 rS7 ⊢
      exact ⟨nd, B, xS, xn, xB, fa, fb, la, lb, hS7, lS7, rS7, hn7, hB7, an7, aB7, subA7, subB7, rfl, rfl⟩
  have nd7 : (r :: (hp.size :: S :: (fs ++ fpu)) ++
      (if isLeftNiece pos then nd :: B :: (fa ++ fb) else B :: nd :: (fb ++ fa))).Nodup := by
    have hfresh : ∀ i ∈ r :: (fpu ++ (nd :: B :: S :: (fa ++ fb ++ fs))), i < hp.size := by
      intro i hi
      simp only [List.mem_cons, List.mem_append] at hi
      rcases hi with rfl | hi | rfl | rfl | rfl | (hi | hi) | hi
      · exact (hup _ (by simp)).2.2.2.2.2.2
      · exact (hup _ (by simp [hi])).2.2.2.2.2.2
      · exact ltn
      · exact ltB
      · exact ltS
      · exact ltfa _ hi
      · exact ltfb _ hi
      · exact ltfs _ hi
    have hcount : List.count hp.size (r :: (fpu ++ (nd :: B :: S :: (fa ++ fb ++ fs)))) = 0 := by
      rw [List.count_eq_zero]
      intro hm
      exact absurd (hfresh _ hm) (by omega)
    rw [List.nodup_iff_count] at ndp ⊢
    intro z
    have h1 := ndp z
    by_cases hz : z = hp.size
    · subst hz
      simp only [List.count_cons, List.count_append] at hcount h1 ⊢
      cases isLeftNiece pos <;>
        simp only [if_true, if_false, Bool.false_eq_true, List.count_cons, List.count_append] <;>
        simp only [beq_self_eq_true, if_true] <;> omega
    · have : (hp.size == z) = false := by simpa [beq_eq_false_iff_ne] using Ne.symm hz
      simp only [List.count_cons, List.count_append, List.cons_append] at h1 ⊢
      cases isLeftNiece pos <;>
        simp only [if_true, if_false, Bool.false_eq_true, List.count_cons, List.count_append, this] <;>
        omega
  obtain ⟨hp', g1, g2, g3, ⟨rn', g4a, g4b⟩, fp', g5, g6⟩ := hashToRoot'_ctx ctxP
    ⟨h7, nm, rs, nl, ndl, full⟩ hp.size S _ _ _ _ _ _ _ hctx7 kids7 nd7
  refine ⟨hp', fp', ?_, ⟨⟨rn', g4a, g4b⟩, ?_⟩, ?_, ?_, by rw [g2]; exact hsz7⟩
  · -- execution
    unfold undoSingleDel calculateParentHash
    simp only [bind_apply, getNumLeaves_apply, hget, getFull_apply, alloc_apply]
    have hcalc : (if isLeftNiece pos then (do
          let n ← rd (some nd)
          let s ← rd (some B)
          pure (ph n.data s.data) : PM H H)
        else (do
          let s ← rd (some B)
          let n ← rd (some nd)
          pure (ph s.data n.data))) ⟨hp, nm, rs, nl, ndl, full⟩ =
        (.ok pHash, ⟨hp, nm, rs, nl, ndl, full⟩) := by
      rw [hpHash]
      cases isLeftNiece pos <;>
        simp [rd, hnd, hB]
    rw [hcalc]
    have hB0 : (hp.push ({ data := pHash, remember := full } : PolNode H))[B]? = some bn := by
      rw [Array.getElem?_push, if_neg (by omega)]; exact hB
    simp only [deref_some, node_apply, hB0, aB, ignoreErr_ok x1, bind_apply]
    rw [x2]
    simp only []
    rw [x3]
    simp only [hS2, node_apply, deref_some, bind_apply]
    cases hl : isLeftNiece pos
    · rw [hl] at x5
      simp only [Bool.false_eq_true, if_false, setNode_apply, bind_apply] at x5 ⊢
      rw [x5]
      simp only []
      rw [x6]
      simp only [setNode_apply]
      rw [x8]
      simp only []
      exact g1
    · rw [hl] at x5
      simp only [if_true, setNode_apply, bind_apply] at x5 ⊢
      rw [x5]
      simp only []
      rw [x6]
      simp only [setNode_apply]
      rw [x8]
      simp only []
      exact g1
  · rw [hctxP] at g5
    cases pl
    · simp only [Bool.false_eq_true, if_false, CCtx.plug] at g5 ⊢
      generalize isLeftNiece pos = dl at g5 ⊢
      cases dl <;> simpa [List.append_assoc] using g5
    · simp only [if_true, CCtx.plug] at g5 ⊢
      generalize isLeftNiece pos = dl at g5 ⊢
      cases dl <;> simpa [List.append_assoc] using g5
  · refine g6.trans ?_
    cases isLeftNiece pos
    · simp only [Bool.false_eq_true, if_false]; perm_count
    · simp only [if_true]; perm_count
  · intro j hj hjP
    simp only [List.mem_cons, List.mem_append, not_or] at hj
    obtain ⟨j1, j2, j3, j4, j5, ⟨j6, j7⟩, j8⟩ := hj
    rw [g3 j (by
      simp only [List.mem_cons, List.mem_append, not_or]
      exact ⟨j1, hjP, j5, j8, j2⟩)]
    show h7[j]? = hp[j]?
    apply hframe7 j _ hjP
    have : j ≠ HG := by
      intro e
      have := hu.holder_mem
      rw [← e] at this
      simp only [List.mem_cons] at this
      rcases this with h | h
      · exact j1 h
      · exact j2 h
    simp only [List.mem_cons, List.mem_append, not_or]
    exact ⟨this, j3, j4, j5, ⟨j6, j7⟩, j8⟩

/-- **`undoSingleDel`, the original parent is not a root** (collapsed-tree level): the node at
the non-empty child path `π1` of a represented tree carries `b` (it moved up when its sibling
died); `nd` is the root of a detached represented tree `a`.  `undoSingleDel` allocates the
parent, puts `a` and `b` below it (left / right as the position says) and re-hashes up to the
root. -/
theorem undoSingleDel_tree_aunt {hp : Heap H} {nm : List (H × Nat)} {rs : List Nat} {nl ndl : U64}
    {full : Bool} {r : Nat} {t : CTree H} {fp : List Nat} {lv : List (H × Nat)} (π1 : List Bool)
    {b : CTree H} {nd : Nat} {a : CTree H} {fa : List Nat} {la : List (H × Nat)}
    (hR : RootRepr hp r t fp lv) (hRn : RootRepr hp nd a fa la)
    (ndp : (r :: fp ++ nd :: fa).Nodup) (hne : π1 ≠ [])
    (hpath : childPath t π1 = some b) (pos : U64)
    (hget : ∀ B S, walkChild hp r r π1 = some (B, S) →
      ∃ par, getNode (Parent pos (TreeRows nl)) ⟨hp, nm, rs, nl, ndl, full⟩ =
        (.ok (some B, some S, par), ⟨hp, nm, rs, nl, ndl, full⟩)) :
    ∃ (hp' : Heap H) (ctx : CCtx H) (fp' : List Nat) (pre lb post : List (H × Nat)),
      t = ctx.plug b ∧ ctx.depth = π1.length ∧ lv = pre ++ lb ++ post ∧
      undoSingleDel nd pos ⟨hp, nm, rs, nl, ndl, full⟩ = (.ok (), ⟨hp', nm, rs, nl, ndl, full⟩) ∧
      RootRepr hp' r (ctx.plug (if isLeftNiece pos then .node a b else .node b a)) fp'
        (pre ++ (if isLeftNiece pos then la ++ lb else lb ++ la) ++ post) ∧
      fp'.Perm (hp.size :: nd :: (fa ++ fp)) ∧
      (∀ j, j ∉ r :: fp ++ nd :: fa → j ≠ hp.size → hp'[j]? = hp[j]?) ∧
      hp'.size = hp.size + 1 := by
  obtain ⟨⟨rn, hr, ar⟩, hs⟩ := hR
  obtain ⟨⟨ndn, hnd, aN⟩, subA⟩ := hRn
  obtain ⟨ctxB, B, S, fb, lb, fpcB, l1, l2, hctx, subB, eplug, hperm, elv, hwalk, hdepth, hrevB⟩ :=
    Sub.zoom π1 .top r r t fp lv [] [] [] b (CtxRepr.top hr ar) hs hpath
  simp only [CCtx.plug, List.nil_append, List.append_nil, CCtx.depth, Nat.zero_add] at eplug hperm elv hdepth
  obtain ⟨par, hget'⟩ := hget B S hwalk
  cases hctx with
  | top h1 h2 =>
    simp only [CCtx.depth] at hdepth
    exact absurd (List.length_eq_zero_iff.mp hdepth.symm) hne
  | left hu h1 h2 h3 h4 h5 h6 h7 hsS =>
    rename_i up G HG hgn bn sn ts fs fpu ls l2u
    have ndc : (r :: (fpu ++ (nd :: B :: S :: (fa ++ fb ++ fs)))).Nodup := by
      rw [List.nodup_iff_count] at ndp ⊢
      intro z
      have c1 := ndp z
      have c2 := List.perm_iff_count.1 hperm z
      simp only [List.count_cons, List.count_append, List.cons_append] at c1 c2 ⊢
      omega
    obtain ⟨hp', fp', g1, g2, g3, g4, g5⟩ := undoSingleDel_aunt_core (a := a) (b := b) true hu hnd h4 h5 h1
      aN h6 h7 (by simp only [if_true]; exact ⟨h2, h3⟩) subA subB hsS ndc pos par hget'
    simp only [if_true] at g2
    refine ⟨hp', .left up ts, fp', l1, lb, ls ++ l2u, eplug.symm, ?_, ?_, g1, ?_, ?_, ?_, g5⟩
    · simp only [CCtx.depth] at hdepth; simp [CCtx.depth, hdepth]
    · rw [← elv]
    · simpa [CCtx.plug, List.append_assoc] using g2
    · refine g3.trans ?_
      rw [List.perm_iff_count]
      intro z
      have c2 := List.perm_iff_count.1 hperm z
      simp only [List.count_cons, List.count_append] at c2 ⊢
      omega
    · intro j hj hjP
      apply g4 j _ hjP
      intro hm
      apply hj
      have c2 := List.perm_iff_count.1 hperm j
      have : 0 < List.count j (r :: (fpu ++ (nd :: B :: S :: (fa ++ fb ++ fs)))) :=
        List.count_pos_iff.2 hm
      apply List.count_pos_iff.1
      simp only [List.count_cons, List.count_append, List.cons_append] at c2 this ⊢
      omega
  | right hu h1 h2 h3 h4 h5 h6 h7 hsS =>
    rename_i up G HG hgn bn sn ts fs fpu ls l1u
    have ndc : (r :: (fpu ++ (nd :: B :: S :: (fa ++ fb ++ fs)))).Nodup := by
      rw [List.nodup_iff_count] at ndp ⊢
      intro z
      have c1 := ndp z
      have c2 := List.perm_iff_count.1 hperm z
      simp only [List.count_cons, List.count_append, List.cons_append] at c1 c2 ⊢
      omega
    obtain ⟨hp', fp', g1, g2, g3, g4, g5⟩ := undoSingleDel_aunt_core (a := a) (b := b) false hu hnd h4 h5 h1
      aN h6 h7 (by simp only [Bool.false_eq_true, if_false]; exact ⟨h2, h3⟩) subA subB hsS ndc pos par hget'
    simp only [Bool.false_eq_true, if_false] at g2
    refine ⟨hp', .right ts up, fp', l1u ++ ls, lb, l2, eplug.symm, ?_, ?_, g1, ?_, ?_, ?_, g5⟩
    · simp only [CCtx.depth] at hdepth; simp [CCtx.depth, hdepth]
    · rw [← elv]
    · simpa [CCtx.plug, List.append_assoc] using g2
    · refine g3.trans ?_
      rw [List.perm_iff_count]
      intro z
      have c2 := List.perm_iff_count.1 hperm z
      simp only [List.count_cons, List.count_append] at c2 ⊢
      omega
    · intro j hj hjP
      apply g4 j _ hjP
      intro hm
      apply hj
      have c2 := List.perm_iff_count.1 hperm j
      have : 0 < List.count j (r :: (fpu ++ (nd :: B :: S :: (fa ++ fb ++ fs)))) :=
        List.count_pos_iff.2 hm
      apply List.count_pos_iff.1
      simp only [List.count_cons, List.count_append, List.cons_append] at c2 this ⊢
      omega

end UtreexoVerif.Proofs.PollardHeap
