/-
  Pointer forest, heap model: the `undoSingleAdd` loop of `Undo` with a WEAK `NodeMap` clause.

  `undoSingleAdd` deletes the `NodeMap` key of every root it splits.  When a leaf added by the block
  happens to carry the hash of such a root (possible for an arbitrary `parentHash`), its entry
  disappears a little early — harmless, all the added leaves are removed anyway.  `AbsEW p G A`
  is `AbsE p G` with the `NodeMap` clause "`NodeMap` holds leaves only, and every leaf whose hash is
  not in `A` (the added leaves)"; so `undoAdds` needs no assumption on the added leaves.
-/
import UtreexoVerif.Proofs.PollardHeapUndoAdds
set_option linter.unusedSectionVars false
set_option linter.unusedVariables false
set_option linter.unusedSimpArgs false

namespace UtreexoVerif.Proofs.PollardHeap
open UtreexoVerif UtreexoVerif.GoInt UtreexoVerif.Model UtreexoVerif.Model.PollardHeap UtreexoVerif.Spec Hasher
open UtreexoVerif.Model.PollardAbs UtreexoVerif.Proofs.SpecView

variable {H : Type} [DecidableEq H] [Hasher H]

/-- **`p` represents `G` up to missing empty roots, `NodeMap` up to the leaves in `A`** -/
structure AbsEW (p : Pollard H) (G : Forest H) (A : List H) : Prop where
  numLeaves : p.numLeaves.toNat = G.numLeaves
  repr : ∃ ts' owned lv, DropEmpty (G.trees.map (·.2)) ts' ∧
    ReprRoots p.heap p.roots ts' owned lv ∧ owned.Nodup ∧ (p.nodeMap.map (·.1)).Nodup ∧
    (lv.map (·.1)).Nodup ∧ (∀ e ∈ p.nodeMap, e ∈ lv) ∧ (∀ e ∈ lv, e.1 ∉ A → e ∈ p.nodeMap) ∧
    (∀ e ∈ lv, e.1 ∉ A → ∀ u v : H, e.1 ≠ ph u v)

theorem DropEmpty.leaves {a b : List (Option (CTree H))} (h : DropEmpty a b) :
    a.flatMap optLeaves = b.flatMap optLeaves := by
  induction h with
  | nil => rfl
  | keep t _ ih => simp [ih]
  | drop _ ih => simpa [optLeaves] using ih

/-- **`undoSingleAdd`**, weak `NodeMap` clause -/
theorem undoSingleAdd_absEW {p : Pollard H} {G : Forest H} {x : H} {A : List H}
    (a : AbsEW p (G.add x) A) (hxA : x ∈ A) (hn : G.numLeaves + 1 < 2 ^ 63) :
    ∃ hp' nm' rs', undoSingleAdd p =
        (.ok (), ⟨hp', nm', rs', BitVec.ofNat 64 G.numLeaves, p.numDels, p.full⟩) ∧
      AbsEW ⟨hp', nm', rs', BitVec.ofNat 64 G.numLeaves, p.numDels, p.full⟩ G A := by
  obtain ⟨hp, nm, rs, nl, ndl, full⟩ := p
  obtain ⟨hnl, ts', owned, lv, hdrop, hrepr, hnd, hmk, hlk, hmsub, hmsup, hsep⟩ := a
  simp only at hnl hrepr hmk hmsub hmsup
  obtain ⟨t, c, hF⟩ := exists_trailing_ones G.numLeaves
  have ht : t ≤ 64 := trailing_le_of_lt hF (by omega)
  have ht63 : t ≤ 63 := by
    rcases Nat.lt_or_ge t 64 with h | h
    · omega
    · exfalso
      have : 2 ^ 64 ≤ 2 ^ t := Nat.pow_le_pow_right (by decide) h
      have := Nat.two_pow_pos t
      omega
  rw [trees_add_decomp G x hF ht, List.map_append] at hdrop
  simp only [List.map_cons, List.map_nil, mergeTrees_eq_mergeC] at hdrop
  obtain ⟨hi', ets, dhi⟩ := hdrop.snoc_some_inv
  rw [ets] at hrepr
  obtain ⟨rsHigh, rsLow, oHigh, oLow, lHigh, lLow, e1, e2, e3, hHigh, hLow⟩ := hrepr.append_inv
  obtain ⟨M, fp, e4, e5, hM⟩ := hLow.single_inv
  subst e1 e2 e3 e4 e5
  have hRM : RootRepr hp M _ fp lLow := hM
  have ndM : (M :: fp).Nodup := by
    rw [List.nodup_append] at hnd; exact hnd.2.1
  -- arithmetic: the lowest root row of `n + 1`
  have hnl1 : nl.toNat = 2 ^ (t + 1) * c + 2 ^ t := by
    rw [hnl, numLeaves_add, hF]
    have := Nat.two_pow_pos t
    omega
  have hN : nl = BitVec.ofNat 64 (G.numLeaves + 1) := by
    rw [← numLeaves_add G x, ← hnl]; simp
  have hT : TreeRows nl = H8 (forestRows (G.numLeaves + 1)) := by rw [hN]; exact treeRows_eq hn
  have hrows : forestRows (G.numLeaves + 1) ≤ 63 := forestRows_le_63 hn
  obtain ⟨hbit, hlow⟩ := lowbit_facts t c
  rw [← hnl1] at hbit hlow
  have htrows : t ≤ forestRows (G.numLeaves + 1) := by
    have := testBit_le_forestRows hbit
    rwa [hnl, numLeaves_add] at this
  have hlowest : getLowestRoot nl (TreeRows nl) = H8 t := by
    rw [hT]; exact Props.C16.getLowestRoot_found nl hrows htrows hbit hlow
  -- the loop
  obtain ⟨hp', rsNew, owned', lv', ks, Mx, g1, g2, g3, g4, g5, g6, g7, g8⟩ :=
    undoAddLoop_spec x ((onesTrees t (G.slots.drop (2 ^ (t + 1) * c))).map (·.2)) hp nm rsHigh nl ndl
      full M fp lLow (t + 1) hRM ndM (by simp [onesTrees_length])
  have hsub : BitVec.ofNat 64 G.numLeaves = nl - 1#64 := by
    rw [hN]
    apply BitVec.eq_of_toNat_eq
    rw [BitVec.toNat_sub, BitVec.toNat_ofNat, BitVec.toNat_ofNat]
    simp
    omega
  refine ⟨hp', (ks ++ [x]).foldl mapDel nm, rsHigh ++ rsNew, ?_, ?_⟩
  · unfold Model.PollardHeap.undoSingleAdd
    simp only [bind_apply, getNumLeaves_apply, hlowest, toNat_H8 ht63, g1, modifyS_apply, hsub]
  · -- the abstraction
    have hndx := hnd
    rw [List.nodup_append] at hndx
    obtain ⟨ndHigh, _, dHL⟩ := hndx
    have hHigh' : ReprRoots hp' rsHigh hi' oHigh lHigh := by
      apply hHigh.frame
      intro i hi
      apply g7
      intro hm
      exact dHL i hi i hm rfl
    refine ⟨by simp [toNat_ofNat64_of_lt (show G.numLeaves < 2 ^ 64 by omega)],
      hi' ++ ((onesTrees t (G.slots.drop (2 ^ (t + 1) * c))).map (·.2)).filter (·.isSome),
      oHigh ++ owned', lHigh ++ lv', ?_, hHigh'.append g2, ?_, ?_, ?_, ?_, ?_, ?_⟩
    · rw [trees_decomp G hF (by omega), List.map_append]
      exact dhi.append (DropEmpty.filter _)
    · rw [List.nodup_append]
      exact ⟨ndHigh, g3, fun i hi j hj e => dHL i hi j (g4 j hj) e⟩
    · exact foldl_mapDel_keys_nodup _ _ hmk
    · -- the keys of the remaining leaves
      rw [g5] at hlk
      have : (lHigh ++ lv').Sublist (lHigh ++ (lv' ++ [(x, Mx)])) :=
        (List.sublist_append_left lv' [(x, Mx)]).append_left lHigh
      exact hlk.sublist (this.map _)
    · -- `NodeMap` holds leaves only
      intro e he
      rw [mem_foldl_mapDel] at he
      obtain ⟨h1, h2⟩ := he
      have := hmsub e h1
      rw [g5] at this
      simp only [List.mem_append, List.mem_singleton, not_or, List.mem_cons, List.not_mem_nil,
        or_false] at this h2 ⊢
      rcases this with h | h | h
      · exact Or.inl h
      · exact Or.inr h
      · subst h; exact absurd rfl h2.2
    · -- every leaf outside `A` is still tracked
      intro e he heA
      rw [mem_foldl_mapDel]
      have hmem : e ∈ lHigh ++ lLow := by
        rw [g5]
        simp only [List.mem_append] at he ⊢
        rcases he with h | h
        · exact Or.inl h
        · exact Or.inr (Or.inl h)
      refine ⟨hmsup e hmem heA, ?_⟩
      simp only [List.mem_append, List.mem_singleton, not_or]
      refine ⟨?_, fun h => heA (h ▸ hxA)⟩
      intro hk
      obtain ⟨u, v, huv⟩ := g6 e.1 hk
      exact hsep e hmem heA u v huv
    · intro e he heA
      apply hsep e _ heA
      rw [g5]
      simp only [List.mem_append] at he ⊢
      rcases he with h | h
      · exact Or.inl h
      · exact Or.inr (Or.inl h)

/-- **the `undoSingleAdd` loop of `Undo`**, weak `NodeMap` clause -/
theorem undoAdds_absEW {A : List H} : ∀ (k : Nat) (adds : List H) (G : Forest H) (p : Pollard H),
    adds.length = k → (∀ x ∈ adds, x ∈ A) → AbsEW p (G.addMany adds) A →
    G.numLeaves + adds.length < 2 ^ 63 →
    ∃ hp' nm' rs', undoAdds k p = (.ok (), ⟨hp', nm', rs', p.numLeaves - BitVec.ofNat 64 k,
        p.numDels, p.full⟩) ∧
      AbsEW ⟨hp', nm', rs', p.numLeaves - BitVec.ofNat 64 k, p.numDels, p.full⟩ G A := by
  intro k
  induction k with
  | zero =>
    intro adds G p hk hA a hn
    have : adds = [] := List.length_eq_zero_iff.mp hk
    subst this
    refine ⟨p.heap, p.nodeMap, p.roots, ?_, ?_⟩
    · simp [undoAdds]
    · simpa [addMany_nil] using a
  | succ k ih =>
    intro adds G p hk hA a hn
    obtain ⟨init, x, rfl⟩ : ∃ init x, adds = init ++ [x] := by
      rcases List.eq_nil_or_concat adds with h | ⟨l', b, h⟩
      · subst h; simp at hk
      · exact ⟨l', b, by rw [h, List.concat_eq_append]⟩
    have hinit : init.length = k := by simp at hk; omega
    rw [addMany_snoc] at a
    simp only [List.length_append, List.length_cons, List.length_nil] at hn
    obtain ⟨hp1, nm1, rs1, e1, a1⟩ := undoSingleAdd_absEW a (hA x (by simp))
      (by rw [numLeaves_addMany]; omega)
    have hnl := a.numLeaves
    rw [numLeaves_add, numLeaves_addMany] at hnl
    obtain ⟨hp2, nm2, rs2, e2, a2⟩ := ih init G _ hinit (fun y hy => hA y (by simp [hy])) a1 (by omega)
    simp only at e2 a2
    have hsub : BitVec.ofNat 64 (G.addMany init).numLeaves - BitVec.ofNat 64 k =
        p.numLeaves - BitVec.ofNat 64 (k + 1) := by
      apply BitVec.eq_of_toNat_eq
      rw [numLeaves_addMany, BitVec.toNat_sub, BitVec.toNat_sub, BitVec.toNat_ofNat,
        BitVec.toNat_ofNat, BitVec.toNat_ofNat, hnl, hinit]
      have h1 : (G.numLeaves + k) % 2 ^ 64 = G.numLeaves + k := Nat.mod_eq_of_lt (by omega)
      have h2 : k % 2 ^ 64 = k := Nat.mod_eq_of_lt (by omega)
      have h3 : (k + 1) % 2 ^ 64 = k + 1 := Nat.mod_eq_of_lt (by omega)
      rw [h1, h2, h3]
      omega
    rw [hsub] at e2 a2
    refine ⟨hp2, nm2, rs2, ?_, a2⟩
    show (undoSingleAdd >>= fun _ => undoAdds k) p = _
    simp only [bind_apply, e1]
    exact e2

/-- a represented forest, seen with the weak clause: the leaves outside `A` must not be parent
hashes -/
theorem Abs.toAbsEW {p : Pollard H} {G : Forest H} (a : Abs p G) (hn : G.numLeaves < 2 ^ 64) (A : List H)
    (hsep : ∀ x ∈ G.liveLeaves, x ∉ A → ∀ u v : H, x ≠ ph u v) : AbsEW p G A := by
  have ad := a.toAbsD
  obtain ⟨h1, owned, lv, h2, h3, h4, h5, h6⟩ := ad
  refine ⟨h1, _, owned, lv, DropEmpty.refl _, h2, h3, h4, h5, fun e he => ((h6 e).1 he).1,
    fun e he _ => (h6 e).2 ⟨he, by simp⟩, ?_⟩
  intro e he heA
  apply hsep e.1 _ heA
  rw [← h2.liveLeaves hn]
  exact List.mem_map_of_mem he

/-- back to the exact clause once no live leaf is in `A` -/
theorem AbsEW.toAbsE {p : Pollard H} {G : Forest H} {A : List H} (a : AbsEW p G A)
    (hn : G.numLeaves < 2 ^ 64) (hA : ∀ x ∈ G.liveLeaves, x ∉ A) : AbsE p G := by
  obtain ⟨h1, ts', owned, lv, hd, h2, h3, h4, h5, h6, h7, _⟩ := a
  refine ⟨h1, ts', owned, lv, hd, h2, h3, h4, fun e => ⟨h6 e, fun he => h7 e he ?_⟩⟩
  apply hA
  rw [← trees_leaves G hn, ← List.flatMap_map, hd.leaves, ← h2.leaves]
  exact List.mem_map_of_mem he

end UtreexoVerif.Proofs.PollardHeap
