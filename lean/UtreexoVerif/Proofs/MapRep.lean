/-
  Layer 1 of the map-forest surgery proofs: the state of `Model.MapPollard` seen as two
  functions on (row, offset) positions,

      A : Pos → Option (Leaf H)      (the `Nodes` map)
      C : H → Option Pos             (the `CachedLeaves` map)

  `Rep m T A C`: `m` is allocated for `T` rows, every key of `Nodes` is the encoding of a
  valid position, `Nodes[enc q] = A q`, `CachedLeaves[x] = enc (C x)`.  The lemmas of this
  file say what the elementary updates and `prunePosition` do on `(A, C)`.
-/
import UtreexoVerif.Proofs.MapPrune
import UtreexoVerif.Proofs.MapInvCheck

namespace UtreexoVerif.Proofs.MapRep
open UtreexoVerif Model Spec Spec.Forest Proofs MapAL MapInv MapPrune
set_option linter.unusedSectionVars false

variable {H : Type} [DecidableEq H] [Hasher H]

instance (T : Nat) (q : Pos) : Decidable (Valid T q) := by unfold Valid; infer_instance

/-- functional update -/
def upd {α β : Type} [DecidableEq α] (f : α → Option β) (a : α) (v : Option β) : α → Option β :=
  fun x => if x = a then v else f x

@[simp] theorem upd_self {α β : Type} [DecidableEq α] (f : α → Option β) (a : α) (v : Option β) :
    upd f a v a = v := by simp [upd]

theorem upd_ne {α β : Type} [DecidableEq α] (f : α → Option β) {a x : α} (v : Option β) (h : x ≠ a) :
    upd f a v x = f x := by simp [upd, h]

theorem upd_apply {α β : Type} [DecidableEq α] (f : α → Option β) (a x : α) (v : Option β) :
    upd f a v x = if x = a then v else f x := rfl

/-- the model state `m`, allocated for `T` rows, is represented by `(A, C)` -/
structure Rep (m : MapPollard H) (T : Nat) (A : Pos → Option (Leaf H)) (C : H → Option Pos) : Prop where
  T_le : T ≤ 63
  rows : m.totalRows = H8 T
  keys : ∀ p l, m.getNode p = some l → ∃ q, Valid T q ∧ p = encP T q
  node : ∀ q, Valid T q → m.getNode (encP T q) = A q
  dom : ∀ q l, A q = some l → Valid T q
  cache : ∀ x, m.getCached x = (C x).map (encP T)
  cdom : ∀ x t, C x = some t → Valid T t

namespace Rep
variable {m : MapPollard H} {T : Nat} {A : Pos → Option (Leaf H)} {C : H → Option Pos}

theorem hasNode (rep : Rep m T A C) {q : Pos} (hq : Valid T q) : m.hasNode (encP T q) = (A q).isSome := by
  rw [hasNode_eq, rep.node q hq]

theorem hasCached (rep : Rep m T A C) (x : H) : m.hasCached x = (C x).isSome := by
  rw [hasCached_eq, rep.cache x]; cases C x <;> rfl

theorem getNodeD (rep : Rep m T A C) {q : Pos} (hq : Valid T q) :
    m.getNodeD (encP T q) = (A q).getD ⟨Hasher.zero, false⟩ := by
  unfold MapPollard.getNodeD; rw [rep.node q hq]

theorem putNode (rep : Rep m T A C) {q : Pos} (hq : Valid T q) (l : Leaf H) :
    Rep (m.putNode (encP T q) l) T (upd A q (some l)) C where
  T_le := rep.T_le
  rows := rep.rows
  keys := by
    intro p l' h
    rw [getNode_putNode] at h
    split at h
    · rename_i hp; exact ⟨q, hq, hp⟩
    · exact rep.keys p l' h
  node := by
    intro q' hq'
    rw [getNode_putNode, upd_apply]
    by_cases h : q' = q
    · subst h; simp
    · have : encP T q' ≠ encP T q := fun e => h (encP_inj' rep.T_le hq' hq e)
      rw [if_neg this, if_neg h]; exact rep.node q' hq'
  dom := by
    intro q' l' h
    rw [upd_apply] at h
    split at h
    · rename_i e; rw [e]; exact hq
    · exact rep.dom q' l' h
  cache := rep.cache
  cdom := rep.cdom

theorem delNode (rep : Rep m T A C) {q : Pos} (hq : Valid T q) :
    Rep (m.delNode (encP T q)) T (upd A q none) C where
  T_le := rep.T_le
  rows := rep.rows
  keys := by
    intro p l' h
    rw [getNode_delNode] at h
    split at h
    · cases h
    · exact rep.keys p l' h
  node := by
    intro q' hq'
    rw [getNode_delNode, upd_apply]
    by_cases h : q' = q
    · subst h; simp
    · have : encP T q' ≠ encP T q := fun e => h (encP_inj' rep.T_le hq' hq e)
      rw [if_neg this, if_neg h]; exact rep.node q' hq'
  dom := by
    intro q' l' h
    rw [upd_apply] at h
    split at h
    · cases h
    · exact rep.dom q' l' h
  cache := rep.cache
  cdom := rep.cdom

theorem putCached (rep : Rep m T A C) (x : H) {t : Pos} (ht : Valid T t) :
    Rep (m.putCached x (encP T t)) T A (upd C x (some t)) where
  T_le := rep.T_le
  rows := rep.rows
  keys := rep.keys
  node := rep.node
  dom := rep.dom
  cache := by
    intro y
    rw [getCached_putCached, upd_apply]
    split
    · rfl
    · exact rep.cache y
  cdom := by
    intro y t' h
    rw [upd_apply] at h
    split at h
    · simp only [Option.some.injEq] at h; rw [← h]; exact ht
    · exact rep.cdom y t' h

theorem delCached (rep : Rep m T A C) (x : H) :
    Rep (m.delCached x) T A (upd C x none) where
  T_le := rep.T_le
  rows := rep.rows
  keys := rep.keys
  node := rep.node
  dom := rep.dom
  cache := by
    intro y
    rw [getCached_delCached, upd_apply]
    split
    · rfl
    · exact rep.cache y
  cdom := by
    intro y t' h
    rw [upd_apply] at h
    split at h
    · cases h
    · exact rep.cdom y t' h

/-- representation is determined pointwise: replacing `A`, `C` by extensionally equal functions -/
theorem congr (rep : Rep m T A C) {A' : Pos → Option (Leaf H)} {C' : H → Option Pos}
    (hA : ∀ q, A' q = A q) (hC : ∀ x, C' x = C x) : Rep m T A' C' := by
  have eA : A' = A := funext hA
  have eC : C' = C := funext hC
  rw [eA, eC]; exact rep

/-- a state with the same look-ups is represented by the same pair -/
theorem of_same (rep : Rep m T A C) {m' : MapPollard H} (hT : m'.totalRows = m.totalRows)
    (hn : ∀ p, m'.getNode p = m.getNode p) (hc : ∀ x, m'.getCached x = m.getCached x) : Rep m' T A C where
  T_le := rep.T_le
  rows := hT.trans rep.rows
  keys := by intro p l h; rw [hn] at h; exact rep.keys p l h
  node := by intro q hq; rw [hn]; exact rep.node q hq
  dom := rep.dom
  cache := by intro x; rw [hc]; exact rep.cache x
  cdom := rep.cdom

end Rep

/-! ### the canonical representation of a state whose keys are valid -/

/-- `Nodes` as a function on positions -/
def absA (m : MapPollard H) (T : Nat) : Pos → Option (Leaf H) :=
  fun q => if Valid T q then m.getNode (encP T q) else none

/-- `CachedLeaves` as a function into positions -/
def absC (m : MapPollard H) (T : Nat) : H → Option Pos :=
  fun x => (m.getCached x).bind (fun p => decRO T p.toNat)

theorem rep_abs {m : MapPollard H} {T : Nat} (hT : T ≤ 63) (hrows : m.totalRows = H8 T)
    (hkeys : ∀ p l, m.getNode p = some l → ∃ q, Valid T q ∧ p = encP T q)
    (hcache : ∀ x p, m.getCached x = some p → ∃ t, Valid T t ∧ p = encP T t) :
    Rep m T (absA m T) (absC m T) where
  T_le := hT
  rows := hrows
  keys := hkeys
  node := by intro q hq; simp [absA, hq]
  dom := by
    intro q l h
    unfold absA at h
    split at h
    · assumption
    · cases h
  cache := by
    intro x
    unfold absC
    cases h : m.getCached x with
    | none => rfl
    | some p =>
      obtain ⟨t, ht, rfl⟩ := hcache x p h
      simp [MapInvCheck.dec_encP hT ht]
  cdom := by
    intro x t h
    unfold absC at h
    cases hc : m.getCached x with
    | none => rw [hc] at h; cases h
    | some p =>
      obtain ⟨t', ht', rfl⟩ := hcache x p hc
      rw [hc] at h
      simp [MapInvCheck.dec_encP hT ht'] at h
      rw [← h]; exact ht'

/-! ### `prunePosition` -/

/-- the remember flag Go reads from a possibly absent entry -/
def remD (o : Option (Leaf H)) : Bool := (o.getD ⟨Hasher.zero, false⟩).remember

/-- at least one child position of `q` is stored -/
def kids (A : Pos → Option (Leaf H)) (q : Pos) : Bool :=
  decide (q.1 ≠ 0) && ((A (q.1 - 1, 2 * q.2)).isSome || (A (q.1 - 1, 2 * q.2 + 1)).isSome)

/-- `prunePosition` on the abstract state -/
def pruneA (A : Pos → Option (Leaf H)) (q : Pos) : Pos → Option (Leaf H) := fun p =>
  if remD (A q) = false ∧ remD (A (sib q)) = false then
    (if p = sib q ∧ kids A q = false then none
     else if p = q ∧ kids A (sib q) = false then none
     else A p)
  else A p

theorem kids_eq {m : MapPollard H} {T : Nat} {A : Pos → Option (Leaf H)} {C : H → Option Pos}
    (rep : Rep m T A C) {q : Pos} (hq : Valid T q) : childrenStored m T q = kids A q := by
  unfold childrenStored kids
  by_cases h0 : q.1 = 0
  · simp [h0]
  · have h1 : 1 ≤ q.1 := by omega
    have v0 := valid_child hq h1 0 (by omega)
    rw [Nat.add_zero] at v0
    rw [rep.hasNode v0, rep.hasNode (valid_child hq h1 1 (by omega))]

theorem Rep.prunePosition {m : MapPollard H} {T : Nat} {A : Pos → Option (Leaf H)} {C : H → Option Pos}
    (rep : Rep m T A C) {q : Pos} (hq : Valid T q) (hlt : q.1 < T) :
    Rep (m.prunePosition (encP T q)) T (pruneA A q) C := by
  have hs := valid_sib hq hlt
  have hg := fun p => getNode_prunePosition_encP rep.T_le rep.rows hq hlt (m := m) p
  obtain ⟨f1, f2, f3, f4⟩ := prunePosition_frame m (encP T q)
  refine { T_le := rep.T_le, rows := f3.trans rep.rows, keys := ?_, node := ?_, dom := ?_, cache := ?_, cdom := rep.cdom }
  · intro p l h
    exact rep.keys p l (prunePosition_sub m _ p l h)
  · intro q' hq'
    rw [hg, rep.getNodeD hq, rep.getNodeD hs, kids_eq rep hq, kids_eq rep hs, rep.node q' hq']
    unfold pruneA remD
    have e1 : (encP T q' = encP T (sib q)) ↔ q' = sib q :=
      ⟨fun e => encP_inj' rep.T_le hq' hs e, fun e => by rw [e]⟩
    have e2 : (encP T q' = encP T q) ↔ q' = q :=
      ⟨fun e => encP_inj' rep.T_le hq' hq e, fun e => by rw [e]⟩
    simp only [e1, e2]
  · intro q' l h
    unfold pruneA at h
    split at h
    · split at h
      · cases h
      · split at h
        · cases h
        · exact rep.dom q' l h
    · exact rep.dom q' l h
  · intro x
    show AL.get? (m.prunePosition (encP T q)).cached x = _
    rw [f1]; exact rep.cache x

theorem pruneA_sub {A : Pos → Option (Leaf H)} {q p : Pos} {l : Leaf H} (h : pruneA A q p = some l) :
    A p = some l := by
  unfold pruneA at h
  split at h
  · split at h
    · cases h
    · split at h
      · cases h
      · exact h
  · exact h

theorem pruneA_other {A : Pos → Option (Leaf H)} {q p : Pos} (h1 : p ≠ q) (h2 : p ≠ sib q) :
    pruneA A q p = A p := by
  unfold pruneA
  simp [h1, h2]

/-! ### lifting a subtree onto its parent (shared definitions) -/

/-- `q` lies strictly below `p` -/
def SUnder (p q : Pos) : Prop := Anc p q ∧ q.1 < p.1

instance (p q : Pos) : Decidable (Anc p q) := by unfold Anc; infer_instance
instance (p q : Pos) : Decidable (SUnder p q) := by unfold SUnder; infer_instance

/-- where a node `q` below `σ` goes when the subtree rooted at `σ` replaces its parent
(`calcNextPosition q (sib σ)`): one row up, the path bit that chose `σ` removed -/
def liftP (σ q : Pos) : Pos := (q.1 + 1, removeBitNat q.2 (σ.1 - q.1))

/-- the inverse: where a node `q` (row `≥ 1`) below `parent σ` came from
(`calcPrevPosition q (sib σ)`) -/
def unliftP (σ q : Pos) : Pos := (q.1 - 1, addBitNat q.2 (σ.1 + 1 - q.1) (decide (σ.2 % 2 = 1)))

/-- `Nodes` after `moveUpDescendants σ (sib σ)`: everything strictly below `parent σ` is
replaced by the content that was one row lower below `σ` -/
def liftA (σ : Pos) (A : Pos → Option (Leaf H)) : Pos → Option (Leaf H) := fun q =>
  if SUnder (parent σ) q then (if q.1 = 0 then none else A (unliftP σ q)) else A q

/-- `CachedLeaves` after `moveUpDescendants σ (sib σ)` -/
def liftC (σ : Pos) (C : H → Option Pos) : H → Option Pos := fun x =>
  (C x).map (fun t => if SUnder σ t then liftP σ t else t)

end UtreexoVerif.Proofs.MapRep
