/-
  `placeEmptyRoot` of the map-forest model on the abstract state `(A, C)` of `MapRep`
  (the inverse of `moveUpDescendants`, see `Proofs/MapMoveUp.lean`).

  The walk is described by the set `M` of DESTINATION positions (strictly below `σ`) that have
  already been visited: `AU σ A M` / `CU σ C M` are the two maps after exactly the nodes whose
  destinations lie in `M` have moved down.  One iteration of `placeRowLoop` inserts one
  position into `M`; a row loop inserts a whole row (deepest row first); after the last row
  `M` is everything strictly below `σ`, and `AU`/`CU` are `unliftA`/`unliftC`.
-/
import UtreexoVerif.Proofs.MapUndoDefs
import UtreexoVerif.Proofs.MapMoveUp

namespace UtreexoVerif.Proofs.MapPlaceEmpty
open UtreexoVerif Model Spec Spec.Forest Proofs MapAL MapInv MapPrune MapRep MapUndoDefs Hasher
set_option linter.unusedSectionVars false

variable {H : Type} [DecidableEq H] [Hasher H]

/-! ### one iteration of `placeRowLoop` -/

/-- the body of the `for i` loop of `placeEmptyRoot` (after `calcNextPosition` succeeded) -/
def placeBody (pos curPos : U64) (m : MapPollard H) : MapPollard H :=
  match m.getNode curPos with
  | some v =>
    if v.hash ≠ zero then
      let m := m.delNode curPos
      let c := m.hasCached v.hash
      let m := if c then m.putCached v.hash pos else m
      let v : Leaf H := if c || m.full then ⟨v.hash, true⟩ else v
      m.putNode pos v
    else m
  | none => m

theorem placeRowLoop_zero (prev child i : U64) (m : MapPollard H) :
    MapPollard.placeRowLoop prev child 0 i m = (m, .ok ()) := rfl

theorem placeRowLoop_succ {prev child i cur : U64} {k : Nat} {m : MapPollard H}
    (h : calcNextPosition (i + child) prev m.totalRows = (cur, false)) :
    MapPollard.placeRowLoop prev child (k + 1) i m =
      MapPollard.placeRowLoop prev child k (i + 1) (placeBody (i + child) cur m) := by
  rw [MapPollard.placeRowLoop]
  simp only [h, Bool.false_eq_true, if_false]
  rfl

theorem placeBody_frame (pos cur : U64) (m : MapPollard H) :
    (placeBody pos cur m).numLeaves = m.numLeaves ∧ (placeBody pos cur m).full = m.full ∧
    (placeBody pos cur m).totalRows = m.totalRows := by
  unfold placeBody
  split
  · split
    · simp only
      split <;> exact ⟨rfl, rfl, rfl⟩
    · exact ⟨rfl, rfl, rfl⟩
  · exact ⟨rfl, rfl, rfl⟩

/-- the body on a represented state: the node stored at `s` (if its hash is not the all-zero
hash) moves to `c`, its cache entry follows -/
theorem placeBody_rep {m : MapPollard H} {T : Nat} {A : Pos → Option (Leaf H)} {C : H → Option Pos}
    (rep : Rep m T A C) {c s : Pos} (hc : Valid T c) (hs : Valid T s) :
    Rep (placeBody (encP T c) (encP T s) m) T
      (match A s with
        | some v =>
          if v.hash ≠ zero then
            upd (upd A s none) c (some (if ((C v.hash).isSome || m.full) = true then ⟨v.hash, true⟩ else v))
          else A
        | none => A)
      (match A s with
        | some v => if v.hash ≠ zero then (if (C v.hash).isSome = true then upd C v.hash (some c) else C) else C
        | none => C) := by
  unfold placeBody
  rw [rep.node _ hs]
  cases hA : A s with
  | none => exact rep
  | some v =>
    simp only
    by_cases hz : v.hash = zero
    · simp only [hz, ne_eq, not_true_eq_false, if_false]; exact rep
    · simp only [ne_eq, hz, not_false_eq_true, if_true]
      have r1 := rep.delNode hs
      rw [r1.hasCached]
      cases hC : (C v.hash).isSome with
      | false =>
        simp only [Bool.false_eq_true, if_false, Bool.false_or]
        exact r1.putNode hc _
      | true =>
        simp only [if_true, Bool.true_or]
        exact (r1.putCached v.hash hc).putNode hc _

/-! ### the state after the destinations of `M` have been visited -/

open _root_.UtreexoVerif.Proofs.MapMoveUp hiding Ctx step_A step_C sunder_parent_iff

/-- `Nodes` after exactly the destinations of `M` (strictly below `σ`) have been visited -/
def AU (σ : Pos) (A : Pos → Option (Leaf H)) (M : Pos → Bool) : Pos → Option (Leaf H) := fun q =>
  if M q = true then A (liftP σ q)
  else if SUnder (parent σ) q ∧ 1 ≤ q.1 ∧ M (unliftP σ q) = true then none else A q

/-- `CachedLeaves` after exactly the destinations of `M` have been visited -/
def CU (σ : Pos) (C : H → Option Pos) (M : Pos → Bool) : H → Option Pos := fun x =>
  (C x).map (fun p => if SUnder (parent σ) p ∧ 1 ≤ p.1 ∧ M (unliftP σ p) = true then unliftP σ p else p)

/-- the facts about the start state that the walk relies on -/
structure Ctx (σ : Pos) (A : Pos → Option (Leaf H)) (C : H → Option Pos) : Prop where
  h0 : ∀ q, SUnder (parent σ) q → q.1 = 0 → A q = none
  hz : ∀ q v, SUnder (parent σ) q → A q = some v → v.hash ≠ zero
  hfl : ∀ q v, SUnder (parent σ) q → A q = some v → (C v.hash).isSome = true → v.remember = true
  hc : ∀ q v, SUnder (parent σ) q → A q = some v → ∀ t, C v.hash = some t → t = q
  hc2 : ∀ x t, C x = some t → SUnder (parent σ) t → ∃ v, A t = some v ∧ v.hash = x

section step
variable {σ : Pos} {A : Pos → Option (Leaf H)} {C : H → Option Pos} {M : Pos → Bool} {c : Pos}

theorem sunder_parent_of_sunder (h : SUnder σ c) : SUnder (parent σ) c :=
  MapMoveUp.sunder_parent_iff.2 (Or.inr (Or.inr (Or.inl h)))

theorem unlift_ne_of_ne {q : Pos} (h1 : 1 ≤ q.1) (h2 : q ≠ liftP σ c) : unliftP σ q ≠ c := by
  intro e
  apply h2
  rw [← e, lift_unlift h1]

theorem AU_ins_other {q : Pos} (h1 : q ≠ c) (h2 : q ≠ liftP σ c) : AU σ A (ins M c) q = AU σ A M q := by
  unfold AU
  rw [ins_ne M h1]
  by_cases hq : 1 ≤ q.1
  · rw [ins_ne M (unlift_ne_of_ne hq h2)]
  · simp [hq]

theorem AU_ins_self : AU σ A (ins M c) c = A (liftP σ c) := by
  unfold AU
  rw [ins_self, if_pos rfl]

theorem AU_ins_src (hc : SUnder σ c) (hMs : M (liftP σ c) = false) : AU σ A (ins M c) (liftP σ c) = none := by
  unfold AU
  rw [ins_ne M (lift_ne_self σ c), hMs, unlift_lift hc, ins_self]
  simp only [Bool.false_eq_true, if_false]
  rw [if_pos ⟨lift_sunder hc, by show 1 ≤ c.1 + 1; omega, trivial⟩]

theorem AU_src (hc : SUnder σ c) (hMc : M c = false) (hMs : M (liftP σ c) = false) :
    AU σ A M (liftP σ c) = A (liftP σ c) := by
  unfold AU
  rw [hMs, unlift_lift hc, hMc]
  simp

theorem AU_dest (ctx : Ctx σ A C) (hc : SUnder σ c) (hMc : M c = false)
    (hun : 1 ≤ c.1 → M (unliftP σ c) = true) : AU σ A M c = none := by
  unfold AU
  rw [hMc]
  simp only [Bool.false_eq_true, if_false]
  by_cases h1 : 1 ≤ c.1
  · rw [if_pos ⟨sunder_parent_of_sunder hc, h1, hun h1⟩]
  · rw [if_neg (fun h => h1 h.2.1)]
    exact ctx.h0 c (sunder_parent_of_sunder hc) (by omega)

theorem CU_isSome (x : H) : (CU σ C M x).isSome = (C x).isSome := by
  unfold CU
  cases C x <;> rfl

/-- the effect of one iteration on `Nodes`, in terms of the visited set -/
theorem step_A (ctx : Ctx σ A C) {fl : Bool}
    (hall : fl = true → ∀ q v, SUnder (parent σ) q → A q = some v → v.remember = true)
    (hc : SUnder σ c) (hMc : M c = false) (hMs : M (liftP σ c) = false)
    (hun : 1 ≤ c.1 → M (unliftP σ c) = true) (q : Pos) :
    (match AU σ A M (liftP σ c) with
      | some v =>
        if v.hash ≠ zero then
          upd (upd (AU σ A M) (liftP σ c) none) c
            (some (if ((CU σ C M v.hash).isSome || fl) = true then ⟨v.hash, true⟩ else v))
        else AU σ A M
      | none => AU σ A M) q = AU σ A (ins M c) q := by
  have hs := lift_sunder hc
  rw [AU_src hc hMc hMs]
  have hne : liftP σ c ≠ c := lift_ne_self σ c
  cases hA : A (liftP σ c) with
  | none =>
    simp only
    by_cases e1 : q = c
    · subst e1; rw [AU_ins_self, AU_dest ctx hc hMc hun, hA]
    · by_cases e2 : q = liftP σ c
      · subst e2; rw [AU_ins_src hc hMs, AU_src hc hMc hMs, hA]
      · rw [AU_ins_other e1 e2]
  | some v =>
    simp only
    rw [if_pos (ctx.hz _ v hs hA)]
    have hv : (if ((CU σ C M v.hash).isSome || fl) = true then (⟨v.hash, true⟩ : Leaf H) else v) = v := by
      rw [CU_isSome]
      split
      · rename_i h
        have : v.remember = true := by
          cases hfl' : fl with
          | true => exact hall hfl' _ v hs hA
          | false =>
            rw [hfl', Bool.or_false] at h
            exact ctx.hfl _ v hs hA h
        cases v
        simp only at this
        rw [this]
      · rfl
    rw [hv]
    by_cases e1 : q = c
    · subst e1; rw [upd_self, AU_ins_self, hA]
    · rw [upd_ne _ _ e1]
      by_cases e2 : q = liftP σ c
      · subst e2; rw [upd_self, AU_ins_src hc hMs]
      · rw [upd_ne _ _ e2, AU_ins_other e1 e2]

theorem CU_ins_ne {x : H} (h : C x ≠ some (liftP σ c)) : CU σ C (ins M c) x = CU σ C M x := by
  unfold CU
  cases hx : C x with
  | none => rfl
  | some t =>
    have hne : t ≠ liftP σ c := by rintro rfl; exact h hx
    simp only [Option.map_some]
    by_cases h1 : 1 ≤ t.1
    · rw [ins_ne M (unlift_ne_of_ne h1 hne)]
    · simp [h1]

/-- the effect of one iteration on `CachedLeaves`, in terms of the visited set -/
theorem step_C (ctx : Ctx σ A C) (hc : SUnder σ c) (hMc : M c = false) (hMs : M (liftP σ c) = false) (x : H) :
    (match AU σ A M (liftP σ c) with
      | some v =>
        if v.hash ≠ zero then
          (if (CU σ C M v.hash).isSome = true then upd (CU σ C M) v.hash (some c) else CU σ C M)
        else CU σ C M
      | none => CU σ C M) x = CU σ C (ins M c) x := by
  have hs := lift_sunder hc
  rw [AU_src hc hMc hMs]
  cases hA : A (liftP σ c) with
  | none =>
    simp only
    rw [CU_ins_ne]
    intro e
    obtain ⟨v, hv, _⟩ := ctx.hc2 x _ e hs
    rw [hA] at hv; cases hv
  | some v =>
    simp only
    rw [if_pos (ctx.hz _ v hs hA), CU_isSome]
    cases hCv : C v.hash with
    | none =>
      simp only [Option.isSome_none, Bool.false_eq_true, if_false]
      rw [CU_ins_ne]
      intro e
      obtain ⟨v', hv', hx'⟩ := ctx.hc2 x _ e hs
      rw [hA] at hv'
      simp only [Option.some.injEq] at hv'
      subst hv'
      rw [hx', e] at hCv; cases hCv
    | some t =>
      have ht := ctx.hc _ v hs hA t hCv
      subst ht
      simp only [Option.isSome_some, if_true]
      by_cases ex : x = v.hash
      · subst ex
        rw [upd_self]
        unfold CU
        rw [hCv]
        simp only [Option.map_some, unlift_lift hc, ins_self]
        rw [if_pos ⟨hs, by show 1 ≤ c.1 + 1; omega, trivial⟩]
      · rw [upd_ne _ _ ex, CU_ins_ne]
        intro e
        obtain ⟨v', hv', hx'⟩ := ctx.hc2 x _ e hs
        rw [hA] at hv'
        simp only [Option.some.injEq] at hv'
        subst hv'
        exact ex hx'.symm

end step

/-! ### the visited set of the walk: rows below `ρ` completely, `j` positions of row `ρ` -/

/-- the destinations visited when the walk stands at row `ρ`, having done `j` positions of it -/
def Mset (σ : Pos) (ρ j : Nat) : Pos → Bool := fun t =>
  decide (SUnder σ t ∧ (t.1 < ρ ∨ (t.1 = ρ ∧ t.2 < σ.2 * 2 ^ (σ.1 - ρ) + j)))

/-- the `j`-th destination on row `ρ`: the `j`-th descendant of `σ` on that row -/
def dest (σ : Pos) (ρ j : Nat) : Pos := (ρ, σ.2 * 2 ^ (σ.1 - ρ) + j)

section mset
variable {σ : Pos} {ρ j : Nat}

theorem dest_sunder (hρ : ρ < σ.1) (hj : j < 2 ^ (σ.1 - ρ)) : SUnder σ (dest σ ρ j) := by
  refine ⟨⟨by show ρ ≤ σ.1; omega, ?_⟩, hρ⟩
  show σ.2 = (σ.2 * 2 ^ (σ.1 - ρ) + j) / 2 ^ (σ.1 - ρ)
  rw [Nat.mul_comm, MapLiftGeo.mul_add_div_pow _ _ _ hj]

theorem Mset_dest : Mset σ ρ j (dest σ ρ j) = false := by
  simp [Mset, dest]

theorem Mset_lift : Mset σ ρ j (liftP σ (dest σ ρ j)) = false := by
  unfold Mset
  rw [decide_eq_false_iff_not]
  rintro ⟨_, h | h⟩
  · have : (liftP σ (dest σ ρ j)).1 = ρ + 1 := rfl
    omega
  · have : (liftP σ (dest σ ρ j)).1 = ρ + 1 := rfl
    omega

theorem Mset_unlift (hρ : ρ < σ.1) (hj : j < 2 ^ (σ.1 - ρ)) (h1 : 1 ≤ ρ) :
    Mset σ ρ j (unliftP σ (dest σ ρ j)) = true := by
  unfold Mset
  rw [decide_eq_true_iff]
  refine ⟨unlift_sunder (sunder_parent_of_sunder (dest_sunder hρ hj)) h1, Or.inl ?_⟩
  show ρ - 1 < ρ
  omega

theorem Mset_succ (hρ : ρ < σ.1) (hj : j < 2 ^ (σ.1 - ρ)) :
    ins (Mset σ ρ j) (dest σ ρ j) = Mset σ ρ (j + 1) := by
  funext t
  have hd := dest_sunder hρ hj
  unfold ins Mset
  rw [Bool.eq_iff_iff]
  simp only [Bool.or_eq_true, decide_eq_true_eq]
  constructor
  · rintro (⟨h1, h2⟩ | rfl)
    · exact ⟨h1, by omega⟩
    · exact ⟨hd, Or.inr ⟨rfl, by show σ.2 * 2 ^ (σ.1 - ρ) + j < _; omega⟩⟩
  · rintro ⟨h1, h2 | ⟨h2, h3⟩⟩
    · exact Or.inl ⟨h1, Or.inl h2⟩
    · by_cases e : t.2 = σ.2 * 2 ^ (σ.1 - ρ) + j
      · right; exact Prod.ext h2 e
      · left; exact ⟨h1, Or.inr ⟨h2, by omega⟩⟩

theorem Mset_row_end : Mset σ ρ (2 ^ (σ.1 - ρ)) = Mset σ (ρ + 1) 0 := by
  funext t
  unfold Mset
  rw [Bool.eq_iff_iff]
  simp only [decide_eq_true_eq]
  constructor
  · rintro ⟨h1, h2 | ⟨h2, h3⟩⟩
    · exact ⟨h1, Or.inl (by omega)⟩
    · exact ⟨h1, Or.inl (by omega)⟩
  · rintro ⟨h1, h2 | ⟨h2, h3⟩⟩
    · refine ⟨h1, ?_⟩
      by_cases e : t.1 = ρ
      · right
        refine ⟨e, ?_⟩
        have := h1.1.2
        rw [e] at this
        rw [this]
        exact Nat.lt_div_mul_add (a := t.2) (Nat.two_pow_pos (σ.1 - ρ))
      · left; omega
    · exfalso
      have := h1.1.2
      rw [h2] at this
      rw [this] at h3
      have := Nat.div_mul_le_self t.2 (2 ^ (σ.1 - (ρ + 1)))
      omega

theorem Mset_zero : Mset σ 0 0 = fun _ => false := by
  funext t
  unfold Mset
  rw [decide_eq_false_iff_not]
  rintro ⟨h1, h2 | ⟨h2, h3⟩⟩
  · omega
  · have := h1.1.2
    rw [h2] at this
    rw [this] at h3
    have := Nat.div_mul_le_self t.2 (2 ^ (σ.1 - 0))
    omega

theorem Mset_final (t : Pos) : Mset σ σ.1 0 t = decide (SUnder σ t) := by
  unfold Mset
  rw [Bool.eq_iff_iff]
  simp only [decide_eq_true_eq]
  constructor
  · exact fun h => h.1
  · exact fun h => ⟨h, Or.inl h.2⟩

end mset

/-! ### the row loop and the level loop -/

theorem ofNat_add_encU (T ρ b i : Nat) : BitVec.ofNat 64 i + encU T ρ b = encU T ρ (b + i) := by
  unfold encU
  rw [enc_add T ρ (b + i), enc_add T ρ b, ← BitVec.ofNat_add]
  congr 1
  omega

theorem ofNat_succ (j : Nat) : BitVec.ofNat 64 j + (1 : U64) = BitVec.ofNat 64 (j + 1) :=
  (BitVec.ofNat_add (n := 64) j 1).symm

section loops
variable {T : Nat} {σ : Pos} {A : Pos → Option (Leaf H)} {C : H → Option Pos}

theorem row_rep (ctx : Ctx σ A C) {fl : Bool}
    (hall : fl = true → ∀ q v, SUnder (parent σ) q → A q = some v → v.remember = true)
    (hσ : Valid T σ) (hlt : σ.1 < T) {ρ : Nat} (hρ : ρ < σ.1) :
    ∀ (k j : Nat) (m : MapPollard H), j + k = 2 ^ (σ.1 - ρ) →
      Rep m T (AU σ A (Mset σ ρ j)) (CU σ C (Mset σ ρ j)) → m.full = fl →
      ∃ m', MapPollard.placeRowLoop (encP T (sib σ)) (encU T ρ (σ.2 * 2 ^ (σ.1 - ρ))) k (BitVec.ofNat 64 j) m
          = (m', .ok ()) ∧
        Rep m' T (AU σ A (Mset σ ρ (2 ^ (σ.1 - ρ)))) (CU σ C (Mset σ ρ (2 ^ (σ.1 - ρ)))) ∧
        m'.numLeaves = m.numLeaves ∧ m'.full = m.full := by
  intro k
  induction k with
  | zero =>
    intro j m hj rep _
    have : j = 2 ^ (σ.1 - ρ) := by omega
    subst this
    exact ⟨m, rfl, rep, rfl, rfl⟩
  | succ k ih =>
    intro j m hj rep hfull
    have hT := rep.T_le
    have hjlt : j < 2 ^ (σ.1 - ρ) := by omega
    have hc := dest_sunder hρ hjlt
    have hcv : Valid T (dest σ ρ j) := valid_of_anc hσ hc.1
    have hsv : Valid T (liftP σ (dest σ ρ j)) := lift_valid hlt hcv (by show ρ ≤ σ.1; omega)
    have hsσ := valid_sib hσ hlt
    have epos : BitVec.ofNat 64 j + encU T ρ (σ.2 * 2 ^ (σ.1 - ρ)) = encP T (dest σ ρ j) :=
      ofNat_add_encU T ρ _ j
    have en : calcNextPosition (encP T (dest σ ρ j)) (encP T (sib σ)) m.totalRows
        = (encP T (liftP σ (dest σ ρ j)), false) := by
      rw [rep.rows]
      exact Props.C16.calcNextPosition_enc hT (show (dest σ ρ j).1 ≤ (sib σ).1 by show ρ ≤ σ.1; omega)
        (show (sib σ).1 < T from hlt) hcv.2 hsσ.2
    rw [← epos] at en
    rw [placeRowLoop_succ en, epos, ofNat_succ]
    have rep1 := placeBody_rep rep hcv hsv
    rw [hfull] at rep1
    have rep2 : Rep (placeBody (encP T (dest σ ρ j)) (encP T (liftP σ (dest σ ρ j))) m) T
        (AU σ A (Mset σ ρ (j + 1))) (CU σ C (Mset σ ρ (j + 1))) := by
      rw [← Mset_succ hρ hjlt]
      refine rep1.congr (fun q => ?_) (fun x => ?_)
      · exact (step_A ctx hall hc Mset_dest Mset_lift (fun h1 => Mset_unlift hρ hjlt h1) q).symm
      · exact (step_C ctx hc Mset_dest Mset_lift x).symm
    obtain ⟨f1, f2, _⟩ := placeBody_frame (encP T (dest σ ρ j)) (encP T (liftP σ (dest σ ρ j))) m
    obtain ⟨m', e, rep', n', f'⟩ := ih (j + 1) _ (by omega) rep2 (f2.trans hfull)
    exact ⟨m', e, rep', n'.trans f1, f'.trans f2⟩

theorem levels_rep (ctx : Ctx σ A C) {fl : Bool}
    (hall : fl = true → ∀ q v, SUnder (parent σ) q → A q = some v → v.remember = true)
    (hσ : Valid T σ) (hlt : σ.1 < T) :
    ∀ (h : Nat) (m : MapPollard H), h ≤ σ.1 →
      Rep m T (AU σ A (Mset σ (σ.1 - h) 0)) (CU σ C (Mset σ (σ.1 - h) 0)) → m.full = fl →
      ∃ m', MapPollard.placeLoop (encP T (sib σ)) (encP T σ) h m = (m', .ok ()) ∧
        Rep m' T (AU σ A (Mset σ σ.1 0)) (CU σ C (Mset σ σ.1 0)) ∧
        m'.numLeaves = m.numLeaves ∧ m'.full = m.full := by
  intro h
  induction h with
  | zero =>
    intro m _ rep _
    exact ⟨m, rfl, rep, rfl, rfl⟩
  | succ h ih =>
    intro m hh rep hfull
    have hT := rep.T_le
    have hρ : σ.1 - (h + 1) < σ.1 := by omega
    have ek : σ.1 - (σ.1 - (h + 1)) = h + 1 := by omega
    have ech : ChildMany (encP T σ) (BitVec.ofNat 8 (h + 1)) m.totalRows
        = (encU T (σ.1 - (h + 1)) (σ.2 * 2 ^ (h + 1)), false) := by
      rw [rep.rows]
      exact Props.C16.childMany_enc hT hσ.1 hh hσ.2
    obtain ⟨m1, e1, rep1, n1, f1⟩ := row_rep ctx hall hσ hlt hρ (2 ^ (h + 1)) 0 m (by rw [ek]; omega) rep hfull
    rw [ek] at e1 rep1
    have e1' : MapPollard.placeRowLoop (encP T (sib σ)) (encU T (σ.1 - (h + 1)) (σ.2 * 2 ^ (h + 1)))
        (2 ^ (h + 1)) 0#64 m = (m1, .ok ()) := e1
    have rep1' : Rep m1 T (AU σ A (Mset σ (σ.1 - h) 0)) (CU σ C (Mset σ (σ.1 - h) 0)) := by
      have := Mset_row_end (σ := σ) (ρ := σ.1 - (h + 1))
      rw [ek, show σ.1 - (h + 1) + 1 = σ.1 - h by omega] at this
      rw [← this]; exact rep1
    obtain ⟨m2, e2, rep2, n2, f2⟩ := ih m1 (by omega) rep1' (f1.trans hfull)
    refine ⟨m2, ?_, rep2, n2.trans n1, f2.trans f1⟩
    rw [MapPollard.placeLoop]
    simp only [ech, Bool.false_eq_true, if_false, e1']
    exact e2

end loops

/-! ### `placeEmptyRoot` -/

theorem AU_empty (σ : Pos) (A : Pos → Option (Leaf H)) (q : Pos) : AU σ A (fun _ => false) q = A q := by
  simp [AU]

theorem CU_empty (σ : Pos) (C : H → Option Pos) (x : H) : CU σ C (fun _ => false) x = C x := by
  unfold CU
  cases C x <;> simp

theorem AU_full {σ : Pos} {A : Pos → Option (Leaf H)} {C : H → Option Pos} (ctx : Ctx σ A C) (q : Pos) :
    unliftA σ A q = AU σ A (Mset σ σ.1 0) q := by
  unfold unliftA AU
  simp only [Mset_final, decide_eq_true_eq]
  by_cases hq : SUnder σ q
  · rw [if_pos hq, if_pos hq]
  · rw [if_neg hq, if_neg hq]
    by_cases hp : SUnder (parent σ) q
    · rw [if_pos hp]
      by_cases h1 : 1 ≤ q.1
      · rw [if_pos ⟨hp, h1, unlift_sunder hp h1⟩]
      · rw [if_neg (fun h => h1 h.2.1)]
        exact (ctx.h0 q hp (by omega)).symm
    · rw [if_neg hp, if_neg (fun h => hp h.1)]

theorem CU_full (σ : Pos) (C : H → Option Pos) (x : H) : unliftC σ C x = CU σ C (Mset σ σ.1 0) x := by
  unfold unliftC CU
  cases C x with
  | none => rfl
  | some t =>
    simp only [Option.map_some, Mset_final, decide_eq_true_eq]
    by_cases h : SUnder (parent σ) t ∧ 1 ≤ t.1
    · rw [if_pos h, if_pos ⟨h.1, h.2, unlift_sunder h.1 h.2⟩]
    · rw [if_neg h, if_neg (fun h' => h ⟨h'.1, h'.2.1⟩)]

theorem placeEmptyRoot_eq {m : MapPollard H} {T : Nat} {A : Pos → Option (Leaf H)} {C : H → Option Pos}
    (rep : Rep m T A C) {σ : Pos} (hσ : Valid T σ) (hlt : σ.1 < T) :
    MapPollard.placeEmptyRoot (encP T (sib σ)) m
      = MapPollard.placeLoop (encP T (sib σ)) (encP T σ) σ.1 m := by
  have hT := rep.T_le
  unfold MapPollard.placeEmptyRoot
  simp only [sibling_encP hT (valid_sib hσ hlt), sib_sib, rep.rows, detectRow_encP hT hσ,
    toNat_H8 (show σ.1 ≤ 63 by omega)]

/-- `placeEmptyRoot (sib σ)` on the abstract state: the nodes strictly below `parent σ` (the
lifted subtree of `σ`) move one row down, below `σ` -/
theorem placeEmptyRoot_rep_gen {m : MapPollard H} {T : Nat} {A : Pos → Option (Leaf H)} {C : H → Option Pos}
    (rep : Rep m T A C) {fl : Bool} (hfull : m.full = fl) {σ : Pos} (hσ : Valid T σ) (hlt : σ.1 < T)
    (h0 : ∀ q, SUnder (parent σ) q → q.1 = 0 → A q = none)
    (hz : ∀ q v, SUnder (parent σ) q → A q = some v → v.hash ≠ zero)
    (hfl : ∀ q v, SUnder (parent σ) q → A q = some v → (C v.hash).isSome = true → v.remember = true)
    -- on a full forest every stored node below `parent σ` carries the flag
    (hall : fl = true → ∀ q v, SUnder (parent σ) q → A q = some v → v.remember = true)
    (hc : ∀ q v, SUnder (parent σ) q → A q = some v → ∀ t, C v.hash = some t → t = q)
    (hc2 : ∀ x t, C x = some t → SUnder (parent σ) t → ∃ v, A t = some v ∧ v.hash = x) :
    ∃ m', MapPollard.placeEmptyRoot (encP T (sib σ)) m = (m', .ok ()) ∧
      Rep m' T (unliftA σ A) (unliftC σ C) ∧ m'.numLeaves = m.numLeaves ∧ m'.full = m.full := by
  have ctx : Ctx σ A C := ⟨h0, hz, hfl, hc, hc2⟩
  rw [placeEmptyRoot_eq rep hσ hlt]
  have rep0 : Rep m T (AU σ A (Mset σ (σ.1 - σ.1) 0)) (CU σ C (Mset σ (σ.1 - σ.1) 0)) := by
    rw [Nat.sub_self, Mset_zero]
    exact rep.congr (AU_empty σ A) (CU_empty σ C)
  obtain ⟨m', e, rep', n, f⟩ := levels_rep ctx hall hσ hlt σ.1 m (Nat.le_refl _) rep0 hfull
  exact ⟨m', e, rep'.congr (AU_full ctx) (CU_full σ C), n, f⟩

/-- `placeEmptyRoot (sib σ)` on the abstract state: the nodes strictly below `parent σ` (the
lifted subtree of `σ`) move one row down, below `σ` -/
theorem placeEmptyRoot_rep {m : MapPollard H} {T : Nat} {A : Pos → Option (Leaf H)} {C : H → Option Pos}
    (rep : Rep m T A C) (hfull : m.full = false) {σ : Pos} (hσ : Valid T σ) (hlt : σ.1 < T)
    -- row 0 below `parent σ` is empty (the lifted subtree starts on row 1)
    (h0 : ∀ q, SUnder (parent σ) q → q.1 = 0 → A q = none)
    -- no empty-root marker is stored strictly below `parent σ`
    (hz : ∀ q v, SUnder (parent σ) q → A q = some v → v.hash ≠ zero)
    -- a stored node below `parent σ` whose hash is cached carries the flag and is cached at its own position
    (hfl : ∀ q v, SUnder (parent σ) q → A q = some v → (C v.hash).isSome = true → v.remember = true)
    (hc : ∀ q v, SUnder (parent σ) q → A q = some v → ∀ t, C v.hash = some t → t = q)
    -- a cached position below `parent σ` is stored with that hash
    (hc2 : ∀ x t, C x = some t → SUnder (parent σ) t → ∃ v, A t = some v ∧ v.hash = x) :
    ∃ m', MapPollard.placeEmptyRoot (encP T (sib σ)) m = (m', .ok ()) ∧
      Rep m' T (unliftA σ A) (unliftC σ C) ∧ m'.numLeaves = m.numLeaves ∧ m'.full = m.full :=
  placeEmptyRoot_rep_gen rep hfull hσ hlt h0 hz hfl (fun h => by cases h) hc hc2

/-! ### nothing to move -/

theorem placeBody_noop {m : MapPollard H} {pos cur : U64}
    (h : ∀ v, m.getNode cur = some v → v.hash = zero) : placeBody pos cur m = m := by
  unfold placeBody
  split
  · rename_i v hv
    rw [if_neg (fun hne => hne (h v hv))]
  · rfl

section noop
variable {T : Nat} {σ : Pos} {A : Pos → Option (Leaf H)} {C : H → Option Pos}

theorem row_noop {m : MapPollard H} (rep : Rep m T A C) (hσ : Valid T σ) (hlt : σ.1 < T)
    (hnone : ∀ q v, SUnder (parent σ) q → A q = some v → v.hash = zero) {ρ : Nat} (hρ : ρ < σ.1) :
    ∀ (k j : Nat), j + k = 2 ^ (σ.1 - ρ) →
      MapPollard.placeRowLoop (encP T (sib σ)) (encU T ρ (σ.2 * 2 ^ (σ.1 - ρ))) k (BitVec.ofNat 64 j) m
          = (m, .ok ()) := by
  intro k
  induction k with
  | zero => intro j _; rfl
  | succ k ih =>
    intro j hj
    have hT := rep.T_le
    have hjlt : j < 2 ^ (σ.1 - ρ) := by omega
    have hc := dest_sunder hρ hjlt
    have hcv : Valid T (dest σ ρ j) := valid_of_anc hσ hc.1
    have hsv : Valid T (liftP σ (dest σ ρ j)) := lift_valid hlt hcv (by show ρ ≤ σ.1; omega)
    have hsσ := valid_sib hσ hlt
    have epos : BitVec.ofNat 64 j + encU T ρ (σ.2 * 2 ^ (σ.1 - ρ)) = encP T (dest σ ρ j) :=
      ofNat_add_encU T ρ _ j
    have en : calcNextPosition (encP T (dest σ ρ j)) (encP T (sib σ)) m.totalRows
        = (encP T (liftP σ (dest σ ρ j)), false) := by
      rw [rep.rows]
      exact Props.C16.calcNextPosition_enc hT (show (dest σ ρ j).1 ≤ (sib σ).1 by show ρ ≤ σ.1; omega)
        (show (sib σ).1 < T from hlt) hcv.2 hsσ.2
    rw [← epos] at en
    rw [placeRowLoop_succ en, epos, ofNat_succ, placeBody_noop]
    · exact ih (j + 1) (by omega)
    · intro v hv
      rw [rep.node _ hsv] at hv
      exact hnone _ v (lift_sunder hc) hv

theorem levels_noop {m : MapPollard H} (rep : Rep m T A C) (hσ : Valid T σ) (hlt : σ.1 < T)
    (hnone : ∀ q v, SUnder (parent σ) q → A q = some v → v.hash = zero) :
    ∀ (h : Nat), h ≤ σ.1 → MapPollard.placeLoop (encP T (sib σ)) (encP T σ) h m = (m, .ok ()) := by
  intro h
  induction h with
  | zero => intro _; rfl
  | succ h ih =>
    intro hh
    have hT := rep.T_le
    have hρ : σ.1 - (h + 1) < σ.1 := by omega
    have ek : σ.1 - (σ.1 - (h + 1)) = h + 1 := by omega
    have ech : ChildMany (encP T σ) (BitVec.ofNat 8 (h + 1)) m.totalRows
        = (encU T (σ.1 - (h + 1)) (σ.2 * 2 ^ (h + 1)), false) := by
      rw [rep.rows]
      exact Props.C16.childMany_enc hT hσ.1 hh hσ.2
    have e1 := row_noop rep hσ hlt hnone hρ (2 ^ (h + 1)) 0 (by rw [ek]; omega)
    rw [ek] at e1
    have e1' : MapPollard.placeRowLoop (encP T (sib σ)) (encU T (σ.1 - (h + 1)) (σ.2 * 2 ^ (h + 1)))
        (2 ^ (h + 1)) 0#64 m = (m, .ok ()) := e1
    rw [MapPollard.placeLoop]
    simp only [ech, Bool.false_eq_true, if_false, e1']
    exact ih (by omega)

end noop

/-- when nothing movable is stored strictly below `parent σ` (only nodes with the all-zero hash, if
any), `placeEmptyRoot (sib σ)` changes nothing -/
theorem placeEmptyRoot_noop {m : MapPollard H} {T : Nat} {A : Pos → Option (Leaf H)} {C : H → Option Pos}
    (rep : Rep m T A C) {σ : Pos} (hσ : Valid T σ) (hlt : σ.1 < T)
    (hnone : ∀ q v, SUnder (parent σ) q → A q = some v → v.hash = zero) :
    MapPollard.placeEmptyRoot (encP T (sib σ)) m = (m, .ok ()) := by
  rw [placeEmptyRoot_eq rep hσ hlt]
  exact levels_noop rep hσ hlt hnone σ.1 (Nat.le_refl _)

/-! ### non-vacuity: an 8-slot forest, `σ = (2,0)`; the lifted subtree of `σ` occupies rows 2 and 1
below `parent σ = (3,0)` (row 0 is empty); both levels move one row down -/

section example_
local instance exHasher : Hasher Nat := ⟨fun a b => a + b + 1, 0⟩

/-- strictly below `p`: bounded row and offset -/
theorem sunder_bounded {p q : Pos} (h : SUnder p q) : q.1 < p.1 ∧ q.2 < (p.2 + 1) * 2 ^ p.1 := by
  refine ⟨h.2, ?_⟩
  have h1 := Nat.lt_div_mul_add (a := q.2) (Nat.two_pow_pos (p.1 - q.1))
  rw [← h.1.2] at h1
  have h2 : 2 ^ (p.1 - q.1) ≤ 2 ^ p.1 := Nat.pow_le_pow_right (by decide) (Nat.sub_le _ _)
  calc q.2 < (p.2 + 1) * 2 ^ (p.1 - q.1) := by rw [Nat.add_mul, Nat.one_mul]; exact h1
    _ ≤ (p.2 + 1) * 2 ^ p.1 := Nat.mul_le_mul_left _ h2

/-- a property of all positions strictly below `p` can be checked on finitely many positions -/
theorem forall_sunder {p : Pos} {P : Pos → Prop}
    (h : ∀ r, r < p.1 → ∀ o, o < (p.2 + 1) * 2 ^ p.1 → SUnder p (r, o) → P (r, o)) :
    ∀ q, SUnder p q → P q := fun q hq => by
  obtain ⟨a, b⟩ := sunder_bounded hq
  exact h q.1 a q.2 b hq

/-- stored: `(3,0)` (outside the region), the two children `(2,0)`, `(2,1)` of the lifted root and two
grandchildren `(1,2)` (a cached leaf) and `(1,3)` -/
def exM : MapPollard Nat :=
  { nodes := [(encP 3 (3, 0), ⟨99, false⟩), (encP 3 (2, 0), ⟨10, false⟩), (encP 3 (2, 1), ⟨11, false⟩),
      (encP 3 (1, 2), ⟨7, true⟩), (encP 3 (1, 3), ⟨8, false⟩)],
    cached := [(7, encP 3 (1, 2))], numLeaves := 5#64, totalRows := H8 3, full := false }

def exA : Pos → Option (Leaf Nat) := absA exM 3
def exC : Nat → Option Pos := absC exM 3

theorem ex_rep : Rep exM 3 exA exC := by
  refine rep_abs (by decide) rfl ?_ ?_
  · intro p l h
    have hm := get?_some_mem h
    simp only [exM, List.mem_cons, List.not_mem_nil, or_false, Prod.mk.injEq] at hm
    rcases hm with ⟨rfl, _⟩ | ⟨rfl, _⟩ | ⟨rfl, _⟩ | ⟨rfl, _⟩ | ⟨rfl, _⟩ <;>
      (refine ⟨_, ?_, rfl⟩; decide)
  · intro x p h
    have hm := get?_some_mem h
    simp only [exM, List.mem_cons, List.not_mem_nil, or_false, Prod.mk.injEq] at hm
    obtain ⟨_, rfl⟩ := hm
    refine ⟨_, ?_, rfl⟩; decide

theorem ex_cached {x : Nat} {t : Pos} (h : exC x = some t) : x = 7 ∧ t = (1, 2) := by
  unfold exC absC at h
  cases hg : exM.getCached x with
  | none => rw [hg] at h; cases h
  | some p =>
    have hm := get?_some_mem hg
    simp only [exM, List.mem_cons, List.not_mem_nil, or_false, Prod.mk.injEq] at hm
    obtain ⟨rfl, rfl⟩ := hm
    rw [hg] at h
    have e : Model.decRO 3 (encP 3 (1, 2)).toNat = some (1, 2) := by decide +kernel
    simp only [Option.bind_some, e, Option.some.injEq] at h
    exact ⟨rfl, h.symm⟩

example : ∃ m', MapPollard.placeEmptyRoot (encP 3 (sib (2, 0))) exM = (m', .ok ()) ∧
    Rep m' 3 (unliftA (2, 0) exA) (unliftC (2, 0) exC) ∧ m'.numLeaves = exM.numLeaves ∧ m'.full = exM.full := by
  refine placeEmptyRoot_rep ex_rep rfl (σ := (2, 0)) (by decide) (by decide) ?_ ?_ ?_ ?_ ?_
  · exact forall_sunder (P := fun q => q.1 = 0 → exA q = none) (by decide +kernel)
  · intro q v hq hA
    have := forall_sunder (P := fun q => (exA q).all (fun v => decide (v.hash ≠ (zero : Nat))) = true)
      (by decide +kernel) q hq
    rw [hA] at this
    simpa using this
  · intro q v hq hA hC
    have := forall_sunder (P := fun q => (exA q).all (fun v => !(exC v.hash).isSome || v.remember) = true)
      (by decide +kernel) q hq
    rw [hA] at this
    simp only [Option.all_some, Bool.or_eq_true, Bool.not_eq_true', hC] at this
    simpa using this
  · intro q v hq hA t hC
    have := forall_sunder (P := fun q => (exA q).all (fun v => (exC v.hash).all (fun t => decide (t = q))) = true)
      (by decide +kernel) q hq
    rw [hA] at this
    simp only [Option.all_some, hC] at this
    simpa using this
  · intro x t hC _
    obtain ⟨rfl, rfl⟩ := ex_cached hC
    exact ⟨⟨7, true⟩, by decide +kernel, rfl⟩

/-- and the example is not trivial: two levels of the lifted subtree are stored (one node is a
cached leaf), and all of them move one row down; the node outside the region stays -/
example : SUnder (parent (2, 0)) (2, 1) ∧ SUnder (parent (2, 0)) (1, 2) ∧
    exA (2, 0) = some ⟨10, false⟩ ∧ exA (2, 1) = some ⟨11, false⟩ ∧
    exA (1, 2) = some ⟨7, true⟩ ∧ exA (1, 3) = some ⟨8, false⟩ ∧ exC 7 = some (1, 2) ∧
    unliftA (2, 0) exA (1, 0) = some ⟨10, false⟩ ∧ unliftA (2, 0) exA (1, 1) = some ⟨11, false⟩ ∧
    unliftA (2, 0) exA (0, 2) = some ⟨7, true⟩ ∧ unliftA (2, 0) exA (0, 3) = some ⟨8, false⟩ ∧
    unliftA (2, 0) exA (2, 0) = none ∧ unliftA (2, 0) exA (2, 1) = none ∧
    unliftA (2, 0) exA (1, 2) = none ∧ unliftA (2, 0) exA (1, 3) = none ∧
    unliftA (2, 0) exA (3, 0) = some ⟨99, false⟩ ∧ unliftC (2, 0) exC 7 = some (0, 2) := by
  decide +kernel

/-- the model itself, evaluated: the level loop visits row 0 first (`(1,2) ↦ (0,2)`, `(1,3) ↦ (0,3)`,
the cache entry of hash 7 follows), then row 1 (`(2,0) ↦ (1,0)`, `(2,1) ↦ (1,1)`): nodes of two
levels of the lifted subtree have moved down -/
example :
    (MapPollard.placeEmptyRoot (encP 3 (sib (2, 0))) exM).2.toBool = true ∧
    (MapPollard.placeEmptyRoot (encP 3 (sib (2, 0))) exM).1.nodes =
      [(encP 3 (1, 1), ⟨11, false⟩), (encP 3 (1, 0), ⟨10, false⟩), (encP 3 (0, 3), ⟨8, false⟩),
        (encP 3 (0, 2), ⟨7, true⟩), (encP 3 (3, 0), ⟨99, false⟩)] ∧
    (MapPollard.placeEmptyRoot (encP 3 (sib (2, 0))) exM).1.cached = [(7, encP 3 (0, 2))] := by
  decide +kernel

/-- two successive calls (first `σ = (2,0)`, then `σ = (1,0)`) move the node with hash 11 down two
levels: `(2,1) ↦ (1,1) ↦ (0,1)` -/
example :
    (MapPollard.placeEmptyRoot (encP 3 (sib (1, 0)))
      (MapPollard.placeEmptyRoot (encP 3 (sib (2, 0))) exM).1).1.getNode (encP 3 (0, 1)) = some ⟨11, false⟩ ∧
    exM.getNode (encP 3 (2, 1)) = some ⟨11, false⟩ ∧
    (MapPollard.placeEmptyRoot (encP 3 (sib (2, 0))) exM).1.getNode (encP 3 (1, 1)) = some ⟨11, false⟩ := by
  decide +kernel

/-- for `placeEmptyRoot_noop`: only an empty-root marker (all-zero hash) is stored below `parent σ` -/
def exM0 : MapPollard Nat :=
  { nodes := [(encP 3 (3, 0), ⟨99, false⟩), (encP 3 (2, 1), ⟨0, true⟩)],
    cached := [], numLeaves := 5#64, totalRows := H8 3, full := false }

theorem ex_rep0 : Rep exM0 3 (absA exM0 3) (absC exM0 3) := by
  refine rep_abs (by decide) rfl ?_ ?_
  · intro p l h
    have hm := get?_some_mem h
    simp only [exM0, List.mem_cons, List.not_mem_nil, or_false, Prod.mk.injEq] at hm
    rcases hm with ⟨rfl, _⟩ | ⟨rfl, _⟩ <;> (refine ⟨_, ?_, rfl⟩; decide)
  · intro x p h
    cases h

example : MapPollard.placeEmptyRoot (encP 3 (sib (2, 0))) exM0 = (exM0, .ok ()) := by
  refine placeEmptyRoot_noop ex_rep0 (σ := (2, 0)) (by decide) (by decide) ?_
  intro q v hq hA
  have := forall_sunder (P := fun q => (absA exM0 3 q).all (fun v => decide (v.hash = (zero : Nat))) = true)
    (by decide +kernel) q hq
  rw [hA] at this
  simpa using this

/-- the hypothesis of the no-op example is not vacuous: a (zero-hash) node is stored in the region -/
example : SUnder (parent (2, 0)) (2, 1) ∧ absA exM0 3 (2, 1) = some ⟨(zero : Nat), true⟩ := by
  decide +kernel

end example_

end UtreexoVerif.Proofs.MapPlaceEmpty

#print axioms UtreexoVerif.Proofs.MapPlaceEmpty.placeEmptyRoot_rep
#print axioms UtreexoVerif.Proofs.MapPlaceEmpty.placeEmptyRoot_noop
