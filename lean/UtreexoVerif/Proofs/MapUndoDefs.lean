/-
  Shared definitions for the `Undo` proofs.
    * `unliftA` / `unliftC`: the abstract effect of `placeEmptyRoot` (the inverse of
      `moveUpDescendants`): the nodes strictly below `parent σ` move one row down, below `σ`;
    * `HInv`: the storage invariant with a HOLE and without the guarantee that roots are stored —
      what holds between the steps of `Undo`: inside the hole (the nodes whose hashes `Undo`
      re-computes at the end) the store may hold anything; the roots are re-written at the end.
-/
import UtreexoVerif.Proofs.MapAInv

namespace UtreexoVerif.Proofs.MapUndoDefs
open UtreexoVerif Model Spec Spec.Forest Proofs MapInv MapPrune MapRep MapLiftGeo PForest MapAInv Hasher
set_option linter.unusedSectionVars false

variable {H : Type} [DecidableEq H] [Hasher H]

/-- `Nodes` after `placeEmptyRoot (sib σ)`: everything strictly below `σ` is what was one row
higher below `parent σ` (`liftP σ`), the rest of the region strictly below `parent σ` is empty -/
def unliftA (σ : Pos) (A : Pos → Option (Leaf H)) : Pos → Option (Leaf H) := fun q =>
  if SUnder σ q then A (liftP σ q) else if SUnder (parent σ) q then none else A q

/-- `CachedLeaves` after `placeEmptyRoot (sib σ)` -/
def unliftC (σ : Pos) (C : H → Option Pos) : H → Option Pos := fun x =>
  (C x).map (fun p => if SUnder (parent σ) p ∧ 1 ≤ p.1 then unliftP σ p else p)

/-- the storage invariant outside a hole, roots not guaranteed -/
structure HInv (A : Pos → Option (Leaf H)) (C : H → Option Pos) (N : List (Pos × H × Bool))
    (R : Pos → Prop) (K : H → Prop) (Hole : Pos → Prop) : Prop where
  true_hash : ∀ q l, A q = some l → ¬ Hole q → ∃ b, (q, l.hash, b) ∈ N
  cache_sub : ∀ x t, C x = some t → K x
  cached_pos : ∀ x t, C x = some t → (t, x, true) ∈ N ∧ ¬ Hole t
  kleaf_out : ∀ t, KLeaf N K t → ¬ Hole t
  /-- the leaves of the cached set are stored (roots or not) -/
  leaf_stored : ∀ t, KLeaf N K t → A t ≠ none
  only_needed : ∀ q l, A q = some l → ¬ Hole q → ¬ R q → ∃ t, KLeaf N K t ∧ t.1 ≤ q.1 ∧ Anc (parent q) t
  has_needed : ∀ q h b, (q, h, b) ∈ N → ¬ Hole q → ¬ R q →
    (KLeaf N K q ∨ ∃ t, KLeaf N K t ∧ Anc (sib q) t) → A q ≠ none
  flags : ∀ q l, A q = some l → ¬ Hole q → l.hash ≠ zero → (l.remember = true ↔ KLeaf N K q)

variable {A : Pos → Option (Leaf H)} {C : H → Option Pos} {N : List (Pos × H × Bool)}
  {R : Pos → Prop} {K : H → Prop}

/-- the full invariant gives the holed one (no hole) -/
theorem HInv.of_ainv (inv : AInv A C N R K (fun _ => False)) : HInv A C N R K (fun _ => False) where
  true_hash := fun q l h _ => inv.true_hash q l h
  cache_sub := inv.cache_sub
  cached_pos := fun x t h => ⟨inv.cached_pos x t h, fun h => h⟩
  kleaf_out := fun _ _ h => h
  leaf_stored := by
    intro t hk
    obtain ⟨x, hx, hm⟩ := hk
    exact Classical.byCases (p := R t) (fun hr => inv.roots_stored t hr)
      (fun hr => inv.has_needed t x true hm hr (Or.inl ⟨x, hx, hm⟩))
  only_needed := fun q l h _ hnr => inv.only_needed q l h hnr (fun h => h)
  has_needed := fun q h b hm _ hnr hreq => inv.has_needed q h b hm hnr hreq
  flags := fun q l h _ hnz => inv.flags q l h hnz

/-- without a hole, and with the roots stored, it is the full invariant -/
theorem HInv.to_ainv (inv : HInv A C N R K (fun _ => False)) (hroots : ∀ ρ, R ρ → A ρ ≠ none) :
    AInv A C N R K (fun _ => False) where
  true_hash := fun q l h => inv.true_hash q l h (fun h => h)
  cache_sub := inv.cache_sub
  cached_pos := fun x t h => (inv.cached_pos x t h).1
  roots_stored := hroots
  only_needed := fun q l h hnr _ => inv.only_needed q l h (fun h => h) hnr
  has_needed := fun q h b hm hnr hreq => inv.has_needed q h b hm (fun h => h) hnr hreq
  flags := fun q l h hnz => inv.flags q l h (fun h => h) hnz

end UtreexoVerif.Proofs.MapUndoDefs
