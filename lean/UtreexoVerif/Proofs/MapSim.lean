/-
  The model of mappollard.go (`Model/MapPollard.lean`) respects `Equiv` (`Proofs/SerialMapInv.lean`):
  every function reads the two association lists only through `AL.get?` and changes them only by
  `AL.put` / `AL.del` / a map over the values, so two states that denote the same finite maps (with
  the same `NumLeaves`, `TotalRows`, `Full`) are taken to such states again, with the same result.

  Part 1: the primitives, pruning, moving subtrees up, `remap`, `add`.
  No hypothesis on the hash type (no collision-freeness), no invariant.
-/
import UtreexoVerif.Proofs.SerialMapInv

namespace UtreexoVerif.Proofs.SerialMapInv
open UtreexoVerif Model Proofs MapAL Hasher
set_option linter.unusedSectionVars false
variable {H : Type} [DecidableEq H] [Hasher H]

/-! ### the primitives -/

section Prim
variable {m m' : MapPollard H}

theorem Equiv.putNode (h : Equiv m m') (p : U64) (l : Leaf H) : Equiv (m.putNode p l) (m'.putNode p l) :=
  ⟨fun q => by rw [getNode_putNode, getNode_putNode, h.node], fun x => h.cache x, h.numLeaves, h.totalRows, h.full⟩

theorem Equiv.delNode (h : Equiv m m') (p : U64) : Equiv (m.delNode p) (m'.delNode p) :=
  ⟨fun q => by rw [getNode_delNode, getNode_delNode, h.node], fun x => h.cache x, h.numLeaves, h.totalRows, h.full⟩

theorem Equiv.putCached (h : Equiv m m') (x : H) (p : U64) : Equiv (m.putCached x p) (m'.putCached x p) :=
  ⟨fun q => h.node q, fun y => by rw [getCached_putCached, getCached_putCached, h.cache], h.numLeaves,
    h.totalRows, h.full⟩

theorem Equiv.delCached (h : Equiv m m') (x : H) : Equiv (m.delCached x) (m'.delCached x) :=
  ⟨fun q => h.node q, fun y => by rw [getCached_delCached, getCached_delCached, h.cache], h.numLeaves,
    h.totalRows, h.full⟩

theorem Equiv.setNumLeaves (h : Equiv m m') (n : U64) :
    Equiv { m with numLeaves := n } { m' with numLeaves := n } :=
  ⟨fun q => h.node q, fun x => h.cache x, rfl, h.totalRows, h.full⟩

/-- the ghost counter is not part of the state -/
theorem Equiv.orderDep (h : Equiv m m') (k k' : Nat) :
    Equiv { m with orderDep := k } { m' with orderDep := k' } :=
  ⟨fun q => h.node q, fun x => h.cache x, h.numLeaves, h.totalRows, h.full⟩

theorem Equiv.orderDep_ite (h : Equiv m m') (c c' : Bool) (k k' : Nat) :
    Equiv (if c then { m with orderDep := k } else m) (if c' then { m' with orderDep := k' } else m') := by
  have h1 : Equiv (if c then { m with orderDep := k } else m) m := by
    split
    · exact (Equiv.refl m).orderDep k m.orderDep
    · exact Equiv.refl m
  have h2 : Equiv m' (if c' then { m' with orderDep := k' } else m') := by
    split
    · exact (Equiv.refl m').orderDep m'.orderDep k'
    · exact Equiv.refl m'
  exact (h1.trans h).trans h2

theorem get?_map_val {κ ν : Type} [DecidableEq κ] (f : ν → ν) (l : List (κ × ν)) (k : κ) :
    AL.get? (l.map (fun (e : κ × ν) => (e.1, f e.2))) k = (AL.get? l k).map f := by
  induction l with
  | nil => rfl
  | cons e t ih =>
    obtain ⟨a, b⟩ := e
    simp only [List.map_cons, get?_cons, ih]
    split <;> rfl

/-- the re-keying of the cache values in `remap` -/
theorem Equiv.mapCached (h : Equiv m m') (f : U64 → U64) (t : U8) :
    Equiv { m with cached := m.cached.map (fun (e : H × U64) => (e.1, f e.2)), totalRows := t }
      { m' with cached := m'.cached.map (fun (e : H × U64) => (e.1, f e.2)), totalRows := t } := by
  refine ⟨fun q => h.node q, fun x => ?_, h.numLeaves, rfl, h.full⟩
  show AL.get? (m.cached.map _) x = AL.get? (m'.cached.map _) x
  rw [get?_map_val, get?_map_val]
  have := h.cache x
  unfold MapPollard.getCached at this
  rw [this]

theorem Equiv.getNodeD (h : Equiv m m') (p : U64) : m.getNodeD p = m'.getNodeD p := by
  unfold MapPollard.getNodeD; rw [h.node]

theorem Equiv.isRoot (h : Equiv m m') (p : U64) : m.isRoot p = m'.isRoot p := by
  unfold MapPollard.isRoot; rw [h.numLeaves, h.totalRows]

theorem Equiv.niecesPresent (h : Equiv m m') (p : U64) : m.niecesPresent p = m'.niecesPresent p := by
  unfold MapPollard.niecesPresent
  simp only [h.totalRows, h.hasNode]

theorem Equiv.ite (h : Equiv m m') {m1 m1' : MapPollard H} (h1 : Equiv m1 m1') (c : Bool) :
    Equiv (if c then m1 else m) (if c then m1' else m') := by
  cases c <;> simpa

theorem Equiv.ite' {a a' b b' : MapPollard H} (ha : Equiv a a') (hb : Equiv b b') (c : Prop) [Decidable c] :
    Equiv (if c then a else b) (if c then a' else b') := by
  split
  · exact ha
  · exact hb

end Prim

end UtreexoVerif.Proofs.SerialMapInv

namespace UtreexoVerif.Proofs.MapSim
open UtreexoVerif Model Proofs MapAL Hasher Proofs.SerialMapInv
set_option linter.unusedSectionVars false
set_option linter.unusedVariables false

variable {H : Type} [DecidableEq H] [Hasher H]

/-! ### results of calls -/

/-- two outcomes of a call: the same result (value or failure) and equivalent states left behind -/
def SimR {α : Type} (r r' : MapPollard H × Except Fail α) : Prop := r.2 = r'.2 ∧ Equiv r.1 r'.1

theorem SimR.mk_ok {α : Type} {m m' : MapPollard H} (h : Equiv m m') (a : α) :
    SimR (m, (.ok a : Except Fail α)) (m', .ok a) := ⟨rfl, h⟩

theorem SimR.mk_err {α : Type} {m m' : MapPollard H} (h : Equiv m m') (e : Fail) :
    SimR (m, (.error e : Except Fail α)) (m', .error e) := ⟨rfl, h⟩

theorem SimR.cases {α : Type} {r r' : MapPollard H × Except Fail α} (h : SimR r r') :
    (∃ m1 m1' e, r = (m1, .error e) ∧ r' = (m1', .error e) ∧ Equiv m1 m1') ∨
    (∃ m1 m1' a, r = (m1, .ok a) ∧ r' = (m1', .ok a) ∧ Equiv m1 m1') := by
  obtain ⟨m1, x⟩ := r
  obtain ⟨m1', x'⟩ := r'
  obtain ⟨h1, h2⟩ := h
  simp only at h1 h2
  subst h1
  cases x with
  | error e => exact Or.inl ⟨m1, m1', e, rfl, rfl, h2⟩
  | ok a => exact Or.inr ⟨m1, m1', a, rfl, rfl, h2⟩

theorem SimR.casesU {r r' : MapPollard H × Except Fail Unit} (h : SimR r r') :
    (∃ m1 m1' e, r = (m1, .error e) ∧ r' = (m1', .error e) ∧ Equiv m1 m1') ∨
    (∃ m1 m1', r = (m1, .ok ()) ∧ r' = (m1', .ok ()) ∧ Equiv m1 m1') := by
  rcases h.cases with h | ⟨m1, m1', a, h1, h2, hs⟩
  · exact Or.inl h
  · exact Or.inr ⟨m1, m1', h1, h2, hs⟩

/-- `sim_bind t with m1 m1' a hs`: `t : SimR (f m) (f m')` and the goal matches on `f m` / `f m'`
(Go's `x, err := f(); if err != nil { return err }`): closes the error case, leaves the `ok` case -/
syntax "sim_bind " term " with " ident ident ident ident : tactic
macro_rules
  | `(tactic| sim_bind $t with $m1 $m1' $a $hs) =>
    `(tactic| (rcases SimR.cases $t with ⟨$m1:ident, $m1':ident, e, h1, h2, $hs:ident⟩ | ⟨$m1:ident, $m1':ident, $a:ident, h1, h2, $hs:ident⟩
               · rw [h1, h2]; exact SimR.mk_err $hs e
               rw [h1, h2]; try dsimp only))

syntax "sim_bindU " term " with " ident ident ident : tactic
macro_rules
  | `(tactic| sim_bindU $t with $m1 $m1' $hs) =>
    `(tactic| (rcases SimR.casesU $t with ⟨$m1:ident, $m1':ident, e, h1, h2, $hs:ident⟩ | ⟨$m1:ident, $m1':ident, h1, h2, $hs:ident⟩
               · rw [h1, h2]; exact SimR.mk_err $hs e
               rw [h1, h2]; try dsimp only))

/-! ### pruning -/

theorem sim_prunePosition {m m' : MapPollard H} (h : Equiv m m') (pos : U64) :
    Equiv (m.prunePosition pos) (m'.prunePosition pos) := by
  unfold MapPollard.prunePosition
  simp only [h.getNodeD]
  apply Equiv.ite' _ h
  have h1 : Equiv (if (!m.niecesPresent (sibling pos)) = true then m.delNode (sibling pos) else m)
      (if (!m'.niecesPresent (sibling pos)) = true then m'.delNode (sibling pos) else m') := by
    rw [h.niecesPresent]
    exact Equiv.ite' (h.delNode _) h _
  rw [h1.niecesPresent]
  exact Equiv.ite' (h1.delNode _) h1 _

theorem sim_pruneNieces {m m' : MapPollard H} (h : Equiv m m') (pos : U64) :
    Equiv (m.pruneNieces pos) (m'.pruneNieces pos) := by
  unfold MapPollard.pruneNieces
  rw [h.totalRows]
  exact Equiv.ite' h (sim_prunePosition h _) _

theorem sim_forgetUnneededLoop (k : Nat) : ∀ (p : U64) {m m' : MapPollard H}, Equiv m m' →
    Equiv (MapPollard.forgetUnneededLoop k p m) (MapPollard.forgetUnneededLoop k p m') := by
  induction k with
  | zero => intro p m m' h; exact h
  | succ k ih =>
    intro p m m' h
    simp only [MapPollard.forgetUnneededLoop]
    rw [h.totalRows, h.isRoot]
    exact Equiv.ite' h (ih _ (sim_prunePosition h _)) _

theorem sim_forgetUnneededDel {m m' : MapPollard H} (h : Equiv m m') (del : U64) :
    Equiv (m.forgetUnneededDel del) (m'.forgetUnneededDel del) := by
  unfold MapPollard.forgetUnneededDel
  rw [h.isRoot, h.totalRows]
  exact Equiv.ite' h (sim_forgetUnneededLoop _ _ h) _

theorem sim_forgetBelowAux (k : Nat) : ∀ (p : U64) {m m' : MapPollard H}, Equiv m m' →
    Equiv (MapPollard.forgetBelowAux k p m) (MapPollard.forgetBelowAux k p m') := by
  induction k with
  | zero => intro p m m' h; exact h
  | succ k ih =>
    intro p m m' h
    simp only [MapPollard.forgetBelowAux]
    rw [h.totalRows]
    apply Equiv.ite' h
    exact ih _ (ih _ ((h.delNode _).delNode _))

theorem sim_forgetBelow {m m' : MapPollard H} (h : Equiv m m') (p : U64) :
    Equiv (m.forgetBelow p) (m'.forgetBelow p) := by
  unfold MapPollard.forgetBelow
  rw [h.totalRows]
  exact sim_forgetBelowAux _ _ h

theorem sim_pruneUp (k : Nat) : ∀ (p : U64) {m m' : MapPollard H}, Equiv m m' →
    Equiv (MapPollard.pruneUp k p m) (MapPollard.pruneUp k p m') := by
  induction k with
  | zero => intro p m m' h; exact h
  | succ k ih =>
    intro p m m' h
    simp only [MapPollard.pruneUp]
    rw [h.isRoot, h.totalRows]
    exact Equiv.ite' h (ih _ (sim_prunePosition h _)) _

/-! ### moving subtrees up -/

theorem sim_moveUpChild {m m' : MapPollard H} (h : Equiv m m') (position delPos : U64) (left : Bool) :
    SimR (MapPollard.moveUpChild position delPos left m) (MapPollard.moveUpChild position delPos left m') := by
  unfold MapPollard.moveUpChild
  simp only [h.totalRows, h.node]
  generalize (if left = true then LeftChild (sibling position) m'.totalRows
    else RightChild (sibling position) m'.totalRows) = c
  generalize calcNextPosition c delPos m'.totalRows = r
  split
  · exact SimR.mk_err h _
  · cases m'.getNode c with
    | none => exact SimR.mk_ok h _
    | some lVal =>
      dsimp only
      have h1 := (h.delNode c).putNode r.1 lVal
      rw [h1.hasCached]
      exact SimR.mk_ok (Equiv.ite' (h1.putCached _ _) h1 _) _

theorem sim_moveUpNieces {m m' : MapPollard H} (h : Equiv m m') (position delPos : U64) :
    SimR (MapPollard.moveUpNieces position delPos m) (MapPollard.moveUpNieces position delPos m') := by
  unfold MapPollard.moveUpNieces
  rw [h.totalRows]
  split
  · exact SimR.mk_ok h _
  · sim_bind (sim_moveUpChild h (sibling position) delPos true) with m1 m1' l h1
    sim_bind (sim_moveUpChild h1 (sibling position) delPos false) with m2 m2' r h2
    exact SimR.mk_ok h2 _

theorem sim_moveUpLevel (delPos : U64) : ∀ (ps acc : List U64) {m m' : MapPollard H}, Equiv m m' →
    SimR (MapPollard.moveUpLevel delPos ps acc m) (MapPollard.moveUpLevel delPos ps acc m')
  | [], acc, m, m', h => SimR.mk_ok h _
  | p :: ps, acc, m, m', h => by
    simp only [MapPollard.moveUpLevel]
    sim_bind (sim_moveUpNieces h p delPos) with m1 m1' cs h1
    exact sim_moveUpLevel delPos ps _ h1

theorem sim_moveUpLevels (delPos : U64) : ∀ (k : Nat) (l : List U64) {m m' : MapPollard H}, Equiv m m' →
    SimR (MapPollard.moveUpLevels delPos k l m) (MapPollard.moveUpLevels delPos k l m')
  | 0, l, m, m', h => SimR.mk_ok h _
  | k+1, l, m, m', h => by
    simp only [MapPollard.moveUpLevels]
    have h0 := h.orderDep_ite (MapPollard.levelOrderSensitive m delPos l) (MapPollard.levelOrderSensitive m' delPos l)
      (m.orderDep + 1) (m'.orderDep + 1)
    sim_bind (sim_moveUpLevel delPos l [] h0) with m1 m1' next h1
    exact sim_moveUpLevels delPos k _ h1

theorem sim_moveUpDescendants {m m' : MapPollard H} (h : Equiv m m') (position delPos : U64) :
    SimR (MapPollard.moveUpDescendants position delPos m) (MapPollard.moveUpDescendants position delPos m') := by
  unfold MapPollard.moveUpDescendants
  simp only [h.totalRows]
  split
  · exact SimR.mk_ok h _
  · exact sim_moveUpLevels delPos _ _ h

/-! ### growing (`remap`) and additions -/

theorem SimR.ite {α : Type} {a a' b b' : MapPollard H × Except Fail α} (c : Prop) [Decidable c]
    (ha : c → SimR a a') (hb : ¬ c → SimR b b') : SimR (if c then a else b) (if c then a' else b') := by
  split
  · exact ha ‹_›
  · exact hb ‹_›

theorem sim_remapRow : ∀ (k : Nat) (i j : U64) {m m' : MapPollard H}, Equiv m m' →
    Equiv (MapPollard.remapRow k i j m) (MapPollard.remapRow k i j m')
  | 0, _, _, _, _, h => h
  | k+1, i, j, m, m', h => by
    simp only [MapPollard.remapRow]
    apply sim_remapRow k
    rw [h.node]
    cases m'.getNode i with
    | none => exact h
    | some leaf => exact (h.delNode i).putNode j leaf

theorem sim_remapRows (nextRows : U8) : ∀ (k : Nat) (hh : U8) {m m' : MapPollard H}, Equiv m m' →
    SimR (MapPollard.remapRows nextRows k hh m) (MapPollard.remapRows nextRows k hh m')
  | 0, _, _, _, h => SimR.mk_ok h _
  | k+1, hh, m, m', h => by
    simp only [MapPollard.remapRows, h.totalRows, h.numLeaves]
    apply SimR.ite
    · intro _; exact SimR.mk_err h _
    · intro _; exact sim_remapRows nextRows k _ (sim_remapRow _ _ _ h)

theorem sim_remap {m m' : MapPollard H} (h : Equiv m m') : SimR (MapPollard.remap m) (MapPollard.remap m') := by
  unfold MapPollard.remap
  simp only [h.totalRows, h.numLeaves]
  apply SimR.ite
  · intro _; exact SimR.mk_ok h _
  · intro _
    sim_bindU (sim_remapRows (TreeRows (m'.numLeaves + 1)) (MapPollard.rowIters 1#8 m'.totalRows) 1#8 h) with m1 m1' h1
    rw [h1.totalRows]
    have e : ∀ T : U8, (fun (x : H × U64) => match x with | (k, v) => (k, translatePos v T (TreeRows (m'.numLeaves + 1)))) =
        fun (e : H × U64) => (e.1, (fun v => translatePos v T (TreeRows (m'.numLeaves + 1))) e.2) := by
      intro T; funext x; obtain ⟨k, v⟩ := x; rfl
    rw [e]
    exact SimR.mk_ok (h1.mapCached (fun v => translatePos v m1'.totalRows (TreeRows (m'.numLeaves + 1))) _) _

theorem sim_addLoop (add : Leaf H) (T : U8) : ∀ (fuel : Nat) (hh : U8) (position : U64) (pNode : Leaf H)
    {m m' : MapPollard H}, Equiv m m' →
    SimR (MapPollard.addLoop add T fuel hh position pNode m) (MapPollard.addLoop add T fuel hh position pNode m')
  | 0, _, _, _, _, _, h => SimR.mk_err h _
  | fuel+1, hh, position, pNode, m, m', h => by
    simp only [MapPollard.addLoop, h.numLeaves, h.node, h.full]
    apply SimR.ite
    · intro _
      cases m'.getNode (rootPosition m'.numLeaves hh T) with
      | none => exact SimR.mk_err h _
      | some node =>
        dsimp only
        apply SimR.ite
        · intro _
          have h1 := (h.delNode (rootPosition m'.numLeaves hh T)).delNode position
          have h2 : Equiv
              (if (add.remember && decide (pNode.hash = add.hash)) = true then
                (if ((m.delNode (rootPosition m'.numLeaves hh T)).delNode position).hasCached add.hash = true then
                  ((m.delNode (rootPosition m'.numLeaves hh T)).delNode position).putCached add.hash (Parent position T)
                else (m.delNode (rootPosition m'.numLeaves hh T)).delNode position)
              else (m.delNode (rootPosition m'.numLeaves hh T)).delNode position)
              (if (add.remember && decide (pNode.hash = add.hash)) = true then
                (if ((m'.delNode (rootPosition m'.numLeaves hh T)).delNode position).hasCached add.hash = true then
                  ((m'.delNode (rootPosition m'.numLeaves hh T)).delNode position).putCached add.hash (Parent position T)
                else (m'.delNode (rootPosition m'.numLeaves hh T)).delNode position)
              else (m'.delNode (rootPosition m'.numLeaves hh T)).delNode position) := by
            apply Equiv.ite' _ h1
            rw [h1.hasCached]
            exact Equiv.ite' (h1.putCached _ _) h1 _
          sim_bindU (sim_moveUpDescendants h2 position (rootPosition m'.numLeaves hh T)) with m1 m1' h3
          exact sim_addLoop add T fuel _ _ _ (sim_pruneNieces (h3.putNode _ _) _)
        · intro _
          exact sim_addLoop add T fuel _ _ _ (sim_pruneNieces (h.putNode _ _) _)
    · intro _; exact SimR.mk_ok h _

theorem sim_addSingle {m m' : MapPollard H} (h : Equiv m m') (a : Leaf H) :
    SimR (MapPollard.addSingle a m) (MapPollard.addSingle a m') := by
  unfold MapPollard.addSingle
  sim_bind (sim_remap h) with m1 m1' T h1
  simp only [h1.full, h1.numLeaves]
  apply sim_addLoop
  have h2 := h1.putNode m1'.numLeaves ⟨(if m1'.full = true then ({ hash := a.hash, remember := true } : Leaf H) else a).hash,
    (if m1'.full = true then ({ hash := a.hash, remember := true } : Leaf H) else a).remember⟩
  exact Equiv.ite' (h2.putCached _ _) h2 _

theorem sim_add : ∀ (adds : List (Leaf H)) {m m' : MapPollard H}, Equiv m m' →
    SimR (MapPollard.add adds m) (MapPollard.add adds m')
  | [], _, _, h => SimR.mk_ok h _
  | a :: rest, m, m', h => by
    simp only [MapPollard.add]
    sim_bindU (sim_addSingle h a) with m1 m1' h1
    rw [h1.numLeaves]
    exact sim_add rest (h1.setNumLeaves _)

/-! ### deletions -/

theorem Equiv.ite_isRoot {X X' Y Y' : MapPollard H} (hX : Equiv X X') (p : U64) (hY : Equiv Y Y') :
    Equiv (if X.isRoot p = true then X else Y) (if X'.isRoot p = true then X' else Y') := by
  rw [hX.isRoot]
  exact Equiv.ite' hX hY _

theorem sim_updateHashesLoop : ∀ (k : Nat) (pos : U64) (node : Leaf H) {m m' : MapPollard H}, Equiv m m' →
    Equiv (MapPollard.updateHashesLoop k pos node m) (MapPollard.updateHashesLoop k pos node m')
  | 0, _, _, _, _, h => h
  | k+1, pos, node, m, m', h => by
    simp only [MapPollard.updateHashesLoop, h.getNodeD, h.totalRows, h.hasNode]
    exact Equiv.ite_isRoot (Equiv.ite' (h.putNode _ _) h _) _
      (sim_updateHashesLoop k _ _ (Equiv.ite' (h.putNode _ _) h _))

theorem sim_updateHashes {m m' : MapPollard H} (h : Equiv m m') (position : U64) (hash : H) :
    Equiv (m.updateHashes position hash) (m'.updateHashes position hash) := by
  unfold MapPollard.updateHashes
  simp only [h.totalRows, h.full]
  exact sim_updateHashesLoop _ _ _ h

/-- the part of `removeSingle` after the sibling has been moved to the parent's position -/
theorem sim_removeSingle_tail {X X' : MapPollard H} (hX : Equiv X X') (del : U64) (node : Leaf H) :
    SimR
      (match (if X.hasCached node.hash = true then
            if (calcNextPosition (sibling del) del X.totalRows).snd = true then (X, Except.error Fail.err)
            else (X.putCached node.hash (calcNextPosition (sibling del) del X.totalRows).fst, Except.ok ())
          else (X, Except.ok ()) : MapPollard H × Except Fail Unit) with
      | (m, .error e) => (m, .error e)
      | (m, .ok ()) =>
        match MapPollard.moveUpDescendants (sibling del) del m with
        | (m, .error e) => (m, .error e)
        | (m, .ok ()) => ((m.updateHashes del node.hash).forgetUnneededDel del, (.ok () : Except Fail Unit)))
      (match (if X'.hasCached node.hash = true then
            if (calcNextPosition (sibling del) del X'.totalRows).snd = true then (X', Except.error Fail.err)
            else (X'.putCached node.hash (calcNextPosition (sibling del) del X'.totalRows).fst, Except.ok ())
          else (X', Except.ok ()) : MapPollard H × Except Fail Unit) with
      | (m, .error e) => (m, .error e)
      | (m, .ok ()) =>
        match MapPollard.moveUpDescendants (sibling del) del m with
        | (m, .error e) => (m, .error e)
        | (m, .ok ()) => ((m.updateHashes del node.hash).forgetUnneededDel del, (.ok () : Except Fail Unit))) := by
  rw [hX.hasCached, hX.totalRows]
  have key : ∀ {Y Y' : MapPollard H}, Equiv Y Y' →
      SimR (match MapPollard.moveUpDescendants (sibling del) del Y with
        | (m, .error e) => (m, .error e)
        | (m, .ok ()) => ((m.updateHashes del node.hash).forgetUnneededDel del, (.ok () : Except Fail Unit)))
      (match MapPollard.moveUpDescendants (sibling del) del Y' with
        | (m, .error e) => (m, .error e)
        | (m, .ok ()) => ((m.updateHashes del node.hash).forgetUnneededDel del, (.ok () : Except Fail Unit))) := by
    intro Y Y' hY
    sim_bindU (sim_moveUpDescendants hY (sibling del) del) with m1 m1' h1
    exact SimR.mk_ok (sim_forgetUnneededDel (sim_updateHashes h1 _ _) _) _
  by_cases hc : X'.hasCached node.hash = true
  · rw [if_pos hc, if_pos hc]
    by_cases he : (calcNextPosition (sibling del) del X'.totalRows).snd = true
    · rw [if_pos he, if_pos he]; exact SimR.mk_err hX _
    · rw [if_neg he, if_neg he]; exact key (hX.putCached _ _)
  · rw [if_neg hc, if_neg hc]; exact key hX

theorem sim_removeSingle {m m' : MapPollard H} (h : Equiv m m') (del : U64) :
    SimR (MapPollard.removeSingle del m) (MapPollard.removeSingle del m') := by
  unfold MapPollard.removeSingle
  dsimp only
  have h1 := sim_forgetBelow h del
  rw [h1.isRoot, h1.full]
  apply SimR.ite
  · intro _; exact SimR.mk_ok (h1.putNode _ _) _
  · intro _
    have h2 := h1.delNode del
    rw [h2.node]
    cases ((m'.forgetBelow del).delNode del).getNode (sibling del) with
    | none => exact SimR.mk_ok (sim_forgetUnneededDel (sim_updateHashes h2 _ _) _) _
    | some node =>
      dsimp only
      rw [h2.totalRows]
      exact sim_removeSingle_tail ((h2.delNode _).putNode _ _) del node

theorem equiv_allCached {m m' : MapPollard H} (h : Equiv m m') (l : List H) : m.allCached l = m'.allCached l := by
  unfold MapPollard.allCached
  have : m.hasCached = m'.hasCached := funext h.hasCached
  rw [this]

theorem sim_uncacheLeaves : ∀ (dels : List H) {m m' : MapPollard H}, Equiv m m' →
    Equiv (m.uncacheLeaves dels) (m'.uncacheLeaves dels)
  | [], _, _, h => h
  | d :: ds, m, m', h => by
    simp only [MapPollard.uncacheLeaves, List.foldl_cons]
    exact sim_uncacheLeaves ds (h.delCached d)

theorem sim_removeAll : ∀ (ds : List U64) {m m' : MapPollard H}, Equiv m m' →
    Equiv (MapPollard.removeAll ds m) (MapPollard.removeAll ds m')
  | [], _, _, h => h
  | d :: ds, m, m', h => by
    simp only [MapPollard.removeAll]
    exact sim_removeAll ds (sim_removeSingle h d).2

theorem sim_remove {m m' : MapPollard H} (h : Equiv m m') (targets : List U64) (delHashes : List H) :
    SimR (MapPollard.remove targets delHashes m) (MapPollard.remove targets delHashes m') := by
  unfold MapPollard.remove
  rw [equiv_allCached h]
  apply SimR.ite
  · intro _; exact SimR.mk_err h _
  · intro _
    dsimp only
    have h1 := sim_uncacheLeaves delHashes h
    rw [h1.totalRows, h1.numLeaves]
    exact SimR.mk_ok (sim_removeAll _ h1) _

/-- **`Modify` respects `Equiv`**: same verdict, equivalent states (also when it fails half-way) -/
theorem sim_modify {m m' : MapPollard H} (h : Equiv m m') (adds : List (Leaf H)) (delHashes : List H)
    (targets : List U64) :
    SimR (MapPollard.modify adds delHashes targets m) (MapPollard.modify adds delHashes targets m') := by
  unfold MapPollard.modify
  sim_bindU (sim_remove h targets delHashes) with m1 m1' h1
  exact sim_add adds h1

end UtreexoVerif.Proofs.MapSim
