/-
  Completeness of `Verify` and refinement of `Stump.del` (helper lemmas for Props/C02, C01b,
  C11).

  Part A — `Verify` accepts the canonical proof: the valuation is the true hash; the root
  candidates are the roots of the touched trees in ascending row order, which `matchRoots`
  accepts, returning the index of each touched tree.

  Part B — the deletion pass: the valuation is the hash a subtree has after the deletion
  (`dhash`), `collapse` commutes with killing slots (`collapse_kill`), so the root candidates are
  the roots of `F.delLeaves L` on the touched trees and nothing changes elsewhere.
-/
import UtreexoVerif.Proofs.SpecPlan
import UtreexoVerif.Model.Stump

namespace UtreexoVerif.Proofs.CalcComplete
open UtreexoVerif UtreexoVerif.GoInt UtreexoVerif.Proofs Spec Model Hasher
open UtreexoVerif.Proofs.SpecNodes UtreexoVerif.Proofs.SpecView UtreexoVerif.Proofs.Sorted
open UtreexoVerif.Proofs.CalcGeo UtreexoVerif.Proofs.CalcPlan UtreexoVerif.Proofs.SpecSubs
open UtreexoVerif.Proofs.SpecPlan

section
set_option linter.unusedSectionVars false
variable {H : Type} [DecidableEq H] [Hasher H]

/-! ### the touched trees -/

/-- `p` lies in the tree on row `h` of a forest with `n` leaves (`Under`, decidable) -/
def inTree (n h : Nat) (p : Pos) : Bool :=
  decide (p.1 ≤ h) && p.2 / 2 ^ (h - p.1) == 2 * (n >>> (h + 1))

theorem inTree_iff (n h : Nat) (p : Pos) :
    inTree n h p = true ↔ Under h (2 * (n >>> (h + 1))) p := by
  unfold inTree Under
  simp

/-- rows (ascending) of the trees that contain a target -/
def touchedRows (n : Nat) (targets : List Pos) : List Nat :=
  (treeRows n).reverse.filter (fun h => targets.any (inTree n h))

/-- indexes in `Roots` (highest tree first) of the trees that contain a target, in the order
`Verify` produces them: lowest tree first -/
def touchedIdx (n : Nat) (targets : List Pos) : List Nat :=
  (touchedRows n targets).map (fun h => (treeRows n).idxOf h)

theorem treeRowsFrom_sorted (n : Nat) : ∀ k, (treeRowsFrom k n).Pairwise (fun a b => a > b) := by
  intro k
  induction k with
  | zero => unfold treeRowsFrom; split <;> simp
  | succ k ih =>
    unfold treeRowsFrom
    split
    · rw [List.pairwise_cons]
      refine ⟨?_, ih⟩
      intro a ha
      have := (mem_treeRowsFrom _ _ ha).2
      omega
    · exact ih

theorem treeRows_sorted (n : Nat) : (treeRows n).Pairwise (fun a b => a > b) :=
  treeRowsFrom_sorted n 64

theorem treeRows_nodup (n : Nat) : (treeRows n).Nodup :=
  (treeRows_sorted n).imp (fun h => by omega)

theorem touchedRows_sorted (n : Nat) (targets : List Pos) :
    (touchedRows n targets).Pairwise (fun a b => a < b) := by
  unfold touchedRows
  apply List.Pairwise.sublist List.filter_sublist
  rw [List.pairwise_reverse]
  exact treeRows_sorted n

theorem mem_treeRows {n h : Nat} (hn : n < 2 ^ 64) (hb : n.testBit h = true) : h ∈ treeRows n := by
  have h63 : h ≤ 63 := by
    rcases Nat.lt_or_ge h 64 with hlt | hge
    · omega
    · have : n < 2 ^ h := Nat.lt_of_lt_of_le hn (two_pow_le_of_le hge)
      rw [Nat.testBit_lt_two_pow this] at hb
      cases hb
  exact List.mem_of_getElem? (treeRows_getElem hn h63 hb)

/-- `rootIdxOfRow` is the index of the row in `treeRows` -/
theorem rootIdxOfRow_idxOf {n h : Nat} (hn : n < 2 ^ 64) (hh : h ≤ 63) (hb : n.testBit h = true) :
    rootIdxOfRow (BitVec.ofNat 64 n) (H8 h) = (treeRows n).idxOf h := by
  have hget := treeRows_getElem hn hh hb
  obtain ⟨hlt, he⟩ := List.getElem?_eq_some_iff.1 hget
  have := (treeRows_nodup n).idxOf_getElem _ hlt
  rw [he] at this
  exact this.symm

/-! ### the root candidates -/

/-- the roots on the paths -/
def pathRoots (F : Forest H) (targets : List Pos) : List Pos :=
  (pathSet F targets).filter (isRootPos F.numLeaves)

theorem root_eq_rootPos {n : Nat} {p : Pos} (h : isRootPos n p = true) : p = rootPos n p.1 := by
  unfold isRootPos at h
  simp only [Bool.and_eq_true, beq_iff_eq] at h
  obtain ⟨r, o⟩ := p
  simp only [rootPos, Prod.mk.injEq, true_and]
  exact h.2

theorem root_bit {n : Nat} {p : Pos} (h : isRootPos n p = true) : n.testBit p.1 = true := by
  unfold isRootPos at h
  simp only [Bool.and_eq_true, beq_iff_eq] at h
  exact h.1

theorem isRootPos_rootPos {n h : Nat} (hb : n.testBit h = true) : isRootPos n (rootPos n h) = true := by
  simp [isRootPos, rootPos, hb]

/-- the rows of the path roots are exactly the rows of the touched trees -/
theorem pathRoots_rows {F : Forest H} {targets : List Pos}
    (tok : TargetsOK F targets) :
    (pathRoots F targets).map (·.1) = touchedRows F.numLeaves targets := by
  apply eq_of_sorted_of_mem_iff (R := fun a b : Nat => a < b) (fun a => Nat.lt_irrefl a)
    (fun _ _ _ => Nat.lt_trans)
  · rw [List.pairwise_map]
    have hs : (pathRoots F targets).Pairwise PLt :=
      (pathSet_sorted F targets).sublist List.filter_sublist
    apply List.Pairwise.imp_of_mem _ hs
    intro a b ha hb hab
    have ra := (List.mem_filter.1 ha).2
    have rb := (List.mem_filter.1 hb).2
    rcases hab with h | ⟨h1, h2⟩
    · exact h
    · exfalso
      have ea := root_eq_rootPos ra
      have eb := root_eq_rootPos rb
      rw [ea, eb, h1] at h2
      exact Nat.lt_irrefl _ h2
  · exact touchedRows_sorted _ _
  · intro h
    unfold touchedRows pathRoots
    rw [List.mem_map, List.mem_filter, List.mem_reverse, List.any_eq_true]
    constructor
    · rintro ⟨p, hp, rfl⟩
      obtain ⟨hpP, hroot⟩ := List.mem_filter.1 hp
      obtain ⟨tg, htg, hpt⟩ := mem_pathSet.1 hpP
      obtain ⟨h', l, stg⟩ := tok tg htg
      have hh : h' ≤ F.rows := le_forestRows_of_mem stg.1
      obtain ⟨⟨t', s'⟩, _⟩ := pathUp_sub (F.rows + 1) tg _ stg (by omega) p hpt
      have e := (s'.root_iff).1 hroot
      rw [e]
      exact ⟨stg.1, tg, htg, (inTree_iff _ _ _).2 stg.under⟩
    · rintro ⟨hh, tg, htg, hin⟩
      obtain ⟨h', l, stg⟩ := tok tg htg
      have hb : F.numLeaves.testBit h = true := (mem_treeRowsFrom _ _ hh).1
      have u := (inTree_iff _ _ _).1 hin
      have e : h = h' := by
        rcases Nat.lt_trichotomy h h' with hlt | heq | hgt
        · exact (under_disjoint hlt stg.bit stg.under u).elim
        · exact heq
        · exact (under_disjoint hgt hb u stg.under).elim
      subst e
      refine ⟨rootPos F.numLeaves h, List.mem_filter.2 ⟨?_, isRootPos_rootPos hb⟩, rfl⟩
      exact pathSet_root tok (targets_sub_pathSet tok htg) stg

/-- the value at the root of a touched tree is the valuation of the whole tree -/
theorem valAt_root {F : Forest H} {targets : List Pos} (tok : TargetsOK F targets)
    (f : CTree H → H) {p : Pos} (hp : p ∈ pathRoots F targets) :
    ∃ t0, collapse p.1 ((F.slots.drop (treeStart F.numLeaves p.1)).take (2 ^ p.1)) = some t0 ∧
      valAt f F p = f t0 := by
  obtain ⟨hpP, hroot⟩ := List.mem_filter.1 hp
  obtain ⟨h, t, s⟩ := pathSet_sub tok hpP
  have e := (s.root_iff).1 hroot
  subst e
  obtain ⟨t0, ht0, _, _⟩ := s.tree
  have sr := SubAtT.root s.1 ht0
  rw [← root_eq_rootPos hroot] at sr
  exact ⟨t0, ht0, valAt_of sr⟩

/-! ### Part A: `Verify` -/

theorem H8_ne {a b : Nat} (ha : a ≤ 63) (hb : b ≤ 63) (h : a ≠ b) : H8 a ≠ H8 b := by
  intro e
  have := congrArg BitVec.toNat e
  rw [toNat_H8 ha, toNat_H8 hb] at this
  exact h this

/-- `matchRoots` accepts the true roots of distinct existing rows presented in ascending order -/
theorem matchRoots_true (F : Forest H) (hn : F.numLeaves ≤ 2 ^ 63) :
    ∀ (hs : List Nat) (prev : Option U8), hs.Pairwise (fun a b => a < b) →
      (∀ h ∈ hs, F.numLeaves.testBit h = true) → (∀ h ∈ hs, prev ≠ some (H8 h)) →
      matchRoots (BitVec.ofNat 64 F.numLeaves) F.roots (hs.map (treeRoot F)) (hs.map H8) prev =
        .ok (hs.map (fun h => rootIdxOfRow (BitVec.ofNat 64 F.numLeaves) (H8 h))) := by
  intro hs
  induction hs with
  | nil => intro prev _ _ _; rfl
  | cons h hs ih =>
    intro prev hsort hbit hprev
    rw [List.pairwise_cons] at hsort
    have hb := hbit h (by simp)
    have h63 : ∀ x ∈ h :: hs, x ≤ 63 := fun x hx =>
      Nat.le_trans (testBit_le_forestRows (hbit x hx)) (rows_le_63 hn)
    simp only [List.map_cons]
    unfold matchRoots
    simp only
    rw [if_neg (hprev h (by simp))]
    have hget := treeRows_getElem (n := F.numLeaves) (by omega) (h63 h (by simp)) hb
    have hroot : F.roots[rootIdxOfRow (BitVec.ofNat 64 F.numLeaves) (H8 h)]? =
        some (treeRoot F h) := by
      rw [roots_eq, List.getElem?_map, hget]; rfl
    rw [hroot]
    simp only [if_true]
    rw [ih (some (H8 h)) hsort.2 (fun x hx => hbit x (List.mem_cons_of_mem _ hx))]
    · rfl
    · intro x hx e
      injection e with e
      exact H8_ne (h63 h (by simp)) (h63 x (List.mem_cons_of_mem _ hx))
        (Nat.ne_of_lt (hsort.1 x hx)) e

theorem mem_touchedRows_bit {n : Nat} {targets : List Pos} {h : Nat}
    (hh : h ∈ touchedRows n targets) : n.testBit h = true := by
  unfold touchedRows at hh
  have := (List.mem_filter.1 hh).1
  rw [List.mem_reverse] at this
  exact (mem_treeRowsFrom _ _ this).1

/-- the valuation of the target of a requested leaf -/
theorem canon_target_vals {F : Forest H} {L : List H} {targets : List Pos} {hashes : List H}
    (hc : F.canon L = some (targets, hashes)) (f : CTree H → H) :
    targets.map (valAt f F) = L.map (fun l => f (.leaf l)) := by
  obtain ⟨ht, _, _, _⟩ := canon_spec hc
  rw [ht, List.map_map]
  apply List.map_congr_left
  intro l hl
  obtain ⟨h, s⟩ := canon_target_leaf hc hl
  exact valAt_of s

theorem canon_targets_length {F : Forest H} {L : List H} {targets : List Pos} {hashes : List H}
    (hc : F.canon L = some (targets, hashes)) : targets.length = L.length := by
  obtain ⟨ht, _, _, _⟩ := canon_spec hc
  rw [ht, List.length_map]

/-- the candidates `calculateHashes` produces for `Verify` and what `matchRoots` does with them -/
theorem verify_complete {F : Forest H} (hn : F.numLeaves ≤ 2 ^ 63)
    (hnz : ∀ a b : H, ph a b ≠ (zero : H)) (hlive : ∀ l ∈ F.liveLeaves, l ≠ (zero : H))
    {L : List H} {targets : List Pos} {hashes : List H} (hnd : L.Nodup)
    (hc : F.canon L = some (targets, hashes)) (junk : List H) :
    verify (BitVec.ofNat 64 F.numLeaves) F.roots L (targets.map (E F.rows)) (hashes ++ junk) =
      .ok (touchedIdx F.numLeaves targets) := by
  have tok := canon_targetsOK hc
  have hdh : (match (some L : Option (List H)) with
      | some hs => hs
      | none => (targets.map (E F.rows)).map (fun _ => zero)) = targets.map (valAt CTree.hash F) := by
    rw [canon_target_vals hc]
    simp [CTree.hash]
  obtain ⟨r, hcalc, hroots, hrows, _⟩ := calc_generic hn hnz hlive hnd hc CTree.hash
    (fun a b ga gb => hash_node_comb hnz ga gb) (fun _ _ _ _ _ _ _ => rfl) (some L) hdh junk
  have hroots' : r.roots = (touchedRows F.numLeaves targets).map (treeRoot F) := by
    rw [hroots, ← pathRoots_rows tok, List.map_map]
    apply List.map_congr_left
    intro p hp
    obtain ⟨t0, ht0, hv⟩ := valAt_root tok CTree.hash hp
    rw [hv]
    simp only [Function.comp, treeRoot, ht0]
  have hrows' : r.rootRows = (touchedRows F.numLeaves targets).map H8 := by
    rw [hrows, ← pathRoots_rows tok, List.map_map]
    rfl
  unfold verify
  rw [if_neg (by rw [List.length_map, canon_targets_length hc]; simp)]
  simp only [bind, hcalc, Out.bind]
  rw [hroots', hrows', matchRoots_true F hn _ none (touchedRows_sorted _ _)
    (fun h hh => mem_touchedRows_bit hh) (fun _ _ => by simp)]
  congr 1
  unfold touchedIdx
  apply List.map_congr_left
  intro h hh
  have hb := mem_touchedRows_bit hh
  exact rootIdxOfRow_idxOf (by omega)
    (Nat.le_trans (testBit_le_forestRows hb) (rows_le_63 hn)) hb

/-! ### Part B: deletion on collapsed trees -/

/-- remove the leaves in `L` from a collapsed tree -/
def delT (L : List H) : CTree H → Option (CTree H)
  | .leaf h => if h ∈ L then none else some (.leaf h)
  | .node a b => join (delT L a) (delT L b)

/-- hash of an optional tree: zero for the empty tree -/
def hashO : Option (CTree H) → H
  | some t => t.hash
  | none => zero

/-- the hash a subtree has after the leaves in `L` are deleted (zero if nothing survives) -/
def dhash (L : List H) (t : CTree H) : H := hashO (delT L t)

/-- what `Forest.delLeaves` does to a slot -/
def kill (L : List H) (s : Option H) : Option H :=
  match s with
  | some h => if h ∈ L then none else some h
  | none => none

theorem delLeaves_slots (F : Forest H) (L : List H) :
    (F.delLeaves L).slots = F.slots.map (kill L) := rfl

theorem delLeaves_numLeaves (F : Forest H) (L : List H) :
    (F.delLeaves L).numLeaves = F.numLeaves := by
  unfold Forest.numLeaves
  rw [delLeaves_slots, List.length_map]

theorem join_bind (L : List H) (x y : Option (CTree H)) :
    join (x.bind (delT L)) (y.bind (delT L)) = (join x y).bind (delT L) := by
  cases x <;> cases y <;> simp [join, delT]
  · rename_i b; cases delT L b <;> rfl
  · rename_i a; cases delT L a <;> rfl

/-- collapsing commutes with killing slots -/
theorem collapse_kill (L : List H) : ∀ (k : Nat) (l : List (Option H)),
    collapse k (l.map (kill L)) = (collapse k l).bind (delT L) := by
  intro k
  induction k with
  | zero =>
    intro l
    cases l with
    | nil => rfl
    | cons s l =>
      cases s with
      | none => rfl
      | some h =>
        by_cases hm : h ∈ L
        · simp [collapse, kill, delT, hm]
        · simp [collapse, kill, delT, hm]
  | succ k ih =>
    intro l
    unfold collapse
    rw [← List.map_take, ← List.map_drop, ih, ih, join_bind]

theorem treeRoot_delLeaves (F : Forest H) (L : List H) (h : Nat) :
    treeRoot (F.delLeaves L) h =
      hashO ((collapse h ((F.slots.drop (treeStart F.numLeaves h)).take (2 ^ h))).bind (delT L)) := by
  unfold treeRoot
  rw [delLeaves_numLeaves, delLeaves_slots, ← List.map_drop, ← List.map_take, collapse_kill]
  cases (collapse h ((F.slots.drop (treeStart F.numLeaves h)).take (2 ^ h))).bind (delT L) <;> rfl

theorem delT_noleaf (L : List H) : ∀ (t : CTree H), (∀ l ∈ t.leaves, l ∉ L) → delT L t = some t := by
  intro t
  induction t with
  | leaf h =>
    intro hl
    have : h ∉ L := hl h (by simp [CTree.leaves])
    simp [delT, this]
  | node a b iha ihb =>
    intro hl
    have ha := iha (fun l hm => hl l (by simp [CTree.leaves, hm]))
    have hb := ihb (fun l hm => hl l (by simp [CTree.leaves, hm]))
    simp [delT, ha, hb, join]

theorem delT_leaves (L : List H) : ∀ (t t' : CTree H), delT L t = some t' →
    ∀ l ∈ t'.leaves, l ∈ t.leaves := by
  intro t
  induction t with
  | leaf h =>
    intro t' ht l hl
    unfold delT at ht
    split at ht
    · simp at ht
    · injection ht with ht; subst ht; exact hl
  | node a b iha ihb =>
    intro t' ht l hl
    unfold delT at ht
    cases ha : delT L a with
    | none =>
      cases hb : delT L b with
      | none => rw [ha, hb] at ht; simp [join] at ht
      | some b' =>
        rw [ha, hb] at ht
        simp only [join, Option.some.injEq] at ht
        subst ht
        simp only [CTree.leaves, List.mem_append]
        exact Or.inr (ihb _ hb l hl)
    | some a' =>
      cases hb : delT L b with
      | none =>
        rw [ha, hb] at ht
        simp only [join, Option.some.injEq] at ht
        subst ht
        simp only [CTree.leaves, List.mem_append]
        exact Or.inl (iha _ ha l hl)
      | some b' =>
        rw [ha, hb] at ht
        simp only [join, Option.some.injEq] at ht
        subst ht
        simp only [CTree.leaves, List.mem_append] at hl ⊢
        rcases hl with hl | hl
        · exact Or.inl (iha _ ha l hl)
        · exact Or.inr (ihb _ hb l hl)

theorem dhash_noleaf (L : List H) {t : CTree H} (h : ∀ l ∈ t.leaves, l ∉ L) :
    dhash L t = t.hash := by
  unfold dhash
  rw [delT_noleaf L t h]
  rfl

theorem hashO_ne_zero (hnz : ∀ a b : H, ph a b ≠ (zero : H)) (L : List H) {t t' : CTree H}
    (g : Good t) (h : delT L t = some t') : t'.hash ≠ zero :=
  hash_ne_zero hnz (fun l hl => g l (delT_leaves L t t' h l hl))

/-- `dhash` satisfies the `getNextHash` recurrence -/
theorem dhash_node (hnz : ∀ a b : H, ph a b ≠ (zero : H)) (L : List H) {a b : CTree H}
    (ga : Good a) (gb : Good b) : dhash L (.node a b) = comb (dhash L a) (dhash L b) := by
  unfold dhash comb
  simp only [delT]
  cases ha : delT L a with
  | none =>
    cases hb : delT L b with
    | none => simp [join, hashO]
    | some b' => simp [join, hashO]
  | some a' =>
    have na := hashO_ne_zero hnz L ga ha
    cases hb : delT L b with
    | none => simp [join, hashO, na]
    | some b' =>
      have nb := hashO_ne_zero hnz L gb hb
      simp [join, hashO, na, nb, CTree.hash]

/-- leaf nodes of the forest are determined by their hash -/
def LeafDistinct (F : Forest H) : Prop :=
  ∀ (h h' : Nat) (p p' : Pos) (l : H), SubAtT F h p (.leaf l) → SubAtT F h' p' (.leaf l) → p = p'

section del
variable {F : Forest H} {L : List H} {targets : List Pos} {hashes : List H}
  (hc : F.canon L = some (targets, hashes)) (hd : LeafDistinct F)
include hc hd

/-- a subtree of the forest that contains a requested leaf has its root on the paths -/
theorem leaf_on_path {h : Nat} {a : Pos} {ta : CTree H} (sa : SubAtT F h a ta) {l : H}
    (hl : l ∈ ta.leaves) (hL : l ∈ L) : a ∈ pathSet F targets := by
  obtain ⟨q, hq⟩ := leaf_in_subs ta a.1 a.2 l hl
  have sq := sa.sub hq
  obtain ⟨h', stg⟩ := canon_target_leaf hc hL
  have e := hd _ _ _ _ _ sq stg
  obtain ⟨ht, _, _, _⟩ := canon_spec hc
  have htg : (F.posOf l).getD (0, 0) ∈ targets := by
    rw [ht]; exact List.mem_map.2 ⟨l, hL, rfl⟩
  have hh : h ≤ F.rows := le_forestRows_of_mem sa.1
  have := pathUp_anc (F.rows + 1) ta a q _ sa hq (by omega)
  rw [e] at this
  exact mem_pathSet.2 ⟨_, htg, this⟩

/-- outside the paths nothing is deleted -/
theorem dhash_off_path {h : Nat} {a : Pos} {ta : CTree H} (sa : SubAtT F h a ta)
    (ha : a ∉ pathSet F targets) : dhash L ta = ta.hash :=
  dhash_noleaf L (fun _ hl hL => ha (leaf_on_path hc hd sa hl hL))

end del

/-! ### the deletion pass of `Stump.del` -/

/-- the second `calculateHashes` of `Stump.del` (zeroed target hashes): the root candidates are
the roots of the touched trees after the deletion, the returned nodes are all path nodes with
the hash their subtree has after the deletion -/
theorem del_calc {F : Forest H} (hn : F.numLeaves ≤ 2 ^ 63)
    (hnz : ∀ a b : H, ph a b ≠ (zero : H)) (hlive : ∀ l ∈ F.liveLeaves, l ≠ (zero : H))
    (hd : LeafDistinct F) {L : List H} {targets : List Pos} {hashes : List H} (hnd : L.Nodup)
    (hc : F.canon L = some (targets, hashes)) (junk : List H) :
    ∃ r : CalcResult H,
      calculateHashes (BitVec.ofNat 64 F.numLeaves) none (targets.map (E F.rows)) (hashes ++ junk) =
        .ok r ∧
      r.roots = (touchedRows F.numLeaves targets).map (treeRoot (F.delLeaves L)) ∧
      r.rootRows = (touchedRows F.numLeaves targets).map H8 ∧
      r.nodes = (pathSet F targets).map (fun p => (E F.rows p, valAt (dhash L) F p)) := by
  have tok := canon_targetsOK hc
  have hdh : (match (none : Option (List H)) with
      | some hs => hs
      | none => (targets.map (E F.rows)).map (fun _ => zero)) = targets.map (valAt (dhash L) F) := by
    rw [canon_target_vals hc]
    obtain ⟨ht, _, _, _⟩ := canon_spec hc
    simp only [List.map_map]
    rw [ht, List.map_map]
    apply List.map_congr_left
    intro l hl
    simp [dhash, delT, hl, hashO]
  obtain ⟨r, hcalc, hroots, hrows, hnodes⟩ := calc_generic hn hnz hlive hnd hc (dhash L)
    (fun a b ga gb => dhash_node hnz L ga gb)
    (fun c _ _ hns h s' hs' => dhash_off_path hc hd hs' hns) none hdh junk
  refine ⟨r, hcalc, ?_, ?_, hnodes⟩
  · rw [hroots, ← pathRoots_rows tok, List.map_map]
    apply List.map_congr_left
    intro p hp
    obtain ⟨t0, ht0, hv⟩ := valAt_root tok (dhash L) hp
    rw [hv]
    simp only [Function.comp, treeRoot_delLeaves, ht0]
    rfl
  · rw [hrows, ← pathRoots_rows tok, List.map_map]
    rfl

/-- a tree without a target keeps its root -/
theorem treeRoot_untouched {F : Forest H} (hd : LeafDistinct F) {L : List H} {targets : List Pos}
    {hashes : List H} (hc : F.canon L = some (targets, hashes)) {h : Nat}
    (hh : h ∈ treeRows F.numLeaves) (hu : h ∉ touchedRows F.numLeaves targets) :
    treeRoot (F.delLeaves L) h = treeRoot F h := by
  have tok := canon_targetsOK hc
  rw [treeRoot_delLeaves]
  unfold treeRoot
  cases ht0 : collapse h ((F.slots.drop (treeStart F.numLeaves h)).take (2 ^ h)) with
  | none => rfl
  | some t0 =>
    have sr := SubAtT.root hh ht0
    have hb := (mem_treeRowsFrom _ _ hh).1
    have hnp : rootPos F.numLeaves h ∉ pathSet F targets := by
      intro hp
      apply hu
      rw [← pathRoots_rows tok]
      exact List.mem_map.2 ⟨rootPos F.numLeaves h,
        List.mem_filter.2 ⟨hp, isRootPos_rootPos hb⟩, rfl⟩
    exact dhash_off_path hc hd sr hnp

/-! ### writing the new roots back -/

theorem set_idxOf_map {α : Type} (g : Nat → α) (h : Nat) (v : α) : ∀ (l : List Nat), l.Nodup →
    (l.map g).set (l.idxOf h) v = l.map (fun x => if x = h then v else g x) := by
  intro l
  induction l with
  | nil => intro _; rfl
  | cons a t ih =>
    intro hnd
    rw [List.nodup_cons] at hnd
    rw [List.idxOf_cons]
    by_cases e : a = h
    · subst e
      simp only [beq_self_eq_true, cond_true, List.map_cons, List.set_cons_zero, if_true]
      congr 1
      apply List.map_congr_left
      intro x hx
      have : x ≠ a := fun e => hnd.1 (e ▸ hx)
      simp [this]
    · have : (a == h) = false := beq_false_of_ne e
      simp only [this, cond_false, List.map_cons, List.set_cons_succ, if_neg e]
      rw [ih hnd.2]

theorem foldl_set_map {α : Type} (l : List Nat) (hl : l.Nodup) (g' : Nat → α)
    (fn : List α → Nat × α → List α) (hfn : ∀ rs i v, fn rs (i, v) = rs.set i v) :
    ∀ (hs : List Nat) (g : Nat → α),
      ((hs.map (fun h => l.idxOf h)).zip (hs.map g')).foldl fn (l.map g) =
        l.map (fun h => if h ∈ hs then g' h else g h) := by
  intro hs
  induction hs with
  | nil => intro g; simp
  | cons h hs ih =>
    intro g
    simp only [List.map_cons, List.zip_cons_cons, List.foldl_cons]
    rw [hfn, set_idxOf_map g h (g' h) l hl, ih]
    apply List.map_congr_left
    intro x _
    by_cases e : x = h
    · subst e; simp
    · simp only [List.mem_cons, e, false_or, if_false]

/-- **`Stump.del` on the canonical proof computes the roots of `F.delLeaves L`** and returns
every path node with its hash after the deletion. -/
theorem delSt_complete {F : Forest H} (hn : F.numLeaves ≤ 2 ^ 63)
    (hnz : ∀ a b : H, ph a b ≠ (zero : H)) (hlive : ∀ l ∈ F.liveLeaves, l ≠ (zero : H))
    (hd : LeafDistinct F) {L : List H} {targets : List Pos} {hashes : List H} (hnd : L.Nodup)
    (hc : F.canon L = some (targets, hashes)) (junk : List H) :
    Stump.delSt ⟨F.roots, BitVec.ofNat 64 F.numLeaves⟩ L (targets.map (E F.rows))
        (hashes ++ junk) =
      (⟨(F.delLeaves L).roots, BitVec.ofNat 64 F.numLeaves⟩,
        .ok ((pathSet F targets).map (fun p => (E F.rows p, valAt (dhash L) F p)))) := by
  obtain ⟨r, hcalc, hroots, _, hnodes⟩ := del_calc hn hnz hlive hd hnd hc junk
  unfold Stump.delSt
  simp only [verify_complete hn hnz hlive hnd hc junk, hcalc]
  have hlen : r.roots.length = (touchedIdx F.numLeaves targets).length := by
    rw [hroots]; simp [touchedIdx]
  rw [if_neg (by simp [hlen])]
  rw [hnodes]
  congr 2
  rw [hroots, roots_eq, roots_eq, delLeaves_numLeaves]
  unfold touchedIdx
  rw [foldl_set_map (treeRows F.numLeaves) (treeRows_nodup _) (treeRoot (F.delLeaves L)) _
    (fun _ _ _ => rfl)]
  apply List.map_congr_left
  intro h hh
  split
  · rfl
  · rename_i hu
    exact (treeRoot_untouched hd hc hh hu).symm

end
end UtreexoVerif.Proofs.CalcComplete
