/-
  Pairwise different live leaves sit at pairwise different positions: `F.liveLeaves.Nodup`
  implies `LeafDistinct F` (a leaf node of the forest is determined by its hash).

  * the leaves of a collapsed chunk are its live slots, in order (`collapse_leaves_eq`);
  * inside a tree with pairwise different leaves a leaf hash determines the position;
  * the chunks of two different trees are disjoint stretches of the slot list.
-/
import UtreexoVerif.Proofs.CalcComplete

namespace UtreexoVerif.Proofs.LeafDistinct
open UtreexoVerif Spec Hasher
open UtreexoVerif.Proofs.SpecNodes UtreexoVerif.Proofs.SpecSubs UtreexoVerif.Proofs.CalcComplete
open UtreexoVerif.Proofs.CalcGeo

section
set_option linter.unusedSectionVars false
variable {H : Type} [DecidableEq H] [Hasher H]

def leavesO : Option (CTree H) → List H
  | some t => t.leaves
  | none => []

theorem leavesO_join (a b : Option (CTree H)) : leavesO (join a b) = leavesO a ++ leavesO b := by
  cases a <;> cases b <;> simp [join, leavesO, CTree.leaves]

/-- the leaves of a collapsed chunk are its live slots, in order -/
theorem collapse_leaves_eq : ∀ (k : Nat) (l : List (Option H)),
    leavesO (collapse k l) = (l.take (2 ^ k)).filterMap id := by
  intro k
  induction k with
  | zero =>
    intro l
    cases l with
    | nil => rfl
    | cons s l =>
      cases s with
      | none => simp [collapse, leavesO]
      | some h => simp [collapse, leavesO, CTree.leaves]
  | succ k ih =>
    intro l
    unfold collapse
    rw [leavesO_join, ih, ih, List.take_take, Nat.min_self, Nat.pow_succ, Nat.mul_two, List.take_add,
      List.filterMap_append]

/-- in a tree with pairwise different leaves a leaf hash determines the position -/
theorem subs_leaf_inj : ∀ (t : CTree H) (r o : Nat), t.leaves.Nodup →
    ∀ (p p' : Pos) (l : H), (p, CTree.leaf l) ∈ subs t r o → (p', CTree.leaf l) ∈ subs t r o →
      p = p' := by
  intro t
  induction t with
  | leaf h =>
    intro r o _ p p' l hp hp'
    simp only [subs, List.mem_singleton, Prod.mk.injEq] at hp hp'
    rw [hp.1, hp'.1]
  | node a b iha ihb =>
    intro r o hnd p p' l hp hp'
    simp only [CTree.leaves] at hnd
    rw [List.nodup_append] at hnd
    obtain ⟨hna, hnb, hdis⟩ := hnd
    simp only [subs, List.mem_cons, List.mem_append, Prod.mk.injEq, reduceCtorEq, and_false,
      false_or] at hp hp'
    have inA : ∀ q, (q, CTree.leaf l) ∈ subs a (r - 1) (2 * o) → l ∈ a.leaves :=
      fun q hq => subs_leaves a _ _ _ hq l (by simp [CTree.leaves])
    have inB : ∀ q, (q, CTree.leaf l) ∈ subs b (r - 1) (2 * o + 1) → l ∈ b.leaves :=
      fun q hq => subs_leaves b _ _ _ hq l (by simp [CTree.leaves])
    rcases hp with hp | hp <;> rcases hp' with hp' | hp'
    · exact iha _ _ hna p p' l hp hp'
    · exact absurd rfl (hdis l (inA p hp) l (inB p' hp'))
    · exact absurd rfl (hdis l (inA p' hp') l (inB p hp))
    · exact ihb _ _ hnb p p' l hp hp'

/-! ### the chunks of the trees -/

/-- the stretch of slots of the tree on row `h` -/
def chunk (F : Forest H) (h : Nat) : List (Option H) :=
  (F.slots.drop (treeStart F.numLeaves h)).take (2 ^ h)

theorem chunk_sublist (F : Forest H) (h : Nat) : (chunk F h).Sublist F.slots :=
  (List.take_sublist _ _).trans (List.drop_sublist _ _)

theorem treeStart_eq (n h : Nat) : treeStart n h = n / 2 ^ (h + 1) * 2 ^ (h + 1) := by
  unfold treeStart
  rw [Nat.shiftLeft_eq, Nat.shiftRight_eq_div_pow]

/-- a lower tree starts after the end of a higher tree -/
theorem treeStart_le {n h h' : Nat} (hlt : h' < h) (hb : n.testBit h = true) :
    treeStart n h + 2 ^ h ≤ treeStart n h' := by
  rw [treeStart_eq, treeStart_eq]
  have hbit := shiftRight_succ_bit n h
  rw [hb, Nat.shiftRight_eq_div_pow, Nat.shiftRight_eq_div_pow] at hbit
  simp only [if_true] at hbit
  -- `n / 2^(h+1) * 2^(h+1) + 2^h = n / 2^h * 2^h`
  have e1 : n / 2 ^ (h + 1) * 2 ^ (h + 1) + 2 ^ h = n / 2 ^ h * 2 ^ h := by
    rw [hbit, Nat.pow_succ, Nat.add_mul, Nat.one_mul, Nat.mul_comm 2, Nat.mul_assoc,
      Nat.mul_comm 2]
  rw [e1]
  -- rounding down to a multiple of a smaller power of two gives more
  have e2 : ∀ k, n / 2 ^ k * 2 ^ k = n - n % 2 ^ k := by
    intro k
    have := Nat.div_add_mod n (2 ^ k)
    rw [Nat.mul_comm] at this
    omega
  rw [e2, e2]
  have hdvd : 2 ^ (h' + 1) ∣ 2 ^ h := Nat.pow_dvd_pow 2 (by omega)
  have : n % 2 ^ (h' + 1) ≤ n % 2 ^ h := by
    rw [← Nat.mod_mod_of_dvd n hdvd]
    exact Nat.mod_le _ _
  omega

/-- the chunks of two different trees, one after the other, form a sublist of the slots -/
theorem chunks_sublist (F : Forest H) {h h' : Nat} (hlt : h' < h)
    (hb : F.numLeaves.testBit h = true) : (chunk F h ++ chunk F h').Sublist F.slots := by
  have hle := treeStart_le hlt hb
  have e : F.slots = F.slots.take (treeStart F.numLeaves h) ++
      ((F.slots.drop (treeStart F.numLeaves h)).take (2 ^ h) ++
        (F.slots.drop (treeStart F.numLeaves h)).drop (2 ^ h)) := by
    rw [List.take_append_drop, List.take_append_drop]
  have h2 : (chunk F h').Sublist ((F.slots.drop (treeStart F.numLeaves h)).drop (2 ^ h)) := by
    unfold chunk
    have e2 : treeStart F.numLeaves h' =
        (treeStart F.numLeaves h + 2 ^ h) + (treeStart F.numLeaves h' - (treeStart F.numLeaves h + 2 ^ h)) := by
      omega
    rw [List.drop_drop, e2, ← List.drop_drop]
    exact (List.take_sublist _ _).trans (List.drop_sublist _ _)
  have h3 : (chunk F h ++ chunk F h').Sublist
      ((F.slots.drop (treeStart F.numLeaves h)).take (2 ^ h) ++
        (F.slots.drop (treeStart F.numLeaves h)).drop (2 ^ h)) :=
    List.Sublist.append (List.Sublist.refl _) h2
  rw [e]
  exact h3.trans (List.sublist_append_right _ _)

/-- the leaves of the tree a subtree lives in -/
theorem leaf_in_chunk {F : Forest H} {h : Nat} {p : Pos} {l : H}
    (s : SubAtT F h p (.leaf l)) : l ∈ (chunk F h).filterMap id := by
  obtain ⟨t0, ht0, _, hm⟩ := s.tree
  have h1 : l ∈ t0.leaves := subs_leaves t0 _ _ _ hm l (by simp [CTree.leaves])
  have h2 := collapse_leaves_eq h (chunk F h)
  unfold chunk at h2 ⊢
  rw [ht0, List.take_take, Nat.min_self] at h2
  simp only [leavesO] at h2
  rw [← h2]
  exact h1

/-- **pairwise different live leaves sit at pairwise different positions** -/
theorem leafDistinct_of_nodup {F : Forest H} (hnd : F.liveLeaves.Nodup) : LeafDistinct F := by
  intro h h' p p' l s s'
  have key : ∀ {h h' : Nat} {p p' : Pos}, h' < h → SubAtT F h p (.leaf l) →
      SubAtT F h' p' (.leaf l) → False := by
    intro h h' p p' hlt s s'
    have hsub := (chunks_sublist F hlt s.bit).filterMap id
    have hn := hnd.sublist hsub
    rw [List.filterMap_append, List.nodup_append] at hn
    exact hn.2.2 l (leaf_in_chunk s) l (leaf_in_chunk s') rfl
  rcases Nat.lt_trichotomy h h' with hlt | heq | hgt
  · exact (key hlt s' s).elim
  · subst heq
    obtain ⟨t0, ht0, _, hm⟩ := s.tree
    obtain ⟨t0', ht0', _, hm'⟩ := s'.tree
    rw [ht0] at ht0'
    injection ht0' with e
    subst e
    have hl := collapse_leaves_eq h (chunk F h)
    unfold chunk at hl
    rw [ht0, List.take_take, Nat.min_self] at hl
    simp only [leavesO] at hl
    have hn : t0.leaves.Nodup := by
      rw [hl]
      exact hnd.sublist ((chunk_sublist F h).filterMap id)
    exact subs_leaf_inj t0 _ _ hn p p' l hm hm'
  · exact (key hgt s s').elim

end
end UtreexoVerif.Proofs.LeafDistinct
