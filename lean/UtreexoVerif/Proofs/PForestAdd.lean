/-
  Placed forests: the steps of `MapPollard.addSingle` on the specification side.

  * `stepA_pf`: two sibling roots are joined under their parent;
  * `stepB_pf`: a root is lifted over its empty sibling root;
  * `step0_pf`: the new leaf is placed as a root on row 0;
  * `acc_geo`: geometry of the accumulated tree's position;
  * `add_decomp`: the forest before / after one addition as `Y ++ low trees` / `Y ++ [merged tree]`.
-/
import UtreexoVerif.Proofs.PForestSpec
import UtreexoVerif.Proofs.SpecUndo
import UtreexoVerif.Proofs.MapAdd

open UtreexoVerif Model Spec Spec.Forest Proofs MapInv MapPrune MapRep MapLiftGeo PForest MapAInv Hasher SpecNodes
open PForestSpec

namespace UtreexoVerif.Proofs.PForestAdd
set_option linter.unusedSectionVars false
variable {H : Type} [DecidableEq H] [Hasher H]

/-! ### appending placed forests -/

theorem nodes_append (Y Z : PF H) : PForest.nodes (Y ++ Z) = PForest.nodes Y ++ PForest.nodes Z := by
  unfold PForest.nodes; exact List.flatMap_append

theorem leaves_append (Y Z : PF H) : leaves (Y ++ Z) = leaves Y ++ leaves Z := by
  unfold leaves; exact List.flatMap_append

theorem isRoot_append (Y Z : PF H) (q : Pos) : IsRoot (Y ++ Z) q ↔ IsRoot Y q ∨ IsRoot Z q := by
  unfold IsRoot
  constructor
  · rintro ⟨e, he, rfl⟩
    rcases List.mem_append.1 he with h | h
    · exact Or.inl ⟨e, h, rfl⟩
    · exact Or.inr ⟨e, h, rfl⟩
  · rintro (⟨e, he, rfl⟩ | ⟨e, he, rfl⟩)
    · exact ⟨e, List.mem_append_left _ he, rfl⟩
    · exact ⟨e, List.mem_append_right _ he, rfl⟩

theorem nodes_single_some (p : Pos) (t : CTree H) :
    PForest.nodes [(p, some t)] = t.nodes p.1 p.2 := by
  simp [PForest.nodes, entryNodes]

theorem nodes_single_none (p : Pos) :
    PForest.nodes [((p, none) : Pos × Option (CTree H))] = [(p, zero, false)] := by
  simp [PForest.nodes, entryNodes]

theorem leaves_single (p : Pos) (o : Option (CTree H)) : leaves [(p, o)] = optLeaves o := by
  simp [leaves]

/-- a position below `parent ρ` and below a root that is disjoint from `ρ` and `sib ρ`: impossible -/
theorem disj_parent {p ρ : Pos} (h1 : ∀ q, ¬ (Anc p q ∧ Anc ρ q)) (h2 : ∀ q, ¬ (Anc p q ∧ Anc (sib ρ) q)) :
    ∀ q, ¬ (Anc p q ∧ Anc (parent ρ) q) := by
  rintro q ⟨ha, hb⟩
  rcases anc_parent_iff'.1 hb with rfl | h | h
  · exact h1 ρ ⟨Anc.trans ha (anc_parent_self ρ), Anc.refl ρ⟩
  · exact h1 q ⟨ha, h⟩
  · exact h2 q ⟨ha, h⟩

/-! ### geometry of the accumulated tree -/

theorem shiftRight_odd_of_testBit {n k : Nat} (hb : n.testBit k = true) : (n >>> k) % 2 = 1 := by
  rw [Nat.testBit_eq_decide_div_mod_eq] at hb
  rw [Nat.shiftRight_eq_div_pow]
  simpa using hb

theorem shiftRight_succ' (n k : Nat) : n >>> (k + 1) = (n >>> k) / 2 := Nat.shiftRight_succ n k

/-- geometry of the accumulated tree's position: while bit `k` of `n` is set, the root of the
tree on row `k` is the LEFT sibling of `(k, n >>> k)` -/
theorem acc_geo {n k : Nat} (hb : n.testBit k = true) :
    rootPos n k = sib (k, n >>> k) ∧ (rootPos n k).2 % 2 = 0 ∧ parent (k, n >>> k) = (k + 1, n >>> (k + 1)) ∧
    parent (rootPos n k) = (k + 1, n >>> (k + 1)) := by
  have hodd := shiftRight_odd_of_testBit hb
  have hs := shiftRight_succ' n k
  refine ⟨?_, ?_, ?_, ?_⟩
  · unfold rootPos sib
    simp only
    rw [if_neg (by omega), hs]
    congr 1; omega
  · unfold rootPos; simp only; omega
  · unfold parent; simp only; rw [hs]
  · unfold rootPos parent; simp only
    congr 1; omega

/-! ### replacing the tail of a placed forest -/

theorem isRoot_single (p : Pos) (o : Option (CTree H)) (z : Pos) : IsRoot [(p, o)] z ↔ z = p := by
  unfold IsRoot
  constructor
  · rintro ⟨e, he, rfl⟩
    simp only [List.mem_singleton] at he
    rw [he]
  · rintro rfl
    exact ⟨_, List.mem_singleton.2 rfl, rfl⟩

theorem isRoot_pair (p p' : Pos) (o o' : Option (CTree H)) (z : Pos) :
    IsRoot [(p, o), (p', o')] z ↔ z = p ∨ z = p' := by
  unfold IsRoot
  constructor
  · rintro ⟨e, he, rfl⟩
    simp only [List.mem_cons, List.not_mem_nil, or_false] at he
    rcases he with rfl | rfl
    · exact Or.inl rfl
    · exact Or.inr rfl
  · rintro (rfl | rfl)
    · exact ⟨_, List.mem_cons_self, rfl⟩
    · exact ⟨_, List.mem_cons_of_mem _ List.mem_cons_self, rfl⟩

/-- the tail `Z` of a well-formed placed forest may be replaced by a tail `Z'` with the same
leaves whose roots are disjoint from each other and from the roots of `Y` -/
theorem ok_replace {Y Z Z' : PF H} (ok : OK (Y ++ Z))
    (hd : ∀ e ∈ Z', ∀ t, e.2 = some t → depth t ≤ e.1.1)
    (hp : Z'.Pairwise (fun e e' => ∀ q, ¬ (Anc e.1 q ∧ Anc e'.1 q)))
    (hyz : ∀ e ∈ Y, ∀ e' ∈ Z', ∀ q, ¬ (Anc e.1 q ∧ Anc e'.1 q))
    (hl : leaves Z' = leaves Z) : OK (Y ++ Z') := by
  have hpw := List.pairwise_append.1 ok.pw
  have hle : leaves (Y ++ Z') = leaves (Y ++ Z) := by rw [leaves_append, hl, ← leaves_append]
  refine { depth := ?_, pw := ?_, nodup := ?_, nz := ?_, nph := ?_ }
  · intro e he t ht
    rcases List.mem_append.1 he with h | h
    · exact ok.depth e (List.mem_append_left _ h) t ht
    · exact hd e h t ht
  · exact List.pairwise_append.2 ⟨hpw.1, hp, hyz⟩
  · rw [hle]; exact ok.nodup
  · rw [hle]; exact ok.nz
  · rw [hle]; exact ok.nph

/-! ### step A -/

/-- step A on placed forests: two sibling roots are joined under their parent -/
theorem stepA_pf (Y : PF H) (ρ : Pos) (a b : CTree H) (heven : ρ.2 % 2 = 0)
    (ok : OK (Y ++ [(ρ, some a), (sib ρ, some b)])) :
    OK (Y ++ [(parent ρ, some (CTree.node a b))]) ∧
    (∀ e, e ∈ nodes (Y ++ [(parent ρ, some (CTree.node a b))]) ↔
      e = (parent ρ, ph a.hash b.hash, false) ∨ e ∈ nodes (Y ++ [(ρ, some a), (sib ρ, some b)])) ∧
    (∀ z, IsRoot (Y ++ [(parent ρ, some (CTree.node a b))]) z ↔
      z = parent ρ ∨ (IsRoot (Y ++ [(ρ, some a), (sib ρ, some b)]) z ∧ z ≠ ρ ∧ z ≠ sib ρ)) ∧
    (∀ h f, (parent ρ, h, f) ∉ nodes (Y ++ [(ρ, some a), (sib ρ, some b)])) := by
  have hpw := List.pairwise_append.1 ok.pw
  have hYρ : ∀ e ∈ Y, ∀ q, ¬ (Anc e.1 q ∧ Anc ρ q) :=
    fun e he => hpw.2.2 e he (ρ, some a) List.mem_cons_self
  have hYs : ∀ e ∈ Y, ∀ q, ¬ (Anc e.1 q ∧ Anc (sib ρ) q) :=
    fun e he => hpw.2.2 e he (sib ρ, some b) (List.mem_cons_of_mem _ List.mem_cons_self)
  have hYp : ∀ e ∈ Y, ∀ q, ¬ (Anc e.1 q ∧ Anc (parent ρ) q) :=
    fun e he => disj_parent (hYρ e he) (hYs e he)
  have hda : depth a ≤ ρ.1 :=
    ok.depth (ρ, some a) (List.mem_append_right _ List.mem_cons_self) a rfl
  have hdb : depth b ≤ ρ.1 :=
    ok.depth (sib ρ, some b) (List.mem_append_right _ (List.mem_cons_of_mem _ List.mem_cons_self)) b rfl
  have hs : sib ρ = (ρ.1, ρ.2 + 1) := by unfold sib; rw [if_pos heven]
  have hnodes : (CTree.node a b).nodes (parent ρ).1 (parent ρ).2 =
      (parent ρ, ph a.hash b.hash, false) :: (a.nodes ρ.1 ρ.2 ++ b.nodes (sib ρ).1 (sib ρ).2) := by
    rw [hs]
    unfold parent
    simp only [CTree.nodes, CTree.hash, Nat.add_sub_cancel]
    have : 2 * (ρ.2 / 2) = ρ.2 := by omega
    rw [this]
  have hpair : nodes [(ρ, some a), (sib ρ, some b)] = a.nodes ρ.1 ρ.2 ++ b.nodes (sib ρ).1 (sib ρ).2 := by
    simp [PForest.nodes, entryNodes]
  refine ⟨?_, ?_, ?_, ?_⟩
  · apply ok_replace ok
    · intro e he t ht
      simp only [List.mem_singleton] at he
      subst he
      simp only [Option.some.injEq] at ht
      subst ht
      simp only [depth]
      show _ ≤ ρ.1 + 1
      omega
    · exact List.pairwise_singleton _ _
    · intro e he e' he'
      simp only [List.mem_singleton] at he'
      subst he'
      exact hYp e he
    · simp [leaves, optLeaves, CTree.leaves]
  · intro e
    rw [nodes_append, nodes_append, nodes_single_some, hnodes, hpair]
    simp only [List.mem_append, List.mem_cons]
    constructor
    · rintro (h | h | h | h)
      · exact Or.inr (Or.inl h)
      · exact Or.inl h
      · exact Or.inr (Or.inr (Or.inl h))
      · exact Or.inr (Or.inr (Or.inr h))
    · rintro (h | h | h | h)
      · exact Or.inr (Or.inl h)
      · exact Or.inl h
      · exact Or.inr (Or.inr (Or.inl h))
      · exact Or.inr (Or.inr (Or.inr h))
  · intro z
    rw [isRoot_append, isRoot_append, isRoot_single, isRoot_pair]
    constructor
    · rintro (h | h)
      · obtain ⟨e, he, rfl⟩ := h
        refine Or.inr ⟨Or.inl ⟨e, he, rfl⟩, ?_, ?_⟩
        · intro h'
          exact hYρ e he ρ ⟨by rw [h']; exact Anc.refl _, Anc.refl _⟩
        · intro h'
          exact hYs e he (sib ρ) ⟨by rw [h']; exact Anc.refl _, Anc.refl _⟩
      · exact Or.inl h
    · rintro (h | ⟨h | h | h, h1, h2⟩)
      · exact Or.inr h
      · exact Or.inl h
      · exact absurd h h1
      · exact absurd h h2
  · intro h f hm
    obtain ⟨e, he, hx⟩ := mem_nodes.1 hm
    have ha : Anc e.1 (parent ρ) := entry_anc ok he hx
    have := ok.disj e he (ρ, some a) (List.mem_append_right _ List.mem_cons_self) ρ
      (Anc.trans ha (anc_parent_self ρ)) (Anc.refl ρ)
    subst this
    have := ha.1
    have h2 : (parent ρ).1 = ρ.1 + 1 := rfl
    simp only at this
    omega

/-! ### step B -/

/-- step B on placed forests: the tree at `σ` is lifted over the empty root at `sib σ` -/
theorem stepB_pf (Y : PF H) (σ : Pos) (b : CTree H)
    (ok : OK (Y ++ [(sib σ, none), (σ, some b)])) :
    OK (Y ++ [(parent σ, some b)]) ∧
    (∀ e : Pos × H × Bool, e ∈ nodes (Y ++ [(parent σ, some b)]) ↔
      (¬ Anc (parent σ) e.1 ∧ e ∈ nodes (Y ++ [(sib σ, none), (σ, some b)])) ∨
      (∃ c, Anc σ c ∧ e.1 = liftP σ c ∧ (c, e.2) ∈ nodes (Y ++ [(sib σ, none), (σ, some b)]))) ∧
    (∀ z, IsRoot (Y ++ [(parent σ, some b)]) z ↔
      z = parent σ ∨ (IsRoot (Y ++ [(sib σ, none), (σ, some b)]) z ∧ z ≠ sib σ ∧ z ≠ σ)) := by
  have hpw := List.pairwise_append.1 ok.pw
  have hYs : ∀ e ∈ Y, ∀ q, ¬ (Anc e.1 q ∧ Anc (sib σ) q) :=
    fun e he => hpw.2.2 e he (sib σ, none) List.mem_cons_self
  have hYσ : ∀ e ∈ Y, ∀ q, ¬ (Anc e.1 q ∧ Anc σ q) :=
    fun e he => hpw.2.2 e he (σ, some b) (List.mem_cons_of_mem _ List.mem_cons_self)
  have hYp : ∀ e ∈ Y, ∀ q, ¬ (Anc e.1 q ∧ Anc (parent σ) q) := by
    intro e he
    have := disj_parent (ρ := sib σ) (hYs e he) (by rw [sib_sib]; exact hYσ e he)
    rwa [parent_sib] at this
  have hdb : depth b ≤ σ.1 :=
    ok.depth (σ, some b) (List.mem_append_right _ (List.mem_cons_of_mem _ List.mem_cons_self)) b rfl
  have hpair : nodes [((sib σ, none) : Pos × Option (CTree H)), (σ, some b)] =
      (sib σ, zero, false) :: b.nodes σ.1 σ.2 := by
    simp [PForest.nodes, entryNodes]
  have hlift : b.nodes (parent σ).1 (parent σ).2 = (b.nodes σ.1 σ.2).map (fun e => (liftP σ e.1, e.2)) := by
    have := nodes_liftP σ b σ (Anc.refl σ) hdb
    rwa [liftP_self] at this
  have hunder : ∀ c ∈ b.nodes σ.1 σ.2, Anc σ c.1 :=
    fun c hc => MapProve.anc_iff_under.2 (nodes_under b _ _ hdb c hc)
  have hYroot : ∀ x ∈ nodes Y, ∃ e0 ∈ Y, Anc e0.1 x.1 := by
    intro x hx
    obtain ⟨e0, he0, hx0⟩ := mem_nodes.1 hx
    exact ⟨e0, he0, entry_anc ok (List.mem_append_left _ he0) hx0⟩
  refine ⟨?_, ?_, ?_⟩
  · apply ok_replace ok
    · intro e he t ht
      simp only [List.mem_singleton] at he
      subst he
      simp only [Option.some.injEq] at ht
      subst ht
      show _ ≤ σ.1 + 1
      omega
    · exact List.pairwise_singleton _ _
    · intro e he e' he'
      simp only [List.mem_singleton] at he'
      subst he'
      exact hYp e he
    · simp [leaves, optLeaves]
  · intro e
    rw [nodes_append, nodes_append, nodes_single_some, hlift, hpair]
    simp only [List.mem_append, List.mem_cons, List.mem_map]
    constructor
    · rintro (h | ⟨c, hc, rfl⟩)
      · left
        obtain ⟨e0, he0, ha⟩ := hYroot e h
        exact ⟨fun hp => hYp e0 he0 e.1 ⟨ha, hp⟩, Or.inl h⟩
      · right
        exact ⟨c.1, hunder c hc, rfl, Or.inr (Or.inr hc)⟩
    · rintro (⟨hn, h | h | h⟩ | ⟨c, hc, he, h | h | h⟩)
      · exact Or.inl h
      · exfalso
        apply hn
        rw [h]
        exact anc_parent_sib σ
      · exfalso
        exact hn (hunder e h).parent
      · exfalso
        obtain ⟨e0, he0, ha⟩ := hYroot _ h
        exact hYσ e0 he0 c ⟨ha, hc⟩
      · exfalso
        have : c = sib σ := congrArg Prod.fst h
        rw [this] at hc
        exact not_anc_sib σ hc
      · right
        exact ⟨(c, e.2), h, Prod.ext he.symm rfl⟩
  · intro z
    rw [isRoot_append, isRoot_append, isRoot_single, isRoot_pair]
    constructor
    · rintro (h | h)
      · obtain ⟨e, he, rfl⟩ := h
        refine Or.inr ⟨Or.inl ⟨e, he, rfl⟩, ?_, ?_⟩
        · intro h'
          exact hYs e he (sib σ) ⟨by rw [h']; exact Anc.refl _, Anc.refl _⟩
        · intro h'
          exact hYσ e he σ ⟨by rw [h']; exact Anc.refl _, Anc.refl _⟩
      · exact Or.inl h
    · rintro (h | ⟨h | h | h, h1, h2⟩)
      · exact Or.inr h
      · exact Or.inl h
      · exact absurd h h1
      · exact absurd h h2

/-! ### step 0 -/

/-- the slot `(0, n)` does not lie below a root position of a forest with `n` leaves -/
theorem not_anc_rootPos_end {n h : Nat} (hb : n.testBit h = true) : ¬ Anc (rootPos n h) (0, n) := by
  intro ha
  have h2 : 2 * (n >>> (h + 1)) = n / 2 ^ (h - 0) := ha.2
  have hodd := shiftRight_odd_of_testBit hb
  rw [shiftRight_succ', Nat.shiftRight_eq_div_pow] at h2
  rw [Nat.shiftRight_eq_div_pow] at hodd
  simp only [Nat.sub_zero] at h2
  omega

/-- step 0: a new leaf is placed as a root on row 0 at offset `n` -/
theorem step0_pf (F : Forest H) (x : H) (hn : F.numLeaves + 1 < 2 ^ 64) (hy : Hyg F)
    (hfresh : x ∉ F.liveLeaves) (hx0 : x ≠ (zero : H)) (hxph : ∀ a b : H, x ≠ ph a b) :
    OK (ofForest F ++ [((0, F.numLeaves), some (CTree.leaf x))]) ∧
    PForest.nodes (ofForest F ++ [((0, F.numLeaves), some (CTree.leaf x))]) = F.nodes ++ [((0, F.numLeaves), x, true)] := by
  have hn' : F.numLeaves < 2 ^ 64 := by omega
  have okF := ok_ofForest F hn' hy
  have hle : leaves (ofForest F ++ [((0, F.numLeaves), some (CTree.leaf x))]) = F.liveLeaves ++ [x] := by
    rw [leaves_append, leaves_ofForest F hn', leaves_single]
    rfl
  refine ⟨{ depth := ?_, pw := ?_, nodup := ?_, nz := ?_, nph := ?_ }, ?_⟩
  · intro e he t ht
    rcases List.mem_append.1 he with h | h
    · exact okF.depth e h t ht
    · simp only [List.mem_singleton] at h
      subst h
      simp only [Option.some.injEq] at ht
      subst ht
      exact Nat.le_refl _
  · refine List.pairwise_append.2 ⟨okF.pw, List.pairwise_singleton _ _, ?_⟩
    intro e he e' he' q ⟨h1, h2⟩
    simp only [List.mem_singleton] at he'
    subst he'
    obtain ⟨h, hh, rfl⟩ := mem_ofForest.1 he
    have h2' : Anc ((0, F.numLeaves) : Pos) q := h2
    have hq : ((0, F.numLeaves) : Pos) = q := h2'.eq_of_row (by have : q.1 ≤ 0 := h2'.1; show 0 = q.1; omega)
    subst hq
    exact not_anc_rootPos_end (mem_treeRows.1 hh).2 h1
  · rw [hle]
    refine List.nodup_append.2 ⟨hy.nodup, by simp, ?_⟩
    intro a ha b hb hab
    simp only [List.mem_singleton] at hb
    subst hb
    subst hab
    exact hfresh ha
  · rw [hle]
    intro y hy'
    rcases List.mem_append.1 hy' with h | h
    · exact hy.nz y h
    · simp only [List.mem_singleton] at h
      subst h
      exact hx0
  · rw [hle]
    intro y hy'
    rcases List.mem_append.1 hy' with h | h
    · exact hy.nph y h
    · simp only [List.mem_singleton] at h
      subst h
      exact hxph
  · rw [nodes_append, nodes_ofForest, nodes_single_some]
    rfl

/-! ### the low trees and their merge -/

/-- low trees (row `k` first in the argument list, highest row first in the result) at the
root positions of a forest with `n` leaves -/
def lowV (n : Nat) : Nat → List (Option (CTree H)) → PF H
  | _, [] => []
  | k, o :: os => lowV n (k + 1) os ++ [(rootPos n k, o)]

/-- merging the accumulated tree with the low trees, lowest first; empty trees are skipped -/
def mergeLow : List (Option (CTree H)) → CTree H → CTree H
  | [], a => a
  | some t :: os, a => mergeLow os (.node t a)
  | none :: os, a => mergeLow os a

theorem lowV_snoc (n : Nat) : ∀ (os : List (Option (CTree H))) (k : Nat) (o : Option (CTree H)),
    lowV n k (os ++ [o]) = (rootPos n (k + os.length), o) :: lowV n k os
  | [], k, o => by simp [lowV]
  | o' :: os, k, o => by
    simp only [List.cons_append, lowV, lowV_snoc n os (k + 1) o, List.length_cons, List.cons_append]
    congr 3
    omega

theorem mergeLow_snoc : ∀ (os : List (Option (CTree H))) (o : Option (CTree H)) (a : CTree H),
    some (mergeLow (os ++ [o]) a) = join o (some (mergeLow os a))
  | [], o, a => by cases o <;> simp [mergeLow, join]
  | some t :: os, o, a => by simp only [List.cons_append, mergeLow]; exact mergeLow_snoc os o _
  | none :: os, o, a => by simp only [List.cons_append, mergeLow]; exact mergeLow_snoc os o _

/-- the right-to-left merge of the specification is the left-to-right merge of the low trees
listed lowest first -/
theorem mergeTrees_eq_mergeLow (ts : List (Nat × Option (CTree H))) (a : CTree H) :
    mergeTrees ts (some a) = some (mergeLow (ts.map (·.2)).reverse a) := by
  induction ts with
  | nil => rfl
  | cons p rest ih =>
    simp only [List.map_cons, List.reverse_cons, mergeLow_snoc]
    rw [← ih]
    rfl

/-- the low trees of a forest with `t` trailing ones, placed at their root positions -/
theorem lowV_onesTrees (n : Nat) : ∀ (t : Nat) (l : List (Option H)),
    lowV n 0 ((onesTrees t l).map (·.2)).reverse = (onesTrees t l).map (fun p => (rootPos n p.1, p.2))
  | 0, l => rfl
  | t + 1, l => by
    simp only [onesTrees, List.map_cons, List.reverse_cons]
    rw [lowV_snoc, lowV_onesTrees n t, List.length_reverse, List.length_map, onesTrees_length, Nat.zero_add]

/-! ### the decomposition of the forest before and after one addition -/

theorem shiftRight_trailing (t c : Nat) : (2 ^ (t + 1) * c + (2 ^ t - 1)) >>> t = 2 * c := by
  have hpos := Nat.two_pow_pos t
  rw [Nat.shiftRight_eq_div_pow, Nat.pow_succ, Nat.mul_assoc,
    mul_add_div_pow t (2 * c) (2 ^ t - 1) (by omega)]

theorem shiftRight_trailing_high (t c h : Nat) (hh : t ≤ h) :
    (2 ^ (t + 1) * c + (2 ^ t - 1)) >>> (h + 1) = c >>> (h - t) := by
  have e : h + 1 = (t + 1) + (h - t) := by omega
  rw [e, Nat.shiftRight_add, Nat.shiftRight_eq_div_pow _ (t + 1),
    mul_add_div_pow (t + 1) c (2 ^ t - 1) (ones_lt t)]

theorem shiftRight_trailing_succ_high (t c h : Nat) (hh : t ≤ h) :
    (2 ^ (t + 1) * c + (2 ^ t - 1) + 1) >>> (h + 1) = c >>> (h - t) := by
  have hpos := Nat.two_pow_pos t
  have hp : 2 ^ (t + 1) = 2 ^ t + 2 ^ t := by rw [Nat.pow_succ]; omega
  have e : h + 1 = (t + 1) + (h - t) := by omega
  have e2 : 2 ^ (t + 1) * c + (2 ^ t - 1) + 1 = 2 ^ (t + 1) * c + 2 ^ t := by omega
  rw [e2, e, Nat.shiftRight_add, Nat.shiftRight_eq_div_pow _ (t + 1),
    mul_add_div_pow (t + 1) c (2 ^ t) (by omega)]

/-- the rows of the high part are above row `t` -/
theorem treesL_high_row {t c : Nat} (l : List (Option H)) (hl : l.length = 2 ^ (t + 1) * c)
    {p : Nat × Option (CTree H)} (hp : p ∈ treesL l) : t + 1 ≤ p.1 := by
  rw [treesL_def, hl] at hp
  obtain ⟨h, hh, rfl⟩ := List.mem_map.1 hp
  have := (mem_treeRows.1 hh).2
  rw [Nat.testBit_two_pow_mul] at this
  simp only [ge_iff_le, Bool.and_eq_true, decide_eq_true_eq] at this
  exact this.1

/-- decomposition of a forest with `t` trailing one digits in its leaf count, and of the forest
after one addition -/
theorem add_decomp (F : Forest H) (x : H) {t c : Nat} (hn : F.numLeaves = 2 ^ (t + 1) * c + (2 ^ t - 1))
    (ht : t ≤ 63) :
    ∃ (Y : PF H) (os : List (Option (CTree H))), os.length = t ∧
      ofForest F = Y ++ lowV F.numLeaves 0 os ∧
      ofForest (F.add x) = Y ++ [((t, F.numLeaves >>> t), some (mergeLow os (CTree.leaf x)))] ∧
      (∀ i, i < t → F.numLeaves.testBit i = true) ∧ F.numLeaves.testBit t = false := by
  have hlen : F.slots.length = 2 ^ (t + 1) * c + (2 ^ t - 1) := hn
  have h1 : (F.slots.take (2 ^ (t + 1) * c)).length = 2 ^ (t + 1) * c := by
    rw [List.length_take]; omega
  refine ⟨(treesL (F.slots.take (2 ^ (t + 1) * c))).map (fun p => (rootPos F.numLeaves p.1, p.2)),
    ((onesTrees t (F.slots.drop (2 ^ (t + 1) * c))).map (·.2)).reverse, ?_, ?_, ?_, ?_, ?_⟩
  · rw [List.length_reverse, List.length_map, onesTrees_length]
  · rw [lowV_onesTrees]
    unfold ofForest
    rw [trees_decomp F hn (by omega), List.map_append]
  · unfold ofForest
    rw [trees_add_decomp F x hn (by omega), List.map_append, MapAdd.numLeaves_add, mergeTrees_eq_mergeLow]
    congr 1
    · apply List.map_congr_left
      intro p hp
      have hrow := treesL_high_row _ h1 hp
      show (rootPos (F.numLeaves + 1) p.1, p.2) = (rootPos F.numLeaves p.1, p.2)
      unfold rootPos
      rw [hn, shiftRight_trailing_succ_high t c p.1 (by omega), shiftRight_trailing_high t c p.1 (by omega)]
    · simp only [List.map_cons, List.map_nil]
      unfold rootPos
      rw [hn, shiftRight_trailing_succ_high t c t (Nat.le_refl _), shiftRight_trailing, Nat.sub_self,
        Nat.shiftRight_zero]
  · intro i hi
    rw [hn]
    exact testBit_trailing_low hi
  · rw [hn]
    exact testBit_trailing_at

/-! ### non-vacuity: concrete instances over a term algebra -/

namespace Example

/-- a free hasher: leaves `l n`, parent hashes `p a b`, the zero hash `z` -/
inductive T where
  | z
  | l (n : Nat)
  | p (a b : T)
deriving DecidableEq, Repr

instance : Hasher T := ⟨T.p, T.z⟩

/-- three slots, the middle one dead: `t = 2` trailing ones, `c = 0` -/
def F3 : Forest T := ⟨[some (T.l 1), none, some (T.l 3)]⟩

/-- `add_decomp` applies to `F3` -/
example : ∃ (Y : PF T) (os : List (Option (CTree T))), os.length = 2 ∧
    ofForest F3 = Y ++ lowV F3.numLeaves 0 os ∧
    ofForest (F3.add (T.l 4)) = Y ++ [((2, F3.numLeaves >>> 2), some (mergeLow os (CTree.leaf (T.l 4))))] ∧
    (∀ i, i < 2 → F3.numLeaves.testBit i = true) ∧ F3.numLeaves.testBit 2 = false :=
  add_decomp F3 (T.l 4) (t := 2) (c := 0) (by decide) (by decide)

/-- the decomposition of `F3`, computed: no high part, low trees `leaf 3` (row 0), `leaf 1` (row 1,
its sibling slot is dead), merged left-to-right with the new leaf -/
example : ofForest F3 = [] ++ lowV F3.numLeaves 0 [some (CTree.leaf (T.l 3)), some (CTree.leaf (T.l 1))] ∧
    ofForest (F3.add (T.l 4)) =
      [] ++ [((2, F3.numLeaves >>> 2),
        some (mergeLow [some (CTree.leaf (T.l 3)), some (CTree.leaf (T.l 1))] (CTree.leaf (T.l 4))))] ∧
    mergeLow [some (CTree.leaf (T.l 3)), some (CTree.leaf (T.l 1))] (CTree.leaf (T.l 4)) =
      CTree.node (CTree.leaf (T.l 1)) (CTree.node (CTree.leaf (T.l 3)) (CTree.leaf (T.l 4))) := by
  decide +kernel

/-- one live slot -/
def F1 : Forest T := ⟨[some (T.l 1)]⟩

theorem hyg_F1 : Hyg F1 where
  nodup := by decide
  nz := by intro x hx; simp [F1, Forest.liveLeaves] at hx; subst hx; simp [Hasher.zero]
  nph := by intro x hx a b; simp [F1, Forest.liveLeaves] at hx; subst hx; simp [Hasher.ph]

/-- `step0_pf` applies to `F1`, and its result is an instance of the hypothesis of `stepA_pf` -/
theorem ok_A : OK (([] : PF T) ++ [(((0, 0) : Pos), some (CTree.leaf (T.l 1))), (sib (0, 0), some (CTree.leaf (T.l 2)))]) := by
  have := (step0_pf F1 (T.l 2) (by decide) hyg_F1 (by decide) (by simp [Hasher.zero]) (by simp [Hasher.ph])).1
  exact this

example := stepA_pf ([] : PF T) (0, 0) (CTree.leaf (T.l 1)) (CTree.leaf (T.l 2)) (by decide) ok_A

/-- one dead slot: the forest has an empty root -/
def F0 : Forest T := ⟨[none]⟩

theorem hyg_F0 : Hyg F0 where
  nodup := by decide
  nz := by intro x hx; simp [F0, Forest.liveLeaves] at hx
  nph := by intro x hx; simp [F0, Forest.liveLeaves] at hx

/-- `step0_pf` applies to `F0`, and its result is an instance of the hypothesis of `stepB_pf` -/
theorem ok_B : OK (([] : PF T) ++ [(sib ((0, 1) : Pos), none), ((0, 1), some (CTree.leaf (T.l 2)))]) := by
  have := (step0_pf F0 (T.l 2) (by decide) hyg_F0 (by decide) (by simp [Hasher.zero]) (by simp [Hasher.ph])).1
  exact this

example := stepB_pf ([] : PF T) (0, 1) (CTree.leaf (T.l 2)) ok_B

/-- `acc_geo` at `n = 3`, `k = 1`: the root `(1, 0)` is the left sibling of `(1, 1)` -/
example : rootPos 3 1 = sib (1, 3 >>> 1) ∧ (rootPos 3 1).2 % 2 = 0 ∧
    parent (1, 3 >>> 1) = (1 + 1, 3 >>> (1 + 1)) ∧ parent (rootPos 3 1) = (1 + 1, 3 >>> (1 + 1)) :=
  acc_geo (by decide)

end Example

end UtreexoVerif.Proofs.PForestAdd
