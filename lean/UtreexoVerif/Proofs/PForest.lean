/-
  Placed forests: a list of collapsed trees, each with the (row, offset) position of its root.
  The specification forest `F` is the placed forest `ofForest F` (its trees at the root
  positions of `F.numLeaves`); the intermediate states of `MapPollard.addSingle` are placed
  forests that are not forests of any leaf count.  This file derives, from the structural
  well-formedness `OK V`, the laws `Laws (nodes V) (IsRoot V)` about the node list that the
  storage-invariant proofs use.
-/
import UtreexoVerif.Proofs.MapLiftGeo
import UtreexoVerif.Proofs.MapProve
import UtreexoVerif.Proofs.NodesUnique

namespace UtreexoVerif.Proofs.PForest
open UtreexoVerif Model Spec Spec.Forest Proofs MapInv MapPrune MapRep MapLiftGeo SpecNodes Hasher
set_option linter.unusedSectionVars false

variable {H : Type} [DecidableEq H] [Hasher H]

/-! ### laws about a node list with a root predicate -/

/-- what the invariant proofs need to know about the nodes `N` of a (placed) forest with
roots `R` -/
structure Laws (N : List (Pos × H × Bool)) (R : Pos → Prop) : Prop where
  func : ∀ q h h' b b', (q, h, b) ∈ N → (q, h', b') ∈ N → h = h' ∧ b = b'
  root_node : ∀ ρ, R ρ → ∃ h b, (ρ, h, b) ∈ N
  under_root : ∀ q h b, (q, h, b) ∈ N → ∃ ρ, R ρ ∧ Anc ρ q
  root_disj : ∀ ρ ρ' q, R ρ → R ρ' → Anc ρ q → Anc ρ' q → ρ = ρ'
  parent_node : ∀ q h b, (q, h, b) ∈ N → ¬ R q → ∃ h', (parent q, h', false) ∈ N ∧ h' ≠ zero
  sib_node : ∀ q h b, (q, h, b) ∈ N → ¬ R q → ∃ h' b', (sib q, h', b') ∈ N
  leaf_below : ∀ t x q h b, (t, x, true) ∈ N → (q, h, b) ∈ N → Anc t q → q = t
  zero_root : ∀ q b, (q, (zero : H), b) ∈ N → R q ∧ b = false ∧ ∀ q' h' b', (q', h', b') ∈ N → Anc q q' → q' = q
  leaf_hash : ∀ t x q b, (t, x, true) ∈ N → (q, x, b) ∈ N → q = t
  inner_hash : ∀ q h, (q, h, false) ∈ N → h ≠ zero → 1 ≤ q.1 ∧ ∃ a b fa fb,
    ((q.1 - 1, 2 * q.2), a, fa) ∈ N ∧ ((q.1 - 1, 2 * q.2 + 1), b, fb) ∈ N ∧ h = ph a b
  has_leaf : ∀ q h b, (q, h, b) ∈ N → h ≠ zero → ∃ t x, (t, x, true) ∈ N ∧ Anc q t

namespace Laws
variable {N : List (Pos × H × Bool)} {R : Pos → Prop}

/-- a node strictly below a node is not a root -/
theorem not_root_of_sunder (L : Laws N R) {q t : Pos} {h h' : H} {b b' : Bool}
    (hq : (q, h, b) ∈ N) (_ht : (t, h', b') ∈ N) (hs : SUnder q t) : ¬ R t := by
  intro hr
  obtain ⟨ρ, hρ, ha⟩ := L.under_root q h b hq
  have := L.root_disj ρ t t hρ hr (Anc.trans ha hs.1) (Anc.refl t)
  subst this
  have := Anc.antisymm ha hs.1
  have h2 := hs.2
  rw [this] at h2
  omega

/-- the nodes between a node and an ancestor node are nodes -/
theorem path_nodes (L : Laws N R) : ∀ (d : Nat) {q t : Pos} {h h' : H} {b b' : Bool},
    (q, h, b) ∈ N → (t, h', b') ∈ N → Anc q t → q.1 = t.1 + d →
    ∀ z, Anc q z → Anc z t → ∃ h'' b'', (z, h'', b'') ∈ N
  | 0, q, t, h, h', b, b', hq, ht, ha, hd, z, hqz, hzt => by
    have : q = t := ha.eq_of_row (by omega)
    subst this
    have := Anc.antisymm hqz hzt
    subst this
    exact ⟨h, b, hq⟩
  | d+1, q, t, h, h', b, b', hq, ht, ha, hd, z, hqz, hzt => by
    by_cases hzt' : z = t
    · subst hzt'; exact ⟨h', b', ht⟩
    · have hs : SUnder q t := ⟨ha, by omega⟩
      have hnr := L.not_root_of_sunder hq ht hs
      obtain ⟨hp, hpm, _⟩ := L.parent_node t h' b' ht hnr
      have hzp : Anc z (parent t) := by
        rw [anc_parentR_iff]
        refine ⟨hzt, ?_⟩
        have := hzt.1
        have hne : z.1 ≠ t.1 := fun e => hzt' (hzt.eq_of_row e)
        omega
      exact path_nodes L d hq hpm (sunder_iff_parent.1 hs) (by show q.1 = t.1 + 1 + d; omega) z hqz hzp

/-- a node strictly below a node `q`: the child of `q` towards it and that child's sibling are nodes -/
theorem child_nodes (L : Laws N R) {q t : Pos} {h h' : H} {b b' : Bool}
    (hq : (q, h, b) ∈ N) (ht : (t, h', b') ∈ N) (hs : SUnder q t) :
    ∃ c, parent c = q ∧ Anc c t ∧ (∃ h1 b1, (c, h1, b1) ∈ N) ∧ (∃ h2 b2, (sib c, h2, b2) ∈ N) ∧ ¬ R c ∧ ¬ R (sib c) := by
  -- `c` = the ancestor of `t` on row `q.1 - 1`
  have hrow := hs.2
  let c : Pos := up t (q.1 - 1 - t.1)
  have hct : Anc c t := anc_up t _
  have hc1 : c.1 = q.1 - 1 := by show t.1 + (q.1 - 1 - t.1) = q.1 - 1; omega
  have hqc : Anc q c := Anc.comparable hct hs.1 (by omega)
  have hpc : parent c = q := by
    have : Anc q (parent c) := by rw [anc_parentR_iff]; exact ⟨hqc, by omega⟩
    exact (this.eq_of_row (by show q.1 = c.1 + 1; omega)).symm
  obtain ⟨h1, b1, hcm⟩ := L.path_nodes (q.1 - t.1) hq ht hs.1 (by omega) c hqc hct
  have hsc : SUnder q c := ⟨hqc, by omega⟩
  have hnrc := L.not_root_of_sunder hq hcm hsc
  obtain ⟨h2, b2, hsm⟩ := L.sib_node c h1 b1 hcm hnrc
  have hss : SUnder q (sib c) := by
    rw [sunder_iff_parent, parent_sib, hpc]; exact Anc.refl q
  exact ⟨c, hpc, hct, ⟨h1, b1, hcm⟩, ⟨h2, b2, hsm⟩, hnrc, L.not_root_of_sunder hq hsm hss⟩

/-- a non-root node has a non-zero hash -/
theorem nonzero_of_nonroot (L : Laws N R) {q : Pos} {h : H} {b : Bool} (hq : (q, h, b) ∈ N) (hnr : ¬ R q) :
    h ≠ zero := by
  rintro rfl
  exact hnr (L.zero_root q b hq).1

end Laws

/-! ### placed forests -/

abbrev PF (H : Type) := List (Pos × Option (CTree H))

def entryNodes (e : Pos × Option (CTree H)) : List (Pos × H × Bool) :=
  match e.2 with
  | some t => t.nodes e.1.1 e.1.2
  | none => [(e.1, zero, false)]

def nodes (V : PF H) : List (Pos × H × Bool) := V.flatMap entryNodes

def leaves (V : PF H) : List H := V.flatMap (fun e => optLeaves e.2)

def IsRoot (V : PF H) (q : Pos) : Prop := ∃ e ∈ V, e.1 = q

/-- structural well-formedness of a placed forest -/
structure OK (V : PF H) : Prop where
  depth : ∀ e ∈ V, ∀ t, e.2 = some t → depth t ≤ e.1.1
  pw : V.Pairwise (fun e e' => ∀ q, ¬ (Anc e.1 q ∧ Anc e'.1 q))
  nodup : (leaves V).Nodup
  nz : ∀ x ∈ leaves V, x ≠ (zero : H)
  nph : ∀ x ∈ leaves V, ∀ a b : H, x ≠ ph a b

theorem mem_nodes {V : PF H} {x : Pos × H × Bool} : x ∈ nodes V ↔ ∃ e ∈ V, x ∈ entryNodes e :=
  List.mem_flatMap

theorem pairwise_mem {α : Type} {r : α → α → Prop} (hs : ∀ a b, r a b → r b a) : ∀ {l : List α},
    l.Pairwise r → ∀ a ∈ l, ∀ b ∈ l, a = b ∨ r a b
  | [], _, a, ha, _, _ => by cases ha
  | c :: l, hp, a, ha, b, hb => by
    rw [List.pairwise_cons] at hp
    rcases List.mem_cons.1 ha with rfl | ha' <;> rcases List.mem_cons.1 hb with rfl | hb'
    · exact Or.inl rfl
    · exact Or.inr (hp.1 b hb')
    · exact Or.inr (hs _ _ (hp.1 a ha'))
    · exact pairwise_mem hs hp.2 a ha' b hb'

/-- two entries with a common position below their roots are the same entry -/
theorem OK.disj {V : PF H} (ok : OK V) : ∀ e ∈ V, ∀ e' ∈ V, ∀ q, Anc e.1 q → Anc e'.1 q → e = e' := by
  intro e he e' he' q h1 h2
  rcases pairwise_mem (r := fun e e' : Pos × Option (CTree H) => ∀ q, ¬ (Anc e.1 q ∧ Anc e'.1 q))
    (fun a b h q hq => h q ⟨hq.2, hq.1⟩) ok.pw e he e' he' with h | h
  · exact h
  · exact absurd ⟨h1, h2⟩ (h q)

theorem entry_anc {V : PF H} (ok : OK V) {e : Pos × Option (CTree H)} (he : e ∈ V) {x : Pos × H × Bool}
    (hx : x ∈ entryNodes e) : Anc e.1 x.1 := by
  unfold entryNodes at hx
  cases ht : e.2 with
  | none =>
    rw [ht] at hx
    simp only [List.mem_singleton] at hx
    subst hx; exact Anc.refl _
  | some t =>
    rw [ht] at hx
    exact MapProve.anc_iff_under.2 (nodes_under t _ _ (ok.depth e he t ht) x hx)

/-! ### CTree lemmas -/

/-- a non-root entry of a collapsed tree has its parent (an inner node) and its sibling in the tree -/
theorem ctree_parent_sib : ∀ (t : CTree H) (r o : Nat), depth t ≤ r → ∀ x ∈ t.nodes r o, x.1 ≠ (r, o) →
    (∃ a b : CTree H, (parent x.1, ph a.hash b.hash, false) ∈ t.nodes r o) ∧
    ∃ h' b', (sib x.1, h', b') ∈ t.nodes r o := by
  intro t
  induction t with
  | leaf h =>
    intro r o _ x hx hne
    simp only [CTree.nodes, List.mem_singleton] at hx
    subst hx
    exact absurd rfl hne
  | node a b iha ihb =>
    intro r o hd x hx hne
    simp only [SpecNodes.depth] at hd
    have hr : 1 ≤ r := by omega
    simp only [CTree.nodes, List.mem_cons, List.mem_append] at hx
    rcases hx with rfl | hx | hx
    · exact absurd rfl hne
    · by_cases hh : x.1 = (r - 1, 2 * o)
      · constructor
        · refine ⟨a, b, ?_⟩
          simp only [CTree.nodes, List.mem_cons]
          left
          rw [hh]
          show ((r - 1 + 1, 2 * o / 2), _, _) = _
          rw [Nat.sub_add_cancel hr, Nat.mul_div_cancel_left _ (by decide : 0 < 2)]
          rfl
        · refine ⟨b.hash, isLeaf b, ?_⟩
          simp only [CTree.nodes, List.mem_cons, List.mem_append]
          right; right
          rw [hh]
          have : sib (r - 1, 2 * o) = (r - 1, 2 * o + 1) := by
            show (r - 1, if 2 * o % 2 = 0 then 2 * o + 1 else 2 * o - 1) = _
            rw [if_pos (by omega)]
          rw [this]
          exact nodes_head b _ _
      · obtain ⟨⟨c, d, h1⟩, ⟨h', b', h2⟩⟩ := iha (r - 1) (2 * o) (by omega) x hx hh
        refine ⟨⟨c, d, ?_⟩, ⟨h', b', ?_⟩⟩
        · simp only [CTree.nodes, List.mem_cons, List.mem_append]; exact Or.inr (Or.inl h1)
        · simp only [CTree.nodes, List.mem_cons, List.mem_append]; exact Or.inr (Or.inl h2)
    · by_cases hh : x.1 = (r - 1, 2 * o + 1)
      · constructor
        · refine ⟨a, b, ?_⟩
          simp only [CTree.nodes, List.mem_cons]
          left
          rw [hh]
          show ((r - 1 + 1, (2 * o + 1) / 2), _, _) = _
          rw [Nat.sub_add_cancel hr, show (2 * o + 1) / 2 = o by omega]
          rfl
        · refine ⟨a.hash, isLeaf a, ?_⟩
          simp only [CTree.nodes, List.mem_cons, List.mem_append]
          right; left
          rw [hh]
          have : sib (r - 1, 2 * o + 1) = (r - 1, 2 * o) := by
            show (r - 1, if (2 * o + 1) % 2 = 0 then 2 * o + 1 + 1 else 2 * o + 1 - 1) = _
            rw [if_neg (by omega)]; rfl
          rw [this]
          exact nodes_head a _ _
      · obtain ⟨⟨c, d, h1⟩, ⟨h', b', h2⟩⟩ := ihb (r - 1) (2 * o + 1) (by omega) x hx hh
        refine ⟨⟨c, d, ?_⟩, ⟨h', b', ?_⟩⟩
        · simp only [CTree.nodes, List.mem_cons, List.mem_append]; exact Or.inr (Or.inr h1)
        · simp only [CTree.nodes, List.mem_cons, List.mem_append]; exact Or.inr (Or.inr h2)

/-- every leaf of a collapsed tree is a leaf entry -/
theorem ctree_leaf_entry : ∀ (t : CTree H) (r o : Nat), ∀ x ∈ t.leaves, ∃ p, (p, x, true) ∈ t.nodes r o := by
  intro t
  induction t with
  | leaf h =>
    intro r o x hx
    simp only [CTree.leaves, List.mem_singleton] at hx
    subst hx
    exact ⟨(r, o), by simp [CTree.nodes]⟩
  | node a b iha ihb =>
    intro r o x hx
    simp only [CTree.leaves, List.mem_append] at hx
    rcases hx with hx | hx
    · obtain ⟨p, hp⟩ := iha (r - 1) (2 * o) x hx
      exact ⟨p, by simp only [CTree.nodes, List.mem_cons, List.mem_append]; exact Or.inr (Or.inl hp)⟩
    · obtain ⟨p, hp⟩ := ihb (r - 1) (2 * o + 1) x hx
      exact ⟨p, by simp only [CTree.nodes, List.mem_cons, List.mem_append]; exact Or.inr (Or.inr hp)⟩

/-- the entries of a collapsed tree have non-zero hashes -/
theorem ctree_hash_ne_zero (nz : NZ H) (t : CTree H) (hl : ∀ x ∈ t.leaves, x ≠ (zero : H)) (r o : Nat) :
    ∀ e ∈ t.nodes r o, e.2.1 ≠ zero := by
  intro e he
  obtain ⟨s, h1, h2, _⟩ := CTree.nodes_sub t r o e he
  rw [h1]
  exact CTree.hash_ne_zero nz.nonzero s (fun x hx => hl x (h2 x hx))

/-- an entry whose hash is not a parent hash is a leaf entry, and the hash is a leaf of the tree -/
theorem ctree_entry_leaf (t : CTree H) (r o : Nat) : ∀ e ∈ t.nodes r o, (∀ a b : H, e.2.1 ≠ ph a b) →
    e.2.1 ∈ t.leaves := by
  intro e he hn
  obtain ⟨s, h1, h2, _⟩ := CTree.nodes_sub t r o e he
  cases s with
  | leaf x =>
    have : e.2.1 = x := h1
    rw [this]
    exact h2 x (by simp [CTree.leaves])
  | node a b => exact absurd h1 (hn _ _)

/-- relocation: the entries of a tree placed at the lifted root are the lifted entries -/
theorem nodes_liftP (σ : Pos) : ∀ (t : CTree H) (c : Pos), Anc σ c → depth t ≤ c.1 →
    t.nodes (liftP σ c).1 (liftP σ c).2 = (t.nodes c.1 c.2).map (fun e => (liftP σ e.1, e.2)) := by
  intro t
  induction t with
  | leaf h => intro c _ _; simp [CTree.nodes]
  | node a b iha ihb =>
    intro c hc hd
    simp only [SpecNodes.depth] at hd
    have h1 : 1 ≤ c.1 := by omega
    have ea := iha (childP c 0) (sunder_childP hc h1 (by omega)).1 (by show depth a ≤ c.1 - 1; omega)
    have eb := ihb (childP c 1) (sunder_childP hc h1 (by omega)).1 (by show depth b ≤ c.1 - 1; omega)
    rw [liftP_childP hc h1 (by omega)] at ea eb
    simp only [CTree.nodes, List.map_cons, List.map_append]
    have e0 : (childP (liftP σ c) 0) = ((liftP σ c).1 - 1, 2 * (liftP σ c).2) := rfl
    have e1 : (childP (liftP σ c) 1) = ((liftP σ c).1 - 1, 2 * (liftP σ c).2 + 1) := rfl
    have e0' : (childP c 0) = (c.1 - 1, 2 * c.2) := rfl
    have e1' : (childP c 1) = (c.1 - 1, 2 * c.2 + 1) := rfl
    rw [e0, e0'] at ea
    rw [e1, e1'] at eb
    simp only at ea eb
    rw [ea, eb]

/-- below every entry of a collapsed tree there is a leaf entry -/
theorem ctree_has_leaf : ∀ (t : CTree H) (r o : Nat), depth t ≤ r → ∀ x ∈ t.nodes r o,
    ∃ y ∈ t.nodes r o, y.2.2 = true ∧ Anc x.1 y.1 := by
  intro t
  induction t with
  | leaf h =>
    intro r o _ x hx
    simp only [CTree.nodes, List.mem_singleton] at hx
    subst hx
    exact ⟨_, by simp [CTree.nodes], rfl, Anc.refl _⟩
  | node a b iha ihb =>
    intro r o hd x hx
    simp only [SpecNodes.depth] at hd
    simp only [CTree.nodes, List.mem_cons, List.mem_append] at hx
    rcases hx with rfl | hx | hx
    · obtain ⟨y, hy, hl, _⟩ := iha (r - 1) (2 * o) (by omega) _ (nodes_head a _ _)
      refine ⟨y, by simp only [CTree.nodes, List.mem_cons, List.mem_append]; exact Or.inr (Or.inl hy), hl, ?_⟩
      have hu := nodes_under a (r - 1) (2 * o) (by omega) y hy
      show Anc (r, o) y.1
      have hr1 : 1 ≤ r := by omega
      have hc : 2 * o / 2 = o := by omega
      exact MapProve.anc_iff_under.2 (Under.of_child (r := r) (o := o) (c := 2 * o) hr1 hc hu)
    · obtain ⟨y, hy, hl, ha⟩ := iha (r - 1) (2 * o) (by omega) x hx
      exact ⟨y, by simp only [CTree.nodes, List.mem_cons, List.mem_append]; exact Or.inr (Or.inl hy), hl, ha⟩
    · obtain ⟨y, hy, hl, ha⟩ := ihb (r - 1) (2 * o + 1) (by omega) x hx
      exact ⟨y, by simp only [CTree.nodes, List.mem_cons, List.mem_append]; exact Or.inr (Or.inr hy), hl, ha⟩

/-- an internal entry of a collapsed tree sits on a row `≥ 1` -/
theorem ctree_internal_row : ∀ (t : CTree H) (r o : Nat), depth t ≤ r → ∀ x ∈ t.nodes r o, x.2.2 = false →
    1 ≤ x.1.1 := by
  intro t
  induction t with
  | leaf h =>
    intro r o _ x hx hf
    simp only [CTree.nodes, List.mem_singleton] at hx
    subst hx
    simp at hf
  | node a b iha ihb =>
    intro r o hd x hx hf
    simp only [SpecNodes.depth] at hd
    simp only [CTree.nodes, List.mem_cons, List.mem_append] at hx
    rcases hx with rfl | hx | hx
    · show 1 ≤ r; omega
    · exact iha (r - 1) (2 * o) (by omega) x hx hf
    · exact ihb (r - 1) (2 * o + 1) (by omega) x hx hf

/-! ### laws from well-formedness -/

theorem laws_of_ok (nz : NZ H) {V : PF H} (ok : OK V) : Laws (nodes V) (IsRoot V) := by
  have hleafsub : ∀ e ∈ V, ∀ t, e.2 = some t → ∀ x ∈ t.leaves, x ∈ leaves V := by
    intro e he t ht x hx
    exact List.mem_flatMap.2 ⟨e, he, by rw [ht]; exact hx⟩
  refine { func := ?_, root_node := ?_, under_root := ?_, root_disj := ?_, parent_node := ?_, sib_node := ?_,
           leaf_below := ?_, zero_root := ?_, leaf_hash := ?_, inner_hash := ?_, has_leaf := ?_ }
  · -- func
    intro q h h' b b' h1 h2
    obtain ⟨e, he, hx⟩ := mem_nodes.1 h1
    obtain ⟨e', he', hy⟩ := mem_nodes.1 h2
    have := ok.disj e he e' he' q (entry_anc ok he hx) (entry_anc ok he' hy)
    subst this
    unfold entryNodes at hx hy
    cases ht : e.2 with
    | none =>
      rw [ht] at hx hy
      simp only [List.mem_singleton, Prod.mk.injEq] at hx hy
      exact ⟨hx.2.1.trans hy.2.1.symm, hx.2.2.trans hy.2.2.symm⟩
    | some t =>
      rw [ht] at hx hy
      have := nodes_unique t _ _ (ok.depth e he t ht) _ hx _ hy rfl
      simp only [Prod.mk.injEq] at this
      exact ⟨this.2.1, this.2.2⟩
  · -- root_node
    rintro ρ ⟨e, he, rfl⟩
    cases ht : e.2 with
    | none => exact ⟨zero, false, mem_nodes.2 ⟨e, he, by unfold entryNodes; rw [ht]; simp⟩⟩
    | some t => exact ⟨t.hash, isLeaf t, mem_nodes.2 ⟨e, he, by unfold entryNodes; rw [ht]; exact nodes_head t _ _⟩⟩
  · -- under_root
    intro q h b hq
    obtain ⟨e, he, hx⟩ := mem_nodes.1 hq
    exact ⟨e.1, ⟨e, he, rfl⟩, entry_anc ok he hx⟩
  · -- root_disj
    rintro ρ ρ' q ⟨e, he, rfl⟩ ⟨e', he', rfl⟩ h1 h2
    rw [ok.disj e he e' he' q h1 h2]
  · -- parent_node
    intro q h b hq hnr
    obtain ⟨e, he, hx⟩ := mem_nodes.1 hq
    have hne : q ≠ e.1 := fun e' => hnr ⟨e, he, e'.symm⟩
    unfold entryNodes at hx
    cases ht : e.2 with
    | none =>
      rw [ht] at hx
      simp only [List.mem_singleton, Prod.mk.injEq] at hx
      exact absurd hx.1 hne
    | some t =>
      rw [ht] at hx
      obtain ⟨⟨a, b', hp⟩, _⟩ := ctree_parent_sib t _ _ (ok.depth e he t ht) _ hx hne
      exact ⟨_, mem_nodes.2 ⟨e, he, by unfold entryNodes; rw [ht]; exact hp⟩, nz.nonzero _ _⟩
  · -- sib_node
    intro q h b hq hnr
    obtain ⟨e, he, hx⟩ := mem_nodes.1 hq
    have hne : q ≠ e.1 := fun e' => hnr ⟨e, he, e'.symm⟩
    unfold entryNodes at hx
    cases ht : e.2 with
    | none =>
      rw [ht] at hx
      simp only [List.mem_singleton, Prod.mk.injEq] at hx
      exact absurd hx.1 hne
    | some t =>
      rw [ht] at hx
      obtain ⟨_, ⟨h', b', hp⟩⟩ := ctree_parent_sib t _ _ (ok.depth e he t ht) _ hx hne
      exact ⟨h', b', mem_nodes.2 ⟨e, he, by unfold entryNodes; rw [ht]; exact hp⟩⟩
  · -- leaf_below
    intro t x q h b ht hq ha
    obtain ⟨e, he, hx⟩ := mem_nodes.1 ht
    obtain ⟨e', he', hy⟩ := mem_nodes.1 hq
    have := ok.disj e he e' he' q (Anc.trans (entry_anc ok he hx) ha) (entry_anc ok he' hy)
    subst this
    unfold entryNodes at hx hy
    cases hT : e.2 with
    | none =>
      rw [hT] at hx
      simp only [List.mem_singleton, Prod.mk.injEq] at hx
      exact absurd hx.2.2 (by simp)
    | some T =>
      rw [hT] at hx hy
      have := MapProve.nodes_leaf_antichain T _ _ (ok.depth e he T hT) _ hx rfl _ hy (MapProve.anc_iff_under.1 ha)
      exact congrArg Prod.fst this
  · -- zero_root
    intro q b hq
    obtain ⟨e, he, hx⟩ := mem_nodes.1 hq
    have hxx := hx
    unfold entryNodes at hx
    cases hT : e.2 with
    | some T =>
      rw [hT] at hx
      exact absurd rfl (ctree_hash_ne_zero nz T (fun x hx => ok.nz x (hleafsub e he T hT x hx)) _ _ _ hx)
    | none =>
      rw [hT] at hx
      simp only [List.mem_singleton, Prod.mk.injEq] at hx
      obtain ⟨h1, _, h3⟩ := hx
      refine ⟨⟨e, he, h1.symm⟩, h3, ?_⟩
      intro q' h' b' hq' ha
      obtain ⟨e', he', hy⟩ := mem_nodes.1 hq'
      have := ok.disj e he e' he' q' (by rw [← h1]; exact ha) (entry_anc ok he' hy)
      subst this
      unfold entryNodes at hy
      rw [hT] at hy
      simp only [List.mem_singleton, Prod.mk.injEq] at hy
      rw [hy.1, h1]
  · -- leaf_hash
    intro t x q b ht hq
    obtain ⟨e, he, hx⟩ := mem_nodes.1 ht
    obtain ⟨e', he', hy⟩ := mem_nodes.1 hq
    unfold entryNodes at hx hy
    cases hT : e.2 with
    | none =>
      rw [hT] at hx
      simp only [List.mem_singleton, Prod.mk.injEq] at hx
      exact absurd hx.2.2 (by simp)
    | some T =>
      rw [hT] at hx
      have hxl : x ∈ T.leaves := nodes_leaf_mem T _ _ _ hx rfl
      have hxV := hleafsub e he T hT x hxl
      cases hT' : e'.2 with
      | none =>
        rw [hT'] at hy
        simp only [List.mem_singleton, Prod.mk.injEq] at hy
        exact absurd hy.2.1 (ok.nz x hxV)
      | some T' =>
        rw [hT'] at hy
        have hxl' : x ∈ T'.leaves := ctree_entry_leaf T' _ _ _ hy (ok.nph x hxV)
        have hee : e = e' := Spec.flatMap_nodup_common _ _ ok.nodup e he e' he' x
          (by rw [hT]; exact hxl) (by rw [hT']; exact hxl')
        subst hee
        rw [hT] at hT'
        cases hT'
        have hndT : T.leaves.Nodup := by
          have := Spec.flatMap_nodup_block _ _ ok.nodup e he
          rwa [hT] at this
        have := CTree.nodes_leaf_hash_unique T hndT (fun y hy' => ok.nph y (hleafsub e he T hT y hy')) _ _ _ _ hx hy rfl rfl
        exact (congrArg Prod.fst this).symm

  · -- inner_hash
    intro q h hq hnz
    obtain ⟨e, he, hx⟩ := mem_nodes.1 hq
    unfold entryNodes at hx
    cases hT : e.2 with
    | none =>
      rw [hT] at hx
      simp only [List.mem_singleton, Prod.mk.injEq] at hx
      exact absurd hx.2.1 hnz
    | some T =>
      rw [hT] at hx
      have hrow := ctree_internal_row T _ _ (ok.depth e he T hT) _ hx rfl
      obtain ⟨a, b, h1, h2, h3⟩ := nodes_internal T _ _ _ hx rfl
      refine ⟨hrow, a.hash, b.hash, isLeaf a, isLeaf b, ?_, ?_, h1⟩
      · exact mem_nodes.2 ⟨e, he, by unfold entryNodes; rw [hT]; exact h2⟩
      · exact mem_nodes.2 ⟨e, he, by unfold entryNodes; rw [hT]; exact h3⟩

  · -- has_leaf
    intro q h b hq hnz
    obtain ⟨e, he, hx⟩ := mem_nodes.1 hq
    unfold entryNodes at hx
    cases hT : e.2 with
    | none =>
      rw [hT] at hx
      simp only [List.mem_singleton, Prod.mk.injEq] at hx
      exact absurd hx.2.1 hnz
    | some T =>
      rw [hT] at hx
      obtain ⟨y, hy, hl, ha⟩ := ctree_has_leaf T _ _ (ok.depth e he T hT) _ hx
      obtain ⟨⟨t1, t2⟩, x, fl⟩ := y
      simp only at hl ha
      subst hl
      exact ⟨(t1, t2), x, mem_nodes.2 ⟨e, he, by unfold entryNodes; rw [hT]; exact hy⟩, ha⟩

/-- leaf entries ↔ leaves -/
theorem leaf_entry_mem {V : PF H} {t : Pos} {x : H} (h : (t, x, true) ∈ nodes V) : x ∈ leaves V := by
  obtain ⟨e, he, hx⟩ := mem_nodes.1 h
  unfold entryNodes at hx
  cases hT : e.2 with
  | none =>
    rw [hT] at hx
    simp only [List.mem_singleton, Prod.mk.injEq] at hx
    exact absurd hx.2.2 (by simp)
  | some T =>
    rw [hT] at hx
    exact List.mem_flatMap.2 ⟨e, he, by rw [hT]; exact nodes_leaf_mem T _ _ _ hx rfl⟩

theorem exists_leaf_entry {V : PF H} {x : H} (h : x ∈ leaves V) : ∃ t, (t, x, true) ∈ nodes V := by
  obtain ⟨e, he, hx⟩ := List.mem_flatMap.1 h
  cases hT : e.2 with
  | none => rw [hT] at hx; simp [optLeaves] at hx
  | some T =>
    rw [hT] at hx
    obtain ⟨p, hp⟩ := ctree_leaf_entry T e.1.1 e.1.2 x hx
    exact ⟨p, mem_nodes.2 ⟨e, he, by unfold entryNodes; rw [hT]; exact hp⟩⟩

end UtreexoVerif.Proofs.PForest
