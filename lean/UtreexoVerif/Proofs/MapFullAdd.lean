/-
  `MapPollard.addSingle` / `add` on a FULL map forest preserve `FInv`:
    * Layer 1 (what the model does on the abstract state) is shared with the partial forests
      (`Proofs/MapAddRep.lean`, generalised over the `full` flag; the start of `addSingle` for
      `full = true` is below);
    * Layer 2 (`fstep0`, `fstepA`, `flift`): the full image `FA` across one step;
    * the specification side (`Proofs/PForestAdd.lean`) is shared.
  In a full forest the added leaf is remembered whatever its `Remember` flag says, every inner
  node carries the flag, and `pruneNieces` removes nothing.
-/
import UtreexoVerif.Proofs.MapFull
import UtreexoVerif.Proofs.MapAddMerge

namespace UtreexoVerif.Proofs.MapFullAdd
open UtreexoVerif Model Spec Spec.Forest Proofs MapAL MapInv MapPrune MapRep MapLiftGeo PForest MapAInv MapLiftCore
open MapAddSteps MapAddRep PForestAdd PForestSpec SpecNodes MapSInv MapAddMerge MapFull Hasher
set_option linter.unusedSectionVars false
set_option linter.unusedVariables false

variable {H : Type} [DecidableEq H] [Hasher H]
variable {A : Pos → Option (Leaf H)} {C : H → Option Pos} {N N' : List (Pos × H × Bool)} {P : H → Prop}

/-! ### Layer 2: the full image across the steps -/

/-- step 0: a new leaf entry at a fresh position -/
theorem fstep0 (fa : FA A C N P) {t0 : Pos} {x : H}
    (hN' : ∀ e, e ∈ N' ↔ e ∈ N ∨ e = (t0, x, true))
    (hpos : ∀ q h b, (q, h, b) ∈ N → q ≠ t0) (hxN : ∀ q b, (q, x, b) ∉ N) (hPx : ¬ P x) :
    FA (upd A t0 (some ⟨x, true⟩)) (upd C x (some t0)) N' P where
  dom := by
    intro q l hl
    rw [upd_apply] at hl
    split at hl
    · rename_i e
      subst e
      exact ⟨x, true, (hN' _).2 (Or.inr rfl)⟩
    · obtain ⟨h, b, hm⟩ := fa.dom q l hl
      exact ⟨h, b, (hN' _).2 (Or.inl hm)⟩
  sto := by
    intro q h b hm
    rcases (hN' _).1 hm with hm' | hm'
    · rw [upd_ne _ _ (hpos q h b hm')]; exact fa.sto q h b hm'
    · simp only [Prod.mk.injEq] at hm'
      obtain ⟨rfl, rfl, _⟩ := hm'
      rw [upd_self]
  cdom := by
    intro y t hy
    rw [upd_apply] at hy
    split at hy
    · rename_i e
      subst e
      exact ⟨hPx, t0, (hN' _).2 (Or.inr rfl)⟩
    · obtain ⟨hp, t', hm⟩ := fa.cdom y t hy
      exact ⟨hp, t', (hN' _).2 (Or.inl hm)⟩
  csto := by
    intro t y hm hp
    rcases (hN' _).1 hm with hm' | hm'
    · have hne : y ≠ x := by rintro rfl; exact hxN t true hm'
      rw [upd_ne _ _ hne]; exact fa.csto t y hm' hp
    · simp only [Prod.mk.injEq] at hm'
      obtain ⟨rfl, rfl, _⟩ := hm'
      rw [upd_self]

/-- step A: a new inner node at a fresh position -/
theorem fstepA (fa : FA A C N P) {p : Pos} {h : H}
    (hN' : ∀ e, e ∈ N' ↔ e = (p, h, false) ∨ e ∈ N) (hfresh : ∀ h' f, (p, h', f) ∉ N) :
    FA (upd A p (some ⟨h, true⟩)) C N' P where
  dom := by
    intro q l hl
    rw [upd_apply] at hl
    split at hl
    · rename_i e
      subst e
      exact ⟨h, false, (hN' _).2 (Or.inl rfl)⟩
    · obtain ⟨h', b, hm⟩ := fa.dom q l hl
      exact ⟨h', b, (hN' _).2 (Or.inr hm)⟩
  sto := by
    intro q h' b hm
    rcases (hN' _).1 hm with hm' | hm'
    · simp only [Prod.mk.injEq] at hm'
      obtain ⟨rfl, rfl, _⟩ := hm'
      rw [upd_self]
    · have hne : q ≠ p := by rintro rfl; exact hfresh h' b hm'
      rw [upd_ne _ _ hne]; exact fa.sto q h' b hm'
  cdom := by
    intro y t hy
    obtain ⟨hp, t', hm⟩ := fa.cdom y t hy
    exact ⟨hp, t', (hN' _).2 (Or.inr hm)⟩
  csto := by
    intro t y hm hp
    rcases (hN' _).1 hm with hm' | hm'
    · simp only [Prod.mk.injEq] at hm'
      exact absurd hm'.2.2 (by simp)
    · exact fa.csto t y hm' hp

/-- **the lift**: the subtree at `σ` replaces its parent, the sibling subtree (all of whose leaves
are pending or absent) disappears -/
theorem flift {R : Pos → Prop} (L : Laws N R) (fa : FA A C N P) {σ : Pos} (hσm : ∃ h b, (σ, h, b) ∈ N)
    (hδ : ∀ t x, (t, x, true) ∈ N → Anc (sib σ) t → P x)
    (hN' : ∀ e : Pos × H × Bool, e ∈ N' ↔ (¬ Anc (parent σ) e.1 ∧ e ∈ N) ∨
      (∃ c, Anc σ c ∧ e.1 = liftP σ c ∧ (c, e.2) ∈ N)) :
    FA (liftAll σ A) (liftCAll σ C) N' P := by
  obtain ⟨hσ, bσ, hσN⟩ := hσm
  have hPσ : Anc (parent σ) σ := anc_parent_self σ
  have mem_out : ∀ z h b, ¬ Anc (parent σ) z → ((z, h, b) ∈ N' ↔ (z, h, b) ∈ N) := by
    intro z h b hz
    rw [hN']
    constructor
    · rintro (⟨_, hm⟩ | ⟨c, hc, he, _⟩)
      · exact hm
      · exact absurd (by rw [show z = liftP σ c from he]; exact anc_parent_liftP hc) hz
    · intro hm; exact Or.inl ⟨hz, hm⟩
  have mem_lift : ∀ c h b, Anc σ c → ((liftP σ c, h, b) ∈ N' ↔ (c, h, b) ∈ N) := by
    intro c h b hc
    rw [hN']
    constructor
    · rintro (⟨hn, _⟩ | ⟨c', hc', he, hm⟩)
      · exact absurd (anc_parent_liftP hc) hn
      · have : c = c' := liftP_inj hc hc' he
        subst this; exact hm
    · intro hm; exact Or.inr ⟨c, hc, rfl, hm⟩
  have leaf_ne_P : ∀ x t, (t, x, true) ∈ N → t ≠ parent σ := by
    rintro x t ht rfl
    have h0 := L.leaf_below _ x σ hσ bσ ht hσN hPσ
    have h1 : σ.1 = (parent σ).1 := congrArg Prod.fst h0
    have h2 : (parent σ).1 = σ.1 + 1 := rfl
    omega
  refine { dom := ?_, sto := ?_, cdom := ?_, csto := ?_ }
  · intro q l hl
    rcases pos_cases σ q with rfl | ⟨hs, h0⟩ | ⟨c, hc, rfl⟩ | hout
    · rw [liftAll_P] at hl
      obtain ⟨b, hb⟩ := fa.mem hl
      refine ⟨l.hash, b, ?_⟩
      rw [← liftP_self]; exact (mem_lift σ _ _ (Anc.refl σ)).2 hb
    · rw [liftAll_row0 hs h0] at hl; cases hl
    · rw [liftAll_lift hc] at hl
      obtain ⟨b, hb⟩ := fa.mem hl
      exact ⟨_, b, (mem_lift c _ _ hc.1).2 hb⟩
    · rw [liftAll_out hout] at hl
      obtain ⟨b, hb⟩ := fa.mem hl
      exact ⟨_, b, (mem_out q _ _ hout).2 hb⟩
  · intro q h b hm
    rcases (hN' _).1 hm with ⟨hout, hmN⟩ | ⟨c, hc, he, hmN⟩
    · rw [liftAll_out hout]; exact fa.sto q h b hmN
    · simp only at he hmN
      subst he
      by_cases hcσ : c = σ
      · subst hcσ
        rw [liftP_self, liftAll_P]; exact fa.sto c h b hmN
      · have hcs : SUnder σ c := ⟨hc, by
          have := hc.1
          have hr : c.1 ≠ σ.1 := fun e => hcσ (hc.eq_of_row e.symm).symm
          omega⟩
        rw [liftAll_lift hcs]; exact fa.sto c h b hmN
  · intro x t' h
    unfold liftCAll at h
    cases hC : C x with
    | none => rw [hC] at h; cases h
    | some t =>
      rw [hC] at h
      simp only [Option.map_some, Option.some.injEq] at h
      have hm := fa.cpos hC
      refine ⟨fa.notP hC, ?_⟩
      by_cases hσt : Anc σ t
      · exact ⟨liftP σ t, (mem_lift t x true hσt).2 hm⟩
      · have hout : ¬ Anc (parent σ) t := by
          intro hu
          rcases anc_parent_iff'.1 hu with e | e | e
          · exact leaf_ne_P x t hm e
          · exact hσt e
          · exact fa.notP hC (hδ t x hm e)
        exact ⟨t, (mem_out t x true hout).2 hm⟩
  · intro t' x hm hp
    unfold liftCAll
    rcases (hN' _).1 hm with ⟨hout, hmN⟩ | ⟨c, hc, he, hmN⟩
    · rw [fa.csto t' x hmN hp]
      simp only [Option.map_some, Option.some.injEq]
      rw [if_neg (fun h => hout (Anc.trans hPσ h))]
    · simp only at he hmN
      subst he
      rw [fa.csto c x hmN hp]
      simp only [Option.map_some, Option.some.injEq]
      rw [if_pos hc]

/-! ### the cache update of the empty-root branch -/

theorem cacheUp_eq_full {R : Pos → Prop} (L : Laws N R) (hcp : ∀ x t, C x = some t → (t, x, true) ∈ N)
    {σ Pp : Pos} {a : CTree H} {add pNode : Leaf H}
    (hσa : (σ, a.hash, isLeaf a) ∈ N) (hp : pNode.hash = a.hash)
    (hax : ∀ y, a = .leaf y → y = add.hash) (hrem : add.remember = true) (y : H) :
    cacheUp add pNode Pp C y = if C y = some σ then some Pp else C y := by
  have key : ∀ y, C y = some σ → y = add.hash ∧ a.hash = add.hash := by
    intro y hy
    have hm := hcp y σ hy
    obtain ⟨e1, e2⟩ := L.func _ _ _ _ _ hm hσa
    have := hax _ (isLeaf_eq e2.symm)
    exact ⟨e1.trans this, this⟩
  unfold cacheUp
  by_cases hcond : add.remember = true ∧ pNode.hash = add.hash
  · rw [if_pos hcond]
    by_cases hs : (C add.hash).isSome = true
    · rw [if_pos hs]
      obtain ⟨t, ht⟩ := Option.isSome_iff_exists.1 hs
      have hm := hcp _ t ht
      have hσx : (σ, add.hash, isLeaf a) ∈ N := by rw [← hcond.2, hp]; exact hσa
      have hts : σ = t := L.leaf_hash t add.hash σ _ hm hσx
      subst hts
      rw [upd_apply]
      by_cases hy : y = add.hash
      · subst hy; rw [if_pos rfl, if_pos ht]
      · rw [if_neg hy, if_neg (fun h => hy (key y h).1)]
    · rw [if_neg hs]
      rw [if_neg]
      intro h
      obtain ⟨e, _⟩ := key y h
      subst e
      rw [h] at hs; exact hs rfl
  · rw [if_neg hcond, if_neg]
    intro h
    obtain ⟨e, e2⟩ := key y h
    subst e
    apply hcond
    exact ⟨hrem, hp.trans e2⟩

/-! ### the loop -/

/-- **the merging loop of `addSingle` on a full forest**, by induction on the low trees still to be
merged -/
theorem faddLoop_spec (nz : NZ H) {T n : Nat} (add : Leaf H) (Y : PF H)
    (hn63 : n + 1 < 2 ^ 63) (hfit : forestRows (n + 1) ≤ T) (hremA : add.remember = true) :
    ∀ (os : List (Option (CTree H))) (k : Nat) (a : CTree H) (m : MapPollard H)
      (A : Pos → Option (Leaf H)) (C : H → Option Pos) (pNode : Leaf H) (fuel : Nat),
      Rep m T A C → m.numLeaves = BitVec.ofNat 64 n → m.full = true →
      OK (accV n k Y os a) →
      FA A C (PForest.nodes (accV n k Y os a)) (fun _ => False) →
      (∀ i, i < os.length → n.testBit (k + i) = true) → n.testBit (k + os.length) = false →
      k + os.length ≤ 63 → os.length < fuel →
      A (k, n >>> k) = some pNode →
      (∀ y, a = .leaf y → y = add.hash) →
      ∃ m' A' C', MapPollard.addLoop add (H8 T) fuel (H8 k) (encP T (k, n >>> k)) pNode m = (m', .ok ()) ∧
        Rep m' T A' C' ∧ m'.numLeaves = m.numLeaves ∧ m'.full = true ∧
        FA A' C' (PForest.nodes (Y ++ [((k + os.length, n >>> (k + os.length)), some (mergeLow os a))]))
          (fun _ => False)
  | [], k, a, m, A, C, pNode, fuel, rep, hn, hfull, ok, fa, hbits, hbit, hk, hfuel, hA, hax => by
    obtain ⟨f, rfl⟩ : ∃ f, fuel = f + 1 := ⟨fuel - 1, by simp at hfuel; omega⟩
    refine ⟨m, A, C, ?_, rep, rfl, hfull, ?_⟩
    · exact addLoop_done hn (by omega) (by simpa using hk) (by simpa using hbit) add (H8 T) f _ pNode
    · have e : accV n k Y [] a = Y ++ [((k + ([] : List (Option (CTree H))).length, n >>> (k + ([] : List (Option (CTree H))).length)), some (mergeLow [] a))] := by
        simp [accV, lowV, mergeLow]
      rw [← e]; exact fa
  | o :: os, k, a, m, A, C, pNode, fuel, rep, hn, hfull, ok, fa, hbits, hbit, hk, hfuel, hA, hax => by
    obtain ⟨f, rfl⟩ : ∃ f, fuel = f + 1 := ⟨fuel - 1, by simp at hfuel; omega⟩
    have hbk : n.testBit k = true := by have := hbits 0 (by simp); simpa using this
    obtain ⟨hρσ, heven, hPσ, hPρ⟩ := acc_geo hbk
    rw [accV_cons] at ok fa
    have hlen : (o :: os).length = os.length + 1 := rfl
    have hbits' : ∀ i, i < os.length → n.testBit (k + 1 + i) = true := by
      intro i hi
      have := hbits (i + 1) (by rw [hlen]; omega)
      rwa [show k + (i + 1) = k + 1 + i by omega] at this
    have hbit' : n.testBit (k + 1 + os.length) = false := by
      rwa [hlen, show k + (os.length + 1) = k + 1 + os.length by omega] at hbit
    have hk' : k + 1 + os.length ≤ 63 := by rw [hlen] at hk; omega
    have hfuel' : os.length < f := by rw [hlen] at hfuel; omega
    rw [hlen, show k + (os.length + 1) = k + 1 + os.length by omega]
    have L := laws_of_ok nz ok
    have hσent : ((k, n >>> k), some a) ∈ (Y ++ lowV n (k + 1) os) ++ [(rootPos n k, o), ((k, n >>> k), some a)] := by simp
    have hρent : (rootPos n k, o) ∈ (Y ++ lowV n (k + 1) os) ++ [(rootPos n k, o), ((k, n >>> k), some a)] := by simp
    have hσa := head_some hσent
    have hp : pNode.hash = a.hash := by
      obtain ⟨b, hb⟩ := fa.mem hA
      exact (L.func _ _ _ _ _ hb hσa).1
    cases o with
    | some tr =>
      -- step A
      have htr := head_some hρent
      have hnode : A (rootPos n k) = some ⟨tr.hash, true⟩ := fa.sto _ _ _ htr
      have hnz : (⟨tr.hash, true⟩ : Leaf H).hash ≠ zero := by
        exact ctree_hash_ne_zero nz tr (fun x hx => ok.nz x (List.mem_flatMap.2 ⟨_, hρent, hx⟩)) 0 0 _
          (nodes_head tr 0 0)
      obtain ⟨m', hstep, rep', hnl', hfull'⟩ := addLoop_step_nonempty rep hn hn63 hfit hfull hbk hnode hnz add pNode f
      simp only at rep' hstep
      rw [hp] at rep' hstep
      rw [hstep]
      have hσρ : (k, n >>> k) = sib (rootPos n k) := by rw [hρσ, sib_sib]
      rw [← hPρ] at rep' ⊢
      generalize rootPos n k = ρ at *
      generalize (k, n >>> k) = σ at *
      subst hσρ
      obtain ⟨ok', hN', hR', hfresh⟩ := stepA_pf (Y ++ lowV n (k + 1) os) ρ tr a heven ok
      have fa' := fstepA (A := A) (C := C) fa (p := parent ρ) (h := ph tr.hash a.hash) hN' hfresh
      have eprune : pruneA (upd A (parent ρ) (some ⟨ph tr.hash a.hash, true⟩)) ρ =
          upd A (parent ρ) (some ⟨ph tr.hash a.hash, true⟩) := pruneA_id (fun q l h => fa'.flag h) ρ
      rw [eprune] at rep'
      have hAP : upd A (parent ρ) (some (⟨ph tr.hash a.hash, true⟩ : Leaf H)) (parent ρ) =
          some ⟨ph tr.hash a.hash, true⟩ := upd_self _ _ _
      rw [hPρ] at fa' ok' rep' hAP ⊢
      rw [accV_next] at fa' ok'
      obtain ⟨m'', A'', C'', hloop, rep'', hnl'', hfull'', fa''⟩ :=
        faddLoop_spec nz add Y hn63 hfit hremA os (k + 1) (.node tr a) m' _ C _ f rep' (hnl'.trans hn)
          (hfull'.trans hfull) ok' fa' hbits' hbit' hk' hfuel' hAP (fun y hy => by cases hy)
      exact ⟨m'', A'', C'', hloop, rep'', hnl''.trans hnl', hfull'', fa''⟩
    | none =>
      -- step B
      have hρN := head_none hρent
      have hnode : A (rootPos n k) = some ⟨zero, true⟩ := fa.sto _ _ _ hρN
      obtain ⟨hρroot, _, hρbelow⟩ := L.zero_root _ false hρN
      have hcp : ∀ x t, C x = some t → (t, x, true) ∈ PForest.nodes
          ((Y ++ lowV n (k + 1) os) ++ [(rootPos n k, none), ((k, n >>> k), some a)]) := fun x t h => fa.cpos h
      have hcu := cacheUp_eq_full (Pp := (k + 1, n >>> (k + 1))) L hcp hσa hp hax hremA
      have h3 : ∀ q, SUnder (rootPos n k) q → A q = none := by
        intro q hq
        cases hAq : A q with
        | none => rfl
        | some l =>
          obtain ⟨b, hb⟩ := fa.mem hAq
          have := hρbelow q _ b hb hq.1
          have h2 := hq.2; rw [this] at h2; omega
      have hc : ∀ c v, SUnder (k, n >>> k) c → A c = some v →
          ∀ t, cacheUp add pNode (k + 1, n >>> (k + 1)) C v.hash = some t → t = c := by
        intro c v hcs hAc t ht
        obtain ⟨b, hb⟩ := fa.mem hAc
        rw [hcu] at ht
        split at ht
        · rename_i hCσ
          have hm := fa.cpos hCσ
          have := L.leaf_hash _ _ c b hm hb
          have h2 := hcs.2; rw [this] at h2; omega
        · have hm := fa.cpos ht
          exact (L.leaf_hash _ _ c b hm hb).symm
      have hc2 : ∀ x t, cacheUp add pNode (k + 1, n >>> (k + 1)) C x = some t → SUnder (k, n >>> k) t →
          ∃ v, A t = some v ∧ v.hash = x := by
        intro x t ht hts
        rw [hcu] at ht
        split at ht
        · simp only [Option.some.injEq] at ht
          subst ht
          have h2 : k + 1 < k := hts.2
          omega
        · have hm := fa.cpos ht
          exact ⟨_, fa.sto t x true hm, rfl⟩
      obtain ⟨m', hstep, rep', hnl', hfull'⟩ :=
        addLoop_step_empty rep hn hn63 hfit hfull hbk hnode rfl add pNode f h3 hc hc2
      rw [hstep]
      have e : cacheUp add pNode (k + 1, n >>> (k + 1)) C =
          fun y => if C y = some (k, n >>> k) then some (parent (k, n >>> k)) else C y := by
        funext y; rw [hcu, hPσ]
      rw [e] at rep'
      rw [← hPσ] at rep' ⊢
      generalize (k, n >>> k) = σ at *
      generalize rootPos n k = ρ at *
      subst hρσ
      obtain ⟨ok', hN', hR'⟩ := stepB_pf (Y ++ lowV n (k + 1) os) σ a ok
      have hδ : ∀ t x, (t, x, true) ∈ PForest.nodes ((Y ++ lowV n (k + 1) os) ++ [(sib σ, none), (σ, some a)]) →
          Anc (sib σ) t → False := by
        intro t x hm ha
        have := hρbelow t x true hm ha
        subst this
        have := (L.func _ _ _ _ _ hm hρN).2
        cases this
      have fa' := flift (A := A) (C := C) L fa ⟨_, _, hσa⟩ hδ hN'
      have rep2 : Rep m' T (liftAll σ A) (liftCAll σ C) := by
        have e1 : pruneA (liftAll σ A) (sib σ) = liftAll σ A := pruneA_id (fun q l h => fa'.flag h) (sib σ)
        refine rep'.congr ?_ ?_
        · intro q
          have : liftAll σ A = upd (liftA σ (upd (upd A (sib σ) none) σ none)) (parent σ) (some pNode) := by
            funext q'; exact (liftAll_eq hA q').symm
          rw [← this, e1]
        · intro x; rw [liftC_eq]
      have hAP : liftAll σ A (parent σ) = some pNode := by rw [liftAll_P, hA]
      rw [hPσ] at fa' ok' hAP ⊢
      rw [accV_next] at fa' ok'
      obtain ⟨m'', A'', C'', hloop, rep'', hnl'', hfull'', fa''⟩ :=
        faddLoop_spec nz add Y hn63 hfit hremA os (k + 1) a m' _ _ pNode f rep2 (hnl'.trans hn)
          (hfull'.trans hfull) ok' fa' hbits' hbit' hk' hfuel' hAP hax
      exact ⟨m'', A'', C'', hloop, rep'', hnl''.trans hnl', hfull'', fa''⟩

/-! ### the start of `addSingle` on a full forest -/

theorem addSingle_of_remap_full {m m0 : MapPollard H} {tr : U8} (a : Leaf H)
    (h : MapPollard.remap m = (m0, .ok tr)) (hfull : m0.full = true) :
    MapPollard.addSingle a m =
      MapPollard.addLoop ⟨a.hash, true⟩ tr 65 0#8 m0.numLeaves ⟨a.hash, true⟩
        ((m0.putNode m0.numLeaves ⟨a.hash, true⟩).putCached a.hash m0.numLeaves) := by
  unfold MapPollard.addSingle
  rw [h]
  simp only [hfull, if_true]

theorem start_core_full {m0 : MapPollard H} {T : Nat} (rep : Rep m0 T A C) {q : Pos} (hv : Valid T q) (x : H) :
    Rep ((m0.putNode (encP T q) ⟨x, true⟩).putCached x (encP T q)) T
        (upd A q (some ⟨x, true⟩)) (upd C x (some q)) :=
  (rep.putNode hv ⟨x, true⟩).putCached x hv

theorem addSingle_start_full {m : MapPollard H} {T n : Nat}
    (rep : Rep m T A C) (hn : m.numLeaves = BitVec.ofNat 64 n) (hn63 : n + 1 < 2 ^ 63)
    (hfit : forestRows (n + 1) ≤ T) (hfull : m.full = true) (a : Leaf H) :
    ∃ m1, MapPollard.addSingle a m =
        MapPollard.addLoop ⟨a.hash, true⟩ (H8 T) 65 0#8 (encP T (0, n)) ⟨a.hash, true⟩ m1 ∧
      Rep m1 T (upd A (0, n) (some ⟨a.hash, true⟩)) (upd C a.hash (some (0, n))) ∧
      m1.numLeaves = m.numLeaves ∧ m1.full = m.full := by
  have hv : Valid T (0, n) := by
    have h2 := SpecView.le_two_pow_forestRows (n + 1)
    have h3 : 2 ^ forestRows (n + 1) ≤ 2 ^ T := two_pow_le_of_le hfit
    exact ⟨Nat.zero_le _, by show n < 2 ^ (T - 0); rw [Nat.sub_zero]; omega⟩
  have rep1 := start_core_full rep hv a.hash
  rw [addSingle_of_remap_full a (MapRemap.remap_noop rep.rows rep.T_le hn hn63 hfit) hfull, numLeaves_enc T hn]
  exact ⟨_, rfl, rep1, numLeaves_enc T hn, rfl⟩

theorem addSingle_start_grow_full {m : MapPollard H} {T n : Nat}
    (rep : Rep m T A C) (hn : m.numLeaves = BitVec.ofNat 64 n) (hn63 : n + 1 < 2 ^ 63)
    (hfitOld : forestRows n ≤ T) (hgrow : T < forestRows (n + 1)) (hfull : m.full = true) (a : Leaf H) :
    ∃ m1, MapPollard.addSingle a m =
        MapPollard.addLoop ⟨a.hash, true⟩ (H8 (T + 1)) 65 0#8 (encP (T + 1) (0, n)) ⟨a.hash, true⟩ m1 ∧
      Rep m1 (T + 1) (upd A (0, n) (some ⟨a.hash, true⟩)) (upd C a.hash (some (0, n))) ∧
      m1.numLeaves = m.numLeaves ∧ m1.full = m.full := by
  obtain ⟨en, efr⟩ := MapRemap.n_eq_pow hfitOld hgrow
  obtain ⟨m0, e0, rep0, g1, g2⟩ := MapRemap.remap_grow' rep hn hn63 hfitOld hgrow
  have hv : Valid (T + 1) (0, n) := by
    refine ⟨Nat.zero_le _, ?_⟩
    show n < 2 ^ (T + 1 - 0)
    rw [Nat.sub_zero, Nat.pow_succ, en]
    have := Nat.two_pow_pos T
    omega
  have rep1 := start_core_full rep0 hv a.hash
  rw [addSingle_of_remap_full a e0 (g2.trans hfull), numLeaves_enc (T + 1) (g1.trans hn)]
  exact ⟨_, rfl, rep1, g1, g2⟩

/-! ### one addition -/

/-- the core of `addSingle` once the leaf has been stored (any allocation `T ≥ TreeRows(n+1)`) -/
theorem faddSingle_core (nz : NZ H) {m1 : MapPollard H} {F : Forest H} {T : Nat} (x : H)
    (hn : F.numLeaves + 1 < 2 ^ 63) (hy : Hyg F) (hfit : forestRows (F.numLeaves + 1) ≤ T)
    (fa : FA A C F.nodes (fun _ => False))
    (rep1 : Rep m1 T (upd A (0, F.numLeaves) (some ⟨x, true⟩)) (upd C x (some (0, F.numLeaves))))
    (hnl : m1.numLeaves = BitVec.ofNat 64 F.numLeaves) (hfull : m1.full = true)
    (hfresh : x ∉ F.liveLeaves) (hx0 : x ≠ zero) (hxph : ∀ u v : H, x ≠ ph u v) :
    ∃ m2 A2 C2, MapPollard.addLoop ⟨x, true⟩ (H8 T) 65 0#8 (encP T (0, F.numLeaves)) ⟨x, true⟩ m1 = (m2, .ok ()) ∧
      Rep m2 T A2 C2 ∧ m2.numLeaves = m1.numLeaves ∧ m2.full = true ∧
      FA A2 C2 (F.add x).nodes (fun _ => False) := by
  have hn64 : F.numLeaves < 2 ^ 64 := by omega
  -- step 0
  obtain ⟨ok0, hnodes0⟩ := step0_pf F x (by omega) hy hfresh hx0 hxph
  have hN0 : ∀ e, e ∈ PForest.nodes (ofForest F ++ [((0, F.numLeaves), some (CTree.leaf x))]) ↔
      e ∈ F.nodes ∨ e = ((0, F.numLeaves), x, true) := by
    intro e; rw [hnodes0, List.mem_append, List.mem_singleton]
  have hpos : ∀ q h b, (q, h, b) ∈ F.nodes → q ≠ (0, F.numLeaves) := by
    rintro q h b hm rfl
    have h1 := MapAdd.node_lt hm
    simp only at h1
    omega
  have hxN : ∀ q b, (q, x, b) ∉ F.nodes := by
    intro q b hm
    rw [← nodes_ofForest] at hm
    have := hash_leaf_mem hm hx0 hxph
    rw [leaves_ofForest F hn64] at this
    exact hfresh this
  have fa0 := fstep0 (x := x) fa hN0 hpos hxN (fun h => h)
  -- decomposition
  obtain ⟨t, c, htc⟩ := exists_trailing_ones F.numLeaves
  have ht63 := trailing_le_63 htc (by omega)
  obtain ⟨Y, os, hlen, hdec, hdec', hbits, hbit⟩ := add_decomp F x htc ht63
  have hV0 : ofForest F ++ [((0, F.numLeaves), some (CTree.leaf x))] = accV F.numLeaves 0 Y os (.leaf x) := by
    unfold accV; rw [hdec, Nat.shiftRight_zero]
  rw [hV0] at ok0 fa0
  have hA0 : upd A (0, F.numLeaves) (some (⟨x, true⟩ : Leaf H)) (0, F.numLeaves >>> 0) = some ⟨x, true⟩ := by
    rw [Nat.shiftRight_zero, upd_self]
  have h8 : (0#8 : U8) = H8 0 := rfl
  have hpos0 : encP T (0, F.numLeaves) = encP T (0, F.numLeaves >>> 0) := by rw [Nat.shiftRight_zero]
  obtain ⟨m2, A2, C2, hloop, rep2, hnl2, hfull2, fa2⟩ :=
    faddLoop_spec nz (⟨x, true⟩ : Leaf H) Y hn hfit rfl os 0 (.leaf x) m1 _ _ ⟨x, true⟩ 65 rep1 hnl hfull ok0 fa0
      (fun i hi => by rw [Nat.zero_add]; exact hbits i (by omega))
      (by rw [Nat.zero_add, hlen]; exact hbit) (by omega) (by omega) hA0
      (fun y hy => by cases hy; rfl)
  rw [Nat.zero_add, hlen, ← hdec', nodes_ofForest] at fa2
  refine ⟨m2, A2, C2, ?_, rep2, hnl2, hfull2, fa2⟩
  rw [h8, hpos0]; exact hloop

/-- **`addSingle` on a full forest preserves `FInv`** (merging, lifting over empty roots, and growth
of `TotalRows` included): the new leaf is appended to the specification forest and is cached,
whatever its `Remember` flag -/
theorem finv_addSingle (nz : NZ H) {m : MapPollard H} {F : Forest H} (s : FInv m F) (a : Leaf H)
    (hn : F.numLeaves + 1 < 2 ^ 63) (hfresh : a.hash ∉ F.liveLeaves) (hx0 : a.hash ≠ zero)
    (hxph : ∀ u v : H, a.hash ≠ ph u v) :
    ∃ m', MapPollard.addSingle a m = (m', .ok ()) ∧
      FInv { m' with numLeaves := m'.numLeaves + 1 } (F.add a.hash) := by
  obtain ⟨A, C, rep, fa⟩ := s.abs
  have hrowsF : forestRows F.numLeaves ≤ m.totalRows.toNat := s.rows_le
  obtain ⟨T, m1, hfit, hT63, hstart, rep1, hnl1, hfull1⟩ : ∃ T m1, forestRows (F.numLeaves + 1) ≤ T ∧ T ≤ 63 ∧
      MapPollard.addSingle a m =
        MapPollard.addLoop ⟨a.hash, true⟩ (H8 T) 65 0#8 (encP T (0, F.numLeaves)) ⟨a.hash, true⟩ m1 ∧
      Rep m1 T (upd A (0, F.numLeaves) (some ⟨a.hash, true⟩)) (upd C a.hash (some (0, F.numLeaves))) ∧
      m1.numLeaves = m.numLeaves ∧ m1.full = m.full := by
    by_cases hfit : forestRows (F.numLeaves + 1) ≤ m.totalRows.toNat
    · obtain ⟨m1, h1, h2, h3, h4⟩ := addSingle_start_full rep s.n_eq hn hfit s.full a
      exact ⟨_, m1, hfit, s.total_le, h1, h2, h3, h4⟩
    · obtain ⟨m1, h1, h2, h3, h4⟩ := addSingle_start_grow_full rep s.n_eq hn hrowsF (by omega) s.full a
      have := forestRows_succ_le F.numLeaves
      exact ⟨_, m1, by omega, h2.T_le, h1, h2, h3, h4⟩
  obtain ⟨m2, A2, C2, hloop, rep2, hnl2, hfull2, fa2⟩ :=
    faddSingle_core nz a.hash hn s.hyg hfit fa rep1 (hnl1.trans s.n_eq) (hfull1.trans s.full) hfresh hx0 hxph
  refine ⟨m2, hstart.trans hloop, ?_⟩
  have rep3 : Rep ({ m2 with numLeaves := m2.numLeaves + 1 } : MapPollard H) T A2 C2 :=
    rep2.of_same rfl (fun _ => rfl) (fun _ => rfl)
  refine FInv.of_abs rep3 fa2 (by rw [MapAdd.numLeaves_add]; exact hn) ?_ ?_ hfull2
    (hyg_add s.hyg hfresh hx0 hxph)
  · show m2.numLeaves + 1 = _
    rw [hnl2, hnl1, s.n_eq, MapAdd.numLeaves_add, BitVec.ofNat_add]; rfl
  · show forestRows (F.add a.hash).numLeaves ≤ T
    rw [MapAdd.numLeaves_add]; exact hfit

/-! ### a list of additions -/

/-- **`add` on a full forest preserves `FInv`**: all leaves are appended to the specification
forest, all of them are cached -/
theorem finv_add (nz : NZ H) : ∀ (adds : List (Leaf H)) {m : MapPollard H} {F : Forest H}, FInv m F →
    F.numLeaves + adds.length < 2 ^ 63 →
    (∀ a ∈ adds, a.hash ∉ F.liveLeaves ∧ a.hash ≠ zero ∧ ∀ u v : H, a.hash ≠ ph u v) →
    (adds.map (·.hash)).Nodup →
    ∃ m', MapPollard.add adds m = (m', .ok ()) ∧ FInv m' (F.addMany (adds.map (·.hash)))
  | [], m, F, s, _, _, _ => by
    refine ⟨m, rfl, ?_⟩
    rw [List.map_nil, Spec.addMany_nil]; exact s
  | a :: rest, m, F, s, hn, hfr, hnd => by
    rw [List.length_cons] at hn
    obtain ⟨h1, h2, h3⟩ := hfr a List.mem_cons_self
    obtain ⟨m1, hadd, s1⟩ := finv_addSingle nz s a (by omega) h1 h2 h3
    rw [List.map_cons, List.nodup_cons] at hnd
    have hfr' : ∀ b ∈ rest, b.hash ∉ (F.add a.hash).liveLeaves ∧ b.hash ≠ zero ∧ ∀ u v : H, b.hash ≠ ph u v := by
      intro b hb
      obtain ⟨g1, g2, g3⟩ := hfr b (List.mem_cons_of_mem _ hb)
      refine ⟨?_, g2, g3⟩
      rw [liveLeaves_add, List.mem_append, List.mem_singleton]
      rintro (h | h)
      · exact g1 h
      · exact hnd.1 (by rw [← h]; exact List.mem_map_of_mem hb)
    obtain ⟨m2, hrest, s2⟩ := finv_add nz rest s1 (by rw [MapAdd.numLeaves_add]; omega) hfr' hnd.2
    refine ⟨m2, ?_, ?_⟩
    · unfold MapPollard.add
      rw [hadd]; exact hrest
    · rw [List.map_cons, Spec.addMany_cons]; exact s2

end UtreexoVerif.Proofs.MapFullAdd

section Axioms
open UtreexoVerif.Proofs.MapFullAdd
#print axioms finv_addSingle
#print axioms finv_add
end Axioms
