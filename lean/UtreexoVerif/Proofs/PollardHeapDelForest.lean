/-
  Pointer forest, heap model: `deleteSingle` / `deleteRoot` at forest level.

  * `deleteSingle_mid`: one represented root among others, `NodeMap` clause included;
  * `deleteSingle_absD`: `AbsD p F D`, the position of a non-root node of `F` whose sub-tree `a`
    is to die (`a.leaves ⊆ D`): `deleteSingle` succeeds and the heap represents
    `F.delLeaves a.leaves`;
  * `deleteRoot_absD`: the same for a root position (the tree becomes an empty root).
-/
import UtreexoVerif.Proofs.PollardHeapDelAbs
import UtreexoVerif.Proofs.PollardHeapLookup
set_option linter.unusedSectionVars false
set_option linter.unusedVariables false
set_option linter.unusedSimpArgs false

namespace UtreexoVerif.Proofs.PollardHeap
open UtreexoVerif UtreexoVerif.GoInt UtreexoVerif.Model UtreexoVerif.Model.PollardHeap UtreexoVerif.Spec Hasher
open UtreexoVerif.Model.PollardAbs UtreexoVerif.Proofs.SpecNodes UtreexoVerif.Proofs.SpecSubs
open UtreexoVerif.Proofs.PollardLookup UtreexoVerif.Proofs.SpecView

variable {H : Type} [DecidableEq H] [Hasher H]

theorem Sub.leaf_inv {hp : Heap H} {n h : Nat} {x : H} {fp : List Nat} {lv : List (H × Nat)}
    (s : Sub hp n h (.leaf x) fp lv) : lv = [(x, n)] := by
  cases s; rfl

theorem sub_shape {hp : Heap H} {n h : Nat} {b : CTree H} {fp : List Nat} {lv : List (H × Nat)}
    (s : Sub hp n h b fp lv) :
    (∃ x B, b = .leaf x ∧ lv = [(x, B)]) ∨ (∃ u v, b = CTree.node u v) := by
  cases b with
  | leaf x => exact Or.inl ⟨x, n, rfl, s.leaf_inv⟩
  | node u v => exact Or.inr ⟨u, v, rfl⟩

/-- the key of a removed sub-tree is a deleted leaf or no leaf at all -/
theorem hash_key {lv : List (H × Nat)} {D : List H} (a : CTree H) (hD : ∀ x ∈ a.leaves, x ∈ D)
    (hsep : ∀ e ∈ lv, ∀ u v : H, e.1 ≠ ph u v) : a.hash ∈ D ∨ ∀ e ∈ lv, e.1 ≠ a.hash := by
  cases a with
  | leaf x => exact Or.inl (hD x (by simp [CTree.leaves]))
  | node u v => exact Or.inr (fun e he => hsep e he _ _)

/-- **`deleteSingle` on one root among others**, `NodeMap` clause included -/
theorem deleteSingle_mid {hp : Heap H} {nm : List (H × Nat)} {rs : List Nat} {nl ndl : U64}
    {full : Bool} {root : Nat} {t0 : CTree H} {fp : List Nat} {lk l1 l2 lv : List (H × Nat)}
    {D : List H}
    (hR : RootRepr hp root t0 fp lk) (nd : (root :: fp).Nodup)
    (π1 : List Bool) (d : Bool) (a : CTree H) (hpath : childPath t0 (π1 ++ [d]) = some a)
    (del : U64)
    (hget : ∀ A B, walkChild hp root root (π1 ++ [d]) = some (A, B) →
      ∃ par, getNode (sibling del) ⟨hp, nm, rs, nl, ndl, full⟩ =
        (.ok (some B, some A, par), ⟨hp, nm, rs, nl, ndl, full⟩))
    (hroot : isRootPosition (Parent del (TreeRows nl)) nl = decide (π1 = []))
    (hlv : lv = l1 ++ (lk ++ l2)) (hinv : ∀ e, e ∈ nm ↔ e ∈ lv ∧ e.1 ∉ D)
    (hmk : (nm.map (·.1)).Nodup) (hlk : (lv.map (·.1)).Nodup)
    (hsep : ∀ e ∈ lv, ∀ u v : H, e.1 ≠ ph u v) (hD : ∀ x ∈ a.leaves, x ∈ D) :
    ∃ (hp' : Heap H) (nm' : List (H × Nat)) (t' : CTree H) (fp' : List Nat) (lk' : List (H × Nat)),
      deleteSingle del ⟨hp, nm, rs, nl, ndl, full⟩ = (.ok (), ⟨hp', nm', rs, nl, ndl, full⟩) ∧
      RootRepr hp' root t' fp' lk' ∧ (root :: fp').Nodup ∧ (∀ i ∈ fp', i ∈ fp) ∧
      (∀ j, j ∉ root :: fp → hp'[j]? = hp[j]?) ∧ Spec.prune a.leaves t0 = some t' ∧
      (∀ e, e ∈ nm' ↔ e ∈ l1 ++ (lk' ++ l2) ∧ e.1 ∉ D) ∧ (nm'.map (·.1)).Nodup ∧
      ((l1 ++ (lk' ++ l2)).map (·.1)).Nodup := by
  have hleaves : t0.leaves.Nodup := by
    have e : lk.map (·.1) = t0.leaves := hR.2.leaves
    rw [← e]
    rw [hlv] at hlk
    simp only [List.map_append, List.nodup_append] at hlk
    exact hlk.2.1.1
  cases π1 with
  | nil =>
    -- the parent is the root
    simp only [List.nil_append] at hpath hget
    simp only [decide_true] at hroot
    cases t0 with
    | leaf x => simp [childPath, child] at hpath
    | node x y =>
      obtain ⟨hp', A, B, fa, fb, la, lb, subA, subB, efp, elk, hex, hR', hframe, hsz⟩ :=
        deleteSingle_tree_root d hR nd del hget hroot
      have ea : a = (if d then y else x) := by
        cases d <;> simp [childPath, child] at hpath <;> exact hpath.symm
      have hla : ∀ e ∈ la, e.1 ∈ D := by
        intro e he
        apply hD
        rw [ea, ← subA.leaves]
        exact List.mem_map_of_mem he
      -- the tree after the deletion
      have hprune : Spec.prune a.leaves (CTree.node x y) = some (if d then x else y) := by
        have := prune_plug (H := H) .top a (if d then x else y) d (by
          cases d
          · simp only [Bool.false_eq_true, if_false, CCtx.plug, ea]; exact hleaves
          · simp only [if_true, CCtx.plug, ea]; exact hleaves)
        cases d
        · simpa [CCtx.plug, ea] using this
        · simpa [CCtx.plug, ea] using this
      -- the map
      obtain ⟨X, Y, hXY, hXY'⟩ : ∃ X Y, lv = X ++ (lb ++ Y) ∧
          ∃ L1 L2, X ++ (relabelTop (if d then x else y) root lb ++ Y) = L1 ++ (la ++ L2) ∧
            L1 ++ L2 = l1 ++ (relabelTop (if d then x else y) root lb ++ l2) := by
        cases d
        · exact ⟨l1 ++ la, l2, by rw [hlv, elk]; simp, l1, _ ++ l2, by simp, rfl⟩
        · exact ⟨l1, la ++ l2, by rw [hlv, elk]; simp,
            l1 ++ relabelTop (if true then x else y) root lb, l2, by simp, by simp⟩
      obtain ⟨L1, L2, hL, hL'⟩ := hXY'
      obtain ⟨m1, m2, m3⟩ := mapInv_move (r := root) hinv hmk hlk hXY (sub_shape subB) hsep
      have hsep1 : ∀ e ∈ L1 ++ (la ++ L2), ∀ u v : H, e.1 ≠ ph u v := by
        intro e he u v
        have : e.1 ∈ (L1 ++ (la ++ L2)).map (·.1) := List.mem_map_of_mem he
        rw [← hL, m3] at this
        obtain ⟨e', he', hk⟩ := List.mem_map.1 this
        rw [← hk]; exact hsep e' he' u v
      rw [hL] at m1 m3
      have m4 := mapInv_del m1 rfl hla (hash_key a hD hsep1)
      refine ⟨hp', mapDel (mapMoveTo nm (if d then x else y).hash root) a.hash, _, fb, _, ?_, hR', ?_, ?_,
        hframe, hprune, ?_, ?_, ?_⟩
      · rw [ea]; exact hex
      · rw [efp] at nd
        cases d <;> simp only [Bool.false_eq_true, if_false, if_true, List.nodup_cons, List.mem_cons,
          List.mem_append, not_or, List.nodup_append] at nd ⊢ <;> grind
      · intro i hi; rw [efp]; cases d <;> simp [hi]
      · rw [hL'] at m4; exact m4
      · exact mapDel_keys_nodup _ m2
      · rw [← hL']
        have : ((L1 ++ (la ++ L2)).map (·.1)).Nodup := by rw [m3]; exact hlk
        exact List.Nodup.sublist
          (List.Sublist.map _ ((List.sublist_append_right la L2).append_left L1)) this
  | cons d0 π0 =>
    have hne : d0 :: π0 ≠ [] := by simp
    have hroot' : isRootPosition (Parent del (TreeRows nl)) nl = false := by
      rw [hroot]; simp
    obtain ⟨hp', ctx, b, fp', pre, la, post, et, _, elk, ela, hex, hR', ndr, hsub, hframe, hsz⟩ :=
      deleteSingle_tree_aunt (d0 :: π0) d a hR nd hne hpath del hget hroot'
    have hla : ∀ e ∈ la, e.1 ∈ D := by
      intro e he
      apply hD
      rw [← ela]
      exact List.mem_map_of_mem he
    have hlv' : lv = (l1 ++ pre) ++ (la ++ (post ++ l2)) := by rw [hlv, elk]; simp
    have m4 := mapInv_del hinv hlv' hla (hash_key a hD hsep)
    refine ⟨hp', mapDel nm a.hash, ctx.plug b, fp', pre ++ post, hex, hR', ndr, hsub, hframe, ?_, ?_, ?_, ?_⟩
    · rw [et]; exact prune_plug ctx a b d (et ▸ hleaves)
    · intro e; rw [m4 e]; simp [List.append_assoc]
    · exact mapDel_keys_nodup _ hmk
    · rw [hlv'] at hlk
      have : l1 ++ (pre ++ post ++ l2) = (l1 ++ pre) ++ (post ++ l2) := by simp
      rw [this]
      exact List.Nodup.sublist
        (List.Sublist.map _ ((List.sublist_append_right la (post ++ l2)).append_left (l1 ++ pre))) hlk

/-! ### positions -/

theorem pathBits_succ_last : ∀ (k o : Nat), pathBits (k + 1) o = pathBits k (o / 2) ++ [o.testBit 0] := by
  intro k
  induction k with
  | zero => intro o; simp [pathBits]
  | succ k ih =>
    intro o
    rw [pathBits, ih o]
    conv => rhs; rw [pathBits]
    simp only [List.cons_append]
    congr 1
    rw [← Nat.testBit_succ]

theorem xor_one_xor_one (o : Nat) : (o ^^^ 1) ^^^ 1 = o := by
  rw [Nat.xor_assoc]; simp

theorem xor_one_div_two (o : Nat) : (o ^^^ 1) / 2 = o / 2 := by
  rw [Nat.xor_div_two]; simp

theorem xor_one_div_pow (o k : Nat) (hk : 1 ≤ k) : (o ^^^ 1) / 2 ^ k = o / 2 ^ k := by
  obtain ⟨j, rfl⟩ : ∃ j, k = j + 1 := ⟨k - 1, by omega⟩
  rw [Nat.pow_succ, Nat.mul_comm, ← Nat.div_div_eq_div_mul, ← Nat.div_div_eq_div_mul,
    xor_one_div_two]

/-- **`deleteSingle` at forest level**: the heap represents `F` (with the hashes of `D` already
taken out of `NodeMap`), `q` is the position of a non-root node of `F` whose sub-tree `a` is
to die.  Then `deleteSingle` succeeds — no error, no panic, no fuel exhaustion — and the heap
represents `F.delLeaves a.leaves`. -/
theorem deleteSingle_absD {p : Pollard H} {F : Forest H} {D : List H} (hA : AbsD p F D)
    (hn : F.numLeaves < 2 ^ 63) {R : Nat} {q : Pos} {a : CTree H} (hs : SubAtT F R q a)
    (hnr : isRootPos F.numLeaves q = false) (hD : ∀ x ∈ a.leaves, x ∈ D)
    (hsep : ∀ x ∈ F.liveLeaves, ∀ u v : H, x ≠ ph u v) :
    ∃ hp' nm', deleteSingle (encU F.rows q.1 q.2) p = (.ok (), { p with heap := hp', nodeMap := nm' }) ∧
      AbsD { p with heap := hp', nodeMap := nm' } (F.delLeaves a.leaves) D := by
  obtain ⟨hp, nm, rs, nl, ndl, full⟩ := p
  obtain ⟨hnl, owned, lv, hroots, hnd, hmk, hlk, hmm⟩ := hA
  simp only at hnl hroots hmk hmm
  obtain ⟨r, o⟩ := q
  -- the tree and the walk
  obtain ⟨t0, ht0, hd0, hm0⟩ := hs.tree
  obtain ⟨hrR, hroot_off⟩ := hs.under
  simp only at hrR hroot_off
  obtain ⟨hlt, s', hpar, hsib⟩ := hs.parent hnr
  simp only at hlt
  have hR := hs.1
  have hb := hs.bit
  have hw : childWalk t0 (R - r) o = some a := subs_walk t0 R _ hd0 ((r, o), a) hm0
  obtain ⟨k, hk⟩ : ∃ k, R - r = k + 1 := ⟨R - r - 1, by omega⟩
  rw [hk, PollardCalcPos.childWalk_eq_childPath, pathBits_succ_last] at hw
  -- geometry
  have htr : F.rows ≤ 63 := forestRows_le_63 hn
  obtain ⟨hrr, hoo⟩ : r ≤ F.rows ∧ o < 2 ^ (F.rows - r) := under_valid hb hrR hroot_off
  have hRrows : R ≤ F.rows := testBit_le_forestRows hb
  have hN : nl = BitVec.ofNat 64 F.numLeaves := by rw [← hnl]; simp
  have hT : TreeRows nl = H8 F.rows := by rw [hN]; exact treeRows_eq hn
  -- the root of that tree
  have hidx := trees_getElem F hR
  have htree : PollardLookup.treeOf F R = some t0 := ht0
  rw [htree] at hidx
  have hidx' : (F.trees.map (·.2))[(treeRows F.numLeaves).idxOf R]? = some (some t0) := by
    rw [List.getElem?_map, hidx]; rfl
  obtain ⟨rs1, root, rs2, ts1, ts2, o1, fp, o2, l1, lk, l2, ers, ets, eo, elv, hl1, hl2, hr1, hrr', hr2⟩ :=
    hroots.split _ _ hidx'
  have hRootRepr : RootRepr hp root t0 fp lk := hrr'
  have hrootget : rs[(treeRows F.numLeaves).idxOf R]? = some root := by
    rw [ers, ← hl1]; simp
  have ndroot : (root :: fp).Nodup := by
    rw [eo] at hnd
    simp only [List.nodup_append] at hnd
    exact hnd.2.1.1
  have hLen : rs.length ≤ 255 := by
    rw [hroots.length_eq]
    simp only [List.length_map, Forest.trees]
    exact Nat.le_trans (treeRowsFrom_length_le 64 _) (by omega)
  have hlive : lv.map (·.1) = F.liveLeaves := hroots.liveLeaves (by omega)
  have hsep' : ∀ e ∈ lv, ∀ u v : H, e.1 ≠ ph u v := by
    intro e he; apply hsep; rw [← hlive]; exact List.mem_map_of_mem he
  -- `getNode(sibling(del))`
  have hsibpos : sibling (encU F.rows r o) = encU F.rows r (o ^^^ 1) :=
    Props.C16.sibling_enc htr hrr hoo
  have hget : ∀ A B, walkChild hp root root (pathBits k (o / 2) ++ [o.testBit 0]) = some (A, B) →
      ∃ par, getNode (sibling (encU F.rows r o)) ⟨hp, nm, rs, nl, ndl, full⟩ =
        (.ok (some B, some A, par), ⟨hp, nm, rs, nl, ndl, full⟩) := by
    intro A B hwAB
    rw [hsibpos]
    apply getNode_pos (p := ⟨hp, nm, rs, nl, ndl, full⟩) hnl hn hR hrR
      (by rw [xor_one_div_pow _ _ (by omega)]; exact hroot_off) hrootget hLen
    rw [xor_one_xor_one, hk, pathBits_succ_last]
    exact hwAB
  -- is the parent position a root position?
  have hrootpos : isRootPosition (Parent (encU F.rows r o) (TreeRows nl)) nl =
      decide (pathBits k (o / 2) = []) := by
    rw [hT, Props.C16.parent_enc htr (by omega) hoo]
    have ho2 : o / 2 < 2 ^ (F.rows - (r + 1)) := by
      have e : F.rows - r = (F.rows - (r + 1)) + 1 := by omega
      rw [e, Nat.pow_succ] at hoo
      omega
    rw [Props.C16.isRootPosition_enc nl hT htr (by omega) ho2, hnl]
    have hri := hpar.root_iff
    simp only [Spec.parent] at hri
    by_cases hk0 : k = 0
    · subst hk0
      rw [hri.2 (by omega)]; simp [pathBits]
    · have : ¬ (r + 1 = R) := by omega
      have hfalse : isRootPos F.numLeaves (r + 1, o / 2) = false := by
        cases hc : isRootPos F.numLeaves (r + 1, o / 2) with
        | false => rfl
        | true => exact absurd (hri.1 hc) this
      rw [hfalse]
      have : pathBits k (o / 2) ≠ [] := by
        intro e
        have := congrArg List.length e
        rw [PollardCalcPos.pathBits_length] at this
        simp at this; exact hk0 this
      simp [this]
  -- one root among the others
  obtain ⟨hp', nm', t', fp', lk', hex, hR', ndr, hsub, hframe, hprune, hinv', hmk', hlk'⟩ :=
    deleteSingle_mid (l1 := l1) (l2 := l2) (D := D) hRootRepr ndroot (pathBits k (o / 2)) (o.testBit 0) a hw
      (encU F.rows r o) hget hrootpos elv hmm hmk hlk hsep' hD
  refine ⟨hp', nm', hex, ?_⟩
  -- the abstraction relation
  have hnd' : (o1 ++ (root :: fp ++ o2)).Nodup := by rw [← eo]; exact hnd
  obtain ⟨hnewroots, hnewnd⟩ := ReprRoots.rebuild (t' := some t') hr1 hr2 hnd' hR' ndr hsub hframe
  refine ⟨by simpa [numLeaves_delLeaves] using hnl, o1 ++ (root :: fp' ++ o2), l1 ++ (lk' ++ l2), ?_,
    hnewnd, hmk', hlk', hinv'⟩
  show ReprRoots hp' rs ((F.delLeaves a.leaves).trees.map (·.2)) _ _
  have etrees : (F.delLeaves a.leaves).trees.map (·.2) = ts1 ++ some t' :: ts2 := by
    rw [trees_delLeaves, List.map_map]
    have : ((fun p : Nat × Option (CTree H) => p.2) ∘
        fun p : Nat × Option (CTree H) => (p.1, pruneO a.leaves p.2)) =
        (pruneO a.leaves) ∘ (fun p : Nat × Option (CTree H) => p.2) := rfl
    rw [this, ← List.map_map, ets, List.map_append, List.map_cons]
    -- leaves of the other trees are not leaves of `a`
    have hleaf1 := hr1.leaves
    have hleaf2 := hr2.leaves
    have hleafk : lk.map (·.1) = t0.leaves := hRootRepr.2.leaves
    have hala : ∀ x ∈ a.leaves, x ∈ lk.map (·.1) := by
      intro x hx
      rw [hleafk]
      exact subs_leaves t0 R _ _ hm0 x hx
    rw [elv] at hlk
    simp only [List.map_append, List.nodup_append, List.mem_append] at hlk
    obtain ⟨n1, ⟨n2, n3, n4⟩, n5⟩ := hlk
    rw [map_pruneO_eq_self _ ts1, map_pruneO_eq_self _ ts2]
    · simp only [pruneO, Option.bind_some, hprune]
    · intro x hx hxa
      rw [← hleaf2] at hx
      exact n4 x (hala x hxa) x hx rfl
    · intro x hx hxa
      rw [← hleaf1] at hx
      exact n5 x hx x (Or.inl (hala x hxa)) rfl
  rw [etrees, ers]
  exact hnewroots

/-- **`deleteRoot` at forest level**: the whole tree on row `R` dies; its root becomes an empty
root -/
theorem deleteRoot_absD {p : Pollard H} {F : Forest H} {D : List H} (hA : AbsD p F D)
    (hn : F.numLeaves < 2 ^ 63) {R : Nat} {t0 : CTree H}
    (hs : SubAtT F R (rootPos F.numLeaves R) t0) (hD : ∀ x ∈ t0.leaves, x ∈ D)
    (hsep : ∀ x ∈ F.liveLeaves, ∀ u v : H, x ≠ ph u v) :
    ∃ hp' nm', deleteRoot (encU F.rows R (rootPos F.numLeaves R).2) p =
        (.ok (), { p with heap := hp', nodeMap := nm' }) ∧
      AbsD { p with heap := hp', nodeMap := nm' } (F.delLeaves t0.leaves) D := by
  obtain ⟨hp, nm, rs, nl, ndl, full⟩ := p
  obtain ⟨hnl, owned, lv, hroots, hnd, hmk, hlk, hmm⟩ := hA
  simp only at hnl hroots hmk hmm
  have hR := hs.1
  have hb := hs.bit
  obtain ⟨t1, ht1, hd1, hm1⟩ := hs.tree
  -- `t0` is the whole tree
  have et : t1 = t0 := by
    have h1 := SubAtT.root hR ht1
    exact (h1.unique hs).2
  subst et
  have htr : F.rows ≤ 63 := forestRows_le_63 hn
  have hroot_off : (rootPos F.numLeaves R).2 / 2 ^ (R - R) = 2 * (F.numLeaves >>> (R + 1)) := by
    simp [rootPos]
  obtain ⟨hrr, hoo⟩ : R ≤ F.rows ∧ (rootPos F.numLeaves R).2 < 2 ^ (F.rows - R) :=
    under_valid hb (Nat.le_refl R) hroot_off
  have hN : nl = BitVec.ofNat 64 F.numLeaves := by rw [← hnl]; simp
  have hT : TreeRows nl = H8 F.rows := by rw [hN]; exact treeRows_eq hn
  have hdo := Props.C16.detectOffset_enc (R := R) nl hT htr (Nat.le_refl R) hoo (by rw [hnl]; exact hb)
    (by rw [hnl]; exact hroot_off)
  rw [hnl] at hdo
  -- the root of that tree
  have hidx := trees_getElem F hR
  have htree : PollardLookup.treeOf F R = some t1 := ht1
  rw [htree] at hidx
  have hidx' : (F.trees.map (·.2))[(treeRows F.numLeaves).idxOf R]? = some (some t1) := by
    rw [List.getElem?_map, hidx]; rfl
  obtain ⟨rs1, root, rs2, ts1, ts2, o1, fp, o2, l1, lk, l2, ers, ets, eo, elv, hl1, hl2, hr1, hrr', hr2⟩ :=
    hroots.split _ _ hidx'
  have hRootRepr : RootRepr hp root t1 fp lk := hrr'
  have hidxlt : (treeRows F.numLeaves).idxOf R < rs.length := by
    rw [ers, ← hl1]; simp
  have hLen : rs.length ≤ 65 := by
    rw [hroots.length_eq]
    simp only [List.length_map, Forest.trees]
    exact treeRowsFrom_length_le 64 _
  have hidxN : (BitVec.ofNat 8 ((treeRows F.numLeaves).idxOf R)).toNat = (treeRows F.numLeaves).idxOf R := by
    rw [BitVec.toNat_ofNat]; omega
  have hrootget : rs[(BitVec.ofNat 8 ((treeRows F.numLeaves).idxOf R)).toNat]? = some root := by
    rw [hidxN, ers, ← hl1]; simp
  have ndroot : (root :: fp).Nodup := by
    rw [eo] at hnd
    simp only [List.nodup_append] at hnd
    exact hnd.2.1.1
  have hle : ¬ BitVec.ofNat 8 ((treeRows F.numLeaves).idxOf R) > ofInt 8 ((rs.length : Int) - 1) := by
    have e : ((rs.length : Int) - 1) = ((rs.length - 1 : Nat) : Int) := by omega
    rw [e]
    unfold ofInt
    rw [BitVec.ofInt_natCast, gt_iff_lt, BitVec.lt_def, BitVec.toNat_ofNat, BitVec.toNat_ofNat]
    have : (rs.length - 1) % 2 ^ 8 = rs.length - 1 := Nat.mod_eq_of_lt (by omega)
    have : (treeRows F.numLeaves).idxOf R % 2 ^ 8 = (treeRows F.numLeaves).idxOf R :=
      Nat.mod_eq_of_lt (by omega)
    omega
  obtain ⟨hp', hex, hempty, hframe, hsz⟩ := deleteRoot_tree (nm := nm) (rs := rs) (nl := nl) (ndl := ndl)
    (full := full) hRootRepr ndroot (encU F.rows R (rootPos F.numLeaves R).2) _ _ _ hdo hle hrootget
  refine ⟨hp', mapDel nm t1.hash, hex, ?_⟩
  have hlive : lv.map (·.1) = F.liveLeaves := hroots.liveLeaves (by omega)
  have hsep' : ∀ e ∈ lv, ∀ u v : H, e.1 ≠ ph u v := by
    intro e he; apply hsep; rw [← hlive]; exact List.mem_map_of_mem he
  have hleafk : lk.map (·.1) = t1.leaves := hRootRepr.2.leaves
  have hla : ∀ e ∈ lk, e.1 ∈ D := by
    intro e he; apply hD; rw [← hleafk]; exact List.mem_map_of_mem he
  have m4 := mapInv_del hmm elv hla (hash_key t1 hD hsep')
  have hnd' : (o1 ++ (root :: fp ++ o2)).Nodup := by rw [← eo]; exact hnd
  obtain ⟨hnewroots, hnewnd⟩ := ReprRoots.rebuild (t' := none) (fp' := []) (lk' := []) hr1 hr2 hnd'
    ⟨hempty, rfl, rfl⟩ (by simp) (by simp) hframe
  refine ⟨by simpa [numLeaves_delLeaves] using hnl, o1 ++ (root :: [] ++ o2), l1 ++ ([] ++ l2), ?_,
    hnewnd, mapDel_keys_nodup _ hmk, ?_, by simpa using m4⟩
  · show ReprRoots hp' rs ((F.delLeaves t1.leaves).trees.map (·.2)) _ _
    have etrees : (F.delLeaves t1.leaves).trees.map (·.2) = ts1 ++ none :: ts2 := by
      rw [trees_delLeaves, List.map_map]
      have : ((fun p : Nat × Option (CTree H) => p.2) ∘
          fun p : Nat × Option (CTree H) => (p.1, pruneO t1.leaves p.2)) =
          (pruneO t1.leaves) ∘ (fun p : Nat × Option (CTree H) => p.2) := rfl
      rw [this, ← List.map_map, ets, List.map_append, List.map_cons]
      have hleaf1 := hr1.leaves
      have hleaf2 := hr2.leaves
      have hlk2 := hlk
      rw [elv] at hlk2
      simp only [List.map_append, List.nodup_append, List.mem_append] at hlk2
      obtain ⟨n1, ⟨n2, n3, n4⟩, n5⟩ := hlk2
      rw [map_pruneO_eq_self _ ts1, map_pruneO_eq_self _ ts2]
      · have : pruneO t1.leaves (some t1) = none := (prune_eq_none_iff _ t1).2 (fun x hx => hx)
        rw [this]
      · intro x hx hxa
        rw [← hleaf2] at hx
        rw [← hleafk] at hxa
        exact n4 x hxa x hx rfl
      · intro x hx hxa
        rw [← hleaf1] at hx
        rw [← hleafk] at hxa
        exact n5 x hx x (Or.inl hxa) rfl
    rw [etrees, ers]
    exact hnewroots
  · rw [elv] at hlk
    simp only [List.nil_append]
    exact List.Nodup.sublist
      (List.Sublist.map _ ((List.sublist_append_right lk l2).append_left l1)) hlk

end UtreexoVerif.Proofs.PollardHeap
