/-
  The inverse of the addition movement (property C08, level 1, repaired `Proof.undoAdd`).

  Forward (`updateProofAdd`, `Proofs/AddMove.lean`, `Proofs/AddPP.lean`): every node of the forest
  `F` before the additions sits in `G = F.addMany adds` at `addMove n k L p = moveA N T dp p`, where
  `dp = destroyedPos n L` are the positions of the all-zero roots the additions merged over
  (ascending rows).

  Backward (repaired `Proof.undoAdd`): walk through `toDestroy` in DESCENDING order and apply
  `moveDownPosition(forestRows, Parent(destroyed), destroyed, pos)` to every position.

  * `moveDown_enc`, `moveBack_origin`: on the encoded forward image `moveA N R dp p` of an `Origin`
    `p` (`Proofs/ProofUndoDel.lean`), the walk returns the encoded `p`;
  * `old_origin`: every node of `F` is an origin (and its image is its node in `G`);
  * `new_origin`: every node of `G` that contains an added leaf is the image of an origin that
    does NOT exist in the forest of `n` leaves (the lowest chunk of the node, uncollapsed over the
    destroyed roots).
-/
import UtreexoVerif.Proofs.ProofUndoDel
import UtreexoVerif.Proofs.ProofUndoAdd

namespace UtreexoVerif.Proofs.ProofUndoAddMove
open UtreexoVerif Spec Hasher Model
open UtreexoVerif.Proofs UtreexoVerif.Proofs.SpecNodes UtreexoVerif.Proofs.SpecSubs
open UtreexoVerif.Proofs.SpecPlan UtreexoVerif.Proofs.CalcComplete
open UtreexoVerif.Proofs.CalcGeo UtreexoVerif.Proofs.Movement UtreexoVerif.Proofs.CalcPlan
open UtreexoVerif.Proofs.Sorted UtreexoVerif.Proofs.MovePP UtreexoVerif.Proofs.ProofUpdateHelpers
open UtreexoVerif.Proofs.ProofUpdateLists UtreexoVerif.Proofs.ProofUpdateGnp
open UtreexoVerif.Proofs.MoveFold UtreexoVerif.Proofs.ProofUpdateRemove
open UtreexoVerif.Proofs.AddMove UtreexoVerif.Proofs.AddPP UtreexoVerif.Proofs.FinalPos
open UtreexoVerif.Proofs.ProofUpdateRemap UtreexoVerif.Proofs.ProofUpdateAdd
open UtreexoVerif.Proofs.ProofUndoLists UtreexoVerif.Proofs.StumpAddPos
open UtreexoVerif.Proofs.ChunkBridge UtreexoVerif.Proofs.ProofUndoLoops
open UtreexoVerif.Proofs.ProofUndoMove UtreexoVerif.Proofs.ProofUndoDel

/-! ### bit level: one `moveDownPosition` -/

/-- a destroyed root as the walk meets it: a position of some tree of the forest, never its root -/
def TStrict (n : Nat) (T : Pos) : Prop :=
  ∃ RT, RT ∈ treeRows n ∧ Under RT (2 * (n >>> (RT + 1))) T ∧ T.1 < RT

theorem TStrict.tok {n R : Nat} {T : Pos} (h : TStrict n T) : TOK n R T := by
  obtain ⟨RT, h1, h2, h3⟩ := h
  exact ⟨RT, h1, h2, fun e => by omega⟩

/-- **the test of `moveDownPosition`** (`pos == position || isAncestor(position, pos)`) is the test
of the inner loops of `undoDel`: the tree comparison is redundant for a deletion that is not the
root of its tree -/
theorem mdp_cond_enc {n R : Nat} (hn : n ≤ 2 ^ 63) (hR : R ∈ treeRows n) {T c : Pos}
    (hu : Under R (2 * (n >>> (R + 1))) c) (hT : TStrict n T) :
    (E (forestRows n) c == Parent (E (forestRows n) T) (H8 (forestRows n)) ||
      isAncestor (Parent (E (forestRows n) T) (H8 (forestRows n))) (E (forestRows n) c)
        (H8 (forestRows n))) =
    udCond (BitVec.ofNat 64 n) (H8 (forestRows n)) (E (forestRows n) T)
        (Parent (E (forestRows n) T) (H8 (forestRows n))) (E (forestRows n) c) := by
  rw [udCond_enc hn hR hu hT.tok]
  have hrows := rows_le_63 hn
  obtain ⟨RT, hRT, huT, hlt⟩ := hT
  have hvc := under_valid hR hu
  have hvT := under_valid hRT huT
  have hTrows : T.1 < forestRows n :=
    Nat.lt_of_lt_of_le hlt (under_valid hRT (Under.self _ _)).1
  have hpv := parent_valid hvT hTrows
  rw [parent_E hrows hvT hTrows]
  have hanc : isAncestor (E (forestRows n) (parent T)) (E (forestRows n) c) (H8 (forestRows n)) =
      hitA T c := by
    unfold E
    rw [Props.C16.isAncestor_enc hrows hvc.1 hvc.2 hpv.1 hpv.2]
    unfold hitA
    simp only [parent_fst, parent_snd]
    congr 1
    apply propext
    constructor
    · rintro ⟨h1, h2⟩; exact ⟨by omega, h2⟩
    · rintro ⟨h1, h2⟩; exact ⟨by omega, h2⟩
  rw [hanc]
  have heq : (E (forestRows n) c == E (forestRows n) (parent T)) = decide (c = parent T) := by
    by_cases hcp : c = parent T
    · rw [hcp]; simp
    · have h1 : (E (forestRows n) c == E (forestRows n) (parent T)) = false := by
        apply beq_false_of_ne
        intro e
        exact hcp (E_inj hrows hvc hpv e)
      rw [h1]
      simp [hcp]
  rw [heq]
  -- the left side is `atOrUnderP T c`
  have hL : (decide (c = parent T) || hitA T c) = atOrUnderP T c := by
    cases ha : atOrUnderP T c with
    | true =>
      rcases atOrUnderP_iff.1 ha with h | h
      · rw [h]; simp
      · simp [h]
    | false =>
      cases hh : hitA T c with
      | true => rw [atOrUnderP_iff.2 (Or.inl hh)] at ha; cases ha
      | false =>
        by_cases hcp : c = parent T
        · rw [atOrUnderP_iff.2 (Or.inr hcp)] at ha; cases ha
        · simp [hcp]
  rw [hL]
  -- below the parent of `T` means: in the tree of `T`
  cases ha : atOrUnderP T c with
  | false => simp
  | true =>
    have hup : Under RT (2 * (n >>> (RT + 1))) (parent T) := Under.parent' huT hlt
    have hcu : Under (parent T).1 (parent T).2 c := by
      unfold atOrUnderP at ha
      simp only [decide_eq_true_eq] at ha
      exact ⟨by simp only [parent]; exact ha.1, by simp only [parent]; exact ha.2⟩
    have huc := Under.trans hup hcu
    have hRR : RT = R := by
      rcases Nat.lt_trichotomy RT R with h | h | h
      · exact (under_disjoint h (bit_of_mem hR) hu huc).elim
      · exact h
      · exact (under_disjoint h (bit_of_mem hRT) huc hu).elim
    subst hRR
    rw [(inTree_iff _ _ _).2 huT]
    rfl

/-- **one `moveDownPosition`** is one pass of the inner loops of `undoDel` on the position -/
theorem moveDown_enc {H : Type} {n R : Nat} (hn : n ≤ 2 ^ 63) (hR : R ∈ treeRows n) {T c : Pos}
    (hu : Under R (2 * (n >>> (R + 1))) c) (hT : TStrict n T) (h : H) :
    moveDownPosition (H8 (forestRows n)) (Parent (E (forestRows n) T) (H8 (forestRows n)))
        (E (forestRows n) T) (E (forestRows n) c) =
      (udMap (BitVec.ofNat 64 n) (H8 (forestRows n)) (E (forestRows n) T)
        (Parent (E (forestRows n) T) (H8 (forestRows n))) (E (forestRows n) c, h)).1 := by
  unfold moveDownPosition udMap
  rw [mdp_cond_enc hn hR hu hT]
  simp only
  split <;> rfl

/-! ### the walk on the image of an origin -/

/-- the walk of the repaired `undoAdd` on one position: the destroyed roots (given in ascending
order) are put back last first -/
def moveBack (rows : U8) (td : List U64) (pos : U64) : U64 :=
  td.reverse.foldl (fun c d => moveDownPosition rows (Parent d rows) d c) pos

theorem moveBack_nil (rows : U8) (pos : U64) : moveBack rows [] pos = pos := rfl

theorem moveBack_append (rows : U8) (td : List U64) (d pos : U64) :
    moveBack rows (td ++ [d]) pos =
      moveBack rows td (moveDownPosition rows (Parent d rows) d pos) := by
  unfold moveBack
  rw [List.reverse_append, List.reverse_singleton, List.singleton_append, List.foldl_cons]

/-- **the walk returns the origin** of a forward image -/
theorem moveBack_origin {n : Nat} (hn : n ≤ 2 ^ 63) : ∀ (dp : List Pos) {p : Pos} {R : Nat},
    DtList dp → (∀ T ∈ dp, TStrict n T) → Origin n dp p R →
    moveBack (H8 (forestRows n)) (dp.map (E (forestRows n))) (E (forestRows n) (moveA n R dp p)) =
      E (forestRows n) p := by
  intro dp
  induction dp using rev_ind with
  | h0 => intro p R _ _ _; rfl
  | h1 ds T ih =>
    intro p R hdt hst o
    rw [List.map_append, List.map_cons, List.map_nil, moveBack_append]
    have hu := o.image_under
    have hTs := hst T (by simp)
    rw [moveDown_enc hn o.tree hu hTs ()]
    obtain ⟨h1, _⟩ := step_of_origin hn hdt o ()
    rw [h1]
    exact ih hdt.init (fun T' hT' => hst T' (List.mem_append_left _ hT')) o.init


/-! ### the destroyed roots -/

section destroyed
set_option linter.unusedSectionVars false
variable {H : Type} [DecidableEq H] [Hasher H]

/-- a destroyed root is never the root of its tree in the new forest (its parent was created) -/
theorem destroyed_strict (S' : List (Option H)) (k : Nat) (L : List Nat) (hL : DestroySpec S' k L)
    (hN : S'.length + k < 2 ^ 64) : ∀ A ∈ destroyedPos S'.length L, TStrict (S'.length + k) A := by
  intro A hA
  obtain ⟨hjL, hA2⟩ := mem_destroyedPos.mp hA
  obtain ⟨hb, _, hpop⟩ := (hL.mem A.1).mp hjL
  have hrc := root_chunk_le hb
  have hpos := Nat.two_pow_pos A.1
  have hm : 2 * (S'.length / 2 ^ (A.1 + 1)) * 2 ^ A.1 < S'.length + k := by
    rw [Nat.add_mul, Nat.one_mul] at hrc; omega
  obtain ⟨RT, h1, h2, h3⟩ := exists_tree_of_lt _ _ hm
  have hmdiv : 2 * (S'.length / 2 ^ (A.1 + 1)) * 2 ^ A.1 / 2 ^ (A.1 + 1) = S'.length / 2 ^ (A.1 + 1) := by
    rw [Nat.pow_succ, Nat.mul_comm 2, Nat.mul_assoc, Nat.mul_comm 2,
      Nat.mul_div_cancel _ (by omega)]
  have hlt : A.1 < RT := by
    apply Classical.byContradiction
    intro hc
    have e : (S'.length + k) / 2 ^ (A.1 + 1) = S'.length / 2 ^ (A.1 + 1) := by
      rw [← div_div_pow (show RT + 1 ≤ A.1 + 1 by omega), h3, div_div_pow (by omega), hmdiv]
    have := (Nat.le_div_iff_mul_le (Nat.two_pow_pos (A.1 + 1))).mpr hpop
    omega
  have hin := inTree_of_slot h1 h2 h3 (l := A.1) (by omega)
  rw [Nat.mul_div_cancel _ hpos] at hin
  refine ⟨RT, CalcComplete.mem_treeRows hN h1, ?_, hlt⟩
  rw [Nat.shiftRight_eq_div_pow]
  exact ⟨hin.2.1, by rw [hA2]; exact hin.2.2⟩

/-- the destroyed roots as the walk needs them: rows ascending, no element twice, no two siblings -/
theorem destroyed_dtList {n : Nat} {L : List Nat} {a : Nat} (h : AscFrom a L) :
    DtList (destroyedPos n L) := by
  have hpw := destroyedPos_pairwise (n := n) h
  refine ⟨hpw.imp (fun h => Nat.le_of_lt h), hpw.imp (fun h e => by subst e; omega), ?_⟩
  intro x hx hs
  -- two elements on the same row are equal
  have hrow : ∀ y ∈ destroyedPos n L, y.1 = x.1 → y = x := by
    intro y hy e
    rw [mem_destroyedPos] at hx hy
    exact Prod.ext e (by rw [hx.2, hy.2, e])
  have := hrow (sib x) hs (sib_fst x)
  have h2 : (sib x).2 = x.2 := congrArg Prod.snd this
  simp only [sib_snd] at h2
  split at h2 <;> omega

end destroyed

/-! ### every node of the old forest is an origin -/

section old
set_option linter.unusedSectionVars false
variable {H : Type} [DecidableEq H] [Hasher H]
variable {F : Forest H} {adds : List H} {L : List Nat}
  (hN : F.numLeaves + adds.length ≤ 2 ^ 63)
  (hL : DestroySpec F.slots adds.length L)
include hN hL

/-- the tree of the old forest that holds a node is alive -/
theorem old_tree_alive {h0 : Nat} {p : Pos} {t : CTree H} (s : SubAtT F h0 p t) :
    chunkAlive F.slots h0 (2 * (F.numLeaves / 2 ^ (h0 + 1))) = true := by
  have s' : SubAtT (Forest.mk F.slots) h0 p t := by rw [forest_mk_slots]; exact s
  obtain ⟨l, b, hin', hch, _, _⟩ := chunk_of_subAtT F.slots (by
    have : F.slots.length = F.numLeaves := rfl
    omega) s'
  have hal : chunkAlive F.slots l b = true := by unfold chunkAlive; rw [hch]; rfl
  obtain ⟨_, hl0, hr0⟩ := hin'
  have := chunkAlive_anc F.slots hal (h0 - l)
  rwa [hr0, show l + (h0 - l) = h0 by omega] at this

/-- **a node of the old forest is an origin** for the destroyed roots, in the tree of the new
forest that contains it -/
theorem old_origin {h0 : Nat} {p : Pos} {t : CTree H} (s : SubAtT F h0 p t) :
    ∃ T, Origin (F.numLeaves + adds.length) (destroyedPos F.numLeaves L) p T ∧
      moveA (F.numLeaves + adds.length) T (destroyedPos F.numLeaves L) p =
        addMove F.numLeaves adds.length L p ∧
      SubAtT (F.addMany adds) T (addMove F.numLeaves adds.length L p) t := by
  have hlen : F.slots.length = F.numLeaves := rfl
  obtain ⟨T, hT, hu, hrow, g⟩ := add_sub hN hL s
  refine ⟨T, ?_, by unfold addMove; rw [hrow], g⟩
  refine ⟨hT, hu, ?_, ?_⟩
  · have := destroyed_dtOK F.slots adds.length L hL (by omega) T
    rwa [hlen] at this
  · intro A hA _
    obtain ⟨hjL, hA2⟩ := mem_destroyedPos.mp hA
    obtain ⟨hb, hdead, _⟩ := (hL.mem A.1).mp hjL
    rw [hlen] at hb hdead
    constructor
    · -- the parent of a destroyed root is not a position of the old forest
      intro e
      have hin := s.inF.2
      rw [e, Nat.shiftRight_eq_div_pow] at hin
      simp only [parent_fst, parent_snd, hA2] at hin
      omega
    · -- nothing of the old forest lies below a destroyed root
      rintro ⟨h1, h2⟩
      have hu' : Under A.1 (2 * (F.numLeaves >>> (A.1 + 1))) p := by
        rw [Nat.shiftRight_eq_div_pow, ← hA2]; exact ⟨h1, h2⟩
      have hh := MoveDT.tree_of_under s hb hu'
      subst hh
      have := old_tree_alive hN hL s
      rw [this] at hdead
      cases hdead

end old

/-! ### the lowest chunk of a node -/

section lowest
set_option linter.unusedSectionVars false
variable {H : Type} [DecidableEq H] [Hasher H]

/-- a chunk that is a single slot or has two live halves -/
def LowChunk (S : List (Option H)) (l b : Nat) : Prop :=
  l = 0 ∨ (chunkAlive S (l - 1) (2 * b) = true ∧ chunkAlive S (l - 1) (2 * b + 1) = true)

theorem nodePos_child_dead (S : List (Option H)) {T l b c : Nat} (hl : l < T) (hc : c / 2 = b)
    (hd : chunkAlive S l (sibIdx c) = false) : nodePos S T l c = nodePos S T (l + 1) b := by
  unfold nodePos
  rw [show T - l = (T - (l + 1)) + 1 by omega, fpos_succ_dead hd, hc]

/-- **every live chunk has a lowest chunk with the same tree and the same position** -/
theorem lowest_chunk (S : List (Option H)) : ∀ (l b : Nat) (t : CTree H), chunk S l b = some t →
    ∃ l' b', l' ≤ l ∧ b' / 2 ^ (l - l') = b ∧ chunk S l' b' = some t ∧ LowChunk S l' b' ∧
      ∀ T, Spec.inTree S.length T l b → nodePos S T l' b' = nodePos S T l b := by
  intro l
  induction l with
  | zero =>
    intro b t ht
    exact ⟨0, b, Nat.le_refl _, by simp, ht, Or.inl rfl, fun _ _ => rfl⟩
  | succ l ih =>
    intro b t ht
    rw [chunk_succ] at ht
    cases ha : chunk S l (2 * b) with
    | none =>
      cases hb : chunk S l (2 * b + 1) with
      | none => rw [ha, hb] at ht; cases ht
      | some c =>
        rw [ha, hb] at ht
        have e : t = c := by simp only [join] at ht; injection ht with ht; exact ht.symm
        subst e
        obtain ⟨l', b', h1, h2, h3, h4, h5⟩ := ih (2 * b + 1) t hb
        refine ⟨l', b', by omega, ?_, h3, h4, ?_⟩
        · rw [show l + 1 - l' = (l - l') + 1 by omega, Nat.pow_succ, ← Nat.div_div_eq_div_mul, h2]
          omega
        · intro T hin
          have hlT : l < T := hin.2.1
          have hin' : Spec.inTree S.length T l (2 * b + 1) := by
            refine ⟨hin.1, by omega, ?_⟩
            have e : (2 * b + 1) / 2 ^ (T - l) = (2 * b + 1) / 2 / 2 ^ (T - (l + 1)) := by
              rw [Nat.div_div_eq_div_mul, ← Nat.pow_succ']; congr 2; omega
            rw [e, show (2 * b + 1) / 2 = b by omega]
            exact hin.2.2
          rw [h5 T hin']
          apply nodePos_child_dead S hlT (by omega)
          rw [sibIdx_odd]
          unfold chunkAlive; rw [ha]; rfl
    | some a =>
      cases hb : chunk S l (2 * b + 1) with
      | none =>
        rw [ha, hb] at ht
        have e : t = a := by simp only [join] at ht; injection ht with ht; exact ht.symm
        subst e
        obtain ⟨l', b', h1, h2, h3, h4, h5⟩ := ih (2 * b) t ha
        refine ⟨l', b', by omega, ?_, h3, h4, ?_⟩
        · rw [show l + 1 - l' = (l - l') + 1 by omega, Nat.pow_succ, ← Nat.div_div_eq_div_mul, h2]
          omega
        · intro T hin
          have hlT : l < T := hin.2.1
          have hin' : Spec.inTree S.length T l (2 * b) := by
            refine ⟨hin.1, by omega, ?_⟩
            have e : (2 * b) / 2 ^ (T - l) = (2 * b) / 2 / 2 ^ (T - (l + 1)) := by
              rw [Nat.div_div_eq_div_mul, ← Nat.pow_succ']; congr 2; omega
            rw [e, show (2 * b) / 2 = b by omega]
            exact hin.2.2
          rw [h5 T hin']
          apply nodePos_child_dead S hlT (by omega)
          rw [sibIdx_even]
          unfold chunkAlive; rw [hb]; rfl
      | some c =>
        refine ⟨l + 1, b, Nat.le_refl _, by simp, ?_, Or.inr ?_, fun _ _ => rfl⟩
        · rw [chunk_succ]; exact ht
        · simp only [Nat.add_sub_cancel]
          unfold chunkAlive
          rw [ha, hb]
          exact ⟨rfl, rfl⟩

end lowest

/-! ### the chunks created by the additions -/

section newchunks
set_option linter.unusedSectionVars false
variable {H : Type} [DecidableEq H] [Hasher H]

/-- the slots of a chunk lie inside the slots of its ancestor chunks -/
theorem chunk_anc_le {b c l m : Nat} (hc : b / 2 ^ m = c) : (b + 1) * 2 ^ l ≤ (c + 1) * 2 ^ (l + m) := by
  have h1 : b < (c + 1) * 2 ^ m := by rw [← hc]; exact lt_succ_div_mul b (2 ^ m) (Nat.two_pow_pos _)
  have h2 : (b + 1) * 2 ^ l ≤ (c + 1) * 2 ^ m * 2 ^ l := Nat.mul_le_mul_right _ h1
  rw [Nat.mul_assoc, ← Nat.pow_add, Nat.add_comm m l] at h2
  exact h2

/-- **the dead levels above a chunk that contains an added slot** are the destroyed rows at which
the chunk lies below the sibling of the destroyed root -/
theorem new_dead_level (S' : List (Option H)) (adds : List H) (L : List Nat)
    (hL : DestroySpec S' adds.length L) {T l b j : Nat}
    (hin : Spec.inTree (S'.length + adds.length) T l b) (hnew : S'.length < (b + 1) * 2 ^ l)
    (hlj : l ≤ j) (hjT : j < T) :
    chunkAlive (S' ++ adds.map some) j (sibIdx (b / 2 ^ (j - l))) = false ↔
      (j ∈ L ∧ b / 2 ^ (j - l) = S'.length / 2 ^ j) := by
  have hinj : Spec.inTree (S'.length + adds.length) T j (b / 2 ^ (j - l)) := by
    have := inTree_anc hin (m := j - l) (by omega)
    rwa [show l + (j - l) = j by omega] at this
  have hnewc : S'.length < (b / 2 ^ (j - l) + 1) * 2 ^ j := by
    have := chunk_anc_le (b := b) (l := l) (m := j - l) rfl
    rw [show l + (j - l) = j by omega] at this
    omega
  have hsib := inTree_sib hinj hjT
  have hle := inTree_le hsib
  have hpos := Nat.two_pow_pos j
  generalize hc : b / 2 ^ (j - l) = c at *
  constructor
  · intro hdead
    rcases Nat.lt_or_ge S'.length ((sibIdx c + 1) * 2 ^ j) with hA | hB
    · -- the sibling chunk contains an added slot
      exfalso
      rw [Nat.add_mul, Nat.one_mul] at hA hle
      obtain ⟨m, hm1, hm2, hm3⟩ : ∃ m, S'.length ≤ m ∧ sibIdx c * 2 ^ j ≤ m ∧
          m < sibIdx c * 2 ^ j + 2 ^ j := by
        rcases Nat.le_total S'.length (sibIdx c * 2 ^ j) with h | h
        · exact ⟨sibIdx c * 2 ^ j, h, Nat.le_refl _, by omega⟩
        · exact ⟨S'.length, Nat.le_refl _, h, hA⟩
      obtain ⟨x, hx⟩ := slot_new S' adds hm1 (by omega)
      rw [chunkAlive_of_slot _ j _ m x hx hm2 (by rw [Nat.add_mul, Nat.one_mul]; exact hm3)] at hdead
      cases hdead
    · -- the sibling chunk is an old root
      have hsc : sibIdx c + 1 = c := by
        have h1 : (sibIdx c + 1) * 2 ^ j < (c + 1) * 2 ^ j := by omega
        have h2 : sibIdx c + 1 < c + 1 := Nat.lt_of_mul_lt_mul_right h1
        unfold sibIdx at h2 ⊢
        by_cases hc0 : c % 2 = 0
        · rw [if_pos hc0] at h2; omega
        · rw [if_neg hc0]; omega
      have hodd : c % 2 = 1 := by
        unfold sibIdx at hsc
        split at hsc <;> omega
      have hnc : S'.length / 2 ^ j = c := by
        apply Nat.div_eq_of_lt_le
        · rw [← hsc]; exact hB
        · exact hnewc
      have hbit : S'.length.testBit j = true := testBit_div_odd.mpr (by rw [hnc]; exact hodd)
      have hroot : sibIdx c = 2 * (S'.length / 2 ^ (j + 1)) := by
        rw [half_pow, hnc]; omega
      rw [chunkAlive_append_left _ _ _ _ hB, hroot] at hdead
      have hpar := inTree_le (inTree_parent hinj hjT)
      exact ⟨(hL.mem j).mpr ⟨hbit, hdead, by rw [half_pow, hnc]; exact hpar⟩, hnc.symm⟩
  · rintro ⟨hjL, hcn⟩
    obtain ⟨hb, hdead, _⟩ := (hL.mem j).mp hjL
    rw [hcn, sibIdx_root hb, chunkAlive_append_left _ _ _ _ (root_chunk_le hb)]
    exact hdead

/-- **a chunk that contains an added slot sits where the destroyed roots lift its uncollapsed
position `(l, b)`** -/
theorem new_chunk_moveA (S' : List (Option H)) (adds : List H) (L : List Nat)
    (hL : DestroySpec S' adds.length L) (hN : S'.length + adds.length < 2 ^ 64) {T l b : Nat}
    (hin : Spec.inTree (S'.length + adds.length) T l b) (hnew : S'.length < (b + 1) * 2 ^ l) :
    nodePos (S' ++ adds.map some) T l b =
      moveA (S'.length + adds.length) T (destroyedPos S'.length L) (l, b) := by
  have hlen : (S' ++ adds.map some).length = S'.length + adds.length := by simp
  have hlT : l ≤ T := hin.2.1
  have htop : nodePos (S' ++ adds.map some) T l b =
      liftFold 0 (l, b) (deadLevels (chunkAlive (S' ++ adds.map some)) (T - l) l b) := by
    unfold nodePos
    rw [hlen, ← hin.2.2, liftFold_rows, Nat.zero_add, ← fpos_eq_liftFold,
      show l + (T - l) = T by omega]
  rw [htop]
  symm
  have hpw := destroyedPos_pairwise (n := S'.length) hL.asc
  have hyp : HitHyp (S'.length + adds.length) T (destroyedPos S'.length L) (l, b) :=
    ⟨hpw.imp (fun h => Nat.le_of_lt h), hpw.imp (fun h e => by subst e; omega), by
      intro A hA B hB _ _ _ _ hAB
      rw [mem_destroyedPos] at hA hB
      apply Prod.ext hAB
      rw [hA.2, hB.2, hAB]⟩
  apply moveA_eq_liftFold hyp (deadLevels_asc _ _ _ _)
  intro j
  rw [mem_deadLevels]
  constructor
  · rintro ⟨hlj, hjT, hdead⟩
    have hjT' : j < T := by omega
    obtain ⟨hjL, hc⟩ := (new_dead_level S' adds L hL hin hnew hlj hjT').mp hdead
    obtain ⟨hb, _, _⟩ := (hL.mem j).mp hjL
    have hinj : Spec.inTree (S'.length + adds.length) T j (b / 2 ^ (j - l)) := by
      have := inTree_anc hin (m := j - l) (by omega)
      rwa [show l + (j - l) = j by omega] at this
    have hsib := inTree_sib hinj hjT'
    rw [hc, sibIdx_root hb] at hsib
    refine ⟨(j, 2 * (S'.length / 2 ^ (j + 1))), mem_destroyedPos.mpr ⟨hjL, rfl⟩, ?_, ?_, rfl⟩
    · rw [CalcComplete.inTree_iff, Nat.shiftRight_eq_div_pow]
      exact ⟨hsib.2.1, hsib.2.2⟩
    · unfold hitA
      simp only [decide_eq_true_eq]
      refine ⟨hlj, ?_⟩
      rw [Nat.mul_div_cancel_left _ (by decide : 0 < 2),
        show j + 1 - l = (j - l) + 1 by omega, Nat.pow_succ, ← Nat.div_div_eq_div_mul, hc, ← half_pow]
  · rintro ⟨A, hA, hinA, hhit, rfl⟩
    obtain ⟨hjL, hA2⟩ := mem_destroyedPos.mp hA
    obtain ⟨hb, _, _⟩ := (hL.mem A.1).mp hjL
    unfold hitA at hhit
    simp only [decide_eq_true_eq] at hhit
    obtain ⟨hlj, hh2⟩ := hhit
    rw [hA2, Nat.mul_div_cancel_left _ (by decide : 0 < 2)] at hh2
    -- `A` is not the root of the tree on row `T`
    have hjT : A.1 < T := by
      obtain ⟨RT, hRT, huT, hlt⟩ := destroyed_strict S' adds.length L hL hN A hA
      have hu := (CalcComplete.inTree_iff _ _ _).1 hinA
      have hTT : RT = T := by
        rcases Nat.lt_trichotomy RT T with h | h | h
        · exact (under_disjoint h hin.1 hu huT).elim
        · exact h
        · exact (under_disjoint h (bit_of_mem hRT) huT hu).elim
      omega
    refine ⟨hlj, by omega, ?_⟩
    apply (new_dead_level S' adds L hL hin hnew hlj hjT).mpr
    refine ⟨hjL, ?_⟩
    -- the ancestor of the chunk on row `A.1` is the sibling of `A`
    have hnewc : S'.length < (b / 2 ^ (A.1 - l) + 1) * 2 ^ A.1 := by
      have := chunk_anc_le (b := b) (l := l) (m := A.1 - l) rfl
      rw [show l + (A.1 - l) = A.1 by omega] at this
      omega
    have hhalf : b / 2 ^ (A.1 - l) / 2 = S'.length / 2 ^ (A.1 + 1) := by
      rw [← hh2, show A.1 + 1 - l = (A.1 - l) + 1 by omega, Nat.pow_succ, ← Nat.div_div_eq_div_mul]
    have hodd := testBit_div_odd.mp hb
    have hhp := half_pow S'.length A.1
    have hrc := root_chunk_le hb
    generalize b / 2 ^ (A.1 - l) = c at *
    by_cases hce : c = 2 * (S'.length / 2 ^ (A.1 + 1))
    · exfalso
      rw [hce] at hnewc
      omega
    · omega

end newchunks

/-! ### every node with an added leaf is the image of an origin outside the old forest -/

section neworigin
set_option linter.unusedSectionVars false
variable {H : Type} [DecidableEq H] [Hasher H]
variable {F : Forest H} {adds : List H} {L : List Nat}
  (hN : F.numLeaves + adds.length ≤ 2 ^ 63)
  (hL : DestroySpec F.slots adds.length L)
  (hndG : (F.addMany adds).liveLeaves.Nodup)
include hN hL hndG

/-- **a node of the new forest that contains an added leaf** is the forward image of an origin
(the uncollapsed position of its lowest chunk) that does not exist in the old forest -/
theorem new_origin {T : Nat} {q : Pos} {t : CTree H} (s : SubAtT (F.addMany adds) T q t)
    {a : H} (ha : a ∈ adds) (hat : a ∈ t.leaves) :
    ∃ p, Origin (F.numLeaves + adds.length) (destroyedPos F.numLeaves L) p T ∧
      moveA (F.numLeaves + adds.length) T (destroyedPos F.numLeaves L) p = q ∧
      ¬ p.2 < F.numLeaves / 2 ^ p.1 := by
  have hlenF : F.slots.length = F.numLeaves := rfl
  have hlen : (F.slots ++ adds.map some).length = F.numLeaves + adds.length := by
    simp [Forest.numLeaves]
  have hS64 : (F.slots ++ adds.map some).length < 2 ^ 64 := by rw [hlen]; omega
  have hGe : F.addMany adds = Forest.mk (F.slots ++ adds.map some) := rfl
  rw [hGe] at s
  obtain ⟨l0, b0, hin0, hch0, hq0, _⟩ := chunk_of_subAtT _ hS64 s
  obtain ⟨l, b, hle, hdiv, hch, hlow, hpos⟩ := lowest_chunk _ l0 b0 t hch0
  have hq : q = nodePos (F.slots ++ adds.map some) T l b := by rw [hq0, hpos T hin0]
  rw [hlen] at hin0
  -- the lowest chunk lies in the same tree
  have hin : Spec.inTree (F.numLeaves + adds.length) T l b := by
    obtain ⟨h1, h2, h3⟩ := hin0
    refine ⟨h1, by omega, ?_⟩
    rw [← h3, ← hdiv, Nat.div_div_eq_div_mul, ← Nat.pow_add]
    congr 2; omega
  -- it contains an added slot
  have hnew : F.numLeaves < (b + 1) * 2 ^ l := by
    obtain ⟨j, hj1, hj2, hj3⟩ := chunk_leaf_slot _ hch hat
    obtain ⟨i, hi, hi3⟩ := added_slot (F := F) ha
    have hji := slot_index_unique _ hndG j (F.numLeaves + i) a hj3 hi3
    omega
  have hmv := new_chunk_moveA F.slots adds L hL (by omega) (by rw [hlenF]; exact hin)
    (by rw [hlenF]; exact hnew)
  rw [hlenF] at hmv
  refine ⟨(l, b), ⟨?_, under_of_inTree hin, ?_, ?_⟩, by rw [hq, hmv], ?_⟩
  · exact CalcComplete.mem_treeRows (by omega) hin.1
  · have := destroyed_dtOK F.slots adds.length L hL (by omega) T
    rwa [hlenF] at this
  · intro A hA _
    obtain ⟨hjL, hA2⟩ := mem_destroyedPos.mp hA
    obtain ⟨hb, hdead, _⟩ := (hL.mem A.1).mp hjL
    rw [hlenF] at hb hdead
    have hrc := root_chunk_le hb
    constructor
    · -- the parent of a destroyed root has a dead half
      intro e
      have e1 : l = A.1 + 1 := congrArg Prod.fst e
      have e2 : b = A.2 / 2 := congrArg Prod.snd e
      rcases hlow with h0 | ⟨h1, _⟩
      · omega
      · rw [e1, Nat.add_sub_cancel, e2, hA2, Nat.mul_div_cancel_left _ (by decide : 0 < 2),
          chunkAlive_append_left _ _ _ _ (by rw [hlenF]; exact hrc), hdead] at h1
        cases h1
    · -- the chunk does not lie below the destroyed root
      rintro ⟨h1, h2⟩
      simp only at h1 h2
      have := chunk_anc_le (b := b) (l := l) (m := A.1 - l) h2
      rw [show l + (A.1 - l) = A.1 by omega, hA2] at this
      omega
  · simp only
    intro hlt
    have h1 : (b + 1) * 2 ^ l ≤ F.numLeaves / 2 ^ l * 2 ^ l := Nat.mul_le_mul_right _ hlt
    have h2 := Nat.div_mul_le_self F.numLeaves (2 ^ l)
    omega

end neworigin

end UtreexoVerif.Proofs.ProofUndoAddMove
