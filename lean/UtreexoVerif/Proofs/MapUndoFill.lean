/-
  `Undo`, filling the hole: after `placeProof` + `calculateHashes` + `putCalculated` of
  `undoDeletion` the holed invariant `HInv` (hole = path set of the re-inserted targets) becomes
  the hole-free one.  Adaptation of `MapIngest.ainv_ingest`.
-/
import UtreexoVerif.Proofs.MapUndoDefs
import UtreexoVerif.Proofs.MapIngest
import UtreexoVerif.Proofs.MapLiftCore
open UtreexoVerif Model Spec Spec.Forest Proofs MapInv MapPrune MapRep MapLiftGeo PForest MapAInv MapLiftCore MapUndoDefs MapIngest Hasher

namespace UtreexoVerif.Proofs.MapUndoSteps
set_option linter.unusedSectionVars false
set_option linter.unusedVariables false
variable {H : Type} [DecidableEq H] [Hasher H]
variable {A : Pos → Option (Leaf H)} {C : H → Option Pos} {N N'' : List (Pos × H × Bool)}
  {R : Pos → Prop} {K : H → Prop}

/-- monotonicity in the hole: a bigger hole that still avoids the cached leaves (declared in the
namespace of `HInv`, so that `inv.mono_hole h hk` works) -/
theorem _root_.UtreexoVerif.Proofs.MapUndoDefs.HInv.mono_hole {Hole Hole' : Pos → Prop} (inv : HInv A C N R K Hole) (h : ∀ q, Hole q → Hole' q)
    (hk : ∀ t, KLeaf N K t → ¬ Hole' t) : HInv A C N R K Hole' where
  true_hash := fun q l hl hh => inv.true_hash q l hl (fun hq => hh (h q hq))
  cache_sub := inv.cache_sub
  cached_pos := fun x t hc =>
    ⟨(inv.cached_pos x t hc).1, hk t ⟨x, inv.cache_sub x t hc, (inv.cached_pos x t hc).1⟩⟩
  kleaf_out := hk
  leaf_stored := inv.leaf_stored
  only_needed := fun q l hl hh hnr => inv.only_needed q l hl (fun hq => hh (h q hq)) hnr
  has_needed := fun q x b hm hh hnr hreq => inv.has_needed q x b hm (fun hq => hh (h q hq)) hnr hreq
  flags := fun q l hl hh hnz => inv.flags q l hl (fun hq => hh (h q hq)) hnz

/-- **filling the hole** (`placeProof` + `calculateHashes` + `putCalculated` of `undoDeletion`): the
hole is the path set `PS` of the re-inserted targets `ts`; `ingA` (Proofs/MapIngest.lean) overwrites
it with the true hashes, stores the missing proof positions `PP` and the targets join the cache -/
theorem hinv_fill (Lw : Laws N R) {PS PP ts : List Pos} {tv : Pos → H} {KL : H → Prop} {C2 : H → Option Pos}
    (inv : HInv A C N R (fun x => (C x).isSome = true) (fun q => q ∈ PS))
    (hT : ∀ t, t ∈ ts ↔ ∃ x, KL x ∧ (t, x, true) ∈ N)
    (hPSn : ∀ q ∈ PS, ∃ b, (q, tv q, b) ∈ N)
    (hPSt : ∀ q ∈ PS, ∃ t ∈ ts, Anc q t)
    (hPS2 : ∀ t ∈ ts, t ∈ PS)
    (hPS3 : ∀ q h b t, (q, h, b) ∈ N → t ∈ ts → Anc q t → q ∈ PS)
    (hPP : ∀ q, q ∈ PP ↔ q ∉ PS ∧ ∃ x ∈ PS, ¬ R x ∧ q = sib x)
    (hPPn : ∀ q ∈ PP, ∃ b, (q, tv q, b) ∈ N)
    (hC2a : ∀ x t, C2 x = some t → C x = some t ∨ (KL x ∧ (t, x, true) ∈ N))
    (hC2b : ∀ x, (C2 x).isSome = true ↔ ((C x).isSome = true ∨ KL x)) :
    HInv (ingA PS PP ts tv A) C2 N R (fun x => (C2 x).isSome = true) (fun _ => False) := by
  -- the leaves of the new cached set
  have hK : ∀ t, KLeaf N (fun x => (C2 x).isSome = true) t ↔
      (KLeaf N (fun x => (C x).isSome = true) t ∨ t ∈ ts) := by
    intro t
    constructor
    · rintro ⟨x, hx, hm⟩
      rcases (hC2b x).1 hx with h | h
      · exact Or.inl ⟨x, h, hm⟩
      · exact Or.inr ((hT t).2 ⟨x, h, hm⟩)
    · rintro (⟨x, hx, hm⟩ | h)
      · exact ⟨x, (hC2b x).2 (Or.inl hx), hm⟩
      · obtain ⟨x, hx, hm⟩ := (hT t).1 h
        exact ⟨x, (hC2b x).2 (Or.inr hx), hm⟩
  have tsK : ∀ t ∈ ts, KLeaf N (fun x => (C2 x).isSome = true) t := fun t ht => (hK t).2 (Or.inr ht)
  -- a path node that is a leaf node is a target
  have leaf_PS : ∀ q ∈ PS, ∀ x, (q, x, true) ∈ N → q ∈ ts := by
    intro q hq x hm
    obtain ⟨t, ht, ha⟩ := hPSt q hq
    obtain ⟨y, _, hy⟩ := (hT t).1 ht
    have := Lw.leaf_below q x t y true hm hy ha
    rw [← this]; exact ht
  refine { true_hash := ?_, cache_sub := ?_, cached_pos := ?_, kleaf_out := ?_, leaf_stored := ?_,
           only_needed := ?_, has_needed := ?_, flags := ?_ }
  · -- true_hash
    intro q l hl _
    unfold ingA at hl
    split at hl
    · rename_i hq
      obtain ⟨b, hb⟩ := hPSn q hq
      simp only [Option.some.injEq] at hl
      rw [← hl]; exact ⟨b, hb⟩
    · rename_i hqPS
      split at hl
      · rename_i hq
        obtain ⟨b, hb⟩ := hPPn q hq.1
        simp only [Option.some.injEq] at hl
        rw [← hl]; exact ⟨b, hb⟩
      · exact inv.true_hash q l hl hqPS
  · -- cache_sub
    intro x t h
    show (C2 x).isSome = true
    rw [h]; rfl
  · -- cached_pos
    intro x t h
    refine ⟨?_, fun h => h⟩
    rcases hC2a x t h with h | h
    · exact (inv.cached_pos x t h).1
    · exact h.2
  · -- kleaf_out
    exact fun _ _ h => h
  · -- leaf_stored
    intro t hk
    rcases (hK t).1 hk with hk | hk
    · exact ingA_ne_none (inv.leaf_stored t hk)
    · unfold ingA
      rw [if_pos (hPS2 t hk)]; simp
  · -- only_needed
    intro q l hl _ hnr
    unfold ingA at hl
    split at hl
    · rename_i hq
      obtain ⟨t, ht, ha⟩ := hPSt q hq
      exact ⟨t, tsK t ht, ha.1, ha.parent⟩
    · rename_i hqPS
      split at hl
      · rename_i hq
        obtain ⟨_, x, hx, hnrx, rfl⟩ := (hPP q).1 hq.1
        obtain ⟨t, ht, ha⟩ := hPSt x hx
        refine ⟨t, tsK t ht, ?_, ?_⟩
        · rw [sib_fst]; exact ha.1
        · rw [parent_sib]; exact ha.parent
      · obtain ⟨t, hk, hle, hanc⟩ := inv.only_needed q l hl hqPS hnr
        exact ⟨t, (hK t).2 (Or.inl hk), hle, hanc⟩
  · -- has_needed
    intro q h b hq _ hnr hreq
    by_cases hqPS : q ∈ PS
    · unfold ingA
      rw [if_pos hqPS]; simp
    rcases hreq with hk | ⟨t, hk, hanc⟩
    · rcases (hK q).1 hk with hk | hk
      · exact ingA_ne_none (inv.leaf_stored q hk)
      · exact absurd (hPS2 q hk) hqPS
    · rcases (hK t).1 hk with hk | hk
      · exact ingA_ne_none (inv.has_needed q h b hq hqPS hnr (Or.inr ⟨t, hk, hanc⟩))
      · obtain ⟨hs, bs, hsq⟩ := Lw.sib_node q h b hq hnr
        have hsPS : sib q ∈ PS := hPS3 (sib q) hs bs t hsq hk hanc
        have hsnr := sib_not_root Lw hq hnr
        unfold ingA
        rw [if_neg hqPS]
        have hqPP : q ∈ PP := (hPP q).2 ⟨hqPS, sib q, hsPS, hsnr, (sib_sib q).symm⟩
        by_cases hA : A q = none
        · rw [if_pos ⟨hqPP, hA⟩]; simp
        · rw [if_neg (fun h => hA h.2)]; exact hA
  · -- flags
    intro q l hl _ hnz
    unfold ingA at hl
    split at hl
    · rename_i hq
      simp only [Option.some.injEq] at hl
      rw [← hl]
      simp only [decide_eq_true_eq]
      rw [hK]
      constructor
      · exact Or.inr
      · rintro (⟨x, _, hm⟩ | h)
        · exact leaf_PS q hq x hm
        · exact h
    · rename_i hqPS
      have hqts : q ∉ ts := fun h => hqPS (hPS2 q h)
      split at hl
      · rename_i hq
        simp only [Option.some.injEq] at hl
        rw [← hl, hK]
        simp only [Bool.false_eq_true, false_iff]
        rintro (hk | h)
        · exact inv.leaf_stored q hk hq.2
        · exact hqts h
      · rw [inv.flags q l hl hqPS hnz, hK]
        constructor
        · exact Or.inl
        · rintro (h | h)
          · exact h
          · exact absurd h hqts

/-! ## non-vacuity

`m5p` / `F5` of `Proofs/MapIngest.lean` (five live leaves, only leaf 4 cached, only the two roots
stored): the hole is the path set of the leaves 1 and 3, which `ingA` fills. -/

namespace Example
open Props.C09.Example MapSInv.Example MapIngest.Example SpecPlan PForestSpec

/-- the hypotheses of `hinv_fill` (and of `HInv.mono_hole`, which provides the holed invariant) hold
on a concrete instance with a non-empty hole (five path nodes) and two proof positions -/
example : ∃ (A : Pos → Option (Leaf T)) (C C2 : T → Option Pos),
    (pathSet F5 [(0, 1), (0, 3)]).length = 5 ∧ (F5.proofPositions [(0, 1), (0, 3)]).length = 2 ∧
    HInv A C F5.nodes (FRoot F5) (fun x => (C x).isSome = true) (fun q => q ∈ pathSet F5 [(0, 1), (0, 3)]) ∧
    HInv (ingA (pathSet F5 [(0, 1), (0, 3)]) (F5.proofPositions [(0, 1), (0, 3)]) [(0, 1), (0, 3)] (tvF F5) A)
      C2 F5.nodes (FRoot F5) (fun x => (C2 x).isSome = true) (fun _ => False) := by
  have s := m5p_sinv
  have Lw := s.laws crT.toNZ
  have hn64 := s.n_lt64
  obtain ⟨A, C, rep, inv⟩ := s.abs
  have hc := canon13
  have tok := canon_targetsOK hc
  -- the path nodes that are leaf nodes carry the two target leaves
  have hleaf : ∀ e ∈ F5.nodes, e.1 ∈ pathSet F5 [(0, 1), (0, 3)] → e.2.2 = true →
      e.2.1 = T.leaf 1 ∨ e.2.1 = T.leaf 3 := by decide +kernel
  have hnc : m5p.hasCached (T.leaf 1) = false ∧ m5p.hasCached (T.leaf 3) = false := by decide +kernel
  have hk : ∀ t, KLeaf F5.nodes (fun x => (C x).isSome = true) t → ¬ t ∈ pathSet F5 [(0, 1), (0, 3)] := by
    rintro t ⟨x, hx, hm⟩ ht
    have hx' : m5p.hasCached x = true := by rw [rep.hasCached x]; exact hx
    rcases hleaf _ hm ht rfl with h | h
    · simp only at h; rw [h, hnc.1] at hx'; cases hx'
    · simp only at h; rw [h, hnc.2] at hx'; cases hx'
  have hinv : HInv A C F5.nodes (FRoot F5) (fun x => (C x).isSome = true)
      (fun q => q ∈ pathSet F5 [(0, 1), (0, 3)]) :=
    (HInv.of_ainv inv).mono_hole (fun _ h => h.elim) hk
  let C2 : T → Option Pos := fun x => if x ∈ [T.leaf 1, T.leaf 3] then F5.posOf x else C x
  refine ⟨A, C, C2, by decide +kernel, by decide +kernel, hinv, ?_⟩
  refine hinv_fill Lw (KL := fun x => x ∈ [T.leaf 1, T.leaf 3]) hinv
    (ts_iff crT.toNZ hn64 s.hyg hc)
    (fun q hq => ps_node hc hq)
    (fun q hq => ps_anc hc hq)
    (fun t ht => targets_sub_pathSet tok ht)
    (fun q h b t hq ht ha => ps_of_anc hc hq ht ha)
    pp_iff
    (fun q hq => pp_node hc hq) ?_ ?_
  · intro x t h
    by_cases hx : x ∈ [T.leaf 1, T.leaf 3]
    · simp only [C2, if_pos hx] at h
      exact Or.inr ⟨hx, posOf_mem h⟩
    · simp only [C2, if_neg hx] at h
      exact Or.inl h
  · intro x
    by_cases hx : x ∈ [T.leaf 1, T.leaf 3]
    · simp only [C2, if_pos hx]
      have : (F5.posOf x).isSome = true := by
        simp only [List.mem_cons, List.not_mem_nil, or_false] at hx
        rcases hx with rfl | rfl <;> decide +kernel
      simp [this, hx]
    · simp only [C2, if_neg hx]
      simp [hx]

end Example

#print axioms HInv.mono_hole
#print axioms hinv_fill

end UtreexoVerif.Proofs.MapUndoSteps
