/-
  `undoAdd` on the 63-row encoded positions of live slots (property C15).

  `S` = slot list after a block's deletions (`n` slots), `stage S j = S ++ fresh n j` the slot
  list after `j` of the block's additions.  `undoAdd` undoes the additions one at a time; before
  undoing addition `j` the tracked position of a slot `s` is `cur S (n + j) s`: its position in
  `stage S j` when it exists there, its leaf position `(0, s)` otherwise.
-/
import UtreexoVerif.Proofs.SchedAddU
import UtreexoVerif.Proofs.SchedLives
import UtreexoVerif.Proofs.Schedule
set_option linter.unusedSectionVars false
set_option linter.unusedVariables false

namespace UtreexoVerif.Proofs.SchedUndoAdd
open UtreexoVerif UtreexoVerif.GoInt Spec Model
open UtreexoVerif.Proofs UtreexoVerif.Proofs.FinalPos UtreexoVerif.Proofs.SchedSem
open UtreexoVerif.Proofs.SpecNodes UtreexoVerif.Proofs.CalcGeo UtreexoVerif.Proofs.SchedAdd
open UtreexoVerif.Proofs.SchedAddU UtreexoVerif.Proofs.SchedPos UtreexoVerif.Proofs.StumpAddPos
open UtreexoVerif.Proofs.AddMove

/-- the slot list after `j` additions -/
def stage (S : List (Option Nat)) (j : Nat) : List (Option Nat) := S ++ fresh S.length j

theorem fresh_length (n k : Nat) : (fresh n k).length = k := by simp [fresh]

theorem stage_length (S : List (Option Nat)) (j : Nat) : (stage S j).length = S.length + j := by
  simp [stage, fresh_length]

theorem fresh_succ (n k : Nat) : fresh n (k + 1) = fresh n k ++ [some (n + k)] := by
  simp [fresh, List.range_succ]

theorem stage_succ (S : List (Option Nat)) (j : Nat) :
    stage S (j + 1) = stage S j ++ [some (S.length + j)] := by
  simp [stage, fresh_succ]

theorem stage_zero (S : List (Option Nat)) : stage S 0 = S := by simp [stage, fresh]

theorem stage_old (S : List (Option Nat)) (j : Nat) {s : Nat} (hs : s < S.length) :
    (stage S j)[s]? = S[s]? := by
  unfold stage; rw [List.getElem?_append_left hs]

theorem stage_new (S : List (Option Nat)) (j : Nat) {s : Nat} (h1 : S.length ≤ s) (h2 : s < S.length + j) :
    (stage S j)[s]? = some (some s) := by
  unfold stage
  rw [List.getElem?_append_right h1, SchedLives.fresh_getElem?, if_pos (by omega)]
  congr 2; omega

/-- a dead chunk of a stage lies inside the old slots -/
theorem dead_chunk_old (S : List (Option Nat)) (j l b : Nat) (hle : (b + 1) * 2 ^ l ≤ S.length + j)
    (hd : chunkAlive (stage S j) l b = false) : (b + 1) * 2 ^ l ≤ S.length := by
  apply Classical.byContradiction
  intro hc
  have hpos := Nat.two_pow_pos l
  rw [Nat.add_mul, Nat.one_mul] at hle hc
  have hi : S.length ≤ max S.length (b * 2 ^ l) := Nat.le_max_left _ _
  have := chunkAlive_of_slot (stage S j) l b (max S.length (b * 2 ^ l)) (max S.length (b * 2 ^ l))
    (stage_new S j hi (by omega)) (Nat.le_max_right _ _) (by rw [Nat.add_mul, Nat.one_mul]; omega)
  rw [this] at hd
  cases hd

theorem chunk_stage_old (S : List (Option Nat)) (j l b : Nat) (hle : (b + 1) * 2 ^ l ≤ S.length) :
    chunkAlive (stage S j) l b = chunkAlive S l b :=
  chunkAlive_append_left _ _ _ _ hle

/-- the value `LeftChild` computes on a leaf position in 63 rows -/
theorem leftChild_leaf {m : Nat} (hm : m < 2 ^ 62) :
    LeftChild (E 63 (0, m)) (H8 63) = BitVec.ofNat 64 (2 * m) := by
  rw [E63_leaf]
  unfold LeftChild
  apply BitVec.eq_of_toNat_eq
  have hmask : (shl (2#64 : U64) (H8 63).toNat - 1#64) = BitVec.allOnes 64 := by decide
  simp only [hmask, BitVec.and_allOnes]
  rw [toNat_shl, BitVec.toNat_ofNat, BitVec.toNat_ofNat, Nat.mod_eq_of_lt (by omega),
    Nat.mod_eq_of_lt (by omega), Nat.mod_eq_of_lt (by omega)]
  omega


/-! ### `toDestroy` along the additions -/

/-- the root on row `l` of `stage S j` is dead -/
def dzOf (S : List (Option Nat)) (j : Nat) : Nat → Bool :=
  fun l => !chunkAlive (stage S j) l (2 * ((S.length + j) / 2 ^ (l + 1)))

theorem bit_lt {n h : Nat} (hn : n < 2 ^ 62) (hb : n.testBit h = true) : h < 62 := by
  apply Classical.byContradiction
  intro hc
  have : n < 2 ^ h := Nat.lt_of_lt_of_le hn (Nat.pow_le_pow_right (by decide) (by omega))
  rw [Nat.testBit_lt_two_pow this] at hb
  cases hb

theorem div_eq_of_between {a b c : Nat} (hc : 0 < c) (h1 : b * c ≤ a) (h2 : a < (b + 1) * c) : a / c = b := by
  apply Nat.le_antisymm
  · have := (Nat.div_lt_iff_lt_mul hc).mpr h2
    omega
  · exact (Nat.le_div_iff_mul_le hc).mpr h1

section
variable (S : List (Option Nat)) (j : Nat) {k : Nat}
  (hk : ∀ i, i < k → (S.length + j).testBit i = true) (hm : S.length + j < 2 ^ 62)
include hk hm

/-- a dead root of the stage on a row below `k` is a destroyed root of `S`, and conversely -/
theorem destroyed_iff_dead {l : Nat} (hl : l < k) :
    (∃ h, DestroyedRow S (j + 1) h ∧
        E 63 (l, 2 * ((S.length + j) / 2 ^ (l + 1))) = E63 (h, 2 * (S.length / 2 ^ (h + 1)))) ↔
      dzOf S j l = true := by
  have hk62 := trailing_le hk hm
  have hbit := hk l hl
  have hodd := trailing_odd hk hl
  unfold dzOf
  constructor
  · rintro ⟨h, ⟨hb, hd, _⟩, e⟩
    have hh := bit_lt (show S.length < 2 ^ 62 by omega) hb
    have := E_inj (by decide) (root_valid (show S.length + j < 2 ^ 63 by omega) (by omega))
      (root_valid (show S.length < 2 ^ 63 by omega) (by omega)) e
    injection this with e1 e2
    subst e1
    rw [e2, chunk_stage_old S j l _ (root_chunk_le hb), hd]
    rfl
  · intro hd
    have hdead : chunkAlive (stage S j) l (2 * ((S.length + j) / 2 ^ (l + 1))) = false := by
      cases h : chunkAlive (stage S j) l (2 * ((S.length + j) / 2 ^ (l + 1))) with
      | false => rfl
      | true => rw [h] at hd; cases hd
    have hrc := root_chunk_le hbit
    have hold := dead_chunk_old S j l _ hrc hdead
    have hpos := Nat.two_pow_pos l
    have hlt : S.length + j < (S.length + j) / 2 ^ l * 2 ^ l + 2 ^ l := by
      have := lt_succ_div_mul (S.length + j) (2 ^ l) hpos
      rwa [Nat.add_mul, Nat.one_mul] at this
    have hdiv : S.length / 2 ^ l = 2 * ((S.length + j) / 2 ^ (l + 1)) + 1 := by
      apply div_eq_of_between hpos hold
      rw [← hodd, Nat.add_mul, Nat.one_mul]
      omega
    have hb : S.length.testBit l = true := by rw [testBit_div_odd, hdiv]; omega
    have hhalf : S.length / 2 ^ (l + 1) = (S.length + j) / 2 ^ (l + 1) := by
      rw [half_pow, hdiv]; omega
    refine ⟨l, ⟨hb, ?_, ?_⟩, by rw [hhalf]⟩
    · rw [hhalf, ← chunk_stage_old S j l _ hold]; exact hdead
    · have hf := trailing_form (n := S.length + j) (k := l + 1) (fun i hi => hk i (by omega))
      rw [hhalf, Nat.add_mul, Nat.one_mul]
      have := Nat.two_pow_pos (l + 1)
      omega

theorem htd_of_tdok {td : List U64} (htd : TdOK S (j + 1) td) :
    Htd (S.length + j) (dzOf S j) k td := by
  refine ⟨htd.1, fun l hl => ?_, ?_⟩
  · rw [htd.2]
    exact destroyed_iff_dead S j hk hm hl
  · rw [leftChild_leaf hm, htd.2]
    rintro ⟨h, ⟨hb, _, _⟩, e⟩
    have hh := bit_lt (show S.length < 2 ^ 62 by omega) hb
    have hv := root_valid (n := S.length) (j := h) (by omega) (by omega)
    have hrc := root_chunk_le hb
    have e' := congrArg BitVec.toNat e
    rw [BitVec.toNat_ofNat, Nat.mod_eq_of_lt (by omega), E_toNat (by decide) hv, enc_val] at e'
    rcases Nat.eq_zero_or_pos h with h0 | h0
    · subst h0
      simp at e' hrc
      omega
    · have : 2 ^ (63 + 1 - h) ≤ 2 ^ 63 := Nat.pow_le_pow_right (by decide) (by omega)
      omega

/-- what `undoSingleAdd` leaves of `toDestroy` is the list for one addition less -/
theorem tdok_pred (hk0 : (S.length + j).testBit k = false) {td : List U64} (htd : TdOK S (j + 1) td) :
    TdOK S j (saTd (H8 63) (k + 1) (E 63 (k, (S.length + j) / 2 ^ k)) td) := by
  have hk62 := trailing_le hk hm
  obtain ⟨h1, h2⟩ := saTd_spec hk hm (dzOf S j) k td (Nat.le_refl _) (htd_of_tdok S j hk hm htd)
  refine ⟨h1, fun y => ?_⟩
  rw [h2 y, htd.2]
  constructor
  · rintro ⟨⟨h, ⟨hb, hd, hle⟩, e⟩, hall⟩
    refine ⟨h, ⟨hb, hd, ?_⟩, e⟩
    apply Classical.byContradiction
    intro hc
    have heq : (S.length / 2 ^ (h + 1) + 1) * 2 ^ (h + 1) = S.length + j + 1 := by omega
    -- then `h < k` and the root is the one removed on level `h`
    have hpos := Nat.two_pow_pos (h + 1)
    have hq : (S.length + j) / 2 ^ (h + 1) = S.length / 2 ^ (h + 1) := by
      apply div_eq_of_between hpos
      · rw [Nat.add_mul, Nat.one_mul] at heq; omega
      · omega
    have hmod : (S.length + j) % 2 ^ (h + 1) = 2 ^ (h + 1) - 1 := by
      have := Nat.div_add_mod (S.length + j) (2 ^ (h + 1))
      rw [hq] at this
      rw [Nat.add_mul, Nat.one_mul] at heq
      rw [Nat.mul_comm] at this
      omega
    have hhk : h < k := by
      apply Classical.byContradiction
      intro hge
      have hkbit : (S.length + j).testBit k = true := by
        have h1 := Nat.testBit_mod_two_pow (S.length + j) (h + 1) k
        rw [hmod, Nat.testBit_two_pow_sub_one] at h1
        have : decide (k < h + 1) = true := by simp; omega
        rw [this] at h1
        simpa using h1.symm
      rw [hkbit] at hk0
      cases hk0
    have hdz : dzOf S j h = true := by
      unfold dzOf
      rw [hq, chunk_stage_old S j h _ (root_chunk_le hb), hd]
      rfl
    exact hall h hhk hdz (by rw [e, hq])
  · rintro ⟨h, ⟨hb, hd, hle⟩, e⟩
    refine ⟨⟨h, ⟨hb, hd, by omega⟩, e⟩, fun l hl hdz hy => ?_⟩
    have hh := bit_lt (show S.length < 2 ^ 62 by omega) hb
    rw [e] at hy
    have := E_inj (by decide) (root_valid (show S.length < 2 ^ 63 by omega) (by omega))
      (root_valid (show S.length + j < 2 ^ 63 by omega) (by omega)) hy
    injection this with e1 e2
    subst e1
    have hf := trailing_form (n := S.length + j) (k := h + 1) (fun i hi => hk i (by omega))
    have hq : S.length / 2 ^ (h + 1) = (S.length + j) / 2 ^ (h + 1) := by omega
    rw [hq, Nat.add_mul, Nat.one_mul] at hle
    have := Nat.two_pow_pos (h + 1)
    omega

end


/-! ### the tracked positions -/

/-- encoding of the tracked slot `s` when `j` additions are still applied -/
def cur (S : List (Option Nat)) (j : Nat) (s : Nat) : U64 :=
  if s < S.length + j then E 63 (posS (stage S j) s) else E 63 (0, s)

/-- the tracked slots: distinct, live after the `K` additions -/
def Trk (S : List (Option Nat)) (K : Nat) (P : List Nat) : Prop :=
  P.Nodup ∧ ∀ s ∈ P, s < S.length + K ∧ (s < S.length → Live S s)

theorem sliceIndex_map {P : List Nat} {f : Nat → U64} {v : U64} {t : Nat}
    (h : ∀ s ∈ P, f s = v ↔ s = t) :
    sliceIndex (P.map f) v = if t ∈ P then ((P.idxOf t : Nat) : Int) else -1 := by
  unfold sliceIndex
  induction P with
  | nil => simp
  | cons a P ih =>
    have ih' := ih (fun s hs => h s (List.mem_cons_of_mem _ hs))
    rw [List.map_cons, List.findIdx?_cons]
    by_cases ha : a = t
    · have hfa : f a = v := (h a List.mem_cons_self).mpr ha
      subst ha
      simp [hfa]
    · have hne : ¬ f a = v := fun e => ha ((h a List.mem_cons_self).mp e)
      have hb : (f a == v) = false := beq_false_of_ne hne
      rw [hb]
      simp only [Bool.false_eq_true, if_false]
      rw [List.idxOf_cons, beq_false_of_ne ha]
      simp only [cond_false, List.mem_cons]
      have hta : ¬ t = a := fun e => ha e.symm
      simp only [hta, false_or]
      by_cases ht : t ∈ P
      · rw [if_pos ht] at ih' ⊢
        cases hf : List.findIdx? (fun x => x == v) (List.map f P) with
        | none => rw [hf] at ih'; simp at ih'
        | some i =>
          rw [hf] at ih'
          simp only [Option.map_some] at ih' ⊢
          omega
      · rw [if_neg ht] at ih' ⊢
        cases hf : List.findIdx? (fun x => x == v) (List.map f P) with
        | none => rfl
        | some i => rw [hf] at ih'; simp at ih'

theorem live_stage {S : List (Option Nat)} {K : Nat} {P : List Nat} (hP : Trk S K P) {s j : Nat}
    (hs : s ∈ P) (hj : s < S.length + j) : Live (stage S j) s := by
  obtain ⟨h1, h2⟩ := hP.2 s hs
  unfold Live
  rcases Nat.lt_or_ge s S.length with hlt | hge
  · rw [stage_old S j hlt]; exact h2 hlt
  · exact stage_new S j hge hj


theorem exists_trailing : ∀ n : Nat, ∃ k, (∀ i, i < k → n.testBit i = true) ∧ n.testBit k = false := by
  intro n
  induction n using Nat.strongRecOn with
  | _ n ih =>
    by_cases h0 : n % 2 = 1
    · obtain ⟨k, h1, h2⟩ := ih (n / 2) (by omega)
      refine ⟨k + 1, fun i hi => ?_, by rw [Nat.testBit_succ]; exact h2⟩
      cases i with
      | zero => rw [Nat.testBit_zero]; simp [h0]
      | succ i => rw [Nat.testBit_succ]; exact h1 i (by omega)
    · refine ⟨0, fun i hi => by omega, ?_⟩
      rw [Nat.testBit_zero]; simp; omega

theorem posS_under {S : List (Option Nat)} {s : Nat} (hn : S.length < 2 ^ 64) (hs : s < S.length) :
    ∃ T, S.length.testBit T = true ∧ Under T (2 * (S.length / 2 ^ (T + 1))) (posS S s) := by
  have hin := treeOf_spec hn hs
  refine ⟨SchedSem.treeOf S.length s, hin.1, ?_⟩
  unfold posS nodePos
  exact fpos_under _ (SchedSem.treeOf S.length s, _) _ 0 s (by simp)

/-- a position of the forest is not the leaf position of the next slot -/
theorem posS_ne_next {S : List (Option Nat)} {s : Nat} (hn : S.length < 2 ^ 64) (hs : s < S.length) :
    posS S s ≠ (0, S.length) := by
  obtain ⟨T, hb, hu⟩ := posS_under hn hs
  intro e
  rw [e] at hu
  obtain ⟨_, h2⟩ := hu
  simp only [Nat.sub_zero] at h2
  have := testBit_div_odd.mp hb
  rw [half_pow] at h2
  omega

section step
variable {S : List (Option Nat)} {K : Nat} {P : List Nat} (hP : Trk S K P) (hK : S.length + K ≤ 2 ^ 62)
  {j k : Nat} (hjK : j < K) (hk : ∀ i, i < k → (S.length + j).testBit i = true)
  (hk0 : (S.length + j).testBit k = false) {td : List U64} (htd : TdOK S (j + 1) td)
include hP hK hjK hk hk0 htd

/-- **one `undoSingleAdd` maps every tracked position one stage back** -/
theorem step_pos {s : Nat} (hs : s ∈ P) :
    saG (H8 63) (k + 1) (E 63 (k, (S.length + j) / 2 ^ k)) td (cur S (j + 1) s) = cur S j s := by
  have hm : S.length + j < 2 ^ 62 := by omega
  have hlenB : (stage S j).length = S.length + j := stage_length S j
  have hhtd := htd_of_tdok S j hk hm htd
  have hdz : ∀ l, l < k → dzOf S j l =
      !chunkAlive (stage S j) l (2 * ((stage S j).length / 2 ^ (l + 1))) := by
    intro l _; unfold dzOf; rw [hlenB]
  have hkB : ∀ i, i < k → (stage S j).length.testBit i = true := by rw [hlenB]; exact hk
  have hk0B : (stage S j).length.testBit k = false := by rw [hlenB]; exact hk0
  have hlenA : (stage S j ++ [some (S.length + j)]).length = S.length + j + 1 := by
    simp [hlenB]
  rcases Nat.lt_trichotomy s (S.length + j) with hlt | heq | hgt
  · -- an old slot of the stage
    have hlive := live_stage hP hs hlt
    have hal : chunkAlive (stage S j) 0 s = true :=
      chunkAlive_of_slot _ 0 s s s hlive (by simp) (by simp)
    have hA := treeOf_spec (n := S.length + j + 1) (s := s) (by omega) (by omega)
    have hB := treeOf_spec (n := S.length + j) (s := s) (by omega) hlt
    have hg := gP_old (stage S j) (S.length + j) hkB hk0B (dzOf S j) hdz
      (by rw [hlenB]; exact hlt) hal (by rw [hlenB]; exact hA) (by rw [hlenB]; exact hB)
    rw [hlenB] at hg
    have hv : Valid 63 (posS (stage S (j + 1)) s) :=
      (posS_valid (by rw [stage_length]; omega) (by rw [stage_length]; omega)).1
    unfold cur
    rw [if_pos (by omega), if_pos hlt]
    have e1 : posS (stage S (j + 1)) s =
        nodePos (stage S j ++ [some (S.length + j)]) (SchedSem.treeOf (S.length + j + 1) s) 0 s := by
      unfold posS; rw [stage_succ, hlenA]
    have e2 : posS (stage S j) s = nodePos (stage S j) (SchedSem.treeOf (S.length + j) s) 0 s := by
      unfold posS; rw [hlenB]
    rw [saG_E hk hm (dzOf S j) k td _ (Nat.le_refl _) hhtd hv (by rw [e1]; exact hg.2), e1, hg.1, e2]
  · -- the slot added by this addition
    subst heq
    have hA := treeOf_spec (n := S.length + j + 1) (s := S.length + j) (by omega) (by omega)
    have hg := gP_new (stage S j) (S.length + j) hkB hk0B (dzOf S j) hdz (by rw [hlenB]; exact hA)
    rw [hlenB] at hg
    have hv : Valid 63 (posS (stage S (j + 1)) (S.length + j)) :=
      (posS_valid (by rw [stage_length]; omega) (by rw [stage_length]; omega)).1
    unfold cur
    rw [if_pos (by omega), if_neg (by omega)]
    have e1 : posS (stage S (j + 1)) (S.length + j) =
        nodePos (stage S j ++ [some (S.length + j)]) (SchedSem.treeOf (S.length + j + 1) (S.length + j)) 0
          (S.length + j) := by
      unfold posS; rw [stage_succ, hlenA]
    rw [saG_E hk hm (dzOf S j) k td _ (Nat.le_refl _) hhtd hv (by rw [e1]; exact hg.2), e1, hg.1]
  · -- a slot added later
    have hsK := (hP.2 s hs).1
    have hg := gP_later (n := S.length + j) (dzOf S j) hk k s (Nat.le_refl _) hgt
    have hv : Valid 63 (0, s) := ⟨by simp, by simp only; omega⟩
    unfold cur
    rw [if_neg (by omega), if_neg (by omega)]
    rw [saG_E hk hm (dzOf S j) k td _ (Nat.le_refl _) hhtd hv hg.2, hg.1]

/-- the tracked position equals the leaf position of slot `n + j` only for that slot -/
theorem cur_eq_leaf {s : Nat} (hs : s ∈ P) :
    cur S j s = E 63 (0, S.length + j) ↔ s = S.length + j := by
  have hsK := (hP.2 s hs).1
  unfold cur
  constructor
  · intro e
    split at e
    · rename_i hlt
      exfalso
      have hv : Valid 63 (posS (stage S j) s) :=
        (posS_valid (by rw [stage_length]; omega) (by rw [stage_length]; omega)).1
      have := E_inj (by decide) hv ⟨by simp, by simp only; omega⟩ e
      have hne := posS_ne_next (S := stage S j) (s := s) (by rw [stage_length]; omega)
        (by rw [stage_length]; omega)
      rw [stage_length] at hne
      exact hne this
    · have := E_inj (by decide) (show Valid 63 (0, s) from ⟨by simp, by simp only; omega⟩)
        (show Valid 63 (0, S.length + j) from ⟨by simp, by simp only; omega⟩) e
      injection this
  · intro e
    subst e
    rw [if_neg (by omega)]

end step


/-! ### `undoAdd` -/

/-- the indexes `undoAdd` reports: the tracked slots among the added ones, last added first -/
def createdOf (n : Nat) (P : List Nat) : Nat → List Int
  | 0 => []
  | j+1 => (if n + j ∈ P then [((P.idxOf (n + j) : Nat) : Int)] else []) ++ createdOf n P j

theorem ofNat_succ_sub_one (a : Nat) : BitVec.ofNat 64 (a + 1) - 1#64 = BitVec.ofNat 64 a := by
  rw [BitVec.ofNat_add]
  exact BitVec.add_sub_cancel _ _

theorem undoAddLoop_spec {S : List (Option Nat)} {K : Nat} {P : List Nat} (hP : Trk S K P)
    (hK : S.length + K ≤ 2 ^ 62) : ∀ (j : Nat) (td : List U64) (created : List Int), j ≤ K →
    TdOK S j td →
    undoAddLoop (H8 63) j (P.map (cur S j)) td (BitVec.ofNat 64 (S.length + j)) created =
      (P.map (cur S 0), created ++ createdOf S.length P j) := by
  intro j
  induction j with
  | zero => intro td created _ _; simp [undoAddLoop, createdOf]
  | succ j ih =>
    intro td created hj htd
    obtain ⟨k, hk, hk0⟩ := exists_trailing (S.length + j)
    have hm : S.length + j < 2 ^ 62 := by omega
    rw [undoAddLoop, show S.length + (j + 1) = S.length + j + 1 from rfl,
      undoSingleAdd_eq hk hk0 hm]
    simp only
    have hmap : (P.map (cur S (j + 1))).map (saG (H8 63) (k + 1) (E 63 (k, (S.length + j) / 2 ^ k)) td) =
        P.map (cur S j) := by
      rw [List.map_map]
      apply List.map_congr_left
      intro s hs
      exact step_pos hP hK (by omega) hk hk0 htd hs
    rw [hmap, ofNat_succ_sub_one]
    have hidx := sliceIndex_map (P := P) (f := cur S j) (v := E 63 (0, S.length + j)) (t := S.length + j)
      (fun s hs => cur_eq_leaf hP hK (by omega) hk hk0 htd hs)
    rw [hidx]
    have htd' := tdok_pred S j hk hm hk0 htd
    by_cases hmem : S.length + j ∈ P
    · simp only [hmem, if_true]
      have hne : (((P.idxOf (S.length + j) : Nat) : Int) != -1) = true := by
        rw [bne_iff_ne]; omega
      simp only [hne, if_true]
      rw [ih _ _ (by omega) htd']
      simp [createdOf, hmem]
    · simp only [hmem, if_false]
      have hne : (((-1 : Int)) != -1) = false := by decide
      simp only [hne, Bool.false_eq_true, if_false]
      rw [ih _ _ (by omega) htd']
      simp [createdOf, hmem]

/-- **`undoAdd`**: the tracked positions are mapped back to the state before the additions
(positions of slots created by the additions become their leaf positions) and the created
slots are reported, last added first -/
theorem undoAdd_spec {S : List (Option Nat)} {K : Nat} {P : List Nat} (hP : Trk S K P)
    (hK : S.length + K ≤ 2 ^ 62) (hK16 : K < 65536) {td : List U64} (htd : TdOK S K td) :
    undoAdd (H8 63) (P.map (cur S K)) td (BitVec.ofNat 16 K) (BitVec.ofNat 64 (S.length + K)) =
      (P.map (cur S 0), createdOf S.length P K) := by
  unfold undoAdd
  have hK' : (BitVec.ofNat 16 K).toNat = K := by
    rw [BitVec.toNat_ofNat]; exact Nat.mod_eq_of_lt (by omega)
  rw [hK']
  have htd' : TdOK S K (sortU64 td) := by
    refine ⟨(Schedule.sortU64_perm td).nodup_iff.mpr htd.1, fun x => ?_⟩
    rw [Schedule.mem_sortU64, htd.2]
  rw [undoAddLoop_spec hP hK K _ [] (Nat.le_refl _) htd']
  simp

end UtreexoVerif.Proofs.SchedUndoAdd
