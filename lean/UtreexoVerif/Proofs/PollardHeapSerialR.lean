/-
  `RestorePollardFrom` / `readOne` ON THE HEAP (`Model/PollardHeapSerial.lean`: `restoreH`,
  `readRootsH`, `readOneH`) = the pure parse of the stream (`restoreL`, `readRootsL`,
  `readOneL` of `Proofs/PollardHeapSerialL.lean`) followed by a function that builds the heap
  from the parse tree (`buildH`, `buildRoots`: the allocations and pointer assignments of
  `readOne` in Go's order).
-/
import UtreexoVerif.Proofs.PollardHeapSerialL
import UtreexoVerif.Model.PollardHeapSerial
set_option linter.unusedSectionVars false
set_option linter.unusedVariables false
set_option linter.unusedSimpArgs false

namespace UtreexoVerif.Proofs.PollardHeapSerial
open UtreexoVerif UtreexoVerif.Model UtreexoVerif.Model.PollardHeap UtreexoVerif.Spec Hasher
open UtreexoVerif.Model.Serial UtreexoVerif.Proofs.Serial

variable {H : Type} [DecidableEq H] [Hasher H] [HashBytes H]

/-- what `readOne` does with the first two fields of a record: `n.data`, `NodeMap` -/
def fillH (hb : List Byte) (lf : Bool) (n : Nat) (p : Pollard H) : Pollard H :=
  let data : H := ofBytes hb
  let p := { p with heap := p.heap.modify n (fun x => { x with data := data }) }
  if lf then (if data ≠ zero then { p with nodeMap := mapSet p.nodeMap data n } else p) else p

/-- `n.lNiece = &polNode{aunt: n}` -/
def allocL (n : Nat) (p : Pollard H) : Pollard H :=
  { p with heap := (p.heap.push { data := zero, aunt := some n }).modify n (fun x => { x with lNiece := some p.heap.size }) }

/-- `n.rNiece = &polNode{aunt: n}` -/
def allocR (n : Nat) (p : Pollard H) : Pollard H :=
  { p with heap := (p.heap.push { data := zero, aunt := some n }).modify n (fun x => { x with rNiece := some p.heap.size }) }

/-- the heap `readOne(n, …)` builds from the record tree `t` -/
def buildH : LNode → Nat → Pollard H → Pollard H
  | .dead hb lf, n, p => fillH hb lf n p
  | .fork hb lf l r, n, p =>
    let p := fillH hb lf n p
    let li := p.heap.size
    let p := buildH l li (allocL n p)
    let ri := p.heap.size
    buildH r ri (allocR n p)

/-- `p.Roots[i] = new(polNode)` -/
def allocRoot (p : Pollard H) : Pollard H :=
  { p with heap := p.heap.push { data := zero }, roots := p.roots ++ [p.heap.size] }

/-- the heap the root loop of `RestorePollardFrom` builds from the root records -/
def buildRoots : List LNode → Pollard H → Pollard H
  | [], p => p
  | t :: ts, p => buildRoots ts (buildH t p.heap.size (allocRoot p))

/-- **the heap-level `readOne` is the parse** followed by `buildH` -/
theorem readOneH_eq : ∀ (fuel n : Nat) (r : Reader) (p : Pollard H),
    readOneH fuel n r p = Res.mapOk (fun x => (x.2, buildH x.1 n p)) (readOneL fuel r) := by
  intro fuel
  induction fuel with
  | zero => intro n r p; rfl
  | succ f ih =>
    intro n r p
    rw [readOneH, readOneL]
    rcases readFull r 32 with ⟨a1, r1⟩
    cases a1 with
    | eof => rfl
    | unexpected n => rfl
    | full hb =>
      simp only []
      rcases readFull r1 1 with ⟨a2, r2⟩
      cases a2 with
      | eof => rfl
      | unexpected n => rfl
      | full lf =>
        simp only []
        rcases readFull r2 1 with ⟨a3, r3⟩
        cases a3 with
        | eof => rfl
        | unexpected n => rfl
        | full nf =>
          simp only []
          have hfill : (if (lf.headD 0#8 == 1#8) = true then
              (if (ofBytes hb : H) ≠ zero then
                ({ p with heap := p.heap.modify n (fun x => { x with data := ofBytes hb }),
                          nodeMap := mapSet p.nodeMap (ofBytes hb) n } : Pollard H)
               else { p with heap := p.heap.modify n (fun x => { x with data := ofBytes hb }) })
              else { p with heap := p.heap.modify n (fun x => { x with data := ofBytes hb }) }) =
              fillH hb (lf.headD 0#8 == 1#8) n p := by
            unfold fillH
            cases (lf.headD 0#8 == 1#8) <;> simp
          split
          · rw [hfill]
            have e1 : ({ fillH hb (lf.headD 0#8 == 1#8) n p with
                heap := ((fillH hb (lf.headD 0#8 == 1#8) n p).heap.push { data := zero, aunt := some n }).modify n
                  (fun x => { x with lNiece := some (fillH hb (lf.headD 0#8 == 1#8) n p).heap.size }) } : Pollard H) =
                allocL n (fillH hb (lf.headD 0#8 == 1#8) n p) := by
              rfl
            rw [e1, ih]
            rcases readOneL f r3 with ⟨lb, o1⟩
            cases o1 with
            | ok x =>
              obtain ⟨l, r4⟩ := x
              simp only [Res.mapOk]
              have e2 : ∀ q : Pollard H, ({ q with
                  heap := (q.heap.push { data := zero, aunt := some n }).modify n
                    (fun x => { x with rNiece := some q.heap.size }) } : Pollard H) =
                  allocR n q := by
                intro q; rfl
              rw [e2, ih]
              rcases readOneL f r4 with ⟨rb, o2⟩
              cases o2 with
              | ok y =>
                obtain ⟨rn, r5⟩ := y
                simp only [Res.mapOk, buildH]
              | err => rfl
              | panic => rfl
              | hang => rfl
            | err => rfl
            | panic => rfl
            | hang => rfl
          · rw [hfill]
            simp only [Res.mapOk, buildH]

/-- **the heap-level root loop is the parse** followed by `buildRoots` -/
theorem readRootsH_eq (fuel : Nat) : ∀ (k total : Nat) (r : Reader) (p : Pollard H),
    readRootsH fuel k total r p = Res.mapOk (fun x => buildRoots x.1 p) (readRootsL fuel k r total) := by
  intro k
  induction k with
  | zero => intro total r p; rfl
  | succ k ih =>
    intro total r p
    rw [readRootsH, readRootsL]
    have e : ({ p with heap := p.heap.push { data := zero }, roots := p.roots ++ [p.heap.size] } : Pollard H) =
        allocRoot p := rfl
    simp only [e]
    rw [readOneH_eq]
    rcases readOneL fuel r with ⟨b, o1⟩
    cases o1 with
    | ok x =>
      obtain ⟨t, r1⟩ := x
      simp only [Res.mapOk]
      rw [ih]
      rcases readRootsL fuel k r1 (total + b) with ⟨t', o2⟩
      cases o2 with
      | ok y => obtain ⟨ns, r2⟩ := y; rfl
      | err => rfl
      | panic => rfl
      | hang => rfl
    | err => rfl
    | panic => rfl
    | hang => rfl

/-- the heap `RestorePollardFrom` has built when it reaches its sanity check -/
def buildAll (nl nd : U64) (ts : List LNode) : Pollard H :=
  buildRoots ts { (newAccumulator : Pollard H) with numLeaves := nl, numDels := nd }

/-- **the heap-level `RestorePollardFrom` is the parse** followed by `buildAll` and the sanity check -/
theorem restoreH_eq (r : Reader) :
    restoreH (H := H) r =
      match restoreL r with
      | ⟨n, .ok (nl, nd, ts)⟩ =>
        if ((buildAll (H := H) nl nd ts).nodeMap.length : Int) ≠
            ((buildAll (H := H) nl nd ts).numLeaves - (buildAll (H := H) nl nd ts).numDels).toInt
        then ⟨n, .err⟩ else ⟨n, .ok (buildAll nl nd ts)⟩
      | ⟨n, e⟩ => ⟨n, failAs e⟩ := by
  unfold restoreH restoreL
  rcases hx1 : readFull r 8 with ⟨a1, r1⟩
  cases a1 with
  | eof => rfl
  | unexpected n => rfl
  | full b1 =>
    obtain ⟨_, _, hd1⟩ := readFull_full_inv hx1
    simp only []
    rcases hx2 : readFull r1 8 with ⟨a2, r2⟩
    cases a2 with
    | eof => rfl
    | unexpected n => rfl
    | full b2 =>
      obtain ⟨_, _, hd2⟩ := readFull_full_inv hx2
      have hlen : r2.data.length ≤ r.data.length := by
        rw [hd2, hd1]; simp only [List.length_drop]; omega
      simp only []
      rw [readRootsH_eq, readRootsL_fuel (r2.data.length + 2) (r.data.length + 1) _ _ _ (by omega) (by omega)]
      rcases readRootsL (r.data.length + 1) (numRoots (unle64 b1)).toNat r2 (8 + 8) with ⟨t, o⟩
      cases o with
      | ok x => obtain ⟨ts, r3⟩ := x; rfl
      | err => rfl
      | panic => rfl
      | hang => rfl

end UtreexoVerif.Proofs.PollardHeapSerial
