/-
  `ingest` / `Verify(…, remember)` of a canonical proof on a FULL map forest.

  A full forest already stores every node and caches every leaf: the proof-storing loop finds
  every proof position present (`store_noop`), and `putCalculated` overwrites the nodes on the
  targets' paths with the values they already have (`putCalculated_noop`).  So both calls succeed
  and leave every look-up of the state unchanged (`Nodes` and `CachedLeaves` are the same maps;
  only the order of the entries of the association lists of the model may differ).
-/
import UtreexoVerif.Proofs.MapFull
import UtreexoVerif.Proofs.MapIngest

namespace UtreexoVerif.Proofs.MapFullIngest
open UtreexoVerif Model Spec Spec.Forest Proofs MapAL MapInv MapPrune MapRep MapLiftGeo PForest MapAInv
open PForestSpec MapSInv MapIngest MapFull Hasher
set_option linter.unusedSectionVars false
set_option linter.unusedVariables false

variable {H : Type} [DecidableEq H] [Hasher H]
variable {A : Pos → Option (Leaf H)} {C : H → Option Pos} {T : Nat}

/-- two states with the same representation have the same look-ups -/
theorem same_lookups {m m' : MapPollard H} (rep : Rep m T A C) (rep' : Rep m' T A C) :
    (∀ p, m'.getNode p = m.getNode p) ∧ (∀ x, m'.getCached x = m.getCached x) := by
  constructor
  · intro p
    cases h : m.getNode p with
    | some l =>
      obtain ⟨q, hq, rfl⟩ := rep.keys p l h
      rw [rep'.node q hq, ← rep.node q hq, h]
    | none =>
      cases h' : m'.getNode p with
      | none => rfl
      | some l =>
        obtain ⟨q, hq, rfl⟩ := rep'.keys p l h'
        rw [rep.node q hq, ← rep'.node q hq, h'] at h
        cases h
  · intro x; rw [rep'.cache x, rep.cache x]

/-- every proof position is stored: the proof-storing loop changes nothing -/
theorem store_noop (pr : List H) : ∀ (qs : List Pos) (i : Nat) (m : MapPollard H), Rep m T A C →
    (∀ q ∈ qs, Valid T q ∧ A q ≠ none) →
    MapPollard.ingest.store pr (qs.map (encP T)) i m = (m, .ok ())
  | [], i, m, rep, _ => rfl
  | q :: qs, i, m, rep, h => by
    obtain ⟨hq, hA⟩ := h q List.mem_cons_self
    rw [List.map_cons]
    unfold MapPollard.ingest.store
    rw [rep.hasNode hq]
    have : (A q).isSome = true := by
      cases hh : A q with
      | none => exact absurd hh hA
      | some _ => rfl
    rw [this]
    simp only [if_true]
    exact store_noop pr qs (i + 1) m rep (fun q' hq' => h q' (List.mem_cons_of_mem _ hq'))

/-- every calculated node is stored with that hash and the flag set, every target is cached at
its position: `putCalculated` changes no look-up -/
theorem putCalculated_noop (isT' : U64 → Bool) (v : Pos → H) : ∀ (qs : List Pos) (m : MapPollard H),
    Rep m T A C → m.full = true →
    (∀ q ∈ qs, Valid T q ∧ A q = some ⟨v q, true⟩ ∧ (isT' (encP T q) = true → C (v q) = some q)) →
    Rep (MapPollard.putCalculated isT' (qs.map (fun p => (encP T p, v p))) m) T A C ∧
      (MapPollard.putCalculated isT' (qs.map (fun p => (encP T p, v p))) m).full = true ∧
      (MapPollard.putCalculated isT' (qs.map (fun p => (encP T p, v p))) m).numLeaves = m.numLeaves
  | [], m, rep, hf, _ => ⟨rep, hf, rfl⟩
  | q :: qs, m, rep, hf, h => by
    obtain ⟨hq, hA, hCq⟩ := h q List.mem_cons_self
    have hqs := fun q' hq' => h q' (List.mem_cons_of_mem _ hq')
    rw [List.map_cons]
    unfold MapPollard.putCalculated
    simp only
    rw [hf, Bool.or_true]
    have rep1 : Rep (m.putNode (encP T q) ⟨v q, true⟩) T A C := by
      refine (rep.putNode hq ⟨v q, true⟩).congr (fun x => ?_) (fun _ => rfl)
      rw [upd_apply]
      split
      · rename_i e; rw [e, hA]
      · rfl
    cases ht : isT' (encP T q) with
    | false =>
      simp only [Bool.false_eq_true, if_false]
      obtain ⟨r, f, n⟩ := putCalculated_noop isT' v qs _ rep1 (by simpa using hf) hqs
      exact ⟨r, f, n⟩
    | true =>
      simp only [if_true]
      have rep2 : Rep ((m.putNode (encP T q) ⟨v q, true⟩).putCached (v q) (encP T q)) T A C := by
        refine (rep1.putCached (v q) hq).congr (fun _ => rfl) (fun x => ?_)
        rw [upd_apply]
        split
        · rename_i e; rw [e, hCq ht]
        · rfl
      obtain ⟨r, f, n⟩ := putCalculated_noop isT' v qs _ rep2 (by simpa using hf) hqs
      exact ⟨r, f, n⟩

/-! ### `ingest` -/

section main
open SpecPlan CalcGeo CalcComplete

/-- **`ingest` of the canonical proof of a duplicate-free list of live leaves on a full forest**
(with arbitrary surplus hashes appended) succeeds and changes nothing: the result satisfies `FInv`
for the same forest and has the same look-ups, counters and flags -/
theorem finv_ingest (nz : NZ H) {m : MapPollard H} {F : Forest H} (s : FInv m F)
    (L : List H) (ts : List Pos) (ps junk : List H) (hnd : L.Nodup) (hc : F.canon L = some (ts, ps)) :
    ∃ m', MapPollard.ingest L (ts.map (encP F.rows)) (ps ++ junk) m = (m', .ok ()) ∧ FInv m' F ∧
      (∀ p, m'.getNode p = m.getNode p) ∧ (∀ x, m'.getCached x = m.getCached x) ∧
      m'.numLeaves = m.numLeaves ∧ m'.totalRows = m.totalRows ∧ m'.full = m.full := by
  have I := s.inv nz
  have Lw := s.laws nz
  have hn64 := s.n_lt64
  obtain ⟨A, C, rep, fa⟩ := s.abs
  have hT := s.total_le
  have h63 : F.rows ≤ 63 := MapInv.rows_le_63 I
  have tok := canon_targetsOK hc
  have tsB : ∀ t ∈ ts, ∃ R, BelowRoot F.numLeaves t.1 t.2 R := by
    intro t ht
    obtain ⟨x, hx⟩ := ts_node hc ht
    exact belowRoot_of_mem_nodes hx
  have psB : ∀ q ∈ pathSet F ts, ∃ R, BelowRoot F.numLeaves q.1 q.2 R := by
    intro q hq
    obtain ⟨b, hb⟩ := ps_node hc hq
    exact belowRoot_of_mem_nodes hb
  have ppB : ∀ q ∈ F.proofPositions ts, ∃ R, BelowRoot F.numLeaves q.1 q.2 R := by
    intro q hq
    obtain ⟨b, hb⟩ := pp_node hc hq
    exact belowRoot_of_mem_nodes hb
  have vF : ∀ {q : Pos}, (∃ R, BelowRoot F.numLeaves q.1 q.2 R) → MapInv.Valid F.rows q :=
    fun ⟨R, hb⟩ => belowRoot_valid' (Nat.le_refl _) hb
  have vT : ∀ {q : Pos}, (∃ R, BelowRoot F.numLeaves q.1 q.2 R) → MapInv.Valid m.totalRows.toNat q :=
    fun ⟨R, hb⟩ => belowRoot_valid' s.rows_le hb
  have tsnd : ts.Nodup := canon_targets_nodup hc hnd
  -- (1) the sorted targets
  obtain ⟨hnp, h1, hpos⟩ := toHashAndPos_canon h63 ts L (fun t ht => vF (tsB t ht)) (canon_targets_length hc)
  -- (2) … in storage coordinates
  have h2 := hnpPos_eq I ts (fun t ht => vF (tsB t ht)) tsnd
  rw [← hpos] at h2
  -- (3) `ProofPositions`
  have hyp : PPHyp F.numLeaves (sortPos ts) := {
    inForest := fun t ht => tsB t (mem_sortPos.1 ht)
    sorted := sortPos_ssorted tsnd
    anti := by
      intro a ha b hb hab
      obtain ⟨x, hx⟩ := ts_node hc (mem_sortPos.1 ha)
      obtain ⟨y, hy⟩ := ts_node hc (mem_sortPos.1 hb)
      exact (Lw.leaf_below a x b y true hx hy hab).symm }
  have hPP : ProofPositions ((sortPos ts).map (encP m.totalRows.toNat)) m.numLeaves m.totalRows =
      ((F.proofPositions ts).map (encP m.totalRows.toNat), (F.computable (sortPos ts)).map (encP m.totalRows.toNat)) := by
    have := Props.C16.proofPositions_spec F (H := m.totalRows.toNat) (h := F.rows)
      (BitVec.ofNat 64 F.numLeaves) (toNat_ofNat64_of_lt hn64) (SpecView.treeRows_eq s.n_lt) hT s.rows_le
      (sortPos ts) hyp
    rw [MapProve.proofPositions_congr (F := F) (fun t => mem_sortPos (l := ts))] at this
    rw [s.n_eq]
    have hm := totalRows_eq_H8 m
    rw [← hm] at this
    exact this
  -- (4) the trimming branch
  have h3 : (if (decide (TreeRows m.numLeaves ≠ m.totalRows) &&
          decide ((ProofPositions ((sortPos ts).map (encP m.totalRows.toNat)) m.numLeaves m.totalRows).1.length ≠
            (ps ++ junk).length)) = true then
        translatePositions (MapPollard.trimProofPos
          (translatePositions (ProofPositions ((sortPos ts).map (encP m.totalRows.toNat)) m.numLeaves m.totalRows).1
            m.totalRows (TreeRows m.numLeaves))
          m.numLeaves) (TreeRows m.numLeaves) m.totalRows
       else (ProofPositions ((sortPos ts).map (encP m.totalRows.toNat)) m.numLeaves m.totalRows).1) =
      (F.proofPositions ts).map (encP m.totalRows.toNat) := by
    rw [hPP]
    exact trim_eq I (F.proofPositions ts) ppB _
  -- (5) the proof-storing loop: every proof position is a node, hence stored
  have h4 : MapPollard.ingest.store (ps ++ junk) ((F.proofPositions ts).map (encP m.totalRows.toNat)) 0 m = (m, .ok ()) :=
    store_noop (ps ++ junk) (F.proofPositions ts) 0 m rep (fun q hq => by
      obtain ⟨b, hb⟩ := pp_node hc hq
      exact ⟨vT (ppB q hq), fa.stored hb⟩)
  -- (6) `calculateHashes`
  have hdh : (match (some L : Option (List H)) with
      | some hs => hs
      | none => (ts.map (E F.rows)).map (fun _ => zero)) = ts.map (valAt CTree.hash F) := by
    rw [canon_target_vals hc]
    simp [CTree.hash]
  obtain ⟨r, h5, _, _, hnodes⟩ := calc_generic (Nat.le_of_lt s.n_lt) nz.nonzero s.hyg.nz hnd hc CTree.hash
    (fun a b ga gb => hash_node_comb nz.nonzero ga gb) (fun _ _ _ _ _ _ _ => rfl) (some L) hdh junk
  have h5' : calculateHashes m.numLeaves (some L) (ts.map (encP F.rows)) (ps ++ junk) = .ok r := by
    rw [s.n_eq]; exact h5
  -- (7) the calculated nodes in storage coordinates
  have h6 : (if m.totalRows ≠ TreeRows m.numLeaves then
        sortHP (r.nodes.map (fun x => (translatePos x.1 (TreeRows m.numLeaves) m.totalRows, x.2)))
       else r.nodes) = (pathSet F ts).map (fun p => (encP m.totalRows.toNat p, tvF F p)) := by
    rw [hnodes]
    have := inter_eq I m.totalRows rfl (pathSet F ts) (pathSet_sorted F ts) (fun q hq => vF (psB q hq))
      (valAt CTree.hash F)
    refine Eq.trans this ?_
    apply List.map_congr_left
    intro q hq
    rw [ps_val hc hq]
  have hrun := ingest_eq h1 h2 h3 h4 h5' h6
  -- (8) `putCalculated` rewrites what is there
  obtain ⟨rep2, hf2, hn2⟩ := putCalculated_noop
    (fun p => ((sortPos ts).map (encP m.totalRows.toNat)).contains p) (tvF F)
    (pathSet F ts) m rep s.full
    (fun q hq => by
      obtain ⟨b, hb⟩ := ps_node hc hq
      refine ⟨vT (psB q hq), fa.sto q _ b hb, ?_⟩
      intro hcont
      have hdec := contains_eq hT ts (fun t ht => vT (tsB t ht)) (vT (psB q hq))
      rw [hdec] at hcont
      have hqts : q ∈ ts := of_decide_eq_true hcont
      exact fa.csto q _ (ts_val nz hn64 s.hyg hc hqts).2 (fun h => h))
  have hTR2 := rep2.rows.trans rep.rows.symm
  obtain ⟨e1, e2⟩ := same_lookups rep rep2
  refine ⟨_, hrun, ?_, e1, e2, hn2, hTR2, hf2.trans s.full.symm⟩
  exact FInv.of_abs rep2 fa s.n_lt (hn2.trans s.n_eq) s.rows_le hf2 s.hyg

end main

/-! ### `Verify(…, remember)` -/

section verify
open SpecPlan CalcGeo CalcComplete

/-- **`Verify(delHashes, proof, remember)` on the canonical proof of a duplicate-free list of live
leaves** (with arbitrary surplus hashes appended) succeeds on a full forest and changes nothing -/
theorem finv_verifyM (nz : NZ H) {m : MapPollard H} {F : Forest H} (s : FInv m F)
    (L : List H) (ts : List Pos) (ps junk : List H) (hnd : L.Nodup) (hc : F.canon L = some (ts, ps))
    (remember : Bool) :
    ∃ m', MapPollard.verifyM L (ts.map (encP F.rows)) (ps ++ junk) remember m = (m', .ok ()) ∧ FInv m' F ∧
      (∀ p, m'.getNode p = m.getNode p) ∧ (∀ x, m'.getCached x = m.getCached x) ∧
      m'.numLeaves = m.numLeaves ∧ m'.totalRows = m.totalRows ∧ m'.full = m.full := by
  have I := s.inv nz
  have h63 : F.rows ≤ 63 := MapInv.rows_le_63 I
  have tsV : ∀ t ∈ ts, MapInv.Valid F.rows t := by
    intro t ht
    obtain ⟨x, hx⟩ := ts_node hc ht
    obtain ⟨R, hb⟩ := belowRoot_of_mem_nodes hx
    exact belowRoot_valid' (Nat.le_refl _) hb
  have htg : (if TreeRows m.numLeaves ≠ m.totalRows then
      translatePositions (ts.map (encP F.rows)) m.totalRows (TreeRows m.numLeaves) else ts.map (encP F.rows)) =
      ts.map (encP F.rows) := by
    by_cases hne : TreeRows m.numLeaves ≠ m.totalRows
    · rw [if_pos hne]
      have hlt : F.rows < m.totalRows.toNat := by
        have := s.rows_le
        rcases Nat.lt_or_ge F.rows m.totalRows.toNat with h | h
        · exact h
        · exfalso
          apply hne
          rw [treeRows_numLeaves I, totalRows_eq_H8 m]
          congr 1
          omega
      unfold translatePositions
      rw [List.map_map]
      apply List.map_congr_left
      intro t ht
      simp only [Function.comp]
      have := translatePos_small s.total_le hlt (tsV t ht) (TreeRows m.numLeaves)
      rw [← totalRows_eq_H8 m] at this
      exact this
    · rw [if_neg hne]
  have hroots : m.getRoots.1 = F.roots := Props.C09.roots_eq I
  have hver := Props.C02.honest_proof_verifies F (Nat.le_of_lt s.n_lt) nz.nonzero s.hyg.nz L ts ps junk hnd hc
  have hver' : verify m.numLeaves m.getRoots.1 L (ts.map (encP F.rows)) (ps ++ junk) =
      .ok (touchedIdx F.numLeaves ts) := by
    rw [hroots, s.n_eq]; exact hver
  unfold MapPollard.verifyM
  simp only
  rw [htg, hver']
  simp only
  cases remember with
  | false =>
    exact ⟨m, by simp, s, fun _ => rfl, fun _ => rfl, rfl, rfl, rfl⟩
  | true =>
    obtain ⟨m', hrun, s', e1, e2, e3, e4, e5⟩ := finv_ingest nz s L ts ps junk hnd hc
    refine ⟨m', ?_, s', e1, e2, e3, e4, e5⟩
    simp only [if_true]
    rw [hrun]

end verify

end UtreexoVerif.Proofs.MapFullIngest

section Axioms
open UtreexoVerif.Proofs.MapFullIngest
#print axioms finv_ingest
#print axioms finv_verifyM
end Axioms
