/-
  Aligned chunks of the slot list (`chunk S l b` = collapsed tree of slots
  `[b * 2^l, (b+1) * 2^l)`), their relation to the roots of the forest, and the tree of the
  final forest that contains a given slot.
-/
import UtreexoVerif.Proofs.SpecForest
import UtreexoVerif.Proofs.FinalPos
set_option linter.unusedSectionVars false

namespace UtreexoVerif.Spec
open Hasher UtreexoVerif.Proofs.FinalPos

variable {H : Type} [DecidableEq H] [Hasher H]

/-- collapsed tree of the aligned chunk `(l, b)`: slots `[b * 2^l, (b+1) * 2^l)` -/
def chunk (S : List (Option H)) (l b : Nat) : Option (CTree H) := collapse l (S.drop (b * 2 ^ l))
def chunkAlive (S : List (Option H)) (l b : Nat) : Bool := (chunk S l b).isSome
def chunkHash (S : List (Option H)) (l b : Nat) : H := rootHash (chunk S l b)

theorem chunk_succ (S : List (Option H)) (l b : Nat) :
    chunk S (l + 1) b = join (chunk S l (2 * b)) (chunk S l (2 * b + 1)) := by
  unfold chunk
  simp only [collapse]
  rw [collapse_take_self, List.drop_drop]
  have e1 : 2 * b * 2 ^ l = b * 2 ^ (l + 1) := by rw [Nat.pow_succ]; ac_rfl
  have e2 : (2 * b + 1) * 2 ^ l = b * 2 ^ (l + 1) + 2 ^ l := by
    rw [Nat.add_mul, e1, Nat.one_mul]
  rw [e1, e2]

theorem chunk_zero (S : List (Option H)) (b : Nat) :
    chunk S 0 b = match S[b]? with
      | some (some h) => some (.leaf h)
      | _ => none := by
  unfold chunk
  simp only [Nat.pow_zero, Nat.mul_one, collapse]
  rcases hb : S[b]? with _ | (_ | h)
  · have : S.drop b = [] := by
      rw [List.drop_eq_nil_iff]; exact List.getElem?_eq_none_iff.mp hb
    rw [this]
  · have := List.getElem?_eq_some_iff.mp hb
    obtain ⟨hlt, hv⟩ := this
    rw [List.drop_eq_getElem_cons hlt, hv]
  · have := List.getElem?_eq_some_iff.mp hb
    obtain ⟨hlt, hv⟩ := this
    rw [List.drop_eq_getElem_cons hlt, hv]

/-- a chunk inside a prefix does not see what is appended -/
theorem chunk_append_left (A B : List (Option H)) (l b : Nat) (h : (b + 1) * 2 ^ l ≤ A.length) :
    chunk (A ++ B) l b = chunk A l b := by
  unfold chunk
  rw [Nat.add_mul, Nat.one_mul] at h
  rw [List.drop_append_of_le_length (Nat.le_trans (Nat.le_add_right _ _) h), collapse_append_of_le]
  rw [List.length_drop]
  generalize 2 ^ l = p at *
  omega

theorem chunkAlive_append_left (A B : List (Option H)) (l b : Nat) (h : (b + 1) * 2 ^ l ≤ A.length) :
    chunkAlive (A ++ B) l b = chunkAlive A l b := by
  unfold chunkAlive; rw [chunk_append_left A B l b h]

theorem chunkHash_append_left (A B : List (Option H)) (l b : Nat) (h : (b + 1) * 2 ^ l ≤ A.length) :
    chunkHash (A ++ B) l b = chunkHash A l b := by
  unfold chunkHash; rw [chunk_append_left A B l b h]

/-- a chunk containing a live slot is alive -/
theorem chunkAlive_of_slot (S : List (Option H)) (l b i : Nat) (x : H) (hi : S[i]? = some (some x))
    (h1 : b * 2 ^ l ≤ i) (h2 : i < (b + 1) * 2 ^ l) : chunkAlive S l b = true := by
  unfold chunkAlive chunk
  rw [Option.isSome_iff_ne_none, Ne, collapse_eq_none_iff]
  intro hall
  apply hall x
  rw [Nat.add_mul, Nat.one_mul] at h2
  rw [List.mem_iff_getElem?]
  refine ⟨i - b * 2 ^ l, ?_⟩
  rw [List.getElem?_take, if_pos (by omega), List.getElem?_drop]
  rw [show b * 2 ^ l + (i - b * 2 ^ l) = i by omega]
  exact hi

/-- a chunk is dead iff it has no live slot -/
theorem chunkAlive_eq_false_iff (S : List (Option H)) (l b : Nat) :
    chunkAlive S l b = false ↔ ∀ i x, b * 2 ^ l ≤ i → i < (b + 1) * 2 ^ l → S[i]? ≠ some (some x) := by
  constructor
  · intro hd i x h1 h2 hi
    rw [chunkAlive_of_slot S l b i x hi h1 h2] at hd
    cases hd
  · intro hall
    unfold chunkAlive chunk
    rw [Option.isSome_eq_false_iff, Option.isNone_iff_eq_none, collapse_eq_none_iff]
    intro x hx
    rw [List.mem_iff_getElem?] at hx
    obtain ⟨j, hj⟩ := hx
    rw [List.getElem?_take] at hj
    split at hj
    · rename_i hlt
      rw [List.getElem?_drop] at hj
      refine hall (b * 2 ^ l + j) x (by omega) ?_ hj
      rw [Nat.add_mul, Nat.one_mul]; omega
    · cases hj

theorem chunkHash_eq_zero_iff (hph : ∀ a b : H, ph a b ≠ (zero : H)) (S : List (Option H))
    (hS : ∀ x : H, some x ∈ S → x ≠ (zero : H)) (l b : Nat) :
    chunkHash S l b = zero ↔ chunkAlive S l b = false := by
  unfold chunkHash chunkAlive
  cases hc : chunk S l b with
  | none => simp [rootHash]
  | some t =>
    simp only [rootHash, Option.isSome_some, Bool.true_eq_false, iff_false]
    apply CTree.hash_ne_zero hph
    intro x hx
    apply hS
    apply List.mem_of_mem_drop (i := b * 2 ^ l)
    apply mem_optLeaves_collapse (k := l)
    unfold chunk at hc
    rw [hc]; exact hx

/-- the roots are the hashes of the chunks at the root positions -/
theorem roots_chunks (F : Forest H) :
    F.roots = (treeRows F.numLeaves).map fun h =>
      chunkHash F.slots h (2 * (F.numLeaves / 2 ^ (h + 1))) := by
  rw [roots_eq, Forest.trees, List.map_map]
  apply List.map_congr_left
  intro h _
  simp only [Function.comp, chunkHash, chunk, collapse_take_self, treeStart_eq]
  congr 3
  rw [Nat.pow_succ]; ac_rfl

theorem chunkHash_succ_alive (S : List (Option H)) (l b : Nat)
    (h1 : chunkAlive S l (2 * b) = true) (h2 : chunkAlive S l (2 * b + 1) = true) :
    chunkHash S (l + 1) b = ph (chunkHash S l (2 * b)) (chunkHash S l (2 * b + 1)) := by
  unfold chunkHash chunkAlive at *
  rw [chunk_succ]
  cases ha : chunk S l (2 * b) with
  | none => rw [ha] at h1; cases h1
  | some a =>
    cases hb : chunk S l (2 * b + 1) with
    | none => rw [hb] at h2; cases h2
    | some b' => rfl

theorem chunkHash_succ_left_dead (S : List (Option H)) (l b : Nat)
    (h1 : chunkAlive S l (2 * b) = false) :
    chunkHash S (l + 1) b = chunkHash S l (2 * b + 1) := by
  unfold chunkHash chunkAlive at *
  rw [chunk_succ]
  cases ha : chunk S l (2 * b) with
  | some a => rw [ha] at h1; cases h1
  | none => cases chunk S l (2 * b + 1) <;> rfl

theorem chunkAlive_succ (S : List (Option H)) (l b : Nat) :
    chunkAlive S (l + 1) b = (chunkAlive S l (2 * b) || chunkAlive S l (2 * b + 1)) := by
  unfold chunkAlive
  rw [chunk_succ]
  cases chunk S l (2 * b) <;> cases chunk S l (2 * b + 1) <;> rfl

end UtreexoVerif.Spec
