/-
  `deTwinHashAndPos` (prove.go) visits the same positions as `deTwin` (property C08, level 2c):
  on the sorted positions of the deleted leaves (any hashes attached), its position list is
  `deTwin`'s result — the ascending list of the maximal fully-deleted subtrees.
-/
import UtreexoVerif.Proofs.ProofUpdateDeTwin

namespace UtreexoVerif.Proofs.ProofUndoDeTwin
open UtreexoVerif Spec Hasher Model
open UtreexoVerif.Proofs UtreexoVerif.Proofs.SpecNodes UtreexoVerif.Proofs.SpecSubs
open UtreexoVerif.Proofs.CalcComplete UtreexoVerif.Proofs.FinalPos
open UtreexoVerif.Proofs.CalcGeo UtreexoVerif.Proofs.Sorted UtreexoVerif.Proofs.Movement
open UtreexoVerif.Proofs.ProofUpdateDeTwin

section
set_option linter.unusedSectionVars false
set_option linter.unusedVariables false
variable {H : Type} [DecidableEq H] [Hasher H]

/-- merging one entry at a position that does not occur = `insertInOrder` on the positions -/
theorem mergeHP_single_positions : ∀ (X : HP H) (P : U64) (h : H), P ∉ X.positions →
    (mergeHP X [(P, h)]).positions = insertInOrder X.positions P := by
  intro X
  induction X with
  | nil => intro P h _; simp [mergeHP, HP.positions, insertInOrder]
  | cons x xs ih =>
    intro P h hP
    have hne : x.1 ≠ P := by
      intro e
      apply hP
      simp [HP.positions, e]
    have hP' : P ∉ HP.positions xs := by
      intro hm
      apply hP
      simp only [HP.positions, List.map_cons, List.mem_cons]
      exact Or.inr hm
    rw [mergeHP]
    simp only [HP.positions, List.map_cons, insertInOrder]
    by_cases h1 : x.1 < P
    · rw [if_pos h1, if_neg (by show ¬ P < x.1; bv_omega)]
      simp only [List.map_cons]
      congr 1
      exact ih P h hP'
    · have h2 : P < x.1 := by bv_omega
      rw [if_neg h1, if_pos h2, if_pos (by show P < x.1; exact h2)]
      simp [mergeHP]

theorem map_eraseIdx' {α β : Type} (f : α → β) : ∀ (l : List α) (i : Nat),
    (l.eraseIdx i).map f = (l.map f).eraseIdx i := by
  intro l
  induction l with
  | nil => intro i; rfl
  | cons x t ih =>
    intro i
    cases i with
    | zero => rfl
    | succ i => simp only [List.eraseIdx_cons_succ, List.map_cons, ih]

theorem positions_eraseIdx (d : HP H) (i : Nat) :
    HP.positions (d.eraseIdx i) = d.positions.eraseIdx i := by
  unfold HP.positions
  exact map_eraseIdx' _ _ _

/-- **simulation**: while an invariant `Q` of the position list guarantees that the merged
parent is not yet in the list, the two loops visit the same positions -/
theorem deTwinHP_positions (rows : U8) (Q : List U64 → Prop)
    (hstep : ∀ (d : List U64) (i : Nat) (a b : U64), Q d → d[i]? = some a → d[i+1]? = some b →
      (rightSib a == b) = true →
      Parent a rows ∉ (d.eraseIdx i).eraseIdx i ∧
        Q (insertInOrder ((d.eraseIdx i).eraseIdx i) (Parent a rows))) :
    ∀ (fuel i : Nat) (d : HP H), Q d.positions →
      (deTwinHPLoop rows fuel i d).positions = deTwinLoop rows fuel i d.positions := by
  intro fuel
  induction fuel with
  | zero => intro i d _; rfl
  | succ f ih =>
    intro i d hQ
    have hg : ∀ j : Nat, (HP.positions d)[j]? = (d[j]?).map (fun z : U64 × H => z.1) := by
      intro j; unfold HP.positions; rw [List.getElem?_map]
    unfold deTwinHPLoop deTwinLoop
    rw [hg i, hg (i + 1)]
    cases h1 : d[i]? with
    | none => rfl
    | some a =>
      cases h2 : d[i + 1]? with
      | none => rfl
      | some b =>
        simp only [Option.map_some]
        by_cases h3 : (rightSib a.1 == b.1) = true
        · rw [if_pos h3, if_pos h3]
          have hp1 : d.positions[i]? = some a.1 := by rw [hg, h1]; rfl
          have hp2 : d.positions[i + 1]? = some b.1 := by rw [hg, h2]; rfl
          obtain ⟨hnot, hQ'⟩ := hstep d.positions i a.1 b.1 hQ hp1 hp2 h3
          have hpos : HP.positions (mergeHP ((d.eraseIdx i).eraseIdx i) [(Parent a.1 rows, ph a.2 b.2)]) =
              insertInOrder ((d.positions.eraseIdx i).eraseIdx i) (Parent a.1 rows) := by
            rw [mergeHP_single_positions _ _ _ (by
              rw [positions_eraseIdx, positions_eraseIdx]; exact hnot),
              positions_eraseIdx, positions_eraseIdx]
          rw [← hpos]
          apply ih
          rw [hpos]
          exact hQ'
        · rw [if_neg h3, if_neg h3]
          exact ih (i + 1) d hQ

theorem split_at {α : Type} (l : List α) (i : Nat) (x y : α) (h1 : l[i]? = some x)
    (h2 : l[i + 1]? = some y) :
    l = l.take i ++ x :: y :: l.drop (i + 2) ∧ (l.take i).length = i := by
  have hi : i + 1 < l.length := by
    rcases Nat.lt_or_ge (i + 1) l.length with h | h
    · exact h
    · rw [List.getElem?_eq_none h] at h2; cases h2
  refine ⟨?_, by rw [List.length_take]; omega⟩
  have e1 : l.drop i = x :: l.drop (i + 1) := by
    rw [List.drop_eq_getElem_cons (by omega)]
    congr 1
    rw [List.getElem?_eq_getElem (by omega)] at h1
    injection h1
  have e2 : l.drop (i + 1) = y :: l.drop (i + 2) := by
    rw [List.drop_eq_getElem_cons hi]
    congr 1
    rw [List.getElem?_eq_getElem hi] at h2
    injection h2
  conv => lhs; rw [← List.take_append_drop i l, e1, e2]

/-- **`deTwinHashAndPos` on the sorted deleted leaves has the positions of `deTwin`** -/
theorem deTwinHashAndPos_positions {F : Forest H} (hn : F.numLeaves ≤ 2 ^ 63)
    (hnd : F.liveLeaves.Nodup) {D : List H} (hD : D.Nodup) (hlive : ∀ x ∈ D, x ∈ F.liveLeaves)
    (d : HP H) (hd : d.positions = (Forest.sortDedup (leafPositions F D)).map (E F.rows)) :
    (deTwinHashAndPos d (H8 F.rows)).positions = deTwin d.positions (H8 F.rows) := by
  have hr : F.rows ≤ 63 := rows_le_63 hn
  unfold deTwinHashAndPos deTwin
  have hlen : d.length = d.positions.length := by simp [HP.positions]
  rw [hlen]
  apply deTwinHP_positions (H8 F.rows) (fun l => ∃ dp : List Pos, l = dp.map (E F.rows) ∧ Inv F D dp)
  · rintro l i a b ⟨dp, rfl, inv⟩ h1 h2 h3
    rw [List.getElem?_map] at h1 h2
    cases hpa : dp[i]? with
    | none => rw [hpa] at h1; cases h1
    | some pa =>
      cases hpb : dp[i + 1]? with
      | none => rw [hpb] at h2; cases h2
      | some pb =>
        rw [hpa] at h1
        rw [hpb] at h2
        simp only [Option.map_some, Option.some.injEq] at h1 h2
        subst h1 h2
        obtain ⟨hsplit, hlenpre⟩ := split_at dp i pa pb hpa hpb
        generalize dp.take i = pre at hsplit hlenpre
        generalize dp.drop (i + 2) = rest' at hsplit
        subst hsplit
        subst hlenpre
        have ha : pa ∈ pre ++ pa :: pb :: rest' := by simp
        have hb : pb ∈ pre ++ pa :: pb :: rest' := by simp
        have va := inv.valid ha
        have vb := inv.valid hb
        have hso := inv.sorted
        rw [List.pairwise_append, List.pairwise_cons, List.pairwise_cons] at hso
        obtain ⟨sPre, ⟨hA, hB, sRest⟩, hPR⟩ := hso
        have hlt : PLt pa pb := hA pb (by simp)
        obtain ⟨hev, hbs⟩ := (twinTest_E hr va vb hlt).1 h3
        subst hbs
        have hrow := row_lt_of_PLt vb hlt
        have vP := parent_valid va hrow
        have hPnot : Spec.parent pa ∉ pre ++ pa :: sib pa :: rest' := by
          intro hP
          obtain ⟨hL', tL, sL, _⟩ := inv.fd pa ha
          obtain ⟨hR', tR, sR, _⟩ := inv.fd _ hb
          obtain ⟨_, tP, sP, hlv⟩ := merge_node sL sR
          obtain ⟨x, hx⟩ := List.exists_mem_of_ne_nil _ (CTree.leaves_ne_nil tL)
          have := inv.disj _ hP pa ha _ _ _ _ x sP sL ((hlv x).2 (Or.inl hx)) hx
          have := congrArg Prod.fst this
          simp [Spec.parent] at this
        have hPnot' : Spec.parent pa ∉ pre ++ rest' := by
          intro h
          apply hPnot
          rcases List.mem_append.1 h with h | h
          · exact List.mem_append_left _ h
          · exact List.mem_append_right _ (List.mem_cons_of_mem _ (List.mem_cons_of_mem _ h))
        have hsort' : (pre ++ rest').Pairwise PLt := by
          rw [List.pairwise_append]
          exact ⟨sPre, sRest, fun x hx y hy => hPR x hx y (by simp [hy])⟩
        have hmem : ∀ x, x ∈ Forest.insertSorted (Spec.parent pa) (pre ++ rest') ↔
            x = Spec.parent pa ∨ (x ∈ pre ++ pa :: sib pa :: rest' ∧ x ≠ pa ∧ x ≠ sib pa) := by
          intro x
          rw [mem_insertSorted]
          have hna : ∀ x ∈ pre ++ rest', x ≠ pa ∧ x ≠ sib pa := by
            intro x hx
            rcases List.mem_append.1 hx with hx | hx
            · exact ⟨PLt.ne (hPR x hx pa (by simp)), PLt.ne (hPR x hx _ (by simp))⟩
            · exact ⟨(PLt.ne (hA x (by simp [hx]))).symm, (PLt.ne (hB x hx)).symm⟩
          constructor
          · rintro (h | h)
            · exact Or.inl h
            · refine Or.inr ⟨?_, hna x h⟩
              rcases List.mem_append.1 h with h | h
              · exact List.mem_append_left _ h
              · exact List.mem_append_right _ (List.mem_cons_of_mem _ (List.mem_cons_of_mem _ h))
          · rintro (h | ⟨h, n1, n2⟩)
            · exact Or.inl h
            · right
              rcases List.mem_append.1 h with h | h
              · exact List.mem_append_left _ h
              · simp only [List.mem_cons] at h
                rcases h with h | h | h
                · exact absurd h n1
                · exact absurd h n2
                · exact List.mem_append_right _ h
        have inv' : Inv F D (Forest.insertSorted (Spec.parent pa) (pre ++ rest')) :=
          inv.merge ha hb (insertSorted_sorted _ _ hsort') hmem
        have hvalid' : ∀ q ∈ pre ++ rest', Valid F.rows q := fun q hq => inv.valid (by
          rcases List.mem_append.1 hq with h | h
          · exact List.mem_append_left _ h
          · exact List.mem_append_right _ (List.mem_cons_of_mem _ (List.mem_cons_of_mem _ h)))
        rw [map_eraseIdx_twice, parent_E hr va hrow]
        refine ⟨?_, ⟨_, insertInOrder_map hr vP _ hvalid' hPnot', inv'⟩⟩
        intro hm
        obtain ⟨q, hq, e⟩ := List.mem_map.1 hm
        have := E_inj hr (hvalid' q hq) vP e
        rw [this] at hq
        exact hPnot' hq
  · exact ⟨_, hd, Inv.init hn hlive⟩

/-- `deTwin_spec` with the additional fact that the result contains no two siblings -/
theorem deTwin_spec' {F : Forest H} (hn : F.numLeaves ≤ 2 ^ 63) (hnd : F.liveLeaves.Nodup)
    {D : List H} (hD : D.Nodup) (hlive : ∀ x ∈ D, x ∈ F.liveLeaves) :
    ∃ dtp : List Pos,
      Model.deTwin (Model.sortU64 ((D.map (fun l => (F.posOf l).getD (0, 0))).map (E F.rows)))
        (H8 F.rows) = dtp.map (E F.rows) ∧
      Model.sortU64 ((D.map (fun l => (F.posOf l).getD (0, 0))).map (E F.rows)) =
        (Forest.sortDedup (leafPositions F D)).map (E F.rows) ∧
      dtp.Pairwise PLt ∧ (∀ T, T ∈ dtp ↔ IsDT F D T) ∧ ∀ x ∈ dtp, sib x ∉ dtp := by
  have hr : F.rows ≤ 63 := rows_le_63 hn
  have hsort := sortU64_map_E hr (leafPositions F D) (leafPositions_valid hn hlive)
    (leafPositions_nodup hn hD hlive)
  have inv0 := Inv.init (F := F) hn hlive
  obtain ⟨dtp, h1, h2, h3⟩ := loop_spec (F := F) (D := D) hr
    (2 * (Forest.sortDedup (leafPositions F D)).length + 1) []
    (Forest.sortDedup (leafPositions F D)) inv0 (by simp) (by omega)
  refine ⟨dtp, ?_, hsort, h2.sorted, h2.final hnd h3, h3⟩
  show Model.deTwin (Model.sortU64 ((leafPositions F D).map (E F.rows))) (H8 F.rows) = _
  rw [hsort]
  unfold Model.deTwin
  rw [List.length_map]
  exact h1

end
end UtreexoVerif.Proofs.ProofUndoDeTwin
