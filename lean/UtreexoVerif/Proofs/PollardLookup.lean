/-
  Helper lemmas for C10 (look-ups tell the truth).

  * `childWalk t k o` — the sub-tree of the collapsed tree `t` reached by the `k` path bits
    `o_{k-1} … o_0` of an offset; `nodes_iff_childWalk`: the nodes listed by `CTree.nodes` are
    exactly the sub-trees reached by walks;
  * `nodeAt_tree` — `Forest.nodeAt` as a walk from the root of the tree the position lies under;
  * `nieceWalk_eq_descend`, `descend_eq_childWalk` — the loop of `Pollard.getNode` (niece form
    and child form) on the bit field returned by `DetectOffset` is that walk;
  * `getNodeHash_spec` — the model of `getNode`+`n.data` equals `nodeAt` on every `uint64`;
  * leaf nodes of the forest = live leaves (`leafHashes_eq`), `posOf` lemmas, counting lemmas.
-/
import UtreexoVerif.Model.PollardAbs
import UtreexoVerif.Proofs.SpecView
import UtreexoVerif.Proofs.NodesUnique
import UtreexoVerif.Props.C16b

namespace UtreexoVerif.Proofs.PollardLookup
open UtreexoVerif UtreexoVerif.GoInt UtreexoVerif.Proofs Spec Hasher Model
open UtreexoVerif.Proofs.SpecNodes UtreexoVerif.Proofs.SpecView UtreexoVerif.Model.PollardAbs

section
set_option linter.unusedSectionVars false
variable {H : Type} [DecidableEq H] [Hasher H]

/-! ### walks in a collapsed tree -/

/-- the sub-tree reached from the root of `t` by the path bits `o_{k-1}, …, o_0`
(`0` = left child, `1` = right child); `none` when the walk runs into a leaf -/
def childWalk : CTree H → Nat → Nat → Option (CTree H)
  | t, 0, _ => some t
  | .leaf _, _+1, _ => none
  | .node a b, k+1, o => if o.testBit k then childWalk b k o else childWalk a k o

theorem div_two_pow_succ_of_testBit {o k O : Nat} (h : o / 2 ^ (k + 1) = O) :
    o / 2 ^ k = 2 * O + (if o.testBit k then 1 else 0) := by
  have e : o / 2 ^ (k + 1) = o / 2 ^ k / 2 := by
    rw [Nat.pow_succ, Nat.div_div_eq_div_mul]
  rw [e] at h
  rw [Nat.testBit_eq_decide_div_mod_eq]
  by_cases hb : o / 2 ^ k % 2 = 1
  · simp only [hb, decide_true, if_true]; omega
  · simp only [hb, decide_false, Bool.false_eq_true, if_false]; omega

/-- a successful walk ends at a listed node -/
theorem walk_mem : ∀ (t : CTree H) (R O k o : Nat) (s : CTree H), k ≤ R → o / 2 ^ k = O →
    childWalk t k o = some s → ((R - k, o), s.hash, isLeaf s) ∈ t.nodes R O := by
  intro t
  induction t with
  | leaf h =>
    intro R O k o s hk ho hw
    cases k with
    | zero =>
      simp only [childWalk, Option.some.injEq] at hw
      subst hw
      simp only [Nat.pow_zero, Nat.div_one] at ho
      subst ho
      simp [CTree.nodes, isLeaf, CTree.hash]
    | succ k => simp [childWalk] at hw
  | node a b iha ihb =>
    intro R O k o s hk ho hw
    cases k with
    | zero =>
      simp only [childWalk, Option.some.injEq] at hw
      subst hw
      simp only [Nat.pow_zero, Nat.div_one] at ho
      subst ho
      simp [CTree.nodes, isLeaf]
    | succ k =>
      have hd := div_two_pow_succ_of_testBit ho
      simp only [childWalk] at hw
      simp only [CTree.nodes, List.mem_cons, List.mem_append]
      have e : R - (k + 1) = R - 1 - k := by omega
      rw [e]
      by_cases hb : o.testBit k = true
      · rw [if_pos hb] at hw
        rw [if_pos hb] at hd
        exact Or.inr (Or.inr (ihb (R - 1) (2 * O + 1) k o s (by omega) hd hw))
      · rw [if_neg hb] at hw
        rw [if_neg hb] at hd
        exact Or.inr (Or.inl (iha (R - 1) (2 * O) k o s (by omega) (by omega) hw))

/-- every listed node is the end of a walk -/
theorem mem_walk : ∀ (t : CTree H) (R O : Nat), depth t ≤ R → ∀ x ∈ t.nodes R O,
    ∃ s, childWalk t (R - x.1.1) x.1.2 = some s ∧ x.2.1 = s.hash ∧ x.2.2 = isLeaf s := by
  intro t
  induction t with
  | leaf h =>
    intro R O _ x hx
    simp only [CTree.nodes, List.mem_singleton] at hx
    subst hx
    exact ⟨.leaf h, by simp [childWalk], rfl, rfl⟩
  | node a b iha ihb =>
    intro R O hd x hx
    simp only [depth] at hd
    simp only [CTree.nodes, List.mem_cons, List.mem_append] at hx
    rcases hx with rfl | hx | hx
    · exact ⟨.node a b, by simp [childWalk], rfl, rfl⟩
    · obtain ⟨s, hw, h1, h2⟩ := iha (R - 1) (2 * O) (by omega) x hx
      obtain ⟨u1, u2⟩ := nodes_under a (R - 1) (2 * O) (by omega) x hx
      refine ⟨s, ?_, h1, h2⟩
      have e : R - x.1.1 = (R - 1 - x.1.1) + 1 := by omega
      rw [e]
      simp only [childWalk]
      have hb : x.1.2.testBit (R - 1 - x.1.1) = false := by
        rw [Nat.testBit_eq_decide_div_mod_eq, u2]; simp
      rw [hb]
      exact hw
    · obtain ⟨s, hw, h1, h2⟩ := ihb (R - 1) (2 * O + 1) (by omega) x hx
      obtain ⟨u1, u2⟩ := nodes_under b (R - 1) (2 * O + 1) (by omega) x hx
      refine ⟨s, ?_, h1, h2⟩
      have e : R - x.1.1 = (R - 1 - x.1.1) + 1 := by omega
      rw [e]
      simp only [childWalk]
      have hb : x.1.2.testBit (R - 1 - x.1.1) = true := by
        rw [Nat.testBit_eq_decide_div_mod_eq, u2]; simp
      rw [hb]
      exact hw

/-- the nodes of a collapsed tree, position by position: walks -/
theorem nodes_iff_childWalk (t : CTree H) {R O r o : Nat} (hd : depth t ≤ R) (hr : r ≤ R)
    (ho : o / 2 ^ (R - r) = O) (h : H) (lf : Bool) :
    ((r, o), h, lf) ∈ t.nodes R O ↔
      ∃ s, childWalk t (R - r) o = some s ∧ s.hash = h ∧ isLeaf s = lf := by
  constructor
  · intro hx
    obtain ⟨s, hw, h1, h2⟩ := mem_walk t R O hd _ hx
    exact ⟨s, hw, h1.symm, h2.symm⟩
  · rintro ⟨s, hw, rfl, rfl⟩
    have := walk_mem t R O (R - r) o s (by omega) ho hw
    rwa [show R - (R - r) = r by omega] at this

/-- walks compose -/
theorem childWalk_add : ∀ (t : CTree H) (a b o : Nat),
    childWalk t (a + b) o = (childWalk t a (o / 2 ^ b)).bind (fun s => childWalk s b o) := by
  intro t a
  induction a generalizing t with
  | zero => intro b o; simp [childWalk]
  | succ a ih =>
    intro b o
    rw [show a + 1 + b = (a + b) + 1 by omega]
    cases t with
    | leaf h => simp [childWalk]
    | node x y =>
      simp only [childWalk]
      have hb : o.testBit (a + b) = (o / 2 ^ b).testBit a := by
        rw [Nat.testBit_div_two_pow, Nat.add_comm]
      rw [hb]
      split
      · exact ih y b o
      · exact ih x b o

theorem childWalk_leaf (h : H) {k : Nat} (hk : 0 < k) (o : Nat) :
    childWalk (CTree.leaf h) k o = none := by
  cases k with
  | zero => omega
  | succ k => rfl

/-! ### `nodeAt` as a walk -/

/-- the collapsed tree on row `R` of the forest (`none`: no survivors) -/
def treeOf (F : Forest H) (R : Nat) : Option (CTree H) :=
  collapse R ((F.slots.drop (treeStart F.numLeaves R)).take (2 ^ R))

theorem treeNodes_eq (F : Forest H) (R : Nat) :
    treeNodes F R = match treeOf F R with
      | some t => t.nodes R (rootPos F.numLeaves R).2
      | none => [(rootPos F.numLeaves R, zero, false)] := rfl

theorem nodeAt_eq_none {F : Forest H} {p : Pos} (h : ∀ x ∈ F.nodes, x.1 ≠ p) :
    F.nodeAt p = none := by
  cases hn : F.nodeAt p with
  | none => rfl
  | some v =>
    obtain ⟨b, hb⟩ := nodeAt_eq_some_iff.1 hn
    exact absurd rfl (h _ hb)

theorem nodeAt_eq_none_iff {F : Forest H} {p : Pos} :
    F.nodeAt p = none ↔ ∀ x ∈ F.nodes, x.1 ≠ p := by
  constructor
  · intro hn x hx he
    have := nodeAt_of_mem hx
    rw [he, hn] at this
    cases this
  · exact nodeAt_eq_none

/-- a node whose position lies under the root of the tree on row `R` belongs to that tree -/
theorem mem_treeNodes_of_under {F : Forest H} {R : Nat} {x : Pos × H × Bool}
    (hb : F.numLeaves.testBit R = true) (hx : x ∈ F.nodes)
    (hu : Under R (2 * (F.numLeaves >>> (R + 1))) x.1) : x ∈ treeNodes F R := by
  obtain ⟨h1, ⟨hb1, _⟩, hx1⟩ := mem_nodes.1 hx
  have u1 := treeNodes_under F h1 x hx1
  rcases Nat.lt_trichotomy h1 R with hlt | heq | hgt
  · exact (under_disjoint hlt hb hu u1).elim
  · subst heq; exact hx1
  · exact (under_disjoint hgt hb1 u1 hu).elim

/-- **`nodeAt` is a walk from the root.**  For a position `(r, o)` under the root of the tree
on row `R`: the hash there is the hash of the sub-tree reached by the `R - r` low bits of `o`
(highest first); there is no node when the walk runs into a leaf (the position was vacated:
that leaf, or the sub-tree it belonged to, moved up) or when the tree has no survivors (then
only the root position carries a node, with the all-zero hash). -/
theorem nodeAt_tree (F : Forest H) {R r o : Nat} (hR : R ∈ treeRows F.numLeaves) (hr : r ≤ R)
    (ho : o / 2 ^ (R - r) = 2 * (F.numLeaves >>> (R + 1))) :
    F.nodeAt (r, o) = match treeOf F R with
      | some t => (childWalk t (R - r) o).map CTree.hash
      | none => if r = R then some zero else none := by
  have hb : F.numLeaves.testBit R = true := (mem_treeRowsFrom _ _ hR).1
  have hu : Under R (2 * (F.numLeaves >>> (R + 1))) (r, o) := ⟨hr, ho⟩
  have hin : ∀ x, x ∈ treeNodes F R → x ∈ F.nodes := fun x hx => mem_nodes.2 ⟨R, ⟨hb, hR⟩, hx⟩
  cases ht : treeOf F R with
  | some t =>
    simp only
    have hd : depth t ≤ R := collapse_depth _ _ _ ht
    have htn : treeNodes F R = t.nodes R (rootPos F.numLeaves R).2 := by
      rw [treeNodes_eq, ht]
    cases hw : childWalk t (R - r) o with
    | some s =>
      have hm := (nodes_iff_childWalk t hd hr ho s.hash (isLeaf s)).2 ⟨s, hw, rfl, rfl⟩
      have : ((r, o), s.hash, isLeaf s) ∈ F.nodes := hin _ (by rw [htn]; exact hm)
      exact nodeAt_of_mem this
    | none =>
      apply nodeAt_eq_none
      intro x hx he
      have hx' := mem_treeNodes_of_under hb hx (by rw [he]; exact hu)
      rw [htn] at hx'
      obtain ⟨s, hw', _⟩ := mem_walk t R _ hd x hx'
      rw [he] at hw'
      simp only at hw'
      rw [hw] at hw'
      cases hw'
  | none =>
    simp only
    have htn : treeNodes F R = [(rootPos F.numLeaves R, zero, false)] := by
      rw [treeNodes_eq, ht]
    by_cases hrR : r = R
    · subst hrR
      rw [if_pos rfl]
      rw [Nat.sub_self, Nat.pow_zero, Nat.div_one] at ho
      subst ho
      have : (rootPos F.numLeaves r, (zero : H), false) ∈ F.nodes := hin _ (by rw [htn]; simp)
      exact nodeAt_of_mem this
    · rw [if_neg hrR]
      apply nodeAt_eq_none
      intro x hx he
      have hx' := mem_treeNodes_of_under hb hx (by rw [he]; exact hu)
      rw [htn, List.mem_singleton] at hx'
      rw [hx'] at he
      simp only [rootPos, Prod.mk.injEq] at he
      omega

/-- positions outside the forest carry no node -/
theorem nodeAt_outside (F : Forest H) {r o : Nat} (h : F.numLeaves < (o + 1) * 2 ^ r) :
    F.nodeAt (r, o) = none := by
  apply nodeAt_eq_none
  intro x hx he
  obtain ⟨R, ⟨hb, _⟩, hx1⟩ := mem_nodes.1 hx
  obtain ⟨u1, u2⟩ := treeNodes_under F R x hx1
  rw [he] at u1 u2
  have := (below_root_iff (n := F.numLeaves) (r := r) (o := o)).2 ⟨R, u1, hb, u2⟩
  omega

/-! ### which positions are empty -/

theorem div_div_two_pow (o a b : Nat) : o / 2 ^ a / 2 ^ b = o / 2 ^ (a + b) := by
  rw [Nat.div_div_eq_div_mul, ← Nat.pow_add]

/-- a walk fails exactly when a proper prefix of it ends in a leaf -/
theorem childWalk_eq_none_iff : ∀ (k : Nat) (t : CTree H) (o : Nat),
    childWalk t k o = none ↔
      ∃ j h, j < k ∧ childWalk t j (o / 2 ^ (k - j)) = some (.leaf h) := by
  intro k
  induction k with
  | zero =>
    intro t o
    constructor
    · intro h; cases t <;> simp [childWalk] at h
    · rintro ⟨j, _, hj, _⟩; omega
  | succ k ih =>
    intro t o
    constructor
    · intro hw
      rw [childWalk_add t k 1 o] at hw
      cases hs : childWalk t k (o / 2 ^ 1) with
      | none =>
        obtain ⟨j, h, hj, hl⟩ := (ih t (o / 2 ^ 1)).1 hs
        refine ⟨j, h, by omega, ?_⟩
        rw [div_div_two_pow, show 1 + (k - j) = k + 1 - j by omega] at hl
        exact hl
      | some s =>
        rw [hs, Option.bind_some] at hw
        cases s with
        | leaf h =>
          refine ⟨k, h, by omega, ?_⟩
          rw [show k + 1 - k = 1 by omega]
          exact hs
        | node a b =>
          simp only [childWalk] at hw
          split at hw <;> cases a <;> cases b <;> simp at hw
    · rintro ⟨j, h, hj, hl⟩
      rw [show k + 1 = j + (k + 1 - j) by omega, childWalk_add, hl, Option.bind_some]
      exact childWalk_leaf h (by omega) o

/-- **Which positions carry no node**: exactly those outside the forest (some leaf slot below
them was never allocated), those strictly below a leaf node (vacated by a move: the leaf, or
the sub-tree it belonged to, moved up when its sibling died) and those strictly below the
root of a tree without survivors. -/
theorem nodeAt_eq_none_iff_vacated (F : Forest H) (hn : F.numLeaves < 2 ^ 64) (r o : Nat) :
    F.nodeAt (r, o) = none ↔
      F.numLeaves < (o + 1) * 2 ^ r ∨
      (∃ r' h, r < r' ∧ ((r', o / 2 ^ (r' - r)), h, true) ∈ F.nodes) ∨
      (∃ R, R ∈ treeRows F.numLeaves ∧ treeOf F R = none ∧ r < R ∧
        o / 2 ^ (R - r) = (rootPos F.numLeaves R).2) := by
  constructor
  · intro hnone
    by_cases hout : F.numLeaves < (o + 1) * 2 ^ r
    · exact Or.inl hout
    · refine Or.inr ?_
      obtain ⟨R, hrR, hb, hroot⟩ := (below_root_iff (n := F.numLeaves) (r := r) (o := o)).1 (by omega)
      have hR64 : R ≤ 64 := by
        apply Classical.byContradiction
        intro hc
        have : F.numLeaves < 2 ^ R :=
          Nat.lt_of_lt_of_le hn (Nat.pow_le_pow_right (by decide) (by omega))
        rw [Nat.testBit_lt_two_pow this] at hb
        cases hb
      have hRmem : R ∈ treeRows F.numLeaves := Spec.mem_treeRows.2 ⟨hR64, hb⟩
      rw [nodeAt_tree F hRmem hrR hroot] at hnone
      cases ht : treeOf F R with
      | none =>
        rw [ht] at hnone
        simp only at hnone
        by_cases hrr : r = R
        · rw [if_pos hrr] at hnone; cases hnone
        · exact Or.inr ⟨R, hRmem, ht, by omega, hroot⟩
      | some t =>
        rw [ht] at hnone
        simp only [Option.map_eq_none_iff] at hnone
        obtain ⟨j, h, hj, hl⟩ := (childWalk_eq_none_iff _ t o).1 hnone
        refine Or.inl ⟨R - j, h, by omega, ?_⟩
        have hm := walk_mem t R (rootPos F.numLeaves R).2 j (o / 2 ^ (R - r - j)) (.leaf h)
          (by omega) (by rw [div_div_two_pow, show R - r - j + j = R - r by omega]; exact hroot) hl
        rw [show R - j - r = R - r - j by omega]
        refine mem_nodes.2 ⟨R, ⟨hb, hRmem⟩, ?_⟩
        rw [treeNodes_eq, ht]
        exact hm
  · rintro (hout | ⟨r', h, hr', hx⟩ | ⟨R, hRmem, ht, hrR, hroot⟩)
    · exact nodeAt_outside F hout
    · obtain ⟨R, ⟨hb, hRmem⟩, hx'⟩ := mem_nodes.1 hx
      obtain ⟨u1, u2⟩ := treeNodes_under F R _ hx'
      simp only at u1 u2
      have hroot : o / 2 ^ (R - r) = 2 * (F.numLeaves >>> (R + 1)) := by
        rw [← u2, div_div_two_pow, show r' - r + (R - r') = R - r by omega]
      rw [nodeAt_tree F hRmem (by omega) hroot]
      rw [treeNodes_eq] at hx'
      cases ht : treeOf F R with
      | none =>
        rw [ht] at hx'
        simp at hx'
      | some t =>
        rw [ht] at hx'
        simp only at hx' ⊢
        obtain ⟨s, hw, _, hl⟩ := mem_walk t R _ (collapse_depth _ _ _ ht) _ hx'
        simp only at hw hl
        cases s with
        | node a b => simp [isLeaf] at hl
        | leaf h' =>
          rw [show R - r = (R - r') + (r' - r) by omega, childWalk_add, hw, Option.bind_some,
            childWalk_leaf h' (by omega)]
          rfl
    · rw [nodeAt_tree F hRmem (by omega) hroot, ht]
      simp only
      rw [if_neg (by omega)]

/-! ### the loop of `getNode` -/

theorem and_one_beq_zero (z : U64) : ((z &&& 1#64) == 0#64) = !z.getLsbD 0 := by
  have h1 : (z &&& 1#64).toNat = z.toNat % 2 := by
    rw [BitVec.toNat_and, BitVec.toNat_one (by decide), Nat.and_one_is_mod]
  have h2 : z.getLsbD 0 = decide (z.toNat % 2 = 1) := by
    rw [← BitVec.testBit_toNat, Nat.testBit_eq_decide_div_mod_eq]; simp
  rw [h2]
  by_cases hz : z.toNat % 2 = 1
  · have : (z &&& 1#64) ≠ 0#64 := by
      intro hc
      have := congrArg BitVec.toNat hc
      rw [h1, hz] at this
      simp at this
    simp [hz, this]
  · have : (z &&& 1#64) = 0#64 := by
      apply BitVec.eq_of_toNat_eq
      rw [h1]; simp; omega
    simp [hz, this]

/-- `isLeftNiece(uint64(uint8(bits>>h) & 1))` reads bit `h` of `bits` (any `h`; bits `≥ 64`
are `0`, as in Go) -/
theorem leftNieceAt_eq (bits : U64) (h : Nat) : leftNieceAt bits h = !bits.getLsbD h := by
  unfold leftNieceAt isLeftNiece conv
  rw [and_one_beq_zero, shr_eq]
  simp

/-- after at least one step the niece walk no longer depends on `n`: it is the child walk
from `sibling` -/
theorem nieceWalk_succ (bits : U64) : ∀ (k : Nat) (n s : CTree H),
    nieceWalk n s (k + 1) bits = descend s (k + 1) bits := by
  intro k
  induction k with
  | zero =>
    intro n s
    cases s with
    | leaf h => simp [nieceWalk, descend, child]
    | node a b =>
      simp only [nieceWalk, descend, child, if_true]
      cases leftNieceAt bits 0 <;> simp
  | succ k ih =>
    intro n s
    cases s with
    | leaf h => simp [nieceWalk, descend, child]
    | node a b =>
      rw [nieceWalk, descend]
      simp only [child, if_neg (Nat.succ_ne_zero k)]
      cases leftNieceAt bits (k + 1)
      · simp only [Bool.false_eq_true, if_false]
        exact ih b a
      · simp only [if_true]
        exact ih a b

/-- **The aunt/niece inversion, as a theorem**: the loop of `getNode` transcribed literally
(nodes point to their nieces, start at `n = sibling = root`) reaches the same node as the walk
along the child structure with all bits but the last inverted — on every collapsed tree, every
step count and every bit field. -/
theorem nieceWalk_eq_descend (t : CTree H) (k : Nat) (bits : U64) :
    nieceWalk t t k bits = descend t k bits := by
  cases k with
  | zero => rfl
  | succ k => exact nieceWalk_succ bits k t t

/-- on a bit field of the shape `DetectOffset` returns (bit 0 = offset bit 0, bit `j ≥ 1` =
complement of offset bit `j`) the child walk of `getNode` follows the offset bits -/
theorem descend_eq_childWalk (bits : U64) (o : Nat) : ∀ (k : Nat) (t : CTree H),
    (∀ j, j < k → bits.getLsbD j = if j = 0 then o.testBit 0 else !o.testBit j) →
    descend t k bits = childWalk t k o := by
  intro k
  induction k with
  | zero => intro t _; cases t <;> rfl
  | succ k ih =>
    intro t hbits
    have hk := hbits k (by omega)
    have hgo : (if k = 0 then !leftNieceAt bits k else leftNieceAt bits k) = o.testBit k := by
      rw [leftNieceAt_eq, hk]
      by_cases h0 : k = 0
      · subst h0; simp
      · simp [h0]
    rw [descend]
    simp only [hgo]
    cases t with
    | leaf h => simp [child, childWalk]
    | node a b =>
      rw [childWalk]
      cases o.testBit k
      · simp only [child, Bool.false_eq_true, if_false]
        exact ih a (fun j hj => hbits j (by omega))
      · simp only [child, if_true]
        exact ih b (fun j hj => hbits j (by omega))

/-! ### `getNode` on the specification forest -/

theorem trees_getElem (F : Forest H) {R : Nat} (hR : R ∈ treeRows F.numLeaves) :
    F.trees[(treeRows F.numLeaves).idxOf R]? = some (R, treeOf F R) := by
  unfold Forest.trees treeOf
  rw [List.getElem?_map, List.getElem?_eq_getElem (List.idxOf_lt_length_of_mem hR),
    List.getElem_idxOf]
  rfl

theorem getNodeHash_spec (useNiece : Bool) (F : Forest H) (hn : F.numLeaves < 2 ^ 63) (pos : U64) :
    getNodeHash useNiece F pos = (dec F.rows pos.toNat).bind F.nodeAt := by
  have htr : F.rows ≤ 63 := forestRows_le_63 hn
  have hT : TreeRows (BitVec.ofNat 64 F.numLeaves) = H8 F.rows := treeRows_eq hn
  have hnn : (BitVec.ofNat 64 F.numLeaves).toNat = F.numLeaves := toNat_ofNat64_of_lt (by omega)
  unfold getNodeHash
  simp only [hT]
  by_cases hp : pos.toNat < 2 ^ (F.rows + 1) - 1
  · obtain ⟨r, o, hr, ho, rfl⟩ := Props.C16.position_exists pos hp
    rw [toNat_encU htr hr ho, dec_enc _ _ _ hr ho, Option.bind_some]
    have hg1 : decide (encU F.rows r o ≥ maxPosition (H8 F.rows)) = false := by
      rw [decide_eq_false_iff_not, ge_iff_le, BitVec.le_def]
      unfold maxPosition
      rw [toNat_H8 htr, toNat_mask htr]
      omega
    rw [hg1, Bool.false_or, Props.C16.inForest_enc htr hr ho, hnn]
    by_cases hin : (o + 1) * 2 ^ r ≤ F.numLeaves
    · simp only [hin, decide_true, Bool.not_true, Bool.false_eq_true, if_false]
      have hin' : inForest (encU F.rows r o) (BitVec.ofNat 64 F.numLeaves) (H8 F.rows) = true := by
        rw [Props.C16.inForest_enc htr hr ho, hnn, decide_eq_true_iff]; exact hin
      obtain ⟨R, hrR, hbR, hroot, hdo⟩ :=
        Props.C16.detectOffset_of_inForest (BitVec.ofNat 64 F.numLeaves) hT htr hr ho hin'
      rw [hnn] at hbR hroot hdo
      have hR64 : R ≤ 63 := Nat.le_trans (testBit_le_forestRows hbR) htr
      have hRrows : R ≤ F.rows := testBit_le_forestRows hbR
      have hRmem : R ∈ treeRows F.numLeaves := Spec.mem_treeRows.2 ⟨by omega, hbR⟩
      have hidx : (BitVec.ofNat 8 ((treeRows F.numLeaves).idxOf R)).toNat =
          (treeRows F.numLeaves).idxOf R := by
        have h1 := List.idxOf_lt_length_of_mem hRmem
        have h2 : (treeRows F.numLeaves).length ≤ 65 := by
          rw [Spec.treeRows_length]
          exact Nat.le_trans List.countP_le_length (by simp)
        rw [BitVec.toNat_ofNat]
        omega
      rw [hdo]
      simp only [Bool.false_eq_true, if_false, hidx, trees_getElem F hRmem]
      rw [nodeAt_tree F hRmem hrR hroot]
      have hbl : (H8 (R - r)).toNat = R - r := toNat_H8 (by omega)
      have hbits := fun j (hj : j < R - r) =>
        Props.C16.detectOffset_bits (k := j) (BitVec.ofNat 64 F.numLeaves) htr hrR hRrows ho hj
      rw [hnn] at hbits
      cases ht : treeOf F R with
      | none =>
        simp only [hbl]
        by_cases h0 : R - r = 0
        · rw [if_pos h0, if_pos (by omega)]
        · rw [if_neg h0, if_neg (by omega)]
      | some t =>
        simp only [hbl]
        have hw := descend_eq_childWalk _ o (R - r) t hbits
        cases useNiece
        · simp only [Bool.false_eq_true, if_false, hw]
        · simp only [if_true, nieceWalk_eq_descend, hw]
    · simp only [hin, decide_false, Bool.not_false, if_true]
      exact (nodeAt_outside F (by omega)).symm
  · have hg1 : decide (pos ≥ maxPosition (H8 F.rows)) = true := by
      rw [decide_eq_true_iff, ge_iff_le, BitVec.le_def]
      unfold maxPosition
      rw [toNat_H8 htr, toNat_mask htr]
      omega
    rw [hg1, Bool.true_or, if_pos rfl]
    cases hd : dec F.rows pos.toNat with
    | none => rfl
    | some q =>
      obtain ⟨a, b, c⟩ := dec_some _ _ q.1 q.2 hd
      have := enc_lt_aux a b
      omega

/-! ### node positions are positions of the `F.rows`-row geometry -/

theorem node_pos_valid {F : Forest H} {x : Pos × H × Bool} (hx : x ∈ F.nodes) :
    x.1.1 ≤ F.rows ∧ x.1.2 < 2 ^ (F.rows - x.1.1) := by
  obtain ⟨R, ⟨hb, _⟩, hx'⟩ := mem_nodes.1 hx
  obtain ⟨u1, u2⟩ := treeNodes_under F R x hx'
  have hR : R ≤ F.rows := testBit_le_forestRows hb
  have hlt := rootOffset_lt hb
  refine ⟨by omega, ?_⟩
  rw [← u2, Nat.div_lt_iff_lt_mul (Nat.two_pow_pos _), ← Nat.pow_add] at hlt
  have e : F.rows = forestRows F.numLeaves := rfl
  rw [show forestRows F.numLeaves - R + (R - x.1.1) = F.rows - x.1.1 by omega] at hlt
  exact hlt

/-! ### leaf nodes = live leaves -/

theorem ctree_leafHashes : ∀ (t : CTree H) (r o : Nat),
    ((t.nodes r o).filter (fun x => x.2.2)).map (fun x => x.2.1) = t.leaves := by
  intro t
  induction t with
  | leaf h => intro r o; simp [CTree.nodes, CTree.leaves]
  | node a b iha ihb =>
    intro r o
    simp only [CTree.nodes, CTree.leaves, List.filter_cons, Bool.false_eq_true, if_false,
      List.filter_append, List.map_append, iha, ihb]

/-- the hashes of the leaf nodes of the forest, in order, are the live leaves (slot order) -/
theorem leafHashes_eq (F : Forest H) (hn : F.numLeaves < 2 ^ 64) :
    (F.nodes.filter (fun x => x.2.2)).map (fun x => x.2.1) = F.liveLeaves := by
  rw [← trees_leaves F hn]
  unfold Forest.nodes
  rw [List.filter_flatMap, List.map_flatMap]
  rw [List.flatMap_def, List.flatMap_def]
  congr 1
  apply List.map_congr_left
  rintro ⟨h, t⟩ _
  cases t with
  | none => simp [optLeaves]
  | some t => simp only [optLeaves]; exact ctree_leafHashes t _ _

theorem mem_liveLeaves_iff_leaf_node (F : Forest H) (hn : F.numLeaves < 2 ^ 64) (h : H) :
    h ∈ F.liveLeaves ↔ ∃ p, (p, h, true) ∈ F.nodes := by
  rw [← leafHashes_eq F hn, List.mem_map]
  constructor
  · rintro ⟨x, hx, rfl⟩
    rw [List.mem_filter] at hx
    refine ⟨x.1, ?_⟩
    have : x = (x.1, x.2.1, true) := by rw [← hx.2]
    rw [← this]; exact hx.1
  · rintro ⟨p, hp⟩
    exact ⟨(p, h, true), List.mem_filter.2 ⟨hp, rfl⟩, rfl⟩

theorem inj_of_nodup_map {α β : Type} (f : α → β) : ∀ (l : List α), (l.map f).Nodup →
    ∀ x ∈ l, ∀ y ∈ l, f x = f y → x = y := by
  intro l
  induction l with
  | nil => intro _ x hx; cases hx
  | cons a l ih =>
    intro hnd x hx y hy hxy
    rw [List.map_cons, List.nodup_cons] at hnd
    rcases List.mem_cons.1 hx with hxa | hx' <;> rcases List.mem_cons.1 hy with hya | hy'
    · rw [hxa, hya]
    · subst hxa
      have : f x ∈ l.map f := List.mem_map.2 ⟨y, hy', hxy.symm⟩
      exact absurd this hnd.1
    · subst hya
      have : f y ∈ l.map f := List.mem_map.2 ⟨x, hx', hxy⟩
      exact absurd this hnd.1
    · exact ih hnd.2 x hx' y hy' hxy

/-- with pairwise distinct live leaves, a leaf hash sits at one position only -/
theorem leaf_node_pos_unique (F : Forest H) (hn : F.numLeaves < 2 ^ 64) (hnd : F.liveLeaves.Nodup)
    {p p' : Pos} {h : H} (h1 : (p, h, true) ∈ F.nodes) (h2 : (p', h, true) ∈ F.nodes) : p = p' := by
  rw [← leafHashes_eq F hn] at hnd
  have := inj_of_nodup_map _ _ hnd (p, h, true) (List.mem_filter.2 ⟨h1, rfl⟩) (p', h, true)
    (List.mem_filter.2 ⟨h2, rfl⟩) rfl
  exact (Prod.mk.inj this).1

/-! ### `posOf` -/

theorem posOf_some_mem {F : Forest H} {h : H} {p : Pos} (hp : F.posOf h = some p) :
    (p, h, true) ∈ F.nodes := by
  unfold Forest.posOf at hp
  cases hf : F.nodes.find? (fun x => x.2.2 && x.2.1 == h) with
  | none => rw [hf] at hp; simp at hp
  | some y =>
    rw [hf] at hp
    simp only [Option.map_some, Option.some.injEq] at hp
    have hy := List.mem_of_find?_eq_some hf
    have hq := List.find?_some hf
    simp only [Bool.and_eq_true, beq_iff_eq] at hq
    have : y = (p, h, true) := by rw [← hp, ← hq.1, ← hq.2]
    rw [← this]; exact hy

theorem posOf_eq_none_iff (F : Forest H) (hn : F.numLeaves < 2 ^ 64) (h : H) :
    F.posOf h = none ↔ h ∉ F.liveLeaves := by
  rw [mem_liveLeaves_iff_leaf_node F hn]
  unfold Forest.posOf
  rw [Option.map_eq_none_iff, List.find?_eq_none]
  constructor
  · rintro hall ⟨p, hp⟩
    exact hall _ hp (by simp)
  · intro hne x hx hq
    simp only [Bool.and_eq_true, beq_iff_eq] at hq
    apply hne
    refine ⟨x.1, ?_⟩
    have : x = (x.1, h, true) := by rw [← hq.1, ← hq.2]
    rw [← this]; exact hx

theorem posOf_eq_some_iff (F : Forest H) (hn : F.numLeaves < 2 ^ 64) (hnd : F.liveLeaves.Nodup)
    (h : H) (p : Pos) : F.posOf h = some p ↔ (p, h, true) ∈ F.nodes := by
  constructor
  · exact posOf_some_mem
  · intro hp
    cases hq : F.posOf h with
    | none =>
      exact absurd ((mem_liveLeaves_iff_leaf_node F hn h).2 ⟨p, hp⟩)
        ((posOf_eq_none_iff F hn h).1 hq)
    | some q =>
      rw [leaf_node_pos_unique F hn hnd (posOf_some_mem hq) hp]

/-- a node that is not a leaf node is an empty root (all-zero hash) or carries a parent hash -/
theorem internal_node_hash {F : Forest H} {p : Pos} {h : H} (hx : (p, h, false) ∈ F.nodes) :
    h = zero ∨ ∃ a b : H, h = ph a b := by
  obtain ⟨R, _, hx'⟩ := mem_nodes.1 hx
  unfold treeNodes at hx'
  split at hx'
  · obtain ⟨a, b, he, _⟩ := nodes_internal _ _ _ _ hx' rfl
    exact Or.inr ⟨a.hash, b.hash, he⟩
  · simp only [List.mem_singleton, Prod.mk.injEq] at hx'
    exact Or.inl hx'.2.1

/-! ### counting -/

theorem filter_not_mem_length [DecidableEq α] : ∀ (d L : List α), L.Nodup → d.Nodup →
    (∀ x ∈ d, x ∈ L) → (L.filter (fun x => decide (x ∉ d))).length + d.length = L.length := by
  intro d
  induction d with
  | nil => intro L _ _ _; simp
  | cons x d ih =>
    intro L hL hd hsub
    rw [List.nodup_cons] at hd
    have hx : x ∈ L := hsub x (List.mem_cons_self)
    have h1 := ih (L.erase x) (hL.erase x) hd.2 (by
      intro y hy
      rw [hL.mem_erase_iff]
      exact ⟨fun e => hd.1 (e ▸ hy), hsub y (List.mem_cons_of_mem _ hy)⟩)
    have h2 : L.filter (fun y => decide (y ∉ x :: d)) =
        (L.erase x).filter (fun y => decide (y ∉ d)) := by
      rw [hL.erase_eq_filter, List.filter_filter]
      apply List.filter_congr
      intro y _
      simp only [List.mem_cons, not_or, Bool.decide_and, Bool.and_comm,
        decide_not]
      by_cases e : y = x <;> simp [e]
    rw [h2, List.length_cons]
    have := List.length_erase_of_mem hx
    have : 0 < L.length := List.length_pos_of_mem hx
    omega

theorem liveLeaves_modify (F : Forest H) (d a : List H) :
    (F.modify d a).liveLeaves = F.liveLeaves.filter (fun x => decide (x ∉ d)) ++ a := by
  unfold Forest.modify Forest.delLeaves Forest.addMany Forest.liveLeaves
  simp only [List.filterMap_append, List.filterMap_map]
  congr 1
  · induction F.slots with
    | nil => rfl
    | cons s l ih =>
      cases s with
      | none => simpa using ih
      | some x =>
        by_cases hx : x ∈ d
        · simp [hx] at ih ⊢
          exact ih
        · simp [hx] at ih ⊢
          exact ih
  · induction a with
    | nil => rfl
    | cons x l ih => simp

/-! ### histories -/

open Spec.Forest in
/-- the live leaves after a valid history from the empty accumulator: the additions that were
never deleted, in insertion order -/
theorem liveLeaves_run (hist : List (Block H)) (hnd : (allAdds hist).Nodup)
    (hlive : LiveDels Forest.empty hist) :
    (run Forest.empty hist).liveLeaves =
      (allAdds hist).filter (fun x => decide (x ∉ allDels hist)) := by
  have hs := run_slots_gen hist [] [] Forest.empty rfl (by simp) (by simpa using hnd) hlive
  simp only [List.nil_append] at hs
  unfold Forest.liveLeaves
  rw [hs]
  induction allAdds hist with
  | nil => rfl
  | cons x l ih =>
    by_cases hx : x ∈ allDels hist
    · simp [mark, hx] at ih ⊢; exact ih
    · simp [mark, hx] at ih ⊢; exact ih

open Spec.Forest in
/-- **tracked live leaves = additions − deletions**, from any starting forest: the blocks
delete live leaves (each at most once per block) and the leaves added are new. -/
theorem trackedCount_run_gen : ∀ (hist : List (Block H)) (F : Forest H),
    (F.liveLeaves ++ allAdds hist).Nodup → LiveDels F hist → (∀ b ∈ hist, b.1.Nodup) →
    trackedCount (run F hist) + (allDels hist).length =
      trackedCount F + (allAdds hist).length := by
  intro hist
  induction hist with
  | nil => intro F _ _ _; simp [run]
  | cons b rest ih =>
    intro F hnd hlive hdn
    obtain ⟨d, a⟩ := b
    simp only [allAdds_cons, allDels_cons] at hnd ⊢
    obtain ⟨hl1, hl2⟩ := hlive
    simp only at hl1 hl2
    have hLive : F.liveLeaves.Nodup := (List.nodup_append.1 hnd).1
    have hd : d.Nodup := hdn (d, a) (List.mem_cons_self)
    have hcount := filter_not_mem_length d F.liveLeaves hLive hd hl1
    have hlm := liveLeaves_modify F d a
    have hnd' : ((F.modify d a).liveLeaves ++ allAdds rest).Nodup := by
      rw [hlm, List.append_assoc]
      exact List.Nodup.sublist (List.Sublist.append (List.filter_sublist) (List.Sublist.refl _)) hnd
    have := ih (F.modify d a) hnd' hl2 (fun b hb => hdn b (List.mem_cons_of_mem _ hb))
    unfold trackedCount at this ⊢
    rw [hlm, List.length_append] at this
    simp only [run, List.length_append]
    omega

open Spec.Forest in
theorem numLeaves_run_aux (F : Forest H) (hist : List (Block H)) :
    (run F hist).numLeaves = F.numLeaves + (allAdds hist).length := by
  induction hist generalizing F with
  | nil => simp [run]
  | cons b rest ih =>
    rw [run, ih]
    simp [Forest.modify, Forest.addMany, Forest.delLeaves, Forest.numLeaves]
    omega

end
end UtreexoVerif.Proofs.PollardLookup
