import UtreexoVerif.Proofs.MapMoveUp
import UtreexoVerif.Proofs.MapRemap
open UtreexoVerif Model Spec Spec.Forest Proofs MapAL MapInv MapPrune MapRep Hasher

namespace UtreexoVerif.Proofs.MapAddRep
variable {H : Type} [DecidableEq H] [Hasher H]

/-- the cache update of the empty-root branch of `addSingle` -/
def cacheUp (add pNode : Leaf H) (P : Pos) (C : H → Option Pos) : H → Option Pos :=
  if add.remember = true ∧ pNode.hash = add.hash then
    (if (C add.hash).isSome = true then upd C add.hash (some P) else C)
  else C

/-! ### the loop test -/

theorem bit_test {n k : Nat} (hn : n < 2 ^ 64) (hk : k ≤ 63) :
    (((BitVec.ofNat 64 n) >>> (H8 k).toNat) &&& 1#64 == 1#64) = n.testBit k := by
  have e : (((BitVec.ofNat 64 n) >>> (H8 k).toNat) &&& 1#64).toNat = n / 2 ^ k % 2 := by
    rw [BitVec.toNat_and, BitVec.toNat_ushiftRight, toNat_H8 hk, toNat_ofNat64_of_lt hn,
      show (1#64).toNat = 1 from rfl, Nat.and_one_is_mod, Nat.shiftRight_eq_div_pow]
  rw [Nat.testBit_eq_decide_div_mod_eq, Bool.eq_iff_iff, beq_iff_eq, decide_eq_true_iff]
  constructor
  · intro h
    rw [h] at e
    exact e.symm
  · intro h
    apply BitVec.eq_of_toNat_eq
    rw [e, h]; rfl

/-! ### geometry of a set bit `k` of `n` -/

theorem geo {T n k : Nat} (hfit : forestRows (n + 1) ≤ T) (hbit : n.testBit k = true) :
    k < T ∧ n < 2 ^ T ∧ (n >>> k) % 2 = 1 ∧ n >>> (k + 1) = (n >>> k) / 2 ∧ Valid T (k, n >>> k) := by
  have h1 : 2 ^ k ≤ n := Nat.ge_two_pow_of_testBit hbit
  have h2 := SpecView.le_two_pow_forestRows (n + 1)
  have h3 : 2 ^ forestRows (n + 1) ≤ 2 ^ T := two_pow_le_of_le hfit
  have hn : n < 2 ^ T := by omega
  have hk : k < T := (Nat.pow_lt_pow_iff_right (by decide : 1 < 2)).1 (by omega)
  have hodd : (n >>> k) % 2 = 1 := by
    rw [Nat.testBit_eq_decide_div_mod_eq, decide_eq_true_iff] at hbit
    rw [Nat.shiftRight_eq_div_pow]; exact hbit
  refine ⟨hk, hn, hodd, Nat.shiftRight_succ _ _, by show k ≤ T; omega, ?_⟩
  show n >>> k < 2 ^ (T - k)
  rw [Nat.shiftRight_eq_div_pow, Nat.div_lt_iff_lt_mul (Nat.two_pow_pos _), ← Nat.pow_add,
    show T - k + k = T by omega]
  exact hn

theorem sib_sigma {n k : Nat} (hbit : n.testBit k = true) : sib (k, n >>> k) = rootPos n k := by
  obtain ⟨_, _, hodd, hs, _⟩ := geo (Nat.le_refl _) hbit
  unfold sib rootPos
  simp only [hs]
  rw [if_neg (by omega)]
  congr 1
  omega

theorem sib_root {n k : Nat} (hbit : n.testBit k = true) : sib (rootPos n k) = (k, n >>> k) := by
  obtain ⟨_, _, hodd, hs, _⟩ := geo (Nat.le_refl _) hbit
  unfold sib rootPos
  simp only [hs]
  rw [if_pos (by omega)]
  congr 1
  omega

theorem parent_sigma (n k : Nat) : parent (k, n >>> k) = (k + 1, n >>> (k + 1)) := by
  unfold parent
  simp only [Nat.shiftRight_succ]

theorem valid_root {T n k : Nat} (hfit : forestRows (n + 1) ≤ T) (hbit : n.testBit k = true) :
    Valid T (rootPos n k) := by
  obtain ⟨hk, _, _, _, hv⟩ := geo hfit hbit
  rw [← sib_sigma hbit]
  exact valid_sib hv hk

theorem rootPosition_eq {T n k : Nat} (hT : T ≤ 63) (hfit : forestRows (n + 1) ≤ T) (hbit : n.testBit k = true) :
    rootPosition (BitVec.ofNat 64 n) (H8 k) (H8 T) = encP T (rootPos n k) := by
  obtain ⟨hk, hn, _, _, _⟩ := geo hfit hbit
  have hv := valid_root hfit hbit
  have : n < 2 ^ (T + 1) := by rw [Nat.pow_succ]; omega
  exact SpecView.rootPosition_enc hT (by omega) this hv.2

/-! ### `pruneNieces` -/

theorem pruneNieces_rep {m : MapPollard H} {T : Nat} {A : Pos → Option (Leaf H)} {C : H → Option Pos}
    (rep : Rep m T A C) {P : Pos} (hP : Valid T P) (h1 : 1 ≤ P.1) :
    Rep (m.pruneNieces (encP T P)) T (pruneA A (P.1 - 1, 2 * P.2)) C ∧
      (m.pruneNieces (encP T P)).numLeaves = m.numLeaves ∧ (m.pruneNieces (encP T P)).full = m.full := by
  have hT := rep.T_le
  have hne : ¬ ((H8 P.1 == 0#8) = true) := by
    rw [H8_beq_zero (by have := hP.1; omega)]; omega
  unfold MapPollard.pruneNieces
  rw [rep.rows, detectRow_encP hT hP, if_neg hne, leftChild_encP hT hP h1]
  have hv := valid_child hP h1 0 (by omega)
  rw [Nat.add_zero] at hv
  obtain ⟨f1, f2, f3, f4⟩ := prunePosition_frame m (encP T (P.1 - 1, 2 * P.2))
  exact ⟨rep.prunePosition hv (by show P.1 - 1 < T; have := hP.1; omega), f2, f4⟩

/-- one unfolding of `addLoop` with the `let`s inlined -/
theorem addLoop_succ (add : Leaf H) (tr : U8) (fuel : Nat) (h : U8) (position : U64) (pNode : Leaf H)
    (m : MapPollard H) :
    MapPollard.addLoop add tr (fuel + 1) h position pNode m =
      if (m.numLeaves >>> h.toNat) &&& 1#64 == 1#64 then
        match m.getNode (rootPosition m.numLeaves h tr) with
        | none => (m, .error .err)
        | some node =>
          if node.hash = zero then
            match MapPollard.moveUpDescendants position (rootPosition m.numLeaves h tr)
                (if add.remember && pNode.hash = add.hash then
                  (if ((m.delNode (rootPosition m.numLeaves h tr)).delNode position).hasCached add.hash then
                    ((m.delNode (rootPosition m.numLeaves h tr)).delNode position).putCached add.hash (Parent position tr)
                   else (m.delNode (rootPosition m.numLeaves h tr)).delNode position)
                 else (m.delNode (rootPosition m.numLeaves h tr)).delNode position) with
            | (m', .error e) => (m', .error e)
            | (m', .ok ()) =>
              MapPollard.addLoop add tr fuel (h + 1) (Parent position tr) pNode
                ((m'.putNode (Parent position tr) pNode).pruneNieces (Parent position tr))
          else
            MapPollard.addLoop add tr fuel (h + 1) (Parent position tr) ⟨ph node.hash pNode.hash, m.full⟩
              ((m.putNode (Parent position tr) ⟨ph node.hash pNode.hash, m.full⟩).pruneNieces (Parent position tr))
      else (m, .ok ()) := rfl

theorem addLoop_done {m : MapPollard H} {n k : Nat} (hn : m.numLeaves = BitVec.ofNat 64 n) (hn63 : n < 2 ^ 63)
    (hk : k ≤ 63) (hbit : n.testBit k = false) (add : Leaf H) (tr : U8) (fuel : Nat) (pos : U64) (pNode : Leaf H) :
    MapPollard.addLoop add tr (fuel + 1) (H8 k) pos pNode m = (m, .ok ()) := by
  have : n < 2 ^ 64 := by omega
  rw [addLoop_succ, hn, bit_test this hk, hbit]
  rfl

theorem H8_succ (k : Nat) : H8 k + 1 = H8 (k + 1) := by
  show BitVec.ofNat 8 k + 1 = BitVec.ofNat 8 (k + 1)
  exact (BitVec.ofNat_add _ _).symm

set_option linter.unusedVariables false in
theorem addLoop_step_nonempty {m : MapPollard H} {T n k : Nat} {A : Pos → Option (Leaf H)} {C : H → Option Pos}
    (rep : Rep m T A C) (hn : m.numLeaves = BitVec.ofNat 64 n) (hn63 : n + 1 < 2 ^ 63)
    (hfit : forestRows (n + 1) ≤ T) {fl : Bool} (hfull : m.full = fl) (hbit : n.testBit k = true)
    {node : Leaf H} (hroot : A (rootPos n k) = some node) (hnz : node.hash ≠ zero)
    (add pNode : Leaf H) (fuel : Nat) :
    ∃ m', MapPollard.addLoop add (H8 T) (fuel + 1) (H8 k) (encP T (k, n >>> k)) pNode m =
        MapPollard.addLoop add (H8 T) fuel (H8 (k + 1)) (encP T (k + 1, n >>> (k + 1)))
          ⟨ph node.hash pNode.hash, fl⟩ m' ∧
      Rep m' T (pruneA (upd A (k + 1, n >>> (k + 1)) (some ⟨ph node.hash pNode.hash, fl⟩)) (rootPos n k)) C ∧
      m'.numLeaves = m.numLeaves ∧ m'.full = m.full := by
  have hT := rep.T_le
  obtain ⟨hk, hnT, hodd, hs, hσ⟩ := geo hfit hbit
  have hρ := valid_root hfit hbit
  have hP : Valid T (k + 1, n >>> (k + 1)) := by
    rw [← parent_sigma]; exact valid_parent hσ hk
  have hpar : Parent (encP T (k, n >>> k)) (H8 T) = encP T (k + 1, n >>> (k + 1)) := by
    rw [MapPrune.parent_encP hT hσ hk, parent_sigma]
  rw [addLoop_succ, hn, bit_test (by omega) (by omega), hbit, if_pos rfl, rootPosition_eq hT hfit hbit,
    rep.node _ hρ, hroot]
  simp only
  rw [if_neg hnz, hpar, hfull, H8_succ]
  have rep1 := rep.putNode hP (⟨ph node.hash pNode.hash, fl⟩ : Leaf H)
  obtain ⟨rep2, f1, f2⟩ := pruneNieces_rep rep1 hP (by show 1 ≤ k + 1; omega)
  exact ⟨_, rfl, rep2, f1.trans hn, f2.trans hfull⟩

theorem cacheUp_rep {m : MapPollard H} {T : Nat} {A : Pos → Option (Leaf H)} {C : H → Option Pos}
    (rep : Rep m T A C) (add pNode : Leaf H) {P : Pos} (hP : Valid T P) :
    Rep (if add.remember && pNode.hash = add.hash then
          (if m.hasCached add.hash then m.putCached add.hash (encP T P) else m) else m) T A
        (cacheUp add pNode P C) ∧
      (if add.remember && pNode.hash = add.hash then
          (if m.hasCached add.hash then m.putCached add.hash (encP T P) else m) else m).numLeaves = m.numLeaves ∧
      (if add.remember && pNode.hash = add.hash then
          (if m.hasCached add.hash then m.putCached add.hash (encP T P) else m) else m).full = m.full := by
  unfold cacheUp
  rw [rep.hasCached]
  by_cases h : add.remember = true ∧ pNode.hash = add.hash
  · have hb : (add.remember && decide (pNode.hash = add.hash)) = true := by simp [h.1, h.2]
    rw [if_pos hb, if_pos h]
    by_cases hc : (C add.hash).isSome = true
    · rw [if_pos hc, if_pos hc]; exact ⟨rep.putCached _ hP, rfl, rfl⟩
    · rw [if_neg hc, if_neg hc]; exact ⟨rep, rfl, rfl⟩
  · have hb : ¬ (add.remember && decide (pNode.hash = add.hash)) = true := by
      simpa using h
    rw [if_neg hb, if_neg h]; exact ⟨rep, rfl, rfl⟩

set_option linter.unusedVariables false in
theorem addLoop_step_empty {m : MapPollard H} {T n k : Nat} {A : Pos → Option (Leaf H)} {C : H → Option Pos}
    (rep : Rep m T A C) (hn : m.numLeaves = BitVec.ofNat 64 n) (hn63 : n + 1 < 2 ^ 63)
    (hfit : forestRows (n + 1) ≤ T) {fl : Bool} (hfull : m.full = fl) (hbit : n.testBit k = true)
    {node : Leaf H} (hroot : A (rootPos n k) = some node) (hz : node.hash = zero)
    (add pNode : Leaf H) (fuel : Nat)
    (h3 : ∀ q, SUnder (rootPos n k) q → A q = none)
    (hc : ∀ c v, SUnder (k, n >>> k) c → A c = some v →
      ∀ t, cacheUp add pNode (k + 1, n >>> (k + 1)) C v.hash = some t → t = c)
    (hc2 : ∀ x t, cacheUp add pNode (k + 1, n >>> (k + 1)) C x = some t → SUnder (k, n >>> k) t →
      ∃ v, A t = some v ∧ v.hash = x) :
    ∃ m', MapPollard.addLoop add (H8 T) (fuel + 1) (H8 k) (encP T (k, n >>> k)) pNode m =
        MapPollard.addLoop add (H8 T) fuel (H8 (k + 1)) (encP T (k + 1, n >>> (k + 1))) pNode m' ∧
      Rep m' T (pruneA (upd (liftA (k, n >>> k) (upd (upd A (rootPos n k) none) (k, n >>> k) none))
          (k + 1, n >>> (k + 1)) (some pNode)) (rootPos n k))
        (liftC (k, n >>> k) (cacheUp add pNode (k + 1, n >>> (k + 1)) C)) ∧
      m'.numLeaves = m.numLeaves ∧ m'.full = m.full := by
  have hT := rep.T_le
  obtain ⟨hk, hnT, hodd, hs, hσ⟩ := geo hfit hbit
  have hρ := valid_root hfit hbit
  have hP : Valid T (k + 1, n >>> (k + 1)) := by
    rw [← parent_sigma]; exact valid_parent hσ hk
  have hpar : Parent (encP T (k, n >>> k)) (H8 T) = encP T (k + 1, n >>> (k + 1)) := by
    rw [MapPrune.parent_encP hT hσ hk, parent_sigma]
  have hρ1 : (rootPos n k).1 = k := rfl
  rw [addLoop_succ, hn, bit_test (by omega) (by omega), hbit, if_pos rfl, rootPosition_eq hT hfit hbit,
    rep.node _ hρ, hroot]
  simp only
  rw [if_pos hz, hpar, H8_succ]
  have rep1 := (rep.delNode hρ).delNode hσ
  obtain ⟨rep2, g1, g2⟩ := cacheUp_rep rep1 add pNode hP
  have below_ne : ∀ q : Pos, q.1 < k → q ≠ rootPos n k ∧ q ≠ (k, n >>> k) := by
    intro q hq
    constructor
    · intro e; rw [e] at hq; exact absurd hq (by simp [hρ1])
    · intro e; rw [e] at hq; exact absurd hq (by simp)
  have A'_below : ∀ q : Pos, q.1 < k → upd (upd A (rootPos n k) none) (k, n >>> k) none q = A q := by
    intro q hq
    obtain ⟨a, b⟩ := below_ne q hq
    rw [upd_ne _ _ b, upd_ne _ _ a]
  obtain ⟨m3, e3, rep3, f1, f2⟩ := MapMoveUp.moveUpDescendants_rep rep2 hσ hk (upd_self _ _ _)
    (by rw [sib_sigma hbit, upd_apply, if_neg (by intro e; have := congrArg Prod.snd e; simp [rootPos] at this; omega), upd_self])
    (by
      intro q hq
      rw [sib_sigma hbit] at hq
      rw [A'_below q hq.2]
      exact h3 q hq)
    (by
      intro c v hsc hA t ht
      rw [A'_below c hsc.2] at hA
      exact hc c v hsc hA t ht)
    (by
      intro x t ht hst
      rw [A'_below t hst.2]
      exact hc2 x t ht hst)
  rw [sib_sigma hbit] at e3
  rw [e3]
  simp only
  have rep4 := rep3.putNode hP pNode
  obtain ⟨rep5, j1, j2⟩ := pruneNieces_rep rep4 hP (by show 1 ≤ k + 1; omega)
  refine ⟨_, rfl, rep5, ?_, ?_⟩
  · exact j1.trans (f1.trans (g1.trans hn))
  · exact j2.trans (f2.trans g2)

/-! ### the start of `addSingle` -/

theorem addSingle_of_remap {m m0 : MapPollard H} {tr : U8} (a : Leaf H)
    (h : MapPollard.remap m = (m0, .ok tr)) (hfull : m0.full = false) :
    MapPollard.addSingle a m =
      MapPollard.addLoop a tr 65 0#8 m0.numLeaves a
        (if a.remember then (m0.putNode m0.numLeaves a).putCached a.hash m0.numLeaves
         else m0.putNode m0.numLeaves a) := by
  unfold MapPollard.addSingle
  rw [h]
  simp only [hfull, Bool.false_eq_true, if_false]

omit [DecidableEq H] [Hasher H] in
theorem numLeaves_enc {m0 : MapPollard H} {n : Nat} (T : Nat) (hn : m0.numLeaves = BitVec.ofNat 64 n) :
    m0.numLeaves = encP T (0, n) := by
  rw [hn]; show _ = BitVec.ofNat 64 (enc T (0, n)); rw [SpecView.enc_zero_row]

theorem start_core {m0 : MapPollard H} {T : Nat} {A : Pos → Option (Leaf H)} {C : H → Option Pos}
    (rep : Rep m0 T A C) {q : Pos} (hv : Valid T q) (a : Leaf H) :
    Rep (if a.remember then (m0.putNode (encP T q) a).putCached a.hash (encP T q)
         else m0.putNode (encP T q) a) T
        (upd A q (some a)) (if a.remember = true then upd C a.hash (some q) else C) ∧
      (if a.remember then (m0.putNode (encP T q) a).putCached a.hash (encP T q)
         else m0.putNode (encP T q) a).numLeaves = m0.numLeaves ∧
      (if a.remember then (m0.putNode (encP T q) a).putCached a.hash (encP T q)
         else m0.putNode (encP T q) a).full = m0.full := by
  have rep1 := rep.putNode hv a
  cases hr : a.remember
  · simp only [Bool.false_eq_true, if_false]
    exact ⟨rep1, rfl, rfl⟩
  · simp only [if_true]
    exact ⟨rep1.putCached a.hash hv, rfl, rfl⟩

theorem addSingle_start {m : MapPollard H} {T n : Nat} {A : Pos → Option (Leaf H)} {C : H → Option Pos}
    (rep : Rep m T A C) (hn : m.numLeaves = BitVec.ofNat 64 n) (hn63 : n + 1 < 2 ^ 63)
    (hfit : forestRows (n + 1) ≤ T) (hfull : m.full = false) (a : Leaf H) :
    ∃ m1, MapPollard.addSingle a m = MapPollard.addLoop a (H8 T) 65 0#8 (encP T (0, n)) a m1 ∧
      Rep m1 T (upd A (0, n) (some a)) (if a.remember = true then upd C a.hash (some (0, n)) else C) ∧
      m1.numLeaves = m.numLeaves ∧ m1.full = m.full := by
  have hv : Valid T (0, n) := by
    have h2 := SpecView.le_two_pow_forestRows (n + 1)
    have h3 : 2 ^ forestRows (n + 1) ≤ 2 ^ T := two_pow_le_of_le hfit
    exact ⟨Nat.zero_le _, by show n < 2 ^ (T - 0); rw [Nat.sub_zero]; omega⟩
  obtain ⟨rep1, f1, f2⟩ := start_core rep hv a
  rw [addSingle_of_remap a (MapRemap.remap_noop rep.rows rep.T_le hn hn63 hfit) hfull, numLeaves_enc T hn]
  exact ⟨_, rfl, rep1, f1.trans (numLeaves_enc T hn), f2⟩

theorem addSingle_start_grow {m : MapPollard H} {T n : Nat} {A : Pos → Option (Leaf H)} {C : H → Option Pos}
    (rep : Rep m T A C) (hn : m.numLeaves = BitVec.ofNat 64 n) (hn63 : n + 1 < 2 ^ 63)
    (hfitOld : forestRows n ≤ T) (hgrow : T < forestRows (n + 1)) (hfull : m.full = false) (a : Leaf H) :
    ∃ m1, MapPollard.addSingle a m = MapPollard.addLoop a (H8 (T + 1)) 65 0#8 (encP (T + 1) (0, n)) a m1 ∧
      Rep m1 (T + 1) (upd A (0, n) (some a)) (if a.remember = true then upd C a.hash (some (0, n)) else C) ∧
      m1.numLeaves = m.numLeaves ∧ m1.full = m.full := by
  obtain ⟨en, efr⟩ := MapRemap.n_eq_pow hfitOld hgrow
  obtain ⟨m0, e0, rep0, g1, g2⟩ := MapRemap.remap_grow' rep hn hn63 hfitOld hgrow
  have hv : Valid (T + 1) (0, n) := by
    refine ⟨Nat.zero_le _, ?_⟩
    show n < 2 ^ (T + 1 - 0)
    rw [Nat.sub_zero, Nat.pow_succ, en]
    have := Nat.two_pow_pos T
    omega
  obtain ⟨rep1, f1, f2⟩ := start_core rep0 hv a
  rw [addSingle_of_remap a e0 (g2.trans hfull), numLeaves_enc (T + 1) (g1.trans hn)]
  exact ⟨_, rfl, rep1, f1.trans g1, f2.trans g2⟩

/-! ### non-vacuity -/

section Example
local instance exHasher : Hasher Nat := ⟨fun a b => a + b + 1, 0⟩

/-- 3 leaves in a 2-row allocation; the tree of row 1 was deleted (empty root `(1,0)`, nothing below),
leaf `(0,2)` (hash 30) is cached.  State in the middle of adding leaf `40`: it was written to `(0,3)`. -/
def mE : MapPollard Nat :=
  { nodes := [(encP 2 (1, 0), ⟨0, false⟩), (encP 2 (0, 2), ⟨30, true⟩), (encP 2 (0, 3), ⟨40, false⟩)],
    cached := [(30, encP 2 (0, 2))], numLeaves := 3#64, totalRows := H8 2, full := false }

theorem mE_rep : Rep mE 2 (absA mE 2) (absC mE 2) := by
  refine rep_abs (by decide) rfl ?_ ?_
  · intro p l h
    have hm := get?_some_mem (l := mE.nodes) h
    simp only [mE, List.mem_cons, Prod.mk.injEq, List.not_mem_nil, or_false] at hm
    rcases hm with ⟨rfl, _⟩ | ⟨rfl, _⟩ | ⟨rfl, _⟩
    · exact ⟨(1, 0), by decide, rfl⟩
    · exact ⟨(0, 2), by decide, rfl⟩
    · exact ⟨(0, 3), by decide, rfl⟩
  · intro x p h
    have hm := get?_some_mem (l := mE.cached) h
    simp only [mE, List.mem_cons, Prod.mk.injEq, List.not_mem_nil, or_false] at hm
    obtain ⟨_, rfl⟩ := hm
    exact ⟨(0, 2), by decide, rfl⟩

example : MapPollard.addLoop (⟨40, false⟩ : Leaf Nat) (H8 2) 65 (H8 2) (encP 2 (2, 0)) ⟨71, false⟩ mE = (mE, .ok ()) :=
  addLoop_done (n := 3) rfl (by decide) (by decide) (by decide) _ _ _ _ _

/-- `addLoop_step_nonempty` at `n = 3`, `k = 0`: the root `(0,2)` holds hash 30 -/
example : ∃ m', MapPollard.addLoop (⟨40, false⟩ : Leaf Nat) (H8 2) (64 + 1) (H8 0) (encP 2 (0, 3 >>> 0)) ⟨40, false⟩ mE =
      MapPollard.addLoop ⟨40, false⟩ (H8 2) 64 (H8 (0 + 1)) (encP 2 (0 + 1, 3 >>> (0 + 1)))
        ⟨ph (30 : Nat) 40, false⟩ m' ∧
    Rep m' 2 (pruneA (upd (absA mE 2) (0 + 1, 3 >>> (0 + 1)) (some ⟨ph (30 : Nat) 40, false⟩)) (rootPos 3 0)) (absC mE 2) ∧
    m'.numLeaves = mE.numLeaves ∧ m'.full = mE.full :=
  addLoop_step_nonempty (n := 3) (k := 0) (node := ⟨30, true⟩) mE_rep rfl (by decide)
    (SpecView.forestRows_le (by decide)) rfl (by decide) (by decide) (by decide) _ _ _

/-- the state after that step: `(1,1)` holds `ph 30 40 = 71` -/
def mE2 : MapPollard Nat :=
  { nodes := [(encP 2 (1, 1), ⟨71, false⟩), (encP 2 (1, 0), ⟨0, false⟩), (encP 2 (0, 2), ⟨30, true⟩),
              (encP 2 (0, 3), ⟨40, false⟩)],
    cached := [(30, encP 2 (0, 2))], numLeaves := 3#64, totalRows := H8 2, full := false }

theorem mE2_rep : Rep mE2 2 (absA mE2 2) (absC mE2 2) := by
  refine rep_abs (by decide) rfl ?_ ?_
  · intro p l h
    have hm := get?_some_mem (l := mE2.nodes) h
    simp only [mE2, List.mem_cons, Prod.mk.injEq, List.not_mem_nil, or_false] at hm
    rcases hm with ⟨rfl, _⟩ | ⟨rfl, _⟩ | ⟨rfl, _⟩ | ⟨rfl, _⟩
    · exact ⟨(1, 1), by decide, rfl⟩
    · exact ⟨(1, 0), by decide, rfl⟩
    · exact ⟨(0, 2), by decide, rfl⟩
    · exact ⟨(0, 3), by decide, rfl⟩
  · intro x p h
    have hm := get?_some_mem (l := mE2.cached) h
    simp only [mE2, List.mem_cons, Prod.mk.injEq, List.not_mem_nil, or_false] at hm
    obtain ⟨_, rfl⟩ := hm
    exact ⟨(0, 2), by decide, rfl⟩

theorem under_11 {c : Pos} (h : SUnder (1, 3 >>> 1) c) : c = (0, 2) ∨ c = (0, 3) := by
  obtain ⟨r, o⟩ := c
  obtain ⟨⟨h1, h2⟩, h3⟩ := h
  simp only at h1 h2 h3
  have hr : r = 0 := by omega
  subst hr
  have : (3 >>> 1 : Nat) = 1 := by decide
  rw [this] at h2
  simp at h2
  have : o = 2 ∨ o = 3 := by omega
  rcases this with rfl | rfl <;> simp

theorem exC_eq (x : Nat) : absC mE2 2 x = if x = 30 then some (0, 2) else none := by
  unfold absC MapPollard.getCached mE2
  simp only [AL.get?]
  by_cases e : x = 30
  · subst e; decide
  · have : ¬ (30 = x) := fun h => e h.symm
    rw [if_neg this, if_neg e]; rfl

/-- `addLoop_step_empty` at `n = 3`, `k = 1`: the root `(1,0)` is empty, the subtree under `(1,1)`
(leaves `(0,2)` cached and `(0,3)`) moves up to `(1,0)`, `(1,1)` -/
example : ∃ m', MapPollard.addLoop (⟨40, false⟩ : Leaf Nat) (H8 2) (63 + 1) (H8 1) (encP 2 (1, 3 >>> 1)) ⟨71, false⟩ mE2 =
      MapPollard.addLoop ⟨40, false⟩ (H8 2) 63 (H8 (1 + 1)) (encP 2 (1 + 1, 3 >>> (1 + 1))) ⟨71, false⟩ m' ∧
    Rep m' 2 (pruneA (upd (liftA (1, 3 >>> 1) (upd (upd (absA mE2 2) (rootPos 3 1) none) (1, 3 >>> 1) none))
        (1 + 1, 3 >>> (1 + 1)) (some ⟨71, false⟩)) (rootPos 3 1))
      (liftC (1, 3 >>> 1) (cacheUp ⟨40, false⟩ ⟨71, false⟩ (1 + 1, 3 >>> (1 + 1)) (absC mE2 2))) ∧
    m'.numLeaves = mE2.numLeaves ∧ m'.full = mE2.full := by
  have hcu : cacheUp (⟨40, false⟩ : Leaf Nat) ⟨71, false⟩ (1 + 1, 3 >>> (1 + 1)) (absC mE2 2) = absC mE2 2 := by
    simp [cacheUp]
  refine addLoop_step_empty (n := 3) (k := 1) (node := ⟨0, false⟩) mE2_rep rfl (by decide)
    (SpecView.forestRows_le (by decide)) rfl (by decide) (by decide) rfl _ _ _ ?_ ?_ ?_
  · intro q hq
    obtain ⟨r, o⟩ := q
    obtain ⟨⟨h1, h2⟩, h3⟩ := hq
    simp only [rootPos] at h1 h2 h3
    have hr : r = 0 := by omega
    subst hr
    simp at h2
    have : o = 0 ∨ o = 1 := by omega
    rcases this with rfl | rfl <;> decide
  · intro c v hsc hA t ht
    rw [hcu, exC_eq] at ht
    rcases under_11 hsc with rfl | rfl
    · have : absA mE2 2 (0, 2) = some ⟨30, true⟩ := by decide
      rw [this] at hA
      simp only [Option.some.injEq] at hA
      subst hA
      simpa using ht.symm
    · have : absA mE2 2 (0, 3) = some ⟨40, false⟩ := by decide
      rw [this] at hA
      simp only [Option.some.injEq] at hA
      subst hA
      simp at ht
  · intro x t ht hst
    rw [hcu, exC_eq] at ht
    split at ht
    · rename_i e
      simp only [Option.some.injEq] at ht
      subst ht e
      exact ⟨⟨30, true⟩, by decide, rfl⟩
    · cases ht

/-- the instance is not trivial: the cached leaf `(0,2)` really moves to `(1,0)`, the new leaf to `(1,1)` -/
example : liftA (1, 3 >>> 1) (upd (upd (absA mE2 2) (rootPos 3 1) none) (1, 3 >>> 1) none) (1, 0) = some ⟨30, true⟩ ∧
    liftA (1, 3 >>> 1) (upd (upd (absA mE2 2) (rootPos 3 1) none) (1, 3 >>> 1) none) (1, 1) = some ⟨40, false⟩ ∧
    liftA (1, 3 >>> 1) (upd (upd (absA mE2 2) (rootPos 3 1) none) (1, 3 >>> 1) none) (0, 2) = none := by
  refine ⟨by decide, by decide, by decide⟩

/-- the state before the addition of leaf 40 -/
def mE0 : MapPollard Nat :=
  { nodes := [(encP 2 (1, 0), ⟨0, false⟩), (encP 2 (0, 2), ⟨30, true⟩)],
    cached := [(30, encP 2 (0, 2))], numLeaves := 3#64, totalRows := H8 2, full := false }

theorem mE0_rep : Rep mE0 2 (absA mE0 2) (absC mE0 2) := by
  refine rep_abs (by decide) rfl ?_ ?_
  · intro p l h
    have hm := get?_some_mem (l := mE0.nodes) h
    simp only [mE0, List.mem_cons, Prod.mk.injEq, List.not_mem_nil, or_false] at hm
    rcases hm with ⟨rfl, _⟩ | ⟨rfl, _⟩
    · exact ⟨(1, 0), by decide, rfl⟩
    · exact ⟨(0, 2), by decide, rfl⟩
  · intro x p h
    have hm := get?_some_mem (l := mE0.cached) h
    simp only [mE0, List.mem_cons, Prod.mk.injEq, List.not_mem_nil, or_false] at hm
    obtain ⟨_, rfl⟩ := hm
    exact ⟨(0, 2), by decide, rfl⟩

/-- `addSingle_start` at `n = 3`, `T = 2` (no growth) -/
example : ∃ m1, MapPollard.addSingle (⟨40, false⟩ : Leaf Nat) mE0 =
      MapPollard.addLoop ⟨40, false⟩ (H8 2) 65 0#8 (encP 2 (0, 3)) ⟨40, false⟩ m1 ∧
    Rep m1 2 (upd (absA mE0 2) (0, 3) (some ⟨40, false⟩))
      (if (⟨40, false⟩ : Leaf Nat).remember = true then upd (absC mE0 2) (⟨40, false⟩ : Leaf Nat).hash (some (0, 3))
       else absC mE0 2) ∧
    m1.numLeaves = mE0.numLeaves ∧ m1.full = mE0.full :=
  addSingle_start (n := 3) mE0_rep rfl (by decide) (SpecView.forestRows_le (by decide)) rfl _

/-- the whole `addSingle` on that state, evaluated: start, a non-empty step (row 0), an empty-root step
(row 1, the subtree moves up: `(0,2) ↦ (1,0)` = key 4, `(0,3) ↦ (1,1)` = key 5, new root `(2,0)` = key 6) -/
example : (MapPollard.addSingle (⟨40, false⟩ : Leaf Nat) mE0).1.nodes =
      [(6#64, ⟨71, false⟩), (5#64, ⟨40, false⟩), (4#64, ⟨30, true⟩)] ∧
    (MapPollard.addSingle (⟨40, false⟩ : Leaf Nat) mE0).1.cached = [(30, 4#64)] ∧
    (match (MapPollard.addSingle (⟨40, false⟩ : Leaf Nat) mE0).2 with | .ok _ => true | .error _ => false) = true := by
  decide +kernel

theorem forestRows_5 : 2 < forestRows 5 := by
  have : ¬ forestRows 5 ≤ 2 := by
    intro h
    have a := SpecView.le_two_pow_forestRows 5
    have b : 2 ^ forestRows 5 ≤ 2 ^ 2 := two_pow_le_of_le h
    omega
  omega

/-- `addSingle_start_grow` at `n = 4`, `T = 2` (the full 4-leaf forest of `MapRemap.mEx` grows to 3 rows) -/
example : ∃ m1, MapPollard.addSingle (⟨40, true⟩ : Leaf Nat) MapRemap.mEx =
      MapPollard.addLoop ⟨40, true⟩ (H8 (2 + 1)) 65 0#8 (encP (2 + 1) (0, 4)) ⟨40, true⟩ m1 ∧
    Rep m1 (2 + 1) (upd (absA MapRemap.mEx 2) (0, 4) (some ⟨40, true⟩))
      (if (⟨40, true⟩ : Leaf Nat).remember = true then upd (absC MapRemap.mEx 2) (⟨40, true⟩ : Leaf Nat).hash (some (0, 4))
       else absC MapRemap.mEx 2) ∧
    m1.numLeaves = MapRemap.mEx.numLeaves ∧ m1.full = MapRemap.mEx.full :=
  addSingle_start_grow (n := 4) MapRemap.mEx_rep rfl (by decide) (SpecView.forestRows_le (by decide))
    forestRows_5 rfl _

end Example

end UtreexoVerif.Proofs.MapAddRep

section Axioms
open UtreexoVerif.Proofs.MapAddRep
#print axioms addLoop_done
#print axioms addLoop_step_nonempty
#print axioms addLoop_step_empty
#print axioms addSingle_start
#print axioms addSingle_start_grow
end Axioms
