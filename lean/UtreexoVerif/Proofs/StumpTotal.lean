/-
  Totality of `Stump.add` on a well-formed stump (one root per set bit of the leaf count)
  that does not grow beyond 2^63 leaves: `popLast` never panics because the merge loops pop
  exactly one root per trailing one bit of the leaf count, and the fuel 65 of the bit loops
  suffices.  Helper lemmas for `update_total` (Props/C04).
-/
import UtreexoVerif.Props.C04_statement
import UtreexoVerif.Proofs.CalcTotal
import UtreexoVerif.Proofs.Bits

namespace UtreexoVerif.Proofs.StumpTotal
open UtreexoVerif Model Hasher GoInt
open UtreexoVerif.Proofs.CalcTotal
open UtreexoVerif.Props.C04 (Total RowFacts WellFormed)

/-! ### counting the set bits from bit `h` upwards -/

/-- number of set bits of `n` at positions `h ≤ i < 64` -/
def cnt (n : U64) (h : Nat) : Nat := (List.range (64 - h)).countP (fun i => n.getLsbD (h + i))

theorem cnt_zero (n : U64) : (cnt n 0 : Int) = onesCount64 n := by
  unfold cnt onesCount64
  simp

theorem cnt_step (n : U64) {h : Nat} (hh : h < 64) :
    cnt n h = (if n.getLsbD h then 1 else 0) + cnt n (h + 1) := by
  unfold cnt
  have e : 64 - h = (64 - (h + 1)) + 1 := by omega
  rw [e, List.range_succ_eq_map, List.countP_cons, List.countP_map]
  have f : ((fun i => n.getLsbD (h + i)) ∘ Nat.succ) = fun i => n.getLsbD (h + 1 + i) := by
    funext i
    show n.getLsbD (h + (i + 1)) = _
    rw [show h + (i + 1) = h + 1 + i by omega]
  rw [f]
  simp only [Nat.add_zero]
  omega

theorem cnt_congr {x y : U64} {h : Nat} (hxy : ∀ i, h ≤ i → x.getLsbD i = y.getLsbD i) :
    cnt x h = cnt y h := by
  unfold cnt
  apply List.countP_congr
  intro i _
  rw [hxy (h + i) (by omega)]

/-- clear low bits do not count -/
theorem cnt_skip (x : U64) : ∀ m, m ≤ 64 → (∀ i, i < m → x.getLsbD i = false) → cnt x 0 = cnt x m := by
  intro m
  induction m with
  | zero => intro _ _; rfl
  | succ m ih =>
    intro hm hz
    rw [ih (by omega) (fun i hi => hz i (by omega)), cnt_step x (by omega), hz m (by omega)]
    simp

/-! ### the carry of `n + 1` -/

/-- bits `0..h-1` of `n` are set -/
def Trail (n : U64) (h : Nat) : Prop := ∀ i, i < h → n.getLsbD i = true

theorem trail_mod {n : U64} {h : Nat} (ht : Trail n h) (hb : n.getLsbD h = false) :
    n.toNat % 2 ^ (h + 1) = 2 ^ h - 1 := by
  apply Nat.eq_of_testBit_eq
  intro i
  rw [Nat.testBit_mod_two_pow, Nat.testBit_two_pow_sub_one, BitVec.testBit_toNat]
  by_cases hi : i < h
  · simp [ht i hi, hi]; omega
  · by_cases hih : i = h
    · subst hih; simp [hb]
    · simp [hi]; omega

/-- the bits of `n + 1` when `n` ends in `0 1^h` -/
theorem succ_getLsbD {n : U64} {h : Nat} (ht : Trail n h) (hb : n.getLsbD h = false)
    (hn : n.toNat < 2 ^ 64 - 1) (j : Nat) :
    (n + 1#64).getLsbD j = if j < h then false else if j = h then true else n.getLsbD j := by
  have hmod := trail_mod ht hb
  have hpos : 0 < 2 ^ h := Nat.two_pow_pos h
  have hpow : 2 ^ (h + 1) = 2 * 2 ^ h := Proofs.two_pow_succ' h
  have hdiv := Nat.div_add_mod n.toNat (2 ^ (h + 1))
  have e1 : (n + 1#64).toNat = 2 ^ (h + 1) * (n.toNat / 2 ^ (h + 1)) + 2 ^ h := by
    rw [BitVec.toNat_add]
    simp
    rw [Nat.mod_eq_of_lt (by omega)]
    omega
  have e0 : n.toNat = 2 ^ (h + 1) * (n.toNat / 2 ^ (h + 1)) + (2 ^ h - 1) := by omega
  rw [← BitVec.testBit_toNat, e1, Nat.testBit_two_pow_mul_add _ (by omega)]
  by_cases hj : j < h + 1
  · rw [if_pos hj, Nat.testBit_two_pow]
    by_cases hjh : j = h
    · subst hjh; simp
    · have : j < h := by omega
      simp [this]; omega
  · rw [if_neg hj, if_neg (by omega), if_neg (by omega), ← BitVec.testBit_toNat]
    conv => rhs; rw [e0]
    rw [Nat.testBit_two_pow_mul_add _ (by omega), if_neg hj]

/-- popcount of `n + 1`: the set bits above the carry position, plus one -/
theorem cnt_succ {n : U64} {h : Nat} (ht : Trail n h) (hb : n.getLsbD h = false)
    (hn : n.toNat < 2 ^ 64 - 1) (hh : h < 64) : cnt (n + 1#64) 0 = cnt n (h + 1) + 1 := by
  have hbits := succ_getLsbD ht hb hn
  rw [cnt_skip (n + 1#64) h (by omega) (fun i hi => by rw [hbits i, if_pos hi]),
    cnt_step _ hh, hbits h, if_neg (Nat.lt_irrefl h), if_pos rfl]
  have : cnt (n + 1#64) (h + 1) = cnt n (h + 1) := by
    apply cnt_congr
    intro i hi
    rw [hbits i, if_neg (by omega), if_neg (by omega)]
  rw [this]
  simp
  omega

/-- trailing ones force the value up -/
theorem trail_le {n : U64} {h : Nat} (ht : Trail n h) : 2 ^ h - 1 ≤ n.toNat := by
  have e : n.toNat % 2 ^ h = 2 ^ h - 1 := by
    apply Nat.eq_of_testBit_eq
    intro i
    rw [Nat.testBit_mod_two_pow, Nat.testBit_two_pow_sub_one, BitVec.testBit_toNat]
    by_cases hi : i < h
    · simp [ht i hi, hi]
    · simp [hi]
  have := Nat.mod_le n.toNat (2 ^ h)
  omega

/-- the bit test of the merge loops -/
theorem bitTest_eq (n : U64) (k : Nat) : ((n >>> k) &&& 1#64 == 1#64) = n.getLsbD k := by
  have e : (n >>> k) &&& 1#64 = if n.getLsbD k then 1#64 else 0#64 := by
    apply BitVec.eq_of_getLsbD_eq
    intro i hi
    simp only [BitVec.getLsbD_and, BitVec.getLsbD_ushiftRight, BitVec.getLsbD_one]
    by_cases h0 : i = 0
    · subst h0
      cases n.getLsbD k <;> simp
    · cases n.getLsbD k <;> simp [h0]
  rw [e]
  cases n.getLsbD k <;> decide

theorem popLast_total {α} (l : List α) (h : l ≠ []) :
    ∃ x, popLast l = .ok (x, l.dropLast) := by
  unfold popLast
  cases hl : l.getLast? with
  | none => exact absurd (List.getLast?_eq_none_iff.mp hl) h
  | some x => exact ⟨x, rfl⟩

theorem u8_succ_toNat {h : U8} (hh : h.toNat < 255) : (h + 1).toNat = h.toNat + 1 := by
  rw [BitVec.toNat_add]; simp; omega

section
variable {H : Type} [DecidableEq H] [Hasher H]

/-! ### `rootsToDestory` -/

/-- result of a merge loop: one root per set bit strictly above the carry position -/
def Carry (n : U64) (len : Nat) : Prop := len + 1 = cnt (n + 1#64) 0

theorem rtdInner_spec (n : U64) (ra : U8) (hn : n.toNat < 2 ^ 63) :
    ∀ (fuel : Nat) (h : U8) (roots : List H) (del : List U64),
      64 - h.toNat < fuel → Trail n h.toNat → roots.length = cnt n h.toNat →
      Total (rtdInner n ra fuel h roots del) ∧
      ∀ r, rtdInner n ra fuel h roots del = .ok r → Carry n r.1.length := by
  intro fuel
  induction fuel with
  | zero => intro h roots del hf; omega
  | succ fuel ih =>
    intro h roots del hf ht hlen
    have hh' : h.toNat < 64 := by
      rcases Nat.lt_or_ge h.toNat 64 with h1 | h1
      · exact h1
      · have h2 := trail_le (n := n) (h := 64) (fun i hi => ht i (by omega))
        omega
    unfold rtdInner
    rw [bitTest_eq]
    split
    · rename_i hb
      have hne : roots ≠ [] := by
        intro hc
        have hst := cnt_step n hh'
        rw [hb, if_pos rfl] at hst
        rw [hc, List.length_nil] at hlen
        omega
      obtain ⟨x, hx⟩ := popLast_total roots hne
      simp only [bind]
      rw [hx]
      show Total (rtdInner n ra fuel (h + 1) roots.dropLast _) ∧ ∀ r,
        rtdInner n ra fuel (h + 1) roots.dropLast _ = .ok r → _
      have hs := u8_succ_toNat (h := h) (by omega)
      apply ih
      · omega
      · rw [hs]
        intro i hi
        by_cases hih : i = h.toNat
        · subst hih; exact hb
        · exact ht i (by omega)
      · rw [hs, List.length_dropLast, hlen, cnt_step n hh', hb]
        simp
    · rename_i hb
      have hb' : n.getLsbD h.toNat = false := by simpa using hb
      refine ⟨total_ok _, fun r hr => ?_⟩
      injection hr with hr
      subst hr
      show roots.length + 1 = _
      rw [cnt_succ ht hb' (by omega) hh', hlen, cnt_step n hh', hb']
      simp

theorem succ_toNat {n : U64} (hn : n.toNat < 2 ^ 63) : (n + 1#64).toNat = n.toNat + 1 := by
  rw [BitVec.toNat_add]; simp; omega

theorem rtdOuter_total (nz : H) (numAdds : U64) :
    ∀ (k : Nat) (i n : U64) (roots : List H) (del : List U64),
      n.toNat + k ≤ 2 ^ 63 → roots.length = cnt n 0 →
      Total (rtdOuter nz numAdds k i n roots del) := by
  intro k
  induction k with
  | zero => intro i n roots del _ _; exact total_ok _
  | succ k ih =>
    intro i n roots del hn hlen
    unfold rtdOuter
    simp only [bind]
    obtain ⟨ht, hc⟩ := rtdInner_spec n (TreeRows (n + (numAdds - i))) (by omega) 65 0#8 roots del
      (by simp) (fun i hi => by simp at hi) (by simpa using hlen)
    apply total_bind ht
    intro r hr
    obtain ⟨r1, d1⟩ := r
    show Total (rtdOuter nz numAdds k (i + 1) (n + 1) (r1 ++ [nz]) d1)
    apply ih
    · show (n + 1#64).toNat + k ≤ _
      rw [succ_toNat (by omega)]; omega
    · show _ = cnt (n + 1#64) 0
      rw [List.length_append, List.length_singleton]
      exact hc _ hr

theorem rootsToDestroy_total (nz : H) (k : Nat) (n : U64) (roots : List H)
    (hn : n.toNat + k ≤ 2 ^ 63) (hlen : roots.length = cnt n 0) :
    Total (rootsToDestroy nz k n roots) := by
  unfold rootsToDestroy
  split
  · exact rtdOuter_total nz _ k _ n roots [] hn hlen
  · exact total_ok _

/-! ### `Stump.add` -/

theorem addInner_spec (ar : U8) (n : U64) (hn : n.toNat < 2 ^ 63) :
    ∀ (fuel : Nat) (h : U8) (roots : List H) (nr : H) (pos : U64) (upd : List (H × U64)),
      64 - h.toNat < fuel → Trail n h.toNat → roots.length = cnt n h.toNat →
      Total (addInner ar n fuel h roots nr pos upd) ∧
      ∀ r, addInner ar n fuel h roots nr pos upd = .ok r → Carry n r.1.length := by
  intro fuel
  induction fuel with
  | zero => intro h roots nr pos upd hf; omega
  | succ fuel ih =>
    intro h roots nr pos upd hf ht hlen
    have hh' : h.toNat < 64 := by
      rcases Nat.lt_or_ge h.toNat 64 with h1 | h1
      · exact h1
      · have h2 := trail_le (n := n) (h := 64) (fun i hi => ht i (by omega))
        omega
    unfold addInner
    rw [bitTest_eq]
    split
    · rename_i hb
      have hne : roots ≠ [] := by
        intro hc
        have hst := cnt_step n hh'
        rw [hb, if_pos rfl] at hst
        rw [hc, List.length_nil] at hlen
        omega
      obtain ⟨x, hx⟩ := popLast_total roots hne
      simp only [bind]
      rw [hx]
      have hs := u8_succ_toNat (h := h) (by omega)
      have hf' : 64 - (h + 1).toNat < fuel := by omega
      have ht' : Trail n (h + 1).toNat := by
        rw [hs]
        intro i hi
        by_cases hih : i = h.toNat
        · subst hih; exact hb
        · exact ht i (by omega)
      have hlen' : roots.dropLast.length = cnt n (h + 1).toNat := by
        rw [hs, List.length_dropLast, hlen, cnt_step n hh', hb]
        simp
      simp only [Out.bind]
      by_cases hx0 : x = zero
      · rw [if_neg (fun hc : x ≠ zero => hc hx0)]
        exact ih _ _ _ _ _ hf' ht' hlen'
      · rw [if_pos hx0]
        exact ih _ _ _ _ _ hf' ht' hlen'
    · rename_i hb
      have hb' : n.getLsbD h.toNat = false := by simpa using hb
      refine ⟨total_ok _, fun r hr => ?_⟩
      injection hr with hr
      subst hr
      show roots.length + 1 = _
      rw [cnt_succ ht hb' (by omega) hh', hlen, cnt_step n hh', hb']
      simp

theorem addLoop_total (nz : H) (ar : U8) :
    ∀ (adds : List H) (rem : Nat) (s : Stump H) (upd : List (H × U64)),
      rem ≤ adds.length → s.numLeaves.toNat + adds.length ≤ 2 ^ 63 →
      s.roots.length = cnt s.numLeaves 0 →
      Total (Stump.add.loop nz ar adds rem s upd) := by
  intro adds
  induction adds with
  | nil => intro rem s upd _ _ _; exact total_ok _
  | cons a adds ih =>
    intro rem s upd hrem hn hlen
    rw [List.length_cons] at hrem hn
    unfold Stump.add.loop
    simp only [bind]
    apply total_bind (rootsToDestroy_total nz rem _ _ (by omega) hlen)
    intro deleted _
    obtain ⟨ht, hc⟩ := addInner_spec ar s.numLeaves (by omega) 65 0#8 s.roots a
      (deleted.foldl (fun pos del =>
        if isAncestor (Parent del ar) pos ar then (calcNextPosition pos del ar).1 else pos)
        s.numLeaves)
      (mapPut upd a (deleted.foldl (fun pos del =>
        if isAncestor (Parent del ar) pos ar then (calcNextPosition pos del ar).1 else pos)
        s.numLeaves))
      (by simp) (fun i hi => by simp at hi) (by simpa using hlen)
    apply total_bind ht
    intro r hr
    obtain ⟨r1, nr, u⟩ := r
    show Total (Stump.add.loop nz ar adds (rem - 1)
      { roots := r1 ++ [nr], numLeaves := s.numLeaves + 1 } u)
    apply ih
    · omega
    · show (s.numLeaves + 1#64).toNat + _ ≤ _
      rw [succ_toNat (by omega)]; omega
    · show (r1 ++ [nr]).length = cnt (s.numLeaves + 1#64) 0
      rw [List.length_append, List.length_singleton]
      exact hc _ hr

theorem add_total (nz : H) (s : Stump H) (adds : List H)
    (hn : s.numLeaves.toNat + adds.length ≤ 2 ^ 63) (hlen : s.roots.length = cnt s.numLeaves 0) :
    Total (s.add nz adds) := by
  unfold Stump.add
  simp only [bind, pure]
  apply total_bind (rootsToDestroy_total nz _ _ _ hn hlen)
  intro _ _
  apply total_bind (addLoop_total nz _ adds adds.length s [] (Nat.le_refl _) hn hlen)
  intro r _
  exact total_ok _

end
end UtreexoVerif.Proofs.StumpTotal
