/-
  Movement of the OLD nodes under additions (`updateProofAdd`, properties C07/C11).

  `S'` = slot list before the additions (`n` slots), `S = S' ++ adds.map some` (`N` slots).
  The additions merge over some all-zero roots of the old forest; `Stump.add` reports their rows
  `L` (`DestroySpec`, the chunk form of the `ToDestroy` part of `stump_add_updateData`).  Go's
  `updateProofAdd` moves every old position through `getNewPositions` for the destroyed roots,
  which on (row, offset) pairs is `moveA N T (destroyedPos n L)`.

  * `nodePos_add`: a live chunk of the old forest is found in the new forest at the moved position;
  * `chunk_add_old`: with the same subtree;
  * `destroyed_dtOK`: the destroyed roots are legitimate arguments for `gnpMove_enc`.

  Auxiliary lemmas of general use: `fpos_split` (split the top-down walk at an intermediate
  level), `fpos_liftFold` (the same walk from a lifted starting point), `fpos_under`,
  `deadLevels_add` (the dead levels above an old root in the new forest are the destroyed rows
  between the old and the new tree row), `moveA_destroyed`.
-/
import UtreexoVerif.Proofs.NewAddSpec
import UtreexoVerif.Proofs.Movement
import UtreexoVerif.Proofs.MoveFold
import UtreexoVerif.Proofs.ProofUpdateGnp
import UtreexoVerif.Proofs.StumpAddPos
set_option linter.unusedSectionVars false
set_option linter.unusedVariables false

namespace UtreexoVerif.Proofs.AddMove
open UtreexoVerif Spec Hasher
open UtreexoVerif.Proofs.FinalPos UtreexoVerif.Proofs.Movement UtreexoVerif.Proofs.MoveFold
open UtreexoVerif.Proofs.SpecNodes UtreexoVerif.Proofs.ProofUpdateGnp
open UtreexoVerif.Proofs.StumpAddPos

variable {H : Type} [DecidableEq H] [Hasher H]

/-- chunk form of the `ToDestroy` part of `stump_add_updateData_statement`: `L` lists (ascending)
the rows of the all-zero roots of the old forest that the `k` additions merge over -/
structure DestroySpec (S' : List (Option H)) (k : Nat) (L : List Nat) : Prop where
  asc : AscFrom 0 L
  mem : ∀ h, h ∈ L ↔ (S'.length.testBit h = true ∧
      chunkAlive S' h (2 * (S'.length / 2 ^ (h + 1))) = false ∧
      (S'.length / 2 ^ (h + 1) + 1) * 2 ^ (h + 1) ≤ S'.length + k)

/-- the positions of the destroyed roots -/
def destroyedPos (n : Nat) (L : List Nat) : List Pos := L.map (fun h => (h, 2 * (n / 2 ^ (h + 1))))

/-! ### generic facts about `fpos` / `liftFold` -/

theorem div_two_div_pow (b k : Nat) : b / 2 / 2 ^ k = b / 2 ^ (k + 1) := by
  rw [Nat.div_div_eq_div_mul, ← Nat.pow_succ']

/-- **split the walk**: walking `k1 + k2` levels down = walking `k1` levels down to the ancestor
on level `l + k2`, then `k2` levels from there -/
theorem fpos_split (al : Nat → Nat → Bool) (top : Pos) (k1 : Nat) : ∀ k2 l b,
    fpos al top (k1 + k2) l b = fpos al (fpos al top k1 (l + k2) (b / 2 ^ k2)) k2 l b := by
  intro k2
  induction k2 with
  | zero => intro l b; simp [fpos]
  | succ k2 ih =>
    intro l b
    have h1 : fpos al top (k1 + (k2 + 1)) l b =
        (let p := fpos al top (k1 + k2) (l + 1) (b / 2)
         if al l (sibIdx b) then (p.1 - 1, 2 * p.2 + b % 2) else p) := rfl
    have h2 : fpos al (fpos al top k1 (l + (k2 + 1)) (b / 2 ^ (k2 + 1))) (k2 + 1) l b =
        (let p := fpos al (fpos al top k1 (l + (k2 + 1)) (b / 2 ^ (k2 + 1))) k2 (l + 1) (b / 2)
         if al l (sibIdx b) then (p.1 - 1, 2 * p.2 + b % 2) else p) := rfl
    rw [h1, h2, ih (l + 1) (b / 2), div_two_div_pow, show l + 1 + k2 = l + (k2 + 1) by omega]

/-- lifting commutes with one step down (all lifted levels are at or above the upper row) -/
theorem liftFold_down {r o β : Nat} {hs : List Nat} (hr : 1 ≤ r) (hβ : β < 2) (hasc : AscFrom r hs) :
    liftFold 0 (r - 1, 2 * o + β) hs =
      ((liftFold 0 (r, o) hs).1 - 1, 2 * (liftFold 0 (r, o) hs).2 + β) := by
  obtain ⟨r', rfl⟩ : ∃ r', r = r' + 1 := ⟨r - 1, by omega⟩
  have h1 := liftFold_low 0 β hβ hs r' o (hasc.mono (by omega))
  have h2 := liftFold_shift 0 hs r' o
  rw [Nat.add_sub_cancel, h1, h2]
  simp only [Nat.add_sub_cancel]

/-- **a walk from a lifted starting point**: if all lifted levels are at or above the row of
`top`, the walk from `liftFold 0 top dl` ends at the lifted end point -/
theorem fpos_liftFold (al : Nat → Nat → Bool) (top : Pos) (dl : List Nat)
    (hasc : AscFrom top.1 dl) : ∀ k l b, top.1 = l + k →
    fpos al (liftFold 0 top dl) k l b = liftFold 0 (fpos al top k l b) dl := by
  intro k
  induction k with
  | zero => intro l b _; rfl
  | succ k ih =>
    intro l b ht
    have hrow := fpos_row al top k (l + 1) (b / 2) (by omega)
    simp only [fpos]
    rw [ih (l + 1) (b / 2) (by omega)]
    split
    · exact (liftFold_down (by omega) (Nat.mod_lt _ (by decide)) (hasc.mono (by omega))).symm
    · rfl

/-- the walk stays below its starting point -/
theorem fpos_under (al : Nat → Nat → Bool) (top : Pos) : ∀ k l b, top.1 = l + k →
    Under top.1 top.2 (fpos al top k l b) := by
  intro k
  induction k with
  | zero => intro l b _; simp [fpos, Under]
  | succ k ih =>
    intro l b ht
    have hrow := fpos_row al top k (l + 1) (b / 2) (by omega)
    have hu := ih (l + 1) (b / 2) (by omega)
    simp only [fpos]
    split
    · unfold Under at hu ⊢
      obtain ⟨hu1, hu2⟩ := hu
      refine ⟨by simp only; omega, ?_⟩
      simp only
      rw [show top.1 - ((fpos al top k (l + 1) (b / 2)).1 - 1) =
        (top.1 - (fpos al top k (l + 1) (b / 2)).1) + 1 by omega, ← div_two_div_pow]
      have := Nat.mod_lt b (show 0 < 2 by decide)
      rw [show (2 * (fpos al top k (l + 1) (b / 2)).2 + b % 2) / 2 = (fpos al top k (l + 1) (b / 2)).2 by
        omega]
      exact hu2
    · exact hu

/-! ### chunks and trees -/

theorem chunkAlive_anc (S : List (Option H)) {l b : Nat} (h : chunkAlive S l b = true) :
    ∀ m, chunkAlive S (l + m) (b / 2 ^ m) = true := by
  intro m
  induction m with
  | zero => simpa using h
  | succ m ih =>
    have e : b / 2 ^ (m + 1) = b / 2 ^ m / 2 := by rw [Nat.pow_succ, Nat.div_div_eq_div_mul]
    rw [← Nat.add_assoc, chunkAlive_succ, e]
    rcases Nat.mod_two_eq_zero_or_one (b / 2 ^ m) with h0 | h1
    · rw [show 2 * (b / 2 ^ m / 2) = b / 2 ^ m by omega, ih]; rfl
    · rw [show 2 * (b / 2 ^ m / 2) + 1 = b / 2 ^ m by omega, ih]; simp

theorem inTree_anc {N T l b : Nat} (h : Spec.inTree N T l b) {m : Nat} (hm : l + m ≤ T) :
    Spec.inTree N T (l + m) (b / 2 ^ m) := by
  obtain ⟨h1, h2, h3⟩ := h
  refine ⟨h1, hm, ?_⟩
  rw [← h3, Nat.div_div_eq_div_mul, ← Nat.pow_add]
  congr 2; omega

/-- the ancestors of an old root chunk, strictly above it, are the chunks containing slot `n` -/
theorem root_anc (n : Nat) {h0 j : Nat} (hj : h0 < j) :
    2 * (n / 2 ^ (h0 + 1)) / 2 ^ (j - h0) = n / 2 ^ j := by
  rw [show j - h0 = (j - (h0 + 1)) + 1 by omega, ← div_two_div_pow,
    Nat.mul_div_cancel_left _ (by decide : 0 < 2), div_div_pow (by omega)]

theorem half_pow (n h : Nat) : n / 2 ^ (h + 1) = n / 2 ^ h / 2 := by
  rw [Nat.pow_succ, Nat.div_div_eq_div_mul]

/-- the sibling of the chunk of slot `n` on a level whose bit is set is the old root chunk -/
theorem sibIdx_root {n j : Nat} (hb : n.testBit j = true) :
    sibIdx (n / 2 ^ j) = 2 * (n / 2 ^ (j + 1)) := by
  have hodd := testBit_div_odd.mp hb
  unfold sibIdx
  rw [if_neg (by omega), half_pow]; omega

/-- an old tree is contained in a tree of the new forest on the same or a higher row -/
theorem tree_le {n N h0 T l b : Nat} (hnN : n ≤ N) (hin' : Spec.inTree n h0 l b)
    (hin : Spec.inTree N T l b) : h0 ≤ T := by
  apply Classical.byContradiction
  intro hc
  obtain ⟨hb0, hl0, hr0⟩ := hin'
  obtain ⟨hbT, hlT, hrT⟩ := hin
  have e1 : b / 2 ^ (h0 - l) = b / 2 ^ (T - l) / 2 ^ (h0 - T) := by
    rw [Nat.div_div_eq_div_mul, ← Nat.pow_add]; congr 2; omega
  rw [hrT, root_anc N (by omega), hr0] at e1
  have hodd := testBit_div_odd.mp hb0
  have := half_pow n h0
  have := Nat.div_le_div_right (c := 2 ^ h0) hnN
  omega

/-- the added slots are alive -/
theorem slot_new (S' : List (Option H)) (adds : List H) {i : Nat} (h1 : S'.length ≤ i)
    (h2 : i < S'.length + adds.length) : ∃ x : H, (S' ++ adds.map some)[i]? = some (some x) := by
  refine ⟨adds[i - S'.length]'(by omega), ?_⟩
  rw [List.getElem?_append_right h1, List.getElem?_map, List.getElem?_eq_getElem (by omega)]
  rfl

/-! ### the dead levels above an old root -/

/-- **the dead levels** on the way from an old (live) root chunk `(h0, ro)` up to the root of the
tree `T` of the new forest that contains it are the destroyed rows strictly between `h0` and `T` -/
theorem deadLevels_add (S' : List (Option H)) (adds : List H) (L : List Nat)
    (hL : DestroySpec S' adds.length L) {h0 T : Nat} (hb0 : S'.length.testBit h0 = true)
    (hin : Spec.inTree (S'.length + adds.length) T h0 (2 * (S'.length / 2 ^ (h0 + 1)))) (j : Nat) :
    j ∈ deadLevels (chunkAlive (S' ++ adds.map some)) (T - h0) h0 (2 * (S'.length / 2 ^ (h0 + 1))) ↔
      (j ∈ L ∧ h0 < j ∧ j < T) := by
  have hh0T : h0 ≤ T := hin.2.1
  rw [mem_deadLevels]
  have hodd0 := testBit_div_odd.mp hb0
  have hhalf0 := half_pow S'.length h0
  constructor
  · rintro ⟨h1, h2, h3⟩
    rcases Nat.eq_or_lt_of_le h1 with heq | hlt
    · -- level `h0`: the sibling contains slot `n`
      exfalso
      subst heq
      simp only [Nat.sub_self, Nat.pow_zero, Nat.div_one] at h3
      have hs : sibIdx (2 * (S'.length / 2 ^ (h0 + 1))) = S'.length / 2 ^ h0 := by
        unfold sibIdx; rw [if_pos (by omega)]; omega
      have hle := inTree_le (inTree_sib hin (by omega))
      rw [hs] at hle h3
      have hgt := lt_succ_div_mul S'.length (2 ^ h0) (Nat.two_pow_pos _)
      obtain ⟨x, hx⟩ := slot_new S' adds (Nat.le_refl _) (by omega)
      rw [chunkAlive_of_slot _ h0 _ _ x hx (Nat.div_mul_le_self _ _) hgt] at h3
      cases h3
    · rw [root_anc _ hlt] at h3
      have hjT : j < T := by omega
      have hinj : Spec.inTree (S'.length + adds.length) T j (S'.length / 2 ^ j) := by
        have := inTree_anc hin (m := j - h0) (by omega)
        rwa [root_anc _ hlt, show h0 + (j - h0) = j by omega] at this
      by_cases hb : S'.length.testBit j = true
      · rw [sibIdx_root hb, chunkAlive_append_left _ _ _ _ (root_chunk_le hb)] at h3
        refine ⟨(hL.mem j).mpr ⟨hb, h3, ?_⟩, hlt, hjT⟩
        have := inTree_le (inTree_parent hinj hjT)
        rwa [← half_pow] at this
      · exfalso
        have heven : S'.length / 2 ^ j % 2 = 0 := by
          have : ¬ S'.length / 2 ^ j % 2 = 1 := fun h => hb (testBit_div_odd.mpr h)
          omega
        have hs : sibIdx (S'.length / 2 ^ j) = S'.length / 2 ^ j + 1 := by
          unfold sibIdx; rw [if_pos heven]
        have hle := inTree_le (inTree_sib hinj hjT)
        rw [hs] at hle h3
        have hgt := lt_succ_div_mul S'.length (2 ^ j) (Nat.two_pow_pos _)
        have hpos := Nat.two_pow_pos j
        obtain ⟨x, hx⟩ := slot_new S' adds (i := (S'.length / 2 ^ j + 1) * 2 ^ j) (by omega)
          (by rw [Nat.add_mul, Nat.one_mul] at hle; omega)
        rw [chunkAlive_of_slot _ j _ _ x hx (Nat.le_refl _)
          (by rw [Nat.add_mul (S'.length / 2 ^ j + 1), Nat.one_mul]; omega)] at h3
        cases h3
  · rintro ⟨hjL, h1, h2⟩
    obtain ⟨hb, hdead, _⟩ := (hL.mem j).mp hjL
    refine ⟨by omega, by omega, ?_⟩
    rw [root_anc _ h1, sibIdx_root hb, chunkAlive_append_left _ _ _ _ (root_chunk_le hb)]
    exact hdead

/-! ### `moveA` over the destroyed roots -/

theorem AscFrom.pairwise_lt : ∀ {L : List Nat} {a : Nat}, AscFrom a L → L.Pairwise (· < ·) := by
  intro L
  induction L with
  | nil => intro _ _; exact List.Pairwise.nil
  | cons x t ih =>
    intro a h
    refine List.pairwise_cons.mpr ⟨fun y hy => ?_, ih h.2⟩
    have := h.2.ge y hy
    omega

theorem destroyedPos_pairwise {n : Nat} {L : List Nat} {a : Nat} (h : AscFrom a L) :
    (destroyedPos n L).Pairwise (fun p q => p.1 < q.1) := by
  unfold destroyedPos
  rw [List.pairwise_map]
  exact AscFrom.pairwise_lt h

theorem mem_destroyedPos {n : Nat} {L : List Nat} {p : Pos} :
    p ∈ destroyedPos n L ↔ p.1 ∈ L ∧ p.2 = 2 * (n / 2 ^ (p.1 + 1)) := by
  unfold destroyedPos
  rw [List.mem_map]
  constructor
  · rintro ⟨h, hh, rfl⟩; exact ⟨hh, rfl⟩
  · rintro ⟨h1, h2⟩; exact ⟨p.1, h1, by rw [← h2]⟩

/-- **the destroyed roots move a position of the old tree `h0` over exactly the destroyed rows
strictly between `h0` and the row `T` of the new tree** -/
theorem moveA_destroyed (S' : List (Option H)) (k : Nat) (L : List Nat) (hL : DestroySpec S' k L)
    {h0 T : Nat} (hb0 : S'.length.testBit h0 = true) (hh0T : h0 ≤ T)
    (hroot : 2 * (S'.length / 2 ^ (h0 + 1)) / 2 ^ (T - h0) = 2 * ((S'.length + k) / 2 ^ (T + 1)))
    (halive : chunkAlive S' h0 (2 * (S'.length / 2 ^ (h0 + 1))) = true)
    (p0 : Pos) (hp0 : Under h0 (2 * (S'.length / 2 ^ (h0 + 1))) p0)
    {dl : List Nat} {a : Nat} (hasc : AscFrom a dl)
    (hdl : ∀ j, j ∈ dl ↔ (j ∈ L ∧ h0 < j ∧ j < T)) :
    moveA (S'.length + k) T (destroyedPos S'.length L) p0 = liftFold 0 p0 dl := by
  have hpw := destroyedPos_pairwise (n := S'.length) hL.asc
  have hyp : HitHyp (S'.length + k) T (destroyedPos S'.length L) p0 :=
    ⟨hpw.imp (fun h => Nat.le_of_lt h), hpw.imp (fun h e => by subst e; omega), by
      intro A hA B hB _ _ _ _ hAB
      rw [mem_destroyedPos] at hA hB
      apply Prod.ext hAB
      rw [hA.2, hB.2, hAB]⟩
  apply moveA_eq_liftFold hyp hasc
  obtain ⟨hp1, hp2⟩ := hp0
  have hodd0 := testBit_div_odd.mp hb0
  have hhalf0 := half_pow S'.length h0
  intro j
  rw [hdl]
  constructor
  · rintro ⟨hjL, h1, h2⟩
    refine ⟨(j, 2 * (S'.length / 2 ^ (j + 1))), mem_destroyedPos.mpr ⟨hjL, rfl⟩, ?_, ?_, rfl⟩
    · rw [CalcComplete.inTree_iff, Nat.shiftRight_eq_div_pow]
      refine ⟨by simp only; omega, ?_⟩
      simp only
      rw [← hroot, root_anc _ (show h0 < T by omega), root_anc _ (show j < T by omega)]
    · unfold hitA
      simp only [decide_eq_true_eq]
      refine ⟨by omega, ?_⟩
      rw [Nat.mul_div_cancel_left _ (by decide : 0 < 2)]
      have e : p0.2 / 2 ^ (j + 1 - p0.1) = p0.2 / 2 ^ (h0 - p0.1) / 2 ^ (j + 1 - h0) := by
        rw [Nat.div_div_eq_div_mul, ← Nat.pow_add]; congr 2; omega
      rw [e, hp2, root_anc _ (by omega)]
  · rintro ⟨A, hA, hin, hhit, rfl⟩
    obtain ⟨hjL, hA2⟩ := mem_destroyedPos.mp hA
    refine ⟨hjL, ?_⟩
    obtain ⟨hbj, hdead, _⟩ := (hL.mem A.1).mp hjL
    rw [CalcComplete.inTree_iff, Nat.shiftRight_eq_div_pow] at hin
    obtain ⟨hi1, hi2⟩ := hin
    unfold hitA at hhit
    simp only [decide_eq_true_eq] at hhit
    obtain ⟨hh1, hh2⟩ := hhit
    rw [hA2, Nat.mul_div_cancel_left _ (by decide : 0 < 2)] at hh2
    have hne : A.1 ≠ h0 := by
      intro e
      rw [e, halive] at hdead
      cases hdead
    have hgt : h0 < A.1 := by
      apply Classical.byContradiction
      intro hc
      have hlt : A.1 < h0 := by omega
      have e : p0.2 / 2 ^ (h0 - p0.1) = p0.2 / 2 ^ (A.1 + 1 - p0.1) / 2 ^ (h0 - (A.1 + 1)) := by
        rw [Nat.div_div_eq_div_mul, ← Nat.pow_add]; congr 2; omega
      rw [hh2, div_div_pow (by omega), hp2] at e
      omega
    refine ⟨hgt, ?_⟩
    apply Classical.byContradiction
    intro hc
    have hAT : A.1 = T := by omega
    rw [hAT] at hbj
    have hoddT := testBit_div_odd.mp hbj
    rw [root_anc _ (show h0 < T by omega)] at hroot
    omega

/-! ### the main theorems -/

/-- **an old live chunk keeps its subtree and moves as `updateProofAdd` computes** -/
theorem nodePos_add (S' : List (Option H)) (adds : List H) (L : List Nat)
    (hL : DestroySpec S' adds.length L) (hN : S'.length + adds.length < 2 ^ 64)
    {h0 T l b : Nat} (hin' : Spec.inTree S'.length h0 l b) (hal : chunkAlive S' l b = true)
    (hin : Spec.inTree (S'.length + adds.length) T l b) :
    nodePos (S' ++ adds.map some) T l b =
      moveA (S'.length + adds.length) T (destroyedPos S'.length L) (nodePos S' h0 l b) := by
  have hh0T : h0 ≤ T := tree_le (Nat.le_add_right _ _) hin' hin
  obtain ⟨hb0, hl0, hr0⟩ := hin'
  have hinT := hin
  obtain ⟨hbT, hlT, hrT⟩ := hin
  have hlen : (S' ++ adds.map some).length = S'.length + adds.length := by simp
  -- the old root chunk
  have hroot : 2 * (S'.length / 2 ^ (h0 + 1)) / 2 ^ (T - h0) =
      2 * ((S'.length + adds.length) / 2 ^ (T + 1)) := by
    rw [← hr0, ← hrT, Nat.div_div_eq_div_mul, ← Nat.pow_add]; congr 2; omega
  have hinR : Spec.inTree (S'.length + adds.length) T h0 (2 * (S'.length / 2 ^ (h0 + 1))) := by
    have := inTree_anc hinT (m := h0 - l) (by omega)
    rwa [hr0, show l + (h0 - l) = h0 by omega] at this
  have halive : chunkAlive S' h0 (2 * (S'.length / 2 ^ (h0 + 1))) = true := by
    have := chunkAlive_anc S' hal (h0 - l)
    rwa [hr0, show l + (h0 - l) = h0 by omega] at this
  -- split the walk at level `h0`
  unfold nodePos
  rw [hlen, show T - l = (T - h0) + (h0 - l) by omega, fpos_split, hr0,
    show l + (h0 - l) = h0 by omega]
  -- the upper part: bottom-up over the dead levels
  have htop : fpos (chunkAlive (S' ++ adds.map some))
      (T, 2 * ((S'.length + adds.length) / 2 ^ (T + 1))) (T - h0) h0
        (2 * (S'.length / 2 ^ (h0 + 1))) =
      liftFold 0 (h0, 2 * (S'.length / 2 ^ (h0 + 1)))
        (deadLevels (chunkAlive (S' ++ adds.map some)) (T - h0) h0
          (2 * (S'.length / 2 ^ (h0 + 1)))) := by
    rw [← hroot, liftFold_rows, Nat.zero_add, ← fpos_eq_liftFold,
      show h0 + (T - h0) = T by omega]
  rw [htop]
  -- the lower part only looks at the old slots
  have hcongr : ∀ top, fpos (chunkAlive (S' ++ adds.map some)) top (h0 - l) l b =
      fpos (chunkAlive S') top (h0 - l) l b := by
    intro top
    apply fpos_congr
    intro j hj
    apply chunkAlive_append_left
    have h1 : Spec.inTree S'.length h0 l b := ⟨hb0, hl0, hr0⟩
    exact inTree_le (inTree_sib (inTree_anc h1 (m := j) (by omega)) (by omega))
  rw [hcongr, fpos_liftFold _ _ _ (deadLevels_asc _ _ _ _) _ _ _ (by simp only; omega)]
  symm
  exact moveA_destroyed S' adds.length L hL hb0 hh0T hroot halive _
    (fpos_under _ _ _ _ _ (by simp only; omega)) (deadLevels_asc _ _ _ _)
    (deadLevels_add S' adds L hL hb0 hinR)

/-- the chunk itself is unchanged -/
theorem chunk_add_old (S' : List (Option H)) (adds : List H) {l b : Nat}
    (h : (b + 1) * 2 ^ l ≤ S'.length) : chunk (S' ++ adds.map some) l b = chunk S' l b :=
  chunk_append_left S' _ l b h

/-- the destroyed roots are legitimate arguments for `gnpMove_enc` -/
theorem destroyed_dtOK (S' : List (Option H)) (k : Nat) (L : List Nat) (hL : DestroySpec S' k L)
    (hN : S'.length + k < 2 ^ 64) (R : Nat) : DtOK (S'.length + k) R (destroyedPos S'.length L) := by
  intro A hA
  obtain ⟨hjL, hA2⟩ := mem_destroyedPos.mp hA
  obtain ⟨hb, _, hpop⟩ := (hL.mem A.1).mp hjL
  have hrc := root_chunk_le hb
  have hpos := Nat.two_pow_pos A.1
  -- the first slot of the destroyed root
  have hm : 2 * (S'.length / 2 ^ (A.1 + 1)) * 2 ^ A.1 < S'.length + k := by
    rw [Nat.add_mul, Nat.one_mul] at hrc; omega
  obtain ⟨RT, h1, h2, h3⟩ := exists_tree_of_lt _ _ hm
  have hmdiv : 2 * (S'.length / 2 ^ (A.1 + 1)) * 2 ^ A.1 / 2 ^ (A.1 + 1) = S'.length / 2 ^ (A.1 + 1) := by
    rw [Nat.pow_succ, Nat.mul_comm 2, Nat.mul_assoc, Nat.mul_comm 2,
      Nat.mul_div_cancel _ (by omega)]
  have hlt : A.1 < RT := by
    apply Classical.byContradiction
    intro hc
    have e : (S'.length + k) / 2 ^ (A.1 + 1) = S'.length / 2 ^ (A.1 + 1) := by
      rw [← div_div_pow (show RT + 1 ≤ A.1 + 1 by omega), h3, div_div_pow (by omega), hmdiv]
    have := (Nat.le_div_iff_mul_le (Nat.two_pow_pos (A.1 + 1))).mpr hpop
    omega
  have hin := inTree_of_slot h1 h2 h3 (l := A.1) (by omega)
  rw [Nat.mul_div_cancel _ hpos] at hin
  refine ⟨RT, CalcComplete.mem_treeRows hN h1, ?_, fun e => by omega⟩
  rw [Nat.shiftRight_eq_div_pow]
  exact ⟨hin.2.1, by rw [hA2]; exact hin.2.2⟩

/-! ### non-vacuity -/

section examples

private inductive Hx | z | a | b | x | y
  deriving DecidableEq

private instance : Hasher Hx := ⟨fun _ _ => Hx.a, Hx.z⟩

/-- three slots: the tree on row 1 is dead, the leaf `x` on row 0 is alive -/
private def exS : List (Option Hx) := [none, none, some .x]

private theorem ex_spec : DestroySpec exS 1 [1] where
  asc := by simp [AscFrom]
  mem := by
    intro h
    match h with
    | 0 => decide
    | 1 => decide
    | h + 2 =>
      have : (3 : Nat).testBit (h + 2) = false :=
        Nat.testBit_lt_two_pow (Nat.lt_of_lt_of_le (by decide) (Nat.pow_le_pow_right (by decide)
          (Nat.le_add_left 2 h)))
      simp [exS, this]

/-- the values: the old leaf at `(0, 2)` ends up at `(1, 0)` below the new root `(2, 0)`
(its sibling is the added leaf, the dead root on row 1 is skipped) -/
example : nodePos exS 0 0 2 = (0, 2) ∧ destroyedPos 3 [1] = [(1, 0)] ∧
    moveA 4 2 [(1, 0)] (0, 2) = (1, 0) ∧ nodePos (exS ++ [Hx.y].map some) 2 0 2 = (1, 0) ∧
    chunkAlive exS 0 2 = true ∧ chunkAlive exS 1 0 = false := by decide

/-- `nodePos_add` applies to it -/
example : nodePos (exS ++ [Hx.y].map some) 2 0 2 =
    moveA (exS.length + [Hx.y].length) 2 (destroyedPos exS.length [1]) (nodePos exS 0 0 2) :=
  nodePos_add exS [.y] [1] ex_spec (by decide) (h0 := 0) ⟨by decide, by decide, by decide⟩
    (by decide) ⟨by decide, by decide, by decide⟩

example : DtOK (exS.length + 1) 2 (destroyedPos exS.length [1]) :=
  destroyed_dtOK exS 1 [1] ex_spec (by decide) 2

/-- seven slots: tree 2 = `[a, b, -, -]`, tree 1 dead, tree 0 = `[x]`; one addition merges all -/
private def exS7 : List (Option Hx) := [some .a, some .b, none, none, none, none, some .x]

private theorem ex_spec7 : DestroySpec exS7 1 [1] where
  asc := by simp [AscFrom]
  mem := by
    intro h
    match h with
    | 0 => decide
    | 1 => decide
    | 2 => decide
    | h + 3 =>
      have : (7 : Nat).testBit (h + 3) = false :=
        Nat.testBit_lt_two_pow (Nat.lt_of_lt_of_le (by decide) (Nat.pow_le_pow_right (by decide)
          (Nat.le_add_left 3 h)))
      simp [exS7, this]

/-- `x` moves from `(0, 6)` to `(1, 2)` (lifted over the dead root on row 1); `b` (tree 2, above
the destroyed row) stays at `(1, 1)` -/
example : nodePos exS7 0 0 6 = (0, 6) ∧ nodePos (exS7 ++ [Hx.y].map some) 3 0 6 = (1, 2) ∧
    moveA 8 3 (destroyedPos 7 [1]) (0, 6) = (1, 2) ∧
    nodePos exS7 2 0 1 = (1, 1) ∧ nodePos (exS7 ++ [Hx.y].map some) 3 0 1 = (1, 1) ∧
    moveA 8 3 (destroyedPos 7 [1]) (1, 1) = (1, 1) := by decide

example : nodePos (exS7 ++ [Hx.y].map some) 3 0 6 =
    moveA (exS7.length + [Hx.y].length) 3 (destroyedPos exS7.length [1]) (nodePos exS7 0 0 6) :=
  nodePos_add exS7 [.y] [1] ex_spec7 (by decide) (h0 := 0) ⟨by decide, by decide, by decide⟩
    (by decide) ⟨by decide, by decide, by decide⟩

example : nodePos (exS7 ++ [Hx.y].map some) 3 0 1 =
    moveA (exS7.length + [Hx.y].length) 3 (destroyedPos exS7.length [1]) (nodePos exS7 2 0 1) :=
  nodePos_add exS7 [.y] [1] ex_spec7 (by decide) (h0 := 2) ⟨by decide, by decide, by decide⟩
    (by decide) ⟨by decide, by decide, by decide⟩

end examples

end UtreexoVerif.Proofs.AddMove
