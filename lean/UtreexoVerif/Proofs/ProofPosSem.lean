/-
  `ProofPositions`, step 3 (continued): the paths of the targets, the invariant of the row
  loop, and the comparison with `Spec.Forest.proofPositions` / `Spec.Forest.computable`.
  The invariant needs the targets to be nodes of the forest and strictly sorted (`PPHyp0`) —
  NOT that no target is an ancestor of another: the per-row `slices.Compact` removes the
  parent that duplicates an explicit ancestor target.
-/
import UtreexoVerif.Proofs.ProofPosSpec

namespace UtreexoVerif.Proofs
open UtreexoVerif Spec Spec.Forest

/-- `p` is `t` or an ancestor of `t` -/
def Anc (p t : Pos) : Prop := t.1 ≤ p.1 ∧ p.2 = t.2 / 2 ^ (p.1 - t.1)

theorem Anc.refl (t : Pos) : Anc t t := ⟨Nat.le_refl _, by simp⟩

theorem Anc.parent {p t : Pos} (h : Anc p t) : Anc (parent p) t := by
  obtain ⟨h1, h2⟩ := h
  refine ⟨by show t.1 ≤ p.1 + 1; omega, ?_⟩
  show p.2 / 2 = t.2 / 2 ^ (p.1 + 1 - t.1)
  rw [h2, Nat.div_div_eq_div_mul, ← Nat.pow_succ, show (p.1 - t.1).succ = p.1 + 1 - t.1 by omega]

theorem Anc.eq_of_row {p t : Pos} (h : Anc p t) (e : p.1 = t.1) : p = t := by
  obtain ⟨h1, h2⟩ := h
  obtain ⟨a, b⟩ := p
  obtain ⟨c, d⟩ := t
  simp only at e h2 ⊢
  subst e
  simp at h2
  rw [h2]

/-- an ancestor of `t` on a row not above `t`'s root lies below the same root -/
theorem belowRoot_anc {n R : Nat} {p t : Pos} (hb : BelowRoot n t.1 t.2 R) (ha : Anc p t)
    (hp : p.1 ≤ R) : BelowRoot n p.1 p.2 R := by
  obtain ⟨h1, h2, h3⟩ := hb
  obtain ⟨a1, a2⟩ := ha
  refine ⟨hp, h2, ?_⟩
  rw [a2, Nat.div_div_eq_div_mul, ← Nat.pow_add, show p.1 - t.1 + (R - p.1) = R - t.1 by omega]
  exact h3

theorem belowRoot_sib {n r o R : Nat} (hb : BelowRoot n r o R) (hne : r ≠ R) :
    BelowRoot n r (sib (r, o)).2 R := by
  obtain ⟨h1, h2, h3⟩ := hb
  refine ⟨h1, h2, ?_⟩
  rw [← h3]
  have e : R - r = (R - r - 1) + 1 := by omega
  rw [e, Nat.pow_succ, Nat.mul_comm, ← Nat.div_div_eq_div_mul, ← Nat.div_div_eq_div_mul,
    sib_snd_div]

/-- membership in `pathUp`, for a node of the forest and enough fuel -/
theorem mem_pathUp {n R : Nat} : ∀ (d r o fuel : Nat), BelowRoot n r o R → r + d = R → d ≤ fuel →
    ∀ p, p ∈ pathUp n fuel (r, o) ↔ Anc p (r, o) ∧ p.1 ≤ R := by
  intro d
  induction d with
  | zero =>
    intro r o fuel hb hrd _ p
    have hroot : isRootPos n (r, o) = true := by rw [belowRoot_isRootPos hb]; simp; omega
    have e : pathUp n fuel (r, o) = [(r, o)] := by
      cases fuel <;> simp [pathUp, hroot]
    rw [e, List.mem_singleton]
    constructor
    · rintro rfl; exact ⟨Anc.refl _, by show r ≤ R; omega⟩
    · rintro ⟨ha, hp⟩
      exact ha.eq_of_row (by have := ha.1; show p.1 = r; simp only at this; omega)
  | succ d ih =>
    intro r o fuel hb hrd hf p
    obtain ⟨g, rfl⟩ : ∃ g, fuel = g + 1 := ⟨fuel - 1, by omega⟩
    have hroot : isRootPos n (r, o) = false := by rw [belowRoot_isRootPos hb]; simp; omega
    have hb' := belowRoot_parent hb (by omega)
    rw [pathUp, hroot]
    simp only [Bool.false_eq_true, if_false, List.mem_cons]
    rw [show Spec.parent (r, o) = (r + 1, o / 2) from rfl, ih (r + 1) (o / 2) g hb' (by omega) (by omega)]
    constructor
    · rintro (rfl | ⟨ha, hp⟩)
      · exact ⟨Anc.refl _, by show r ≤ R; omega⟩
      · refine ⟨?_, hp⟩
        obtain ⟨a1, a2⟩ := ha
        simp only at a1 a2
        refine ⟨by show r ≤ p.1; omega, ?_⟩
        show p.2 = o / 2 ^ (p.1 - r)
        rw [a2, Nat.div_div_eq_div_mul, ← Nat.pow_succ', show (p.1 - (r + 1)).succ = p.1 - r by omega]
    · rintro ⟨ha, hp⟩
      by_cases e : p.1 = r
      · exact Or.inl (ha.eq_of_row e)
      · right
        obtain ⟨a1, a2⟩ := ha
        simp only at a1 a2
        refine ⟨⟨by show r + 1 ≤ p.1; omega, ?_⟩, hp⟩
        show p.2 = o / 2 / 2 ^ (p.1 - (r + 1))
        rw [a2, Nat.div_div_eq_div_mul, ← Nat.pow_succ', show (p.1 - (r + 1)).succ = p.1 - r by omega]


/-! ### the targets and their paths -/

/-- hypotheses on the target list for the general theorem (`proofPositions_spec_all`): nodes of
the forest, strictly sorted.  NO antichain hypothesis: a target may be an ancestor of another. -/
structure PPHyp0 (n : Nat) (Tg : List Pos) : Prop where
  inForest : ∀ t ∈ Tg, ∃ R, BelowRoot n t.1 t.2 R
  sorted : SSorted Tg

/-- hypotheses on the target list: nodes of the forest, strictly sorted, and no target is an
ancestor of another target -/
structure PPHyp (n : Nat) (Tg : List Pos) : Prop where
  inForest : ∀ t ∈ Tg, ∃ R, BelowRoot n t.1 t.2 R
  sorted : SSorted Tg
  anti : ∀ a ∈ Tg, ∀ b ∈ Tg, Anc a b → a = b

theorem PPHyp.toHyp0 {n : Nat} {Tg : List Pos} (h : PPHyp n Tg) : PPHyp0 n Tg := ⟨h.inForest, h.sorted⟩

/-- `p` lies on the path from some target up to the root of its tree -/
def InP (n : Nat) (Tg : List Pos) (p : Pos) : Prop :=
  ∃ t ∈ Tg, ∃ R, BelowRoot n t.1 t.2 R ∧ Anc p t ∧ p.1 ≤ R

/-- a needed proof position: sibling of a path node that is not a root, not itself on a path -/
def IsProof (n : Nat) (Tg : List Pos) (q : Pos) : Prop :=
  ∃ x, InP n Tg x ∧ isRootPos n x = false ∧ q = sib x ∧ ¬ InP n Tg q

/-- a computable position: parent of a path node that is not a root -/
def IsComp (n : Nat) (Tg : List Pos) (q : Pos) : Prop :=
  ∃ x, InP n Tg x ∧ isRootPos n x = false ∧ q = parent x

section
variable {n : Nat} {Tg : List Pos}

theorem InP.belowRoot {p : Pos} (h : InP n Tg p) : ∃ R, BelowRoot n p.1 p.2 R := by
  obtain ⟨t, _, R, hb, ha, hp⟩ := h
  exact ⟨R, belowRoot_anc hb ha hp⟩

theorem InP.self0 (hyp : PPHyp0 n Tg) {t : Pos} (ht : t ∈ Tg) : InP n Tg t := by
  obtain ⟨R, hb⟩ := hyp.inForest t ht
  exact ⟨t, ht, R, hb, Anc.refl t, hb.1⟩

theorem InP.self (hyp : PPHyp n Tg) {t : Pos} (ht : t ∈ Tg) : InP n Tg t := InP.self0 hyp.toHyp0 ht

theorem InP.parent {x : Pos} (h : InP n Tg x) (hroot : isRootPos n x = false) :
    InP n Tg (Spec.parent x) := by
  obtain ⟨t, ht, R, hb, ha, hp⟩ := h
  have hbx := belowRoot_anc hb ha hp
  have hne : x.1 ≠ R := by
    intro e
    have := belowRoot_isRootPos hbx
    rw [show (x.1, x.2) = x from rfl, hroot] at this
    simp [e] at this
  exact ⟨t, ht, R, hb, ha.parent, by show x.1 + 1 ≤ R; omega⟩

theorem InP.sib_not_root {x : Pos} (h : InP n Tg x) (hroot : isRootPos n x = false) :
    isRootPos n (sib x) = false := by
  obtain ⟨R, hbx⟩ := h.belowRoot
  have hne : x.1 ≠ R := by
    intro e
    have := belowRoot_isRootPos hbx
    rw [show (x.1, x.2) = x from rfl, hroot] at this
    simp [e] at this
  have := belowRoot_isRootPos (belowRoot_sib hbx hne)
  rw [show (x.1, (sib (x.1, x.2)).2) = sib x from rfl] at this
  rw [this]; simp [hne]

theorem InP.parent_notin (hyp : PPHyp n Tg) {x : Pos} (h : InP n Tg x) : Spec.parent x ∉ Tg := by
  intro hc
  obtain ⟨t, ht, R, hb, ha, hp⟩ := h
  have := hyp.anti (Spec.parent x) hc t ht ha.parent
  have h1 := ha.1
  have h2 : (Spec.parent x).1 = x.1 + 1 := rfl
  rw [this] at h2
  omega

/-- the path nodes of a row: targets of that row and parents of the path nodes below -/
theorem InP.row_succ {p : Pos} {ρ : Nat} (h : InP n Tg p) (hp : p.1 = ρ + 1) :
    p ∈ Tg ∨ ∃ x, x.1 = ρ ∧ InP n Tg x ∧ isRootPos n x = false ∧ p = Spec.parent x := by
  obtain ⟨t, ht, R, hb, ha, hpR⟩ := h
  by_cases e : p.1 = t.1
  · left; rw [ha.eq_of_row e]; exact ht
  · right
    have h1 := ha.1
    have hx : Anc (ρ, t.2 / 2 ^ (ρ - t.1)) t := ⟨by show t.1 ≤ ρ; omega, rfl⟩
    have hbx := belowRoot_anc hb hx (by show ρ ≤ R; omega)
    refine ⟨(ρ, t.2 / 2 ^ (ρ - t.1)), rfl, ⟨t, ht, R, hb, hx, by show ρ ≤ R; omega⟩, ?_, ?_⟩
    · rw [belowRoot_isRootPos hbx]; simp; omega
    · obtain ⟨a, b⟩ := p
      simp only at hp e h1 ⊢
      show (a, b) = (ρ + 1, t.2 / 2 ^ (ρ - t.1) / 2)
      have h2 : b = t.2 / 2 ^ (a - t.1) := ha.2
      subst hp
      rw [h2, Nat.div_div_eq_div_mul, ← Nat.pow_succ, show (ρ - t.1).succ = ρ + 1 - t.1 by omega]

theorem InP.row_zero {p : Pos} (h : InP n Tg p) (hp : p.1 = 0) : p ∈ Tg := by
  obtain ⟨t, ht, R, hb, ha, hpR⟩ := h
  have := ha.1
  rw [ha.eq_of_row (by omega)]; exact ht

end

theorem ssorted_split (k : Nat) {Hi : List Pos} (h : SSorted Hi) :
    Hi = Hi.filter (fun p => decide (p.1 < k)) ++ Hi.filter (fun p => !decide (p.1 < k)) := by
  have h1 := sortPos_split k Hi
  rw [sortPos_of_ssorted h, sortPos_of_ssorted (List.Pairwise.filter _ h),
    sortPos_of_ssorted (List.Pairwise.filter _ h)] at h1
  exact h1


/-! ### the loop invariant -/

/-- state of the row loop before row `ρ`: the target list is strictly sorted (it has just been
sorted and compacted); its entries on row `ρ` are exactly the path nodes of that row, its
entries above are the targets not yet reached -/
structure PPInv (n : Nat) (Tg : List Pos) (ρ : Nat) (s : List Pos × List Pos × List Pos) : Prop where
  tg_sorted : SSorted s.1
  tg_mem : ∀ p, ρ ≤ p.1 → (p ∈ s.1 ↔ ((p.1 = ρ ∧ InP n Tg p) ∨ (ρ < p.1 ∧ p ∈ Tg)))
  nx_sorted : SSorted s.2.1
  nx_mem : ∀ q, q ∈ s.2.1 ↔ q.1 ≤ ρ ∧ IsComp n Tg q
  pf_sorted : SSorted s.2.2
  pf_mem : ∀ q, q ∈ s.2.2 ↔ q.1 < ρ ∧ IsProof n Tg q

theorem ssorted_append {A B : List Pos} (hA : SSorted A) (hB : SSorted B)
    (h : ∀ a ∈ A, ∀ b ∈ B, a.1 < b.1) : SSorted (A ++ B) :=
  List.pairwise_append.2 ⟨hA, hB, fun a ha b hb => PLt_iff.2 (Or.inl (h a ha b hb))⟩

theorem PPInv.init {n : Nat} {Tg : List Pos} (hyp : PPHyp0 n Tg) : PPInv n Tg 0 (Tg, [], []) where
  tg_sorted := hyp.sorted
  tg_mem := by
    intro p _
    constructor
    · intro hp
      by_cases h0 : p.1 = 0
      · exact Or.inl ⟨h0, InP.self0 hyp hp⟩
      · exact Or.inr ⟨by omega, hp⟩
    · rintro (⟨h0, hin⟩ | ⟨_, hp⟩)
      · exact hin.row_zero h0
      · exact hp
  nx_sorted := List.Pairwise.nil
  nx_mem := by
    intro q
    simp only [List.not_mem_nil, false_iff, not_and]
    rintro h0 ⟨x, _, _, rfl⟩
    have : (parent x).1 = x.1 + 1 := rfl
    omega
  pf_sorted := List.Pairwise.nil
  pf_mem := by intro q; simp

theorem PPInv.step {n : Nat} {Tg : List Pos} {ρ : Nat} {s : List Pos × List Pos × List Pos}
    (hyp : PPHyp0 n Tg) (inv : PPInv n Tg ρ s) :
    PPInv n Tg (ρ + 1)
      (compactPos (sortPos (scanPos n ρ s.1).1), s.2.1 ++ (scanPos n ρ s.1).2.1,
        s.2.2 ++ (scanPos n ρ s.1).2.2) := by
  -- the processed rows, and the rest
  have hs := ssorted_split ρ inv.tg_sorted
  generalize hLoD : s.1.filter (fun p => decide (p.1 < ρ)) = Lo at hs
  generalize hHiD : s.1.filter (fun p => !decide (p.1 < ρ)) = Hi at hs
  have hLo : ∀ a ∈ Lo, a.1 < ρ := by
    intro a ha
    rw [← hLoD, List.mem_filter] at ha
    simpa using ha.2
  have hHi : SSorted Hi := by rw [← hHiD]; exact List.Pairwise.filter _ inv.tg_sorted
  have hmem : ∀ p, p ∈ Hi ↔ ((p.1 = ρ ∧ InP n Tg p) ∨ (ρ < p.1 ∧ p ∈ Tg)) := by
    intro p
    rw [← hHiD, List.mem_filter]
    simp only [Bool.not_eq_true', decide_eq_false_iff_not]
    constructor
    · rintro ⟨h1, h2⟩
      exact (inv.tg_mem p (by omega)).1 h1
    · intro h
      have hle : ρ ≤ p.1 := by rcases h with h | h <;> omega
      exact ⟨(inv.tg_mem p hle).2 h, by omega⟩
  -- the nodes of row ρ and the targets above
  have hsplit := ssorted_split (ρ + 1) hHi
  generalize hF : Hi.filter (fun p => decide (p.1 < ρ + 1)) = Front at hsplit
  generalize hU : Hi.filter (fun p => !decide (p.1 < ρ + 1)) = Fut at hsplit
  have hFmem : ∀ p, p ∈ Front ↔ p.1 = ρ ∧ InP n Tg p := by
    intro p
    rw [← hF, List.mem_filter, hmem]
    simp only [decide_eq_true_eq]
    constructor
    · rintro ⟨(h | h), h2⟩
      · exact h
      · omega
    · rintro ⟨h1, h2⟩; exact ⟨Or.inl ⟨h1, h2⟩, by omega⟩
  have hUmem : ∀ p, p ∈ Fut ↔ ρ < p.1 ∧ p ∈ Tg := by
    intro p
    rw [← hU, List.mem_filter, hmem]
    simp only [Bool.not_eq_true', decide_eq_false_iff_not]
    constructor
    · rintro ⟨(h | h), h2⟩
      · omega
      · exact h
    · rintro ⟨h1, h2⟩; exact ⟨Or.inr ⟨h1, h2⟩, by omega⟩
  have hFs : SSorted Front := by rw [← hF]; exact List.Pairwise.filter _ hHi
  have hFrow : OnRow ρ Front := fun p hp => ((hFmem p).1 hp).1
  have hFsc : SibClosed n Front := fun t ht hr _ => ((hFmem t).1 ht).2.sib_not_root hr
  -- the scan
  have hscan : scanPos n ρ s.1 = (Lo ++ ((scanPos n ρ Front).1 ++ Fut), (scanPos n ρ Front).2.1,
      (scanPos n ρ Front).2.2) := by
    rw [hs, hsplit, scanPos_skip_prefix Lo _ (fun a ha => by
        have := hLo a ha
        have hne : a.1 ≠ ρ := by omega
        simp [skipP, hne]),
      scanPos_skip_suffix Fut (fun c hc => by have := ((hUmem c).1 hc).1; omega)]
  obtain ⟨hP, hS, hPs, hSs⟩ := scanPos_front Front hFrow hFs hFsc
  obtain ⟨hfil, hfilLow⟩ := scanPos_front_filter (n := n) Front hFrow
  rw [hscan]
  simp only
  -- membership of the two appended lists, in terms of the paths
  have hPmem : ∀ q, q ∈ (scanPos n ρ Front).2.1 ↔ q.1 = ρ + 1 ∧ IsComp n Tg q := by
    intro q
    rw [hP]
    constructor
    · rintro ⟨x, hx, hr, rfl⟩
      obtain ⟨h1, h2⟩ := (hFmem x).1 hx
      exact ⟨by show x.1 + 1 = ρ + 1; omega, x, h2, hr, rfl⟩
    · rintro ⟨h1, x, h2, hr, rfl⟩
      exact ⟨x, (hFmem x).2 ⟨by have : x.1 + 1 = ρ + 1 := h1; omega, h2⟩, hr, rfl⟩
  have hSmem : ∀ q, q ∈ (scanPos n ρ Front).2.2 ↔ q.1 = ρ ∧ IsProof n Tg q := by
    intro q
    rw [hS]
    constructor
    · rintro ⟨x, hx, hr, rfl, hnot⟩
      obtain ⟨h1, h2⟩ := (hFmem x).1 hx
      refine ⟨h1, x, h2, hr, rfl, ?_⟩
      intro hc
      exact hnot ((hFmem _).2 ⟨h1, hc⟩)
    · rintro ⟨h1, x, h2, hr, rfl, hnot⟩
      refine ⟨x, (hFmem x).2 ⟨h1, h2⟩, hr, rfl, ?_⟩
      intro hc
      exact hnot ((hFmem _).1 hc).2
  -- of the scanned row's new entries only the parents lie above the row
  have hNew : ∀ p, ρ + 1 ≤ p.1 → (p ∈ (scanPos n ρ Front).1 ↔ p ∈ (scanPos n ρ Front).2.1) := by
    intro p hp
    rw [← hfil, List.mem_filter]
    simp only [Bool.not_eq_true', decide_eq_false_iff_not]
    constructor
    · intro h; exact ⟨h, by omega⟩
    · exact fun h => h.1
  refine ⟨compact_sortPos_ssorted _, ?_, ?_, ?_, ?_, ?_⟩
  · -- the new target list
    intro p hp
    rw [mem_compact_sortPos, List.mem_append, List.mem_append, hNew p hp, hPmem, hUmem]
    constructor
    · rintro (h0 | ⟨h1, x, hx, hr, rfl⟩ | ⟨h1, h2⟩)
      · have := hLo p h0; omega
      · exact Or.inl ⟨h1, hx.parent hr⟩
      · by_cases e : p.1 = ρ + 1
        · exact Or.inl ⟨e, InP.self0 hyp h2⟩
        · exact Or.inr ⟨by omega, h2⟩
    · rintro (⟨h1, h2⟩ | ⟨h1, h2⟩)
      · rcases h2.row_succ h1 with h3 | ⟨x, hx1, hx2, hx3, hx4⟩
        · exact Or.inr (Or.inr ⟨by omega, h3⟩)
        · exact Or.inr (Or.inl ⟨h1, x, hx2, hx3, hx4⟩)
      · exact Or.inr (Or.inr ⟨by omega, h2⟩)
  · apply ssorted_append inv.nx_sorted hPs
    intro a ha b hb
    have := ((inv.nx_mem a).1 ha).1
    have := ((hPmem b).1 hb).1
    omega
  · intro q
    rw [List.mem_append, inv.nx_mem, hPmem]
    constructor
    · rintro (⟨h1, h2⟩ | ⟨h1, h2⟩)
      · exact ⟨by omega, h2⟩
      · exact ⟨by omega, h2⟩
    · rintro ⟨h1, h2⟩
      by_cases e : q.1 = ρ + 1
      · exact Or.inr ⟨e, h2⟩
      · exact Or.inl ⟨by omega, h2⟩
  · apply ssorted_append inv.pf_sorted hSs
    intro a ha b hb
    have := ((inv.pf_mem a).1 ha).1
    have := ((hSmem b).1 hb).1
    omega
  · intro q
    rw [List.mem_append, inv.pf_mem, hSmem]
    constructor
    · rintro (⟨h1, h2⟩ | ⟨h1, h2⟩)
      · exact ⟨by omega, h2⟩
      · exact ⟨by omega, h2⟩
    · rintro ⟨h1, h2⟩
      by_cases e : q.1 = ρ
      · exact Or.inr ⟨e, h2⟩
      · exact Or.inl ⟨by omega, h2⟩

end UtreexoVerif.Proofs
