/-
  Un-step A (one iteration of `undoSingleAddLoop` below a non-empty root; the inverse of
  `MapAddSteps.stepA`): the spine node `P = parent ρ` is dropped, its children `ρ`, `sib ρ` become
  roots again.
-/
import UtreexoVerif.Proofs.MapUnliftCore

namespace UtreexoVerif.Proofs.MapUndoSteps
open UtreexoVerif Model Spec Spec.Forest Proofs MapInv MapPrune MapRep MapLiftGeo PForest MapAInv MapLiftCore MapUndoDefs Hasher
set_option linter.unusedSectionVars false
set_option linter.unusedVariables false

variable {H : Type} [DecidableEq H] [Hasher H]
variable {A : Pos → Option (Leaf H)} {C : H → Option Pos} {N N' : List (Pos × H × Bool)}
  {R R' : Pos → Prop} {Kp : H → Prop}

/-- the cache after the node at `q` has been dropped by `undoSingleAddLoop` -/
def dropC' (q : Pos) (A : Pos → Option (Leaf H)) (C : H → Option Pos) : H → Option Pos :=
  match A q with
  | some l => upd C l.hash none
  | none => C

theorem unstepJoin (L' : Laws N' R')
    (inv : HInvP A C N' R' (fun x => (C x).isSome = true) Kp (fun _ => False)) {ρ : Pos} {a b : H}
    (hN' : ∀ e, e ∈ N' ↔ e = (parent ρ, ph a b, false) ∨ e ∈ N)
    (hR' : ∀ z, R' z ↔ z = parent ρ ∨ (R z ∧ z ≠ ρ ∧ z ≠ sib ρ))
    (hfresh : ∀ h f, (parent ρ, h, f) ∉ N) :
    HInvP (upd A (parent ρ) none) (dropC' (parent ρ) A C) N R
      (fun x => (dropC' (parent ρ) A C x).isSome = true) Kp (fun _ => False) := by
  have hPN' : (parent ρ, ph a b, false) ∈ N' := (hN' _).2 (Or.inl rfl)
  -- the dropped node is an inner node: its hash is not cached, so the cache does not change
  have hC : ∀ x, dropC' (parent ρ) A C x = C x := by
    intro x
    unfold dropC'
    cases hA : A (parent ρ) with
    | none => rfl
    | some l =>
      simp only
      rw [upd_apply]
      split
      · rename_i e
        subst e
        cases hCx : C l.hash with
        | none => rfl
        | some t =>
          exfalso
          obtain ⟨bl, hl⟩ := inv.true_hash _ l hA (fun h => h)
          have hm := (inv.cached_pos _ t hCx).1
          have := L'.leaf_hash t l.hash (parent ρ) bl hm hl
          subst this
          have := (L'.func _ _ _ _ _ hm hPN').2
          cases this
      · rfl
  have hCf : dropC' (parent ρ) A C = C := funext hC
  rw [hCf]
  have leaf_old : ∀ t y, (t, y, true) ∈ N' ↔ (t, y, true) ∈ N := by
    intro t y
    constructor
    · intro h
      rcases (hN' _).1 h with h' | h'
      · simp only [Prod.mk.injEq] at h'; exact absurd h'.2.2 (by simp)
      · exact h'
    · intro h; exact (hN' _).2 (Or.inr h)
  have kleaf_old : ∀ (K : H → Prop) t, KLeaf N' K t ↔ KLeaf N K t := by
    intro K t
    constructor
    · rintro ⟨y, hk, hm⟩; exact ⟨y, hk, (leaf_old t y).1 hm⟩
    · rintro ⟨y, hk, hm⟩; exact ⟨y, hk, (leaf_old t y).2 hm⟩
  have node_old : ∀ q h f, q ≠ parent ρ → ((q, h, f) ∈ N' ↔ (q, h, f) ∈ N) := by
    intro q h f hq
    constructor
    · intro hm
      rcases (hN' _).1 hm with h' | h'
      · simp only [Prod.mk.injEq] at h'; exact absurd h'.1 hq
      · exact h'
    · intro hm; exact (hN' _).2 (Or.inr hm)
  have notR' : ∀ q, q ≠ parent ρ → ¬ R q → ¬ R' q := by
    intro q hq hnr hr'
    rcases (hR' q).1 hr' with e | ⟨h1, _, _⟩
    · exact hq e
    · exact hnr h1
  refine { true_hash := ?_, cache_sub := ?_, cached_pos := ?_, kleaf_out := fun _ _ h => h, leaf_stored := ?_,
           only_needed := ?_, has_needed := ?_, flags := ?_ }
  · intro q l hl _
    rw [upd_apply] at hl
    split at hl
    · cases hl
    · rename_i hq
      obtain ⟨f, hf⟩ := inv.true_hash q l hl (fun h => h)
      exact ⟨f, (node_old q _ f hq).1 hf⟩
  · intro x t hx; show (C x).isSome = true; rw [hx]; rfl
  · intro x t hx
    exact ⟨(leaf_old t x).1 (inv.cached_pos x t hx).1, fun h => h⟩
  · intro t hk
    have hk' := (kleaf_old _ t).2 hk
    have hne : t ≠ parent ρ := by
      rintro rfl
      obtain ⟨y, _, hm⟩ := hk
      exact hfresh y true hm
    rw [upd_ne _ _ hne]
    exact inv.leaf_stored t hk'
  · intro q l hl _ hnr
    rw [upd_apply] at hl
    split at hl
    · cases hl
    · rename_i hq
      obtain ⟨t, ht, hrow, hanc⟩ := inv.only_needed q l hl (fun h => h) (notR' q hq hnr)
      exact ⟨t, (kleaf_old _ t).1 ht, hrow, hanc⟩
  · intro q h f hm _ hnr hreq
    have hq : q ≠ parent ρ := by
      rintro rfl; exact hfresh h f hm
    rw [upd_ne _ _ hq]
    apply inv.has_needed q h f ((node_old q h f hq).2 hm) (fun h => h) (notR' q hq hnr)
    rcases hreq with hk | ⟨t, hk, hanc⟩
    · exact Or.inl ((kleaf_old _ q).2 hk)
    · exact Or.inr ⟨t, (kleaf_old _ t).2 hk, hanc⟩
  · intro q l hl _ hnz
    rw [upd_apply] at hl
    split at hl
    · cases hl
    · rw [inv.flags q l hl (fun h => h) hnz, kleaf_old]

end UtreexoVerif.Proofs.MapUndoSteps
