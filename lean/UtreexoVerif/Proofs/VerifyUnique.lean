/-
  An accepted proof on canonical positions carries the canonical proof hashes (under CR).

  `verify_proof_unique`: if `Verify` accepts the true leaf hashes `L` at their true positions
  together with SOME list `all` of proof hashes of the canonical length, then `all` is the canonical
  proof.  (`verify_proof_unique_len`: without the length hypothesis `all` starts with the canonical
  proof.)

  Route: the loop of `calculateHashes` executes any plan (`CalcPlan.loop_run`).  The geometry of
  the plan of the canonical targets is that of `SpecPlan.spec_plan`; the valuation `val` is the one
  determined by the leaf hashes and the given proof hashes (`w q = all[idxOf q proofPositions]`).
  An accepting `matchRoots` says that `val` agrees with the true hash at the touched roots; under
  `CR.inj` the agreement propagates down the paths (`step_down`), to the path nodes and to the proof
  hashes.  A zero proof hash is rejected by the model, and the loop does not look at hashes it does
  not consume (`loop_proof`), which removes the non-zero and the length hypotheses.
-/
import UtreexoVerif.Proofs.CalcComplete
import UtreexoVerif.Proofs.PForestSpec
import UtreexoVerif.Proofs.MapSInv

namespace UtreexoVerif.Proofs.VerifyUnique
open UtreexoVerif UtreexoVerif.GoInt UtreexoVerif.Proofs Spec Model Hasher
open UtreexoVerif.Proofs.SpecNodes UtreexoVerif.Proofs.SpecView UtreexoVerif.Proofs.Sorted
open UtreexoVerif.Proofs.CalcGeo UtreexoVerif.Proofs.CalcPlan UtreexoVerif.Proofs.SpecSubs
open UtreexoVerif.Proofs.SpecPlan UtreexoVerif.Proofs.CalcSound UtreexoVerif.Proofs.CalcComplete
open UtreexoVerif.Proofs.PForestSpec

section
set_option linter.unusedSectionVars false
variable {H : Type} [DecidableEq H] [Hasher H]

/-! ### the valuation determined by the target hashes and a proof-hash assignment -/

/-- value of the position `(r, o)`: a target carries its hash `hv`; every other position the
`getNextHash` combination of its two children, a child outside the path set `P` contributing its
proof hash `w` -/
def valR (hv w : Pos → H) (P ts : List Pos) : Nat → Nat → H
  | 0, o => hv (0, o)
  | r+1, o =>
    if (r+1, o) ∈ ts then hv (r+1, o)
    else comb (if (r, 2*o) ∈ P then valR hv w P ts r (2*o) else w (r, 2*o))
              (if (r, 2*o+1) ∈ P then valR hv w P ts r (2*o+1) else w (r, 2*o+1))

def val (hv w : Pos → H) (P ts : List Pos) (p : Pos) : H := valR hv w P ts p.1 p.2

theorem val_target (hv w : Pos → H) (P ts : List Pos) {p : Pos} (hp : p ∈ ts) :
    val hv w P ts p = hv p := by
  obtain ⟨r, o⟩ := p
  cases r with
  | zero => rfl
  | succ r =>
    show valR hv w P ts (r+1) o = _
    rw [valR, if_pos hp]

theorem val_parent (hv w : Pos → H) (P ts : List Pos) {c : Pos} (hc : c ∈ P)
    (hnt : parent c ∉ ts) :
    val hv w P ts (parent c) =
      if c.2 % 2 = 0 then
        comb (val hv w P ts c) (if sib c ∈ P then val hv w P ts (sib c) else w (sib c))
      else
        comb (if sib c ∈ P then val hv w P ts (sib c) else w (sib c)) (val hv w P ts c) := by
  obtain ⟨r, o⟩ := c
  show valR hv w P ts (r+1) (o/2) = _
  have hnt' : (r+1, o/2) ∉ ts := hnt
  rw [valR, if_neg hnt']
  by_cases he : o % 2 = 0
  · have e1 : 2 * (o / 2) = o := by omega
    have e2 : sib (r, o) = (r, o + 1) := by simp [sib, he]
    rw [e1, e2]
    simp only [he, if_true, if_pos hc]
    rfl
  · have e1 : 2 * (o / 2) + 1 = o := by omega
    have e2 : sib (r, o) = (r, 2 * (o / 2)) := by
      simp only [sib, if_neg he, Prod.mk.injEq, true_and]; omega
    rw [e1, e2]
    simp only [he, if_false, if_pos hc]
    rfl

/-- `val` on the geometry of any plan with the same targets is a plan -/
theorem val_plan {n : Nat} (hn : n ≤ 2 ^ 63) {P ts : List Pos} {v0 w0 : Pos → H}
    (pl0 : Plan n P (isTarget ts) v0 w0) (hv w : Pos → H)
    (hw : ∀ c ∈ P, isRootPos n c = false → sib c ∉ P → w (sib c) ≠ zero) :
    Plan n P (isTarget ts) (val hv w P ts) w := by
  refine ⟨pl0.sorted, pl0.inF, pl0.up, pl0.gen, pl0.notT, ?_, hw⟩
  intro c hc hr
  have hnt : parent c ∉ ts := by
    have := pl0.notT c hc hr
    simpa [isTarget] using this
  rw [val_parent hv w P ts hc hnt, getNextHash_comb,
    isLeftNiece_E (rows_le_63 hn) (pl0.inF c hc).valid]
  by_cases he : c.2 % 2 = 0 <;> simp [he]

/-! ### values of a plan are non-zero -/

theorem getNextHash_ne_zero (nz : ∀ a b : H, ph a b ≠ (zero : H)) (pos : U64) {h : H} (s : H)
    (hh : h ≠ zero) : getNextHash pos h s ≠ zero := by
  unfold getNextHash
  rw [if_neg hh]
  split
  · exact hh
  · split <;> exact nz _ _

theorem plan_nonzero (nz : ∀ a b : H, ph a b ≠ (zero : H)) {n : Nat} {P : List Pos}
    {isT : Pos → Bool} {v w : Pos → H} (pl : Plan n P isT v w)
    (ht : ∀ p ∈ P, isT p = true → v p ≠ zero) : ∀ p ∈ P, v p ≠ zero := by
  have : ∀ k, ∀ p ∈ P, p.1 ≤ k → v p ≠ zero := by
    intro k
    induction k with
    | zero =>
      intro p hp hk
      rcases pl.gen p hp with h | ⟨c, _, _, hpc⟩
      · exact ht p hp h
      · have := congrArg Prod.fst hpc
        simp only [parent_fst] at this
        omega
    | succ k ih =>
      intro p hp hk
      rcases pl.gen p hp with h | ⟨c, hc, hcr, hpc⟩
      · exact ht p hp h
      · have h1 := congrArg Prod.fst hpc
        simp only [parent_fst] at h1
        rw [← hpc, pl.vstep c hc hcr]
        exact getNextHash_ne_zero nz _ _ (ih c hc (by omega))
  intro p hp
  exact this p.1 p hp (Nat.le_refl _)

/-! ### agreement with the true hash propagates down the paths -/

theorem comb_nz {x y : H} (hx : x ≠ zero) (hy : y ≠ zero) : comb x y = ph x y := by
  unfold comb
  rw [if_neg hx, if_neg hy]

/-- if the value of the parent of a path node is the true hash, so are the value of the node and
the sibling hash that was used -/
theorem step_down (cr : CR H) {F : Forest H} (hn : F.numLeaves ≤ 2 ^ 63) {ts : List Pos}
    (tok : TargetsOK F ts) {isT : Pos → Bool} {v w : Pos → H}
    (pl : Plan F.numLeaves (pathSet F ts) isT v w) (hnzv : ∀ p ∈ pathSet F ts, v p ≠ zero)
    {c : Pos} (hc : c ∈ pathSet F ts) (hr : isRootPos F.numLeaves c = false)
    (hpar : v (parent c) = valAt CTree.hash F (parent c)) :
    v c = valAt CTree.hash F c ∧
      (if sib c ∈ pathSet F ts then v (sib c) else w (sib c)) = valAt CTree.hash F (sib c) := by
  obtain ⟨h, t, s⟩ := pathSet_sub tok hc
  obtain ⟨_, s', hp, hs⟩ := s.parent hr
  have hX : (if sib c ∈ pathSet F ts then v (sib c) else w (sib c)) ≠ zero := by
    split
    · rename_i hm; exact hnzv _ hm
    · rename_i hm; exact pl.wnz c hc hr hm
  have hvc := hnzv c hc
  have hstep := pl.vstep c hc hr
  rw [hpar, valAt_of hp, getNextHash_comb, isLeftNiece_E (rows_le_63 hn) s.inF.valid] at hstep
  rw [valAt_of s, valAt_of hs]
  by_cases he : c.2 % 2 = 0
  · simp only [he, if_true, decide_true] at hstep
    rw [comb_nz hvc hX] at hstep
    have := cr.inj _ _ _ _ hstep
    exact ⟨this.1.symm, this.2.symm⟩
  · simp only [he, if_false, decide_false, Bool.false_eq_true] at hstep
    rw [comb_nz hX hvc] at hstep
    have := cr.inj _ _ _ _ hstep
    exact ⟨this.2.symm, this.1.symm⟩

/-- agreement at the roots of the paths gives agreement on all path nodes -/
theorem all_true (cr : CR H) {F : Forest H} (hn : F.numLeaves ≤ 2 ^ 63) {ts : List Pos}
    (tok : TargetsOK F ts) {isT : Pos → Bool} {v w : Pos → H}
    (pl : Plan F.numLeaves (pathSet F ts) isT v w) (hnzv : ∀ p ∈ pathSet F ts, v p ≠ zero)
    (hroots : ∀ p ∈ pathSet F ts, isRootPos F.numLeaves p = true → v p = valAt CTree.hash F p) :
    ∀ p ∈ pathSet F ts, v p = valAt CTree.hash F p := by
  have : ∀ k, ∀ p ∈ pathSet F ts, p.1 + k = forestRows F.numLeaves →
      v p = valAt CTree.hash F p := by
    intro k
    induction k with
    | zero =>
      intro p hp hk
      cases hr : isRootPos F.numLeaves p with
      | true => exact hroots p hp hr
      | false => have := (pl.up p hp hr).1; omega
    | succ k ih =>
      intro p hp hk
      cases hr : isRootPos F.numLeaves p with
      | true => exact hroots p hp hr
      | false =>
        have hpp := (pl.up p hp hr).2
        have := ih (parent p) hpp (by rw [parent_fst]; omega)
        exact (step_down cr hn tok pl hnzv hp hr this).1
  intro p hp
  have hle := (pl.inF p hp).1
  exact this (forestRows F.numLeaves - p.1) p hp (by omega)

/-! ### what an accepting `matchRoots` says about the root candidates of a plan -/

theorem roots_true {F : Forest H} (hn : F.numLeaves ≤ 2 ^ 63) {ts : List Pos}
    (tok : TargetsOK F ts) (v : Pos → H) {prev : Option U8} {idx : List Nat}
    (hm : matchRoots (BitVec.ofNat 64 F.numLeaves) F.roots
      (((pathSet F ts).filter (isRootPos F.numLeaves)).map v)
      (((pathSet F ts).filter (isRootPos F.numLeaves)).map (fun p => H8 p.1)) prev = .ok idx) :
    ∀ p ∈ pathSet F ts, isRootPos F.numLeaves p = true → v p = valAt CTree.hash F p := by
  intro p hp hr
  have hpr : p ∈ pathRoots F ts := List.mem_filter.2 ⟨hp, hr⟩
  have hz : (v p, H8 p.1) ∈ (((pathSet F ts).filter (isRootPos F.numLeaves)).map v).zip
      (((pathSet F ts).filter (isRootPos F.numLeaves)).map (fun p => H8 p.1)) := by
    rw [List.zip_map']
    exact List.mem_map.2 ⟨p, hpr, rfl⟩
  have h1 := matchRoots_ok _ _ _ _ hm _ hz
  simp only at h1
  have hb := root_bit hr
  have h63 : p.1 ≤ 63 := Nat.le_trans (testBit_le_forestRows hb) (rows_le_63 hn)
  have hget := treeRows_getElem (n := F.numLeaves) (by omega) h63 hb
  rw [SpecNodes.roots_eq, List.getElem?_map, hget] at h1
  simp only [Option.map_some, Option.some.injEq] at h1
  obtain ⟨t0, ht0, hv⟩ := valAt_root tok CTree.hash hpr
  rw [hv, ← h1]
  simp only [treeRoot, ht0]

/-! ### the proof-hash assignment of a list of proof hashes -/

/-- the hash at the index of `q` in the list of proof positions -/
def wOf (PP : List Pos) (all : List H) (q : Pos) : H := all.getD (PP.idxOf q) zero

theorem map_wOf : ∀ (PP : List Pos) (all : List H), PP.Nodup → PP.length = all.length →
    PP.map (wOf PP all) = all := by
  intro PP
  induction PP with
  | nil => intro all _ h; cases all with
    | nil => rfl
    | cons _ _ => simp at h
  | cons x l ih =>
    intro all hnd hlen
    cases all with
    | nil => simp at hlen
    | cons y a =>
      rw [List.nodup_cons] at hnd
      simp only [List.length_cons, Nat.add_right_cancel_iff] at hlen
      rw [List.map_cons]
      congr 1
      · simp [wOf]
      · refine Eq.trans ?_ (ih a hnd.2 hlen)
        apply List.map_congr_left
        intro q hq
        have hne : (x == q) = false := beq_false_of_ne (fun e => hnd.1 (e ▸ hq))
        simp [wOf, List.idxOf_cons, hne]

theorem wOf_mem {PP : List Pos} {all : List H} (hlen : PP.length = all.length) {q : Pos}
    (hq : q ∈ PP) : wOf PP all q ∈ all := by
  unfold wOf
  have := List.idxOf_lt_length_of_mem hq
  have h2 : PP.idxOf q < all.length := by omega
  rw [List.getD_eq_getElem?_getD, List.getElem?_eq_getElem h2]
  exact List.getElem_mem _

/-- the canonical proof positions, as the plan consumes them -/
def ppos (F : Forest H) (ts : List Pos) : List Pos :=
  ((pathSet F ts).filter (needsProof F.numLeaves (pathSet F ts))).map sib

theorem ppos_nodup (F : Forest H) (ts : List Pos) : (ppos F ts).Nodup := by
  unfold ppos
  rw [← proofPositions_eq]
  have hs : (F.proofPositions ts).Pairwise Sorted.PLt := by
    unfold Forest.proofPositions
    exact sortDedup_sorted _
  refine hs.imp ?_
  intro a b h e
  subst e
  exact Sorted.PLt.irrefl _ h

theorem sib_mem_ppos {F : Forest H} {ts : List Pos} {c : Pos} (hc : c ∈ pathSet F ts)
    (hr : isRootPos F.numLeaves c = false) (hs : sib c ∉ pathSet F ts) : sib c ∈ ppos F ts := by
  unfold ppos
  exact List.mem_map.2 ⟨c, List.mem_filter.2 ⟨hc, by simp [needsProof, hr, hs]⟩, rfl⟩

/-! ### running the loop on a list of non-zero proof hashes of the canonical length -/

/-- the valuation determined by the true target hashes and the proof hashes `all` -/
def valOf (F : Forest H) (ts : List Pos) (all : List H) : Pos → H :=
  val (valAt CTree.hash F) (wOf (ppos F ts) all) (pathSet F ts) ts

/-- the start state of the loop of `calculateHashes` -/
def init (tp : HP H) (pr : List H) : CalcSt H :=
  { toProve := tp, next := [], done := [], proof := pr, row := 0#8, roots := [], rootRows := [] }

section run
variable (cr : CR H) {F : Forest H} (hn : F.numLeaves ≤ 2 ^ 63) (hy : Hyg F)
  {L : List H} {ts : List Pos} {ps : List H} (hnd : L.Nodup) (hc : F.canon L = some (ts, ps))

theorem ps_eq (hc : F.canon L = some (ts, ps)) : ps = (ppos F ts).map (valAt CTree.hash F) :=
  canon_proof hc

theorem ps_length (hc : F.canon L = some (ts, ps)) : ps.length = (ppos F ts).length := by
  rw [ps_eq hc, List.length_map]

include cr hn hy hc in
theorem plan_of (all : List H) (hlen : all.length = ps.length) (hnz : ∀ h ∈ all, h ≠ zero) :
    Plan F.numLeaves (pathSet F ts) (isTarget ts) (valOf F ts all) (wOf (ppos F ts) all) := by
  have tok := canon_targetsOK hc
  have pl0 := spec_plan tok hn cr.nonzero hy.nz CTree.hash
    (fun a b ga gb => hash_node_comb cr.nonzero ga gb) (fun _ _ _ _ _ _ _ => rfl)
  apply val_plan hn pl0
  intro c hcP hr hs
  exact hnz _ (wOf_mem (by rw [hlen, ps_length hc]) (sib_mem_ppos hcP hr hs))

include cr hn hy hc in
/-- the values on the paths are non-zero -/
theorem valOf_nonzero (all : List H) (hlen : all.length = ps.length) (hnz : ∀ h ∈ all, h ≠ zero) :
    ∀ p ∈ pathSet F ts, valOf F ts all p ≠ zero := by
  have tok := canon_targetsOK hc
  apply plan_nonzero cr.nonzero (plan_of cr hn hy hc all hlen hnz)
  intro p _ hT
  have hpt : p ∈ ts := by simpa [isTarget] using hT
  unfold valOf
  rw [val_target _ _ _ _ hpt]
  obtain ⟨h, l, s⟩ := tok p hpt
  rw [valAt_of s]
  exact hy.nz l (s.leaves_live l (by simp [CTree.leaves]))

theorem targets_vals (hc : F.canon L = some (ts, ps)) (all : List H) :
    L = ts.map (valOf F ts all) := by
  have h1 := canon_target_vals hc CTree.hash
  have h2 : L.map (fun l => CTree.hash (.leaf l)) = L := by
    simp [CTree.hash]
  rw [← h2, ← h1]
  apply List.map_congr_left
  intro t ht
  unfold valOf
  rw [val_target _ _ _ _ ht]

include cr hn hy hnd hc in
theorem run_nz (all junk : List H) (hlen : all.length = ps.length) (hnz : ∀ h ∈ all, h ≠ zero) :
    ∃ sf : CalcSt H,
      calcLoop (BitVec.ofNat 64 F.numLeaves) (H8 F.rows)
        (calcFuel (ts.map (E F.rows)).length (H8 F.rows))
        (init (sortHP ((ts.map (E F.rows)).zip L)) (all ++ junk)) = .ok sf ∧
      sf.proof = junk ∧
      sf.roots = ((pathSet F ts).filter (isRootPos F.numLeaves)).map (valOf F ts all) ∧
      sf.rootRows = ((pathSet F ts).filter (isRootPos F.numLeaves)).map (fun p => H8 p.1) := by
  have tok := canon_targetsOK hc
  have pl := plan_of cr hn hy hc all hlen hnz
  have htr := rows_le_63 hn
  have hfuel : (pathSet F ts).length < calcFuel (ts.map (E F.rows)).length (H8 F.rows) := by
    have := length_pathSet_le F ts
    unfold calcFuel
    rw [show F.rows = forestRows F.numLeaves from rfl] at this ⊢
    rw [toNat_H8 htr, List.length_map, Nat.succ_mul]
    omega
  have htp : sortHP ((ts.map (E F.rows)).zip L) =
      ((pathSet F ts).filter (isTarget ts)).map (G F.numLeaves (valOf F ts all)) := by
    rw [targets_vals hc all, List.zip_map']
    apply eq_of_keysorted
    · apply sortBy_sorted
      rw [List.pairwise_map]
      apply List.Pairwise.imp_of_mem _ (canon_targets_nodup hc hnd)
      intro a b ha hb hab e
      obtain ⟨h1, _, s1⟩ := tok a ha
      obtain ⟨h2, _, s2⟩ := tok b hb
      exact hab (E_inj htr s1.inF.valid s2.inF.valid e)
    · rw [List.pairwise_map]
      exact (plan_keys_sorted hn pl).sublist List.filter_sublist
    · intro x
      unfold sortHP
      rw [Sorted.mem_sortBy, List.mem_map, List.mem_map]
      constructor
      · rintro ⟨t, ht, rfl⟩
        exact ⟨t, List.mem_filter.2 ⟨targets_sub_pathSet tok ht, by simp [isTarget, ht]⟩, rfl⟩
      · rintro ⟨t, ht, rfl⟩
        have := (List.mem_filter.1 ht).2
        exact ⟨t, by simpa [isTarget] using this, rfl⟩
  have hall : (ppos F ts).map (wOf (ppos F ts) all) = all :=
    map_wOf _ _ (ppos_nodup F ts) (by rw [hlen, ps_length hc])
  have li0 : LInv F.numLeaves (pathSet F ts) (isTarget ts) [] (pathSet F ts) [] [] := by
    refine ⟨rfl, by simp, ?_, fun _ _ _ h => h, by simp, by simp, by simp, by simp, by simp⟩
    intro p hp
    rcases pl.gen p hp with h | h
    · exact Or.inl h
    · exact Or.inr (Or.inr h)
  have si0 : SInv F.numLeaves (pathSet F ts) (isTarget ts) (valOf F ts all) (wOf (ppos F ts) all)
      junk [] (pathSet F ts) [] [] (init (sortHP ((ts.map (E F.rows)).zip L)) (all ++ junk)) := by
    refine ⟨htp, rfl, rfl, ?_, by simp [init], by simp [init], rfl, rfl⟩
    show all ++ junk = _
    rw [show ((pathSet F ts).filter (needsProof F.numLeaves (pathSet F ts))).map sib = ppos F ts
      from rfl, hall]
  obtain ⟨sf, nxF, dnF, hloop, _, sf'⟩ := loop_run hn pl _ [] (pathSet F ts) [] [] _ li0 si0 hfuel
  refine ⟨sf, hloop, ?_, sf'.roots, sf'.rootRows⟩
  rw [sf'.proof]
  rfl

include cr hn hy hc in
/-- if `matchRoots` accepts the root candidates of the valuation of `all`, then `all` is the
canonical proof -/
theorem match_nz (all : List H) (hlen : all.length = ps.length) (hnz : ∀ h ∈ all, h ≠ zero)
    {prev : Option U8} {idx : List Nat}
    (hm : matchRoots (BitVec.ofNat 64 F.numLeaves) F.roots
      (((pathSet F ts).filter (isRootPos F.numLeaves)).map (valOf F ts all))
      (((pathSet F ts).filter (isRootPos F.numLeaves)).map (fun p => H8 p.1)) prev = .ok idx) :
    all = ps := by
  have tok := canon_targetsOK hc
  have pl := plan_of cr hn hy hc all hlen hnz
  have hnzv := valOf_nonzero cr hn hy hc all hlen hnz
  have htrue := all_true cr hn tok pl hnzv (roots_true hn tok _ hm)
  have hall : (ppos F ts).map (wOf (ppos F ts) all) = all :=
    map_wOf _ _ (ppos_nodup F ts) (by rw [hlen, ps_length hc])
  rw [ps_eq hc, ← hall]
  apply List.map_congr_left
  intro q hq
  obtain ⟨c, hcm, rfl⟩ := List.mem_map.1 hq
  obtain ⟨hcP, hnp⟩ := List.mem_filter.1 hcm
  simp only [needsProof, Bool.and_eq_true, Bool.not_eq_eq_eq_not, Bool.not_true,
    decide_eq_false_iff_not] at hnp
  have hpar := htrue _ (pl.up c hcP hnp.1).2
  have := (step_down cr hn tok pl hnzv hcP hnp.1 hpar).2
  rw [if_neg hnp.2] at this
  exact this

end run

/-! ### what an accepting `verify` says -/

theorem verify_ok {N : U64} {roots dh : List H} {ts : List U64} {pr : List H} {idx : List Nat}
    (h : verify N roots dh ts pr = .ok idx) :
    ∃ sf : CalcSt H,
      calcLoop N (TreeRows N) (calcFuel ts.length (TreeRows N)) (init (sortHP (ts.zip dh)) pr) =
        .ok sf ∧
      matchRoots N roots sf.roots sf.rootRows none = .ok idx := by
  unfold verify at h
  split at h
  · simp at h
  · simp only [bind] at h
    rw [bind_eq_ok] at h
    obtain ⟨r, hc, hm⟩ := h
    unfold calculateHashes at hc
    simp only [bind, pure] at hc
    rw [bind_eq_ok] at hc
    obtain ⟨tp, htp, hc⟩ := hc
    rw [bind_eq_ok] at hc
    obtain ⟨sf, hloop, hc⟩ := hc
    injection hc with hc
    subst hc
    have htp' : tp = sortHP (ts.zip dh) := by
      unfold toHashAndPos at htp
      split at htp
      · injection htp with htp; exact htp.symm
      · simp at htp
    subst htp'
    exact ⟨sf, hloop, hm⟩

/-! ### Stage A -/

/-- **Stage A**: an accepted proof of the canonical length without zero hashes is the canonical
proof -/
theorem verify_proof_unique_nz (cr : CR H) {F : Forest H} (hn : F.numLeaves ≤ 2 ^ 63) (hy : Hyg F)
    {L : List H} {ts : List Pos} {ps : List H} (hnd : L.Nodup) (hc : F.canon L = some (ts, ps))
    (all : List H) (hlen : all.length = ps.length) (hnz : ∀ h ∈ all, h ≠ zero) {idx : List Nat}
    (hok : verify (BitVec.ofNat 64 F.numLeaves) F.roots L (ts.map (E F.rows)) all = .ok idx) :
    all = ps := by
  obtain ⟨sf, hloop, hm⟩ := verify_ok hok
  obtain ⟨sf', hloop', _, hroots, hrows⟩ := run_nz cr hn hy hnd hc all [] hlen hnz
  rw [treeRows_eq' hn] at hloop
  rw [List.append_nil] at hloop'
  have e : Out.ok sf = Out.ok sf' := hloop.symm.trans hloop'
  injection e with e
  subst e
  rw [hroots, hrows] at hm
  exact match_nz cr hn hy hc all hlen hnz hm

/-! ### the loop and the proof hashes it does not consume -/

def outSt : StepOut H → CalcSt H
  | .cont s => s
  | .stop s => s

def outSetProof : StepOut H → List H → StepOut H
  | .cont s, t => .cont { s with proof := t }
  | .stop s, t => .stop { s with proof := t }

/-- `sibSel` consumes at most one proof hash, a non-zero one, and does not look at the rest -/
theorem sibSel_proof {sf : Option Bool} {tp nx dn : HP H} {pr : List H}
    {r : H × HP H × HP H × HP H × List H} (h : sibSel sf tp nx dn pr = .ok r) :
    ∃ used : List H, pr = used ++ r.2.2.2.2 ∧ (∀ x ∈ used, x ≠ zero) ∧
      ∀ tail : List H, sibSel sf tp nx dn (used ++ tail) = .ok (r.1, r.2.1, r.2.2.1, r.2.2.2.1, tail) := by
  unfold sibSel at h
  split at h
  · injection h with h; subst h
    exact ⟨[], rfl, by simp, fun tail => rfl⟩
  · injection h with h; subst h
    exact ⟨[], rfl, by simp, fun tail => rfl⟩
  · cases h
  · rename_i p ps
    split at h
    · cases h
    · rename_i hp
      injection h with h; subst h
      refine ⟨[p], rfl, by simpa using hp, fun tail => ?_⟩
      simp [sibSel, hp]
  · cases h

/-- one step consumes a (possibly empty) prefix of non-zero proof hashes and does not look at
the rest -/
theorem step_proof {N : U64} {tr : U8} {s : CalcSt H} {o : StepOut H}
    (h : calcStep' N tr s = .ok o) :
    ∃ used : List H, s.proof = used ++ (outSt o).proof ∧ (∀ x ∈ used, x ≠ zero) ∧
      ∀ tail : List H, calcStep' N tr { s with proof := used ++ tail } = .ok (outSetProof o tail) := by
  unfold calcStep' at h
  split at h
  · rename_i hrow
    injection h with h; subst h
    refine ⟨[], rfl, by simp, fun tail => ?_⟩
    unfold calcStep'
    simp only [hrow, if_true]
    rfl
  · rename_i hrow
    split at h
    · rename_i hnl
      injection h with h; subst h
      refine ⟨[], rfl, by simp, fun tail => ?_⟩
      unfold calcStep'
      simp only [hrow, if_false, hnl]
      rfl
    · rename_i b hnl
      simp only at h
      rw [bind_eq_ok] at h
      obtain ⟨row, hcur, h⟩ := h
      split at h
      · rename_i hroot
        injection h with h; subst h
        refine ⟨[], rfl, by simp, fun tail => ?_⟩
        unfold calcStep'
        simp only [hrow, if_false, hnl, hcur, Out.bind, hroot, if_true]
        rfl
      · rename_i hroot
        rw [bind_eq_ok] at h
        obtain ⟨r, hsel, h⟩ := h
        injection h with h; subst h
        obtain ⟨used, hpr, hnz, hrest⟩ := sibSel_proof hsel
        refine ⟨used, hpr, hnz, fun tail => ?_⟩
        unfold calcStep'
        simp only [hrow, if_false, hnl, hcur, Out.bind, hroot, hrest tail]
        rfl

/-- **the loop and the unused proof hashes**: the proof hashes of the start state are the
consumed ones, all non-zero, followed by the ones left over; and the run does not depend on the
hashes left over -/
theorem loop_proof {N : U64} {tr : U8} : ∀ (fuel : Nat) (s sf : CalcSt H),
    calcLoop N tr fuel s = .ok sf →
    ∃ used : List H, s.proof = used ++ sf.proof ∧ (∀ x ∈ used, x ≠ zero) ∧
      ∀ tail : List H, calcLoop N tr fuel { s with proof := used ++ tail } =
        .ok { sf with proof := tail } := by
  intro fuel
  induction fuel with
  | zero => intro s sf h; simp [calcLoop] at h
  | succ fuel ih =>
    intro s sf h
    unfold calcLoop at h
    simp only [bind] at h
    rw [bind_eq_ok] at h
    obtain ⟨o, hstep, h⟩ := h
    rw [calcStep_eq] at hstep
    obtain ⟨u1, hpr1, hnz1, hrest1⟩ := step_proof hstep
    cases o with
    | stop s' =>
      simp only [pure] at h
      injection h with h; subst h
      refine ⟨u1, hpr1, hnz1, fun tail => ?_⟩
      unfold calcLoop
      simp only [bind]
      rw [calcStep_eq, hrest1 tail]
      rfl
    | cont s' =>
      simp only at h
      obtain ⟨u2, hpr2, hnz2, hrest2⟩ := ih s' sf h
      refine ⟨u1 ++ u2, ?_, ?_, fun tail => ?_⟩
      · rw [hpr1, List.append_assoc]
        congr 1
      · intro x hx
        rcases List.mem_append.1 hx with hx | hx
        · exact hnz1 x hx
        · exact hnz2 x hx
      · unfold calcLoop
        simp only [bind]
        rw [calcStep_eq, List.append_assoc, hrest1 (u2 ++ tail)]
        exact hrest2 tail

/-! ### Stages C and B -/

/-- **Stage C**: an accepted list of proof hashes starts with the canonical proof (what follows
is never looked at) -/
theorem verify_proof_unique_len (cr : CR H) {F : Forest H} (hn : F.numLeaves ≤ 2 ^ 63)
    (hy : Hyg F) {L : List H} {ts : List Pos} {ps : List H} (hnd : L.Nodup)
    (hc : F.canon L = some (ts, ps)) (all : List H) {idx : List Nat}
    (hok : verify (BitVec.ofNat 64 F.numLeaves) F.roots L (ts.map (E F.rows)) all = .ok idx) :
    ∃ junk : List H, all = ps ++ junk := by
  obtain ⟨sf, hloop, hm⟩ := verify_ok hok
  rw [treeRows_eq' hn] at hloop
  obtain ⟨used, hpr, hnzu, hrest⟩ := loop_proof _ _ _ hloop
  have hpr' : all = used ++ sf.proof := hpr
  -- the consumed prefix has the canonical length: pad it with non-zero hashes
  have hz : ph (zero : H) zero ≠ zero := cr.nonzero _ _
  have hlenu : used.length = ps.length := by
    have hX := hrest (List.replicate ps.length (ph (zero : H) zero))
    have hA : ((used ++ List.replicate ps.length (ph (zero : H) zero)).take ps.length).length =
        ps.length := by
      rw [List.length_take, List.length_append, List.length_replicate]
      omega
    have hAnz : ∀ h ∈ (used ++ List.replicate ps.length (ph (zero : H) zero)).take ps.length,
        h ≠ zero := by
      intro h hh
      rcases List.mem_append.1 (List.mem_of_mem_take hh) with h1 | h1
      · exact hnzu h h1
      · rw [(List.mem_replicate.1 h1).2]; exact hz
    obtain ⟨sf', hloop', hproof', _, _⟩ := run_nz cr hn hy hnd hc _
      ((used ++ List.replicate ps.length (ph (zero : H) zero)).drop ps.length) hA hAnz
    rw [List.take_append_drop] at hloop'
    have e : Out.ok ({ sf with proof := List.replicate ps.length (ph (zero : H) zero) } : CalcSt H) =
        Out.ok sf' := hX.symm.trans hloop'
    injection e with e
    rw [← e] at hproof'
    have := congrArg List.length hproof'
    simp only [List.length_replicate, List.length_drop, List.length_append] at this
    omega
  -- hence the run is the run of the plan of `used`
  obtain ⟨sf', hloop', _, hroots, hrows⟩ := run_nz cr hn hy hnd hc used sf.proof hlenu hnzu
  rw [← hpr'] at hloop'
  have e : Out.ok sf = Out.ok sf' := hloop.symm.trans hloop'
  injection e with e
  subst e
  rw [hroots, hrows] at hm
  have := match_nz cr hn hy hc used hlenu hnzu hm
  exact ⟨sf.proof, by rw [hpr', this]⟩

/-- **Stage B, the main theorem**: if `Verify` accepts the true leaf hashes `L` at their true
positions together with some proof-hash list `all` of the canonical length, then `all` is the
canonical proof.  (Contrapositive: a proof hash that is not the true one cannot be accepted.) -/
theorem verify_proof_unique (cr : CR H) {F : Forest H} (hn : F.numLeaves ≤ 2 ^ 63) (hy : Hyg F)
    {L : List H} {ts : List Pos} {ps : List H} (hnd : L.Nodup) (hc : F.canon L = some (ts, ps))
    (all : List H) (hlen : all.length = ps.length) {idx : List Nat}
    (hok : verify (BitVec.ofNat 64 F.numLeaves) F.roots L (ts.map (E F.rows)) all = .ok idx) :
    all = ps := by
  obtain ⟨junk, hj⟩ := verify_proof_unique_len cr hn hy hnd hc all hok
  have : junk = [] := by
    have := congrArg List.length hj
    rw [List.length_append, hlen] at this
    exact List.eq_nil_of_length_eq_zero (by omega)
  rw [hj, this, List.append_nil]

/-- a proof with a wrong hash (or a hash missing) is not accepted -/
theorem verify_rejects (cr : CR H) {F : Forest H} (hn : F.numLeaves ≤ 2 ^ 63) (hy : Hyg F)
    {L : List H} {ts : List Pos} {ps : List H} (hnd : L.Nodup) (hc : F.canon L = some (ts, ps))
    (all : List H) (hne : ¬ ∃ junk, all = ps ++ junk) :
    ∀ idx, verify (BitVec.ofNat 64 F.numLeaves) F.roots L (ts.map (E F.rows)) all ≠ .ok idx :=
  fun _ hok => hne (verify_proof_unique_len cr hn hy hnd hc all hok)

/-- position-wise form: the accepted proof hashes are the hashes of the nodes at the canonical
proof positions -/
theorem verify_proof_hashes (cr : CR H) {F : Forest H} (hn : F.numLeaves ≤ 2 ^ 63) (hy : Hyg F)
    {L : List H} {ts : List Pos} {ps : List H} (hnd : L.Nodup) (hc : F.canon L = some (ts, ps))
    (all : List H) (hlen : all.length = ps.length) {idx : List Nat}
    (hok : verify (BitVec.ofNat 64 F.numLeaves) F.roots L (ts.map (E F.rows)) all = .ok idx) :
    all = (F.proofPositions ts).map (fun p => (F.nodeAt p).getD zero) := by
  rw [verify_proof_unique cr hn hy hnd hc all hlen hok]
  exact (canon_spec hc).2.2.1

end

/-! ## non-vacuity

`F5` of `Props/C09.lean` (five live leaves, term-algebra hash `T`, `crT : CR T`): the canonical
proof of leaves 1 and 3 is `[leaf 0, leaf 2]`. -/

namespace Example
open Props.C09.Example MapSInv.Example

theorem canon13 : F5.canon [T.leaf 1, .leaf 3] = some ([(0, 1), (0, 3)], [T.leaf 0, .leaf 2]) := by
  decide +kernel

/-- the hypotheses of `verify_proof_unique` hold on `F5`: the canonical proof is accepted … -/
theorem accept13 : verify (BitVec.ofNat 64 F5.numLeaves) F5.roots [T.leaf 1, .leaf 3]
    (([(0, 1), (0, 3)] : List Pos).map (E F5.rows)) [T.leaf 0, .leaf 2] = .ok [0] := by
  decide +kernel

/-- … and the theorem applied to that run returns the canonical proof -/
example : [T.leaf 0, .leaf 2] = [T.leaf 0, .leaf 2] :=
  verify_proof_unique crT (by decide) F5_hyg (by decide) canon13 [T.leaf 0, .leaf 2] rfl accept13

/-- `verify_proof_unique` on `F5`: whatever two proof hashes are accepted with leaves 1 and 3, they
are leaves 0 and 2 -/
example (all : List T) (hlen : all.length = 2) (idx : List Nat)
    (hok : verify (BitVec.ofNat 64 F5.numLeaves) F5.roots [T.leaf 1, .leaf 3]
      (([(0, 1), (0, 3)] : List Pos).map (E F5.rows)) all = .ok idx) :
    all = [T.leaf 0, .leaf 2] :=
  verify_proof_unique crT (by decide) F5_hyg (by decide) canon13 all hlen hok

/-- `verify_proof_unique_len` with a surplus hash: the run is accepted and the theorem splits off
the canonical proof -/
example : ∃ junk, [T.leaf 0, .leaf 2, .leaf 77] = [T.leaf 0, .leaf 2] ++ junk :=
  verify_proof_unique_len crT (by decide) F5_hyg (by decide) canon13 [T.leaf 0, .leaf 2, .leaf 77]
    (idx := [0]) (by decide +kernel)

/-- in accordance with the theorem: a wrong second proof hash, a zero proof hash and a missing
proof hash are rejected by the model -/
example :
    verify (BitVec.ofNat 64 F5.numLeaves) F5.roots [T.leaf 1, .leaf 3]
      (([(0, 1), (0, 3)] : List Pos).map (E F5.rows)) [T.leaf 0, .leaf 7] = .err ∧
    verify (BitVec.ofNat 64 F5.numLeaves) F5.roots [T.leaf 1, .leaf 3]
      (([(0, 1), (0, 3)] : List Pos).map (E F5.rows)) [T.z, .leaf 2] = .err ∧
    verify (BitVec.ofNat 64 F5.numLeaves) F5.roots [T.leaf 1, .leaf 3]
      (([(0, 1), (0, 3)] : List Pos).map (E F5.rows)) [T.leaf 0] = .err := by
  decide +kernel

/-- `verify_rejects` on `F5` -/
example : ∀ idx, verify (BitVec.ofNat 64 F5.numLeaves) F5.roots [T.leaf 1, .leaf 3]
    (([(0, 1), (0, 3)] : List Pos).map (E F5.rows)) [T.leaf 0, .leaf 7] ≠ .ok idx :=
  verify_rejects crT (by decide) F5_hyg (by decide) canon13 _ (by
    rintro ⟨junk, h⟩
    simp at h)

end Example
end UtreexoVerif.Proofs.VerifyUnique

