/-
  `Prune` preserves the STRONG storage invariant: on top of `MapPrune.inv_pruneGo` (which gives
  `Inv`) the remember flags of the stored roots stay consistent with the cache.
-/
import UtreexoVerif.Proofs.MapSInv

namespace UtreexoVerif.Proofs.MapPruneS
open UtreexoVerif Model Spec Spec.Forest Proofs MapAL MapInv MapPrune MapSInv PForestSpec Hasher
set_option linter.unusedSectionVars false

variable {H : Type} [DecidableEq H] [Hasher H]

/-- the nodes after pruning one hash: unchanged entries, except that the pruned leaf (if it
survives) has lost its flag -/
theorem pruneOne_nodes (m : MapPollard H) (x : H) :
    (MapPollard.pruneOne x m).1.totalRows = m.totalRows ∧
    ∀ q l, (MapPollard.pruneOne x m).1.getNode q = some l →
      m.getNode q = some l ∨ (m.getCached x = some q ∧ l.remember = false) := by
  unfold MapPollard.pruneOne
  cases hc : m.getCached x with
  | none => exact ⟨rfl, fun q l h => Or.inl h⟩
  | some p =>
    simp only
    cases hg : (m.delCached x).getNode p with
    | none => exact ⟨rfl, fun q l h => Or.inl h⟩
    | some leaf =>
      simp only
      constructor
      · exact (pruneUp_frame _ _ _).2.2.1
      · intro q l h
        have := pruneUp_sub _ _ _ q l h
        rw [getNode_putNode] at this
        split at this
        · rename_i e
          simp only [Option.some.injEq] at this
          right
          exact ⟨by rw [e], by rw [← this]⟩
        · left; exact this

theorem rootFlags_pruneOne {m m' : MapPollard H} {F : Forest H} (inv : Inv m F) (hrf : RootFlags m F) (x : H)
    (he : MapPollard.pruneOne x m = (m', .ok ()))
    (hc : ∀ y, m'.getCached y = if y = x then none else m.getCached y) : RootFlags m' F := by
  obtain ⟨hT, hn⟩ := pruneOne_nodes m x
  rw [he] at hT hn
  simp only at hT hn
  intro q l hv hroot hg hnz
  rw [hT] at hv hg ⊢
  rcases hn _ l hg with h0 | ⟨h1, h2⟩
  · rw [hrf q l hv hroot h0 hnz]
    constructor
    · rintro ⟨y, hy⟩
      refine ⟨y, ?_⟩
      rw [hc]
      split
      · rename_i e
        -- `y = x` would mean the pruned leaf sits at `q`; then it is this node, whose flag is … still the
        -- old one: but then `x` is cached at `q` in `m`, and after pruning the entry at `q` has no flag;
        -- the unchanged entry `l` is the old one only if the leaf was not re-put — impossible
        exfalso
        subst e
        -- the pruned leaf is stored at its cached position, so `pruneOne` re-puts it with flag false
        obtain ⟨t, hpt, hp⟩ := inv.cached_pos y _ hy
        have hl : l.remember = true := (hrf q l hv hroot h0 hnz).2 ⟨y, hy⟩
        -- evaluate `pruneOne` at `q`
        have hmm : (MapPollard.pruneOne y m).1.getNode (encP m.totalRows.toNat q) = some l := by rw [he]; exact hg
        unfold MapPollard.pruneOne at hmm
        rw [hy] at hmm
        simp only at hmm
        have hgq : (m.delCached y).getNode (encP m.totalRows.toNat q) = some l := h0
        rw [hgq] at hmm
        simp only at hmm
        have := pruneUp_sub _ _ _ _ l hmm
        rw [getNode_putNode, if_pos rfl] at this
        simp only [Option.some.injEq] at this
        rw [← this] at hl
        cases hl
      · exact hy
    · rintro ⟨y, hy⟩
      rw [hc] at hy
      split at hy
      · cases hy
      · exact ⟨y, hy⟩
  · constructor
    · intro h; rw [h2] at h; cases h
    · rintro ⟨y, hy⟩
      exfalso
      rw [hc] at hy
      split at hy
      · cases hy
      · rename_i hne
        obtain ⟨t1, hp1, he1⟩ := inv.cached_pos y _ hy
        obtain ⟨t2, hp2, he2⟩ := inv.cached_pos x _ h1
        have hv1 : Valid m.totalRows.toNat t1 := posOf_valid inv.rows_le hp1
        have hv2 : Valid m.totalRows.toNat t2 := posOf_valid inv.rows_le hp2
        have : t1 = t2 := encP_inj' inv.total_le hv1 hv2 (he1.symm.trans he2)
        subst this
        exact hne (posOf_inj hp1 hp2)

theorem rootFlags_pruneGo : ∀ (hs : List H) {m m' : MapPollard H} {F : Forest H}, Inv m F → m.full = false →
    RootFlags m F → MapPollard.prune.go hs m = (m', .ok ()) → RootFlags m' F
  | [], m, m', F, _, _, hrf, he => by
    have : m' = m := by
      unfold MapPollard.prune.go at he
      exact (Prod.mk.inj he).1.symm
    rw [this]; exact hrf
  | h :: hs, m, m', F, inv, hfull, hrf, he => by
    obtain ⟨m1, e1, inv1, hf1, hc1, _⟩ := inv_pruneOne inv hfull h
    have hrf1 := rootFlags_pruneOne inv hrf h e1 hc1
    unfold MapPollard.prune.go at he
    rw [e1] at he
    exact rootFlags_pruneGo hs inv1 hf1 hrf1 he

/-- **`Prune` preserves the strong invariant**; exactly the named leaves leave the cache -/
theorem sinv_prune (nz : NZ H) {m : MapPollard H} {F : Forest H} (s : SInv m F) (hashes : List H) :
    ∃ m', MapPollard.prune hashes m = (m', .ok ()) ∧ SInv m' F ∧
      (∀ y, m'.hasCached y = true ↔ (m.hasCached y = true ∧ y ∉ hashes)) := by
  have inv := s.inv nz
  obtain ⟨m', e, inv', hf', hc', _⟩ := inv_pruneGo hashes inv s.full
  have hp : MapPollard.prune hashes m = (m', .ok ()) := by
    unfold MapPollard.prune
    rw [s.full]
    exact e
  refine ⟨m', hp, SInv.of_inv nz inv' hf' s.hyg (rootFlags_pruneGo hashes inv s.full (s.rootFlags nz) e), ?_⟩
  intro y
  rw [hasCached_eq, hasCached_eq, hc']
  by_cases hy : y ∈ hashes
  · simp [hy]
  · simp [hy]

end UtreexoVerif.Proofs.MapPruneS
