/-
  Specification-level undo (property C06), helper lemmas.

  * `kill`/`prune`: deleting leaves on slots = pruning the collapsed trees (`collapse_kill`);
  * `Equiv`: observational equivalence of slot forests (same leaf count, same collapsed
    trees); every observable is a function of the equivalence class, and `modify`/`run`
    respect it (`Equiv.modify`, `Equiv.run`);
  * the tree-level uniqueness lemmas (`ctree_complete`, `ctree_unique`);
  * un-adding on trees (`unadd_trees`, `unadd_many`).
-/
import UtreexoVerif.Proofs.SpecNodes
import UtreexoVerif.Proofs.SpecForest
import UtreexoVerif.Proofs.NodesUnique
set_option linter.unusedSectionVars false
set_option linter.unusedVariables false

namespace UtreexoVerif.Spec
open Hasher Proofs.SpecNodes

variable {H : Type} [DecidableEq H] [Hasher H]

/-! ### 1. deleting leaves = pruning collapsed trees -/

/-- slot content after deleting the leaves in `R` -/
def kill (R : List H) : Option H → Option H
  | some h => if h ∈ R then none else some h
  | none => none

/-- collapsed tree after deleting the leaves in `R` -/
def prune (R : List H) : CTree H → Option (CTree H)
  | .leaf h => if h ∈ R then none else some (.leaf h)
  | .node a b => join (prune R a) (prune R b)

def pruneO (R : List H) (o : Option (CTree H)) : Option (CTree H) := o.bind (prune R)

theorem delLeaves_slots (F : Forest H) (R : List H) :
    (F.delLeaves R).slots = F.slots.map (kill R) := by
  unfold Forest.delLeaves
  apply List.map_congr_left
  intro a _
  cases a <;> rfl

theorem pruneO_join (R : List H) (a b : Option (CTree H)) :
    pruneO R (join a b) = join (pruneO R a) (pruneO R b) := by
  cases a <;> cases b <;> simp [pruneO, join, prune]
  · rename_i x; cases prune R x <;> rfl
  · rename_i x; cases prune R x <;> rfl

theorem collapse_kill (R : List H) : ∀ (k : Nat) (l : List (Option H)),
    collapse k (l.map (kill R)) = pruneO R (collapse k l) := by
  intro k
  induction k with
  | zero =>
    intro l
    match l with
    | [] => simp [collapse, pruneO]
    | none :: _ => simp [collapse, pruneO, kill]
    | some h :: _ =>
      by_cases hh : h ∈ R <;> simp [collapse, pruneO, kill, prune, hh]
  | succ k ih =>
    intro l
    simp only [collapse]
    rw [← List.map_take, ← List.map_drop, ih, ih, pruneO_join]

theorem prune_eq_none_iff (R : List H) : ∀ t : CTree H,
    prune R t = none ↔ ∀ x ∈ t.leaves, x ∈ R := by
  intro t
  induction t with
  | leaf h =>
    by_cases hh : h ∈ R <;> simp [prune, CTree.leaves, hh]
  | node a b iha ihb =>
    simp only [prune, CTree.leaves, List.mem_append]
    constructor
    · intro hj x hx
      cases ha : prune R a <;> cases hb : prune R b <;> simp [ha, hb, join] at hj
      rcases hx with hx | hx
      · exact iha.1 ha x hx
      · exact ihb.1 hb x hx
    · intro hall
      rw [iha.2 (fun x hx => hall x (Or.inl hx)), ihb.2 (fun x hx => hall x (Or.inr hx))]
      rfl

/-- a tree without leaves of `R` is unchanged by pruning -/
theorem prune_eq_self (R : List H) : ∀ t : CTree H,
    (∀ x ∈ t.leaves, x ∉ R) → prune R t = some t := by
  intro t
  induction t with
  | leaf h =>
    intro hx
    have : h ∉ R := hx h (by simp [CTree.leaves])
    simp [prune, this]
  | node a b iha ihb =>
    intro hx
    simp only [prune]
    rw [iha (fun x h => hx x (by simp [CTree.leaves, h])),
      ihb (fun x h => hx x (by simp [CTree.leaves, h]))]
    rfl

/-! ### 2. observational equivalence -/

/-- Two slot forests are observationally equivalent when they have the same leaf count and
the same collapsed trees.  (The slot list carries hidden information — where exactly the dead
slots of a collapsed subtree lie — that no observable depends on.) -/
structure Equiv (F G : Forest H) : Prop where
  numLeaves : F.numLeaves = G.numLeaves
  trees : F.trees = G.trees

namespace Equiv

theorem refl (F : Forest H) : Equiv F F := ⟨rfl, rfl⟩
theorem symm {F G : Forest H} (e : Equiv F G) : Equiv G F := ⟨e.1.symm, e.2.symm⟩
theorem trans {F G K : Forest H} (e : Equiv F G) (e' : Equiv G K) : Equiv F K :=
  ⟨e.1.trans e'.1, e.2.trans e'.2⟩
theorem of_eq {F G : Forest H} (e : F = G) : Equiv F G := e ▸ refl F

theorem roots {F G : Forest H} (e : Equiv F G) : F.roots = G.roots := by
  unfold Forest.roots; rw [e.trees]

theorem rows {F G : Forest H} (e : Equiv F G) : F.rows = G.rows := by
  unfold Forest.rows; rw [e.numLeaves]

theorem nodes {F G : Forest H} (e : Equiv F G) : F.nodes = G.nodes := by
  unfold Forest.nodes; rw [e.trees, e.numLeaves]

theorem nodeAt {F G : Forest H} (e : Equiv F G) (p : Pos) : F.nodeAt p = G.nodeAt p := by
  unfold Forest.nodeAt; rw [e.nodes]

theorem posOf {F G : Forest H} (e : Equiv F G) (h : H) : F.posOf h = G.posOf h := by
  unfold Forest.posOf; rw [e.nodes]

theorem proofPositions {F G : Forest H} (e : Equiv F G) (ts : List Pos) :
    F.proofPositions ts = G.proofPositions ts := by
  unfold Forest.proofPositions; rw [e.numLeaves, e.rows]

theorem computable {F G : Forest H} (e : Equiv F G) (ts : List Pos) :
    F.computable ts = G.computable ts := by
  unfold Forest.computable; rw [e.numLeaves, e.rows]

theorem canon {F G : Forest H} (e : Equiv F G) (ls : List H) : F.canon ls = G.canon ls := by
  unfold Forest.canon
  have h1 : F.posOf = G.posOf := funext e.posOf
  have h2 : F.nodeAt = G.nodeAt := funext e.nodeAt
  have h3 : F.proofPositions = G.proofPositions := funext e.proofPositions
  rw [h1, h2, h3]

/-- below `2^64` leaves the live leaves (in slot order) are an observable too -/
theorem liveLeaves {F G : Forest H} (e : Equiv F G) (hn : F.numLeaves < 2 ^ 64) :
    F.liveLeaves = G.liveLeaves := by
  rw [← trees_leaves F hn, ← trees_leaves G (e.numLeaves ▸ hn), e.trees]

end Equiv

/-! ### 3. `delLeaves` on trees -/

theorem numLeaves_delLeaves (F : Forest H) (R : List H) :
    (F.delLeaves R).numLeaves = F.numLeaves := by
  unfold Forest.numLeaves
  rw [delLeaves_slots, List.length_map]

theorem trees_delLeaves (F : Forest H) (R : List H) :
    (F.delLeaves R).trees = F.trees.map (fun p => (p.1, pruneO R p.2)) := by
  unfold Forest.trees
  rw [numLeaves_delLeaves, delLeaves_slots, List.map_map]
  apply List.map_congr_left
  intro h _
  simp only [Function.comp]
  rw [← List.map_drop, ← List.map_take, collapse_kill]

theorem Equiv.delLeaves {F G : Forest H} (e : Equiv F G) (R : List H) :
    Equiv (F.delLeaves R) (G.delLeaves R) :=
  ⟨by rw [numLeaves_delLeaves, numLeaves_delLeaves, e.numLeaves],
   by rw [trees_delLeaves, trees_delLeaves, e.trees]⟩

/-! ### 4. `add` on trees -/

theorem trailing_le_of_lt {t c n : Nat} (hn : n = 2 ^ (t + 1) * c + (2 ^ t - 1))
    (hlt : n < 2 ^ 64) : t ≤ 64 := by
  apply Classical.byContradiction
  intro h
  have : 2 ^ 65 ≤ 2 ^ t := Nat.pow_le_pow_right (by decide) (by omega)
  omega

theorem numLeaves_add (F : Forest H) (x : H) : (F.add x).numLeaves = F.numLeaves + 1 := by
  simp [Forest.add, Forest.numLeaves]

/-- the trees after one addition are a function of the trees before -/
theorem Equiv.add {F G : Forest H} (e : Equiv F G) (hn : F.numLeaves < 2 ^ 64) (x : H) :
    Equiv (F.add x) (G.add x) := by
  refine ⟨by rw [numLeaves_add, numLeaves_add, e.numLeaves], ?_⟩
  obtain ⟨t, c, hF⟩ := exists_trailing_ones F.numLeaves
  have ht := trailing_le_of_lt hF hn
  have hG : G.numLeaves = 2 ^ (t + 1) * c + (2 ^ t - 1) := e.numLeaves ▸ hF
  have d1 := trees_decomp F hF (by omega)
  have d2 := trees_decomp G hG (by omega)
  have hsplit := e.trees
  rw [d1, d2] at hsplit
  obtain ⟨h1, h2⟩ := List.append_inj' hsplit (by rw [onesTrees_length, onesTrees_length])
  rw [trees_add_decomp F x hF (by omega), trees_add_decomp G x hG (by omega), h1, h2]

theorem addMany_cons (F : Forest H) (x : H) (xs : List H) :
    F.addMany (x :: xs) = (F.add x).addMany xs := by
  simp [Forest.addMany, Forest.add]

theorem addMany_nil (F : Forest H) : F.addMany [] = F := by
  simp [Forest.addMany]

theorem numLeaves_addMany' (F : Forest H) (xs : List H) :
    (F.addMany xs).numLeaves = F.numLeaves + xs.length := by
  simp [Forest.addMany, Forest.numLeaves]

theorem Equiv.addMany {F G : Forest H} (e : Equiv F G) (xs : List H)
    (hn : F.numLeaves + xs.length ≤ 2 ^ 64) : Equiv (F.addMany xs) (G.addMany xs) := by
  induction xs generalizing F G with
  | nil => rw [addMany_nil, addMany_nil]; exact e
  | cons x xs ih =>
    simp only [List.length_cons] at hn
    rw [addMany_cons, addMany_cons]
    exact ih (e.add (by omega) x) (by rw [numLeaves_add]; omega)

theorem numLeaves_modify (F : Forest H) (dels adds : List H) :
    (F.modify dels adds).numLeaves = F.numLeaves + adds.length := by
  unfold Forest.modify
  rw [numLeaves_addMany', numLeaves_delLeaves]

/-- **`modify` respects observational equivalence** -/
theorem Equiv.modify {F G : Forest H} (e : Equiv F G) (dels adds : List H)
    (hn : F.numLeaves + adds.length ≤ 2 ^ 64) :
    Equiv (F.modify dels adds) (G.modify dels adds) := by
  unfold Forest.modify
  exact (e.delLeaves dels).addMany adds (by rw [numLeaves_delLeaves]; exact hn)

/-- **histories respect observational equivalence** -/
theorem Equiv.run {F G : Forest H} (e : Equiv F G) (hist : List (Forest.Block H))
    (hn : F.numLeaves + (Forest.allAdds hist).length ≤ 2 ^ 64) :
    Equiv (Forest.run F hist) (Forest.run G hist) := by
  induction hist generalizing F G with
  | nil => exact e
  | cons b rest ih =>
    simp only [Forest.allAdds_cons, List.length_append] at hn
    simp only [Forest.run]
    exact ih (e.modify b.1 b.2 (by omega)) (by rw [numLeaves_modify]; omega)

/-! ### 5. tree-level uniqueness -/

theorem leaf_mem_nodes : ∀ (t : CTree H) (r o : Nat) (x : H), x ∈ t.leaves →
    ∃ p, (p, x, true) ∈ t.nodes r o := by
  intro t
  induction t with
  | leaf h =>
    intro r o x hx
    simp only [CTree.leaves, List.mem_singleton] at hx
    subst hx
    exact ⟨(r, o), by simp [CTree.nodes]⟩
  | node a b iha ihb =>
    intro r o x hx
    simp only [CTree.leaves, List.mem_append] at hx
    rcases hx with hx | hx
    · obtain ⟨p, hp⟩ := iha (r - 1) (2 * o) x hx
      exact ⟨p, by simp [CTree.nodes, hp]⟩
    · obtain ⟨p, hp⟩ := ihb (r - 1) (2 * o + 1) x hx
      exact ⟨p, by simp [CTree.nodes, hp]⟩

/-- the only node at the root position is the root -/
theorem root_of_pos (t : CTree H) (r o : Nat) (hd : depth t ≤ r) (e : Pos × H × Bool)
    (he : e ∈ t.nodes r o) (hp : e.1 = (r, o)) : e = ((r, o), t.hash, isLeaf t) :=
  nodes_unique t r o hd e he _ (nodes_head t r o) hp

theorem under_children_disjoint {r o : Nat} {p : Pos} (h1 : Under r (2 * o) p)
    (h2 : Under r (2 * o + 1) p) : False := by
  have := h1.2; have := h2.2; omega

/-- in a tree `node A B` placed at `(r, o)`, an entry under the left child position belongs
to `A` -/
theorem mem_left_of_under {A B : CTree H} {r o : Nat} (hd : depth (CTree.node A B) ≤ r)
    {e : Pos × H × Bool} (he : e ∈ (CTree.node A B).nodes r o)
    (hu : Under (r - 1) (2 * o) e.1) : e ∈ A.nodes (r - 1) (2 * o) := by
  simp only [depth] at hd
  simp only [CTree.nodes, List.mem_cons, List.mem_append] at he
  rcases he with rfl | he | he
  · have := hu.1; simp only at this; omega
  · exact he
  · exact (under_children_disjoint hu (nodes_under B _ _ (by omega) e he)).elim

theorem mem_right_of_under {A B : CTree H} {r o : Nat} (hd : depth (CTree.node A B) ≤ r)
    {e : Pos × H × Bool} (he : e ∈ (CTree.node A B).nodes r o)
    (hu : Under (r - 1) (2 * o + 1) e.1) : e ∈ B.nodes (r - 1) (2 * o + 1) := by
  simp only [depth] at hd
  simp only [CTree.nodes, List.mem_cons, List.mem_append] at he
  rcases he with rfl | he | he
  · have := hu.1; simp only at this; omega
  · exact (under_children_disjoint (nodes_under A _ _ (by omega) e he) hu).elim
  · exact he

theorem mem_nodes_left {A B : CTree H} {r o : Nat} {e : Pos × H × Bool}
    (he : e ∈ A.nodes (r - 1) (2 * o)) : e ∈ (CTree.node A B).nodes r o := by
  simp [CTree.nodes, he]

theorem mem_nodes_right {A B : CTree H} {r o : Nat} {e : Pos × H × Bool}
    (he : e ∈ B.nodes (r - 1) (2 * o + 1)) : e ∈ (CTree.node A B).nodes r o := by
  simp [CTree.nodes, he]

/-- **completeness of the leaf paths**: if every leaf of `T₁` sits in `T₂` at the same
position, the two trees are equal (the leaf paths of a collapsed tree form a complete prefix
code, so `T₂` has no room for anything else) -/
theorem ctree_complete : ∀ (T₁ T₂ : CTree H) (r o : Nat), depth T₁ ≤ r → depth T₂ ≤ r →
    (∀ e ∈ T₁.nodes r o, e.2.2 = true → e ∈ T₂.nodes r o) → T₁ = T₂ := by
  intro T₁
  induction T₁ with
  | leaf a =>
    intro T₂ r o _ hd2 h
    have := h ((r, o), a, true) (by simp [CTree.nodes]) rfl
    have := root_of_pos T₂ r o hd2 _ this rfl
    cases T₂ with
    | leaf b => simp [CTree.hash, isLeaf] at this; rw [this]
    | node _ _ => simp [isLeaf] at this
  | node A B ihA ihB =>
    intro T₂ r o hd1 hd2 h
    have hd1' := hd1
    simp only [depth] at hd1'
    cases T₂ with
    | leaf b =>
      exfalso
      obtain ⟨x, hx⟩ := List.exists_mem_of_ne_nil _ (CTree.leaves_ne_nil A)
      obtain ⟨p, hp⟩ := leaf_mem_nodes A (r - 1) (2 * o) x hx
      have h1 := h _ (mem_nodes_left (B := B) hp) rfl
      have h2 := (nodes_under A _ _ (by omega) _ hp).1
      simp only [CTree.nodes, List.mem_singleton, Prod.mk.injEq] at h1
      simp only at h2
      have := h1.1
      subst this
      simp only at h2
      omega
    | node A' B' =>
      have hd2' := hd2
      simp only [depth] at hd2'
      have eA : A = A' := by
        apply ihA A' (r - 1) (2 * o) (by omega) (by omega)
        intro e he hl
        exact mem_left_of_under hd2 (h e (mem_nodes_left he) hl) (nodes_under A _ _ (by omega) e he)
      have eB : B = B' := by
        apply ihB B' (r - 1) (2 * o + 1) (by omega) (by omega)
        intro e he hl
        exact mem_right_of_under hd2 (h e (mem_nodes_right he) hl)
          (nodes_under B _ _ (by omega) e he)
      rw [eA, eB]

theorem join_inj_pat {a b a' b' : Option (CTree H)} (ha : a = none ↔ a' = none)
    (hb : b = none ↔ b' = none) (h : join a b = join a' b') : a = a' ∧ b = b' := by
  cases a <;> cases b <;> cases a' <;> cases b' <;> simp_all [join]

/-- **uniqueness of the revived tree**: two collapsed trees (placed at the same root
position) that agree after pruning the leaves of `R`, and in which every leaf of `R` sits at
the same position, are equal. -/
theorem ctree_unique (R : List H) : ∀ (T₁ T₂ : CTree H) (r o : Nat),
    depth T₁ ≤ r → depth T₂ ≤ r →
    (∀ x ∈ R, ∀ p, (p, x, true) ∈ T₁.nodes r o ↔ (p, x, true) ∈ T₂.nodes r o) →
    prune R T₁ = prune R T₂ → T₁ = T₂ := by
  intro T₁
  induction T₁ with
  | leaf a =>
    intro T₂ r o _ hd2 hpos hpr
    by_cases ha : a ∈ R
    · have := (hpos a ha (r, o)).1 (by simp [CTree.nodes])
      have := root_of_pos T₂ r o hd2 _ this rfl
      cases T₂ with
      | leaf b => simp [CTree.hash, isLeaf] at this; rw [this]
      | node _ _ => simp [isLeaf] at this
    · have hno : ∀ x ∈ T₂.leaves, x ∉ R := by
        intro x hx hxR
        obtain ⟨p, hp⟩ := leaf_mem_nodes T₂ r o x hx
        have := (hpos x hxR p).2 hp
        simp only [CTree.nodes, List.mem_singleton, Prod.mk.injEq] at this
        exact ha (this.2.1 ▸ hxR)
      rw [prune_eq_self R T₂ hno] at hpr
      simp only [prune, ha, if_false, Option.some.injEq] at hpr
      exact hpr
  | node A B ihA ihB =>
    intro T₂ r o hd1 hd2 hpos hpr
    have hd1' := hd1
    simp only [depth] at hd1'
    cases T₂ with
    | leaf b =>
      exfalso
      by_cases hb : b ∈ R
      · have := (hpos b hb (r, o)).2 (by simp [CTree.nodes])
        have := root_of_pos _ r o hd1 _ this rfl
        simp [isLeaf] at this
      · have hno : ∀ x ∈ (CTree.node A B).leaves, x ∉ R := by
          intro x hx hxR
          obtain ⟨p, hp⟩ := leaf_mem_nodes (CTree.node A B) r o x hx
          have := (hpos x hxR p).1 hp
          simp only [CTree.nodes, List.mem_singleton, Prod.mk.injEq] at this
          exact hb (this.2.1 ▸ hxR)
        rw [prune_eq_self R _ hno] at hpr
        simp [prune, hb] at hpr
    | node A' B' =>
      have hd2' := hd2
      simp only [depth] at hd2'
      have hposA : ∀ x ∈ R, ∀ p, (p, x, true) ∈ A.nodes (r - 1) (2 * o) ↔
          (p, x, true) ∈ A'.nodes (r - 1) (2 * o) := by
        intro x hx p
        constructor
        · intro he
          exact mem_left_of_under hd2 ((hpos x hx p).1 (mem_nodes_left he))
            (nodes_under A _ _ (by omega) _ he)
        · intro he
          exact mem_left_of_under hd1 ((hpos x hx p).2 (mem_nodes_left he))
            (nodes_under A' _ _ (by omega) _ he)
      have hposB : ∀ x ∈ R, ∀ p, (p, x, true) ∈ B.nodes (r - 1) (2 * o + 1) ↔
          (p, x, true) ∈ B'.nodes (r - 1) (2 * o + 1) := by
        intro x hx p
        constructor
        · intro he
          exact mem_right_of_under hd2 ((hpos x hx p).1 (mem_nodes_right he))
            (nodes_under B _ _ (by omega) _ he)
        · intro he
          exact mem_right_of_under hd1 ((hpos x hx p).2 (mem_nodes_right he))
            (nodes_under B' _ _ (by omega) _ he)
      -- a subtree that is pruned away completely is pinned down by its leaf positions
      have pin : ∀ (X Y : CTree H) (c : Nat), depth X ≤ r - 1 → depth Y ≤ r - 1 →
          (∀ x ∈ R, ∀ p, (p, x, true) ∈ X.nodes (r - 1) c ↔ (p, x, true) ∈ Y.nodes (r - 1) c) →
          prune R X = none → prune R Y = none := by
        intro X Y c hX hY hp hn
        have hall := (prune_eq_none_iff R X).1 hn
        have : X = Y := by
          apply ctree_complete X Y (r - 1) c hX hY
          intro e he hl
          obtain ⟨p, x, fl⟩ := e
          simp only at hl
          subst hl
          have hx := nodes_leaf_mem X _ _ _ he rfl
          exact (hp x (hall x hx) p).1 he
        rw [← this]; exact hn
      have patA : prune R A = none ↔ prune R A' = none :=
        ⟨pin A A' _ (by omega) (by omega) hposA,
         pin A' A _ (by omega) (by omega) (fun x hx p => (hposA x hx p).symm)⟩
      have patB : prune R B = none ↔ prune R B' = none :=
        ⟨pin B B' _ (by omega) (by omega) hposB,
         pin B' B _ (by omega) (by omega) (fun x hx p => (hposB x hx p).symm)⟩
      simp only [prune] at hpr
      obtain ⟨e1, e2⟩ := join_inj_pat patA patB hpr
      rw [ihA A' _ _ (by omega) (by omega) hposA e1, ihB B' _ _ (by omega) (by omega) hposB e2]

/-! ### 6. un-adding on trees -/

/-- the emptiness pattern of a tree list: (row, has survivors) -/
def pat (p : Nat × Option (CTree H)) : Nat × Bool := (p.1, p.2.isSome)

/-- same rows, and the same trees are empty -/
def SamePat (ts₁ ts₂ : List (Nat × Option (CTree H))) : Prop := ts₁.map pat = ts₂.map pat

theorem mergeTrees_some (ts : List (Nat × Option (CTree H))) (a : CTree H) :
    ∃ u, mergeTrees ts (some a) = some u := by
  induction ts with
  | nil => exact ⟨a, rfl⟩
  | cons p rest ih =>
    obtain ⟨u, hu⟩ := ih
    simp only [mergeTrees, List.foldr_cons] at hu ⊢
    rw [hu]
    cases p.2 <;> simp [join]

theorem mergeTrees_inj : ∀ (B₁ B₂ : List (Nat × Option (CTree H))) (a₁ a₂ : CTree H),
    SamePat B₁ B₂ → mergeTrees B₁ (some a₁) = mergeTrees B₂ (some a₂) → B₁ = B₂ ∧ a₁ = a₂ := by
  intro B₁
  induction B₁ with
  | nil =>
    intro B₂ a₁ a₂ hp hm
    cases B₂ with
    | nil => simpa [mergeTrees] using hm
    | cons _ _ => simp [SamePat] at hp
  | cons p ps ih =>
    intro B₂ a₁ a₂ hp hm
    cases B₂ with
    | nil => simp [SamePat] at hp
    | cons q qs =>
      simp only [SamePat, List.map_cons, List.cons.injEq] at hp
      obtain ⟨hpq, hrest⟩ := hp
      obtain ⟨u, hu⟩ := mergeTrees_some ps a₁
      obtain ⟨u', hu'⟩ := mergeTrees_some qs a₂
      have hm' : join p.2 (mergeTrees ps (some a₁)) = join q.2 (mergeTrees qs (some a₂)) := hm
      rw [hu, hu'] at hm'
      simp only [pat, Prod.mk.injEq] at hpq
      have hpat : p.2 = none ↔ q.2 = none := by
        have := hpq.2
        cases hp2 : p.2 <;> cases hq2 : q.2 <;> simp [hp2, hq2] at this ⊢
      obtain ⟨e1, e2⟩ := join_inj_pat hpat (by simp) hm'
      have := ih qs a₁ a₂ hrest (by rw [hu, hu', e2])
      refine ⟨?_, this.2⟩
      rw [this.1]
      congr 1
      exact Prod.ext hpq.1 e1

theorem unadd_trees {F₁ F₂ : Forest H} (x : H) (hn : F₁.numLeaves = F₂.numLeaves)
    (hlt : F₁.numLeaves < 2 ^ 64) (hp : SamePat F₁.trees F₂.trees)
    (h : (F₁.add x).trees = (F₂.add x).trees) : F₁.trees = F₂.trees := by
  obtain ⟨t, c, hF⟩ := exists_trailing_ones F₁.numLeaves
  have ht := trailing_le_of_lt hF hlt
  have hG : F₂.numLeaves = 2 ^ (t + 1) * c + (2 ^ t - 1) := hn ▸ hF
  have d1 := trees_decomp F₁ hF (by omega)
  have d2 := trees_decomp F₂ hG (by omega)
  rw [trees_add_decomp F₁ x hF ht, trees_add_decomp F₂ x hG ht] at h
  obtain ⟨h1, h2⟩ := List.append_inj' h rfl
  simp only [List.cons.injEq, Prod.mk.injEq, true_and, and_true] at h2
  rw [d1, d2] at hp ⊢
  unfold SamePat at hp
  rw [List.map_append, List.map_append] at hp
  obtain ⟨_, hp2⟩ := List.append_inj' hp (by simp [onesTrees_length])
  rw [h1, (mergeTrees_inj _ _ _ _ hp2 h2).1]

theorem samePat_add {F₁ F₂ : Forest H} (x : H) (hn : F₁.numLeaves = F₂.numLeaves)
    (hlt : F₁.numLeaves < 2 ^ 64) (hp : SamePat F₁.trees F₂.trees) :
    SamePat (F₁.add x).trees (F₂.add x).trees := by
  obtain ⟨t, c, hF⟩ := exists_trailing_ones F₁.numLeaves
  have ht := trailing_le_of_lt hF hlt
  have hG : F₂.numLeaves = 2 ^ (t + 1) * c + (2 ^ t - 1) := hn ▸ hF
  have d1 := trees_decomp F₁ hF (by omega)
  have d2 := trees_decomp F₂ hG (by omega)
  rw [d1, d2] at hp
  unfold SamePat at hp ⊢
  rw [List.map_append, List.map_append] at hp
  obtain ⟨hp1, _⟩ := List.append_inj' hp (by simp [onesTrees_length])
  rw [trees_add_decomp F₁ x hF ht, trees_add_decomp F₂ x hG ht, List.map_append, List.map_append,
    hp1]
  congr 1
  obtain ⟨u, hu⟩ := mergeTrees_some (onesTrees t (F₁.slots.drop (2 ^ (t + 1) * c))) (.leaf x)
  obtain ⟨u', hu'⟩ := mergeTrees_some (onesTrees t (F₂.slots.drop (2 ^ (t + 1) * c))) (.leaf x)
  simp [pat, hu, hu']

/-- **un-adding**: if two forests with the same leaf count and the same emptiness pattern of
their trees become equivalent after the same additions, they were equivalent before -/
theorem unadd_many : ∀ (adds : List H) (F₁ F₂ : Forest H), F₁.numLeaves = F₂.numLeaves →
    F₁.numLeaves + adds.length ≤ 2 ^ 64 → SamePat F₁.trees F₂.trees →
    (F₁.addMany adds).trees = (F₂.addMany adds).trees → F₁.trees = F₂.trees := by
  intro adds
  induction adds with
  | nil => intro F₁ F₂ _ _ _ h; simpa [addMany_nil] using h
  | cons x xs ih =>
    intro F₁ F₂ hn hlt hp h
    simp only [List.length_cons] at hlt
    rw [addMany_cons, addMany_cons] at h
    have h1 := ih (F₁.add x) (F₂.add x) (by rw [numLeaves_add, numLeaves_add, hn])
      (by rw [numLeaves_add]; omega) (samePat_add x hn (by omega) hp) h
    exact unadd_trees x hn (by omega) hp h1

/-! ### 7. leaf nodes, `posOf` and the live leaves -/

/-- hashes of the leaf entries of a node list, in order -/
def leafHashes (l : List (Pos × H × Bool)) : List H := (l.filter (·.2.2)).map (·.2.1)

theorem leafHashes_append (a b : List (Pos × H × Bool)) :
    leafHashes (a ++ b) = leafHashes a ++ leafHashes b := by
  simp [leafHashes]

theorem ctree_leafHashes : ∀ (t : CTree H) (r o : Nat), leafHashes (t.nodes r o) = t.leaves := by
  intro t
  induction t with
  | leaf h => intro r o; simp [leafHashes, CTree.nodes, CTree.leaves]
  | node a b iha ihb =>
    intro r o
    have : leafHashes ((CTree.node a b).nodes r o) =
        leafHashes (a.nodes (r - 1) (2 * o) ++ b.nodes (r - 1) (2 * o + 1)) := by
      simp [leafHashes, CTree.nodes]
    rw [this, leafHashes_append, iha, ihb]
    rfl

theorem forest_leafHashes (F : Forest H) (hn : F.numLeaves < 2 ^ 64) :
    leafHashes F.nodes = F.liveLeaves := by
  rw [← trees_leaves F hn]
  unfold Forest.nodes
  generalize F.trees = ts
  induction ts with
  | nil => simp [leafHashes]
  | cons q qs ih =>
    rw [List.flatMap_cons, List.flatMap_cons, leafHashes_append, ih]
    congr 1
    obtain ⟨h, t⟩ := q
    cases t with
    | none => simp [leafHashes, optLeaves]
    | some t => simp only [optLeaves]; exact ctree_leafHashes t _ _

theorem mem_leafHashes {l : List (Pos × H × Bool)} {p : Pos} {x : H} (h : (p, x, true) ∈ l) :
    x ∈ leafHashes l := by
  simp only [leafHashes, List.mem_map, List.mem_filter]
  exact ⟨_, ⟨h, rfl⟩, rfl⟩

theorem leafHashes_pos_unique : ∀ (l : List (Pos × H × Bool)), (leafHashes l).Nodup →
    ∀ (p p' : Pos) (x : H), (p, x, true) ∈ l → (p', x, true) ∈ l → p = p' := by
  intro l
  induction l with
  | nil => intro _ p p' x h; cases h
  | cons e l ih =>
    intro hnd p p' x h h'
    have hsplit : leafHashes (e :: l) = leafHashes [e] ++ leafHashes l :=
      leafHashes_append [e] l
    rw [hsplit] at hnd
    obtain ⟨_, h2, h3⟩ := List.nodup_append.mp hnd
    rcases List.mem_cons.mp h with rfl | g <;> rcases List.mem_cons.mp h' with he | g'
    · simp only [Prod.mk.injEq] at he; exact he.1.symm
    · exact absurd rfl (h3 x (by simp [leafHashes]) x (mem_leafHashes g'))
    · subst he
      exact absurd rfl (h3 x (by simp [leafHashes]) x (mem_leafHashes g))
    · exact ih h2 p p' x g g'

/-- with distinct live leaves, a leaf occurs at one position only -/
theorem leaf_pos_unique {F : Forest H} (hn : F.numLeaves < 2 ^ 64) (hnd : F.liveLeaves.Nodup)
    {p p' : Pos} {x : H} (h : (p, x, true) ∈ F.nodes) (h' : (p', x, true) ∈ F.nodes) : p = p' :=
  leafHashes_pos_unique F.nodes (by rw [forest_leafHashes F hn]; exact hnd) p p' x h h'

theorem posOf_some_mem {F : Forest H} {x : H} {p : Pos} (h : F.posOf x = some p) :
    (p, x, true) ∈ F.nodes := by
  unfold Forest.posOf at h
  cases hf : F.nodes.find? (fun y => y.2.2 && y.2.1 == x) with
  | none => rw [hf] at h; simp at h
  | some y =>
    rw [hf] at h
    simp only [Option.map_some, Option.some.injEq] at h
    have hy := List.mem_of_find?_eq_some hf
    have hp := List.find?_some hf
    simp only [Bool.and_eq_true, beq_iff_eq] at hp
    obtain ⟨q, z, fl⟩ := y
    simp only at h hp
    rw [← h, ← hp.2, ← hp.1]
    exact hy

theorem posOf_eq_some_iff {F : Forest H} (hn : F.numLeaves < 2 ^ 64) (hnd : F.liveLeaves.Nodup)
    {x : H} {p : Pos} : F.posOf x = some p ↔ (p, x, true) ∈ F.nodes := by
  constructor
  · exact posOf_some_mem
  · intro hm
    cases hf : F.posOf x with
    | none =>
      unfold Forest.posOf at hf
      simp only [Option.map_eq_none_iff] at hf
      have := List.find?_eq_none.1 hf _ hm
      simp at this
    | some q =>
      rw [leaf_pos_unique hn hnd (posOf_some_mem hf) hm]

/-- a live leaf has a position -/
theorem posOf_isSome_of_live {F : Forest H} (hn : F.numLeaves < 2 ^ 64) {x : H}
    (hx : x ∈ F.liveLeaves) : ∃ p, F.posOf x = some p := by
  rw [← forest_leafHashes F hn] at hx
  simp only [leafHashes, List.mem_map, List.mem_filter] at hx
  obtain ⟨e, ⟨he, hl⟩, rfl⟩ := hx
  cases hf : F.posOf e.2.1 with
  | some q => exact ⟨q, rfl⟩
  | none =>
    unfold Forest.posOf at hf
    simp only [Option.map_eq_none_iff] at hf
    have := List.find?_eq_none.1 hf _ he
    simp [hl] at this

/-- a leaf with a position is live -/
theorem live_of_posOf {F : Forest H} {x : H} {p : Pos} (h : F.posOf x = some p) :
    x ∈ F.liveLeaves :=
  leaf_node_live (posOf_some_mem h) rfl

/-! ### 8. forest-level uniqueness -/

/-- the collapsed tree on row `h` -/
def treeOf (F : Forest H) (h : Nat) : Option (CTree H) :=
  collapse h ((F.slots.drop (treeStart F.numLeaves h)).take (2 ^ h))

theorem trees_eq_map (F : Forest H) :
    F.trees = (treeRows F.numLeaves).map (fun h => (h, treeOf F h)) := rfl

theorem treeNodes_some {F : Forest H} {h : Nat} {t : CTree H} (ht : treeOf F h = some t) :
    treeNodes F h = t.nodes h (rootPos F.numLeaves h).2 := by
  unfold treeNodes; unfold treeOf at ht; rw [ht]

theorem treeNodes_none {F : Forest H} {h : Nat} (ht : treeOf F h = none) :
    treeNodes F h = [(rootPos F.numLeaves h, zero, false)] := by
  unfold treeNodes; unfold treeOf at ht; rw [ht]

theorem treeRoot_def (F : Forest H) (h : Nat) : treeRoot F h = rootHash (treeOf F h) := by
  unfold treeRoot treeOf rootHash
  cases collapse h ((F.slots.drop (treeStart F.numLeaves h)).take (2 ^ h)) <;> rfl

theorem treeOf_delLeaves (F : Forest H) (R : List H) (h : Nat) :
    treeOf (F.delLeaves R) h = pruneO R (treeOf F h) := by
  unfold treeOf
  rw [numLeaves_delLeaves, delLeaves_slots, ← List.map_drop, ← List.map_take, collapse_kill]

theorem treeOf_leaves_live {F : Forest H} {h : Nat} {t : CTree H} (ht : treeOf F h = some t) :
    ∀ x ∈ t.leaves, x ∈ F.liveLeaves := by
  intro x hx
  unfold treeOf at ht
  have := Proofs.SpecNodes.collapse_leaves _ _ _ ht x hx
  rw [Forest.mem_liveLeaves]
  exact List.mem_of_mem_drop (List.mem_of_mem_take this)

/-- an entry of the forest lying under the root position of the tree on row `h` is an entry
of that tree -/
theorem mem_treeNodes_of_under {F : Forest H} {h : Nat} (hb : F.numLeaves.testBit h = true)
    {e : Pos × H × Bool} (he : e ∈ F.nodes)
    (hu : Under h (2 * (F.numLeaves >>> (h + 1))) e.1) : e ∈ treeNodes F h := by
  obtain ⟨h', ⟨hb', _⟩, he'⟩ := mem_nodes.1 he
  have u' := treeNodes_under F h' e he'
  rcases Nat.lt_trichotomy h h' with hlt | heq | hgt
  · exact (under_disjoint hlt hb' u' hu).elim
  · subst heq; exact he'
  · exact (under_disjoint hgt hb hu u').elim

theorem treeNodes_iff {G₁ G₂ : Forest H} (hn : G₁.numLeaves = G₂.numLeaves) {h : Nat}
    (hh : h ∈ treeRows G₁.numLeaves)
    {e : Pos × H × Bool} (hpos : e ∈ G₁.nodes → e ∈ G₂.nodes)
    (he : e ∈ treeNodes G₁ h) : e ∈ treeNodes G₂ h := by
  have hb := (mem_treeRows.mp hh).2
  have hu := treeNodes_under G₁ h e he
  have hm : e ∈ G₁.nodes := mem_nodes.2 ⟨h, ⟨hb, hh⟩, he⟩
  rw [hn] at hu hb
  exact mem_treeNodes_of_under hb (hpos hm) hu

/-- **Step Y**: two forests with the same leaf count that agree (on trees) after deleting the
leaves `R`, and in which every leaf of `R` sits at the same position, have the same trees. -/
theorem trees_eq_of_pruned {G₁ G₂ : Forest H} (R : List H) (hn : G₁.numLeaves = G₂.numLeaves)
    (hpos : ∀ x ∈ R, ∀ p, (p, x, true) ∈ G₁.nodes ↔ (p, x, true) ∈ G₂.nodes)
    (hpr : (G₁.delLeaves R).trees = (G₂.delLeaves R).trees) : G₁.trees = G₂.trees := by
  rw [trees_eq_map, trees_eq_map, ← hn]
  apply List.map_congr_left
  intro h hh
  congr 1
  have hpr' : pruneO R (treeOf G₁ h) = pruneO R (treeOf G₂ h) := by
    rw [trees_eq_map, trees_eq_map, numLeaves_delLeaves, numLeaves_delLeaves, ← hn] at hpr
    have := List.map_inj_left.1 hpr h hh
    simp only [Prod.mk.injEq, true_and] at this
    rwa [treeOf_delLeaves, treeOf_delLeaves] at this
  have hh2 : h ∈ treeRows G₂.numLeaves := hn ▸ hh
  have hposh : ∀ x ∈ R, ∀ p, (p, x, true) ∈ treeNodes G₁ h ↔ (p, x, true) ∈ treeNodes G₂ h :=
    fun x hx p => ⟨treeNodes_iff hn hh (hpos x hx p).1, treeNodes_iff hn.symm hh2 (hpos x hx p).2⟩
  -- a tree consisting of revived leaves only cannot face an empty tree
  have lone : ∀ (X Y : Forest H), (∀ x ∈ R, ∀ p, (p, x, true) ∈ treeNodes X h →
      (p, x, true) ∈ treeNodes Y h) → ∀ t, treeOf X h = some t → prune R t = none →
      treeOf Y h = none → False := by
    intro X Y hp t ht hpn hY
    obtain ⟨x, hx⟩ := List.exists_mem_of_ne_nil _ (CTree.leaves_ne_nil t)
    obtain ⟨p, hp'⟩ := leaf_mem_nodes t h (rootPos X.numLeaves h).2 x hx
    have := hp x ((prune_eq_none_iff R t).1 hpn x hx) p (by rw [treeNodes_some ht]; exact hp')
    rw [treeNodes_none hY] at this
    simp at this
  cases h1 : treeOf G₁ h with
  | none =>
    cases h2 : treeOf G₂ h with
    | none => rfl
    | some t₂ =>
      exfalso
      rw [h1, h2] at hpr'
      exact lone G₂ G₁ (fun x hx p => (hposh x hx p).2) t₂ h2 hpr'.symm h1
  | some t₁ =>
    cases h2 : treeOf G₂ h with
    | none =>
      exfalso
      rw [h1, h2] at hpr'
      exact lone G₁ G₂ (fun x hx p => (hposh x hx p).1) t₁ h1 hpr' h2
    | some t₂ =>
      rw [h1, h2] at hpr'
      have hd1 : depth t₁ ≤ h := collapse_depth _ _ _ h1
      have hd2 : depth t₂ ≤ h := collapse_depth _ _ _ h2
      have := ctree_unique R t₁ t₂ h (rootPos G₁.numLeaves h).2 hd1 hd2 (by
        intro x hx p
        have := hposh x hx p
        rw [treeNodes_some h1, treeNodes_some h2, ← hn] at this
        exact this) hpr'
      rw [this]

/-- equal roots force the same trees to be empty (leaves non-zero, `ph` never zero) -/
theorem samePat_of_roots (hph : ∀ a b : H, ph a b ≠ (zero : H)) {G₁ G₂ : Forest H}
    (hn : G₁.numLeaves = G₂.numLeaves) (nz₁ : ∀ x ∈ G₁.liveLeaves, x ≠ (zero : H))
    (nz₂ : ∀ x ∈ G₂.liveLeaves, x ≠ (zero : H)) (hr : G₁.roots = G₂.roots) :
    SamePat G₁.trees G₂.trees := by
  unfold SamePat
  rw [trees_eq_map, trees_eq_map, ← hn, List.map_map, List.map_map]
  apply List.map_congr_left
  intro h hh
  rw [Proofs.SpecNodes.roots_eq, Proofs.SpecNodes.roots_eq, ← hn] at hr
  have hroot := List.map_inj_left.1 hr h hh
  rw [treeRoot_def, treeRoot_def] at hroot
  simp only [Function.comp, pat, Prod.mk.injEq, true_and]
  have key : ∀ (X : Forest H), (∀ x ∈ X.liveLeaves, x ≠ (zero : H)) →
      ((treeOf X h).isSome = true ↔ rootHash (treeOf X h) ≠ zero) := by
    intro X nz
    cases hX : treeOf X h with
    | none => simp [rootHash]
    | some t =>
      simp only [Option.isSome_some, rootHash, true_iff]
      exact CTree.hash_ne_zero hph t (fun x hx => nz x (treeOf_leaves_live hX x hx))
  have k1 := key G₁ nz₁
  have k2 := key G₂ nz₂
  rw [hroot] at k1
  cases h1 : (treeOf G₁ h).isSome <;> cases h2 : (treeOf G₂ h).isSome <;> simp_all

/-- the emptiness pattern survives pruning when the pruned leaves sit at the same positions -/
theorem samePat_pruned (R : List H) {G₁ G₂ : Forest H} (hn : G₁.numLeaves = G₂.numLeaves)
    (hpos : ∀ x ∈ R, ∀ p, (p, x, true) ∈ G₁.nodes ↔ (p, x, true) ∈ G₂.nodes)
    (hp : SamePat G₁.trees G₂.trees) :
    SamePat (G₁.delLeaves R).trees (G₂.delLeaves R).trees := by
  unfold SamePat at hp ⊢
  rw [trees_eq_map, trees_eq_map, ← hn, List.map_map, List.map_map] at hp
  rw [trees_eq_map, trees_eq_map, numLeaves_delLeaves, numLeaves_delLeaves, ← hn, List.map_map,
    List.map_map]
  apply List.map_congr_left
  intro h hh
  have hp' := List.map_inj_left.1 hp h hh
  simp only [Function.comp, pat, Prod.mk.injEq, true_and] at hp' ⊢
  rw [treeOf_delLeaves, treeOf_delLeaves]
  have hh2 : h ∈ treeRows G₂.numLeaves := hn ▸ hh
  have pin : ∀ (X Y : Forest H) (tx ty : CTree H), X.numLeaves = Y.numLeaves →
      (∀ x ∈ R, ∀ p, (p, x, true) ∈ treeNodes X h → (p, x, true) ∈ treeNodes Y h) →
      treeOf X h = some tx → treeOf Y h = some ty → prune R tx = none → prune R ty = none := by
    intro X Y tx ty hXY hp hX hY hpn
    have hall := (prune_eq_none_iff R tx).1 hpn
    have : tx = ty := by
      apply ctree_complete tx ty h (rootPos X.numLeaves h).2 (collapse_depth _ _ _ hX)
        (collapse_depth _ _ _ hY)
      intro e he hl
      obtain ⟨p, x, fl⟩ := e
      simp only at hl
      subst hl
      have hx := nodes_leaf_mem tx _ _ _ he rfl
      have := hp x (hall x hx) p (by rw [treeNodes_some hX]; exact he)
      rw [treeNodes_some hY, ← hXY] at this
      exact this
    rw [← this]; exact hpn
  cases h1 : treeOf G₁ h with
  | none =>
    cases h2 : treeOf G₂ h with
    | none => rfl
    | some t₂ => rw [h1, h2] at hp'; simp at hp'
  | some t₁ =>
    cases h2 : treeOf G₂ h with
    | none => rw [h1, h2] at hp'; simp at hp'
    | some t₂ =>
      simp only [pruneO, Option.bind_some]
      have a := pin G₁ G₂ t₁ t₂ hn
        (fun x hx p => treeNodes_iff hn hh (hpos x hx p).1) h1 h2
      have b := pin G₂ G₁ t₂ t₁ hn.symm
        (fun x hx p => treeNodes_iff hn.symm hh2 (hpos x hx p).2) h2 h1
      cases c1 : prune R t₁ <;> cases c2 : prune R t₂ <;> simp_all

/-- **Step X**: forests with the same leaf count, the same roots and the same positions for
the leaves `R`, whose `R`-deleted versions become equivalent after the same additions, have
equivalent `R`-deleted versions -/
theorem killed_trees_eq (hph : ∀ a b : H, ph a b ≠ (zero : H)) (R adds : List H)
    {G₁ G₂ : Forest H} (hn : G₁.numLeaves = G₂.numLeaves)
    (hlt : G₁.numLeaves + adds.length ≤ 2 ^ 64)
    (nz₁ : ∀ x ∈ G₁.liveLeaves, x ≠ (zero : H)) (nz₂ : ∀ x ∈ G₂.liveLeaves, x ≠ (zero : H))
    (hr : G₁.roots = G₂.roots)
    (hpos : ∀ x ∈ R, ∀ p, (p, x, true) ∈ G₁.nodes ↔ (p, x, true) ∈ G₂.nodes)
    (h : ((G₁.delLeaves R).addMany adds).trees = ((G₂.delLeaves R).addMany adds).trees) :
    (G₁.delLeaves R).trees = (G₂.delLeaves R).trees :=
  unadd_many adds _ _ (by rw [numLeaves_delLeaves, numLeaves_delLeaves, hn])
    (by rw [numLeaves_delLeaves]; exact hlt)
    (samePat_pruned R hn hpos (samePat_of_roots hph hn nz₁ nz₂ hr)) h

end UtreexoVerif.Spec
