/-
  Helper lemmas about the position encoding `Spec.enc` and the `Nat`-level content of
  the bit tricks in utils.go (parent / children / siblings / row detection).
-/
import UtreexoVerif.Proofs.Bits
import UtreexoVerif.Spec.Forest
import UtreexoVerif.Model.Utils

namespace UtreexoVerif.Proofs
open UtreexoVerif UtreexoVerif.GoInt

/-- the `uint64` holding position `(r, o)` of a forest allocated for `h` rows -/
def encU (h r o : Nat) : U64 := BitVec.ofNat 64 (Spec.enc h (r, o))

/-- a row count as Go's `uint8` -/
abbrev H8 (h : Nat) : U8 := BitVec.ofNat 8 h

theorem enc_val (h r o : Nat) : Spec.enc h (r, o) = 2 ^ (h + 1) - 2 ^ (h + 1 - r) + o := rfl

/-- the linear facts about the powers of two occurring in `enc h (r, o)` -/
theorem enc_facts {h r : Nat} (hr : r ≤ h) :
    2 ^ (h + 1 - r) = 2 * 2 ^ (h - r) ∧ 2 ^ (h + 1 - r) ≤ 2 ^ (h + 1) ∧ 0 < 2 ^ (h - r) ∧
      2 ^ (h + 1) = 2 * 2 ^ h ∧ 2 ^ (h - r) ≤ 2 ^ h := by
  refine ⟨?_, two_pow_le_of_le (by omega), Nat.two_pow_pos _, two_pow_succ' h,
    two_pow_le_of_le (by omega)⟩
  rw [show h + 1 - r = (h - r) + 1 by omega, two_pow_succ']

/-- extra facts when `r < h`: the row above exists -/
theorem enc_facts_succ {h r : Nat} (hr : r < h) :
    2 ^ (h - r) = 2 * 2 ^ (h - (r + 1)) ∧ 2 ^ (h + 1 - (r + 1)) = 2 ^ (h - r) ∧
      0 < 2 ^ (h - (r + 1)) := by
  refine ⟨?_, by rw [show h + 1 - (r + 1) = h - r by omega], Nat.two_pow_pos _⟩
  rw [show h - r = (h - (r + 1)) + 1 by omega, two_pow_succ']

/-- positions are below `2^(h+1) - 1` -/
theorem enc_lt_aux {h r o : Nat} (hr : r ≤ h) (ho : o < 2 ^ (h - r)) :
    Spec.enc h (r, o) < 2 ^ (h + 1) - 1 := by
  have := enc_facts hr
  rw [enc_val]; omega

/-- positions of a forest with at most 63 rows fit in a `uint64` -/
theorem enc_lt_64 {h r o : Nat} (hh : h ≤ 63) (hr : r ≤ h) (ho : o < 2 ^ (h - r)) :
    Spec.enc h (r, o) < 2 ^ 64 := by
  have h1 := enc_lt_aux hr ho
  have h2 : 2 ^ (h + 1) ≤ 2 ^ 64 := two_pow_le_64 (by omega)
  omega

theorem toNat_encU {h r o : Nat} (hh : h ≤ 63) (hr : r ≤ h) (ho : o < 2 ^ (h - r)) :
    (encU h r o).toNat = Spec.enc h (r, o) :=
  toNat_ofNat64_of_lt (enc_lt_64 hh hr ho)

/-- rows are laid out one after the other -/
theorem enc_row_lt {h r o r' o' : Nat} (hr' : r' ≤ h) (ho : o < 2 ^ (h - r)) (hlt : r < r') :
    Spec.enc h (r, o) < Spec.enc h (r', o') := by
  have f := enc_facts (show r ≤ h by omega)
  have g : 2 ^ (h + 1 - r') ≤ 2 ^ (h - r) := two_pow_le_of_le (by omega)
  have g' : 2 ^ (h + 1 - r') ≤ 2 ^ (h + 1) := two_pow_le_of_le (by omega)
  rw [enc_val, enc_val]; omega

/-- `enc h (r, o) = (2^r - 1) * 2^(h+1-r) + o`: `r` one bits, then a zero bit, then `o` -/
theorem enc_mul {h r : Nat} (hr : r ≤ h) (o : Nat) :
    Spec.enc h (r, o) = 2 ^ (h + 1 - r) * (2 ^ r - 1) + o := by
  rw [enc_val, Nat.mul_sub_one, ← two_pow_split (show r ≤ h + 1 by omega)]

/-- the bits of a position -/
theorem enc_testBit {h r o : Nat} (hr : r ≤ h) (ho : o < 2 ^ (h - r)) (j : Nat) :
    (Spec.enc h (r, o)).testBit j =
      if j < h + 1 - r then o.testBit j else decide (j - (h + 1 - r) < r) := by
  have f := enc_facts hr
  rw [enc_mul hr, Nat.testBit_two_pow_mul_add _ (by omega), Nat.testBit_two_pow_sub_one]

/-- the marker bits above the row bit are set -/
theorem enc_testBit_above {h r o k : Nat} (hr : r ≤ h) (ho : o < 2 ^ (h - r)) (hk : k < r) :
    (Spec.enc h (r, o)).testBit (h - k) = true := by
  rw [enc_testBit hr ho, if_neg (by omega)]
  simp; omega

/-- the row bit is clear -/
theorem enc_testBit_row {h r o : Nat} (hr : r ≤ h) (ho : o < 2 ^ (h - r)) :
    (Spec.enc h (r, o)).testBit (h - r) = false := by
  rw [enc_testBit hr ho, if_pos (by omega)]
  exact Nat.testBit_lt_two_pow ho

/-! ### `Nat`-level content of the bit tricks -/

theorem parent_nat {h r o : Nat} (hr : r < h) (ho : o < 2 ^ (h - r)) :
    Spec.enc h (r, o) / 2 ^ 1 ||| 2 ^ h = Spec.enc h (r + 1, o / 2) := by
  have f := enc_facts (show r ≤ h by omega)
  have g := enc_facts_succ hr
  have hlt : Spec.enc h (r, o) / 2 ^ 1 < 2 ^ h := by rw [enc_val]; omega
  rw [two_pow_or_eq_add hlt, enc_val, enc_val]
  omega

theorem leftChild_nat {h r o : Nat} (hr : r < h) (ho : o < 2 ^ (h - (r + 1))) :
    Spec.enc h (r + 1, o) * 2 ^ 1 % 2 ^ (h + 1) = Spec.enc h (r, 2 * o) := by
  have f := enc_facts (show r ≤ h by omega)
  have g := enc_facts_succ hr
  have e : Spec.enc h (r + 1, o) * 2 ^ 1 = 2 ^ (h + 1) + Spec.enc h (r, 2 * o) := by
    rw [enc_val, enc_val]; omega
  rw [e, Nat.add_mod_left]
  apply Nat.mod_eq_of_lt
  have := enc_lt_aux (show r ≤ h by omega) (show 2 * o < 2 ^ (h - r) by omega)
  omega

theorem enc_even {h r o : Nat} (hr : r ≤ h) : Spec.enc h (r, o) % 2 = o % 2 := by
  have f := enc_facts hr
  rw [enc_val]; omega

theorem enc_add (h r o : Nat) : Spec.enc h (r, o) = Spec.enc h (r, 0) + o := by
  rw [enc_val, enc_val]; omega

/-- `(M - 1) * A mod M = M - A` -/
theorem pred_mul_mod {M A : Nat} (hA : 0 < A) (hAM : A ≤ M) : (M - 1) * A % M = M - A := by
  obtain ⟨a, rfl⟩ : ∃ a, A = a + 1 := ⟨A - 1, by omega⟩
  have e : (M - 1) * (a + 1) = M * a + (M - (a + 1)) := by
    rw [Nat.sub_mul, Nat.mul_add, Nat.mul_one, Nat.one_mul]
    have : a + 1 ≤ M * a + M := by
      have : a ≤ M * a := Nat.le_mul_of_pos_left a (by omega)
      omega
    omega
  rw [e, Nat.mul_add_mod]
  by_cases h : a + 1 = M
  · subst h; simp
  · exact Nat.mod_eq_of_lt (by omega)

/-! ### the `DetectRow` loop -/

/-- Generalised loop statement: started with the marker on bit `h - k` and counter `k`
(`k ≤ r`), the loop needs `r - k + 1` units of fuel and stops at row `r`. -/
theorem detectRow_loop {h r o : Nat} (hh : h ≤ 63) (hr : r ≤ h) (ho : o < 2 ^ (h - r)) :
    ∀ (d k fuel : Nat), k + d = r → d < fuel →
      Model.DetectRow.loop1 (encU h r o) fuel (BitVec.twoPow 64 (h - k)) (BitVec.ofNat 8 k) =
        .done (BitVec.twoPow 64 (h - r), BitVec.ofNat 8 r) := by
  intro d
  induction d with
  | zero =>
    intro k fuel hk hf
    obtain ⟨f, rfl⟩ : ∃ f, fuel = f + 1 := ⟨fuel - 1, by omega⟩
    have hkr : k = r := by omega
    subst hkr
    unfold Model.DetectRow.loop1
    rw [and_twoPow_ne_zero _ (by omega), encU, getLsbD_ofNat64 (by omega),
      enc_testBit_row hr ho]
    simp
  | succ d ih =>
    intro k fuel hk hf
    obtain ⟨f, rfl⟩ : ∃ f, fuel = f + 1 := ⟨fuel - 1, by omega⟩
    unfold Model.DetectRow.loop1
    rw [and_twoPow_ne_zero _ (by omega), encU, getLsbD_ofNat64 (by omega),
      enc_testBit_above hr ho (by omega)]
    simp only [if_true]
    have e : h - k = (h - (k + 1)) + 1 := by omega
    rw [e, twoPow_shr_one (by omega), H8_add_one]
    exact ih (k + 1) f (by omega) (by omega)

end UtreexoVerif.Proofs
