/-
  `genTTLs` is exact (property C15): on the summaries of a well-formed history with at most
  `2^62` leaves, the tracker of /repo (`getPrevPosFixed` = the code as it is now) computes exactly
  the lifetime tables.

  Assembly of: `SchedTrack.ofBlocks_spec` (what `AddBlockSummary` records), `SchedGpp.stepOK_fixed`
  (`getPrevPos` inverts the movement of a block: `SchedUndoAdd.undoAdd_spec` for the additions,
  `SchedDel.undoDel_pos` for the deletions), `SchedGen.genTTLs_exact_of_step` (the backwards loop).
-/
import UtreexoVerif.Proofs.SchedTrack
import UtreexoVerif.Proofs.SchedGpp
import UtreexoVerif.Proofs.SchedGen

namespace UtreexoVerif.Proofs.SchedExact
open UtreexoVerif Spec Spec.Sched Model

theorem genTTLs_exact {h : History} {blocks : List (List U64 × U16)} (hw : wellFormed h = true)
    (hadds : ∀ b ∈ h, b.numAdds < 65536) (htot : total h ≤ 2 ^ 62)
    (hs : Props.C15.summariesOf h = some blocks) :
    ∃ tr cs, Tracker.ofBlocks blocks = .ok tr ∧ tr.genTTLsWith getPrevPosFixed = .ok cs ∧
      cs.ttls = Props.C15.lifetimeTables h := by
  obtain ⟨tr, h1, hok⟩ := SchedTrack.ofBlocks_spec hw hadds htot hs
  have hstep := SchedGpp.stepOK_fixed hw hadds htot hok
  obtain ⟨cs, h2, h3⟩ := SchedGen.genTTLs_exact_of_step getPrevPosFixed h tr hw (by omega) hok hstep
  exact ⟨tr, cs, h1, h2, h3⟩

end UtreexoVerif.Proofs.SchedExact
