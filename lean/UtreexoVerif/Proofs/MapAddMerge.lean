/-
  `MapPollard.addSingle` / `add` preserve the strong storage invariant: assembly of
    Layer 1 (`Proofs/MapAddRep.lean`: what the model does on the abstract state),
    Layer 2 (`Proofs/MapAddSteps.lean`: the invariant across one step) and
    the specification side (`Proofs/PForestAdd.lean`: the placed forests between the steps).
-/
import UtreexoVerif.Proofs.MapAddSteps
import UtreexoVerif.Proofs.MapAddRep
import UtreexoVerif.Proofs.PForestAdd
import UtreexoVerif.Proofs.MapSInv

namespace UtreexoVerif.Proofs.MapAddMerge
open UtreexoVerif Model Spec Spec.Forest Proofs MapAL MapInv MapPrune MapRep MapLiftGeo PForest MapAInv MapLiftCore
open MapAddSteps MapAddRep PForestAdd PForestSpec SpecNodes MapSInv Hasher
set_option linter.unusedSectionVars false
set_option linter.unusedVariables false

variable {H : Type} [DecidableEq H] [Hasher H]

/-! ### small facts about placed forests -/

theorem head_some {V : PF H} {ρ : Pos} {tr : CTree H} (h : (ρ, some tr) ∈ V) :
    (ρ, tr.hash, isLeaf tr) ∈ PForest.nodes V :=
  mem_nodes.2 ⟨_, h, by unfold entryNodes; exact nodes_head tr _ _⟩

theorem head_none {V : PF H} {ρ : Pos} (h : (ρ, none) ∈ V) : (ρ, (zero : H), false) ∈ PForest.nodes V :=
  mem_nodes.2 ⟨_, h, by simp [entryNodes]⟩

theorem isLeaf_eq {a : CTree H} (h : isLeaf a = true) : a = .leaf a.hash := by
  cases a with
  | leaf x => rfl
  | node l r => simp [isLeaf] at h

/-- a non-zero hash that is not a parent hash occurs in a placed forest only as a leaf -/
theorem hash_leaf_mem {V : PF H} {q : Pos} {x : H} {b : Bool} (h : (q, x, b) ∈ PForest.nodes V)
    (hx0 : x ≠ zero) (hxph : ∀ u v : H, x ≠ ph u v) : x ∈ leaves V := by
  obtain ⟨e, he, hx⟩ := mem_nodes.1 h
  unfold entryNodes at hx
  cases hT : e.2 with
  | none =>
    rw [hT] at hx
    simp only [List.mem_singleton, Prod.mk.injEq] at hx
    exact absurd hx.2.1 hx0
  | some T =>
    rw [hT] at hx
    exact List.mem_flatMap.2 ⟨e, he, by rw [hT]; exact ctree_entry_leaf T _ _ _ hx hxph⟩

/-! ### the cache update of the empty-root branch -/

theorem cacheUp_eq {A : Pos → Option (Leaf H)} {C : H → Option Pos} {N : List (Pos × H × Bool)}
    {R : Pos → Prop} {K : H → Prop} {E : Pos → Prop} (L : Laws N R) (inv : AInv A C N R K E)
    {σ P : Pos} {a : CTree H} {add pNode : Leaf H}
    (hσa : (σ, a.hash, isLeaf a) ∈ N) (hp : pNode.hash = a.hash)
    (hax : ∀ y, a = .leaf y → y = add.hash) (hrem : (C add.hash).isSome = true → add.remember = true) (y : H) :
    cacheUp add pNode P C y = if C y = some σ then some P else C y := by
  -- a hash cached at `σ` is the hash of the added leaf, which is then remembered
  have key : ∀ y, C y = some σ → y = add.hash ∧ a.hash = add.hash := by
    intro y hy
    have hm := inv.cached_pos y σ hy
    obtain ⟨e1, e2⟩ := L.func _ _ _ _ _ hm hσa
    have := hax _ (isLeaf_eq e2.symm)
    exact ⟨e1.trans this, this⟩
  unfold cacheUp
  by_cases hcond : add.remember = true ∧ pNode.hash = add.hash
  · rw [if_pos hcond]
    by_cases hs : (C add.hash).isSome = true
    · rw [if_pos hs]
      obtain ⟨t, ht⟩ := Option.isSome_iff_exists.1 hs
      have hm := inv.cached_pos _ t ht
      have hσx : (σ, add.hash, isLeaf a) ∈ N := by rw [← hcond.2, hp]; exact hσa
      have hts : σ = t := L.leaf_hash t add.hash σ _ hm hσx
      subst hts
      rw [upd_apply]
      by_cases hy : y = add.hash
      · subst hy; rw [if_pos rfl, if_pos ht]
      · rw [if_neg hy, if_neg (fun h => hy (key y h).1)]
    · rw [if_neg hs]
      rw [if_neg]
      intro h
      obtain ⟨e, _⟩ := key y h
      subst e
      rw [h] at hs; exact hs rfl
  · rw [if_neg hcond, if_neg]
    intro h
    obtain ⟨e, e2⟩ := key y h
    subst e
    apply hcond
    exact ⟨hrem (by rw [h]; rfl), hp.trans e2⟩

/-! ### the loop -/

/-- the placed forest between two iterations: the untouched trees `Y`, the low trees on rows
`k, k+1, …` still to be merged, and the accumulated tree `a` at `(k, n >>> k)` -/
def accV (n k : Nat) (Y : PF H) (os : List (Option (CTree H))) (a : CTree H) : PF H :=
  Y ++ lowV n k os ++ [((k, n >>> k), some a)]

theorem accV_cons (n k : Nat) (Y : PF H) (o : Option (CTree H)) (os : List (Option (CTree H))) (a : CTree H) :
    accV n k Y (o :: os) a = (Y ++ lowV n (k + 1) os) ++ [(rootPos n k, o), ((k, n >>> k), some a)] := by
  unfold accV
  simp [lowV, List.append_assoc]

theorem accV_next (n k : Nat) (Y : PF H) (os : List (Option (CTree H))) (a : CTree H) :
    (Y ++ lowV n (k + 1) os) ++ [((k + 1, n >>> (k + 1)), some a)] = accV n (k + 1) Y os a := by
  unfold accV; rfl

theorem pruneA_at_other {A : Pos → Option (Leaf H)} {ρ P : Pos} (hP : P = parent ρ) :
    pruneA A ρ P = A P := by
  apply pruneA_other
  · intro e; have := congrArg Prod.fst e; rw [hP] at this; simp [parent] at this
  · intro e; have := congrArg Prod.fst e; rw [hP] at this; simp [parent, sib] at this

theorem liftAll_eq {A : Pos → Option (Leaf H)} {σ : Pos} {pNode : Leaf H} (hA : A σ = some pNode) (q : Pos) :
    upd (liftA σ (upd (upd A (sib σ) none) σ none)) (parent σ) (some pNode) q = liftAll σ A q := by
  unfold liftAll
  rw [upd_apply]
  by_cases hq : q = parent σ
  · rw [if_pos hq, if_pos hq, hA]
  · rw [if_neg hq, if_neg hq]
    unfold liftA
    by_cases hs : SUnder (parent σ) q
    · rw [if_pos hs, if_pos hs]
      by_cases h0 : q.1 = 0
      · rw [if_pos h0, if_pos h0]
      · rw [if_neg h0, if_neg h0]
        have hu := anc_unliftP hs (by omega)
        have h1 : unliftP σ q ≠ σ := by
          intro e; have := hu.2; rw [e] at this; omega
        have h2 : unliftP σ q ≠ sib σ := by
          intro e; exact not_anc_both (σ := σ) hu.1 (by rw [e]; exact Anc.refl _)
        rw [upd_ne _ _ h1, upd_ne _ _ h2]
    · rw [if_neg hs, if_neg hs]
      have h1 : q ≠ σ := by
        intro e; apply hs; rw [e]; exact ⟨anc_parent_self σ, by show σ.1 < σ.1 + 1; omega⟩
      have h2 : q ≠ sib σ := by
        intro e; apply hs; rw [e]
        exact ⟨anc_parent_sib σ, by rw [sib_fst]; show σ.1 < σ.1 + 1; omega⟩
      rw [upd_ne _ _ h1, upd_ne _ _ h2]

theorem liftC_eq {C : H → Option Pos} {σ : Pos} (x : H) :
    liftC σ (fun y => if C y = some σ then some (parent σ) else C y) x = liftCAll σ C x := by
  unfold liftC liftCAll
  by_cases h : C x = some σ
  · simp only [h, if_true, Option.map_some]
    have h1 : ¬ SUnder σ (parent σ) := by
      intro hs; have := hs.2; have : (parent σ).1 = σ.1 + 1 := rfl; omega
    rw [if_neg h1, if_pos (Anc.refl σ), liftP_self]
  · simp only [h, if_false]
    cases hC : C x with
    | none => rfl
    | some t =>
      simp only [Option.map_some]
      have hne : t ≠ σ := fun e => h (by rw [hC, e])
      by_cases ha : Anc σ t
      · have hs : SUnder σ t := ⟨ha, by
          have := ha.1
          have hr : t.1 ≠ σ.1 := fun e => hne (ha.eq_of_row e.symm).symm
          omega⟩
        rw [if_pos hs, if_pos ha]
      · rw [if_neg (fun hs : SUnder σ t => ha hs.1), if_neg ha]

section loop

/-- **the merging loop of `addSingle`**, by induction on the low trees still to be merged -/
theorem addLoop_spec (nz : NZ H) {T n : Nat} (add : Leaf H) (Y : PF H) (K : H → Prop)
    (hn63 : n + 1 < 2 ^ 63) (hfit : forestRows (n + 1) ≤ T) :
    ∀ (os : List (Option (CTree H))) (k : Nat) (a : CTree H) (m : MapPollard H)
      (A : Pos → Option (Leaf H)) (C : H → Option Pos) (pNode : Leaf H) (fuel : Nat),
      Rep m T A C → m.numLeaves = BitVec.ofNat 64 n → m.full = false →
      OK (accV n k Y os a) →
      AInv A C (PForest.nodes (accV n k Y os a)) (IsRoot (accV n k Y os a)) K (fun _ => False) →
      (∀ i, i < os.length → n.testBit (k + i) = true) → n.testBit (k + os.length) = false →
      k + os.length ≤ 63 → os.length < fuel →
      A (k, n >>> k) = some pNode →
      (∀ y, a = .leaf y → y = add.hash) → ((C add.hash).isSome = true → add.remember = true) →
      ∃ m' A' C', MapPollard.addLoop add (H8 T) fuel (H8 k) (encP T (k, n >>> k)) pNode m = (m', .ok ()) ∧
        Rep m' T A' C' ∧ m'.numLeaves = m.numLeaves ∧ m'.full = false ∧
        AInv A' C' (PForest.nodes (Y ++ [((k + os.length, n >>> (k + os.length)), some (mergeLow os a))]))
          (IsRoot (Y ++ [((k + os.length, n >>> (k + os.length)), some (mergeLow os a))])) K (fun _ => False) ∧
        (∀ y, (C' y).isSome = (C y).isSome)
  | [], k, a, m, A, C, pNode, fuel, rep, hn, hfull, ok, inv, hbits, hbit, hk, hfuel, hA, hax, hrem => by
    obtain ⟨f, rfl⟩ : ∃ f, fuel = f + 1 := ⟨fuel - 1, by simp at hfuel; omega⟩
    refine ⟨m, A, C, ?_, rep, rfl, hfull, ?_, fun _ => rfl⟩
    · exact addLoop_done hn (by omega) (by simpa using hk) (by simpa using hbit) add (H8 T) f _ pNode
    · have e : accV n k Y [] a = Y ++ [((k + ([] : List (Option (CTree H))).length, n >>> (k + ([] : List (Option (CTree H))).length)), some (mergeLow [] a))] := by
        simp [accV, lowV, mergeLow]
      rw [← e]; exact inv
  | o :: os, k, a, m, A, C, pNode, fuel, rep, hn, hfull, ok, inv, hbits, hbit, hk, hfuel, hA, hax, hrem => by
    obtain ⟨f, rfl⟩ : ∃ f, fuel = f + 1 := ⟨fuel - 1, by simp at hfuel; omega⟩
    have hbk : n.testBit k = true := by have := hbits 0 (by simp); simpa using this
    obtain ⟨hρσ, heven, hPσ, hPρ⟩ := acc_geo hbk
    rw [accV_cons] at ok inv
    have hlen : (o :: os).length = os.length + 1 := rfl
    have hbits' : ∀ i, i < os.length → n.testBit (k + 1 + i) = true := by
      intro i hi
      have := hbits (i + 1) (by rw [hlen]; omega)
      rwa [show k + (i + 1) = k + 1 + i by omega] at this
    have hbit' : n.testBit (k + 1 + os.length) = false := by
      rwa [hlen, show k + (os.length + 1) = k + 1 + os.length by omega] at hbit
    have hk' : k + 1 + os.length ≤ 63 := by rw [hlen] at hk; omega
    have hfuel' : os.length < f := by rw [hlen] at hfuel; omega
    rw [hlen, show k + (os.length + 1) = k + 1 + os.length by omega]
    have L := laws_of_ok nz ok
    -- the entries of the two trees
    have hσent : ((k, n >>> k), some a) ∈ (Y ++ lowV n (k + 1) os) ++ [(rootPos n k, o), ((k, n >>> k), some a)] := by simp
    have hρent : (rootPos n k, o) ∈ (Y ++ lowV n (k + 1) os) ++ [(rootPos n k, o), ((k, n >>> k), some a)] := by simp
    have hσa := head_some hσent
    have hσR : IsRoot ((Y ++ lowV n (k + 1) os) ++ [(rootPos n k, o), ((k, n >>> k), some a)]) (k, n >>> k) := ⟨_, hσent, rfl⟩
    have hρR : IsRoot ((Y ++ lowV n (k + 1) os) ++ [(rootPos n k, o), ((k, n >>> k), some a)]) (rootPos n k) := ⟨_, hρent, rfl⟩
    have hp : pNode.hash = a.hash := by
      obtain ⟨b, hb⟩ := inv.true_hash _ _ hA
      exact (L.func _ _ _ _ _ hb hσa).1
    -- the stored root on row `k`
    have hroot := inv.roots_stored _ hρR
    obtain ⟨node, hnode⟩ : ∃ node, A (rootPos n k) = some node := by
      cases h : A (rootPos n k) with
      | none => exact absurd h hroot
      | some v => exact ⟨v, rfl⟩
    obtain ⟨bn, hbn⟩ := inv.true_hash _ _ hnode
    cases o with
    | some tr =>
      -- step A
      have htr := head_some hρent
      have hnh : node.hash = tr.hash := (L.func _ _ _ _ _ hbn htr).1
      have hnz : node.hash ≠ zero := by
        rw [hnh]
        exact ctree_hash_ne_zero nz tr (fun x hx => ok.nz x (List.mem_flatMap.2 ⟨_, hρent, hx⟩)) 0 0 _
          (nodes_head tr 0 0)
      obtain ⟨m', hstep, rep', hnl', hfull'⟩ := addLoop_step_nonempty rep hn hn63 hfit hfull hbk hnode hnz add pNode f
      have hAP : pruneA (upd A (k + 1, n >>> (k + 1)) (some ⟨ph node.hash pNode.hash, false⟩)) (rootPos n k)
          (k + 1, n >>> (k + 1)) = some ⟨ph node.hash pNode.hash, false⟩ := by
        rw [pruneA_at_other hPρ.symm, upd_self]
      rw [hnh, hp] at rep' hstep hAP
      rw [hstep]
      -- everything in terms of `ρ` and `sib ρ`
      have hσρ : (k, n >>> k) = sib (rootPos n k) := by rw [hρσ, sib_sib]
      rw [← hPρ] at rep' hAP ⊢
      generalize rootPos n k = ρ at *
      generalize (k, n >>> k) = σ at *
      subst hσρ
      obtain ⟨ok', hN', hR', hfresh⟩ := stepA_pf (Y ++ lowV n (k + 1) os) ρ tr a heven ok
      have L' := laws_of_ok nz ok'
      have inv' := stepA (A := A) (C := C) L' inv (a := tr.hash) (b := a.hash) hρR hσR htr hσa hN' hR' hfresh
      rw [hPρ] at inv' ok' rep' hAP ⊢
      rw [accV_next] at inv' ok'
      obtain ⟨m'', A'', C'', hloop, rep'', hnl'', hfull'', inv'', hdom⟩ :=
        addLoop_spec nz add Y K hn63 hfit os (k + 1) (.node tr a) m' _ C _ f rep' (hnl'.trans hn) (hfull'.trans hfull) ok' inv'
          hbits' hbit' hk' hfuel' hAP (fun y hy => by cases hy) hrem
      exact ⟨m'', A'', C'', hloop, rep'', hnl''.trans hnl', hfull'', inv'', hdom⟩
    | none =>
      -- step B
      have hρN := head_none hρent
      have hz : node.hash = zero := (L.func _ _ _ _ _ hbn hρN).1
      obtain ⟨hρroot, _, hρbelow⟩ := L.zero_root _ false hρN
      have hcu := cacheUp_eq (P := (k + 1, n >>> (k + 1))) L inv hσa hp hax hrem
      have h3 : ∀ q, SUnder (rootPos n k) q → A q = none := by
        intro q hq
        cases hAq : A q with
        | none => rfl
        | some l =>
          obtain ⟨b, hb⟩ := inv.true_hash q l hAq
          have := hρbelow q _ b hb hq.1
          have h2 := hq.2; rw [this] at h2; omega
      have hc : ∀ c v, SUnder (k, n >>> k) c → A c = some v →
          ∀ t, cacheUp add pNode (k + 1, n >>> (k + 1)) C v.hash = some t → t = c := by
        intro c v hcs hAc t ht
        obtain ⟨b, hb⟩ := inv.true_hash c v hAc
        rw [hcu] at ht
        split at ht
        · rename_i hCσ
          have hm := inv.cached_pos _ _ hCσ
          have := L.leaf_hash _ _ c b hm hb
          have h2 := hcs.2; rw [this] at h2; omega
        · have hm := inv.cached_pos _ _ ht
          exact (L.leaf_hash _ _ c b hm hb).symm
      have hc2 : ∀ x t, cacheUp add pNode (k + 1, n >>> (k + 1)) C x = some t → SUnder (k, n >>> k) t →
          ∃ v, A t = some v ∧ v.hash = x := by
        intro x t ht hts
        rw [hcu] at ht
        split at ht
        · simp only [Option.some.injEq] at ht
          subst ht
          have h2 : k + 1 < k := hts.2
          omega
        · have hm := inv.cached_pos _ _ ht
          have hk := inv.cache_sub _ _ ht
          have hnr := L.not_root_of_sunder hσa hm hts
          have hst := inv.has_needed t x true hm hnr (Or.inl ⟨x, hk, hm⟩)
          cases hAt : A t with
          | none => exact absurd hAt hst
          | some v =>
            obtain ⟨b, hb⟩ := inv.true_hash t v hAt
            exact ⟨v, rfl, (L.func _ _ _ _ _ hb hm).1⟩
      obtain ⟨m', hstep, rep', hnl', hfull'⟩ :=
        addLoop_step_empty rep hn hn63 hfit hfull hbk hnode hz add pNode f h3 hc hc2
      rw [hstep]
      have e : cacheUp add pNode (k + 1, n >>> (k + 1)) C =
          fun y => if C y = some (k, n >>> k) then some (parent (k, n >>> k)) else C y := by
        funext y; rw [hcu, hPσ]
      rw [e] at rep'
      rw [← hPσ] at rep' ⊢
      -- everything in terms of `σ` and `sib σ`
      generalize (k, n >>> k) = σ at *
      generalize rootPos n k = ρ at *
      subst hρσ
      have rep2 : Rep m' T (pruneA (liftAll σ A) (sib σ)) (liftCAll σ C) := by
        refine rep'.congr ?_ ?_
        · intro q
          have : liftAll σ A = upd (liftA σ (upd (upd A (sib σ) none) σ none)) (parent σ) (some pNode) := by
            funext q'; exact (liftAll_eq hA q').symm
          rw [this]
        · intro x; rw [liftC_eq]
      obtain ⟨ok', hN', hR'⟩ := stepB_pf (Y ++ lowV n (k + 1) os) σ a ok
      have L' := laws_of_ok nz ok'
      have inv' := stepB (A := A) (C := C) L L' inv hρN hσR hA hN' hR'
      have hAP : pruneA (liftAll σ A) (sib σ) (parent σ) = some pNode := by
        rw [pruneA_at_other (by rw [parent_sib]), liftAll_P, hA]
      rw [hPσ] at inv' ok' hAP ⊢
      rw [accV_next] at inv' ok'
      have hrem' : (liftCAll σ C add.hash).isSome = true → add.remember = true := by
        intro h; apply hrem
        unfold liftCAll at h
        cases hC : C add.hash with
        | none => rw [hC] at h; simp at h
        | some t => rfl
      obtain ⟨m'', A'', C'', hloop, rep'', hnl'', hfull'', inv'', hdom⟩ :=
        addLoop_spec nz add Y K hn63 hfit os (k + 1) a m' _ _ pNode f rep2 (hnl'.trans hn) (hfull'.trans hfull) ok' inv'
          hbits' hbit' hk' hfuel' hAP hax hrem'
      refine ⟨m'', A'', C'', hloop, rep'', hnl''.trans hnl', hfull'', inv'', ?_⟩
      intro y
      rw [hdom]
      unfold liftCAll
      cases C y <;> rfl

end loop

/-! ### one addition -/

theorem liveLeaves_add (F : Forest H) (x : H) : (F.add x).liveLeaves = F.liveLeaves ++ [x] := by
  unfold Forest.liveLeaves Forest.add
  simp [List.filterMap_append]

theorem hyg_add {F : Forest H} (hy : Hyg F) {x : H} (hfresh : x ∉ F.liveLeaves) (hx0 : x ≠ zero)
    (hxph : ∀ u v : H, x ≠ ph u v) : Hyg (F.add x) where
  nodup := by
    rw [liveLeaves_add]
    refine List.nodup_append.2 ⟨hy.nodup, by simp, ?_⟩
    intro a ha b hb
    simp only [List.mem_singleton] at hb
    subst hb
    intro e; subst e; exact hfresh ha
  nz := by
    intro y hy'
    rw [liveLeaves_add, List.mem_append, List.mem_singleton] at hy'
    rcases hy' with h | rfl
    · exact hy.nz y h
    · exact hx0
  nph := by
    intro y hy'
    rw [liveLeaves_add, List.mem_append, List.mem_singleton] at hy'
    rcases hy' with h | rfl
    · exact hy.nph y h
    · exact hxph

theorem forestRows_succ_le (n : Nat) : forestRows (n + 1) ≤ forestRows n + 1 := by
  apply SpecView.forestRows_le
  have := SpecView.le_two_pow_forestRows n
  have hp := Nat.two_pow_pos (forestRows n)
  rw [Nat.pow_succ]; omega

theorem trailing_le_63 {t c n : Nat} (hn : n = 2 ^ (t + 1) * c + (2 ^ t - 1)) (hlt : n < 2 ^ 63) : t ≤ 63 := by
  apply Classical.byContradiction
  intro h
  have : 2 ^ 64 ≤ 2 ^ t := Nat.pow_le_pow_right (by decide) (by omega)
  omega

/-- the core of `addSingle` once the leaf has been stored (any allocation `T ≥ TreeRows(n+1)`) -/
theorem addSingle_core (nz : NZ H) {m1 : MapPollard H} {F : Forest H} {T : Nat} {A : Pos → Option (Leaf H)}
    {C : H → Option Pos} (a : Leaf H) (hn : F.numLeaves + 1 < 2 ^ 63) (hy : Hyg F)
    (hfit : forestRows (F.numLeaves + 1) ≤ T)
    (inv : AInv A C F.nodes (FRoot F) (fun x => (C x).isSome = true) (fun _ => False))
    (rep1 : Rep m1 T (upd A (0, F.numLeaves) (some a))
      (if a.remember = true then upd C a.hash (some (0, F.numLeaves)) else C))
    (hnl : m1.numLeaves = BitVec.ofNat 64 F.numLeaves) (hfull : m1.full = false)
    (hfresh : a.hash ∉ F.liveLeaves) (hx0 : a.hash ≠ zero) (hxph : ∀ u v : H, a.hash ≠ ph u v) :
    ∃ m2 A2 C2, MapPollard.addLoop a (H8 T) 65 0#8 (encP T (0, F.numLeaves)) a m1 = (m2, .ok ()) ∧
      Rep m2 T A2 C2 ∧ m2.numLeaves = m1.numLeaves ∧ m2.full = false ∧
      AInv A2 C2 (F.add a.hash).nodes (FRoot (F.add a.hash)) (fun x => (C2 x).isSome = true) (fun _ => False) ∧
      (∀ y, (C2 y).isSome = true ↔ ((C y).isSome = true ∨ (a.remember = true ∧ y = a.hash))) := by
  have hn64 : F.numLeaves < 2 ^ 64 := by omega
  have L := laws_forest nz F hn64 hy
  -- step 0
  obtain ⟨ok0, hnodes0⟩ := step0_pf F a.hash (by omega) hy hfresh hx0 hxph
  have hN0 : ∀ e, e ∈ PForest.nodes (ofForest F ++ [((0, F.numLeaves), some (CTree.leaf a.hash))]) ↔
      e ∈ F.nodes ∨ e = ((0, F.numLeaves), a.hash, true) := by
    intro e; rw [hnodes0, List.mem_append, List.mem_singleton]
  have hR0 : ∀ z, IsRoot (ofForest F ++ [((0, F.numLeaves), some (CTree.leaf a.hash))]) z ↔
      FRoot F z ∨ z = (0, F.numLeaves) := by
    intro z
    rw [PForestAdd.isRoot_append, isRoot_ofForest F hn64, isRoot_single]
    rfl
  have hpos : ∀ q h b, (q, h, b) ∈ F.nodes → ¬ Anc q (0, F.numLeaves) := by
    intro q h b hm ha
    have h1 := MapAdd.node_lt hm
    simp only at h1
    have h2 : q.2 = F.numLeaves / 2 ^ (q.1 - 0) := ha.2
    rw [Nat.sub_zero] at h2
    have := Nat.lt_mul_div_succ F.numLeaves (Nat.two_pow_pos q.1)
    rw [← h2, Nat.mul_comm] at this
    omega
  have hxN : ∀ q b, (q, a.hash, b) ∉ F.nodes := by
    intro q b hm
    rw [← nodes_ofForest] at hm
    have := hash_leaf_mem hm hx0 hxph
    rw [leaves_ofForest F hn64] at this
    exact hfresh this
  have hKx : ¬ ((C a.hash).isSome = true) := by
    intro h
    obtain ⟨t, ht⟩ := Option.isSome_iff_exists.1 h
    exact hxN t true (inv.cached_pos _ _ ht)
  have inv0 := step0 (rem := a.remember) L inv hN0 hR0 hpos hxN hKx
  have ea : (⟨a.hash, a.remember⟩ : Leaf H) = a := rfl
  rw [ea] at inv0
  -- decomposition
  obtain ⟨t, c, htc⟩ := exists_trailing_ones F.numLeaves
  have ht63 := trailing_le_63 htc (by omega)
  obtain ⟨Y, os, hlen, hdec, hdec', hbits, hbit⟩ := add_decomp F a.hash htc ht63
  have hV0 : ofForest F ++ [((0, F.numLeaves), some (CTree.leaf a.hash))] = accV F.numLeaves 0 Y os (.leaf a.hash) := by
    unfold accV; rw [hdec, Nat.shiftRight_zero]
  rw [hV0] at ok0 inv0
  have hA0 : upd A (0, F.numLeaves) (some a) (0, F.numLeaves >>> 0) = some a := by
    rw [Nat.shiftRight_zero, upd_self]
  have hrem0 : ((if a.remember = true then upd C a.hash (some (0, F.numLeaves)) else C) a.hash).isSome = true →
      a.remember = true := by
    intro h
    by_cases hr : a.remember = true
    · exact hr
    · rw [if_neg hr] at h; exact absurd h hKx
  have h8 : (0#8 : U8) = H8 0 := rfl
  have hpos0 : encP T (0, F.numLeaves) = encP T (0, F.numLeaves >>> 0) := by rw [Nat.shiftRight_zero]
  obtain ⟨m2, A2, C2, hloop, rep2, hnl2, hfull2, inv2, hdom⟩ :=
    addLoop_spec nz a Y (fun y => (C y).isSome = true ∨ (a.remember = true ∧ y = a.hash)) hn hfit os 0
      (.leaf a.hash) m1 _ _ a 65 rep1 hnl hfull ok0 inv0
      (fun i hi => by rw [Nat.zero_add]; exact hbits i (by omega))
      (by rw [Nat.zero_add, hlen]; exact hbit) (by omega) (by omega) hA0
      (fun y hy => by cases hy; rfl) hrem0
  rw [Nat.zero_add, hlen, ← hdec', nodes_ofForest] at inv2
  have hn64' : (F.add a.hash).numLeaves < 2 ^ 64 := by rw [MapAdd.numLeaves_add]; omega
  have hdomK : ∀ y, (C2 y).isSome = true ↔ ((C y).isSome = true ∨ (a.remember = true ∧ y = a.hash)) := by
    intro y
    rw [hdom]
    by_cases hr : a.remember = true
    · rw [if_pos hr, upd_apply]
      by_cases hyx : y = a.hash
      · simp [hyx, hr]
      · simp [hyx]
    · simp [hr]
  refine ⟨m2, A2, C2, ?_, rep2, hnl2, hfull2, ?_, hdomK⟩
  · rw [h8, hpos0]; exact hloop
  · exact (inv2.congr_R (isRoot_ofForest _ hn64')).congr_K (fun y => (hdomK y).symm)

/-- **`addSingle` preserves the strong invariant** (merging case, empty roots, and growth of
`TotalRows` included): the new leaf is appended to the specification forest, cached iff its
`Remember` flag is set -/
theorem sinv_addSingle (nz : NZ H) {m : MapPollard H} {F : Forest H} (s : SInv m F) (a : Leaf H)
    (hn : F.numLeaves + 1 < 2 ^ 63) (hfresh : a.hash ∉ F.liveLeaves) (hx0 : a.hash ≠ zero)
    (hxph : ∀ u v : H, a.hash ≠ ph u v) :
    ∃ m', MapPollard.addSingle a m = (m', .ok ()) ∧
      SInv { m' with numLeaves := m'.numLeaves + 1 } (F.add a.hash) ∧
      (∀ y, m'.hasCached y = true ↔ (m.hasCached y = true ∨ (a.remember = true ∧ y = a.hash))) := by
  obtain ⟨A, C, rep, inv⟩ := s.abs
  have hrowsF : forestRows F.numLeaves ≤ m.totalRows.toNat := s.rows_le
  -- the allocation used by the addition
  obtain ⟨T, m1, hfit, hT63, hstart, rep1, hnl1, hfull1⟩ : ∃ T m1, forestRows (F.numLeaves + 1) ≤ T ∧ T ≤ 63 ∧
      MapPollard.addSingle a m = MapPollard.addLoop a (H8 T) 65 0#8 (encP T (0, F.numLeaves)) a m1 ∧
      Rep m1 T (upd A (0, F.numLeaves) (some a))
        (if a.remember = true then upd C a.hash (some (0, F.numLeaves)) else C) ∧
      m1.numLeaves = m.numLeaves ∧ m1.full = m.full := by
    by_cases hfit : forestRows (F.numLeaves + 1) ≤ m.totalRows.toNat
    · obtain ⟨m1, h1, h2, h3, h4⟩ := addSingle_start rep s.n_eq hn hfit s.full a
      exact ⟨_, m1, hfit, s.total_le, h1, h2, h3, h4⟩
    · obtain ⟨m1, h1, h2, h3, h4⟩ := addSingle_start_grow rep s.n_eq hn hrowsF (by omega) s.full a
      have := forestRows_succ_le F.numLeaves
      exact ⟨_, m1, by omega, h2.T_le, h1, h2, h3, h4⟩
  obtain ⟨m2, A2, C2, hloop, rep2, hnl2, hfull2, inv2, hdomK⟩ :=
    addSingle_core nz a hn s.hyg hfit inv rep1 (hnl1.trans s.n_eq) (hfull1.trans s.full) hfresh hx0 hxph
  refine ⟨m2, hstart.trans hloop, ?_, ?_⟩
  · have hT2 : m2.totalRows.toNat = T := by rw [rep2.rows]; exact toNat_H8 hT63
    refine { n_lt := by rw [MapAdd.numLeaves_add]; exact hn, n_eq := ?_, rows_le := ?_, total_le := ?_,
             full := hfull2, hyg := hyg_add s.hyg hfresh hx0 hxph, abs := ?_ }
    · show m2.numLeaves + 1 = _
      rw [hnl2, hnl1, s.n_eq, MapAdd.numLeaves_add, BitVec.ofNat_add]; rfl
    · show forestRows (F.add a.hash).numLeaves ≤ m2.totalRows.toNat
      rw [MapAdd.numLeaves_add, hT2]; exact hfit
    · show m2.totalRows.toNat ≤ 63
      rw [hT2]; exact hT63
    · refine ⟨A2, C2, ?_, inv2⟩
      show Rep _ m2.totalRows.toNat A2 C2
      rw [hT2]
      exact rep2.of_same rfl (fun _ => rfl) (fun _ => rfl)
  · intro y
    rw [rep2.hasCached, rep.hasCached]
    exact hdomK y

/-! ### a list of additions -/

/-- **`add` preserves the strong invariant**: all leaves are appended to the specification
forest; exactly the remembered ones join the cache -/
theorem sinv_add (nz : NZ H) : ∀ (adds : List (Leaf H)) {m : MapPollard H} {F : Forest H}, SInv m F →
    F.numLeaves + adds.length < 2 ^ 63 →
    (∀ a ∈ adds, a.hash ∉ F.liveLeaves ∧ a.hash ≠ zero ∧ ∀ u v : H, a.hash ≠ ph u v) →
    (adds.map (·.hash)).Nodup →
    ∃ m', MapPollard.add adds m = (m', .ok ()) ∧ SInv m' (F.addMany (adds.map (·.hash))) ∧
      (∀ y, m'.hasCached y = true ↔ (m.hasCached y = true ∨ ∃ a ∈ adds, a.remember = true ∧ a.hash = y))
  | [], m, F, s, _, _, _ => by
    refine ⟨m, rfl, ?_, ?_⟩
    · rw [List.map_nil, Spec.addMany_nil]; exact s
    · intro y; simp
  | a :: rest, m, F, s, hn, hfr, hnd => by
    rw [List.length_cons] at hn
    obtain ⟨h1, h2, h3⟩ := hfr a List.mem_cons_self
    obtain ⟨m1, hadd, s1, hc1⟩ := sinv_addSingle nz s a (by omega) h1 h2 h3
    rw [List.map_cons, List.nodup_cons] at hnd
    have hfr' : ∀ b ∈ rest, b.hash ∉ (F.add a.hash).liveLeaves ∧ b.hash ≠ zero ∧ ∀ u v : H, b.hash ≠ ph u v := by
      intro b hb
      obtain ⟨g1, g2, g3⟩ := hfr b (List.mem_cons_of_mem _ hb)
      refine ⟨?_, g2, g3⟩
      rw [liveLeaves_add, List.mem_append, List.mem_singleton]
      rintro (h | h)
      · exact g1 h
      · exact hnd.1 (by rw [← h]; exact List.mem_map_of_mem hb)
    obtain ⟨m2, hrest, s2, hc2⟩ := sinv_add nz rest s1 (by rw [MapAdd.numLeaves_add]; omega) hfr' hnd.2
    refine ⟨m2, ?_, ?_, ?_⟩
    · unfold MapPollard.add
      rw [hadd]; exact hrest
    · rw [List.map_cons, Spec.addMany_cons]; exact s2
    · intro y
      rw [hc2]
      have : ({ m1 with numLeaves := m1.numLeaves + 1 } : MapPollard H).hasCached y = m1.hasCached y := rfl
      rw [this, hc1]
      constructor
      · rintro ((h | ⟨e1, e2⟩) | ⟨b, hb, e1, e2⟩)
        · exact Or.inl h
        · exact Or.inr ⟨a, List.mem_cons_self, e1, e2.symm⟩
        · exact Or.inr ⟨b, List.mem_cons_of_mem _ hb, e1, e2⟩
      · rintro (h | ⟨b, hb, e1, e2⟩)
        · exact Or.inl (Or.inl h)
        · rcases List.mem_cons.1 hb with rfl | hb'
          · exact Or.inl (Or.inr ⟨e1, e2.symm⟩)
          · exact Or.inr ⟨b, hb', e1, e2⟩

end UtreexoVerif.Proofs.MapAddMerge
