/-
  Layer 2 for `removeSingle` (continued): the loops `updateHashes` / `forgetUnneededDel` on the
  abstract state (`updLoopA` / `fgLoopA` of `Proofs/MapRemoveRep.lean`) and the storage invariant
  across the removal of everything below a non-root node (`removeSingle_nonroot_inv`).
-/
import UtreexoVerif.Proofs.MapRemoveSteps
import UtreexoVerif.Proofs.MapRemoveRep
open UtreexoVerif Model Spec Spec.Forest Proofs MapInv MapPrune MapRep MapLiftGeo PForest MapAInv MapLiftCore Hasher

namespace UtreexoVerif.Proofs.MapRemoveLoops
open MapRemoveRep MapRemoveSteps
set_option linter.unusedSectionVars false
set_option linter.unusedVariables false
variable {H : Type} [DecidableEq H] [Hasher H]
variable {A : Pos → Option (Leaf H)} {C : H → Option Pos} {N'' : List (Pos × H × Bool)}
  {R : Pos → Prop} {K : H → Prop}

/-- the exemption set while walking up: `pos`, its sibling, and everything above -/
def Eup (pos : Pos) : Pos → Prop := fun z => Anc (parent z) (parent pos)

/-- a stored non-root node is not exempt at a root level -/
theorem eup_root_vacuous (L : Laws N'' R) {ρ : Pos} (hρ : R ρ) {z : Pos} {h : H} {b : Bool}
    (hz : (z, h, b) ∈ N'') (hnr : ¬ R z) : ¬ Eup ρ z := by
  intro hE
  obtain ⟨hp, hpm, _⟩ := L.parent_node z h b hz hnr
  obtain ⟨r, hr, ha⟩ := L.under_root _ hp false hpm
  have hPP : Anc (parent z) ρ := Anc.trans hE (anc_parent_self _)
  have := L.root_disj r ρ ρ hr hρ (Anc.trans ha hPP) (Anc.refl _)
  subst this
  have h1 := (Anc.trans ha hE).1
  have : (parent r).1 = r.1 + 1 := rfl
  omega

/-- **the walk of `forgetUnneededDel`** from below the node `p = parent pos` up to the root -/
theorem walk (L : Laws N'' R) (n : Nat) (hR : ∀ z, R z ↔ isRootPos n z = true) :
    ∀ (k : Nat) (pos : Pos) (A : Pos → Option (Leaf H)) (ρ : Pos), R ρ → Anc ρ (parent pos) →
      ρ.1 - pos.1 ≤ k → (∃ h b, (parent pos, h, b) ∈ N'') →
      AInv A C N'' R K (Eup (parent pos)) →
      AInv (fgLoopA n k pos A) C N'' R K (fun _ => False)
  | 0, pos, A, ρ, hρ, hanc, hk, hnode, inv => by
    exfalso
    have := hanc.1
    have : (parent pos).1 = pos.1 + 1 := rfl
    omega
  | k+1, pos, A, ρ, hρ, hanc, hk, hnode, inv => by
    obtain ⟨h, b, hm⟩ := hnode
    unfold fgLoopA
    by_cases hroot : isRootPos n (parent pos) = true
    · rw [if_pos hroot]
      have hRp : R (parent pos) := (hR _).2 hroot
      apply inv.change_E
      intro q l hl hnr _
      obtain ⟨bq, hq⟩ := inv.true_hash q l hl
      exact eup_root_vacuous L hRp hq hnr
    · rw [if_neg hroot]
      have hnr : ¬ R (parent pos) := fun h => hroot ((hR _).1 h)
      have hpr := AInv.prune L inv hm hnr (by
        intro c hc hE
        unfold Eup at hE
        have h1 := hE.1
        have e1 : (parent c).1 = (parent pos).1 := by
          rcases hc with hc | hc
          · rw [hc]
          · rw [hc, sib_fst]
        have e2 : (parent (parent pos)).1 = (parent pos).1 + 1 := rfl
        omega)
      have hne : parent pos ≠ ρ := fun e => hnr (e ▸ hρ)
      have hanc' : Anc ρ (parent (parent pos)) := by
        rw [anc_parentR_iff]
        refine ⟨hanc, ?_⟩
        have := hanc.1
        have hr : (parent pos).1 ≠ ρ.1 := fun e => hne (hanc.eq_of_row e.symm).symm
        omega
      obtain ⟨hp, hpm, _⟩ := L.parent_node _ h b hm hnr
      apply walk L n hR k (parent pos) _ ρ hρ hanc' (by
        show ρ.1 - (pos.1 + 1) ≤ k
        omega) ⟨hp, false, hpm⟩
      apply hpr.mono_E
      rintro z ⟨hE, h1, h2⟩
      unfold Eup at hE ⊢
      rw [anc_parentR_iff]
      refine ⟨hE, ?_⟩
      have hrow := hE.1
      have hr : (parent z).1 ≠ (parent (parent pos)).1 := by
        intro e
        have heq : parent z = parent (parent pos) := hE.eq_of_row e
        -- then `z` is `parent pos` or its sibling
        have : z = parent pos ∨ z = sib (parent pos) := by
          have hz1 : z.1 = (parent pos).1 := by
            have h0 : z.1 + 1 = (parent pos).1 + 1 := congrArg Prod.fst heq
            omega
          have hz2 : z.2 / 2 = (parent pos).2 / 2 := congrArg Prod.snd heq
          by_cases hz : z.2 = (parent pos).2
          · left; exact Prod.ext hz1 hz
          · right
            apply Prod.ext
            · rw [sib_fst]; exact hz1
            · show z.2 = if (parent pos).2 % 2 = 0 then (parent pos).2 + 1 else (parent pos).2 - 1
              split <;> omega
        rcases this with e | e
        · exact h1 e
        · exact h2 e
      omega

/-! ### `updateHashes` -/

/-- nothing is stored above `pos` and no root is met: the loop changes nothing -/
theorem updLoop_none (n T : Nat) : ∀ (k : Nat) (pos : Pos) (node : Leaf H) (A : Pos → Option (Leaf H)),
    (∀ z, Anc z pos → z ≠ pos → A z = none) → (∀ z, Anc z pos → z ≠ pos → isRootPos n z = false) →
    updLoopA n T k pos node A = A
  | 0, _, _, _, _, _ => rfl
  | k+1, pos, node, A, h1, h2 => by
    unfold updLoopA
    simp only
    split
    · have hp : Anc (parent pos) pos := anc_parent_self pos
      have hne : parent pos ≠ pos := by
        intro e; have := congrArg Prod.fst e; simp [parent] at this
      rw [h1 _ hp hne]
      simp only [Option.isSome_none, Bool.false_eq_true, if_false]
      rw [h2 _ hp hne]
      simp only [Bool.false_eq_true, if_false]
      apply updLoop_none n T k
      · intro z hz hzne
        exact h1 z (Anc.trans hz hp) (by
          intro e; rw [e] at hz
          have h0 : pos.1 + 1 ≤ pos.1 := hz.1
          omega)
      · intro z hz hzne
        exact h2 z (Anc.trans hz hp) (by
          intro e; rw [e] at hz
          have h0 : pos.1 + 1 ≤ pos.1 := hz.1
          omega)
    · rfl

theorem child_even {pos : Pos} (h : pos.2 % 2 = 0) :
    pos = ((parent pos).1 - 1, 2 * (parent pos).2) ∧ sib pos = ((parent pos).1 - 1, 2 * (parent pos).2 + 1) := by
  obtain ⟨r, o⟩ := pos
  simp only at h
  constructor
  · show (r, o) = (r + 1 - 1, 2 * (o / 2)); rw [Nat.add_sub_cancel]; congr 1; omega
  · show (r, if o % 2 = 0 then o + 1 else o - 1) = (r + 1 - 1, 2 * (o / 2) + 1)
    rw [Nat.add_sub_cancel, if_pos h]; congr 1; omega

theorem child_odd {pos : Pos} (h : ¬ pos.2 % 2 = 0) :
    sib pos = ((parent pos).1 - 1, 2 * (parent pos).2) ∧ pos = ((parent pos).1 - 1, 2 * (parent pos).2 + 1) := by
  obtain ⟨r, o⟩ := pos
  simp only at h
  constructor
  · show (r, if o % 2 = 0 then o + 1 else o - 1) = (r + 1 - 1, 2 * (o / 2))
    rw [Nat.add_sub_cancel, if_neg h]; congr 1; omega
  · show (r, o) = (r + 1 - 1, 2 * (o / 2) + 1); rw [Nat.add_sub_cancel]; congr 1; omega

/-- **the loop of `updateHashes` below a root**: the strict ancestors of `pos` up to the root get
their hashes in `N''`, stored-ness is unchanged, nothing else changes -/
theorem updLoop_below (L : Laws N'' R) (n T : Nat) (hR : ∀ z, R z ↔ isRootPos n z = true)
    (hRT : ∀ ρ, R ρ → ρ.1 ≤ T) {fl : Bool} :
    ∀ (k : Nat) (pos : Pos) (node : Leaf H) (A : Pos → Option (Leaf H)) (ρ : Pos), R ρ → Anc ρ pos → pos ≠ ρ →
      k + pos.1 = T + 1 → (∃ f, (pos, node.hash, f) ∈ N'') → node.remember = fl →
      (∀ z, Anc z pos → Anc ρ z → z ≠ ρ → ∃ l f, A (sib z) = some l ∧ (sib z, l.hash, f) ∈ N'') →
      (∀ q, ¬ (Anc q pos ∧ q ≠ pos ∧ Anc ρ q) → updLoopA n T k pos node A q = A q) ∧
      (∀ z, Anc z pos → z ≠ pos → Anc ρ z →
        (updLoopA n T k pos node A z).isSome = (A z).isSome ∧
        ∀ l, updLoopA n T k pos node A z = some l → (z, l.hash, false) ∈ N'' ∧ l.remember = fl)
  | 0, pos, node, A, ρ, hρ, hanc, hne, hk, hnode, hrem, hsibs => by
    exfalso
    have h1 := hanc.1
    have h2 := hRT ρ hρ
    have hr : pos.1 ≠ ρ.1 := fun e => hne (hanc.eq_of_row e.symm).symm
    omega
  | k+1, pos, node, A, ρ, hρ, hanc, hne, hk, hnode, hrem, hsibs => by
    have h1 := hanc.1
    have h2 := hRT ρ hρ
    have hr : pos.1 ≠ ρ.1 := fun e => hne (hanc.eq_of_row e.symm).symm
    have hlt : pos.1 < T := by omega
    obtain ⟨f, hpm⟩ := hnode
    have hnr : ¬ R pos := by
      intro h; exact hne (L.root_disj pos ρ pos h hρ (Anc.refl _) hanc)
    obtain ⟨hp, hparm, hpnz⟩ := L.parent_node pos _ f hpm hnr
    obtain ⟨hrow1, a, b, fa, fb, hca, hcb, hpe⟩ := L.inner_hash _ hp hparm hpnz
    obtain ⟨ls, fs, hAs, hsm⟩ := hsibs pos (Anc.refl _) hanc hne
    have hρp : Anc ρ (parent pos) := by
      rw [anc_parentR_iff]; exact ⟨hanc, by omega⟩
    have hppos : Anc (parent pos) pos := anc_parent_self pos
    have hpne : parent pos ≠ pos := by
      intro e; have := congrArg Prod.fst e; simp [parent] at this
    -- the new node
    have hnode' : ((if pos.2 % 2 = 0 then (⟨ph node.hash ((A (sib pos)).getD ⟨zero, false⟩).hash, node.remember⟩ : Leaf H)
        else ⟨ph ((A (sib pos)).getD ⟨zero, false⟩).hash node.hash, node.remember⟩)) = ⟨hp, fl⟩ := by
      rw [hAs]
      simp only [Option.getD_some]
      by_cases he : pos.2 % 2 = 0
      · rw [if_pos he]
        obtain ⟨e1, e2⟩ := child_even he
        rw [← e1] at hca
        rw [← e2] at hcb
        have ha := (L.func _ _ _ _ _ hca hpm).1
        have hb := (L.func _ _ _ _ _ hcb hsm).1
        rw [hpe, ha, hb, hrem]
      · rw [if_neg he]
        obtain ⟨e1, e2⟩ := child_odd he
        rw [← e1] at hca
        rw [← e2] at hcb
        have ha := (L.func _ _ _ _ _ hca hsm).1
        have hb := (L.func _ _ _ _ _ hcb hpm).1
        rw [hpe, ha, hb, hrem]
    unfold updLoopA
    simp only
    rw [hnode', if_pos hlt]
    generalize hA' : (if (A (parent pos)).isSome = true then upd A (parent pos) (some ⟨hp, fl⟩) else A) = A'
    have hA'p : (A' (parent pos)).isSome = (A (parent pos)).isSome ∧
        ∀ l, A' (parent pos) = some l → l = ⟨hp, fl⟩ := by
      rw [← hA']
      by_cases hs : (A (parent pos)).isSome = true
      · rw [if_pos hs, upd_self]
        exact ⟨by rw [hs]; rfl, fun l hl => by simp only [Option.some.injEq] at hl; exact hl.symm⟩
      · rw [if_neg hs]
        refine ⟨rfl, fun l hl => ?_⟩
        rw [hl] at hs; exact absurd rfl hs
    have hA'o : ∀ q, q ≠ parent pos → A' q = A q := by
      intro q hq
      rw [← hA']
      split
      · exact upd_ne _ _ hq
      · rfl
    by_cases hroot : isRootPos n (parent pos) = true
    · rw [if_pos hroot]
      have hpρ : parent pos = ρ := L.root_disj _ ρ pos ((hR _).2 hroot) hρ hppos hanc
      constructor
      · intro q hq
        apply hA'o
        intro e
        apply hq
        rw [e]
        exact ⟨hppos, hpne, hρp⟩
      · intro z hz hzne hρz
        have hzp : z = parent pos := by
          have : Anc z (parent pos) := by
            rw [anc_parentR_iff]
            refine ⟨hz, ?_⟩
            have := hz.1
            have hr' : z.1 ≠ pos.1 := fun e => hzne (hz.eq_of_row e)
            omega
          rw [hpρ] at this ⊢
          exact Anc.antisymm this hρz
        subst hzp
        refine ⟨hA'p.1, fun l hl => ?_⟩
        rw [hA'p.2 l hl]
        exact ⟨hparm, rfl⟩
    · rw [if_neg hroot]
      have hpne' : parent pos ≠ ρ := fun e => hroot ((hR _).1 (e ▸ hρ))
      have hsibs' : ∀ z, Anc z (parent pos) → Anc ρ z → z ≠ ρ →
          ∃ l f, A' (sib z) = some l ∧ (sib z, l.hash, f) ∈ N'' := by
        intro z hz hρz hzρ
        have hne2 : sib z ≠ parent pos := by
          intro e
          have hz1 := hz.1
          by_cases hrow : z.1 = (parent pos).1
          · have := hz.eq_of_row hrow
            rw [this] at e
            exact sib_ne _ e
          · have : (sib z).1 = z.1 := sib_fst z
            rw [e] at this
            omega
        rw [hA'o _ hne2]
        exact hsibs z (Anc.trans hz hppos) hρz hzρ
      obtain ⟨ih1, ih2⟩ := updLoop_below L n T hR hRT k (parent pos) ⟨hp, fl⟩ A' ρ hρ hρp hpne'
        (by show k + (pos.1 + 1) = T + 1; omega) ⟨false, hparm⟩ rfl hsibs'
      constructor
      · intro q hq
        by_cases hqp : q = parent pos
        · exfalso; apply hq; rw [hqp]; exact ⟨hppos, hpne, hρp⟩
        · rw [ih1 q (by
            rintro ⟨h1', h2', h3'⟩
            exact hq ⟨Anc.trans h1' hppos, by
              intro e; rw [e] at h1'
              have h0 : pos.1 + 1 ≤ pos.1 := h1'.1
              omega, h3'⟩)]
          exact hA'o q hqp
      · intro z hz hzne hρz
        by_cases hzp : z = parent pos
        · subst hzp
          rw [ih1 _ (by rintro ⟨_, h, _⟩; exact h rfl)]
          refine ⟨hA'p.1, fun l hl => ?_⟩
          rw [hA'p.2 l hl]
          exact ⟨hparm, rfl⟩
        · have hzpp : Anc z (parent pos) := by
            rw [anc_parentR_iff]
            refine ⟨hz, ?_⟩
            have := hz.1
            have hr' : z.1 ≠ pos.1 := fun e => hzne (hz.eq_of_row e)
            omega
          obtain ⟨g1, g2⟩ := ih2 z hzpp hzp hρz
          rw [hA'o z hzp] at g1
          exact ⟨g1, g2⟩

/-! ### one removal below a non-root node -/

/-- the node list between the lift and the re-hashing (ancestors still carry their old hashes) -/
def liftN (σ : Pos) (N : List (Pos × H × Bool)) : List (Pos × H × Bool) :=
  N.filter (fun e => ¬ Anc (parent σ) e.1) ++ (N.filter (fun e => Anc σ e.1)).map (fun e => (liftP σ e.1, e.2))

theorem mem_liftN {σ : Pos} {N : List (Pos × H × Bool)} (e : Pos × H × Bool) :
    e ∈ liftN σ N ↔ (¬ Anc (parent σ) e.1 ∧ e ∈ N) ∨ (∃ c, Anc σ c ∧ e.1 = liftP σ c ∧ (c, e.2) ∈ N) := by
  unfold liftN
  rw [List.mem_append, List.mem_filter, List.mem_map]
  constructor
  · rintro (⟨h1, h2⟩ | ⟨e', h1, rfl⟩)
    · exact Or.inl ⟨by simpa using h2, h1⟩
    · rw [List.mem_filter] at h1
      exact Or.inr ⟨e'.1, by simpa using h1.2, rfl, h1.1⟩
  · rintro (⟨h1, h2⟩ | ⟨c, h1, h2, h3⟩)
    · exact Or.inl ⟨h2, by simpa using h1⟩
    · refine Or.inr ⟨(c, e.2), List.mem_filter.2 ⟨h3, by simpa using h1⟩, ?_⟩
      obtain ⟨p, v⟩ := e
      simp only at h2 ⊢
      rw [h2]

variable {N : List (Pos × H × Bool)} {K' : H → Prop}

/-- **`removeSingle` below a non-root node on the abstract state**: lift, re-hash, prune walk -/
theorem removeSingle_nonroot_inv (L : Laws N R) (L'' : Laws N'' R) (n T : Nat)
    (hR : ∀ z, R z ↔ isRootPos n z = true) (hRT : ∀ ρ, R ρ → ρ.1 ≤ T)
    (inv : AInv A C N R K (fun _ => False)) {d ρ : Pos} {h : H} {b : Bool}
    (hd : (d, h, b) ∈ N) (hnr : ¬ R d) (hρ : R ρ) (hρd : Anc ρ d)
    (hKd : ∀ t x, (t, x, true) ∈ N → Anc d t → K x ∧ C x = none)
    (hK' : ∀ x, K' x ↔ K x ∧ ∀ t, (t, x, true) ∈ N → ¬ Anc d t)
    -- the node list after the deletion (`PForestDel.del_nonroot`)
    (hD1 : ∀ e : Pos × H × Bool, e ∈ N'' →
      (¬ Anc (parent d) e.1 ∧ ¬ Anc e.1 (parent d) ∧ e ∈ N) ∨
      (∃ c, Anc (sib d) c ∧ e.1 = liftP (sib d) c ∧ (c, e.2) ∈ N) ∨
      (Anc e.1 (parent d) ∧ e.1 ≠ parent d ∧ e.2.2 = false ∧ ∃ h0, (e.1, h0, false) ∈ N))
    (hD2 : ∀ e : Pos × H × Bool, ¬ Anc (parent d) e.1 → ¬ Anc e.1 (parent d) → e ∈ N → e ∈ N'')
    (hD3 : ∀ c h' b', Anc (sib d) c → (c, h', b') ∈ N → (liftP (sib d) c, h', b') ∈ N'')
    (hD4 : ∀ z h0, (z, h0, false) ∈ N → Anc z (parent d) → z ≠ parent d → ∃ h1, (z, h1, false) ∈ N'') :
    ∃ node, A (sib d) = some node ∧
      AInv (fgLoopA n (T + 1 - d.1) d
          (updLoopA n T (T + 1 - (d.1 + 1)) (parent d) ⟨node.hash, false⟩ (liftAll (sib d) A)))
        (liftCAll (sib d) C) N'' R K' (fun _ => False) := by
  -- the sibling, the parent, a leaf below `d`
  obtain ⟨hσ, bσ, hσN⟩ := L.sib_node d h b hd hnr
  obtain ⟨hP, hPN, hPnz⟩ := L.parent_node d h b hd hnr
  have hdnz : h ≠ zero := L.nonzero_of_nonroot hd hnr
  obtain ⟨t0, x0, ht0, hdt0⟩ := L.has_leaf d h b hd hdnz
  have hnrσ : ¬ R (sib d) := L.not_root_of_sunder hPN hσN (by
    rw [sunder_iff_parent, parent_sib]; exact Anc.refl _)
  have hσσ : sib (sib d) = d := sib_sib d
  have hPσ : parent (sib d) = parent d := parent_sib d
  have hstored : A (sib d) ≠ none := inv.has_needed _ hσ bσ hσN hnrσ
    (Or.inr ⟨t0, ⟨x0, (hKd t0 x0 ht0 hdt0).1, ht0⟩, by rw [hσσ]; exact hdt0⟩)
  obtain ⟨node, hnode⟩ : ∃ node, A (sib d) = some node := by
    cases hA : A (sib d) with
    | none => exact absurd hA hstored
    | some v => exact ⟨v, rfl⟩
  refine ⟨node, hnode, ?_⟩
  obtain ⟨bn, hnodeN⟩ := inv.true_hash _ _ hnode
  -- rows
  have hdρ : d ≠ ρ := fun e => hnr (e ▸ hρ)
  have hd_lt : d.1 < ρ.1 := by
    have := hρd.1
    have hr : d.1 ≠ ρ.1 := fun e => hdρ (hρd.eq_of_row e.symm).symm
    omega
  have hρT := hRT ρ hρ
  have hρP : Anc ρ (parent d) := by rw [anc_parentR_iff]; exact ⟨hρd, hd_lt⟩
  have hP1 : (parent d).1 = d.1 + 1 := rfl
  -- 1. the lift
  have hR' : ∀ z, R z ↔ (z = parent (sib d) ∧ (R (sib d) ∨ R (parent (sib d)))) ∨ (R z ∧ ¬ Anc (parent (sib d)) z) := by
    intro z
    rw [hPσ]
    constructor
    · intro hz
      by_cases ha : Anc (parent d) z
      · left
        rcases anc_parent_iff'.1 ha with e | e | e
        · exact ⟨e, Or.inr (e ▸ hz)⟩
        · exfalso
          have h0 := L.root_disj z ρ z hz hρ (Anc.refl z) (Anc.trans hρd e)
          rw [h0] at e
          exact hdρ (Anc.antisymm e hρd)
        · have hσρ : Anc ρ (sib d) := Anc.trans hρP (anc_parent_sib d)
          have := L.root_disj z ρ z hz hρ (Anc.refl z) (Anc.trans hσρ e)
          rw [this] at e
          have := Anc.antisymm e hσρ
          exact absurd (this ▸ hρ) hnrσ
      · exact Or.inr ⟨hz, ha⟩
    · rintro (⟨e, h1 | h1⟩ | ⟨h1, _⟩)
      · exact absurd h1 hnrσ
      · exact e ▸ h1
      · exact h1
  have hCδ : ∀ x t, C x = some t → ¬ Anc (sib (sib d)) t := by
    intro x t hC ha
    rw [hσσ] at ha
    have := (hKd t x (inv.cached_pos x t hC) ha).2
    rw [this] at hC; cases hC
  have hK'' : ∀ x, K' x ↔ K x ∧ ∀ t, (t, x, true) ∈ N → ¬ Anc (sib (sib d)) t := by
    intro x; rw [hσσ]; exact hK' x
  have inv1 := liftCore (N' := liftN (sib d) N) (R' := R) (K' := K') L inv ⟨hσ, bσ, hσN⟩ hstored hCδ
    (fun e => mem_liftN e) hR' hK''
  rw [hPσ] at inv1
  -- 2. the re-hashing
  let Z : Pos → Prop := fun z => Anc z (parent d) ∧ z ≠ parent d
  have not_under_of_Z : ∀ z, Z z → ¬ Anc (parent d) z := by
    intro z hz ha; exact hz.2 (Anc.antisymm hz.1 ha)
  have hsame : ∀ e : Pos × H × Bool, ¬ Z e.1 → (e ∈ N'' ↔ e ∈ liftN (sib d) N) := by
    intro e hz
    rw [mem_liftN, hPσ]
    constructor
    · intro he
      rcases hD1 e he with ⟨h1, _, h3⟩ | h | ⟨h1, h2, _⟩
      · exact Or.inl ⟨h1, h3⟩
      · exact Or.inr h
      · exact absurd ⟨h1, h2⟩ hz
    · rintro (⟨h1, h2⟩ | ⟨c, h1, h2, h3⟩)
      · refine hD2 e h1 (fun ha => ?_) h2
        by_cases he : e.1 = parent d
        · exact h1 (he ▸ Anc.refl _)
        · exact hz ⟨ha, he⟩
      · have := hD3 c e.2.1 e.2.2 h1 h3
        rw [← h2] at this
        exact this
  have hZ' : ∀ z h' f, Z z → (z, h', f) ∈ liftN (sib d) N → f = false ∧ ∃ h1, (z, h1, false) ∈ N'' := by
    intro z h' f hz hm
    rw [mem_liftN, hPσ] at hm
    rcases hm with ⟨_, hm⟩ | ⟨c, hc, he, _⟩
    · have hf : f = false := by
        cases f with
        | false => rfl
        | true =>
          exfalso
          have := L.leaf_below z h' (parent d) hP false hm hPN hz.1
          exact hz.2 this.symm
      subst hf
      exact ⟨rfl, hD4 z h' hm hz.1 hz.2⟩
    · exfalso
      apply not_under_of_Z z hz
      simp only at he
      rw [he, ← hPσ]; exact anc_parent_liftP hc
  have hZ'' : ∀ z h' f, Z z → (z, h', f) ∈ N'' → f = false ∧ ∃ h0, (z, h0, false) ∈ liftN (sib d) N := by
    intro z h' f hz hm
    rcases hD1 _ hm with ⟨_, h2, _⟩ | ⟨c, hc, he, _⟩ | ⟨_, _, h3, h0, h4⟩
    · exact absurd hz.1 h2
    · exfalso
      apply not_under_of_Z z hz
      simp only at he
      rw [he, ← hPσ]; exact anc_parent_liftP hc
    · refine ⟨h3, h0, ?_⟩
      rw [mem_liftN, hPσ]
      exact Or.inl ⟨not_under_of_Z z hz, h4⟩
  -- the lifted node at `P`
  have hPN'' : (parent d, node.hash, bn) ∈ N'' := by
    have := hD3 (sib d) node.hash bn (Anc.refl _) hnodeN
    rwa [liftP_self, hPσ] at this
  have hlA_out : ∀ q, ¬ Anc (parent d) q → liftAll (sib d) A q = A q := by
    intro q hq; exact liftAll_out (by rw [hPσ]; exact hq)
  -- nothing is stored strictly above a root
  have above_root : ∀ r z, R r → Anc z r → z ≠ r → A z = none := by
    intro r z hr hz hne
    cases hA : A z with
    | none => rfl
    | some l =>
      exfalso
      obtain ⟨bz, hzm⟩ := inv.true_hash z l hA
      obtain ⟨r', hr', ha'⟩ := L.under_root z _ bz hzm
      have := L.root_disj r' r r hr' hr (Anc.trans ha' hz) (Anc.refl r)
      subst this
      exact hne (Anc.antisymm hz ha')
  have hk1 : T + 1 - (d.1 + 1) + (parent d).1 = T + 1 := by rw [hP1]; omega
  obtain ⟨g1, g2, g3⟩ : (∀ q, ¬ Z q → updLoopA n T (T + 1 - (d.1 + 1)) (parent d) ⟨node.hash, false⟩ (liftAll (sib d) A) q
        = liftAll (sib d) A q) ∧
      (∀ z, Z z → (updLoopA n T (T + 1 - (d.1 + 1)) (parent d) ⟨node.hash, false⟩ (liftAll (sib d) A) z).isSome
        = (liftAll (sib d) A z).isSome) ∧
      (∀ z l, Z z → updLoopA n T (T + 1 - (d.1 + 1)) (parent d) ⟨node.hash, false⟩ (liftAll (sib d) A) z = some l →
        (z, l.hash, false) ∈ N'' ∧ l.remember = false) := by
    by_cases hPρ : parent d = ρ
    · -- `P` is the root: nothing above is stored
      have hnone : updLoopA n T (T + 1 - (d.1 + 1)) (parent d) ⟨node.hash, false⟩ (liftAll (sib d) A) =
          liftAll (sib d) A := by
        apply updLoop_none
        · intro z hz hne
          rw [hlA_out z (fun ha => hne (Anc.antisymm hz ha))]
          exact above_root (parent d) z (hPρ ▸ hρ) hz hne
        · intro z hz hne
          cases hr : isRootPos n z with
          | false => rfl
          | true =>
            exfalso
            have := L.root_disj z (parent d) (parent d) ((hR z).2 hr) (hPρ ▸ hρ) hz (Anc.refl _)
            exact hne this
      rw [hnone]
      refine ⟨fun _ _ => rfl, fun _ _ => rfl, ?_⟩
      intro z l hz hl
      rw [hlA_out z (not_under_of_Z z hz), above_root (parent d) z (hPρ ▸ hρ) hz.1 hz.2] at hl
      cases hl
    · -- `P` lies strictly below the root
      have hsibs : ∀ z, Anc z (parent d) → Anc ρ z → z ≠ ρ →
          ∃ l f, liftAll (sib d) A (sib z) = some l ∧ (sib z, l.hash, f) ∈ N'' := by
        intro z hz hρz hzρ
        obtain ⟨hz', bz, hzm⟩ := L.path_nodes (ρ.1 - (parent d).1)
          (L.root_node ρ hρ).choose_spec.choose_spec hPN hρP (by have := hρP.1; omega) z hρz hz
        have hnrz : ¬ R z := fun hr => hzρ (L.root_disj z ρ z hr hρ (Anc.refl z) hρz)
        obtain ⟨hs, bs, hsm⟩ := L.sib_node z hz' bz hzm hnrz
        obtain ⟨hpz, hpzm, _⟩ := L.parent_node z hz' bz hzm hnrz
        have hnrs : ¬ R (sib z) := L.not_root_of_sunder hpzm hsm (by
          rw [sunder_iff_parent, parent_sib]; exact Anc.refl _)
        have hst := inv.has_needed _ hs bs hsm hnrs
          (Or.inr ⟨t0, ⟨x0, (hKd t0 x0 ht0 hdt0).1, ht0⟩, by
            rw [sib_sib]; exact Anc.trans hz (Anc.trans (anc_parent_self d) hdt0)⟩)
        have hout : ¬ Anc (parent d) (sib z) := by
          intro ha
          have h1 := ha.1
          have h2 := hz.1
          rw [sib_fst] at h1
          have hzP : z = parent d := (hz.eq_of_row (by omega))
          rw [hzP] at ha
          exact not_anc_sib _ ha
        have hnot : ¬ Anc (sib z) (parent d) := by
          intro ha
          have := Anc.comparable ha hz (by rw [sib_fst]; exact Nat.le_refl _)
          exact not_anc_sib z this
        cases hA : A (sib z) with
        | none => exact absurd hA hst
        | some l =>
          obtain ⟨bl, hlm⟩ := inv.true_hash _ l hA
          exact ⟨l, bl, by rw [hlA_out _ hout]; exact hA, hD2 _ hout hnot hlm⟩
      obtain ⟨u1, u2⟩ := updLoop_below L'' n T hR hRT (T + 1 - (d.1 + 1)) (parent d) ⟨node.hash, false⟩
        (liftAll (sib d) A) ρ hρ hρP hPρ hk1 ⟨bn, hPN''⟩ rfl hsibs
      refine ⟨?_, ?_, ?_⟩
      · intro q hq
        exact u1 q (fun ⟨h1, h2, _⟩ => hq ⟨h1, h2⟩)
      · intro z hz
        by_cases hρz : Anc ρ z
        · exact (u2 z hz.1 hz.2 hρz).1
        · rw [u1 z (fun ⟨_, _, h3⟩ => hρz h3)]
      · intro z l hz hl
        by_cases hρz : Anc ρ z
        · exact (u2 z hz.1 hz.2 hρz).2 l hl
        · exfalso
          rw [u1 z (fun ⟨_, _, h3⟩ => hρz h3), hlA_out z (not_under_of_Z z hz)] at hl
          have hzρ : Anc z ρ := by
            by_cases hle : ρ.1 ≤ z.1
            · exact Anc.comparable hρP hz.1 hle
            · exact absurd (Anc.comparable hz.1 hρP (by omega)) hρz
          have hne : z ≠ ρ := fun e => hρz (e ▸ Anc.refl _)
          rw [above_root ρ z hρ hzρ hne] at hl
          cases hl
  have inv2 := rehash (Z := Z) inv1 hsame hZ' hZ'' g1 g2 g3
  -- 3. the walk
  exact walk L'' n hR (T + 1 - d.1) d _ ρ hρ hρP (by omega) ⟨_, _, hPN''⟩ inv2

end UtreexoVerif.Proofs.MapRemoveLoops
