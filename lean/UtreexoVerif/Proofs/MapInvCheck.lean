/-
  Soundness of the executable storage-invariant check: `invCheck m F = true → Inv m F`.
-/
import UtreexoVerif.Model.MapInvCheck
import UtreexoVerif.Proofs.MapPrune

namespace UtreexoVerif.Proofs.MapInvCheck
open UtreexoVerif Model Spec Spec.Forest Proofs MapAL MapInv MapPrune
set_option linter.unusedSectionVars false

theorem decRO_eq_dec : ∀ (h p : Nat), decRO h p = SpecView.dec h p
  | 0, p => rfl
  | h+1, p => by
    unfold decRO SpecView.dec
    rw [decRO_eq_dec h]

theorem encPos_eq (T : Nat) (q : Pos) : encPos T q = encP T q := rfl

theorem belowRootB_iff {n r o R : Nat} : belowRootB n r o R = true ↔ BelowRoot n r o R := by
  unfold belowRootB BelowRoot
  simp [Bool.and_eq_true, and_assoc]

theorem ancB_iff {p t : Pos} : ancB p t = true ↔ Anc p t := by
  unfold ancB Anc
  simp [Bool.and_eq_true]

theorem rootRowOf_some {n : Nat} {t : Pos} {R : Nat} (h : rootRowOf n t = some R) : BelowRoot n t.1 t.2 R := by
  unfold rootRowOf at h
  exact belowRootB_iff.1 (List.find?_some h)

theorem rootRowOf_of_belowRoot {n : Nat} {t : Pos} {R : Nat} (hn : n < 2 ^ 63) (hb : BelowRoot n t.1 t.2 R) :
    rootRowOf n t = some R := by
  have hR : R < 65 := by have := testBit_lt_of_lt hn hb.2.1; omega
  cases h : rootRowOf n t with
  | none =>
    unfold rootRowOf at h
    have := List.find?_eq_none.1 h R (List.mem_range.2 hR)
    rw [belowRootB_iff.2 hb] at this
    simp at this
  | some R' => rw [belowRoot_unique (rootRowOf_some h) hb]

theorem onPathB_sound {n : Nat} {t q : Pos} (h : onPathB n t q = true) : OnPath n t q := by
  unfold onPathB at h
  split at h
  · rename_i R hR
    simp only [Bool.and_eq_true, decide_eq_true_eq] at h
    exact ⟨R, rootRowOf_some hR, ancB_iff.1 h.1, h.2⟩
  · cases h

theorem proofSibB_sound {n : Nat} {t q : Pos} (h : proofSibB n t q = true) : ProofSib n t q := by
  unfold proofSibB at h
  simp only [Bool.and_eq_true, Bool.not_eq_true'] at h
  exact ⟨sib q, onPathB_sound h.1, h.2, (sib_sib q).symm⟩

/-- an entry whose key decodes to `q` sits at the encoding of `q` -/
theorem key_of_dec {T : Nat} {p : U64} {q : Pos} (hd : decRO T p.toNat = some q) :
    Valid T q ∧ p = encP T q := by
  rw [decRO_eq_dec] at hd
  obtain ⟨a, b, c⟩ := SpecView.dec_some _ _ q.1 q.2 hd
  refine ⟨⟨a, b⟩, ?_⟩
  apply BitVec.eq_of_toNat_eq
  show p.toNat = (BitVec.ofNat 64 (enc T (q.1, q.2))).toNat
  rw [c, BitVec.toNat_ofNat, Nat.mod_eq_of_lt p.isLt]

theorem dec_encP {T : Nat} (hT : T ≤ 63) {q : Pos} (hq : Valid T q) : decRO T (encP T q).toNat = some q := by
  rw [decRO_eq_dec]
  show SpecView.dec T (encU T q.1 q.2).toNat = some q
  rw [toNat_encU hT hq.1 hq.2, SpecView.dec_enc _ _ _ hq.1 hq.2]

variable {H : Type} [DecidableEq H] [Hasher H]

/-- **the executable check is sound** -/
theorem invCheck_sound {m : MapPollard H} {F : Forest H} (h : invCheck m F = true) : Inv m F := by
  unfold invCheck at h
  simp only [Bool.and_eq_true, decide_eq_true_eq, beq_iff_eq] at h
  obtain ⟨⟨⟨⟨⟨⟨⟨⟨hn, hneq⟩, hrows⟩, hT⟩, h1⟩, h2⟩, h3⟩, h4⟩, h5⟩ := h
  have hcachedMem : ∀ x, m.hasCached x = true → ∃ c ∈ m.cached, c.1 = x := fun x hx => get?_isSome_iff.1 hx
  refine { n_lt := hn, n_eq := hneq, rows_le := hrows, total_le := hT, true_hash := ?_, cached_pos := ?_,
           only_needed := ?_, has_needed := ?_, flags := ?_ }
  · intro p l hg
    have hmem := get?_some_mem hg
    have := List.all_eq_true.1 h1 (p, l) hmem
    simp only at this
    split at this
    · rename_i q hd
      obtain ⟨hv, he⟩ := key_of_dec hd
      exact ⟨q, hv, he, by simpa using this⟩
    · cases this
  · intro x p hg
    have hmem := get?_some_mem hg
    have := List.all_eq_true.1 h2 (x, p) hmem
    simp only at this
    split at this
    · rename_i t ht
      exact ⟨t, ht, by simpa [encPos_eq] using this⟩
    · cases this
  · intro q l hv hg
    have hmem := get?_some_mem hg
    have := List.all_eq_true.1 h3 _ hmem
    simp only [dec_encP hT hv, Bool.or_eq_true] at this
    rcases this with hr | hany
    · exact Or.inl hr
    · obtain ⟨c, hc, hcc⟩ := List.any_eq_true.1 hany
      split at hcc
      · rename_i t ht
        rw [Bool.or_eq_true] at hcc
        refine Or.inr ⟨c.1, t, get?_isSome_iff.2 ⟨c, hc, rfl⟩, ht, ?_⟩
        rcases hcc with h | h
        · exact Or.inl (onPathB_sound h)
        · exact Or.inr (proofSibB_sound h)
      · cases hcc
  · intro q hreq
    unfold chkHasNeeded at h4
    rw [Bool.and_eq_true] at h4
    rcases hreq with hr | ⟨x, t, hk, hp, hq⟩
    · obtain ⟨hb, hqe⟩ := eq_rootPos_of_isRootPos hr
      have h64 : q.1 ≤ 64 := by have := testBit_lt_of_lt hn hb; omega
      have := List.all_eq_true.1 h4.1 q.1 (Spec.mem_treeRows.2 ⟨h64, hb⟩)
      rw [encPos_eq, ← hqe] at this
      exact this
    · obtain ⟨c, hc, hcx⟩ := hcachedMem x hk
      have := List.all_eq_true.1 h4.2 c hc
      rw [hcx, hp] at this
      simp only at this
      obtain ⟨R, hb⟩ := posOf_belowRoot hp
      rw [rootRowOf_of_belowRoot hn hb] at this
      simp only [Bool.and_eq_true] at this
      rcases hq with rfl | ⟨w, ⟨R', hbt, hanc, hle⟩, hnr, rfl⟩
      · rw [← encPos_eq]; exact this.1
      · have hRR : R' = R := belowRoot_unique hbt hb
        subst hRR
        have hwb := belowRoot_anc hbt hanc hle
        have hwne : w.1 ≠ R' := by
          intro e
          have := belowRoot_isRootPos hwb
          rw [hnr] at this; simp [e] at this
        have hj : w.1 - t.1 < R' - t.1 := by have := hanc.1; omega
        have := List.all_eq_true.1 this.2 (w.1 - t.1) (List.mem_range.2 hj)
        rw [encPos_eq] at this
        rw [eq_up_of_anc hanc]
        exact this
  · intro hfull q l hv hnr hg
    unfold chkFlags at h5
    rw [hfull, Bool.false_or] at h5
    have hmem := get?_some_mem hg
    have := List.all_eq_true.1 h5 _ hmem
    simp only [dec_encP hT hv, hnr, Bool.false_or, beq_iff_eq] at this
    rw [this]
    constructor
    · intro hany
      obtain ⟨c, hc, hcc⟩ := List.any_eq_true.1 hany
      exact ⟨c.1, by simpa [MapPollard.getCached] using hcc⟩
    · rintro ⟨x, hx⟩
      apply List.any_eq_true.2
      exact ⟨(x, _), get?_some_mem hx, by simpa [MapPollard.getCached] using hx⟩

end UtreexoVerif.Proofs.MapInvCheck
