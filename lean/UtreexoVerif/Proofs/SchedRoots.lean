/-
  `addRootInfo` and `rootInfoToDestroy` of the `CachingScheduleTracker` (property C15).

  The tracker keeps, for every block, the list of the roots of the accumulator (`rootInfo`:
  63-row position and the flag "this root is a zombie", i.e. its tree has no live leaf).
  `rootsOf S` is that list for the slot list `S`.

  * `addRootInfo_spec`: `addRootInfo` maps `rootsOf S` to the root list after `K` additions;
  * `rootInfoToDestroy_spec`: `rootInfoToDestroy` returns (once each) the positions of the
    dead roots of `S` that the `K` additions merge over (`SchedSem.TdOK`).
-/
import UtreexoVerif.Proofs.SchedUndoAdd
set_option linter.unusedSectionVars false
set_option linter.unusedVariables false

namespace UtreexoVerif.Proofs.SchedRoots
open UtreexoVerif UtreexoVerif.GoInt Spec Model
open UtreexoVerif.Proofs UtreexoVerif.Proofs.FinalPos UtreexoVerif.Proofs.SchedSem
open UtreexoVerif.Proofs.SpecNodes UtreexoVerif.Proofs.CalcGeo UtreexoVerif.Proofs.SchedAdd
open UtreexoVerif.Proofs.SchedAddU UtreexoVerif.Proofs.SchedPos UtreexoVerif.Proofs.StumpAddPos
open UtreexoVerif.Proofs.AddMove UtreexoVerif.Proofs.SchedUndoAdd

/-- the root info of the tree on row `h` -/
def rootAt (S : List (Option Nat)) (h : Nat) : RootInfo :=
  { pos := E 63 (h, 2 * (S.length / 2 ^ (h + 1))),
    isZombie := !Spec.chunkAlive S h (2 * (S.length / 2 ^ (h + 1))) }

/-- the root infos of a state: one per tree, highest row first; a root is a zombie iff its
tree has no live slot -/
def rootsOf (S : List (Option Nat)) : List Model.RootInfo :=
  (Spec.treeRows S.length).map fun h =>
    { pos := E 63 (h, 2 * (S.length / 2 ^ (h + 1))),
      isZombie := !Spec.chunkAlive S h (2 * (S.length / 2 ^ (h + 1))) }

theorem rootsOf_eq (S : List (Option Nat)) : rootsOf S = (Spec.treeRows S.length).map (rootAt S) := rfl

/-! ### the rows of `n` and `n + 1` -/

/-- the rows above `k` that carry a tree -/
def hiRows (n k : Nat) : List Nat :=
  ((List.range' (k + 1) (64 - k)).reverse).filter (fun j => n.testBit j)

theorem range65_split {k : Nat} (hk : k ≤ 64) :
    (List.range 65).reverse = (List.range' (k + 1) (64 - k)).reverse ++ [k] ++ (List.range k).reverse := by
  have e : List.range 65 = List.range k ++ [k] ++ List.range' (k + 1) (64 - k) := by
    rw [List.range_eq_range', List.range_eq_range']
    have h1 : [k] = List.range' k 1 := rfl
    have a := List.range'_append_1 (s := 0) (m := k) (n := 1)
    have b := List.range'_append_1 (s := 0) (m := k + 1) (n := 64 - k)
    rw [Nat.zero_add] at a b
    rw [h1, a, b]
    congr 1
    omega
  rw [e]
  simp

theorem treeRows_split (n : Nat) {k : Nat} (hk : k ≤ 64) :
    treeRows n = hiRows n k ++ (if n.testBit k then [k] else []) ++
      ((List.range k).reverse).filter (fun j => n.testBit j) := by
  unfold treeRows hiRows
  rw [Spec.treeRowsFrom_eq_filter, range65_split hk, List.filter_append, List.filter_append]
  congr 2
  simp [List.filter_cons]

theorem succ_testBit_low {n k i : Nat} (hk : ∀ i, i < k → n.testBit i = true) (hi : i < k) :
    (n + 1).testBit i = false := by
  have hf := trailing_form hk
  have hpos := Nat.two_pow_pos k
  have e : n + 1 = 2 ^ k * (n / 2 ^ k + 1) := by
    rw [Nat.mul_add, Nat.mul_one, Nat.mul_comm]; omega
  rw [e, Nat.testBit_two_pow_mul]
  simp
  omega

section rows
variable {n k : Nat} (hk : ∀ i, i < k → n.testBit i = true) (hk0 : n.testBit k = false) (hk64 : k ≤ 64)
include hk hk0 hk64

theorem treeRows_old : treeRows n = hiRows n k ++ (List.range k).reverse := by
  rw [treeRows_split n hk64, hk0]
  simp only [Bool.false_eq_true, if_false, List.append_nil]
  congr 1
  rw [List.filter_eq_self]
  intro j hj
  rw [List.mem_reverse, List.mem_range] at hj
  exact hk j hj

theorem treeRows_new : treeRows (n + 1) = hiRows n k ++ [k] := by
  rw [treeRows_split (n + 1) hk64, succ_testBit_k hk hk0]
  simp only [if_true]
  have e1 : hiRows (n + 1) k = hiRows n k := by
    unfold hiRows
    apply List.filter_congr
    intro j hj
    rw [List.mem_reverse, List.mem_range'_1] at hj
    exact succ_testBit_high hk hk0 (by omega)
  have e2 : ((List.range k).reverse).filter (fun j => (n + 1).testBit j) = [] := by
    rw [List.filter_eq_nil_iff]
    intro j hj
    rw [List.mem_reverse, List.mem_range] at hj
    rw [succ_testBit_low hk hj]
    simp
  rw [e1, e2, List.append_nil]

theorem mem_hiRows {j : Nat} (hj : j ∈ hiRows n k) : k < j ∧ n.testBit j = true := by
  unfold hiRows at hj
  rw [List.mem_filter, List.mem_reverse, List.mem_range'_1] at hj
  exact ⟨by omega, hj.2⟩

end rows

/-! ### the roots before and after one addition -/

section one
variable (B : List (Option Nat)) (x : Nat) {k : Nat}
  (hk : ∀ i, i < k → B.length.testBit i = true) (hk0 : B.length.testBit k = false)
  (hn : B.length < 2 ^ 62)
include hk hk0 hn

theorem rootsOf_old :
    rootsOf B = (hiRows B.length k).map (rootAt B) ++ ((List.range k).reverse).map (rootAt B) := by
  have hk62 := trailing_le hk hn
  rw [rootsOf_eq, treeRows_old hk hk0 (by omega), List.map_append]

theorem rootsOf_new :
    rootsOf (B ++ [some x]) = (hiRows B.length k).map (rootAt B) ++
      [{ pos := E 63 (k, B.length / 2 ^ k), isZombie := false }] := by
  have hk62 := trailing_le hk hn
  have hlen : (B ++ [some x]).length = B.length + 1 := by simp
  rw [rootsOf_eq, hlen, treeRows_new hk hk0 (by omega), List.map_append]
  congr 1
  · apply List.map_congr_left
    intro j hj
    obtain ⟨hj1, hj2⟩ := mem_hiRows hk hk0 (by omega) hj
    unfold rootAt
    rw [hlen, succ_div_high hk hk0 (show k < j + 1 by omega),
      chunkAlive_append_left _ _ _ _ (root_chunk_le hj2)]
  · simp only [List.map_cons, List.map_nil]
    unfold rootAt
    rw [hlen, succ_div_high hk hk0 (Nat.lt_succ_self k), ← root_k hk0, new_chunk_alive B x k]
    rfl

end one

/-! ### the inner loops -/

theorem bitTest (N : U64) (h : Nat) : (((shr N h) &&& 1#64) == 1#64) = N.toNat.testBit h := by
  rw [Nat.testBit_eq_decide_div_mod_eq]
  have e : (shr N h &&& 1#64).toNat = N.toNat / 2 ^ h % 2 := by
    rw [BitVec.toNat_and, toNat_shr, BitVec.toNat_one (by decide), Nat.and_one_is_mod]
  by_cases hb : N.toNat / 2 ^ h % 2 = 1
  · have : shr N h &&& 1#64 = 1#64 := by
      apply BitVec.eq_of_toNat_eq; rw [e, hb]; rfl
    simp [this, hb]
  · have : shr N h &&& 1#64 ≠ 1#64 := by
      intro hc
      have := congrArg BitVec.toNat hc
      rw [e] at this
      exact hb this
    simp [this, hb]

theorem bitTest' {n h : Nat} (hn : n < 2 ^ 64) (hh : h ≤ 63) :
    (((shr (BitVec.ofNat 64 n) (H8 h).toNat) &&& 1#64) == 1#64) = n.testBit h := by
  rw [bitTest, toNat_H8 hh, toNat_ofNat64_of_lt hn]

section inner
variable {n k : Nat} (hk : ∀ i, i < k → n.testBit i = true) (hk0 : n.testBit k = false)
  (hn : n < 2 ^ 62)
include hk hk0 hn

/-- the inner loop of `addRootInfo` from row `h`: pops the `k - h` last roots and climbs the
spine of the new tree -/
theorem ariInner_from (pre : List RootInfo) : ∀ (d h fuel : Nat) (L : List RootInfo), h + d = k →
    L.length = d → d < fuel →
    ariInner (H8 63) (BitVec.ofNat 64 n) fuel (H8 h) (pre ++ L) (E 63 (h, n / 2 ^ h)) =
      .ok (pre, E 63 (k, n / 2 ^ k)) := by
  have hk62 := trailing_le hk hn
  intro d
  induction d with
  | zero =>
    intro h fuel L hd hL hf
    obtain ⟨fuel, rfl⟩ : ∃ f, fuel = f + 1 := ⟨fuel - 1, by omega⟩
    have : h = k := by omega
    subst this
    have hL' : L = [] := List.eq_nil_of_length_eq_zero hL
    subst hL'
    rw [ariInner, bitTest' (by omega) (by omega), hk0]
    simp
  | succ d ih =>
    intro h fuel L hd hL hf
    obtain ⟨fuel, rfl⟩ : ∃ f, fuel = f + 1 := ⟨fuel - 1, by omega⟩
    have hne : L ≠ [] := by intro e; rw [e] at hL; simp at hL
    rw [ariInner, bitTest' (by omega) (by omega), hk h (by omega)]
    simp only [if_true]
    have hemp : (pre ++ L).isEmpty = false := by
      cases L with
      | nil => exact absurd rfl hne
      | cons a L => simp
    rw [hemp]
    simp only [Bool.false_eq_true, if_false]
    rw [List.dropLast_append_of_ne_nil hne, H8_add_one,
      parent_E (by decide) (spine_valid (by omega) (by omega)) (by simp only; omega)]
    have hp : parent (h, n / 2 ^ h) = (h + 1, n / 2 ^ (h + 1)) := by
      unfold parent; simp only; rw [half_pow]
    rw [hp]
    exact ih (h + 1) fuel L.dropLast (by omega) (by rw [List.length_dropLast]; omega) (by omega)

/-- the positions `rootInfoToDestroy` collects from row `h` on -/
def collected (n : Nat) (z : Nat → Bool) (h d : Nat) : List U64 :=
  ((List.range' h d).filter z).map fun l => E 63 (l, 2 * (n / 2 ^ (l + 1)))

/-- the inner loop of `rootInfoToDestroy` from row `h`: pops the `k - h` last roots and
collects the positions of the zombies among them -/
theorem ritdInner_from (pre : List RootInfo) (z : Nat → Bool) : ∀ (d h fuel : Nat) (R : List RootInfo)
    (deleted : List U64), h + d = k → R.map (·.isZombie) = (List.range' h d).map z → d < fuel →
    ritdInner (H8 63) (BitVec.ofNat 64 n) fuel (H8 h) (pre ++ R.reverse) deleted =
      .ok (pre, deleted ++ collected n z h d) := by
  have hk62 := trailing_le hk hn
  intro d
  induction d with
  | zero =>
    intro h fuel R deleted hd hR hf
    obtain ⟨fuel, rfl⟩ : ∃ f, fuel = f + 1 := ⟨fuel - 1, by omega⟩
    have : h = k := by omega
    subst this
    have hR' : R = [] := by simpa using hR
    subst hR'
    rw [ritdInner, bitTest' (by omega) (by omega), hk0]
    simp [collected]
  | succ d ih =>
    intro h fuel R deleted hd hR hf
    obtain ⟨fuel, rfl⟩ : ∃ f, fuel = f + 1 := ⟨fuel - 1, by omega⟩
    rw [ritdInner, bitTest' (by omega) (by omega), hk h (by omega)]
    simp only [if_true]
    cases R with
    | nil => simp [List.range'_succ] at hR
    | cons r R =>
      rw [List.range'_succ, List.map_cons, List.map_cons] at hR
      injection hR with hr hR
      have hpop : popLastR (pre ++ (r :: R).reverse) = .ok (r, pre ++ R.reverse) := by
        unfold popLastR
        rw [List.reverse_cons, ← List.append_assoc, List.getLast?_concat, List.dropLast_concat]
      rw [hpop]
      simp only [bind, Out.bind]
      rw [H8_add_one, ih (h + 1) fuel R _ (by omega) hR (by omega)]
      have hrp : rootPosition (BitVec.ofNat 64 n) (H8 h) (H8 63) = E 63 (h, 2 * (n / 2 ^ (h + 1))) := by
        rw [Props.C16.rootPosition_enc (by decide) (by omega) _ (by rw [toNat_ofNat64_of_lt (by omega)]; omega),
          toNat_ofNat64_of_lt (by omega)]
        unfold E
        simp only [rootPos, Nat.shiftRight_eq_div_pow]
      rw [hrp, hr]
      congr 2
      unfold collected
      rw [List.range'_succ, List.filter_cons]
      cases z h <;> simp

end inner

/-! ### `addRootInfo` -/

theorem ofNat_add_one (a : Nat) : BitVec.ofNat 64 a + 1#64 = BitVec.ofNat 64 (a + 1) := by
  rw [BitVec.ofNat_add]

/-- one addition: the inner loop of `addRootInfo` on the roots of `B` -/
theorem ariInner_one (B : List (Option Nat)) {n k : Nat} (hB : B.length = n)
    (hk : ∀ i, i < k → n.testBit i = true) (hk0 : n.testBit k = false) (hn : n < 2 ^ 62) :
    ariInner (H8 63) (BitVec.ofNat 64 n) 65 0#8 (rootsOf B) (BitVec.ofNat 64 n) =
      .ok ((hiRows n k).map (rootAt B), E 63 (k, n / 2 ^ k)) := by
  subst hB
  have hk62 := trailing_le hk hn
  rw [rootsOf_old B hk hk0 hn]
  have := ariInner_from hk hk0 hn ((hiRows B.length k).map (rootAt B)) k 0 65
    (((List.range k).reverse).map (rootAt B)) (by omega) (by simp) (by omega)
  rw [E63_leaf, Nat.pow_zero, Nat.div_one] at this
  exact this

theorem ariOuter_spec (S : List (Option Nat)) : ∀ (m j : Nat), S.length + j + m ≤ 2 ^ 62 →
    ariOuter (H8 63) m (BitVec.ofNat 64 (S.length + j)) (rootsOf (stage S j)) =
      .ok (rootsOf (stage S (j + m)), BitVec.ofNat 64 (S.length + j + m)) := by
  intro m
  induction m with
  | zero => intro j _; simp [ariOuter]
  | succ m ih =>
    intro j hle
    obtain ⟨k, hk, hk0⟩ := exists_trailing (S.length + j)
    have hm : S.length + j < 2 ^ 62 := by omega
    have hlen := stage_length S j
    rw [ariOuter, ariInner_one (stage S j) hlen hk hk0 hm]
    simp only [bind, Out.bind]
    have hnew := rootsOf_new (stage S j) (S.length + j) (by rw [hlen]; exact hk) (by rw [hlen]; exact hk0)
      (by rw [hlen]; exact hm)
    rw [hlen, ← stage_succ] at hnew
    rw [← hnew, ofNat_add_one, show S.length + j + 1 = S.length + (j + 1) from rfl, ih (j + 1) (by omega)]
    rw [show j + 1 + m = j + (m + 1) by omega,
      show S.length + (j + 1) + m = S.length + j + (m + 1) by omega]

/-- **`addRootInfo`** maps the root infos of `S` to the root infos after `K` additions -/
theorem addRootInfo_spec (S : List (Option Nat)) (K : Nat) (hK : K < 65536) (hn : S.length + K ≤ 2 ^ 62) :
    Model.addRootInfo (H8 63) (rootsOf S) (BitVec.ofNat 16 K) (BitVec.ofNat 64 S.length) =
      .ok (rootsOf (S ++ SchedSem.fresh S.length K), BitVec.ofNat 64 (S.length + K)) := by
  unfold addRootInfo
  have hK' : (BitVec.ofNat 16 K).toNat = K := by
    rw [BitVec.toNat_ofNat]; exact Nat.mod_eq_of_lt (by omega)
  have := ariOuter_spec S K 0 (by omega)
  rw [stage_zero, Nat.zero_add, Nat.add_zero] at this
  rw [hK', this]
  rfl

/-! ### `rootInfoToDestroy` -/

theorem mem_collected {n : Nat} {z : Nat → Bool} {k : Nat} {x : U64} :
    x ∈ collected n z 0 k ↔ ∃ l, l < k ∧ z l = true ∧ x = E 63 (l, 2 * (n / 2 ^ (l + 1))) := by
  unfold collected
  rw [List.mem_map]
  constructor
  · rintro ⟨l, hl, e⟩
    rw [List.mem_filter, List.mem_range'_1] at hl
    exact ⟨l, by omega, hl.2, e.symm⟩
  · rintro ⟨l, hl, hz, e⟩
    exact ⟨l, by rw [List.mem_filter, List.mem_range'_1]; exact ⟨by omega, hz⟩, e.symm⟩

theorem collected_nodup {n : Nat} (z : Nat → Bool) {k : Nat} (hn : n < 2 ^ 63) (hk : k ≤ 63) :
    (collected n z 0 k).Nodup := by
  unfold collected List.Nodup
  rw [List.pairwise_map]
  have h1 : List.Pairwise (fun a b => a < b) ((List.range' 0 k).filter z) :=
    List.Pairwise.filter _ (List.pairwise_lt_range' 1)
  refine List.Pairwise.imp_of_mem ?_ h1
  intro a b ha hb hab e
  rw [List.mem_filter, List.mem_range'_1] at ha hb
  have := E_inj (by decide) (root_valid hn (by omega)) (root_valid hn (by omega)) e
  injection this with e1 _
  omega

/-- one addition: the inner loop of `rootInfoToDestroy` on a list that carries the zombie flags
of the roots of `B` -/
theorem ritdInner_one (B : List (Option Nat)) (x : Nat) {n k : Nat} (hB : B.length = n)
    (hk : ∀ i, i < k → n.testBit i = true) (hk0 : n.testBit k = false) (hn : n < 2 ^ 62)
    (roots : List RootInfo) (deleted : List U64)
    (hroots : roots.map (·.isZombie) = (rootsOf B).map (·.isZombie)) :
    ∃ pre, ritdInner (H8 63) (BitVec.ofNat 64 n) 65 0#8 roots deleted =
        .ok (pre, deleted ++ collected n (fun l => (rootAt B l).isZombie) 0 k) ∧
      (pre ++ [({ pos := 0#64, isZombie := false } : RootInfo)]).map (·.isZombie) =
        (rootsOf (B ++ [some x])).map (·.isZombie) := by
  subst hB
  have hk62 := trailing_le hk hn
  rw [rootsOf_old B hk hk0 hn, List.map_append, List.map_eq_append_iff] at hroots
  obtain ⟨pre, L, rfl, hpre, hL⟩ := hroots
  refine ⟨pre, ?_, ?_⟩
  · have hR : (L.reverse).map (·.isZombie) =
        (List.range' 0 k).map (fun l => (rootAt B l).isZombie) := by
      rw [List.map_reverse, hL, List.map_reverse, List.map_reverse, List.reverse_reverse,
        List.map_map, List.range_eq_range']
      rfl
    have := ritdInner_from hk hk0 hn pre (fun l => (rootAt B l).isZombie) k 0 65 L.reverse deleted
      (by omega) hR (by omega)
    rw [List.reverse_reverse] at this
    exact this
  · rw [rootsOf_new B x hk hk0 hn, List.map_append, List.map_append, hpre]
    rfl

theorem destroyed_mono {S : List (Option Nat)} {j h : Nat} (hd : DestroyedRow S j h) :
    DestroyedRow S (j + 1) h := ⟨hd.1, hd.2.1, by have := hd.2.2; omega⟩

theorem not_destroyed_zero (S : List (Option Nat)) (h : Nat) : ¬ DestroyedRow S 0 h := by
  rintro ⟨_, _, h3⟩
  have := lt_succ_div_mul S.length (2 ^ (h + 1)) (Nat.two_pow_pos _)
  omega

theorem tdok_zero (S : List (Option Nat)) : TdOK S 0 [] := by
  refine ⟨List.nodup_nil, fun x => ?_⟩
  constructor
  · intro h; cases h
  · rintro ⟨h, hd, _⟩
    exact absurd hd (not_destroyed_zero S h)

/-- the zombies popped while adding slot `n + j` extend the list for `j` additions to the list
for `j + 1` additions -/
theorem tdok_succ (S : List (Option Nat)) (j : Nat) {k : Nat}
    (hk : ∀ i, i < k → (S.length + j).testBit i = true) (hk0 : (S.length + j).testBit k = false)
    (hm : S.length + j < 2 ^ 62) {td : List U64} (htd : TdOK S j td) :
    TdOK S (j + 1) (td ++ collected (S.length + j) (dzOf S j) 0 k) := by
  have hk62 := trailing_le hk hm
  have hdi := fun {l : Nat} (hl : l < k) => destroyed_iff_dead S j hk hm hl
  refine ⟨?_, fun y => ?_⟩
  · rw [List.nodup_append]
    refine ⟨htd.1, collected_nodup _ (by omega) (by omega), ?_⟩
    intro a ha b hb hab
    subst hab
    rw [htd.2] at ha
    rw [mem_collected] at hb
    obtain ⟨h, ⟨hb1, hd, hle⟩, e⟩ := ha
    obtain ⟨l, hl, hz, e'⟩ := hb
    have hh := bit_lt (show S.length < 2 ^ 62 by omega) hb1
    rw [e] at e'
    have := E_inj (by decide) (root_valid (show S.length < 2 ^ 63 by omega) (by omega))
      (root_valid (show S.length + j < 2 ^ 63 by omega) (by omega)) e'
    injection this with e1 e2
    subst e1
    have hf := trailing_form (n := S.length + j) (k := h + 1) (fun i hi => hk i (by omega))
    have hq : S.length / 2 ^ (h + 1) = (S.length + j) / 2 ^ (h + 1) := by omega
    rw [hq, Nat.add_mul, Nat.one_mul] at hle
    have := Nat.two_pow_pos (h + 1)
    omega
  · rw [List.mem_append, htd.2, mem_collected]
    constructor
    · rintro (⟨h, hd, e⟩ | ⟨l, hl, hz, e⟩)
      · exact ⟨h, destroyed_mono hd, e⟩
      · obtain ⟨h, hd, e'⟩ := (hdi hl).mpr hz
        exact ⟨h, hd, by rw [e, e']⟩
    · rintro ⟨h, ⟨hb, hd, hle⟩, e⟩
      by_cases hc : (S.length / 2 ^ (h + 1) + 1) * 2 ^ (h + 1) ≤ S.length + j
      · exact Or.inl ⟨h, ⟨hb, hd, hc⟩, e⟩
      · right
        have heq : (S.length / 2 ^ (h + 1) + 1) * 2 ^ (h + 1) = S.length + j + 1 := by omega
        have hpos := Nat.two_pow_pos (h + 1)
        have hq : (S.length + j) / 2 ^ (h + 1) = S.length / 2 ^ (h + 1) := by
          apply div_eq_of_between hpos
          · rw [Nat.add_mul, Nat.one_mul] at heq; omega
          · omega
        have hmod : (S.length + j) % 2 ^ (h + 1) = 2 ^ (h + 1) - 1 := by
          have := Nat.div_add_mod (S.length + j) (2 ^ (h + 1))
          rw [hq] at this
          rw [Nat.add_mul, Nat.one_mul] at heq
          rw [Nat.mul_comm] at this
          omega
        have hhk : h < k := by
          apply Classical.byContradiction
          intro hge
          have hkbit : (S.length + j).testBit k = true := by
            have h1 := Nat.testBit_mod_two_pow (S.length + j) (h + 1) k
            rw [hmod, Nat.testBit_two_pow_sub_one] at h1
            have : decide (k < h + 1) = true := by simp; omega
            rw [this] at h1
            simpa using h1.symm
          rw [hkbit] at hk0
          cases hk0
        have hdz : dzOf S j h = true := by
          unfold dzOf
          rw [hq, chunk_stage_old S j h _ (root_chunk_le hb), hd]
          rfl
        exact ⟨h, hhk, hdz, by rw [e, hq]⟩

theorem ritdOuter_spec (S : List (Option Nat)) (K : Nat) (hn : S.length + K ≤ 2 ^ 62) :
    ∀ (m j : Nat) (roots : List RootInfo) (deleted : List U64), j + m = K →
    roots.map (·.isZombie) = (rootsOf (stage S j)).map (·.isZombie) → TdOK S j deleted →
    ∃ td, ritdOuter (H8 63) m (BitVec.ofNat 64 (S.length + j)) roots deleted = .ok td ∧ TdOK S K td := by
  intro m
  induction m with
  | zero =>
    intro j roots deleted hj _ htd
    have : j = K := by omega
    subst this
    exact ⟨deleted, rfl, htd⟩
  | succ m ih =>
    intro j roots deleted hj hroots htd
    obtain ⟨k, hk, hk0⟩ := exists_trailing (S.length + j)
    have hm : S.length + j < 2 ^ 62 := by omega
    have hlen := stage_length S j
    obtain ⟨pre, h1, h2⟩ := ritdInner_one (stage S j) (S.length + j) hlen hk hk0 hm roots deleted hroots
    have hz : (fun l => (rootAt (stage S j) l).isZombie) = dzOf S j := by
      funext l
      unfold rootAt dzOf
      rw [hlen]
    rw [hz] at h1
    rw [← stage_succ] at h2
    obtain ⟨td, h3, h4⟩ := ih (j + 1) _ _ (by omega) h2 (tdok_succ S j hk hk0 hm htd)
    refine ⟨td, ?_, h4⟩
    rw [ritdOuter, h1]
    simp only [bind, Out.bind]
    rw [ofNat_add_one]
    exact h3

/-- a state without zombie roots has no destroyed row -/
theorem no_zombie_no_destroyed (S : List (Option Nat)) (hn : S.length < 2 ^ 62)
    (hz : (rootsOf S).any (·.isZombie) = false) (K h : Nat) : ¬ DestroyedRow S K h := by
  rintro ⟨hb, hd, _⟩
  have hh := bit_lt hn hb
  have hmem : h ∈ treeRows S.length := Spec.mem_treeRows.mpr ⟨by omega, hb⟩
  have : (rootsOf S).any (·.isZombie) = true := by
    rw [List.any_eq_true]
    refine ⟨rootAt S h, ?_, ?_⟩
    · rw [rootsOf_eq]; exact List.mem_map_of_mem hmem
    · unfold rootAt; simp only; rw [hd]; rfl
  rw [hz] at this
  cases this

/-- **`rootInfoToDestroy`** returns, once each, the positions of the dead roots of `S` that the
addition of `K` leaves merges over -/
theorem rootInfoToDestroy_spec (S : List (Option Nat)) (K : Nat) (hK : K < 65536)
    (hn : S.length + K ≤ 2 ^ 62) :
    ∃ td, Model.rootInfoToDestroy (H8 63) (GoInt.conv 64 (BitVec.ofNat 16 K))
        (BitVec.ofNat 64 S.length) (rootsOf S) = .ok td ∧ SchedSem.TdOK S K td := by
  have hK' : (GoInt.conv 64 (BitVec.ofNat 16 K)).toNat = K := by
    unfold GoInt.conv
    rw [BitVec.toNat_setWidth, BitVec.toNat_ofNat]
    omega
  unfold rootInfoToDestroy
  cases hz : (rootsOf S).any (·.isZombie) with
  | true =>
    simp only [if_true]
    rw [hK']
    have := ritdOuter_spec S K hn K 0 (rootsOf S) [] (by omega) (by rw [stage_zero]) (tdok_zero S)
    rw [Nat.add_zero] at this
    exact this
  | false =>
    simp only [Bool.false_eq_true, if_false]
    by_cases hK0 : K = 0
    · subst hK0; exact ⟨[], rfl, tdok_zero S⟩
    · refine ⟨[], rfl, List.nodup_nil, fun x => ?_⟩
      constructor
      · intro h; cases h
      · rintro ⟨h, hd, _⟩
        exact absurd hd (no_zombie_no_destroyed S (by omega) hz K h)

/-! ### non-vacuity -/

/-- the hypotheses of both theorems hold for `S = [none, none, some 2]`, `K = 1` -/
example : (1 : Nat) < 65536 ∧ ([none, none, some 2] : List (Option Nat)).length + 1 ≤ 2 ^ 62 := by decide

/-- `[none, none, some 2]`: a zombie root on row 1 and a live root on row 0 -/
example : rootsOf [none, none, some 2] =
    [{ pos := E 63 (1, 0), isZombie := true }, { pos := E 63 (0, 2), isZombie := false }] := by
  decide +kernel

/-- adding one leaf merges both roots into a tree on row 2 -/
example : Model.addRootInfo (H8 63) (rootsOf [none, none, some 2]) (BitVec.ofNat 16 1) (BitVec.ofNat 64 3) =
    .ok ([{ pos := E 63 (2, 0), isZombie := false }], 4#64) := by decide +kernel

example : rootsOf ([none, none, some 2] ++ SchedSem.fresh 3 1) = [{ pos := E 63 (2, 0), isZombie := false }] := by
  decide +kernel

/-- … and destroys the dead root on row 1 -/
example : Model.rootInfoToDestroy (H8 63) (GoInt.conv 64 (BitVec.ofNat 16 1)) (BitVec.ofNat 64 3)
    (rootsOf [none, none, some 2]) = .ok [E 63 (1, 0)] := by decide +kernel

example : DestroyedRow [none, none, some 2] 1 1 := by
  refine ⟨by decide, by decide +kernel, by decide⟩

/-- a longer run: five additions on a state with two zombie roots (rows 2 and 0) and a live
root (row 1); both zombies are destroyed, in the order row 0, row 2 -/
example : Model.rootInfoToDestroy (H8 63) (GoInt.conv 64 (BitVec.ofNat 16 5)) (BitVec.ofNat 64 7)
    (rootsOf [none, none, none, none, some 4, none, none]) = .ok [E 63 (0, 6), E 63 (2, 0)] := by
  decide +kernel

/-- the theorems instantiated -/
example : Model.addRootInfo (H8 63) (rootsOf [none, none, some 2]) (BitVec.ofNat 16 1)
      (BitVec.ofNat 64 ([none, none, some 2] : List (Option Nat)).length) =
    .ok (rootsOf ([none, none, some 2] ++ SchedSem.fresh 3 1), BitVec.ofNat 64 (3 + 1)) :=
  addRootInfo_spec [none, none, some 2] 1 (by decide) (by decide)

example : ∃ td, Model.rootInfoToDestroy (H8 63) (GoInt.conv 64 (BitVec.ofNat 16 1))
      (BitVec.ofNat 64 ([none, none, some 2] : List (Option Nat)).length) (rootsOf [none, none, some 2]) = .ok td ∧
    SchedSem.TdOK [none, none, some 2] 1 td :=
  rootInfoToDestroy_spec [none, none, some 2] 1 (by decide) (by decide)

end UtreexoVerif.Proofs.SchedRoots

#print axioms UtreexoVerif.Proofs.SchedRoots.addRootInfo_spec
#print axioms UtreexoVerif.Proofs.SchedRoots.rootInfoToDestroy_spec
