/-
  `undoAdd` of `MapPollard.Undo` on a state that satisfies the holed invariant: the additions of the
  block are taken back one by one (`undoSingleAdd`), each by walking down the right spine of the
  lowest tree; overwritten empty roots are re-created on the way.
-/
import UtreexoVerif.Proofs.MapUnstepA
import UtreexoVerif.Proofs.MapUnstepB
import UtreexoVerif.Proofs.MapUndoRep
import UtreexoVerif.Proofs.MapPlaceEmpty
import UtreexoVerif.Proofs.MapUndoOrder
import UtreexoVerif.Proofs.MapUndoRoots
import UtreexoVerif.Proofs.MapAddMerge

namespace UtreexoVerif.Proofs.MapUndoAdd
open UtreexoVerif Model Spec Spec.Forest Proofs MapAL MapInv MapPrune MapRep MapLiftGeo PForest MapAInv MapLiftCore
open MapUndoDefs MapUndoSteps PForestSpec PForestAdd MapPlaceEmpty MapUndoRep MapUndoOrder MapAddMerge Hasher
set_option linter.unusedSectionVars false
set_option linter.unusedVariables false

variable {H : Type} [DecidableEq H] [Hasher H]

/-! ### un-step 0: the leaf on row 0 is dropped -/

section step0
variable {A : Pos → Option (Leaf H)} {C : H → Option Pos} {N N' : List (Pos × H × Bool)}
  {R R' : Pos → Prop} {Kp : H → Prop}

theorem unstep0 (L' : Laws N' R')
    (inv : HInvP A C N' R' (fun y => (C y).isSome = true) Kp (fun _ => False)) {t0 : Pos} {x : H}
    (hN' : ∀ e, e ∈ N' ↔ e ∈ N ∨ e = (t0, x, true))
    (hR' : ∀ z, R' z ↔ R z ∨ z = t0)
    (hpos : ∀ q h b, (q, h, b) ∈ N → ¬ Anc q t0)
    (hxN : ∀ q b, (q, x, b) ∉ N) :
    HInvP (upd A t0 none) (dropC t0 A C) N R (fun y => (dropC t0 A C y).isSome = true) Kp (fun _ => False) := by
  have hnew : (t0, x, true) ∈ N' := (hN' _).2 (Or.inr rfl)
  have not_t0 : ∀ q h b, (q, h, b) ∈ N → q ≠ t0 := by
    rintro q h b hm rfl; exact hpos _ h b hm (Anc.refl _)
  have at_t0 : ∀ h b, (t0, h, b) ∈ N' → h = x := by
    intro h b hm
    rcases (hN' _).1 hm with h' | h'
    · exact absurd rfl (not_t0 _ _ _ h')
    · simp only [Prod.mk.injEq] at h'; exact h'.2.1
  have old_of : ∀ q h b, (q, h, b) ∈ N' → q ≠ t0 → (q, h, b) ∈ N := by
    intro q h b hm hq
    rcases (hN' _).1 hm with h' | h'
    · exact h'
    · simp only [Prod.mk.injEq] at h'; exact absurd h'.1 hq
  -- the domain of the cache after the drop
  have hdom : ∀ y, (dropC t0 A C y).isSome = true ↔ ((C y).isSome = true ∧ y ≠ x) := by
    intro y
    unfold dropC
    cases hA : A t0 with
    | some l =>
      simp only
      obtain ⟨b, hb⟩ := inv.true_hash t0 l hA (fun h => h)
      have hlx : l.hash = x := at_t0 _ b hb
      rw [hlx, upd_apply]
      by_cases hy : y = x
      · simp [hy]
      · simp [hy]
    | none =>
      simp only
      constructor
      · intro h
        refine ⟨h, ?_⟩
        rintro rfl
        obtain ⟨t, ht⟩ := Option.isSome_iff_exists.1 h
        have hm := (inv.cached_pos y t ht).1
        have htt : t = t0 := by
          apply Classical.byContradiction
          intro hne
          exact hxN t true (old_of _ _ _ hm hne)
        subst htt
        exact inv.leaf_stored t ⟨y, h, hm⟩ hA
      · exact fun h => h.1
  have hval : ∀ y t, dropC t0 A C y = some t → C y = some t := by
    intro y t h
    unfold dropC at h
    cases hA : A t0 with
    | some l =>
      rw [hA] at h
      simp only at h
      rw [upd_apply] at h
      split at h
      · cases h
      · exact h
    | none => rw [hA] at h; exact h
  have kleaf_new : ∀ t, KLeaf N (fun y => (dropC t0 A C y).isSome = true) t →
      KLeaf N' (fun y => (C y).isSome = true) t := by
    rintro t ⟨y, hy, hm⟩
    exact ⟨y, ((hdom y).1 hy).1, (hN' _).2 (Or.inl hm)⟩
  have kleaf_old : ∀ t, t ≠ t0 → KLeaf N' (fun y => (C y).isSome = true) t →
      KLeaf N (fun y => (dropC t0 A C y).isSome = true) t := by
    rintro t ht ⟨y, hy, hm⟩
    have hmN := old_of _ _ _ hm ht
    exact ⟨y, (hdom y).2 ⟨hy, fun e => hxN t true (e ▸ hmN)⟩, hmN⟩
  have notR' : ∀ q, q ≠ t0 → ¬ R q → ¬ R' q := by
    intro q hq hnr hr'
    rcases (hR' q).1 hr' with h | h
    · exact hnr h
    · exact hq h
  refine { true_hash := ?_, cache_sub := ?_, cached_pos := ?_, kleaf_out := fun _ _ h => h, leaf_stored := ?_,
           only_needed := ?_, has_needed := ?_, flags := ?_ }
  · intro q l hl _
    rw [upd_apply] at hl
    split at hl
    · cases hl
    · rename_i hq
      obtain ⟨b, hb⟩ := inv.true_hash q l hl (fun h => h)
      exact ⟨b, old_of _ _ _ hb hq⟩
  · intro y t h; show (dropC t0 A C y).isSome = true; rw [h]; rfl
  · intro y t h
    have hC := hval y t h
    have hm := (inv.cached_pos y t hC).1
    have hyx : y ≠ x := ((hdom y).1 (by rw [h]; rfl)).2
    have ht : t ≠ t0 := by
      rintro rfl; exact hyx (at_t0 _ _ hm)
    exact ⟨old_of _ _ _ hm ht, fun h => h⟩
  · intro t hk
    obtain ⟨y, _, hm⟩ := hk
    have ht := not_t0 _ _ _ hm
    rw [upd_ne _ _ ht]
    exact inv.leaf_stored t (kleaf_new t ⟨y, ‹_›, hm⟩)
  · intro q l hl _ hnr
    rw [upd_apply] at hl
    split at hl
    · cases hl
    · rename_i hq
      obtain ⟨b, hb⟩ := inv.true_hash q l hl (fun h => h)
      have hnr' := notR' q hq hnr
      obtain ⟨t, ⟨y, hy, hm⟩, hrow, hanc⟩ := inv.only_needed q l hl (fun h => h) hnr'
      have ht : t ≠ t0 := by
        rintro rfl
        obtain ⟨hp, hpm, _⟩ := L'.parent_node q _ b hb hnr'
        have hpne : parent q ≠ t := by
          rintro e
          have := at_t0 _ _ (e ▸ hpm)
          have := (L'.func _ _ _ _ _ (e ▸ hpm) hnew).2
          cases this
        exact hpos _ _ _ (old_of _ _ _ hpm hpne) hanc
      exact ⟨t, ⟨y, hy, old_of _ _ _ hm ht⟩, hrow, hanc⟩
  · intro q h b hm _ hnr hreq
    have hq := not_t0 _ _ _ hm
    rw [upd_ne _ _ hq]
    apply inv.has_needed q h b ((hN' _).2 (Or.inl hm)) (fun h => h) (notR' q hq hnr)
    rcases hreq with hk | ⟨t, hk, hanc⟩
    · exact Or.inl (kleaf_new q hk)
    · exact Or.inr ⟨t, kleaf_new t hk, hanc⟩
  · intro q l hl _ hnz
    rw [upd_apply] at hl
    split at hl
    · cases hl
    · rename_i hq
      rw [inv.flags q l hl (fun h => h) hnz]
      exact ⟨kleaf_old q hq, kleaf_new q⟩

end step0

/-! ### the placed forests between the levels -/

/-- forward: merging the first part of the low trees keeps well-formedness -/
theorem acc_ok {n : Nat} (Y : PF H) : ∀ (os1 os2 : List (Option (CTree H))) (k : Nat) (a : CTree H),
    OK (accV n k Y (os1 ++ os2) a) → (∀ i, i < os1.length → n.testBit (k + i) = true) →
    OK (accV n (k + os1.length) Y os2 (mergeLow os1 a))
  | [], os2, k, a, ok, _ => by simpa [mergeLow] using ok
  | o :: os1, os2, k, a, ok, hbits => by
    have hbk : n.testBit k = true := by have := hbits 0 (by simp); simpa using this
    obtain ⟨hρσ, heven, hPσ, hPρ⟩ := acc_geo hbk
    rw [List.cons_append, accV_cons] at ok
    have hbits' : ∀ i, i < os1.length → n.testBit (k + 1 + i) = true := by
      intro i hi
      have := hbits (i + 1) (by simp; omega)
      rwa [show k + (i + 1) = k + 1 + i by omega] at this
    have hlen : k + (o :: os1).length = k + 1 + os1.length := by simp; omega
    rw [hlen]
    cases o with
    | some tr =>
      have hσρ : (k, n >>> k) = sib (rootPos n k) := by rw [hρσ, sib_sib]
      rw [hσρ] at ok
      obtain ⟨ok', _, _, _⟩ := stepA_pf (Y ++ lowV n (k + 1) (os1 ++ os2)) (rootPos n k) tr a heven ok
      rw [hPρ, accV_next] at ok'
      exact acc_ok Y os1 os2 (k + 1) (.node tr a) ok' hbits'
    | none =>
      rw [hρσ] at ok
      obtain ⟨ok', _, _⟩ := stepB_pf (Y ++ lowV n (k + 1) (os1 ++ os2)) (k, n >>> k) a ok
      rw [hPσ, accV_next] at ok'
      exact acc_ok Y os1 os2 (k + 1) a ok' hbits'

/-- with bit `j` of `n` set, the right child of `(j+1, n >>> (j+1))` is `(j, n >>> j)` and the left
child is the root position of the tree on row `j` -/
theorem spine_children {n j : Nat} (hb : n.testBit j = true) :
    childP (j + 1, n >>> (j + 1)) 1 = (j, n >>> j) ∧ childP (j + 1, n >>> (j + 1)) 0 = rootPos n j := by
  have h1 := shiftRight_odd_of_testBit hb
  have h2 := shiftRight_succ' n j
  constructor
  · show (j + 1 - 1, 2 * (n >>> (j + 1)) + 1) = (j, n >>> j)
    rw [Nat.add_sub_cancel, h2]; congr 1; omega
  · show (j + 1 - 1, 2 * (n >>> (j + 1)) + 0) = (j, 2 * (n >>> (j + 1)))
    rw [Nat.add_sub_cancel, Nat.add_zero]

/-- filtering a strictly descending list below a bound that is (or is not) a member -/
theorem filter_lt_succ_mem : ∀ (l : List Nat), l.Pairwise (fun a b => a > b) → ∀ (j : Nat), j ∈ l →
    l.filter (fun h => decide (h < j + 1)) = j :: l.filter (fun h => decide (h < j))
  | [], _, j, hj => by cases hj
  | a :: l, hp, j, hj => by
    rw [List.pairwise_cons] at hp
    rcases List.mem_cons.1 hj with rfl | hj'
    · simp only [List.filter_cons, Nat.lt_irrefl, decide_false, Bool.false_eq_true, if_false,
        Nat.lt_succ_self, decide_true, if_true]
      congr 1
      apply List.filter_congr
      intro b hb
      have := hp.1 b hb
      simp only [decide_eq_decide]
      omega
    · have hgt := hp.1 j hj'
      have h1 : ¬ a < j + 1 := by omega
      have h2 : ¬ a < j := by omega
      simp only [List.filter_cons, h1, h2, decide_false, Bool.false_eq_true, if_false]
      exact filter_lt_succ_mem l hp.2 j hj'

theorem filter_lt_succ_not_mem (l : List Nat) (j : Nat) (hj : j ∉ l) :
    l.filter (fun h => decide (h < j + 1)) = l.filter (fun h => decide (h < j)) := by
  apply List.filter_congr
  intro b hb
  have : b ≠ j := fun e => hj (e ▸ hb)
  simp only [decide_eq_decide]
  omega

/-! ### the levels of one `undoSingleAdd` -/

theorem spine_valid {T n j : Nat} (hfit : forestRows (n + 1) ≤ T) (hj : 2 ^ j ≤ n + 1) : Valid T (j, n >>> j) := by
  have h2 := SpecView.le_two_pow_forestRows (n + 1)
  have h3 : 2 ^ forestRows (n + 1) ≤ 2 ^ T := two_pow_le_of_le hfit
  have hjT : j ≤ T := by
    apply Classical.byContradiction
    intro h
    have : 2 ^ (T + 1) ≤ 2 ^ j := Nat.pow_le_pow_right (by decide) (by omega)
    have : 2 ^ (T + 1) = 2 * 2 ^ T := by rw [Nat.pow_succ]; omega
    omega
  refine ⟨hjT, ?_⟩
  show n >>> j < 2 ^ (T - j)
  rw [Nat.shiftRight_eq_div_pow, Nat.div_lt_iff_lt_mul (Nat.two_pow_pos _), ← Nat.pow_add,
    show T - j + j = T by omega]
  omega

theorem dropNode_fst (q : Pos) (A : Pos → Option (Leaf H)) (C : H → Option Pos) :
    (dropNode q A C).1 = upd A q none := by
  unfold dropNode
  cases h : A q with
  | some l => rfl
  | none =>
    funext p
    show A p = upd A q none p
    rw [upd_apply]
    split
    · rename_i e; rw [e, h]
    · rfl

theorem dropNode_snd (q : Pos) (A : Pos → Option (Leaf H)) (C : H → Option Pos) :
    (dropNode q A C).2 = dropC q A C := by
  unfold dropNode dropC
  cases A q <;> rfl

theorem mergeLow_leaf : ∀ (os : List (Option (CTree H))) (a : CTree H) (y : H),
    mergeLow os a = .leaf y → a = .leaf y
  | [], a, y, h => h
  | some t :: os, a, y, h => by
    have := mergeLow_leaf os (.node t a) y h
    cases this
  | none :: os, a, y, h => mergeLow_leaf os a y h

/-- the hash of an inner node is not cached: dropping it does not change the cache -/
theorem dropC_inner {A : Pos → Option (Leaf H)} {C : H → Option Pos} {N : List (Pos × H × Bool)} {R : Pos → Prop}
    {Kp : H → Prop} (L : Laws N R) (inv : HInvP A C N R (fun y => (C y).isSome = true) Kp (fun _ => False))
    {P : Pos} {h : H} (hP : (P, h, false) ∈ N) : dropC P A C = C := by
  funext x
  unfold dropC
  cases hA : A P with
  | none => rfl
  | some l =>
    simp only
    rw [upd_apply]
    split
    · rename_i e
      subst e
      cases hCx : C l.hash with
      | none => rfl
      | some t =>
        exfalso
        obtain ⟨bl, hl⟩ := inv.true_hash _ l hA (fun h => h)
        have hm := (inv.cached_pos _ t hCx).1
        have := L.leaf_hash t l.hash P bl hm hl
        subst this
        have := (L.func _ _ _ _ _ hm hP).2
        cases this
    · rfl

theorem dropC'_eq (q : Pos) (A : Pos → Option (Leaf H)) (C : H → Option Pos) : dropC' q A C = dropC q A C := rfl

/-- two entries of a forest with the same root position are the same entry -/
theorem ofForest_entry_unique {F : Forest H} (hn : F.numLeaves < 2 ^ 64) (hy : Hyg F) {ρ : Pos}
    {o o' : Option (CTree H)} (h1 : (ρ, o) ∈ ofForest F) (h2 : (ρ, o') ∈ ofForest F) : o = o' := by
  have := (ok_ofForest F hn hy).disj _ h1 _ h2 ρ (Anc.refl _) (Anc.refl _)
  exact (Prod.mk.inj this).2

theorem root_entry (a : CTree H) (r o : Nat) :
    ∃ b, ((r, o), a.hash, b) ∈ a.nodes r o ∧ (b = true → ∃ y, a = .leaf y) := by
  cases a with
  | leaf y => exact ⟨true, by simp [CTree.nodes, CTree.hash], fun _ => ⟨y, rfl⟩⟩
  | node l r' => exact ⟨false, by simp [CTree.nodes], fun h => by cases h⟩

theorem dropC_some {A : Pos → Option (Leaf H)} {C : H → Option Pos} {P : Pos} {x : H} {t : Pos}
    (h : dropC P A C x = some t) : C x = some t := by
  unfold dropC at h
  cases hA : A P with
  | none => rw [hA] at h; exact h
  | some l =>
    rw [hA] at h
    simp only at h
    rw [upd_apply] at h
    split at h
    · cases h
    · exact h

/-- the preconditions of `placeEmptyRoot_rep` from the holed invariant of the lifted view -/
theorem place_pre {A : Pos → Option (Leaf H)} {C : H → Option Pos} {N : List (Pos × H × Bool)} {R : Pos → Prop}
    {Kp : H → Prop} (L : Laws N R) (inv : HInvP A C N R (fun y => (C y).isSome = true) Kp (fun _ => False))
    {P : Pos} (hP : R P) (hrow : ∀ e ∈ N, Anc P e.1 → e.1 ≠ P → 1 ≤ e.1.1) :
    (∀ q, SUnder P q → q.1 = 0 → upd A P none q = none) ∧
    (∀ q v, SUnder P q → upd A P none q = some v → v.hash ≠ zero) ∧
    (∀ q v, SUnder P q → upd A P none q = some v → (dropC P A C v.hash).isSome = true → v.remember = true) ∧
    (∀ q v, SUnder P q → upd A P none q = some v → ∀ t, dropC P A C v.hash = some t → t = q) ∧
    (∀ x t, dropC P A C x = some t → SUnder P t → ∃ v, upd A P none t = some v ∧ v.hash = x) := by
  have nh : ¬ (fun _ : Pos => False) (0, 0) := fun c => c
  have hne : ∀ q, SUnder P q → q ≠ P := by
    intro q hs e; subst e; exact Nat.lt_irrefl _ hs.2
  obtain ⟨hPh, hPb, hPN⟩ := L.root_node P hP
  have hzz : ∀ q v, SUnder P q → A q = some v → v.hash ≠ zero := by
    intro q v hs hA hz
    obtain ⟨b, hm⟩ := inv.true_hash q v hA (fun h => h)
    rw [hz] at hm
    exact L.not_root_of_sunder hPN hm hs (L.zero_root q b hm).1
  have hcc : ∀ q v, A q = some v → ∀ t, C v.hash = some t → t = q := by
    intro q v hA t hC
    obtain ⟨b, hm⟩ := inv.true_hash q v hA (fun h => h)
    exact (L.leaf_hash t v.hash q b (inv.cached_pos _ t hC).1 hm).symm
  refine ⟨?_, ?_, ?_, ?_, ?_⟩
  · intro q hs h0
    rw [upd_ne _ _ (hne q hs)]
    cases hA : A q with
    | none => rfl
    | some v =>
      obtain ⟨b, hm⟩ := inv.true_hash q v hA (fun h => h)
      have := hrow _ hm hs.1 (hne q hs)
      simp only at this
      omega
  · intro q v hs hA
    rw [upd_ne _ _ (hne q hs)] at hA
    exact hzz q v hs hA
  · intro q v hs hA hC
    rw [upd_ne _ _ (hne q hs)] at hA
    cases hCv : dropC P A C v.hash with
    | none => rw [hCv] at hC; cases hC
    | some t =>
      have hC' := dropC_some hCv
      have := hcc q v hA t hC'
      subst this
      exact (inv.flags t v hA (fun h => h) (hzz t v hs hA)).2
        ⟨v.hash, by show (C v.hash).isSome = true; rw [hC']; rfl, (inv.cached_pos _ t hC').1⟩
  · intro q v hs hA t hC
    rw [upd_ne _ _ (hne q hs)] at hA
    exact hcc q v hA t (dropC_some hC)
  · intro x t hC hs
    have hC' := dropC_some hC
    rw [upd_ne _ _ (hne t hs)]
    have hm := (inv.cached_pos _ t hC').1
    have hk : KLeaf N (fun y => (C y).isSome = true) t := ⟨x, by show (C x).isSome = true; rw [hC']; rfl, hm⟩
    cases hA : A t with
    | none => exact absurd hA (inv.leaf_stored t hk)
    | some v =>
      obtain ⟨b, hm2⟩ := inv.true_hash t v hA (fun h => h)
      exact ⟨v, rfl, (L.func _ _ _ _ _ hm2 hm).1⟩

section levels
variable {T : Nat} (G : Forest H) (xs : List H) (x : H) {t c : Nat} (Kp : H → Prop)

/-- the encoding of an overwritten empty root of `G` -/
def encE (T : Nat) (G : Forest H) (h : Nat) : U64 := encP T (rootPos G.numLeaves h)

/-- **the loop of `undoSingleAdd`**, by induction on the low trees (highest first) that are still
merged into the accumulated tree -/
theorem unadd_levels (nz : NZ H) (hn63 : G.numLeaves + xs.length + 1 < 2 ^ 63)
    (hfit : forestRows (G.numLeaves + xs.length + 1) ≤ T)
    (htc : G.numLeaves + xs.length = 2 ^ (t + 1) * c + (2 ^ t - 1))
    (hyp : Hyg (G.addMany xs))
    (hx0 : x ≠ zero) (hxph : ∀ u v : H, x ≠ ph u v) (hxfresh : x ∉ (G.addMany xs).liveLeaves) :
    ∀ (ro : List (Option (CTree H))) (Y : PF H), ro.length ≤ t →
      Y ++ lowV (G.numLeaves + xs.length) 0 ro.reverse = ofForest (G.addMany xs) →
      ∀ (m : MapPollard H) (A : Pos → Option (Leaf H)) (C : H → Option Pos),
      Rep m T A C → m.full = false →
      HInvP A C (PForest.nodes (Y ++ [((ro.length, (G.numLeaves + xs.length) >>> ro.length),
          some (mergeLow ro.reverse (.leaf x)))]))
        (IsRoot (Y ++ [((ro.length, (G.numLeaves + xs.length) >>> ro.length),
          some (mergeLow ro.reverse (.leaf x)))])) (fun y => (C y).isSome = true) Kp (fun _ => False) →
      ∃ m' A' C', MapPollard.undoSingleAddLoop (ro.length + 1)
          (encP T (ro.length, (G.numLeaves + xs.length) >>> ro.length))
          (encP T (childP (ro.length, (G.numLeaves + xs.length) >>> ro.length) 0))
          ((((newRows G xs.length).filter (fun h => decide (h < ro.length))) ++ destroyed G xs.length).map (encE T G))
          m = (m', .ok ((destroyed G xs.length).map (encE T G))) ∧
        Rep m' T A' C' ∧ m'.numLeaves = m.numLeaves ∧ m'.full = false ∧
        HInvP A' C' (G.addMany xs).nodes (FRoot (G.addMany xs)) (fun y => (C' y).isSome = true) Kp (fun _ => False) ∧
        (∀ y, (C' y).isSome = true ↔ ((C y).isSome = true ∧ y ≠ x))
  | [], Y, hlen, hY, m, A, C, rep, hfull, inv => by
    -- level 0: the leaf itself
    simp only [List.reverse_nil, lowV, List.append_nil, List.length_nil, Nat.shiftRight_zero, mergeLow] at hY inv ⊢
    have hT := rep.T_le
    have hv : Valid T (0, G.numLeaves + xs.length) := by
      have := spine_valid (T := T) (n := G.numLeaves + xs.length) (j := 0) hfit (by omega)
      rwa [Nat.shiftRight_zero] at this
    rw [undoSingleAddLoop_last rep.rows hT hv]
    obtain ⟨rep', hnl', hfl'⟩ := dropNodeM_rep rep hv
    have hnp : (G.addMany xs).numLeaves = G.numLeaves + xs.length := numLeaves_addMany' G xs
    have hn64 : (G.addMany xs).numLeaves < 2 ^ 64 := by rw [hnp]; omega
    have hfilter : (newRows G xs.length).filter (fun h => decide (h < 0)) = [] := by
      apply List.filter_eq_nil_iff.2
      intro a _; simp
    rw [hfilter, List.nil_append]
    -- the placed forest is the forest of `Gp` plus the leaf
    obtain ⟨ok0, hnodes0⟩ := step0_pf (G.addMany xs) x (by rw [hnp]; omega) hyp hxfresh hx0 hxph
    rw [hnp] at ok0 hnodes0
    rw [hY] at inv
    have L' := laws_of_ok nz ok0
    have Lp := laws_forest nz (G.addMany xs) hn64 hyp
    have hN' : ∀ e, e ∈ PForest.nodes (ofForest (G.addMany xs) ++ [((0, G.numLeaves + xs.length), some (CTree.leaf x))]) ↔
        e ∈ (G.addMany xs).nodes ∨ e = ((0, G.numLeaves + xs.length), x, true) := by
      intro e; rw [hnodes0, List.mem_append, List.mem_singleton]
    have hR' : ∀ z, IsRoot (ofForest (G.addMany xs) ++ [((0, G.numLeaves + xs.length), some (CTree.leaf x))]) z ↔
        FRoot (G.addMany xs) z ∨ z = (0, G.numLeaves + xs.length) := by
      intro z
      rw [PForestAdd.isRoot_append, isRoot_ofForest _ hn64, isRoot_single]
      rfl
    have hpos : ∀ q h b, (q, h, b) ∈ (G.addMany xs).nodes → ¬ Anc q (0, G.numLeaves + xs.length) := by
      intro q h b hm ha
      have h1 := MapAdd.node_lt hm
      simp only at h1
      rw [hnp] at h1
      have h2 : q.2 = (G.numLeaves + xs.length) / 2 ^ (q.1 - 0) := ha.2
      rw [Nat.sub_zero] at h2
      have := Nat.lt_mul_div_succ (G.numLeaves + xs.length) (Nat.two_pow_pos q.1)
      rw [← h2, Nat.mul_comm] at this
      omega
    have hxN : ∀ q b, (q, x, b) ∉ (G.addMany xs).nodes := by
      intro q b hm
      rw [← nodes_ofForest] at hm
      have := hash_leaf_mem hm hx0 hxph
      rw [leaves_ofForest _ hn64] at this
      exact hxfresh this
    have inv' := unstep0 L' inv hN' hR' hpos hxN
    rw [dropNode_fst, dropNode_snd] at rep'
    refine ⟨_, _, _, rfl, rep', hnl', hfl'.trans hfull, inv', ?_⟩
    -- the domain of the cache
    intro y
    unfold dropC
    cases hA : A (0, G.numLeaves + xs.length) with
    | some l =>
      simp only
      obtain ⟨b, hb⟩ := inv.true_hash _ l hA (fun h => h)
      have hlx : l.hash = x := by
        rcases (hN' _).1 hb with h' | h'
        · exact absurd (Anc.refl _) (hpos _ _ _ h')
        · simp only [Prod.mk.injEq] at h'; exact h'.2.1
      rw [hlx, upd_apply]
      by_cases hy : y = x
      · simp [hy]
      · simp [hy]
    | none =>
      simp only
      constructor
      · intro h
        refine ⟨h, ?_⟩
        rintro rfl
        obtain ⟨t', ht'⟩ := Option.isSome_iff_exists.1 h
        have hm := (inv.cached_pos y t' ht').1
        rcases (hN' _).1 hm with h' | h'
        · exact hxN _ _ h'
        · simp only [Prod.mk.injEq] at h'
          have := inv.leaf_stored t' ⟨y, h, hm⟩
          rw [h'.1] at this
          exact this hA
      · exact fun h => h.1
  | o :: ro, Y, hlen, hY, m, A, C, rep, hfull, inv => by
    have hT := rep.T_le
    have hnp : (G.addMany xs).numLeaves = G.numLeaves + xs.length := numLeaves_addMany' G xs
    have hn64 : (G.addMany xs).numLeaves < 2 ^ 64 := by rw [hnp]; omega
    have hjt : ro.length < t := by simp only [List.length_cons] at hlen; omega
    have hbit : (G.numLeaves + xs.length).testBit ro.length = true := by
      rw [htc]; exact testBit_trailing_low hjt
    obtain ⟨hρσ, heven, hPσ, hPρ⟩ := acc_geo hbit
    obtain ⟨hc1, hc0⟩ := spine_children hbit
    obtain ⟨hkT, hnT, _, _, hσv⟩ := MapAddRep.geo hfit hbit
    have hρv : Valid T (rootPos (G.numLeaves + xs.length) ro.length) := MapAddRep.valid_root hfit hbit
    have hsv : Valid T (ro.length + 1, (G.numLeaves + xs.length) >>> (ro.length + 1)) := by
      rw [← hPσ]; exact valid_parent hσv hkT
    -- the lists
    have hrev : (o :: ro).reverse = ro.reverse ++ [o] := List.reverse_cons
    have hlen' : (o :: ro).length = ro.length + 1 := rfl
    simp only [hrev, hlen'] at hY inv ⊢
    rw [lowV_snoc, Nat.zero_add, List.length_reverse] at hY
    have hY' : (Y ++ [(rootPos (G.numLeaves + xs.length) ro.length, o)]) ++
        lowV (G.numLeaves + xs.length) 0 ro.reverse = ofForest (G.addMany xs) := by
      rw [← hY]; simp
    have hρent : (rootPos (G.numLeaves + xs.length) ro.length, o) ∈ ofForest (G.addMany xs) := by
      rw [← hY]; simp
    -- the bottom view is well formed
    obtain ⟨ok0, _⟩ := step0_pf (G.addMany xs) x (by rw [hnp]; omega) hyp hxfresh hx0 hxph
    rw [hnp] at ok0
    have hbits : ∀ i, i < ro.reverse.length → (G.numLeaves + xs.length).testBit (0 + i) = true := by
      intro i hi
      rw [List.length_reverse] at hi
      rw [Nat.zero_add, htc]; exact testBit_trailing_low (by omega)
    have okb : OK (accV (G.numLeaves + xs.length) 0 Y (ro.reverse ++ [o]) (.leaf x)) := by
      unfold accV
      rw [lowV_snoc, Nat.zero_add, List.length_reverse, Nat.shiftRight_zero, hY]
      exact ok0
    have okj := acc_ok Y ro.reverse [o] 0 (.leaf x) okb hbits
    rw [Nat.zero_add, List.length_reverse] at okj
    have hview : accV (G.numLeaves + xs.length) ro.length Y [o] (mergeLow ro.reverse (.leaf x)) =
        Y ++ [(rootPos (G.numLeaves + xs.length) ro.length, o),
          ((ro.length, (G.numLeaves + xs.length) >>> ro.length), some (mergeLow ro.reverse (.leaf x)))] := by
      unfold accV; simp [lowV]
    rw [hview] at okj
    have hsplit : Y ++ [(rootPos (G.numLeaves + xs.length) ro.length, o),
          ((ro.length, (G.numLeaves + xs.length) >>> ro.length), some (mergeLow ro.reverse (.leaf x)))] =
        (Y ++ [(rootPos (G.numLeaves + xs.length) ro.length, o)]) ++
          [((ro.length, (G.numLeaves + xs.length) >>> ro.length), some (mergeLow ro.reverse (.leaf x)))] := by simp
    have hmerge := mergeLow_snoc ro.reverse o (.leaf x)
    -- the model state after the node at the spine position has been dropped
    obtain ⟨rep1, hnl1, hfl1⟩ := dropNodeM_rep rep hsv
    rw [dropNode_fst, dropNode_snd] at rep1
    have hD := destroyed_succ G xs.length
    have hsub : ∀ h, h ∈ (newRows G xs.length).filter (fun h => decide (h < ro.length + 1)) ++ destroyed G xs.length →
        h ∈ destroyed G (xs.length + 1) := by
      intro h hh
      rw [hD]
      rcases List.mem_append.1 hh with h1 | h1
      · exact List.mem_append_left _ (List.mem_filter.1 h1).1
      · exact List.mem_append_right _ h1
    cases o with
    | some tr =>
      -- un-step A
      have hmt : mergeLow (ro.reverse ++ [some tr]) (.leaf x) = .node tr (mergeLow ro.reverse (.leaf x)) := by
        have := hmerge; simp only [join] at this; exact Option.some.inj this
      rw [hmt] at inv
      have hσρ : (ro.length, (G.numLeaves + xs.length) >>> ro.length) = sib (rootPos (G.numLeaves + xs.length) ro.length) := by
        rw [hρσ, sib_sib]
      have okj' := okj
      rw [hσρ] at okj'
      obtain ⟨ok', hN', hR', hfresh⟩ := stepA_pf Y (rootPos (G.numLeaves + xs.length) ro.length) tr
        (mergeLow ro.reverse (.leaf x)) heven okj'
      rw [hPρ] at ok' hN' hR' hfresh
      have L' := laws_of_ok nz ok'
      have hPN' : ((ro.length + 1, (G.numLeaves + xs.length) >>> (ro.length + 1)),
          ph tr.hash (mergeLow ro.reverse (.leaf x)).hash, false) ∈ PForest.nodes
          (Y ++ [((ro.length + 1, (G.numLeaves + xs.length) >>> (ro.length + 1)),
            some (CTree.node tr (mergeLow ro.reverse (.leaf x))))]) := (hN' _).2 (Or.inl rfl)
      have hCeq := dropC_inner L' inv hPN'
      have inv1 := unstepJoin (A := A) (C := C) (by rw [hPρ] at *; exact L') inv
        (ρ := rootPos (G.numLeaves + xs.length) ro.length)
        (by rw [hPρ]; exact hN') (by rw [hPρ]; exact hR') (by rw [hPρ]; exact hfresh)
      rw [hPρ, dropC'_eq, ← hσρ, hsplit] at inv1
      rw [hCeq] at rep1 inv1
      -- the head of the list is not this root position
      have hnotin : ro.length ∉ newRows G xs.length := by
        intro hmem
        have := ((low_tree_none_iff G xs (by omega) htc hjt).1).2 hmem
        have := ofForest_entry_unique hn64 hyp this hρent
        cases this
      have hne : ∀ e0 er, ((newRows G xs.length).filter (fun h => decide (h < ro.length + 1)) ++ destroyed G xs.length).map
          (encE T G) = e0 :: er → e0 ≠ encP T (childP (ro.length + 1, (G.numLeaves + xs.length) >>> (ro.length + 1)) 0) := by
        intro e0 er he
        have hmem : e0 ∈ ((newRows G xs.length).filter (fun h => decide (h < ro.length + 1)) ++
            destroyed G xs.length).map (encE T G) := by rw [he]; simp
        obtain ⟨h, hh, rfl⟩ := List.mem_map.1 hmem
        have hd := hsub h hh
        have hne := low_tree_some_ne G xs (by omega) htc hjt hρent h hd
        rw [hc0]
        intro e
        apply hne
        have hbh : G.numLeaves.testBit h = true := by
          have := (mem_destroyed.1 hd).1
          exact (mem_treeRows.1 this).2
        have hG : G.numLeaves ≤ 2 ^ T := by omega
        have hv1 := Props.C16.rootPos_valid hG hbh
        exact encP_inj' hT ⟨hv1.1, hv1.2⟩ hρv e
      rw [undoSingleAddLoop_skip rep.rows hT hsv (by show 1 ≤ ro.length + 1; omega) ro.length _ hne, hc1,
        filter_lt_succ_not_mem _ _ hnotin]
      obtain ⟨m', A', C', hloop, rep', hnl', hfl', inv', hdom'⟩ := unadd_levels nz hn63 hfit htc hyp hx0 hxph hxfresh ro
        (Y ++ [(rootPos (G.numLeaves + xs.length) ro.length, some tr)]) (by omega) hY' _ _ C rep1 (hfl1.trans hfull) inv1
      exact ⟨m', A', C', hloop, rep', hnl'.trans hnl1, hfl', inv', hdom'⟩
    | none =>
      have hmt : mergeLow (ro.reverse ++ [none]) (.leaf x) = mergeLow ro.reverse (.leaf x) := by
        have := hmerge; simp only [join] at this; exact Option.some.inj this
      rw [hmt] at inv
      have okj' := okj
      rw [hρσ] at okj'
      obtain ⟨ok', hN', hR'⟩ := stepB_pf Y (ro.length, (G.numLeaves + xs.length) >>> ro.length)
        (mergeLow ro.reverse (.leaf x)) okj'
      rw [hPσ] at ok' hN' hR'
      have L' := laws_of_ok nz ok'
      have L := laws_of_ok nz okj'
      have hρN : (sib (ro.length, (G.numLeaves + xs.length) >>> ro.length), (zero : H), false) ∈
          PForest.nodes (Y ++ [(sib (ro.length, (G.numLeaves + xs.length) >>> ro.length), none),
            ((ro.length, (G.numLeaves + xs.length) >>> ro.length), some (mergeLow ro.reverse (.leaf x)))]) := by
        rw [mem_nodes]
        exact ⟨(sib (ro.length, (G.numLeaves + xs.length) >>> ro.length), none), by simp, by simp [entryNodes]⟩
      have hσR : IsRoot (Y ++ [(sib (ro.length, (G.numLeaves + xs.length) >>> ro.length), none),
            ((ro.length, (G.numLeaves + xs.length) >>> ro.length), some (mergeLow ro.reverse (.leaf x)))])
          (ro.length, (G.numLeaves + xs.length) >>> ro.length) :=
        ⟨((ro.length, (G.numLeaves + xs.length) >>> ro.length), some (mergeLow ro.reverse (.leaf x))), by simp, rfl⟩
      have L'' := L'
      have inv'' := inv
      have hN'' := hN'
      have hR'' := hR'
      rw [← hPσ] at L'' inv'' hN'' hR''
      have inv1 := unstepB (A := A) (C := C) L L'' inv'' hρN hσR hN'' hR''
      rw [hPσ, ← hρσ, hsplit] at inv1
      -- the model
      have hRs : IsRoot (Y ++ [((ro.length + 1, (G.numLeaves + xs.length) >>> (ro.length + 1)),
          some (mergeLow ro.reverse (.leaf x)))]) (ro.length + 1, (G.numLeaves + xs.length) >>> (ro.length + 1)) :=
        ⟨((ro.length + 1, (G.numLeaves + xs.length) >>> (ro.length + 1)),
          some (mergeLow ro.reverse (.leaf x))), by simp, rfl⟩
      have hrow : ∀ e ∈ PForest.nodes (Y ++ [((ro.length + 1, (G.numLeaves + xs.length) >>> (ro.length + 1)),
          some (mergeLow ro.reverse (.leaf x)))]),
          Anc (ro.length + 1, (G.numLeaves + xs.length) >>> (ro.length + 1)) e.1 →
          e.1 ≠ (ro.length + 1, (G.numLeaves + xs.length) >>> (ro.length + 1)) → 1 ≤ e.1.1 := by
        intro e he ha _
        rcases (hN' e).1 he with ⟨hna, _⟩ | ⟨c, _, hc, _⟩
        · exact absurd ha hna
        · rw [hc]; show 1 ≤ c.1 + 1; omega
      obtain ⟨p0, pz, pfl, pc, pc2⟩ := place_pre L' inv hRs hrow
      obtain ⟨m2, hpl, rep2, hnl2, hfl2⟩ := placeEmptyRoot_rep rep1 (hfl1.trans hfull) hσv hkT
        (by rw [hPσ]; exact p0) (by rw [hPσ]; exact pz) (by rw [hPσ]; exact pfl) (by rw [hPσ]; exact pc)
        (by rw [hPσ]; exact pc2)
      rw [← hρσ] at hpl
      have rep3 := rep2.putNode hρv (⟨zero, true⟩ : Leaf H)
      have hmem : ro.length ∈ newRows G xs.length :=
        ((low_tree_none_iff G xs (by omega) htc hjt).1).1 hρent
      have hrp := ((low_tree_none_iff G xs (by omega) htc hjt).2) hmem
      rw [filter_lt_succ_mem _ (newRows_sorted G xs.length) _ hmem, List.cons_append, List.map_cons]
      have hhead : encE T G ro.length = encP T (childP (ro.length + 1, (G.numLeaves + xs.length) >>> (ro.length + 1)) 0) := by
        unfold encE; rw [hc0, hrp]
      rw [hhead, undoSingleAddLoop_place rep.rows hT hsv (by show 1 ≤ ro.length + 1; omega) ro.length _
        (by rw [hc0]; exact hpl), hc1, hc0]
      obtain ⟨m', A', C', hloop, rep', hnl', hfl', inv', hdom'⟩ := unadd_levels nz hn63 hfit htc hyp hx0 hxph hxfresh ro
        (Y ++ [(rootPos (G.numLeaves + xs.length) ro.length, none)]) (by omega) hY' _ _ _ rep3
        (show m2.full = false from hfl2.trans (hfl1.trans hfull)) inv1
      refine ⟨m', A', C', hloop, rep', hnl'.trans (hnl2.trans hnl1), hfl', inv', ?_⟩
      intro y
      rw [hdom', ← hPσ, unstepC_dom, hPσ]
      constructor
      · rintro ⟨⟨h1, _⟩, h2⟩; exact ⟨h1, h2⟩
      · rintro ⟨h1, h2⟩
        refine ⟨⟨h1, ?_⟩, h2⟩
        intro l hA e
        apply h2
        subst e
        obtain ⟨bl, hm⟩ := inv.true_hash _ l hA (fun h => h)
        cases hC : C l.hash with
        | none => rw [hC] at h1; cases h1
        | some tt =>
          have hm2 := (inv.cached_pos _ tt hC).1
          have hst := L'.leaf_hash tt l.hash _ bl hm2 hm
          obtain ⟨b, hb, hbl⟩ := root_entry (mergeLow ro.reverse (.leaf x)) (ro.length + 1)
            ((G.numLeaves + xs.length) >>> (ro.length + 1))
          have hb' : ((ro.length + 1, (G.numLeaves + xs.length) >>> (ro.length + 1)),
              (mergeLow ro.reverse (.leaf x)).hash, b) ∈ PForest.nodes
              (Y ++ [((ro.length + 1, (G.numLeaves + xs.length) >>> (ro.length + 1)),
                some (mergeLow ro.reverse (.leaf x)))]) := by
            rw [mem_nodes]
            exact ⟨((ro.length + 1, (G.numLeaves + xs.length) >>> (ro.length + 1)),
              some (mergeLow ro.reverse (.leaf x))), by simp, hb⟩
          have hm3 : ((ro.length + 1, (G.numLeaves + xs.length) >>> (ro.length + 1)), l.hash, true) ∈ PForest.nodes
              (Y ++ [((ro.length + 1, (G.numLeaves + xs.length) >>> (ro.length + 1)),
                some (mergeLow ro.reverse (.leaf x)))]) :=
            Eq.subst (motive := fun z => (z, l.hash, true) ∈ PForest.nodes
              (Y ++ [((ro.length + 1, (G.numLeaves + xs.length) >>> (ro.length + 1)),
                some (mergeLow ro.reverse (.leaf x)))])) hst.symm hm2
          obtain ⟨e1, e2⟩ := L'.func _ _ _ _ _ hm3 hb'
          obtain ⟨y, hy⟩ := hbl e2.symm
          have := mergeLow_leaf _ _ _ hy
          cases this
          rw [e1, hy]; rfl
end levels

theorem HInvP.congr_R {A : Pos → Option (Leaf H)} {C : H → Option Pos} {N : List (Pos × H × Bool)}
    {R R' : Pos → Prop} {K Kp : H → Prop} {Hole : Pos → Prop} (inv : HInvP A C N R K Kp Hole)
    (h : ∀ q, R' q ↔ R q) : HInvP A C N R' K Kp Hole where
  true_hash := inv.true_hash
  cache_sub := inv.cache_sub
  cached_pos := inv.cached_pos
  kleaf_out := inv.kleaf_out
  leaf_stored := inv.leaf_stored
  only_needed := fun q l hl hh hr => inv.only_needed q l hl hh (fun r => hr ((h q).2 r))
  has_needed := fun q h' b hm hh hr => inv.has_needed q h' b hm hh (fun r => hr ((h q).2 r))
  flags := inv.flags

theorem addMany_snoc (G : Forest H) (xs : List H) (x : H) : G.addMany (xs ++ [x]) = (G.addMany xs).add x := by
  simp [Forest.addMany, Forest.add, List.map_append, List.append_assoc]

theorem filter_all {α : Type} (p : α → Bool) : ∀ (l : List α), (∀ a ∈ l, p a = true) → l.filter p = l
  | [], _ => rfl
  | a :: l, h => by
    rw [List.filter_cons, if_pos (h a List.mem_cons_self), filter_all p l (fun b hb => h b (List.mem_cons_of_mem _ hb))]

/-- **`undoSingleAdd`**: the last addition `x` is taken back -/
theorem unadd_single (nz : NZ H) {T : Nat} (G : Forest H) (xs : List H) (x : H) (Kp : H → Prop)
    (hn63 : G.numLeaves + xs.length + 1 < 2 ^ 63)
    (hfit : forestRows (G.numLeaves + xs.length + 1) ≤ T)
    (hyp : Hyg (G.addMany (xs ++ [x])))
    {m : MapPollard H} {A : Pos → Option (Leaf H)} {C : H → Option Pos} (rep : Rep m T A C)
    (hfull : m.full = false) (hnl : m.numLeaves = BitVec.ofNat 64 (G.numLeaves + xs.length + 1))
    (inv : HInvP A C (G.addMany (xs ++ [x])).nodes (FRoot (G.addMany (xs ++ [x])))
      (fun y => (C y).isSome = true) Kp (fun _ => False)) :
    ∃ m' A' C', MapPollard.undoSingleAdd ((destroyed G (xs.length + 1)).map (encE T G)) m
        = (m', .ok ((destroyed G xs.length).map (encE T G))) ∧
      Rep m' T A' C' ∧ m'.numLeaves = BitVec.ofNat 64 (G.numLeaves + xs.length) ∧ m'.full = false ∧
      HInvP A' C' (G.addMany xs).nodes (FRoot (G.addMany xs)) (fun y => (C' y).isSome = true) Kp (fun _ => False) ∧
      (∀ y, (C' y).isSome = true ↔ ((C y).isSome = true ∧ y ≠ x)) := by
  have hT := rep.T_le
  have hnp : (G.addMany xs).numLeaves = G.numLeaves + xs.length := numLeaves_addMany' G xs
  rw [addMany_snoc] at hyp inv
  have hll : ((G.addMany xs).add x).liveLeaves = (G.addMany xs).liveLeaves ++ [x] := by
    simp [Forest.add, Forest.liveLeaves, List.filterMap_append]
  have hyG : Hyg (G.addMany xs) := by
    refine ⟨?_, ?_, ?_⟩
    · have := hyp.nodup; rw [hll] at this; exact (List.nodup_append.1 this).1
    · intro y hy; exact hyp.nz y (by rw [hll]; exact List.mem_append_left _ hy)
    · intro y hy; exact hyp.nph y (by rw [hll]; exact List.mem_append_left _ hy)
  have hx0 : x ≠ zero := hyp.nz x (by rw [hll]; simp)
  have hxph : ∀ u v : H, x ≠ ph u v := hyp.nph x (by rw [hll]; simp)
  have hxfresh : x ∉ (G.addMany xs).liveLeaves := by
    intro hmem
    have := hyp.nodup; rw [hll] at this
    exact (List.nodup_append.1 this).2.2 x hmem x (by simp) rfl
  obtain ⟨t, c, htc⟩ := exists_trailing_ones (G.numLeaves + xs.length)
  have ht63 : t ≤ 63 := trailing_le_63 htc (by omega)
  obtain ⟨Y, os, hlen, hdec, hdec', _, _⟩ := add_decomp (G.addMany xs) x (hnp.trans htc) ht63
  rw [hnp] at hdec hdec'
  have hn1 : ((G.addMany xs).add x).numLeaves < 2 ^ 64 := by rw [MapAdd.numLeaves_add, hnp]; omega
  have inv0 : HInvP A C (PForest.nodes (Y ++ [((os.reverse.length, (G.numLeaves + xs.length) >>> os.reverse.length),
      some (mergeLow os.reverse.reverse (.leaf x)))])) (IsRoot (Y ++ [((os.reverse.length,
        (G.numLeaves + xs.length) >>> os.reverse.length), some (mergeLow os.reverse.reverse (.leaf x)))]))
      (fun y => (C y).isSome = true) Kp (fun _ => False) := by
    rw [List.length_reverse, List.reverse_reverse, hlen, ← hdec', nodes_ofForest]
    exact HInvP.congr_R inv (isRoot_ofForest _ hn1)
  obtain ⟨m', A', C', hloop, rep', hnl', hfl', inv', hdom'⟩ := unadd_levels G xs x Kp nz hn63 hfit htc hyG hx0 hxph hxfresh
    os.reverse Y (by rw [List.length_reverse, hlen]; exact Nat.le_refl _) (by rw [List.reverse_reverse]; exact hdec.symm)
    m A C rep hfull inv0
  rw [List.length_reverse, hlen, filter_all _ _ (fun a ha => by simpa using newRows_lt G htc a ha), ← destroyed_succ] at hloop
  have hsh : (G.numLeaves + xs.length) >>> t = 2 * c := by rw [htc]; exact shiftRight_trailing t c
  rw [hsh] at hloop
  refine ⟨{ m' with numLeaves := m'.numLeaves - 1 }, A', C', ?_, ?_, ?_, hfl', inv', hdom'⟩
  · rw [undoSingleAdd_start rep.rows hT hnl hn63 hfit htc, hloop]
  · exact ⟨rep'.T_le, rep'.rows, rep'.keys, rep'.node, rep'.dom, rep'.cache, rep'.cdom⟩
  · show m'.numLeaves - 1 = _
    rw [hnl', hnl, BitVec.ofNat_add]
    exact BitVec.add_sub_cancel _ _

theorem forestRows_mono_succ (n : Nat) : forestRows n ≤ forestRows (n + 1) :=
  SpecView.forestRows_le (Nat.le_trans (Nat.le_succ n) (forestRows_spec_le (n + 1)))

/-- **the loop of `undoAdd`**: all additions `xs` are taken back, the last one first -/
theorem unadd_loop (nz : NZ H) {T : Nat} (G : Forest H) (Kp : H → Prop) : ∀ (xs : List H),
    G.numLeaves + xs.length < 2 ^ 63 → forestRows (G.numLeaves + xs.length) ≤ T → Hyg (G.addMany xs) →
    ∀ {m : MapPollard H} {A : Pos → Option (Leaf H)} {C : H → Option Pos}, Rep m T A C → m.full = false →
    m.numLeaves = BitVec.ofNat 64 (G.numLeaves + xs.length) →
    HInvP A C (G.addMany xs).nodes (FRoot (G.addMany xs)) (fun y => (C y).isSome = true) Kp (fun _ => False) →
    ∃ m' A' C', MapPollard.undoAddLoop xs.length ((destroyed G xs.length).map (encE T G)) m = (m', .ok ()) ∧
      Rep m' T A' C' ∧ m'.numLeaves = BitVec.ofNat 64 G.numLeaves ∧ m'.full = false ∧
      HInvP A' C' G.nodes (FRoot G) (fun y => (C' y).isSome = true) Kp (fun _ => False) ∧
      (∀ y, (C' y).isSome = true ↔ ((C y).isSome = true ∧ y ∉ xs)) := by
  intro xs0
  generalize hk : xs0.length = k
  induction k generalizing xs0 with
  | zero =>
    have : xs0 = [] := List.length_eq_zero_iff.1 hk
    subst this
    intro _ _ _ m A C rep hfull hnl inv
    refine ⟨m, A, C, rfl, rep, hnl, hfull, ?_, fun y => by simp⟩
    have : G.addMany [] = G := by simp [Forest.addMany]
    rw [this] at inv
    exact inv
  | succ k ih =>
    have hne : xs0 ≠ [] := by intro e; subst e; cases hk
    obtain ⟨xs, x, rfl⟩ : ∃ xs x, xs0 = xs ++ [x] := ⟨xs0.dropLast, xs0.getLast hne, (List.dropLast_concat_getLast hne).symm⟩
    have hk' : xs.length = k := by simpa using hk
    intro hn63 hfit hyp m A C rep hfull hnl inv
    subst hk'
    rw [← Nat.add_assoc] at hn63 hfit hnl
    obtain ⟨m1, A1, C1, hrun, rep1, hnl1, hfl1, inv1, hdom1⟩ := unadd_single nz G xs x Kp hn63 hfit hyp rep hfull hnl inv
    have hyp1 : Hyg (G.addMany xs) := by
      rw [addMany_snoc] at hyp
      have hll : ((G.addMany xs).add x).liveLeaves = (G.addMany xs).liveLeaves ++ [x] := by
        simp [Forest.add, Forest.liveLeaves, List.filterMap_append]
      refine ⟨?_, ?_, ?_⟩
      · have := hyp.nodup; rw [hll] at this; exact (List.nodup_append.1 this).1
      · intro y hy; exact hyp.nz y (by rw [hll]; exact List.mem_append_left _ hy)
      · intro y hy; exact hyp.nph y (by rw [hll]; exact List.mem_append_left _ hy)
    obtain ⟨m2, A2, C2, hrun2, rep2, hnl2, hfl2, inv2, hdom2⟩ := ih xs rfl (by omega)
      (Nat.le_trans (forestRows_mono_succ _) hfit) hyp1 rep1 hfl1 hnl1 inv1
    refine ⟨m2, A2, C2, ?_, rep2, hnl2, hfl2, inv2, ?_⟩
    · unfold MapPollard.undoAddLoop
      rw [hrun]
      exact hrun2
    · intro y
      rw [hdom2, hdom1]
      simp only [List.mem_append, List.mem_singleton, not_or]
      constructor
      · rintro ⟨⟨a, b⟩, c⟩; exact ⟨a, c, b⟩
      · rintro ⟨a, c, b⟩; exact ⟨⟨a, b⟩, c⟩

end UtreexoVerif.Proofs.MapUndoAdd
