/-
  `undoSingleAdd` / `undoAdd` on 63-row encoded positions (property C15).
-/
import UtreexoVerif.Proofs.SchedAdd
import UtreexoVerif.Proofs.SchedPos
import UtreexoVerif.Props.C16b
import UtreexoVerif.Props.C16d
import UtreexoVerif.Proofs.SpecView
import UtreexoVerif.Model.Schedule
set_option linter.unusedSectionVars false
set_option linter.unusedVariables false

namespace UtreexoVerif.Proofs.SchedAddU
open UtreexoVerif UtreexoVerif.GoInt Spec Model
open UtreexoVerif.Proofs UtreexoVerif.Proofs.FinalPos UtreexoVerif.Proofs.SchedSem
open UtreexoVerif.Proofs.SpecNodes UtreexoVerif.Proofs.CalcGeo UtreexoVerif.Proofs.SchedAdd
open UtreexoVerif.Props.C16

theorem cst_eq : CSTTotalRows = H8 63 := rfl

/-- `moveDownPosition` on encoded positions is `moveDownP` (a moved position is above row 0) -/
theorem moveDownPosition_E {top p : Pos} (ht : Valid 63 top) (ht1 : 1 ≤ top.1) (hp : Valid 63 p)
    (hp1 : (p = top ∨ (p.1 < top.1 ∧ p.2 / 2 ^ (top.1 - p.1) = top.2)) → 1 ≤ p.1) :
    moveDownPosition (H8 63) (E 63 top) (E 63 (top.1 - 1, 2 * top.2)) (E 63 p) =
      E 63 (moveDownP top p) := by
  unfold moveDownPosition moveDownP
  have hanc : isAncestor (E 63 top) (E 63 p) (H8 63) =
      decide (p.1 < top.1 ∧ p.2 / 2 ^ (top.1 - p.1) = top.2) := by
    unfold E
    exact isAncestor_enc (by decide) hp.1 hp.2 ht.1 ht.2
  by_cases hc : p = top ∨ (p.1 < top.1 ∧ p.2 / 2 ^ (top.1 - p.1) = top.2)
  · have h1 := hp1 hc
    have hb : (E 63 p == E 63 top || isAncestor (E 63 top) (E 63 p) (H8 63)) = true := by
      rcases hc with e | e
      · rw [e]; simp
      · rw [hanc, decide_eq_true e]; simp
    rw [if_pos hb, if_pos hc]
    obtain ⟨r, o⟩ := p
    obtain ⟨R, O⟩ := top
    simp only at h1 ht1 hp ht ⊢
    obtain ⟨r, rfl⟩ : ∃ r', r = r' + 1 := ⟨r - 1, by omega⟩
    have hrR : r + 1 ≤ R := by
      rcases hc with e | e
      · injection e with e1 e2; omega
      · exact Nat.le_of_lt e.1
    have hRle : R ≤ 63 := ht.1
    have hO : 2 * O < 2 ^ (63 - (R - 1)) := by
      have := ht.2
      simp only at this
      rw [show 63 - (R - 1) = (63 - R) + 1 by omega, Nat.pow_succ]
      omega
    unfold E
    simp only
    rw [calcPrevPosition_enc (by decide) (show r ≤ R - 1 by omega) (show R - 1 < 63 by omega)
      hp.2 hO]
    rw [show R - 1 - r = R - (r + 1) by omega, Nat.add_sub_cancel]
    have : decide (2 * O % 2 = 0) = true := by simp
    rw [this]
  · have hb : (E 63 p == E 63 top || isAncestor (E 63 top) (E 63 p) (H8 63)) = false := by
      rw [hanc]
      have h1 : ¬ p = top := fun e => hc (Or.inl e)
      have h2 : ¬ (p.1 < top.1 ∧ p.2 / 2 ^ (top.1 - p.1) = top.2) := fun e => hc (Or.inr e)
      rw [decide_eq_false h2, Bool.or_false]
      apply beq_false_of_ne
      intro e
      exact h1 (E_inj (by decide) hp ht e)
    rw [hb, if_neg hc]
    simp


/-! ### the loop of `undoSingleAdd`, position by position -/

theorem find_cases (td : List U64) (x : U64) :
    (x ∈ td ∧ ∃ i, td.findIdx? (· == x) = some i ∧ td.eraseIdx i = td.erase x) ∨
    (x ∉ td ∧ td.findIdx? (· == x) = none) := by
  have he := List.erase_eq_eraseIdx td x
  have hid : List.idxOf? x td = td.findIdx? (· == x) := rfl
  cases hf : td.findIdx? (· == x) with
  | none =>
    right
    refine ⟨?_, rfl⟩
    intro hm
    have := List.findIdx?_eq_none_iff.mp hf x hm
    simp at this
  | some i =>
    left
    obtain ⟨hlt, hp, _⟩ := List.findIdx?_eq_some_iff_getElem.mp hf
    refine ⟨?_, i, rfl, ?_⟩
    · have : td[i] = x := by simpa using hp
      rw [← this]; exact List.getElem_mem hlt
    · rw [he, hid, hf]

/-- what the loop does to one position -/
def saG (tr : U8) : Nat → U64 → List U64 → U64 → U64
  | 0, _, _, p => p
  | row+1, pos, td, p =>
    let pr := LeftChild pos tr
    match td.findIdx? (· == pr) with
    | some i => saG tr row (RightChild pos tr) (td.eraseIdx i) (moveDownPosition tr pos pr p)
    | none => saG tr row (RightChild pos tr) td p

/-- what the loop does to `toDestroy` -/
def saTd (tr : U8) : Nat → U64 → List U64 → List U64
  | 0, _, td => td
  | row+1, pos, td =>
    let pr := LeftChild pos tr
    match td.findIdx? (· == pr) with
    | some i => saTd tr row (RightChild pos tr) (td.eraseIdx i)
    | none => saTd tr row (RightChild pos tr) td

/-- the position looked up in the last iteration -/
def saLast (tr : U8) : Nat → U64 → U64
  | 0, pos => pos
  | row+1, pos => saLast tr row (RightChild pos tr)

theorem saG_none {tr : U8} {row : Nat} {pos : U64} {td : List U64}
    (h : td.findIdx? (· == LeftChild pos tr) = none) (p : U64) :
    saG tr (row + 1) pos td p = saG tr row (RightChild pos tr) td p := by
  simp only [saG, h]

theorem saG_some {tr : U8} {row : Nat} {pos : U64} {td : List U64} {i : Nat}
    (h : td.findIdx? (· == LeftChild pos tr) = some i) (p : U64) :
    saG tr (row + 1) pos td p =
      saG tr row (RightChild pos tr) (td.eraseIdx i) (moveDownPosition tr pos (LeftChild pos tr) p) := by
  simp only [saG, h]

theorem saTd_none {tr : U8} {row : Nat} {pos : U64} {td : List U64}
    (h : td.findIdx? (· == LeftChild pos tr) = none) :
    saTd tr (row + 1) pos td = saTd tr row (RightChild pos tr) td := by
  simp only [saTd, h]

theorem saTd_some {tr : U8} {row : Nat} {pos : U64} {td : List U64} {i : Nat}
    (h : td.findIdx? (· == LeftChild pos tr) = some i) :
    saTd tr (row + 1) pos td = saTd tr row (RightChild pos tr) (td.eraseIdx i) := by
  simp only [saTd, h]

theorem loop_eq (tr : U8) : ∀ (row : Nat) (pos : U64) (positions td : List U64) (idx0 : Int),
    undoSingleAddLoop tr (row + 1) pos positions td idx0 =
      (positions.map (saG tr (row + 1) pos td), saTd tr (row + 1) pos td,
        if sliceIndex (positions.map (saG tr (row + 1) pos td)) (saLast tr row pos) != -1 then
          sliceIndex (positions.map (saG tr (row + 1) pos td)) (saLast tr row pos) else idx0) := by
  intro row
  induction row with
  | zero =>
    intro pos positions td idx0
    cases hf : td.findIdx? (· == LeftChild pos tr) with
    | none => simp [undoSingleAddLoop, saG, saTd, saLast, hf]
    | some i => simp [undoSingleAddLoop, saG, saTd, saLast, hf, moveDownPositions]
  | succ row ih =>
    intro pos positions td idx0
    rw [undoSingleAddLoop]
    simp only [Nat.add_one_ne_zero, if_false]
    cases hf : td.findIdx? (· == LeftChild pos tr) with
    | none =>
      have hG : saG tr (row + 1 + 1) pos td = saG tr (row + 1) (RightChild pos tr) td :=
        funext (saG_none hf)
      simp only
      rw [ih, hG, saTd_none hf]
      rfl
    | some i =>
      have hG : positions.map (saG tr (row + 1 + 1) pos td) =
          (moveDownPositions tr pos (LeftChild pos tr) positions).map
            (saG tr (row + 1) (RightChild pos tr) (td.eraseIdx i)) := by
        unfold moveDownPositions
        rw [List.map_map]
        apply List.map_congr_left
        intro p _
        exact saG_some hf p
      simp only
      rw [ih, hG, saTd_some hf]
      rfl

/-! ### the loop on the spine of the new tree -/

theorem spine_valid {n l : Nat} (hn : n < 2 ^ 63) (hl : l ≤ 63) : Valid 63 (l, n / 2 ^ l) := by
  refine ⟨hl, ?_⟩
  simp only
  rw [Nat.div_lt_iff_lt_mul (Nat.two_pow_pos l), ← Nat.pow_add, show 63 - l + l = 63 by omega]
  exact hn

theorem root_valid {n j : Nat} (hn : n < 2 ^ 63) (hj : j ≤ 62) : Valid 63 (j, 2 * (n / 2 ^ (j + 1))) := by
  refine ⟨by simp only; omega, ?_⟩
  simp only
  have : n / 2 ^ (j + 1) < 2 ^ (63 - (j + 1)) := by
    rw [Nat.div_lt_iff_lt_mul (Nat.two_pow_pos _), ← Nat.pow_add, show 63 - (j + 1) + (j + 1) = 63 by omega]
    exact hn
  have e : 2 ^ (63 - j) = 2 * 2 ^ (63 - (j + 1)) := by
    rw [show 63 - j = (63 - (j + 1)) + 1 by omega, Nat.pow_succ]; omega
  rw [e]
  omega

theorem trailing_le {n k : Nat} (hk : ∀ j, j < k → n.testBit j = true) (hn : n < 2 ^ 62) : k ≤ 62 := by
  apply Classical.byContradiction
  intro hc
  have := hk 62 (by omega)
  rw [Nat.testBit_lt_two_pow hn] at this
  cases this

theorem moveDownP_valid {top p : Pos} (ht : Valid 63 top) (hp : Valid 63 p)
    (hp1 : (p = top ∨ (p.1 < top.1 ∧ p.2 / 2 ^ (top.1 - p.1) = top.2)) → 1 ≤ p.1) :
    Valid 63 (moveDownP top p) := by
  unfold moveDownP
  split
  · rename_i hc
    have h1 := hp1 hc
    have hle : p.1 ≤ top.1 := by
      rcases hc with e | e
      · rw [e]; exact Nat.le_refl _
      · exact Nat.le_of_lt e.1
    refine ⟨by simp only; have := hp.1; omega, ?_⟩
    simp only
    have := addBitNat_lt (v := p.2) (p := top.1 - p.1) (k := 63 - p.1) true
      (by have := ht.1; omega) hp.2
    rwa [show 63 - p.1 + 1 = 63 - (p.1 - 1) by have := hp.1; omega] at this
  · exact hp

/-- the hypotheses on `toDestroy` when the walk is at spine level `l` -/
def Htd (n : Nat) (dz : Nat → Bool) (l : Nat) (td : List U64) : Prop :=
  td.Nodup ∧ (∀ j, j < l → (E 63 (j, 2 * (n / 2 ^ (j + 1))) ∈ td ↔ dz j = true)) ∧
    LeftChild (E 63 (0, n)) (H8 63) ∉ td

section
variable {n k : Nat} (hk : ∀ j, j < k → n.testBit j = true) (hn : n < 2 ^ 62) (dz : Nat → Bool)
include hk hn

theorem spine_left {l : Nat} (hl : l < k) :
    LeftChild (E 63 (l + 1, n / 2 ^ (l + 1))) (H8 63) = E 63 (l, 2 * (n / 2 ^ (l + 1))) := by
  have hk62 := trailing_le hk hn
  have hv := spine_valid (n := n) (l := l + 1) (by omega) (by omega)
  unfold E
  exact leftChild_enc (by decide) (by omega) hv.2

theorem spine_right {l : Nat} (hl : l < k) :
    RightChild (E 63 (l + 1, n / 2 ^ (l + 1))) (H8 63) = E 63 (l, n / 2 ^ l) := by
  have hk62 := trailing_le hk hn
  have hv := spine_valid (n := n) (l := l + 1) (by omega) (by omega)
  unfold E
  rw [rightChild_enc (by decide) (by omega) hv.2, ← trailing_odd hk hl]

theorem Htd.erase {l : Nat} {td : List U64} (hl : l < k) (h : Htd n dz (l + 1) td) :
    Htd n dz l (td.erase (E 63 (l, 2 * (n / 2 ^ (l + 1))))) := by
  have hk62 := trailing_le hk hn
  obtain ⟨h1, h2, h3⟩ := h
  refine ⟨h1.erase _, fun j hj => ?_, fun hm => h3 (List.mem_of_mem_erase hm)⟩
  rw [h1.mem_erase_iff, ← h2 j (by omega)]
  constructor
  · exact fun h => h.2
  · intro hm
    refine ⟨fun e => ?_, hm⟩
    have := E_inj (by decide) (root_valid (by omega) (by omega)) (root_valid (by omega) (by omega)) e
    injection this with e1 _
    omega

theorem Htd.mono {l : Nat} {td : List U64} (h : Htd n dz (l + 1) td) : Htd n dz l td :=
  ⟨h.1, fun j hj => h.2.1 j (by omega), h.2.2⟩

/-- **the loop on encoded positions is the walk `gP`** -/
theorem saG_E : ∀ (l : Nat) (td : List U64) (p : Pos), l ≤ k → Htd n dz l td → Valid 63 p →
    gPS n dz l p →
    saG (H8 63) (l + 1) (E 63 (l, n / 2 ^ l)) td (E 63 p) = E 63 (gP n dz l p) := by
  have hk62 := trailing_le hk hn
  intro l
  induction l with
  | zero =>
    intro td p _ htd hp _
    rcases find_cases td (LeftChild (E 63 (0, n / 2 ^ 0)) (H8 63)) with ⟨hm, _⟩ | ⟨_, hf⟩
    · simp only [Nat.pow_zero, Nat.div_one] at hm
      exact absurd hm htd.2.2
    · rw [saG_none hf]; rfl
  | succ l ih =>
    intro td p hl htd hp hsafe
    have hlk : l < k := by omega
    have hleft := spine_left hk hn hlk
    have hright := spine_right hk hn hlk
    have htopv : Valid 63 (l + 1, n / 2 ^ (l + 1)) := spine_valid (by omega) (by omega)
    obtain ⟨hs1, hs2⟩ := hsafe
    rcases find_cases td (LeftChild (E 63 (l + 1, n / 2 ^ (l + 1))) (H8 63)) with
      ⟨hm, i, hf, he⟩ | ⟨hm, hf⟩
    · have hdz : dz l = true := (htd.2.1 l (by omega)).mp (by rw [← hleft]; exact hm)
      rw [saG_some hf, he, hright, hleft]
      have hmv := moveDownPosition_E (top := (l + 1, n / 2 ^ (l + 1))) (p := p) htopv (by simp) hp
        (hs1 hdz)
      simp only [Nat.add_sub_cancel] at hmv
      rw [hmv]
      simp only [gP, hdz, if_true]
      rw [hdz] at hs2
      simp only [if_true] at hs2
      exact ih _ _ (by omega) (Htd.erase hk hn dz hlk htd)
        (moveDownP_valid htopv hp (hs1 hdz)) hs2
    · have hdz : dz l = false := by
        cases h : dz l with
        | false => rfl
        | true => exact absurd (by rw [hleft]; exact (htd.2.1 l (by omega)).mpr h) hm
      rw [saG_none hf, hright]
      simp only [gP, hdz, Bool.false_eq_true, if_false]
      rw [hdz] at hs2
      simp only [Bool.false_eq_true, if_false] at hs2
      exact ih _ _ (by omega) (Htd.mono hk hn dz htd) hp hs2

/-- what is left of `toDestroy` -/
theorem saTd_spec : ∀ (l : Nat) (td : List U64), l ≤ k → Htd n dz l td →
    (saTd (H8 63) (l + 1) (E 63 (l, n / 2 ^ l)) td).Nodup ∧
    ∀ y, y ∈ saTd (H8 63) (l + 1) (E 63 (l, n / 2 ^ l)) td ↔
      (y ∈ td ∧ ∀ j, j < l → dz j = true → y ≠ E 63 (j, 2 * (n / 2 ^ (j + 1)))) := by
  intro l
  induction l with
  | zero =>
    intro td _ htd
    rcases find_cases td (LeftChild (E 63 (0, n / 2 ^ 0)) (H8 63)) with ⟨hm, _⟩ | ⟨_, hf⟩
    · simp only [Nat.pow_zero, Nat.div_one] at hm
      exact absurd hm htd.2.2
    · rw [saTd_none hf]
      exact ⟨htd.1, fun y => ⟨fun h => ⟨h, fun j hj => by omega⟩, fun h => h.1⟩⟩
  | succ l ih =>
    intro td hl htd
    have hlk : l < k := by omega
    have hleft := spine_left hk hn hlk
    have hright := spine_right hk hn hlk
    rcases find_cases td (LeftChild (E 63 (l + 1, n / 2 ^ (l + 1))) (H8 63)) with
      ⟨hm, i, hf, he⟩ | ⟨hm, hf⟩
    · have hdz : dz l = true := (htd.2.1 l (by omega)).mp (by rw [← hleft]; exact hm)
      rw [saTd_some hf, he, hright, hleft]
      obtain ⟨h1, h2⟩ := ih _ (by omega) (Htd.erase hk hn dz hlk htd)
      refine ⟨h1, fun y => ?_⟩
      rw [h2 y, htd.1.mem_erase_iff]
      constructor
      · rintro ⟨⟨hne, hy⟩, hall⟩
        refine ⟨hy, fun j hj hd => ?_⟩
        rcases Nat.lt_or_ge j l with h | h
        · exact hall j h hd
        · have : j = l := by omega
          subst this; exact hne
      · rintro ⟨hy, hall⟩
        exact ⟨⟨hall l (by omega) hdz, hy⟩, fun j hj hd => hall j (by omega) hd⟩
    · have hdz : dz l = false := by
        cases h : dz l with
        | false => rfl
        | true => exact absurd (by rw [hleft]; exact (htd.2.1 l (by omega)).mpr h) hm
      rw [saTd_none hf, hright]
      obtain ⟨h1, h2⟩ := ih _ (by omega) (Htd.mono hk hn dz htd)
      refine ⟨h1, fun y => ?_⟩
      rw [h2 y]
      constructor
      · rintro ⟨hy, hall⟩
        refine ⟨hy, fun j hj hd => ?_⟩
        rcases Nat.lt_or_ge j l with h | h
        · exact hall j h hd
        · have : j = l := by omega
          subst this; rw [hdz] at hd; cases hd
      · rintro ⟨hy, hall⟩
        exact ⟨hy, fun j hj hd => hall j (by omega) hd⟩

theorem saLast_spine : ∀ (l : Nat), l ≤ k → saLast (H8 63) l (E 63 (l, n / 2 ^ l)) = E 63 (0, n) := by
  intro l
  induction l with
  | zero => intro _; simp [saLast]
  | succ l ih =>
    intro hl
    rw [saLast, spine_right hk hn (by omega)]
    exact ih (by omega)

end

/-! ### `undoSingleAdd` -/

theorem E63_leaf {s : Nat} : E 63 (0, s) = BitVec.ofNat 64 s := by
  unfold E encU
  rw [enc_val]
  congr 1
  simp

/-- **`undoSingleAdd`, undoing the addition of slot `n`** (`k` = number of trailing one digits
of `n`): the three results are the position-wise map `saG`, the remaining `toDestroy`, and the
index of the leaf `(0, n)` among the mapped positions -/
theorem undoSingleAdd_eq {n k : Nat} (hk : ∀ j, j < k → n.testBit j = true) (hk0 : n.testBit k = false)
    (hn : n < 2 ^ 62) (positions td : List U64) :
    undoSingleAdd (H8 63) positions td (BitVec.ofNat 64 (n + 1)) =
      (positions.map (saG (H8 63) (k + 1) (E 63 (k, n / 2 ^ k)) td),
        saTd (H8 63) (k + 1) (E 63 (k, n / 2 ^ k)) td,
        if sliceIndex (positions.map (saG (H8 63) (k + 1) (E 63 (k, n / 2 ^ k)) td)) (E 63 (0, n)) != -1
        then sliceIndex (positions.map (saG (H8 63) (k + 1) (E 63 (k, n / 2 ^ k)) td)) (E 63 (0, n))
        else -1) := by
  have hk62 := trailing_le hk hn
  have hN : n + 1 ≤ 2 ^ 63 := by omega
  have hT := treeRows_eq' hN
  have hrows := rows_le_63 hN
  have hNat := N_toNat hN
  have hbit : (n + 1).testBit k = true := succ_testBit_k hk hk0
  have hroot : 2 * ((n + 1) / 2 ^ (k + 1)) = n / 2 ^ k := by
    rw [succ_div_high hk hk0 (Nat.lt_succ_self k), ← root_k hk0]
  have hcap := SpecView.le_two_pow_forestRows (n + 1)
  have hpos : BitVec.ofNat 64 (n + 1) - 1#64 = encU (forestRows (n + 1)) 0 n := by
    have e : encU (forestRows (n + 1)) 0 n = BitVec.ofNat 64 n := by
      unfold encU; rw [enc_val]; congr 1; simp
    rw [e]
    apply BitVec.eq_of_toNat_eq
    rw [BitVec.toNat_sub, hNat, BitVec.toNat_ofNat]
    simp only [BitVec.toNat_ofNat]
    omega
  have hdet : (DetectOffset (BitVec.ofNat 64 (n + 1) - 1#64) (BitVec.ofNat 64 (n + 1))).1 =
      BitVec.ofNat 8 ((treeRows (n + 1)).idxOf k) := by
    rw [hpos, detectOffset_enc (R := k) (BitVec.ofNat 64 (n + 1)) hT hrows (Nat.zero_le _)
      (by rw [Nat.sub_zero]; omega) (by rw [hNat]; exact hbit)
      (by rw [hNat, Nat.sub_zero]; simp only [rootPos, Nat.shiftRight_eq_div_pow]; exact hroot.symm), hNat]
  have hmem : k ∈ treeRows (n + 1) := Spec.mem_treeRows.mpr ⟨by omega, hbit⟩
  have hsub : subtreeRow (BitVec.ofNat 64 (n + 1)) (BitVec.ofNat 8 ((treeRows (n + 1)).idxOf k)) = H8 k := by
    apply subtreeRow_spec (BitVec.ofNat 64 (n + 1)) hT hrows
    rw [hNat, List.getElem?_eq_getElem (List.idxOf_lt_length_of_mem hmem), List.getElem_idxOf]
  have hrp : rootPosition (BitVec.ofNat 64 (n + 1)) (H8 k) (H8 63) = E 63 (k, n / 2 ^ k) := by
    rw [rootPosition_enc (by decide) (by omega) _ (by rw [hNat]; omega), hNat]
    unfold E
    simp only [rootPos, Nat.shiftRight_eq_div_pow, hroot]
  unfold undoSingleAdd
  simp only [hdet, hsub, hrp, toNat_H8 (show k ≤ 63 by omega)]
  rw [loop_eq, saLast_spine hk hn k (Nat.le_refl _)]

end UtreexoVerif.Proofs.SchedAddU
