/-
  Pointer forest, heap model: `Prove` on a represented forest returns the canonical proof of
  the specification (`Spec.Forest.canon`) — the pointer-forest counterpart of
  `Proofs/MapProve.lean`.
-/
import UtreexoVerif.Proofs.PollardHeapQuery
import UtreexoVerif.Proofs.MapProve
set_option linter.unusedSectionVars false
set_option linter.unusedVariables false
set_option linter.unusedSimpArgs false

namespace UtreexoVerif.Proofs.PollardHeap
open UtreexoVerif UtreexoVerif.GoInt UtreexoVerif.Model UtreexoVerif.Model.PollardHeap UtreexoVerif.Spec Hasher
open UtreexoVerif.Model.PollardAbs UtreexoVerif.Proofs.SpecNodes UtreexoVerif.Proofs.SpecSubs
open UtreexoVerif.Proofs.PollardLookup UtreexoVerif.Proofs.SpecView UtreexoVerif.Proofs.MapInv
open UtreexoVerif.Proofs.MapProve UtreexoVerif.Proofs.Movement

variable {H : Type} [DecidableEq H] [Hasher H]

/-! ### `mapM` in the state monad, on read-only actions -/

theorem mapM_loop_ok {α β : Type} (f : α → PM H β) (g : α → β) (st : Pollard H) :
    ∀ (l : List α) (acc : List β), (∀ a ∈ l, f a st = (.ok (g a), st)) →
    List.mapM.loop f l acc st = (.ok (acc.reverse ++ l.map g), st) := by
  intro l
  induction l with
  | nil => intro acc _; simp [List.mapM.loop]
  | cons a l ih =>
    intro acc h
    rw [List.mapM.loop]
    simp only [bind_apply, h a (by simp)]
    rw [ih _ (fun b hb => h b (by simp [hb]))]
    simp

theorem mapM_ok {α β : Type} (f : α → PM H β) (g : α → β) (st : Pollard H) (l : List α)
    (h : ∀ a ∈ l, f a st = (.ok (g a), st)) : l.mapM f st = (.ok (l.map g), st) := by
  unfold List.mapM
  rw [mapM_loop_ok f g st l [] h]
  simp

theorem mapM_option_map {α β : Type} (f : α → Option β) (g : α → β) :
    ∀ (l : List α), (∀ a ∈ l, f a = some (g a)) → l.mapM f = some (l.map g) := by
  intro l
  induction l with
  | nil => intro _; rfl
  | cons a l ih =>
    intro h
    rw [List.mapM_cons, h a (by simp), ih (fun b hb => h b (by simp [hb]))]
    rfl

/-! ### the proof hashes -/

/-- every canonical proof position carries a node with a non-zero hash -/
theorem proofPosition_node (hph : ∀ a b : H, ph a b ≠ (zero : H)) {F : Forest H}
    (hnz : ∀ x ∈ F.liveLeaves, x ≠ (zero : H)) {tg : List Pos}
    (hyp : PPHyp F.numLeaves tg) (htg : ∀ t ∈ tg, ∃ x, F.posOf x = some t) {q : Pos}
    (hq : q ∈ F.proofPositions tg) :
    ∃ R s, SubAtT F R q s ∧ s.hash ≠ zero := by
  obtain ⟨w, ⟨t, ht, R, hb, hanc, hle⟩, hnr, rfl, _⟩ := (mem_spec_proofPositions F hyp q).1 hq
  obtain ⟨x, hx⟩ := htg t ht
  obtain ⟨R', st⟩ := posOf_sub hx
  -- the tree of the target
  have hRR : R = R' := by
    have hu := st.under
    exact belowRoot_unique hb ⟨hu.1, st.bit, hu.2⟩
  subst hRR
  obtain ⟨a1, a2⟩ := hanc
  obtain ⟨ta, sa, _⟩ := anc_node st (w.1 - t.1) (by omega)
  have ew : (t.1 + (w.1 - t.1), t.2 / 2 ^ (w.1 - t.1)) = w := by
    rw [show t.1 + (w.1 - t.1) = w.1 by omega, ← a2]
  rw [ew] at sa
  obtain ⟨_, s', _, ssib⟩ := sa.parent hnr
  refine ⟨R, s', ssib, ?_⟩
  apply Spec.CTree.hash_ne_zero hph
  intro y hy
  exact hnz y (ssib.leaves_live y hy)

/-- **`Prove` on a represented forest** returns the canonical proof: for every duplicate-free
non-empty list of live leaves of a forest with more than one leaf (root hashes pairwise
different, live leaves non-zero) `Prove` succeeds, leaves the state unchanged and returns the
targets of `canon F hs` (the leaf positions, in request order) with exactly its proof hashes -/
theorem prove_abs (hph : ∀ a b : H, ph a b ≠ (zero : H)) {p : Pollard H} {F : Forest H}
    (a : Abs p F) (hn : F.numLeaves < 2 ^ 63) (hroots : F.roots.Nodup)
    (hnz : ∀ x ∈ F.liveLeaves, x ≠ (zero : H)) (hs : List H)
    (hlive : ∀ h ∈ hs, h ∈ F.liveLeaves) (hnd : hs.Nodup) (h1 : 1 < F.numLeaves) (hne : hs ≠ []) :
    ∃ ts ps, F.canon hs = some (ts, ps) ∧
      prove hs p = (.ok (ts.map (encP F.rows), ps), p) := by
  have htr : F.rows ≤ 63 := forestRows_le_63 hn
  have hnl := a.numLeaves
  have hN : p.numLeaves = BitVec.ofNat 64 F.numLeaves := by rw [← hnl]; simp
  have hT : TreeRows p.numLeaves = H8 F.rows := by rw [hN]; exact treeRows_eq hn
  obtain ⟨tgts, htg⟩ : ∃ tgts, tgts = hs.map (fun h => (F.posOf h).getD (0, 0)) := ⟨_, rfl⟩
  have hpos : ∀ h ∈ hs, F.posOf h = some ((F.posOf h).getD (0, 0)) := by
    intro h hh
    obtain ⟨q, hq⟩ := Spec.posOf_isSome_of_live (by omega) (hlive h hh)
    rw [hq]; rfl
  have hm1 : hs.mapM F.posOf = some tgts := by
    rw [htg]; exact mapM_option_map _ _ hs hpos
  have h3 : ∀ t ∈ tgts, ∃ x, x ∈ hs ∧ F.posOf x = some t := by
    intro t ht
    rw [htg] at ht
    obtain ⟨x, hx, rfl⟩ := List.mem_map.1 ht
    exact ⟨x, hx, hpos x hx⟩
  have h4 : tgts.Nodup := by
    rw [htg]
    exact ProofUpdateDeTwin.leafPositions_nodup (by omega) hnd hlive
  have htv : ∀ t ∈ tgts, CalcGeo.Valid F.rows t := by
    intro t ht
    obtain ⟨x, _, hp⟩ := h3 t ht
    exact MapPrune.posOf_valid (Nat.le_refl _) hp
  -- the targets computed through the heap
  have hel2 : ∀ h ∈ hs, ∃ c, mapGet p.nodeMap h = some c ∧
      PollardHeap.calculatePosition (some c) p = (.ok (encP F.rows ((F.posOf h).getD (0, 0))), p) := by
    intro h hh
    obtain ⟨c, q, hget, hq, hcalc⟩ := leafLookup_abs a hn hroots (hlive h hh)
    exact ⟨c, hget, by rw [hcalc, hq]; rfl⟩
  have hmap2 : hs.map (fun h => encP F.rows ((F.posOf h).getD (0, 0))) = tgts.map (encP F.rows) := by
    rw [htg, List.map_map]; rfl
  -- the sorted targets satisfy the hypotheses of `proofPositions_spec`
  have hyp : PPHyp F.numLeaves (sortPos tgts) := {
    inForest := by
      intro t ht
      obtain ⟨x, _, hp⟩ := h3 t (mem_sortPos.1 ht)
      exact posOf_belowRoot hp
    sorted := sortPos_ssorted h4
    anti := by
      intro a ha b hb hab
      obtain ⟨x, _, hpa⟩ := h3 a (mem_sortPos.1 ha)
      obtain ⟨y, _, hpb⟩ := h3 b (mem_sortPos.1 hb)
      exact posOf_antichain hpa hpb hab }
  have hPP := Props.C16.proofPositions_spec F (H := F.rows) (h := F.rows) p.numLeaves hnl hT htr
    (Nat.le_refl _) (sortPos tgts) hyp
  have hcongr : F.proofPositions (sortPos tgts) = F.proofPositions tgts :=
    proofPositions_congr (fun t => mem_sortPos)
  rw [hcongr] at hPP
  have hsort : sortU64 (tgts.map (encP F.rows)) = (sortPos tgts).map (encP F.rows) :=
    sortU64_encP htr tgts htv
  -- the proof hashes
  have hnode : ∀ q ∈ F.proofPositions tgts, ∃ R s, SubAtT F R q s ∧ s.hash ≠ zero := by
    intro q hq
    rw [← hcongr] at hq
    exact proofPosition_node hph hnz hyp (fun t ht => by
      obtain ⟨x, _, hp⟩ := h3 t (mem_sortPos.1 ht); exact ⟨x, hp⟩) hq
  obtain ⟨ps, hps⟩ : ∃ ps, ps = (F.proofPositions tgts).map (fun q => (F.nodeAt q).getD zero) :=
    ⟨_, rfl⟩
  have hm3 : (F.proofPositions tgts).mapM F.nodeAt = some ps := by
    rw [hps]
    apply mapM_option_map
    intro q hq
    obtain ⟨R, s, ss, _⟩ := hnode q hq
    rw [ss.nodeAt]; rfl
  have hel4 : ∀ u ∈ (F.proofPositions tgts).map (encP F.rows),
      getHash u p = (.ok (pollardGetHashNiece F u), p) ∧ pollardGetHashNiece F u ≠ zero := by
    intro u hu
    obtain ⟨q, hq, rfl⟩ := List.mem_map.1 hu
    obtain ⟨R, s, ss, hsz⟩ := hnode q hq
    have e : pollardGetHashNiece F (encP F.rows q) = s.hash := by
      rw [Props.C10.pollardGetHashNiece_eq]
      exact Props.C10.getHash_node F hn ss.node_mem
    exact ⟨getHash_abs a _, by rw [e]; exact hsz⟩
  have hmap4 : ((F.proofPositions tgts).map (encP F.rows)).map (fun u => pollardGetHashNiece F u) = ps := by
    rw [hps, List.map_map]
    apply List.map_congr_left
    intro q hq
    obtain ⟨R, s, ss, hsz⟩ := hnode q hq
    simp only [Function.comp]
    rw [Props.C10.pollardGetHashNiece_eq]
    have : pollardGetHash F (encP F.rows q) = s.hash := Props.C10.getHash_node F hn ss.node_mem
    rw [this, ss.nodeAt]; rfl
  refine ⟨tgts, ps, ?_, ?_⟩
  · unfold Forest.canon
    rw [hm1]
    simp only [Option.bind_eq_bind, Option.bind_some, hm3]
    rfl
  · have hemp : hs.isEmpty = false := by
      cases hs with
      | nil => exact absurd rfl hne
      | cons _ _ => rfl
    have hn0 : (p.numLeaves == 0#64) = false := by
      rw [beq_eq_false_iff_ne]
      intro e
      have := congrArg BitVec.toNat e
      rw [hnl] at this
      have e0 : (0#64 : U64).toNat = 0 := rfl
      omega
    have hn1 : (p.numLeaves == 1#64) = false := by
      rw [beq_eq_false_iff_ne]
      intro e
      have := congrArg BitVec.toNat e
      rw [hnl] at this
      have e1 : (1#64 : U64).toNat = 1 := rfl
      omega
    unfold prove
    simp only [bind_apply, getNumLeaves_apply, hemp, hn0, hn1, Bool.or_self, Bool.false_eq_true,
      if_false]
    rw [mapM_ok _ (fun h => encP F.rows ((F.posOf h).getD (0, 0))) p hs (by
      intro h hh
      obtain ⟨c, e1, e2⟩ := hel2 h hh
      simp only [bind_apply, nodeMapGet_apply, e1, e2])]
    simp only [hmap2, hsort, hT, hPP]
    by_cases he : ((F.proofPositions tgts).map (encP F.rows)).isEmpty = true
    · simp only [he, if_true, pure_apply]
      have : F.proofPositions tgts = [] := by
        cases hq : F.proofPositions tgts with
        | nil => rfl
        | cons _ _ => rw [hq] at he; simp at he
      rw [hps, this]; rfl
    · simp only [he, Bool.false_eq_true, if_false, bind_apply]
      rw [mapM_ok _ (fun u => pollardGetHashNiece F u) p _ (by
        intro u hu
        obtain ⟨e1, e2⟩ := hel4 u hu
        simp only [bind_apply, e1, e2, if_false, pure_apply])]
      simp only [hmap4, pure_apply]

end UtreexoVerif.Proofs.PollardHeap
